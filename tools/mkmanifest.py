#!/usr/bin/env python3
"""Regenerates MANIFEST.json from the registry below (one entry per claimed property)."""
import json
import os
import re
import subprocess

VERIF = os.path.dirname(os.path.dirname(os.path.abspath(__file__)))

import importlib
import sys
sys.path.insert(0, os.path.join(VERIF, "tools"))

# every tools/props/cXX.py that defines MANIFEST = dict(category, text, design_ref, note, technique) is claimed
CLAIMED = {}
for _n in sorted(os.listdir(os.path.join(VERIF, "tools", "props"))):
    if re.match(r"c\d+\.py$", _n):
        _m = importlib.import_module("props." + _n[:-3])
        if getattr(_m, "MANIFEST", None):
            CLAIMED[_n[:-3].upper()] = _m.MANIFEST

NOT_APPLICABLE = {
    "C24": "a finite list of ~177 concrete documentation snippets run through the whole interpreter and FFI; executing them is a test, and a theorem would need a model of the entire standard library and FFI (DESIGN.md §6 C24)",
}

PENDING_REASON = "check not built yet in this revision (design in DESIGN.md §6); not claimed"


def main():
    ids = [json.loads(l)["id"] for l in open(os.path.join(VERIF, "properties.jsonl"))]
    try:
        commits = subprocess.run(["git", "-C", "/repo", "log", "--format=%H %s", "e9ff5a9..HEAD"],
                                 capture_output=True, text=True).stdout.strip().splitlines()
    except Exception:
        commits = []
    hooks = [c.split()[0] for c in commits if "verif hook" in c]
    checks = []
    for pid in ids:
        if pid not in CLAIMED:
            continue
        c = CLAIMED[pid]
        checks.append({
            "property_id": pid,
            "quick_cmd": "./check %s quick" % pid,
            "thorough_cmd": "./check %s thorough" % pid,
            "evidence_file": "evidence/%s.json" % pid,
            "replay_cmd_template": "./check %s --replay {path}" % pid,
            "engine": "coq",
            "level_claimed": {"category": c["category"], "text": c["text"], "design_ref": c["design_ref"]},
            "level_note": c["note"],
            "technique": c["technique"],
        })
    na = []
    for pid in ids:
        if pid in CLAIMED:
            continue
        na.append({"property_id": pid, "reason": NOT_APPLICABLE.get(pid, PENDING_REASON)})
    m = {
        "version": 1,
        "setup_cmd": "./setup.sh",
        "hooks": {
            "guard": "cargo feature `verif` of the numbat crate (#[cfg(feature = \"verif\")]), off by default",
            "enable": "only /verif/harness enables it: numbat = { path = \"/repo/numbat\", features = [\"html-formatter\", \"verif\"] }",
            "baseline_off_cmd": "cd /repo && cargo test --workspace --no-fail-fast --offline",
            "source_commits": hooks,
            # honest statement: the hook commits add guarded code only, with three exceptions that do not change
            # behaviour of a normal build: rustfmt re-wrapping of a few neighbouring unguarded lines (6010cfd,
            # a67c04b), and `Op::num_operands` (used by the debug disassembler only) learning the operand count
            # of Factorial (76c95dd)
            "add_only": False,
        },
        "engines": [
            {"name": "coq", "path": "coq/", "serves_properties": sorted(CLAIMED),
             "kind_free_text": "Coq 8.16.1 development: hand-written Gallina models (coq/theories/*/Model.v), property theorems in coq/theories/Props, generated tables in coq/theories/Gen, model evaluation by vm_compute inside coqc for the correspondence checks"},
            {"name": "harness", "path": "harness/", "serves_properties": sorted(CLAIMED),
             "kind_free_text": "Rust executor `nbverif` linking numbat from /repo's working tree with the verif feature: cases in, observations out"},
            {"name": "driver", "path": "tools/", "serves_properties": sorted(CLAIMED),
             "kind_free_text": "Python driver: seeded generators, translators, diffing, shrinking, known-finding matching, evidence"},
        ],
        "checks": checks,
        "notes": "Technique family: machine-checked proof in Coq; every claimed check = theorems + a checked tie (translator and/or correspondence). See DESIGN.md (status tables under 'Changes'; per-area annexes design/*.md). hooks.add_only is false only because three hook commits also carry rustfmt re-wrapping of neighbouring unguarded lines (6010cfd, a67c04b) and one adds the Factorial operand count to the debug-only Op::num_operands (76c95dd); no behaviour of a normal build changes and the suite passes with the feature off. Every other change to numbat is a `fix:` commit listed in known_findings.json.",
        "not_applicable": na,
    }
    with open(os.path.join(VERIF, "MANIFEST.json"), "w") as f:
        json.dump(m, f, indent=1)
    print("MANIFEST.json: %d checks, %d not claimed" % (len(checks), len(na)))


if __name__ == "__main__":
    main()
