#!/usr/bin/env python3
"""Regenerates MANIFEST.json from the registry below (one entry per claimed property)."""
import json
import os
import subprocess

VERIF = os.path.dirname(os.path.dirname(os.path.abspath(__file__)))

CLAIMED = {
    "C18": dict(
        category="proof",
        text="Machine-checked refinement proof (Coq): for every operation history, over any number of handles, the "
             "Arc/VecDeque/view model of numbat/src/list.rs returns exactly what plain immutable sequences return, "
             "never panics, and leaves every other handle's contents unchanged (C18_refines, C18_no_panic, "
             "C18_others_unchanged, C18_reachable_inv; all closed under the global context). The model is tied to the "
             "code by a per-step correspondence check on real NumbatList handles that also compares the internal "
             "representation (sharing classes, views, strong counts, allocation lengths) through a hook.",
        design_ref="DESIGN.md §6 C18",
        note="Trusted: Coq kernel + vm_compute; the hand port of list.rs in coq/theories/ListM/Model.v (validated by the "
             "correspondence on bounded-exhaustive and random histories, not proved against Rust); Arc::strong_count = "
             "number of live handles; element equality reflexive; memory safety is Rust's.",
        technique="Coq refinement proof (invariant + induction over histories) + model/implementation correspondence by vm_compute",
    ),
}

NOT_APPLICABLE = {
    "C24": "a finite list of ~177 concrete documentation snippets run through the whole interpreter and FFI; executing them is a test, and a theorem would need a model of the entire standard library and FFI (DESIGN.md §6 C24)",
}

PENDING_REASON = "check not built yet in this revision (design in DESIGN.md §6); not claimed"


def main():
    ids = [json.loads(l)["id"] for l in open(os.path.join(VERIF, "properties.jsonl"))]
    try:
        commits = subprocess.run(["git", "-C", "/repo", "log", "--format=%H %s", "e9ff5a9..HEAD"],
                                 capture_output=True, text=True).stdout.strip().splitlines()
    except Exception:
        commits = []
    hooks = [c.split()[0] for c in commits if "verif hook" in c]
    checks = []
    for pid in ids:
        if pid not in CLAIMED:
            continue
        c = CLAIMED[pid]
        checks.append({
            "property_id": pid,
            "quick_cmd": "./check %s quick" % pid,
            "thorough_cmd": "./check %s thorough" % pid,
            "evidence_file": "evidence/%s.json" % pid,
            "replay_cmd_template": "./check %s --replay {path}" % pid,
            "engine": "coq",
            "level_claimed": {"category": c["category"], "text": c["text"], "design_ref": c["design_ref"]},
            "level_note": c["note"],
            "technique": c["technique"],
        })
    na = []
    for pid in ids:
        if pid in CLAIMED:
            continue
        na.append({"property_id": pid, "reason": NOT_APPLICABLE.get(pid, PENDING_REASON)})
    m = {
        "version": 1,
        "setup_cmd": "./setup.sh",
        "hooks": {
            "guard": "cargo feature `verif` of the numbat crate (#[cfg(feature = \"verif\")]), off by default",
            "enable": "only /verif/harness enables it: numbat = { path = \"/repo/numbat\", features = [\"html-formatter\", \"verif\"] }",
            "baseline_off_cmd": "cd /repo && cargo test --workspace --no-fail-fast --offline",
            "source_commits": hooks,
            "add_only": True,
        },
        "engines": [
            {"name": "coq", "path": "coq/", "serves_properties": sorted(CLAIMED),
             "kind_free_text": "Coq 8.16.1 development: hand-written Gallina models (coq/theories/*/Model.v), property theorems in coq/theories/Props, generated tables in coq/theories/Gen, model evaluation by vm_compute inside coqc for the correspondence checks"},
            {"name": "harness", "path": "harness/", "serves_properties": sorted(CLAIMED),
             "kind_free_text": "Rust executor `nbverif` linking numbat from /repo's working tree with the verif feature: cases in, observations out"},
            {"name": "driver", "path": "tools/", "serves_properties": sorted(CLAIMED),
             "kind_free_text": "Python driver: seeded generators, translators, diffing, shrinking, known-finding matching, evidence"},
        ],
        "checks": checks,
        "notes": "Technique family: machine-checked proof in Coq; every claimed check = theorems + a checked tie (translator and/or correspondence). See DESIGN.md.",
        "not_applicable": na,
    }
    with open(os.path.join(VERIF, "MANIFEST.json"), "w") as f:
        json.dump(m, f, indent=1)
    print("MANIFEST.json: %d checks, %d not claimed" % (len(checks), len(na)))


if __name__ == "__main__":
    main()
