"""Shared machinery for the numbat verification checks (see DESIGN.md §1, §4).

Everything a check does goes through here: building the harness from /repo's
working tree, building the Coq cone of a property, reading Print Assumptions,
evaluating model cases inside coqc, writing evidence, reporting violations and
matching known findings.
"""
import concurrent.futures as cf
import hashlib
import json
import os
import random
import re
import shutil
import subprocess
import sys
import time

VERIF = os.path.dirname(os.path.dirname(os.path.abspath(__file__)))
REPO = os.environ.get("NV_REPO", "/repo")
COQ = os.path.join(VERIF, "coq")
HARNESS = os.path.join(VERIF, "harness")
WORK = os.path.join(VERIF, ".work")
EVID = os.path.join(VERIF, "evidence")
REPLAY = os.path.join(EVID, "replay")
NPROC = os.cpu_count() or 4

ENV = dict(os.environ)
ENV.update({"CARGO_NET_OFFLINE": "true", "LC_ALL": "C.UTF-8"})


class Broken(Exception):
    """The check itself could not run (build of /repo failed, tool missing)."""


def sh(cmd, cwd=None, timeout=None, inp=None, env=None):
    p = subprocess.run(cmd, cwd=cwd, input=inp, stdout=subprocess.PIPE,
                       stderr=subprocess.STDOUT, timeout=timeout,
                       env=env or ENV, text=True, errors="replace")
    return p.returncode, p.stdout


# ----------------------------------------------------------------- builds
def build_harness():
    """cargo build of /verif/harness: recompiles numbat from /repo's tree."""
    t0 = time.time()
    lock = os.path.join(HARNESS, "Cargo.lock")
    if not os.path.exists(lock):
        shutil.copy(os.path.join(REPO, "Cargo.lock"), lock)
    # the path dependency always points at the repository under test (NV_REPO for development
    # worktrees, /repo otherwise) — also repairs a path that was committed by mistake
    ct = os.path.join(HARNESS, "Cargo.toml")
    src = open(ct).read()
    new = re.sub(r'path = "[^"]*/numbat"', 'path = "%s/numbat"' % REPO, src)
    if new != src:
        open(ct, "w").write(new)
    rc, out = sh(["cargo", "build", "--offline", "--quiet"], cwd=HARNESS, timeout=1800)
    if rc != 0:
        raise Broken("harness/numbat build failed:\n" + out[-4000:])
    return os.path.join(HARNESS, "target", "debug", "nbverif"), time.time() - t0


_cli_built = None


def build_cli():
    """cargo build of numbat-cli in /repo (debug profile)."""
    global _cli_built
    if _cli_built:
        return _cli_built
    rc, out = sh(["cargo", "build", "--offline", "--quiet", "-p", "numbat-cli"],
                 cwd=REPO, timeout=1800)
    if rc != 0:
        raise Broken("numbat-cli build failed:\n" + out[-4000:])
    _cli_built = os.path.join(REPO, "target", "debug", "numbat")
    return _cli_built


def ensure_makefile():
    mk = os.path.join(COQ, "Makefile")
    proj = os.path.join(COQ, "_CoqProject")
    # _CoqProject lists every theories/**/*.v (generated files included)
    files = []
    for root, _, names in os.walk(os.path.join(COQ, "theories")):
        for n in names:
            if n.endswith(".v"):
                files.append(os.path.relpath(os.path.join(root, n), COQ))
    files.sort()
    head = ["-Q theories NV",
            "-arg -w -arg -notation-overridden,-deprecated-hint-without-locality,"
            "-deprecated-instance-without-locality,-ambiguous-paths,"
            "-deprecated-hint-rewrite-without-locality,-deprecated-syntactic-definition"]
    want = "\n".join(head + files) + "\n"
    have = open(proj).read() if os.path.exists(proj) else ""
    if want != have or not os.path.exists(mk):
        open(proj, "w").write(want)
        rc, out = sh(["coq_makefile", "-f", "_CoqProject", "-o", "Makefile"], cwd=COQ)
        if rc != 0:
            raise Broken("coq_makefile failed: " + out)


def build_coq(targets, timeout=1500):
    """Full .vo build (never -vos) of the given targets. Returns (ok, log)."""
    ensure_makefile()
    rc, out = sh(["make", "-j%d" % NPROC] + targets, cwd=COQ, timeout=timeout)
    return rc == 0, out


HYGIENE_RE = re.compile(
    r"\b(Admitted|admit|Axiom|Axioms|Parameter|Parameters|Conjecture|Admit Obligations)\b"
    r"|Unset Guard|bypass_check|type-in-type|impredicative-set|Unset Universe Checking"
    r"|Unset Positivity")


def _strip_comments(src):
    out, depth, i = [], 0, 0
    while i < len(src):
        if src.startswith("(*", i):
            depth += 1
            i += 2
        elif src.startswith("*)", i) and depth:
            depth -= 1
            i += 2
        else:
            if not depth:
                out.append(src[i])
            i += 1
    return "".join(out)


def hygiene():
    """No Admitted/admit/Axiom/Parameter/... anywhere in the development
    (comments ignored; `Variable`/`Hypothesis` are only allowed inside Sections,
    which coqc enforces by turning them into axioms that Print Assumptions shows)."""
    bad = []
    for root, _, names in os.walk(os.path.join(COQ, "theories")):
        for n in names:
            if not n.endswith(".v"):
                continue
            p = os.path.join(root, n)
            src = _strip_comments(open(p, errors="replace").read())
            # string literals may legitimately contain these words
            src = re.sub(r'"(?:[^"]|"")*"', '""', src)
            for m in HYGIENE_RE.finditer(src):
                bad.append("%s: %s" % (os.path.relpath(p, COQ), m.group(0)))
    return bad


STD_AXIOMS = {
    # axioms declared by Coq's standard library, allowed when named here
    "ClassicalDedekindReals.sig_forall_dec",
    "ClassicalDedekindReals.sig_not_dec",
    "FunctionalExtensionality.functional_extensionality_dep",
    "Classical_Prop.classic",
    "Eqdep.Eq_rect_eq.eq_rect_eq",
    "ProofIrrelevance.proof_irrelevance",
    "JMeq.JMeq_eq",
}


def print_assumptions(module, theorems):
    """Run coqc on a tiny file that prints the assumptions of each theorem.
    Returns {theorem: [axiom names]} ([] = closed under the global context)."""
    os.makedirs(WORK, exist_ok=True)
    stem = "Assume_" + module.replace(".", "_")
    path = os.path.join(WORK, stem + ".v")
    with open(path, "w") as f:
        f.write("From NV Require Import %s.\n" % module)
        for t in theorems:
            f.write('Goal True. idtac "@@THM %s". exact I. Qed.\n' % t)
            f.write("Print Assumptions %s.\n" % t)
    rc, out = sh(["coqc", "-noglob", "-Q", os.path.join(COQ, "theories"), "NV", path],
                 cwd=WORK, timeout=600)
    for ext in (".vo", ".vok", ".vos", ".glob"):
        try:
            os.remove(os.path.join(WORK, stem + ext))
        except OSError:
            pass
    if rc != 0:
        return None, out
    res, cur = {}, None
    for line in out.splitlines():
        if line.startswith("@@THM "):
            cur = line[6:].strip()
            res[cur] = []
        elif cur is not None:
            # `Axioms:` is the header; each axiom is an unindented `name : type` or a bare `name`
            # whose type follows on the next (indented) line
            if line.strip() in ("Axioms:", "Closed under the global context", ""):
                continue
            m = re.match(r"^([A-Za-z_][\w.']*)\s*(:|$)", line)
            if m and not line.startswith(" "):
                res[cur].append(m.group(1))
    return res, out


# ------------------------------------------------------------ harness I/O
def run_harness(binary, sub, lines, timeout=1200, shards=None, extra_args=()):
    """Feed case lines to `nbverif <sub>`; one output line per input line."""
    if not lines:
        return []
    shards = shards or min(NPROC, max(1, len(lines) // 200))
    chunks = [lines[i::shards] for i in range(shards)]

    def one(chunk):
        p = subprocess.run([binary, sub] + list(extra_args), input="\n".join(chunk) + "\n",
                           stdout=subprocess.PIPE, stderr=subprocess.PIPE, text=True,
                           errors="replace", timeout=timeout, env=ENV)
        outl = p.stdout.split("\n")
        if outl and outl[-1] == "":
            outl.pop()
        if p.returncode != 0 or len(outl) != len(chunk):
            # the process died (abort / stack overflow): find the culprit line by line
            outl = []
            for c in chunk:
                try:
                    q = subprocess.run([binary, sub] + list(extra_args), input=c + "\n",
                                       stdout=subprocess.PIPE, stderr=subprocess.PIPE,
                                       text=True, errors="replace", timeout=120, env=ENV)
                    o = q.stdout.split("\n")[0] if q.returncode == 0 and q.stdout else \
                        "@@CRASH rc=%s %s" % (q.returncode, q.stderr.strip()[-200:].replace("\n", " "))
                except subprocess.TimeoutExpired:
                    o = "@@TIMEOUT"
                outl.append(o)
        return outl

    with cf.ThreadPoolExecutor(max_workers=shards) as ex:
        res = list(ex.map(one, chunks))
    out = [None] * len(lines)
    for s, chunk_out in enumerate(res):
        for k, o in enumerate(chunk_out):
            out[s + k * shards] = o
    return out


# ------------------------------------------------------ model evaluation
def coq_string(s):
    return '"' + s.replace('"', '""') + '"'


MISMATCH_RE = re.compile(r'\((\d+)(?:%N)?,\s*"((?:[^"]|"")*)"\)', re.S)
SENTINEL = ('"@@sentinel-model"', "@@sentinel-impl")


def coq_mismatches(imports, items, tag, shard_size=400, timeout=900, prelude=""):
    """items: list of (coq_term_of_type_string, impl_string).
    Evaluates every model term by vm_compute inside coqc and returns
    {index: model_string} for those that differ from the implementation's
    string.  Sharded over the available cores."""
    os.makedirs(WORK, exist_ok=True)
    shards = [items[i:i + shard_size] for i in range(0, len(items), shard_size)]

    def one(k):
        stem = "Cases_%s_%d" % (tag, k)
        path = os.path.join(WORK, stem + ".v")
        with open(path, "w") as f:
            f.write("From NV Require Import Base.Show %s.\n" % " ".join(imports))
            f.write("Set Printing Width 1000000. Set Printing Depth 1000000.\n")
            f.write(prelude + "\n")
            f.write("Open Scope string_scope.\n")
            f.write("Definition cs : list (string * string) := [\n")
            # entry 0 is a sentinel that MUST be reported as a mismatch: guards the output parser
            f.write(";\n".join("(%s, %s)" % (t, coq_string(s)) for t, s in [SENTINEL] + list(shards[k])))
            f.write("\n]%list.\nEval vm_compute in mismatches cs.\n")
        rc, out = sh(["coqc", "-noglob", "-Q", os.path.join(COQ, "theories"), "NV", path],
                     cwd=WORK, timeout=timeout)
        for ext in (".vo", ".vok", ".vos", ".glob"):
            try:
                os.remove(os.path.join(WORK, stem + ext))
            except OSError:
                pass
        if rc != 0:
            raise Broken("coqc failed on %s:\n%s" % (path, out[-3000:]))
        os.remove(path)
        res = {}
        seen_sentinel = False
        for m in MISMATCH_RE.finditer(out):
            i = int(m.group(1))
            if i == 0:
                seen_sentinel = True
                continue
            res[k * shard_size + i - 1] = m.group(2).replace('""', '"')
        if not seen_sentinel:
            raise Broken("coqc output of %s not understood (sentinel mismatch missing):\n%s" % (stem, out[-1500:]))
        return res

    bad = {}
    with cf.ThreadPoolExecutor(max_workers=NPROC) as ex:
        for r in ex.map(one, range(len(shards))):
            bad.update(r)
    return bad


# ------------------------------------------------------------- shrinking
def shrink_list(ops, still_fails, max_rounds=200):
    """Delta-debugging on a list: remove chunks while the predicate holds."""
    ops = list(ops)
    n = 2
    rounds = 0
    while len(ops) >= 2 and rounds < max_rounds:
        rounds += 1
        chunk = max(1, len(ops) // n)
        removed = False
        for i in range(0, len(ops), chunk):
            cand = ops[:i] + ops[i + chunk:]
            if cand and still_fails(cand):
                ops = cand
                n = max(n - 1, 2)
                removed = True
                break
        if not removed:
            if chunk == 1:
                break
            n = min(len(ops), n * 2)
    return ops


# -------------------------------------------------------- known findings
def load_known():
    p = os.path.join(VERIF, "known_findings.json")
    if not os.path.exists(p):
        return []
    return json.load(open(p))["findings"]


# --------------------------------------------------------------- results
class Check:
    """Accumulates the outcome of one property check and writes the evidence."""

    def __init__(self, pid, tier, seed):
        self.pid, self.tier, self.seed = pid, tier, seed
        self.t0 = time.time()
        self.obligations = []      # (name, ok, axioms)
        self.trusted = []
        self.violations = []       # (replay_path, found_input)
        self.known_hits = []
        self.cov = {}
        self.assumptions = []
        self.notes = []
        self.rng = random.Random(seed * 1000003 + int(hashlib.sha1(pid.encode()).hexdigest()[:6], 16))
        os.makedirs(REPLAY, exist_ok=True)

    # ---- proof side
    def prove(self, module, theorems, vo_targets, allowed=(), extra_obligations=()):
        """Build the property's Coq cone and check the assumptions of every
        property theorem.  Returns True iff everything is discharged."""
        ok, log = build_coq(vo_targets)
        self.checker_cmd = "make -C coq -j%d %s  (coqc 8.16.1, full .vo build); Print Assumptions via coqc" % (
            NPROC, " ".join(vo_targets))
        bad = hygiene()
        if bad:
            ok = False
            log += "\nHYGIENE: " + "; ".join(bad)
        self.proof_log = log
        if not ok:
            for t in theorems:
                self.obligations.append((t, False, ["<build failed>"]))
            m = re.search(r'File "([^"]+)", line (\d+)[^\n]*\n(Error:?[^\n]*(?:\n[^\n]+){0,6})', log)
            self.proof_failure = ("%s:%s %s" % (m.group(1), m.group(2), m.group(3))) if m else log[-1500:]
            return False
        res, out = print_assumptions(module, theorems)
        if res is None:
            for t in theorems:
                self.obligations.append((t, False, ["<Print Assumptions failed>"]))
            self.proof_failure = out[-1500:]
            return False
        allok = True
        allowed = set(allowed)
        for t in theorems:
            ax = res.get(t)
            good = ax is not None and all(a in allowed for a in ax)
            self.obligations.append((t, good, ax if ax is not None else ["<missing>"]))
            if not good:
                allok = False
                self.proof_failure = "theorem %s depends on unexpected assumptions %s" % (t, ax)
        for name in extra_obligations:
            self.obligations.append((name, True, []))
        if allok and self.tier == "thorough":
            allok = self.coqchk(module, allowed)
        return allok

    def coqchk(self, module, allowed=()):
        """thorough tier: re-check the compiled property file and everything it depends on
        with the independent checker and compare the axioms it reports."""
        t0 = time.time()
        rc, out = sh(["coqchk", "-o", "-silent", "-Q", "theories", "NV", "NV." + module],
                     cwd=COQ, timeout=3000)
        ax = []
        m = re.search(r"\* Axioms:(.*?)\n\s*\n\* Constants/Inductives relying on type-in-type:(.*?)\n\s*\n"
                      r"\* Constants/Inductives relying on unsafe \(co\)fixpoints:(.*?)\n\s*\n"
                      r"\* Inductives whose positivity is assumed:(.*?)\n", out, re.S)
        ok = rc == 0 and m is not None
        if ok:
            ax = [a.strip() for a in m.group(1).split("\n") if a.strip() and a.strip() != "<none>"]
            unsafe = [g.strip() for g in (m.group(2), m.group(3), m.group(4)) if g.strip() != "<none>"]
            short = lambda a: ".".join(a.split(".")[-2:])
            bad = [a for a in ax if not any(a.endswith(x) or short(a) == short(x) for x in allowed)]
            if unsafe or bad:
                ok = False
                self.proof_failure = "coqchk: unexpected axioms %s / unsafe %s" % (bad, unsafe)
        else:
            self.proof_failure = "coqchk failed: " + out[-800:]
        self.obligations.append(("coqchk " + module, ok, ax))
        self.notes.append("coqchk -o %s: %s in %.0fs, axioms: %s" % (module, "ok" if ok else "FAILED", time.time() - t0, ax or "<none>"))
        return ok

    # ---- reporting
    def replay_path(self, n=None):
        n = len(self.violations) + 1 if n is None else n
        return os.path.join(REPLAY, "%s-%d.json" % (self.pid, n))

    def violation(self, replay_obj, found_input=True):
        path = self.replay_path()
        replay_obj = dict(replay_obj)
        replay_obj.setdefault("property", self.pid)
        replay_obj["failing_input_found"] = bool(found_input)
        with open(path, "w") as f:
            json.dump(replay_obj, f, indent=1, ensure_ascii=False)
        self.violations.append((path, found_input))
        print("VIOLATION property=%s replay=%s%s" % (
            self.pid, path, "" if found_input else " no-failing-input-found"), flush=True)

    def known(self, finding_id, what):
        self.known_hits.append(finding_id)
        print("KNOWN-FINDING: property=%s %s" % (self.pid, what), flush=True)

    def finish(self, level="proof"):
        cov = dict(self.cov)
        ob = len(self.obligations)
        cov.setdefault("obligations", ob)
        cov.setdefault("discharged", sum(1 for _, ok, _ in self.obligations if ok))
        cov.setdefault("checker_cmd", getattr(self, "checker_cmd", "n/a"))
        tb = ["Coq 8.16.1 kernel + vm_compute (no native_compute)"]
        for name, ok, ax in self.obligations:
            tb.append("%s: %s" % (name, "closed under the global context" if ok and not ax
                                  else "assumes " + ", ".join(ax)))
        cov.setdefault("trusted_base", tb + self.trusted)
        cov.setdefault("evaluations", 0)
        cov.setdefault("distinct_nontrivial", 0)
        cov.setdefault("samples", [])
        ev = {
            "property_id": self.pid, "tier": self.tier, "seed": self.seed, "level": level,
            "coverage": cov, "assumptions": self.assumptions,
            "wall_s": round(time.time() - self.t0, 2),
            "violations": len(self.violations),
            "known_findings_hit": sorted(set(self.known_hits)),
            "notes": self.notes,
        }
        os.makedirs(EVID, exist_ok=True)
        with open(os.path.join(EVID, self.pid + ".json"), "w") as f:
            json.dump(ev, f, indent=1, ensure_ascii=False)
        return 1 if self.violations else 0


def shape_hash(s):
    return hashlib.sha1(s.encode("utf-8", "replace")).hexdigest()[:12]
