#!/bin/bash
# Build the framework from files on disk only (offline).
set -e
cd "$(dirname "$0")"
export CARGO_NET_OFFLINE=true
[ -f harness/Cargo.lock ] || cp /repo/Cargo.lock harness/Cargo.lock
sed -i 's#path = "[^"]*/numbat"#path = "/repo/numbat"#' harness/Cargo.toml
(cd harness && cargo build --offline --quiet)
python3 - <<'PY'
import sys; sys.path.insert(0, "tools")
import common; common.ensure_makefile()
PY
timeout 3000 make -C coq -j"$(nproc)" > .work-setup.log 2>&1 || { tail -50 .work-setup.log; exit 1; }
rm -f .work-setup.log
echo "setup ok"
