(* C09 — runtime errors: when the reference evaluation ends in a runtime error of kind
   e, the machine running the compiled code stops with the same error.
   Fragment: struct LITERALS are excluded (the implementation evaluates their fields in
   reverse definition order, so with two failing fields it reports the other error) and
   format specifiers are assumed not to fail (JoinString formats the parts last to
   first, after all of them have been evaluated). *)
From Coq Require Import String List Bool Arith Lia.
From NV Require Import VM.Value VM.Ast VM.Bytecode VM.Compile VM.Machine VM.RefSem VM.SortLemmas VM.Proofs.
Import ListNotations.
Open Scope list_scope.

Section Err.
Context {Q : Type}.
Variable O : ops Q.
Variable lits : bool * bool.
Hypothesis Hnostruct : snd lits = false.
Hypothesis fmt_total : forall spec v, exists s, fmt_spec O spec v = Ok s.
Variable C : @compiled Q.
Variable W : @world Q.

Notation step := (Machine.step O C).
Notation steps := (Proofs.steps O C).
Notation St := (@Proofs.St Q).

Definition comp_err (ce : cenv) (L : list (string * value Q)) (fi fp : nat) (frs : list frame)
           (c : nat -> nat -> @frag Q) (e : string) : Prop :=
  forall nk na ip stk s,
    stack_ok W ce L fp stk -> m_last s = w_last W ->
    at_code C fi ip (f_code (c nk na)) -> consts_at C nk (f_consts (c nk na)) ->
    nomark (f_code (c nk na)) ->
    exists k s', steps k (St fi ip fp frs stk s) = Some s' /\ step s' = SErr e.

Definition expr_err (n : nat) : Prop :=
  forall vg vn vf L e err,
    eval O lits n W vg vn vf L e = Err err ->
    forall ce fi fp frs, cenv_rel O C W ce vg vn vf -> comp_err ce L fi fp frs (cexpr ce e) err.

Lemma bind_err {A B} : forall (r : res A) (f : A -> res B) e,
  bind r f = Err e -> r = Err e \/ exists a, r = Ok a /\ f a = Err e.
Proof. intros r f e H. destruct r; simpl in H; try discriminate; [right; eauto | left; congruence]. Qed.

(* the error happens inside [c], which is a prefix of the code of [c'] *)
Lemma err_in_prefix : forall ce L fi fp frs (c c' : nat -> nat -> @frag Q) e
                             (tail : nat -> nat -> list instr) (tailk : nat -> nat -> list (const Q)),
  comp_err ce L fi fp frs c e ->
  (forall nk na, f_code (c' nk na) = f_code (c nk na) ++ tail nk na /\
                 f_consts (c' nk na) = f_consts (c nk na) ++ tailk nk na) ->
  comp_err ce L fi fp frs c' e.
Proof.
  intros ce L fi fp frs c c' e tail tailk Hc Heq nk na ip stk s Hs Hl Ha Hk Hm.
  destruct (Heq nk na) as [E1 E2]. rewrite E1 in *. rewrite E2 in *.
  apply at_code_app in Ha. destruct Ha as [Ha1 _].
  apply consts_at_app in Hk. destruct Hk as [Hk1 _].
  apply nomark_app in Hm. destruct Hm as [Hm1 _].
  exact (Hc nk na ip stk s Hs Hl Ha1 Hk1 Hm1).
Qed.

(* [c] succeeds, the code after it fails *)
Lemma err_after : forall ce L fi fp frs (c c' : nat -> nat -> @frag Q) pushed e
                         (tail : nat -> nat -> list instr) (tailk : nat -> nat -> list (const Q)),
  comp_ok O C W ce L fi fp frs c pushed ->
  (forall nk na, f_code (c' nk na) = f_code (c nk na) ++ tail nk na /\
                 f_consts (c' nk na) = f_consts (c nk na) ++ tailk nk na) ->
  (forall nk na ip stk s,
      nomark (tail nk na) -> stack_ok W ce L fp stk -> m_last s = w_last W ->
      at_code C fi ip (tail nk na) -> consts_at C (nk + length (f_consts (c nk na))) (tailk nk na) ->
      exists k s', steps k (St fi ip fp frs (pushed ++ stk) s) = Some s' /\ step s' = SErr e) ->
  comp_err ce L fi fp frs c' e.
Proof.
  intros ce L fi fp frs c c' pushed e tail tailk Hc Heq Ht nk na ip stk s Hs Hl Ha Hk Hm.
  destruct (Heq nk na) as [E1 E2]. rewrite E1 in *. rewrite E2 in *.
  apply at_code_app in Ha. destruct Ha as [Ha1 Ha2].
  apply consts_at_app in Hk. destruct Hk as [Hk1 Hk2].
  apply nomark_app in Hm. destruct Hm as [Hm1 Hm2].
  destruct (Hc nk na ip stk s Hs Hl Ha1 Hk1 Hm1) as [k1 S1].
  destruct (Ht nk na _ stk s Hm2 Hs Hl Ha2 Hk2) as (k2 & s' & S2 & E).
  exists (k1 + k2), s'. split; [eapply steps_trans; eassumption | exact E].
Qed.

(* [c] succeeds, then one instruction raises the error *)
Lemma err_emit : forall ce L fi fp frs (c c' : nat -> nat -> @frag Q) pushed e (i : nat -> nat -> instr),
  comp_ok O C W ce L fi fp frs c pushed ->
  (forall nk na, f_code (c' nk na) = f_code (c nk na) ++ [i nk na] /\
                 f_consts (c' nk na) = f_consts (c nk na)) ->
  (forall nk na ip stk s,
      is_marker (i nk na) = false -> stack_ok W ce L fp stk -> m_last s = w_last W ->
      exec O C (i nk na) (F fi (ip + isize (i nk na)) fp) frs (St fi ip fp frs (pushed ++ stk) s) = SErr e) ->
  comp_err ce L fi fp frs c' e.
Proof.
  intros ce L fi fp frs c c' pushed e i Hc Heq Hi.
  apply (err_after ce L fi fp frs c c' pushed e (fun nk na => [i nk na]) (fun _ _ => [])); [exact Hc| |].
  - intros nk na. destruct (Heq nk na) as [E1 E2]. rewrite E1, E2, app_nil_r. split; reflexivity.
  - intros nk na ip stk s Hm Hs Hl Ha _. apply nomark_one in Hm. destruct Hm as [Hm _].
    exists 0, (St fi ip fp frs (pushed ++ stk) s). split; [reflexivity|].
    rewrite (step_at O C _ _ _ _ _ _ _ _ Ha). apply Hi; assumption.
Qed.

(* a sequence of sub-compilers: a prefix succeeds, the next one fails *)
Lemma cseq_err : forall ce L fi fp frs cs1 ps1 c cs2 e,
  Forall2 (comp_ok O C W ce L fi fp frs) cs1 ps1 ->
  comp_err ce L fi fp frs c e ->
  comp_err ce L fi fp frs (cseq (cs1 ++ c :: cs2)) e.
Proof.
  intros ce L fi fp frs cs1 ps1 c cs2 e HF Hc. induction HF as [|c1 p1 cs1 ps1 H1 HF IH].
  - simpl. intros nk na ip stk s Hs Hl Ha Hk Hm. simpl in *.
    apply at_code_app in Ha. destruct Ha as [Ha1 _].
    apply consts_at_app in Hk. destruct Hk as [Hk1 _].
    apply nomark_app in Hm. destruct Hm as [Hm1 _].
    exact (Hc nk na ip stk s Hs Hl Ha1 Hk1 Hm1).
  - intros nk na ip stk s Hs Hl Ha Hk Hm. simpl in *.
    apply at_code_app in Ha. destruct Ha as [Ha1 Ha2].
    apply consts_at_app in Hk. destruct Hk as [Hk1 Hk2].
    apply nomark_app in Hm. destruct Hm as [Hm1 Hm2].
    destruct (H1 nk na ip stk s Hs Hl Ha1 Hk1 Hm1) as [k1 S1].
    destruct (IH _ _ _ (p1 ++ stk) s (stack_ok_push W _ _ _ _ p1 Hs) Hl Ha2 Hk2 Hm2) as (k2 & s' & S2 & E).
    exists (k1 + k2), s'. split; [eapply steps_trans; eassumption | exact E].
Qed.

Lemma evals_err_split {A B} : forall (ev : A -> res B) l e,
  evals ev l = Err e ->
  exists l1 a l2 vs1, l = l1 ++ a :: l2 /\ evals ev l1 = Ok vs1 /\ ev a = Err e.
Proof.
  induction l as [|a l IH]; simpl; intros e H; [discriminate|].
  apply bind_err in H. destruct H as [H|(v & Hv & H)].
  - exists [], a, l, []. repeat split. exact H.
  - apply bind_err in H. destruct H as [H|(vs & _ & H)]; [|discriminate].
    destruct (IH e H) as (l1 & a' & l2 & vs1 & E & H1 & H2).
    exists (a :: l1), a', l2, (v :: vs1). subst l. repeat split; [|exact H2].
    simpl. rewrite Hv, H1. reflexivity.
Qed.


Hypothesis HW : RelW O C W.

Lemma args_forall2 : forall n vg vn vf L es vs ce fi fp frs,
  evals (eval O lits n W vg vn vf L) es = Ok vs -> cenv_rel O C W ce vg vn vf ->
  Forall2 (comp_ok O C W ce L fi fp frs) (map (fun a => cexpr ce a) es) (map (fun v => [v]) vs).
Proof.
  intros n vg vn vf L es vs ce fi fp frs H Hrel. revert vs H.
  induction es as [|e es IHes]; simpl; intros vs H.
  - inversion H. constructor.
  - apply bind_ok in H. destruct H as (v & Hv & H). apply bind_ok in H. destruct H as (vs' & Hvs & E).
    inversion E. simpl. constructor; [|apply IHes; assumption].
    eapply (expr_correct O lits C W HW n); eassumption.
Qed.

Lemma args_err : forall n, expr_err n -> forall vg vn vf L es e ce fi fp frs,
  evals (eval O lits n W vg vn vf L) es = Err e -> cenv_rel O C W ce vg vn vf ->
  comp_err ce L fi fp frs (cseq (map (fun a => cexpr ce a) es)) e.
Proof.
  intros n IH vg vn vf L es e ce fi fp frs H Hrel.
  destruct (evals_err_split _ _ _ H) as (l1 & a & l2 & vs1 & E & H1 & H2). subst es.
  rewrite map_app. simpl. eapply cseq_err.
  - eapply args_forall2; eassumption.
  - eapply IH; eassumption.
Qed.

Lemma lift_err : forall (r : res (value Q)) (k : value Q -> sres) e, r = Err e -> lift r k = SErr e.
Proof. intros. subst. reflexivity. Qed.

Lemma err_un : forall n, expr_err n -> forall vg vn vf L op a e ce fi fp frs,
  bind (eval O lits n W vg vn vf L a) (apply_un O op) = Err e -> cenv_rel O C W ce vg vn vf ->
  comp_err ce L fi fp frs (cexpr ce (EUn op a)) e.
Proof.
  intros n IH vg vn vf L op a e ce fi fp frs H Hrel.
  apply bind_err in H. destruct H as [H|(va & Ha & H)].
  - eapply (err_in_prefix ce L fi fp frs (cexpr ce a)); [eapply IH; eassumption|].
    intros. simpl. split; [reflexivity | symmetry; apply app_nil_r].
  - apply (err_emit ce L fi fp frs (cexpr ce a) _ [va] e
             (fun _ _ => match op with UFact k => chk16 k (IUn op) | _ => IUn op end)).
    + eapply (expr_correct O lits C W HW n); eassumption.
    + intros. simpl. split; reflexivity.
    + intros nk na ip stk s Hm Hs Hl.
      assert (E : match op with UFact k => chk16 k (IUn op) | _ => IUn op end = IUn op).
      { destruct op; try reflexivity. apply chk16_ok in Hm. apply Hm. }
      rewrite E. simpl. apply lift_err. exact H.
Qed.

Lemma err_bin : forall n, expr_err n -> forall vg vn vf L op a b e ce fi fp frs,
  bind (eval O lits n W vg vn vf L a)
       (fun va => bind (eval O lits n W vg vn vf L b) (fun vb => apply_bin O op va vb)) = Err e ->
  cenv_rel O C W ce vg vn vf ->
  comp_err ce L fi fp frs (cexpr ce (EBin op a b)) e.
Proof.
  intros n IH vg vn vf L op a b e ce fi fp frs H Hrel.
  apply bind_err in H. destruct H as [H|(va & Ha & H)].
  - eapply (err_in_prefix ce L fi fp frs (cexpr ce a)); [eapply IH; eassumption|].
    intros. simpl. rewrite <- app_assoc. split; reflexivity.
  - pose proof (expr_correct O lits C W HW n _ _ _ _ _ _ Ha ce fi fp frs Hrel) as Hca.
    apply bind_err in H. destruct H as [H|(vb & Hb & H)].
    + apply (err_after ce L fi fp frs (cexpr ce a) _ [va] e
               (fun nk na => f_code (cexpr ce b (nk + length (f_consts (cexpr ce a nk na))) (f_na (cexpr ce a nk na))) ++ [IBin op])
               (fun nk na => f_consts (cexpr ce b (nk + length (f_consts (cexpr ce a nk na))) (f_na (cexpr ce a nk na)))) Hca).
      * intros. simpl. rewrite <- app_assoc. split; reflexivity.
      * intros nk na ip stk s Hm Hs Hl Hat Hk.
        apply at_code_app in Hat. destruct Hat as [Hat _]. apply nomark_app in Hm. destruct Hm as [Hm _].
        exact (IH _ _ _ _ _ _ H ce fi fp frs Hrel _ _ ip _ s (stack_ok_push W _ _ _ _ [va] Hs) Hl Hat Hk Hm).
    + pose proof (expr_correct O lits C W HW n _ _ _ _ _ _ Hb ce fi fp frs Hrel) as Hcb.
      apply (err_emit ce L fi fp frs
               (fun nk na => fapp (cexpr ce a nk na)
                                  (cexpr ce b (nk + length (f_consts (cexpr ce a nk na))) (f_na (cexpr ce a nk na))))
               _ ([vb] ++ [va]) e (fun _ _ => IBin op)).
      * apply (ok_seq2 O C W ce L fi fp frs (cexpr ce a) (cexpr ce b)); try assumption.
        intros. simpl. split; reflexivity.
      * intros. simpl. split; reflexivity.
      * intros nk na ip stk s Hm Hs Hl. simpl. apply lift_err. exact H.
Qed.

Lemma err_list : forall n, expr_err n -> forall vg vn vf L es e ce fi fp frs,
  bind (evals (eval O lits n W vg vn vf L) es) (fun vs => Ok (VList vs)) = Err e ->
  cenv_rel O C W ce vg vn vf ->
  comp_err ce L fi fp frs (cexpr ce (EList es)) e.
Proof.
  intros n IH vg vn vf L es e ce fi fp frs H Hrel.
  apply bind_err in H. destruct H as [H|(vs & _ & H)]; [|discriminate].
  eapply (err_in_prefix ce L fi fp frs (cseq (map (fun a => cexpr ce a) es))); [eapply args_err; eassumption|].
  intros. simpl. split; [reflexivity | symmetry; apply app_nil_r].
Qed.


Lemma err_field : forall n, expr_err n -> forall vg vn vf L a fname sfields e ce fi fp frs,
  eval O lits (S n) W vg vn vf L (EField a fname sfields) = Err e ->
  cenv_rel O C W ce vg vn vf ->
  comp_err ce L fi fp frs (cexpr ce (EField a fname sfields)) e.
Proof.
  intros n IH vg vn vf L a fname sfields e ce fi fp frs H Hrel. simpl in H.
  apply bind_err in H. destruct H as [H|(va & _ & H)].
  - eapply (err_in_prefix ce L fi fp frs (cexpr ce a) _ e
              (fun _ _ => [match index_of fname sfields with
                           | Some idx => chk16 idx (IAccessField idx)
                           | None => ICompilePanic end]) (fun _ _ => [])); [eapply IH; eassumption|].
    intros. simpl. destruct (index_of fname sfields); simpl; rewrite app_nil_r; split; reflexivity.
  - destruct va; try discriminate.
    destruct (list_eqb String.eqb fields sfields && Nat.eqb (length fields) (length vals))%bool; [|discriminate].
    destruct (assoc fname (combine fields vals)); discriminate.
Qed.

Lemma err_cond : forall n, expr_err n -> forall vg vn vf L c t f e ce fi fp frs,
  eval O lits (S n) W vg vn vf L (ECond c t f) = Err e ->
  cenv_rel O C W ce vg vn vf ->
  comp_err ce L fi fp frs (cexpr ce (ECond c t f)) e.
Proof.
  intros n IH vg vn vf L c t f e ce fi fp frs H Hrel. simpl in H.
  apply bind_err in H. destruct H as [H|(vc & Hc & H)].
  - eapply (err_in_prefix ce L fi fp frs (cexpr ce c)); [eapply IH; eassumption|].
    intros. simpl. split; reflexivity.
  - pose proof (expr_correct O lits C W HW n _ _ _ _ _ _ Hc ce fi fp frs Hrel) as Hcc.
    intros nk na ip stk s Hs Hl Ha Hk Hm. simpl in *.
    set (fc := cexpr ce c nk na) in *.
    set (ft := cexpr ce t (nk + length (f_consts fc)) (f_na fc)) in *.
    set (fe := cexpr ce f (nk + length (f_consts fc) + length (f_consts ft)) (f_na ft)) in *.
    apply at_code_app in Ha. destruct Ha as [Hac Ha].
    change (IJumpIfFalse (csize (f_code ft) + 3) :: f_code ft ++ IJump (csize (f_code fe)) :: f_code fe)
      with ([IJumpIfFalse (csize (f_code ft) + 3)] ++ f_code ft ++ [IJump (csize (f_code fe))] ++ f_code fe) in *.
    apply at_code_app in Ha. destruct Ha as [Haj Ha].
    apply at_code_app in Ha. destruct Ha as [Hat Ha].
    apply at_code_app in Ha. destruct Ha as [Haj2 Hae].
    apply consts_at_app in Hk. destruct Hk as [Hkc Hk].
    apply consts_at_app in Hk. destruct Hk as [Hkt Hke].
    apply nomark_app in Hm. destruct Hm as [Hmc Hm].
    apply nomark_app in Hm. destruct Hm as [_ Hm].
    apply nomark_app in Hm. destruct Hm as [Hmt Hm].
    apply nomark_app in Hm. destruct Hm as [_ Hme].
    destruct (Hcc nk na ip stk s Hs Hl Hac Hkc Hmc) as [k1 S1]. fold fc in S1.
    destruct vc; try discriminate. destruct b.
    + assert (S2 : steps 1 (St fi (ip + csize (f_code fc)) fp frs ([VBool true] ++ stk) s)
                   = Some (St fi (ip + csize (f_code fc) + 3) fp frs stk s)).
      { eapply run_one; [exact Haj|]. reflexivity. }
      destruct (IH _ _ _ _ _ _ H ce fi fp frs Hrel _ _ _ stk s Hs Hl Hat Hkt Hmt) as (k3 & s' & S3 & E).
      exists (k1 + (1 + k3)), s'. split; [|exact E].
      eapply steps_trans; [exact S1|]. eapply steps_trans; [exact S2 | exact S3].
    + assert (S2 : steps 1 (St fi (ip + csize (f_code fc)) fp frs ([VBool false] ++ stk) s)
                   = Some (St fi (ip + csize (f_code fc) + 3 + (csize (f_code ft) + 3)) fp frs stk s)).
      { eapply run_one; [exact Haj|]. reflexivity. }
      replace (ip + csize (f_code fc) + 3 + (csize (f_code ft) + 3))
        with (ip + csize (f_code fc) + 3 + csize (f_code ft) + 3) in S2 by lia.
      destruct (IH _ _ _ _ _ _ H ce fi fp frs Hrel _ _ _ stk s Hs Hl Hae Hke Hme) as (k3 & s' & S3 & E).
      exists (k1 + (1 + k3)), s'. split; [|exact E].
      eapply steps_trans; [exact S1|]. eapply steps_trans; [exact S2 | exact S3].
Qed.

Lemma err_string : forall n, expr_err n -> forall vg vn vf L parts e ce fi fp frs,
  eval O lits (S n) W vg vn vf L (EString parts) = Err e ->
  cenv_rel O C W ce vg vn vf ->
  comp_err ce L fi fp frs (cexpr ce (EString parts)) e.
Proof.
  intros n IH vg vn vf L parts e ce fi fp frs H Hrel. simpl in H.
  destruct (negb (fst lits)); [discriminate|].
  apply bind_err in H. destruct H as [H|(strs & _ & H)]; [|discriminate].
  destruct (evals_err_split _ _ _ H) as (l1 & p & l2 & strs1 & E & H1 & H2). subst parts.
  destruct (ok_parts O lits C W n (expr_correct O lits C W HW n) vg vn vf L ce fi fp frs l1 strs1 Hrel H1)
    as (pushes & F1 & _).
  eapply (err_in_prefix ce L fi fp frs (cseq (map (part_sub ce) (l1 ++ p :: l2))) _ e
            (fun _ _ => [chk16 (length (l1 ++ p :: l2)) (IJoinString (length (l1 ++ p :: l2)))]) (fun _ _ => [])).
  - rewrite map_app. simpl. eapply cseq_err; [exact F1|].
    destruct p as [s0 | [a [spec|]]]; [discriminate| |].
    + apply bind_err in H2. destruct H2 as [H2|(v & _ & H2)].
      * eapply (err_in_prefix ce L fi fp frs (cexpr ce a)); [eapply IH; eassumption|].
        intros. simpl. split; reflexivity.
      * destruct (fmt_total spec v) as [s0 Hs0]. congruence.
    + apply bind_err in H2. destruct H2 as [H2|(v & _ & H2)]; [|discriminate].
      eapply (err_in_prefix ce L fi fp frs (cexpr ce a)); [eapply IH; eassumption|].
      intros. simpl. split; reflexivity.
  - intros. simpl. rewrite app_nil_r. split; reflexivity.
Qed.


(* ---- errors inside a called function *)
Lemma clocals_err : forall n, expr_err n -> forall vg vn vf ce fi fp frs below,
  cenv_rel O C W ce vg vn vf -> length below = fp ->
  (exists upper, below = upper ++ rev (map snd (w_globals W))) ->
  forall wl L0 e nk na ip s,
    bind_locals (fun L x => eval O lits n W vg vn vf L x) L0 wl = Err e ->
    m_last s = w_last W ->
    at_code C fi ip (f_code (fst (clocals ce (map fst L0) wl nk na))) ->
    consts_at C nk (f_consts (fst (clocals ce (map fst L0) wl nk na))) ->
    nomark (f_code (fst (clocals ce (map fst L0) wl nk na))) ->
    exists k s', steps k (St fi ip fp frs (rev (map snd L0) ++ below) s) = Some s' /\ step s' = SErr e.
Proof.
  intros n IH vg vn vf ce fi fp frs below Hrel Hlen [upper Hup].
  induction wl as [|[x ex] wl IHwl]; intros L0 e nk na ip s H Hl Ha Hk Hm.
  - discriminate.
  - simpl in H. simpl in Ha, Hk, Hm.
    set (f1 := cexpr (with_locals ce (Some (map fst L0))) ex nk na) in *.
    specialize (IHwl (L0 ++ [(x, match eval O lits n W vg vn vf L0 ex with Ok v => v | _ => VBool true end)]) e
                     (nk + length (f_consts f1)) (f_na f1)).
    rewrite map_app in IHwl. simpl in IHwl.
    destruct (clocals ce (map fst L0 ++ [x]) wl (nk + length (f_consts f1)) (f_na f1)) as [f2 ls'] eqn:Ecl.
    simpl in *.
    apply at_code_app in Ha. destruct Ha as [Ha1 Ha2].
    apply consts_at_app in Hk. destruct Hk as [Hk1 Hk2].
    apply nomark_app in Hm. destruct Hm as [Hm1 Hm2].
    assert (Hs : stack_ok W (with_locals ce (Some (map fst L0))) L0 fp (rev (map snd L0) ++ below)).
    { split.
      - exists (rev (map snd L0) ++ upper). rewrite Hup. rewrite app_assoc. reflexivity.
      - simpl. split; [reflexivity|]. exists [], below. split; [reflexivity | exact Hlen]. }
    apply bind_err in H. destruct H as [H|(v & Hv & H)].
    + exact (IH _ _ _ _ _ _ H (with_locals ce (Some (map fst L0))) fi fp frs
                (cenv_rel_locals O C W _ _ _ _ _ Hrel) nk na ip _ s Hs Hl Ha1 Hk1 Hm1).
    + destruct (expr_correct O lits C W HW n _ _ _ _ _ _ Hv (with_locals ce (Some (map fst L0))) fi fp frs
                  (cenv_rel_locals O C W _ _ _ _ _ Hrel) nk na ip _ s Hs Hl Ha1 Hk1 Hm1) as [k1 S1].
      fold f1 in S1. rewrite Hv in IHwl.
      destruct (IHwl (ip + csize (f_code f1)) s H Hl Ha2 Hk2 Hm2) as (k2 & s' & S2 & E).
      rewrite map_app, rev_app_distr in S2. simpl in S2.
      exists (k1 + k2), s'. split; [eapply steps_trans; eassumption | exact E].
Qed.

Lemma call_err : forall n, expr_err n -> forall i name fd vs e,
  nth_error (w_fns W) i = Some (name, fd) ->
  (if Nat.eqb (length (fd_params fd)) (length vs) then
     bind (bind_locals (fun L' e' => eval O lits n W (fd_nglob fd) (S i) (fd_nforeign fd) L' e')
                       (combine (fd_params fd) vs) (fd_locals fd))
          (fun L' => eval O lits n W (fd_nglob fd) (S i) (fd_nforeign fd) L' (fd_body fd))
   else Wrong) = Err e ->
  forall fi ip fp frs stk0 s,
    (exists upper, stk0 = upper ++ rev (map snd (w_globals W))) -> m_last s = w_last W ->
    exists k s', steps k (mk (F (S i) 0 (length stk0) :: F fi ip fp :: frs) (rev vs ++ stk0) s) = Some s'
                 /\ step s' = SErr e.
Proof.
  intros n IH i name fd vs e Hi H fi ip fp frs stk0 s Hup Hl.
  destruct HW as [Hfuns _].
  destruct (Hfuns i name fd Hi) as (ce & nk & na & Hch & Hk & Hm & Hrel).
  destruct (Nat.eqb (length (fd_params fd)) (length vs)) eqn:El; [|discriminate].
  apply Nat.eqb_eq in El.
  unfold cfun in Hch, Hk, Hm.
  pose proof (fun L' => clocals_ok O lits C W n (expr_correct O lits C W HW n) _ _ _ ce (S i) (length stk0)
                (F fi ip fp :: frs) stk0 Hrel eq_refl Hup (fd_locals fd) (combine (fd_params fd) vs) L' nk na 0 s) as CL.
  pose proof (fun e' => clocals_err n IH _ _ _ ce (S i) (length stk0) (F fi ip fp :: frs) stk0 Hrel eq_refl Hup
                (fd_locals fd) (combine (fd_params fd) vs) e' nk na 0 s) as CE.
  rewrite (map_fst_combine _ _ El), (map_snd_combine _ _ El) in CL, CE.
  destruct (clocals ce (fd_params fd) (fd_locals fd) nk na) as [fl ls] eqn:Ecl. simpl in *.
  assert (Ha : at_code C (S i) 0 ((f_code fl ++ f_code (cexpr (with_locals ce (Some ls)) (fd_body fd)
                                   (nk + length (f_consts fl)) (f_na fl))) ++ [IReturn])).
  { exists name, [], []. split; [rewrite app_nil_r; exact Hch | reflexivity]. }
  apply at_code_app in Ha. destruct Ha as [Ha _].
  apply at_code_app in Ha. destruct Ha as [Hal Hab].
  apply consts_at_app in Hk. destruct Hk as [Hkl Hkb].
  apply nomark_app in Hm. destruct Hm as [Hm _].
  apply nomark_app in Hm. destruct Hm as [Hml Hmb].
  apply bind_err in H. destruct H as [H|(L' & HL & H)].
  - exact (CE e H Hl Hal Hkl Hml).
  - destruct (CL L' HL Hl Hal Hkl Hml) as [Els [k1 S1]]. subst ls.
    assert (Hs : stack_ok W (with_locals ce (Some (map fst L'))) L' (length stk0) (rev (map snd L') ++ stk0)).
    { destruct Hup as [upper Hup]. split.
      - exists (rev (map snd L') ++ upper). rewrite Hup. rewrite app_assoc. reflexivity.
      - simpl. split; [reflexivity|]. exists [], stk0. split; reflexivity. }
    destruct (IH _ _ _ _ _ _ H (with_locals ce (Some (map fst L'))) (S i) (length stk0) (F fi ip fp :: frs)
                 (cenv_rel_locals O C W _ _ _ _ _ Hrel) _ _ _ _ s Hs Hl Hab Hkb Hmb) as (k2 & s' & S2 & E).
    exists (k1 + k2), s'. split; [|exact E].
    unfold Proofs.St in S1 at 1. simpl in S1. eapply steps_trans; eassumption.
Qed.

Lemma err_call : forall n, expr_err n -> forall vg vn vf L f args e ce fi fp frs,
  eval O lits (S n) W vg vn vf L (ECall f args) = Err e ->
  cenv_rel O C W ce vg vn vf ->
  comp_err ce L fi fp frs (cexpr ce (ECall f args)) e.
Proof.
  intros n IH vg vn vf L f args e ce fi fp frs H Hrel. simpl in H.
  assert (Hpre : forall nk na, exists tl,
            f_code (cexpr ce (ECall f args) nk na) = f_code (cseq (map (fun a => cexpr ce a) args) nk na) ++ tl /\
            f_consts (cexpr ce (ECall f args) nk na) = f_consts (cseq (map (fun a => cexpr ce a) args) nk na)).
  { intros. simpl. destruct (index_of f (c_ffi ce)); [eexists; split; reflexivity|].
    destruct (rposition f (c_chunks ce)); eexists; split; reflexivity. }
  apply bind_err in H. destruct H as [H|(vs & Hvs & H)].
  - pose proof (args_err n IH _ _ _ _ _ _ ce fi fp frs H Hrel) as Ha.
    intros nk na ip stk s Hs Hl Hat Hk Hm.
    destruct (Hpre nk na) as (tl & E1 & E2). rewrite E1 in Hat, Hm. rewrite E2 in Hk.
    apply at_code_app in Hat. destruct Hat as [Hat _]. apply nomark_app in Hm. destruct Hm as [Hm _].
    exact (Ha nk na ip stk s Hs Hl Hat Hk Hm).
  - pose proof (ok_args O lits C W n (expr_correct O lits C W HW n) _ _ _ _ _ _ ce fi fp frs Hvs Hrel) as Hargs.
    pose proof (evals_length _ _ _ Hvs) as Hlen.
    pose proof Hrel as (Hg & Hch & Hfn & [rest Hffi] & Hmem & Hrest).
    specialize (Hmem f).
    destruct (index_of f (c_ffi ce)) as [idx|] eqn:Ei.
    + rewrite Hmem in H. destruct (find_last f (firstn vn (w_fns W))) as [[? ?]|]; [discriminate|].
      apply (err_emit ce L fi fp frs (cseq (map (fun a => cexpr ce a) args)) _ (rev vs) e
               (fun nk na => chk16 (length args)
                  (IFFICallFunction idx (length args) (f_na (cseq (map (fun a => cexpr ce a) args) nk na)))) Hargs).
      * intros. simpl. rewrite Ei. simpl. split; reflexivity.
      * intros nk na ip stk s Hm Hs Hl. apply chk16_ok in Hm. destruct Hm as [Hm _]. rewrite Hm.
        simpl. rewrite Hffi. rewrite (nth_error_app_l _ _ _ _ (index_of_nth _ _ _ Ei)).
        rewrite <- Hlen. rewrite pop_n_rev. apply lift_err. exact H.
    + rewrite Hmem in H. destruct (find_last f (firstn vn (w_fns W))) as [[i fd]|] eqn:Ef; [|discriminate].
      destruct (find_last_nth W _ _ _ _ Ef) as [Hr [name Hi]].
      apply (err_after ce L fi fp frs (cseq (map (fun a => cexpr ce a) args)) _ (rev vs) e
               (fun _ _ => [chk16 (length args) (ICall (S i) (length args))]) (fun _ _ => []) Hargs).
      * intros. simpl. rewrite Ei. rewrite Hch. rewrite rposition_cons. rewrite Hr. simpl.
        rewrite app_nil_r. split; reflexivity.
      * intros nk na ip stk s Hm Hs Hl Ha _.
        apply nomark_one in Hm. destruct Hm as [Hm _]. apply chk16_ok in Hm. destruct Hm as [Hm _].
        rewrite Hm in *.
        destruct (leb_len_app vs stk (length args) (eq_sym Hlen)) as [Hle Hsub].
        assert (S1 : steps 1 (St fi ip fp frs (rev vs ++ stk) s)
                     = Some (mk (F (S i) 0 (length stk) :: F fi (ip + 5) fp :: frs) (rev vs ++ stk) s)).
        { eapply run_one; [exact Ha|]. simpl. rewrite Hle, Hsub. reflexivity. }
        destruct Hs as [Hup _].
        destruct (call_err n IH i name fd vs e Hi H fi (ip + 5) fp frs stk s Hup Hl) as (k2 & s' & S2 & E).
        exists (1 + k2), s'. split; [eapply steps_trans; eassumption | exact E].
Qed.


Lemma err_callable : forall n, expr_err n -> forall vg vn vf L callee args e ce fi fp frs,
  eval O lits (S n) W vg vn vf L (ECallable callee args) = Err e ->
  cenv_rel O C W ce vg vn vf ->
  comp_err ce L fi fp frs (cexpr ce (ECallable callee args)) e.
Proof.
  intros n IH vg vn vf L callee args e ce fi fp frs H Hrel. simpl in H.
  apply bind_err in H. destruct H as [H|(vs & Hvs & H)].
  - eapply (err_in_prefix ce L fi fp frs (cseq (map (fun a => cexpr ce a) args))); [eapply args_err; eassumption|].
    intros. simpl. split; reflexivity.
  - pose proof (ok_args O lits C W n (expr_correct O lits C W HW n) _ _ _ _ _ _ ce fi fp frs Hvs Hrel) as Hargs.
    pose proof (evals_length _ _ _ Hvs) as Hlen.
    apply bind_err in H. destruct H as [H|(c & Hc & H)].
    + apply (err_after ce L fi fp frs (cseq (map (fun a => cexpr ce a) args)) _ (rev vs) e
               (fun nk na =>
                  f_code (cexpr ce callee (nk + length (f_consts (cseq (map (fun a => cexpr ce a) args) nk na)))
                                (f_na (cseq (map (fun a => cexpr ce a) args) nk na)))
                  ++ [chk16 (length args) (ICallCallable (length args)
                        (f_na (cexpr ce callee (nk + length (f_consts (cseq (map (fun a => cexpr ce a) args) nk na)))
                                      (f_na (cseq (map (fun a => cexpr ce a) args) nk na)))))])
               (fun nk na =>
                  f_consts (cexpr ce callee (nk + length (f_consts (cseq (map (fun a => cexpr ce a) args) nk na)))
                                  (f_na (cseq (map (fun a => cexpr ce a) args) nk na)))) Hargs).
      * intros. simpl. split; reflexivity.
      * intros nk na ip stk s Hm Hs Hl Hat Hk.
        apply at_code_app in Hat. destruct Hat as [Hat _]. apply nomark_app in Hm. destruct Hm as [Hm _].
        exact (IH _ _ _ _ _ _ H ce fi fp frs Hrel _ _ ip _ s (stack_ok_push W _ _ _ _ (rev vs) Hs) Hl Hat Hk Hm).
    + pose proof (expr_correct O lits C W HW n _ _ _ _ _ _ Hc ce fi fp frs Hrel) as Hcallee.
      apply (err_after ce L fi fp frs
               (fun nk na => fapp (cseq (map (fun a => cexpr ce a) args) nk na)
                                  (cexpr ce callee (nk + length (f_consts (cseq (map (fun a => cexpr ce a) args) nk na)))
                                         (f_na (cseq (map (fun a => cexpr ce a) args) nk na))))
               _ ([c] ++ rev vs) e
               (fun nk na => [chk16 (length args) (ICallCallable (length args)
                   (f_na (cexpr ce callee (nk + length (f_consts (cseq (map (fun a => cexpr ce a) args) nk na)))
                                         (f_na (cseq (map (fun a => cexpr ce a) args) nk na)))))])
               (fun _ _ => [])).
      * apply (ok_seq2 O C W ce L fi fp frs (cseq (map (fun a => cexpr ce a) args)) (cexpr ce callee)); try assumption.
        intros. simpl. split; reflexivity.
      * intros. simpl. rewrite app_nil_r. rewrite <- app_assoc. split; reflexivity.
      * intros nk na ip stk s Hm Hs Hl Ha _.
        apply nomark_one in Hm. destruct Hm as [Hm _]. apply chk16_ok in Hm. destruct Hm as [Hm _].
        rewrite Hm in *.
        destruct (leb_len_app vs stk (length args) (eq_sym Hlen)) as [Hle Hsub].
        pose proof HW as (Hfuns & Hforeign).
        destruct c; try discriminate. destruct f as [name [|i]|name]; try discriminate.
        -- destruct (nth_error (w_fns W) i) as [[name' fd]|] eqn:Hi; [|discriminate].
           assert (S1 : steps 1 (St fi ip fp frs ([VFun (FNormal name (S i))] ++ rev vs ++ stk) s)
                        = Some (mk (F (S i) 0 (length stk) :: F fi (ip + 5) fp :: frs) (rev vs ++ stk) s)).
           { eapply run_one; [exact Ha|]. simpl. rewrite Hle, Hsub. reflexivity. }
           destruct Hs as [Hup _].
           destruct (call_err n IH i name' fd vs e Hi H fi (ip + 5) fp frs stk s Hup Hl) as (k2 & s' & S2 & E).
           exists (1 + k2), s'. rewrite <- app_assoc. split; [eapply steps_trans; eassumption | exact E].
        -- destruct (mem name (procs O ++ w_foreign W)) eqn:Em; [|discriminate].
           destruct (index_of_some_of_ne _ _ (Hforeign _ Em)) as [j Hj].
           exists 0, (St fi ip fp frs (([VFun (FForeign name)] ++ rev vs) ++ stk) s). split; [reflexivity|].
           rewrite (step_at O C _ _ _ _ _ _ _ _ Ha). rewrite <- app_assoc. simpl. rewrite Hj.
           rewrite <- Hlen. rewrite pop_n_rev. apply lift_err. exact H.
Qed.

Theorem expr_errs : forall n, expr_err n.
Proof.
  induction n as [|n IH]; unfold expr_err; intros vg vn vf L e err H ce fi fp frs Hrel.
  - discriminate.
  - destruct e.
    + discriminate.
    + discriminate.
    + eapply err_string; eassumption.
    + simpl in H. destruct (find_last x L) as [[? ?]|]; [discriminate|].
      destruct (find_last x (firstn vg (w_globals W))) as [[? ?]|]; [discriminate|].
      destruct (is_last_result x); [destruct (w_last W); discriminate|].
      destruct (find_last x (firstn vn (w_fns W))) as [[? ?]|]; destruct (mem x (firstn vf (w_foreign W))); discriminate.
    + simpl in H. destruct (mem x (w_units W)); discriminate.
    + eapply err_un; eassumption.
    + eapply err_bin; eassumption.
    + eapply err_call; eassumption.
    + eapply err_callable; eassumption.
    + eapply err_cond; eassumption.
    + simpl in H. rewrite Hnostruct in H. discriminate.
    + eapply err_field; eassumption.
    + eapply err_list; eassumption.
Qed.

End Err.

(* ------------------------------------------------------------------ *)
Section TopErr.
Context {Q : Type}.
Variable O : ops Q.
Variable lits : bool * bool.
Hypothesis Hnostruct : snd lits = false.
Hypothesis fmt_total : forall spec v, exists s, fmt_spec O spec v = Ok s.
Variable fin : @cstate Q.
Notation C := (finish fin).
Hypothesis Hok : compile_ok (finish fin) = true.

Lemma top_expr_err : forall st rst ms n e err tail r1 r2,
  Inv O fin st rst ms ->
  top_eval O lits n (r_world rst) e = Err err ->
  s_main fin = (s_main st ++ f_code (cexpr (s_env st) e (length (s_consts st)) (s_na st)) ++ tail) ++ r1 ->
  s_consts fin = (s_consts st ++ f_consts (cexpr (s_env st) e (length (s_consts st)) (s_na st))) ++ r2 ->
  exists k s', steps O C k ms = Some s' /\ Machine.step O C s' = SErr err.
Proof.
  intros st rst ms n e err tail r1 r2 HI H Em Ek.
  pose proof (Inv_RelW O fin _ _ _ HI) as HW.
  destruct HI as (Hpre & Hrel & Hloc & _ & _ & _ & Ems).
  assert (Hs : stack_ok (r_world rst) (s_env st) [] 0 (rev (map snd (w_globals (r_world rst))))).
  { split; [exists []; reflexivity|]. rewrite Hloc. split; reflexivity. }
  assert (Hm : nomark (f_code (cexpr (s_env st) e (length (s_consts st)) (s_na st)))).
  { eapply (main_nomark fin Hok (s_main st) _ (tail ++ r1)).
    rewrite Em. rewrite <- !app_assoc. reflexivity. }
  unfold top_eval in H.
  destruct (expr_errs O lits Hnostruct fmt_total C (r_world rst) HW n _ _ _ _ _ _ H (s_env st) 0 0 [] Hrel
              _ _ (csize (s_main st)) _ ms Hs (eq_trans (f_equal (@m_last Q) Ems) eq_refl)
              (main_at fin _ _ _ _ Em) (consts_pre_at fin _ _ _ Ek) Hm) as (k & s' & S1 & E).
  exists k, s'. split; [|exact E]. rewrite <- S1. f_equal. rewrite Ems. reflexivity.
Qed.

Lemma stmt_err : forall n s st rst ms e,
  Inv O fin st rst ms -> pre (cstmt s st) fin ->
  exec_stmt O lits n s rst = Err e ->
  exists k s', steps O C k ms = Some s' /\ Machine.step O C s' = SErr e.
Proof.
  intros n s st rst ms e HI Hpre H. destruct s; simpl in H; try discriminate.
  - apply bind_err in H. destruct H as [H|(v & _ & H)]; [|discriminate].
    pose proof Hpre as ([r2 Ek] & [r1 Em] & _). simpl in Ek, Em.
    eapply top_expr_err; eassumption.
  - apply bind_err in H. destruct H as [H|(v & _ & H)]; [|discriminate].
    pose proof Hpre as ([r2 Ek] & [r1 Em] & _). simpl in Ek, Em.
    eapply top_expr_err; eassumption.
  - (* procedure call *)
    pose proof (Inv_RelW O fin _ _ _ HI) as HW.
    destruct HI as (Hp0 & Hrel & Hloc & Hst & Hf & Hlen & Ems).
    set (W := r_world rst) in *.
    set (fargs := cseq (map (fun a => cexpr (s_env st) a) args) (length (s_consts st)) (s_na st)) in *.
    assert (Hs : stack_ok W (s_env st) [] 0 (rev (map snd (w_globals W)))).
    { split; [exists []; reflexivity|]. rewrite Hloc. split; reflexivity. }
    unfold cstmt in Hpre. fold fargs in Hpre.
    assert (Hcode : exists tl r1 r2, s_main fin = (s_main st ++ f_code fargs ++ tl) ++ r1 /\
                                     s_consts fin = (s_consts st ++ f_consts fargs) ++ r2 /\
                                     (forall idx, index_of name (c_ffi (s_env st)) = Some idx ->
                                        tl = [chk16 (length args) (IFFICallProcedure idx (length args) (f_na fargs))])
                                     /\ (index_of name (c_ffi (s_env st)) = None -> tl = [ICompilePanic])).
    { destruct (index_of name (c_ffi (s_env st))) as [idx|] eqn:Ei;
        destruct Hpre as ([r2 Ek] & [r1 Em] & _); simpl in Ek, Em; rewrite app_nil_r in Em;
        eexists _, r1, r2; (split; [exact Em|]); (split; [exact Ek|]);
        split; intros; try discriminate; try congruence; reflexivity. }
    destruct Hcode as (tl & r1 & r2 & Em & Ek & Htl1 & Htl2).
    assert (Hmall : nomark (f_code fargs ++ tl)).
    { eapply (main_nomark fin Hok (s_main st) _ r1). exact Em. }
    apply nomark_app in Hmall. destruct Hmall as [Hm1 Hm2].
    apply bind_err in H. destruct H as [H|(vs & Hvs & H)].
    + destruct (args_err O lits C W HW n (expr_errs O lits Hnostruct fmt_total C W HW n)
                  _ _ _ [] args e (s_env st) 0 0 [] H Hrel
                  (length (s_consts st)) (s_na st) (csize (s_main st)) _ ms Hs
                  (eq_trans (f_equal (@m_last Q) Ems) eq_refl)
                  (main_at fin _ _ _ _ Em) (consts_pre_at fin _ _ _ Ek) Hm1) as (k & s' & S1 & E).
      exists k, s'. split; [|exact E]. rewrite <- S1. f_equal. rewrite Ems. reflexivity.
    + apply bind_err in H. destruct H as [H|(lines & _ & H)]; [|discriminate].
      pose proof (evals_length _ _ _ Hvs) as Hl.
      pose proof (ok_args O lits C W n (expr_correct O lits C W HW n) _ _ _ [] args vs
                    (s_env st) 0 0 [] Hvs Hrel) as Hargs.
      destruct (Hargs (length (s_consts st)) (s_na st) (csize (s_main st)) _ ms Hs
                  (eq_trans (f_equal (@m_last Q) Ems) eq_refl)
                  (main_at fin _ _ _ _ Em) (consts_pre_at fin _ _ _ Ek) Hm1) as [k1 S1].
      fold fargs in S1.
      destruct Hrel as (H1 & H2 & H3 & [rest H4] & H5 & H6 & H7).
      destruct (index_of name (c_ffi (s_env st))) as [idx|] eqn:Ei.
      * rewrite (Htl1 idx eq_refl) in *.
        apply nomark_one in Hm2. destruct Hm2 as [Hm2 _]. apply chk16_ok in Hm2. destruct Hm2 as [Hm2 _].
        rewrite Hm2 in Em.
        assert (Har : at_code C 0 (csize (s_main st) + csize (f_code fargs))
                        [IFFICallProcedure idx (length args) (f_na fargs)]).
        { exists "<main>"%string, (s_main st ++ f_code fargs), r1. split.
          - rewrite (main_chunk fin), Em. rewrite <- !app_assoc. reflexivity.
          - apply csize_app. }
        eexists k1, _. split.
        -- rewrite <- S1. f_equal. rewrite Ems. reflexivity.
        -- rewrite (step_at O C _ _ _ _ _ _ _ _ Har). simpl. simpl in H4. rewrite H4.
           rewrite (nth_error_app_l _ _ _ _ (index_of_nth _ _ _ Ei)).
           rewrite <- Hl. rewrite pop_n_rev. rewrite H. reflexivity.
      * rewrite (Htl2 eq_refl) in Hm2. discriminate.
Qed.

Lemma stmts_err : forall n p st rst ms e,
  Inv O fin st rst ms -> cstmts p st = fin ->
  exec_stmts O lits n p rst = Err e ->
  exists k s', steps O C k ms = Some s' /\ Machine.step O C s' = SErr e.
Proof.
  induction p as [|s p IH]; intros st rst ms e HI Efin H.
  - discriminate.
  - simpl in H. rewrite cstmts_cons in Efin.
    assert (Hpre : pre (cstmt s st) fin) by (rewrite <- Efin; apply cstmts_pre).
    apply bind_err in H. destruct H as [H|(rst1 & H1 & H2)].
    + eapply stmt_err; eassumption.
    + destruct (stmt_step O lits fin Hok n s st rst rst1 ms HI Hpre H1) as (k1 & ms1 & S1 & HI1).
      destruct (IH _ _ _ _ HI1 Efin H2) as (k2 & s' & S2 & E).
      exists (k1 + k2), s'. split; [eapply steps_trans; eassumption | exact E].
Qed.

End TopErr.

Lemma steps_err_run {Q} : forall (O : ops Q) (C : @compiled Q) k s s' e,
  Proofs.steps O C k s = Some s' -> Machine.step O C s' = SErr e ->
  run_from O C (k + 1) s = Err e.
Proof.
  intros O C k s s' e S E. rewrite (steps_run O C k 1 _ _ S). simpl. rewrite E. reflexivity.
Qed.

(* the reference semantics without struct literals; strings with parts are included *)

Theorem compile_errors {Q} : forall (O : ops Q) (p : program Q) n e,
  (forall spec v, exists s, fmt_spec O spec v = Ok s) ->
  compile_ok (compile (procs O) p) = true ->
  run_ref_nostruct O n p = Err e ->
  exists m, Machine.run O (compile (procs O) p) m = Err e.
Proof.
  intros O p n e Hfmt Hok H. unfold run_ref_nostruct, RefSem.run in H.
  apply bind_err in H. destruct H as [H|(rst' & _ & H)]; [|discriminate].
  set (fin := cstmts p (cinit (procs O))).
  assert (HI : Inv O fin (cinit (procs O)) rinit (minit (Q := Q))).
  { refine (conj (cstmts_pre _ _) (conj _ (conj eq_refl (conj eq_refl (conj _ (conj eq_refl eq_refl)))))).
    - unfold cenv_rel. simpl.
      refine (conj eq_refl (conj eq_refl (conj _ (conj _ (conj _ (conj _ _)))))).
      + intro x. split; reflexivity.
      + destruct (cstmts_pre p (cinit (procs O))) as (_ & _ & _ & [r E] & _). exists r. exact E.
      + intro x. rewrite app_nil_r. apply index_of_mem.
      + destruct (cstmts_pre p (cinit (procs O))) as (_ & _ & _ & _ & [r E] & _). exists r. exact E.
      + split; [exists []; reflexivity | intros x i Hx; discriminate].
    - intros i name fd Hi. destruct i; discriminate. }
  destruct (stmts_err O (true, false) eq_refl Hfmt fin Hok n p _ _ _ _ HI eq_refl H)
    as (k & s' & S & E).
  exists (k + 1). unfold Machine.run. change (compile (procs O) p) with (finish fin).
  eapply steps_err_run; eassumption.
Qed.

Lemma run_from_any_err {Q} : forall (O : ops Q) (C : @compiled Q) m s e, run_from O C m s = Err e ->
  forall m', run_from O C m' s = Fuel \/ run_from O C m' s = Err e.
Proof.
  induction m; simpl; intros s e H m'; [discriminate|].
  destruct m'; simpl; [left; reflexivity|].
  destruct (Machine.step O C s); try discriminate; auto.
Qed.

Theorem no_panic_after_err {Q} : forall (O : ops Q) (p : program Q) n e,
  (forall spec v, exists s, fmt_spec O spec v = Ok s) ->
  compile_ok (compile (procs O) p) = true ->
  run_ref_nostruct O n p = Err e ->
  forall m, Machine.run O (compile (procs O) p) m = Fuel
            \/ Machine.run O (compile (procs O) p) m = Err e.
Proof.
  intros O p n e Hf Hok H m. destruct (compile_errors O p n e Hf Hok H) as [m0 Hm0].
  unfold Machine.run in *. eapply run_from_any_err. exact Hm0.
Qed.
