(* C09 — facts about the stable insertion sort that models itertools' sorted_by_key
   (Compile.sort_by), used for struct literals: sorting the fields by their index in
   the struct definition puts them in definition order. *)
From Coq Require Import String List Bool Arith Lia.
From NV Require Import VM.Value VM.Ast VM.Bytecode VM.Compile VM.RefSem.
Import ListNotations.
Open Scope list_scope.

Section Sort.
Context {A : Type}.

Lemma insert_by_In : forall k (a : A) l z, In z (insert_by k a l) <-> (k, a) = z \/ In z l.
Proof.
  induction l as [|[k' a'] l IH]; intro z; simpl.
  - tauto.
  - destruct (Nat.leb k k'); simpl; [tauto|]. rewrite IH. tauto.
Qed.

Lemma sort_by_cons : forall (x : nat * A) l, sort_by (x :: l) = insert_by (fst x) (snd x) (sort_by l).
Proof. reflexivity. Qed.

Lemma sort_by_In : forall (l : list (nat * A)) z, In z (sort_by l) <-> In z l.
Proof.
  induction l as [|[k a] l IH]; intro z.
  - simpl. tauto.
  - rewrite sort_by_cons, insert_by_In, IH. simpl. tauto.
Qed.

Lemma insert_by_length : forall k (a : A) l, length (insert_by k a l) = S (length l).
Proof.
  induction l as [|[k' a'] l IH]; simpl; [reflexivity|].
  destruct (Nat.leb k k'); simpl; [reflexivity | rewrite IH; reflexivity].
Qed.

Lemma sort_by_length : forall (l : list (nat * A)), length (sort_by l) = length l.
Proof.
  induction l as [|x l IH]; [reflexivity|]. rewrite sort_by_cons, insert_by_length, IH. reflexivity.
Qed.

Fixpoint ssorted (l : list (nat * A)) : Prop :=
  match l with
  | [] => True
  | z :: r => Forall (fun z' => fst z < fst z') r /\ ssorted r
  end.

Lemma insert_ssorted : forall k (a : A) l,
  ssorted l -> (forall z, In z l -> fst z <> k) -> ssorted (insert_by k a l).
Proof.
  induction l as [|[k' a'] l IH]; simpl; intros Hs Hne.
  - split; [constructor | exact I].
  - destruct Hs as [Hall Hs].
    assert (Hk : k' <> k) by (apply (Hne (k', a')); left; reflexivity).
    destruct (Nat.leb k k') eqn:E.
    + apply Nat.leb_le in E. simpl. split; [|split; assumption].
      constructor; [simpl; lia|].
      eapply Forall_impl; [|exact Hall]. simpl. intros z Hz. lia.
    + apply Nat.leb_gt in E. simpl. split.
      * apply Forall_forall. intros z Hz. apply (proj1 (insert_by_In _ _ _ _)) in Hz. destruct Hz as [Hz|Hz].
        -- subst z. simpl. lia.
        -- rewrite Forall_forall in Hall. apply Hall. exact Hz.
      * apply IH; [exact Hs|]. intros z Hz. apply Hne. right. exact Hz.
Qed.

Lemma sort_ssorted : forall (l : list (nat * A)), NoDup (map fst l) -> ssorted (sort_by l).
Proof.
  induction l as [|[k a] l IH]; intro Hnd.
  - exact I.
  - rewrite sort_by_cons. simpl in Hnd. apply NoDup_cons_iff in Hnd. destruct Hnd as [Hni Hnd].
    apply insert_ssorted; [apply IH; exact Hnd|].
    intros z Hz Heq. apply (proj1 (sort_by_In _ _)) in Hz. apply Hni. simpl in Heq. rewrite <- Heq.
    apply in_map. exact Hz.
Qed.

(* a strictly sorted list of [length l] keys, all within [a, a + length l), is a, a+1, ... *)
Lemma ssorted_seq : forall (l : list (nat * A)) a,
  ssorted l -> (forall z, In z l -> a <= fst z < a + length l) ->
  map fst l = seq a (length l).
Proof.
  induction l as [|[k x] r IH]; intros a Hs Hb.
  - reflexivity.
  - simpl in Hs. destruct Hs as [Hall Hs]. rewrite Forall_forall in Hall.
    assert (Hk : a <= k < a + S (length r)) by (apply (Hb (k, x)); left; reflexivity).
    assert (Hr : map fst r = seq (S k) (length r)).
    { apply IH; [exact Hs|]. intros z Hz.
      pose proof (Hall z Hz) as H1. simpl in H1.
      pose proof (Hb z (or_intror Hz)) as H2. simpl in H2. lia. }
    assert (Ek : k = a).
    { destruct r as [|z0 r0]; [simpl in Hk; lia|].
      assert (Hin : In (k + length (z0 :: r0)) (map fst (z0 :: r0))).
      { rewrite Hr. apply in_seq. simpl. lia. }
      apply in_map_iff in Hin. destruct Hin as (z & Ez & Hz).
      pose proof (Hb z (or_intror Hz)) as H2. rewrite Ez in H2. simpl in H2. simpl. lia. }
    subst k. simpl. f_equal. exact Hr.
Qed.

(* sorting commutes with mapping the payload *)
Lemma insert_by_map {B} (g : A -> B) : forall k a (l : list (nat * A)),
  map (fun z => (fst z, g (snd z))) (insert_by k a l)
  = insert_by k (g a) (map (fun z => (fst z, g (snd z))) l).
Proof.
  induction l as [|[k' a'] l IH]; simpl; [reflexivity|].
  destruct (Nat.leb k k'); simpl; [reflexivity | rewrite IH; reflexivity].
Qed.

Lemma sort_by_map {B} (g : A -> B) : forall (l : list (nat * A)),
  map (fun z => (fst z, g (snd z))) (sort_by l) = sort_by (map (fun z => (fst z, g (snd z))) l).
Proof.
  induction l as [|[k a] l IH]; [reflexivity|].
  change (sort_by ((k, a) :: l)) with (insert_by k a (sort_by l)).
  change (map (fun z : nat * A => (fst z, g (snd z))) ((k, a) :: l))
    with ((k, g a) :: map (fun z : nat * A => (fst z, g (snd z))) l).
  change (sort_by ((k, g a) :: map (fun z : nat * A => (fst z, g (snd z))) l))
    with (insert_by k (g a) (sort_by (map (fun z : nat * A => (fst z, g (snd z))) l))).
  rewrite insert_by_map, IH. reflexivity.
Qed.

End Sort.

(* index_of is injective on the names it finds *)
Lemma index_of_inj : forall l x y i, index_of x l = Some i -> index_of y l = Some i -> x = y.
Proof.
  intros l x y i Hx Hy.
  revert i Hx Hy. induction l as [|z l IH]; intros i; simpl; [discriminate|].
  destruct (String.eqb z x) eqn:Ex; destruct (String.eqb z y) eqn:Ey.
  - apply String.eqb_eq in Ex, Ey. congruence.
  - intro H. inversion H; subst i. destruct (index_of y l); discriminate.
  - destruct (index_of x l); [|discriminate]. intros H H'. inversion H; inversion H'; subst. discriminate.
  - destruct (index_of x l) as [j|] eqn:E1; [|discriminate].
    destruct (index_of y l) as [j'|] eqn:E2; [|discriminate].
    intros H H'. injection H as <-. injection H' as H'.
    apply (IH j eq_refl). f_equal. exact H'.
Qed.

Lemma index_of_lt : forall l x i, index_of x l = Some i -> i < length l.
Proof.
  induction l as [|z l IH]; intros x i; simpl; [discriminate|].
  destruct (String.eqb z x); [intro H; inversion H; lia|].
  destruct (index_of x l) as [j|] eqn:E; [|discriminate]. intro H; inversion H. specialize (IH x j E). lia.
Qed.

Lemma index_of_assoc_fst {A} : forall x (l : list (string * A)),
  match index_of x (map fst l), assoc x l with
  | Some i, Some a => nth_error l i = Some (x, a)
  | None, None => True
  | _, _ => False
  end.
Proof.
  induction l as [|[y a] l IH]; simpl; [exact I|].
  destruct (String.eqb y x) eqn:E.
  - apply String.eqb_eq in E. subst. reflexivity.
  - destruct (index_of x (map fst l)); destruct (assoc x l); try contradiction; [exact IH | exact I].
Qed.
