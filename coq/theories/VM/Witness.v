(* C09 — concrete witnesses evaluated in the faithful model (vm_compute):
   the regression example for the repaired function-value defect and non-vacuity programs. *)
From NV Require Import Base.Show VM.Value VM.Ast VM.Bytecode VM.Compile VM.Machine VM.RefSem VM.Exec.
Open Scope string_scope.

(* fn f(x) = x + 1 ; let g = f ; fn f(x) = x * 100 ; g(1)
   Regression example for the repaired finding C09-funref-rebound: the function value g
   keeps denoting the first f (before the fix the machine computed 100). *)
Definition funref_witness : program Z := [
  SFn "f" ["x"] [] (EBin BAdd (EIdent "x") (EScalar 1%Z));
  SLet "g" (EIdent "f");
  SFn "f" ["x"] [] (EBin BMul (EIdent "x") (EScalar 100%Z));
  SExpr (ECallable (EIdent "g") [EScalar 1%Z])].

Lemma funref_witness_agrees :
  compile_ok (compile (procs zops) funref_witness) = true
  /\ run_ref zops 20 funref_witness = Ok ([], Some (VQ 2%Z))
  /\ Machine.run zops (compile (procs zops) funref_witness) 20 = Ok ([], Some (VQ 2%Z)).
Proof. vm_compute. repeat split; reflexivity. Qed.

(* a program exercising every clause of the property at once *)
Definition demo : program Z := [
  SStruct "P" ["u"; "v"];
  SForeign "len";
  SLet "x" (EScalar 1%Z);
  SLet "x" (EBin BAdd (EIdent "x") (EScalar 1%Z));
  SFn "w" ["g"; "x"] [] (ECallable (EIdent "g") [EIdent "x"]);
  SFn "f" ["n"] [("y", EBin BMul (EIdent "n") (EIdent "x"))]
      (ECond (EBin BLt (EIdent "n") (EScalar 1%Z)) (EScalar 0%Z)
             (EBin BAdd (EIdent "y") (ECall "w" [EIdent "f"; EBin BSub (EIdent "n") (EScalar 1%Z)])));
  SLet "x" (EScalar 10%Z);
  SLet "s" (EStruct "P" ["u"; "v"] [("v", EList [EIdent "x"; ECall "f" [EScalar 3%Z]]); ("u", EBool true)]);
  SProc "print" [EString [inl "v="; inr (EField (EIdent "s") "v" ["u"; "v"], None); inl "!"]];
  SExpr (EBin BAdd (ECall "len" [EField (EIdent "s") "v" ["u"; "v"]]) (EIdent "x"))].

Lemma demo_runs :
  compile_ok (compile (procs zops) demo) = true
  /\ run_ref zops 60 demo = Ok (["v=[10, 12]!"], Some (VQ 12%Z))
  /\ Machine.run zops (compile (procs zops) demo) 400 = Ok (["v=[10, 12]!"], Some (VQ 12%Z)).
Proof. vm_compute. repeat split; reflexivity. Qed.

(* let z = [1] ; if false then len([len(z), len(z), ... 6554 times]) else 7
   The then-branch is 6554 * 10 + 10 = 65550 bytes: its jump offsets do not fit 16 bits.
   Regression example for the repaired finding C09-jump-offset-wrap: the compiler rejects
   the program (CodeTooLarge) instead of silently truncating the offsets; before the
   repair the implementation panicked on it (the else value 7 was never produced). *)
Definition wrap_witness : program Z := [
  SForeign "len";
  SLet "z" (EList [EScalar 1%Z]);
  SExpr (ECond (EBool false)
               (ECall "len" [EList (repeat (ECall "len" [EIdent "z"]) 6554)])
               (EScalar 7%Z))].

Lemma wrap_witness_rejected :
  code_too_large (compile (procs zops) wrap_witness) = true
  /\ compile_ok (compile (procs zops) wrap_witness) = false.
Proof. vm_compute. split; reflexivity. Qed.

Lemma wrap_witness_reference : run_ref zops 10 wrap_witness = Ok ([], Some (VQ 7%Z)).
Proof. vm_compute. reflexivity. Qed.
