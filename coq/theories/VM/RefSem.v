(* C09 — the language's evaluation rules applied directly to the source: a fuelled
   big-step evaluator over environments.  Independent of the compiler: names are
   looked up in association lists (latest binding wins), struct values are built
   by field NAME, function values denote the function they named when they were
   created (static binding), arguments / elements / string parts are evaluated
   left to right, both operands of && and || are evaluated.
   Ill-typed or ill-scoped programs give [Wrong] (the type checker rejects them). *)
From Coq Require Import String List Bool Arith.
From NV Require Import VM.Value VM.Ast.
Import ListNotations.
Open Scope list_scope.

Section RefSem.
Context {Q : Type}.
Variable O : ops Q.

(* [lits = (strings, structs)]: whether string literals with parts / struct literals are
   evaluated at all.  (true, true) is the language; the correctness theorem is proved
   for the restrictions stated in Props/C09.v, a disabled construct evaluates to Wrong. *)
Variable lits : bool * bool.

Record fdef : Type := {
  fd_params : list string;
  fd_locals : list (string * expr Q);
  fd_body : expr Q;
  fd_nglob : nat;        (* globals in scope where the function is defined *)
  fd_nforeign : nat      (* foreign declarations in scope there *)
}.

Record world : Type := {
  w_globals : list (string * value Q);      (* oldest first; never shrinks *)
  w_fns : list (string * fdef);             (* the i-th function sees functions 0..i *)
  w_foreign : list string;
  w_structs : list (string * list string);
  w_last : option (value Q);                (* ans / _ *)
  w_units : list string                     (* base units defined so far *)
}.

(* the LATEST binding of x: its index and payload *)
Fixpoint find_last {A} (x : string) (l : list (string * A)) : option (nat * A) :=
  match l with
  | [] => None
  | (y, a) :: r =>
      match find_last x r with
      | Some (i, b) => Some (S i, b)
      | None => if String.eqb y x then Some (0, a) else None
      end
  end.

(* the first binding of x *)
Fixpoint assoc {A} (x : string) (l : list (string * A)) : option A :=
  match l with
  | [] => None
  | (y, a) :: r => if String.eqb y x then Some a else assoc x r
  end.

Definition mem (x : string) (l : list string) : bool := existsb (String.eqb x) l.

Fixpoint nodupb (l : list string) : bool :=
  match l with
  | [] => true
  | x :: r => negb (mem x r) && nodupb r
  end.

Fixpoint evals {A B} (ev : A -> res B) (l : list A) : res (list B) :=
  match l with
  | [] => Ok []
  | a :: r => bind (ev a) (fun v => bind (evals ev r) (fun vs => Ok (v :: vs)))
  end.

Fixpoint collect {A} (names : list string) (env : list (string * A)) : option (list A) :=
  match names with
  | [] => Some []
  | f :: r => match assoc f env, collect r env with
              | Some v, Some vs => Some (v :: vs)
              | _, _ => None
              end
  end.

Fixpoint bind_locals (ev : list (string * value Q) -> expr Q -> res (value Q))
         (L : list (string * value Q)) (wl : list (string * expr Q))
  : res (list (string * value Q)) :=
  match wl with
  | [] => Ok L
  | (x, e) :: r => bind (ev L e) (fun v => bind_locals ev (L ++ [(x, v)]) r)
  end.

(* [vg vn vf]: how many globals / functions / foreign declarations the code being
   evaluated can see (its definition point); [L]: parameters and where-locals *)
Fixpoint eval (n : nat) (W : world) (vg vn vf : nat) (L : list (string * value Q))
         (e : expr Q) {struct n} : res (value Q) :=
  match n with
  | 0 => Fuel
  | S n =>
      let ev := eval n W vg vn vf L in
      let call (idx : nat) (fd : fdef) (vs : list (value Q)) : res (value Q) :=
        if Nat.eqb (length (fd_params fd)) (length vs) then
          bind (bind_locals (fun L' e' => eval n W (fd_nglob fd) idx (fd_nforeign fd) L' e')
                            (combine (fd_params fd) vs) (fd_locals fd))
               (fun L' => eval n W (fd_nglob fd) idx (fd_nforeign fd) L' (fd_body fd))
        else Wrong in
      match e with
      | EScalar q => Ok (VQ q)
      | EBool b => Ok (VBool b)
      | EString parts =>
          if negb (fst lits) then Wrong else
          bind (evals (fun p : string + (expr Q * option string) =>
                         match p with
                         | inl s => Ok s
                         | inr (a, None) => bind (ev a) (fun v => Ok (to_str O v))
                         | inr (a, Some spec) => bind (ev a) (fun v => fmt_spec O spec v)
                         end) parts)
               (fun strs => Ok (VStr (String.concat EmptyString strs)))
      | EIdent x =>
          match find_last x L with
          | Some (_, v) => Ok v
          | None =>
              match find_last x (firstn vg (w_globals W)) with
              | Some (_, v) => Ok v
              | None =>
                  if is_last_result x then
                    match w_last W with Some v => Ok v | None => Wrong end
                  else
                    match find_last x (firstn vn (w_fns W)), mem x (firstn vf (w_foreign W)) with
                    | Some (i, _), false => Ok (VFun (FNormal x (S i)))
                    | None, true => Ok (VFun (FForeign x))
                    | _, _ => Wrong
                    end
              end
          end
      | EUnit x => if mem x (w_units W) then Ok (VQ (q_unit O x)) else Wrong
      | EUn op a => bind (ev a) (apply_un O op)
      | EBin op a b => bind (ev a) (fun va => bind (ev b) (fun vb => apply_bin O op va vb))
      | ECall f args =>
          bind (evals ev args) (fun vs =>
            match mem f (procs O ++ firstn vf (w_foreign W)), find_last f (firstn vn (w_fns W)) with
            | true, None => ffi O f vs
            | false, Some (i, fd) => call (S i) fd vs
            | _, _ => Wrong
            end)
      | ECallable callee args =>
          bind (evals ev args) (fun vs =>
            bind (ev callee) (fun c =>
              match c with
              | VFun (FNormal name (S i)) =>
                  match nth_error (w_fns W) i with
                  | Some (_, fd) => call (S i) fd vs
                  | None => Wrong
                  end
              | VFun (FForeign name) =>
                  if mem name (procs O ++ w_foreign W) then ffi O name vs else Wrong
              | _ => Wrong
              end))
      | ECond c t f =>
          bind (ev c) (fun vc =>
            match vc with
            | VBool true => ev t
            | VBool false => ev f
            | _ => Wrong
            end)
      | EStruct sname sfields fields =>
          if negb (snd lits) then Wrong else
          match assoc sname (w_structs W) with
          | Some declared =>
              if list_eqb String.eqb declared sfields && nodupb sfields
                 && Nat.eqb (length fields) (length sfields)
              then bind (evals (fun nf : string * expr Q =>
                                  bind (ev (snd nf)) (fun v => Ok (fst nf, v))) fields)
                        (fun fvs => match collect sfields fvs with
                                    | Some vals => Ok (VStruct sname sfields vals)
                                    | None => Wrong
                                    end)
              else Wrong
          | None => Wrong
          end
      | EField a fname sfields =>
          bind (ev a) (fun v =>
            match v with
            | VStruct _ fs vals =>
                if list_eqb String.eqb fs sfields && Nat.eqb (length fs) (length vals)
                then match assoc fname (combine fs vals) with
                     | Some w => Ok w
                     | None => Wrong
                     end
                else Wrong
            | _ => Wrong
            end)
      | EList es => bind (evals ev es) (fun vs => Ok (VList vs))
      end
  end.

Record rstate : Type := {
  r_world : world;
  r_out : list string;
  r_res : option (value Q)
}.

Definition rinit : rstate :=
  {| r_world := {| w_globals := []; w_fns := []; w_foreign := []; w_structs := []; w_last := None; w_units := [] |};
     r_out := []; r_res := None |}.

Definition top_eval (n : nat) (W : world) (e : expr Q) : res (value Q) :=
  eval n W (length (w_globals W)) (length (w_fns W)) (length (w_foreign W)) [] e.

Definition exec_stmt (n : nat) (s : stmt Q) (st : rstate) : res rstate :=
  let W := r_world st in
  match s with
  | SExpr e =>
      bind (top_eval n W e) (fun v =>
        Ok {| r_world := {| w_globals := w_globals W; w_fns := w_fns W; w_foreign := w_foreign W;
                            w_structs := w_structs W; w_last := Some v; w_units := w_units W |};
              r_out := r_out st; r_res := Some v |})
  | SLet x e =>
      bind (top_eval n W e) (fun v =>
        Ok {| r_world := {| w_globals := w_globals W ++ [(x, v)]; w_fns := w_fns W;
                            w_foreign := w_foreign W; w_structs := w_structs W; w_last := w_last W; w_units := w_units W |};
              r_out := r_out st; r_res := r_res st |})
  | SFn f params wl body =>
      let fd := {| fd_params := params; fd_locals := wl; fd_body := body;
                   fd_nglob := length (w_globals W); fd_nforeign := length (w_foreign W) |} in
      Ok {| r_world := {| w_globals := w_globals W; w_fns := w_fns W ++ [(f, fd)];
                          w_foreign := w_foreign W; w_structs := w_structs W; w_last := w_last W; w_units := w_units W |};
            r_out := r_out st; r_res := r_res st |}
  | SForeign f =>
      Ok {| r_world := {| w_globals := w_globals W; w_fns := w_fns W;
                          w_foreign := w_foreign W ++ [f]; w_structs := w_structs W; w_last := w_last W; w_units := w_units W |};
            r_out := r_out st; r_res := r_res st |}
  | SStruct sn fs =>
      let structs' := match assoc sn (w_structs W) with
                      | Some _ => w_structs W
                      | None => w_structs W ++ [(sn, fs)]
                      end in
      Ok {| r_world := {| w_globals := w_globals W; w_fns := w_fns W; w_foreign := w_foreign W;
                          w_structs := structs'; w_last := w_last W; w_units := w_units W |};
            r_out := r_out st; r_res := r_res st |}
  | SProc name args =>
      bind (evals (top_eval n W) args) (fun vs =>
        bind (proc O name vs) (fun lines =>
          Ok {| r_world := W; r_out := r_out st ++ lines; r_res := r_res st |}))
  | SDim => Ok st
  | SUnitBase u =>
      Ok {| r_world := {| w_globals := w_globals W; w_fns := w_fns W; w_foreign := w_foreign W;
                          w_structs := w_structs W; w_last := w_last W; w_units := w_units W ++ [u] |};
            r_out := r_out st; r_res := r_res st |}
  | SType text => Ok {| r_world := W; r_out := r_out st ++ [text]; r_res := r_res st |}
  end.

Fixpoint exec_stmts (n : nat) (p : program Q) (st : rstate) : res rstate :=
  match p with
  | [] => Ok st
  | s :: r => bind (exec_stmt n s st) (exec_stmts n r)
  end.

Definition run (n : nat) (p : program Q) : res (list string * option (value Q)) :=
  bind (exec_stmts n p rinit) (fun st => Ok (r_out st, r_res st)).

End RefSem.

(* the language *)
Definition run_ref {Q} (O : ops Q) (n : nat) (p : program Q) := run O (true, true) n p.
(* without struct literals (fragment of the error theorem) *)
Definition run_ref_nostruct {Q} (O : ops Q) (n : nat) (p : program Q) := run O (true, false) n p.
