(* C09 — compiler correctness: the machine running the model-compiled code
   simulates the reference evaluator (forward simulation, Ok outcomes). *)
From Coq Require Import String List Bool Arith Lia.
From NV Require Import VM.Value VM.Ast VM.Bytecode VM.Compile VM.Machine VM.RefSem VM.SortLemmas.
Import ListNotations.
Open Scope list_scope.

(* ------------------------------------------------------------------ *)
(* generic list facts *)

Lemma isize_pos : forall i, 1 <= isize i.
Proof. destruct i; simpl; try lia. destruct op; simpl; lia. Qed.

Lemma csize_app : forall a b, csize (a ++ b) = csize a + csize b.
Proof. induction a; simpl; intros; [reflexivity | rewrite IHa; lia]. Qed.

Lemma fetch_at : forall pre i post, fetch (pre ++ i :: post) (csize pre) = Some i.
Proof.
  induction pre as [|a pre IH]; intros; simpl.
  - reflexivity.
  - pose proof (isize_pos a).
    destruct (Nat.eqb (isize a + csize pre) 0) eqn:E; [apply Nat.eqb_eq in E; lia|].
    destruct (Nat.ltb (isize a + csize pre) (isize a)) eqn:E2; [apply Nat.ltb_lt in E2; lia|].
    replace (isize a + csize pre - isize a) with (csize pre) by lia. apply IH.
Qed.

Lemma forallb_app_inv {A} (f : A -> bool) a b :
  forallb f (a ++ b) = true -> forallb f a = true /\ forallb f b = true.
Proof. rewrite forallb_app. intro H. apply andb_prop in H. exact H. Qed.

Lemma chk16_ok : forall x i, is_marker (chk16 x i) = false -> chk16 x i = i /\ x < U16.
Proof.
  intros x i. unfold chk16. destruct (Nat.ltb x U16) eqn:E; simpl; intro H.
  - split; [reflexivity | apply Nat.ltb_lt; exact E].
  - discriminate.
Qed.

(* rposition (compiler) against find_last (reference) *)
Lemma rposition_from_spec : forall x l i acc,
  rposition_from x l i acc =
  match rposition_from x l 0 None with
  | Some j => Some (i + j)
  | None => acc
  end.
Proof.
  induction l as [|y l IH]; intros; simpl.
  - reflexivity.
  - rewrite (IH (S i)). rewrite (IH 1).
    destruct (rposition_from x l 0 None) as [j|].
    + f_equal. lia.
    + destruct (String.eqb y x); [f_equal; lia | reflexivity].
Qed.

Lemma rposition_cons : forall x y l,
  rposition x (y :: l) =
  match rposition x l with
  | Some j => Some (S j)
  | None => if String.eqb y x then Some 0 else None
  end.
Proof.
  intros. unfold rposition. simpl. rewrite rposition_from_spec.
  destruct (rposition_from x l 0 None); reflexivity.
Qed.

Lemma rposition_find_last {A} : forall x (l : list (string * A)),
  match rposition x (map fst l), find_last x l with
  | Some i, Some (j, a) => i = j /\ nth_error (map snd l) i = Some a
  | None, None => True
  | _, _ => False
  end.
Proof.
  induction l as [|[y a] l IH]; simpl.
  - exact I.
  - rewrite rposition_cons.
    destruct (rposition x (map fst l)) as [i|]; destruct (find_last x l) as [[j b]|]; try contradiction.
    + destruct IH as [E H]. subst. split; [reflexivity | exact H].
    + simpl. destruct (String.eqb y x); [split; reflexivity | exact I].
Qed.

Lemma rposition_lt : forall x l i, rposition x l = Some i -> i < length l.
Proof.
  induction l as [|y l IH]; intros i; [discriminate|].
  rewrite rposition_cons. destruct (rposition x l) as [j|].
  - intro H. inversion H. simpl. specialize (IH j eq_refl). lia.
  - destruct (String.eqb y x); intro H; inversion H. simpl. lia.
Qed.

Lemma rposition_name : forall x l i, rposition x l = Some i -> nth_error l i = Some x.
Proof.
  induction l as [|y l IH]; intros i; [discriminate|].
  rewrite rposition_cons. destruct (rposition x l) as [j|].
  - intro H. inversion H. simpl. apply IH. reflexivity.
  - destruct (String.eqb y x) eqn:E; intro H; inversion H. simpl. apply String.eqb_eq in E. subst. reflexivity.
Qed.

Lemma index_of_nth : forall x l i, index_of x l = Some i -> nth_error l i = Some x.
Proof.
  induction l as [|y l IH]; intros i; simpl; [discriminate|].
  destruct (String.eqb y x) eqn:E.
  - intro H. inversion H. apply String.eqb_eq in E. subst. reflexivity.
  - destruct (index_of x l) as [j|]; intro H; inversion H. simpl. apply IH. reflexivity.
Qed.

Lemma index_of_app : forall x l l' i, index_of x l = Some i -> index_of x (l ++ l') = Some i.
Proof.
  induction l as [|y l IH]; intros l' i; simpl; [discriminate|].
  destruct (String.eqb y x); [auto|].
  destruct (index_of x l) as [j|] eqn:E; intro H; inversion H.
  rewrite (IH l' j eq_refl). reflexivity.
Qed.

Lemma nth_error_app_l {A} : forall (l l' : list A) i a, nth_error l i = Some a -> nth_error (l ++ l') i = Some a.
Proof.
  intros. rewrite nth_error_app1; [assumption|]. apply nth_error_Some. congruence.
Qed.

(* ------------------------------------------------------------------ *)
Section Sim.
Context {Q : Type}.
Variable O : ops Q.
Variable lits : bool * bool.
Variable C : @compiled Q.

Notation step := (Machine.step O C).
Notation mstate := (@Machine.mstate Q).

Fixpoint steps (k : nat) (s : mstate) : option mstate :=
  match k with
  | 0 => Some s
  | S k' => match step s with SNext s' => steps k' s' | _ => None end
  end.

Lemma steps_trans : forall k1 k2 s s1 s2,
  steps k1 s = Some s1 -> steps k2 s1 = Some s2 -> steps (k1 + k2) s = Some s2.
Proof.
  induction k1; simpl; intros.
  - inversion H. subst. assumption.
  - destruct (step s); try discriminate. eapply IHk1; eassumption.
Qed.

Lemma steps_one : forall s s', step s = SNext s' -> steps 1 s = Some s'.
Proof. intros. simpl. rewrite H. reflexivity. Qed.

Lemma steps_run : forall k n s s', steps k s = Some s' -> run_from O C (k + n) s = run_from O C n s'.
Proof.
  induction k; simpl; intros.
  - inversion H. reflexivity.
  - destruct (step s); try discriminate. apply IHk. assumption.
Qed.

Definition F (fi ip fp : nat) : frame := {| fr_fn := fi; fr_ip := ip; fr_fp := fp |}.
Definition St (fi ip fp : nat) (frs : list frame) (stk : list (value Q)) (s : mstate) : mstate :=
  mk (F fi ip fp :: frs) stk s.

Definition at_code (fi ip : nat) (code : list instr) : Prop :=
  exists name pre post, nth_error (p_chunks C) fi = Some (name, pre ++ code ++ post) /\ csize pre = ip.

Lemma at_code_app : forall fi ip a b,
  at_code fi ip (a ++ b) -> at_code fi ip a /\ at_code fi (ip + csize a) b.
Proof.
  intros fi ip a b (name & pre & post & H & E). split.
  - exists name, pre, (b ++ post). rewrite <- app_assoc in H. split; assumption.
  - exists name, (pre ++ a), post. split.
    + rewrite <- app_assoc in H. rewrite <- app_assoc. assumption.
    + rewrite csize_app. lia.
Qed.

Lemma step_at : forall fi ip fp frs stk s i rest,
  at_code fi ip (i :: rest) ->
  step (St fi ip fp frs stk s) = exec O C i (F fi (ip + isize i) fp) frs (St fi ip fp frs stk s).
Proof.
  intros fi ip fp frs stk s i rest (name & pre & post & H & E).
  unfold Machine.step, St, mk. simpl. rewrite H.
  assert (L : Nat.leb (csize (pre ++ i :: rest ++ post)) ip = false).
  { apply Nat.leb_gt. rewrite csize_app. simpl. pose proof (isize_pos i). lia. }
  simpl in L. simpl. rewrite L. subst ip. rewrite fetch_at. reflexivity.
Qed.

Definition consts_at (nk : nat) (ks : list (const Q)) : Prop :=
  exists pre post, p_consts C = pre ++ ks ++ post /\ length pre = nk.

Lemma consts_at_app : forall nk a b,
  consts_at nk (a ++ b) -> consts_at nk a /\ consts_at (nk + length a) b.
Proof.
  intros nk a b (pre & post & H & E). split.
  - exists pre, (b ++ post). rewrite <- app_assoc in H. split; assumption.
  - exists (pre ++ a), post. split.
    + rewrite <- app_assoc in H. rewrite <- app_assoc. assumption.
    + rewrite app_length. lia.
Qed.

Lemma consts_at_nth : forall nk c r, consts_at nk (c :: r) -> nth_error (p_consts C) nk = Some c.
Proof.
  intros nk c r (pre & post & H & E). rewrite H. subst nk.
  rewrite nth_error_app2 by lia. rewrite Nat.sub_diag. reflexivity.
Qed.

Definition nomark (c : list instr) : Prop := forallb (fun i => negb (is_marker i)) c = true.

Lemma nomark_app : forall a b, nomark (a ++ b) -> nomark a /\ nomark b.
Proof. intros a b. apply forallb_app_inv. Qed.

Lemma nomark_one : forall i r, nomark (i :: r) -> is_marker i = false /\ nomark r.
Proof.
  unfold nomark. simpl. intros i r H. apply andb_prop in H. destruct H as [H1 H2].
  split; [destruct (is_marker i); [discriminate | reflexivity] | assumption].
Qed.

(* ---- what is fixed while one statement runs *)
Variable W : @world Q.

Definition stack_ok (ce : cenv) (L : list (string * value Q)) (fp : nat) (stk : list (value Q)) : Prop :=
  (exists upper, stk = upper ++ rev (map snd (w_globals W))) /\
  match c_locals ce with
  | Some ls => ls = map fst L /\
               exists temps below, stk = temps ++ rev (map snd L) ++ below /\ length below = fp
  | None => L = [] /\ fp = 0
  end.

Lemma stack_ok_push : forall ce L fp stk p, stack_ok ce L fp stk -> stack_ok ce L fp (p ++ stk).
Proof.
  intros ce L fp stk p [[u Hu] H]. split.
  - exists (p ++ u). rewrite Hu. rewrite app_assoc. reflexivity.
  - destruct (c_locals ce); [|assumption].
    destruct H as [E (t & b & Hs & Hl)]. split; [assumption|].
    exists (p ++ t), b. split; [|assumption]. rewrite Hs. rewrite app_assoc. reflexivity.
Qed.

Section Comp.
Variable ce : cenv.
Variable L : list (string * value Q).
Variables fi fp : nat.
Variable frs : list frame.

(* a sub-compiler [c] is correct for the values [pushed] (topmost first) *)
Definition comp_ok (c : nat -> nat -> @frag Q) (pushed : list (value Q)) : Prop :=
  forall nk na ip stk s,
    stack_ok ce L fp stk -> m_last s = w_last W ->
    at_code fi ip (f_code (c nk na)) -> consts_at nk (f_consts (c nk na)) ->
    nomark (f_code (c nk na)) ->
    exists k, steps k (St fi ip fp frs stk s)
              = Some (St fi (ip + csize (f_code (c nk na))) fp frs (pushed ++ stk) s).

Lemma cseq_ok : forall cs ps, Forall2 comp_ok cs ps -> comp_ok (cseq cs) (concat (rev ps)).
Proof.
  induction 1 as [|c p cs ps Hc Hr IH]; unfold comp_ok; intros nk na ip stk s Hs Hl Ha Hk Hm.
  - simpl. exists 0. simpl. try rewrite Nat.add_0_r; reflexivity.
  - simpl in *. apply at_code_app in Ha. destruct Ha as [Ha1 Ha2].
    apply consts_at_app in Hk. destruct Hk as [Hk1 Hk2].
    apply nomark_app in Hm. destruct Hm as [Hm1 Hm2].
    destruct (Hc nk na ip stk s Hs Hl Ha1 Hk1 Hm1) as [k1 E1].
    destruct (IH _ _ _ (p ++ stk) s (stack_ok_push _ _ _ _ p Hs) Hl Ha2 Hk2 Hm2) as [k2 E2].
    exists (k1 + k2). rewrite (steps_trans _ _ _ _ _ E1 E2).
    rewrite csize_app. rewrite concat_app. simpl. rewrite app_nil_r.
    rewrite <- app_assoc. rewrite Nat.add_assoc. reflexivity.
Qed.

End Comp.

(* ---- the relation between the compiler's scope tables and the reference world *)
Definition cenv_rel (ce : cenv) (vg vn vf : nat) : Prop :=
  c_globals ce = map fst (firstn vg (w_globals W)) /\
  c_chunks ce = "<main>"%string :: map fst (firstn vn (w_fns W)) /\
  (forall x, match fn_lookup x (c_functions ce) with
             | Some true => mem x (firstn vf (w_foreign W)) = true
             | Some false => find_last x (firstn vn (w_fns W)) <> None
             | None => mem x (firstn vf (w_foreign W)) = false /\ find_last x (firstn vn (w_fns W)) = None
             end) /\
  (exists rest, p_ffi C = c_ffi ce ++ rest) /\
  (forall x, match index_of x (c_ffi ce) with
             | Some _ => mem x (procs O ++ firstn vf (w_foreign W)) = true
             | None => mem x (procs O ++ firstn vf (w_foreign W)) = false
             end) /\
  (exists rest, p_structs C = c_structs ce ++ rest) /\
  ((exists rest, w_structs W = c_structs ce ++ rest) /\
   (* unit_name_to_constant_index: the entry points at the unit's constant *)
   (forall x i, unit_lookup x (c_units ce) = Some i ->
                nth_error (p_consts C) i = Some (CUnit x) /\ mem x (w_units W) = true)).

Lemma cenv_rel_locals : forall ce ls vg vn vf, cenv_rel ce vg vn vf -> cenv_rel (with_locals ce ls) vg vn vf.
Proof. intros. exact H. Qed.

Definition RelW : Prop :=
  (forall i name fd, nth_error (w_fns W) i = Some (name, fd) ->
     exists ce nk na,
       nth_error (p_chunks C) (S i)
         = Some (name, f_code (cfun ce (fd_params fd) (fd_locals fd) (fd_body fd) nk na)) /\
       consts_at nk (f_consts (cfun ce (fd_params fd) (fd_locals fd) (fd_body fd) nk na)) /\
       nomark (f_code (cfun ce (fd_params fd) (fd_locals fd) (fd_body fd) nk na)) /\
       cenv_rel ce (fd_nglob fd) (S i) (fd_nforeign fd)) /\
  (forall x, mem x (procs O ++ w_foreign W) = true -> index_of x (p_ffi C) <> None).

Definition expr_ok (n : nat) : Prop :=
  forall vg vn vf L e v,
    eval O lits n W vg vn vf L e = Ok v ->
    forall ce fi fp frs, cenv_rel ce vg vn vf -> comp_ok ce L fi fp frs (cexpr ce e) [v].

(* ---- stack access *)
Lemma nth_error_firstn_some {A} : forall n (l : list A) p a,
  nth_error (firstn n l) p = Some a -> nth_error l p = Some a.
Proof.
  induction n; intros l p a; simpl.
  - destruct p; discriminate.
  - destruct l; [destruct p; discriminate|]. destruct p; simpl; [auto | apply IHn].
Qed.

Lemma stack_get_global : forall (stk upper : list (value Q)) vals p a,
  stk = upper ++ rev vals -> nth_error vals p = Some a -> stack_get stk p = Some a.
Proof.
  intros. unfold stack_get. subst stk. rewrite rev_app_distr, rev_involutive.
  apply nth_error_app_l. assumption.
Qed.

Lemma stack_get_local : forall (stk temps below : list (value Q)) vals p a,
  stk = temps ++ rev vals ++ below -> nth_error vals p = Some a ->
  stack_get stk (length below + p) = Some a.
Proof.
  intros. unfold stack_get. subst stk. rewrite !rev_app_distr, rev_involutive.
  rewrite <- app_assoc. rewrite nth_error_app2 by (rewrite rev_length; lia).
  rewrite rev_length. replace (length below + p - length below) with p by lia.
  apply nth_error_app_l. assumption.
Qed.

Lemma skipn_length_app {A} : forall (a b : list A), skipn (length a) (a ++ b) = b.
Proof. induction a; simpl; auto. Qed.

Lemma firstn_length_app {A} : forall (a b : list A), firstn (length a) (a ++ b) = a.
Proof. induction a; simpl; intros; [reflexivity | f_equal; auto]. Qed.

(* one emitted instruction *)
Lemma run_one : forall fi ip fp frs stk s i rest s',
  at_code fi ip (i :: rest) ->
  exec O C i (F fi (ip + isize i) fp) frs (St fi ip fp frs stk s) = SNext s' ->
  steps 1 (St fi ip fp frs stk s) = Some s'.
Proof. intros. apply steps_one. rewrite (step_at _ _ _ _ _ _ _ _ H). assumption. Qed.


(* ---- leaves *)
Lemma ok_const : forall ce L fi fp frs c,
  comp_ok ce L fi fp frs
    (fun nk na => {| f_consts := [c]; f_code := [ILoadConstant nk]; f_na := na |}) [const_to_value O c].
Proof.
  unfold comp_ok; simpl; intros ce L fi fp frs c nk na ip stk s Hs Hl Ha Hk Hm.
  exists 1. eapply run_one; [exact Ha|]. simpl.
  rewrite (consts_at_nth _ _ _ Hk). try rewrite Nat.add_0_r; reflexivity.
Qed.

Lemma ok_ident : forall vg vn vf L x v ce fi fp frs,
  match find_last x L with
  | Some (_, v) => Ok v
  | None =>
      match find_last x (firstn vg (w_globals W)) with
      | Some (_, v) => Ok v
      | None =>
          if is_last_result x then
            match w_last W with Some v => Ok v | None => Wrong end
          else
            match find_last x (firstn vn (w_fns W)), mem x (firstn vf (w_foreign W)) with
            | Some (i, _), false => Ok (VFun (FNormal x (S i)))
            | None, true => Ok (VFun (FForeign x))
            | _, _ => Wrong
            end
      end
  end = Ok v ->
  cenv_rel ce vg vn vf -> comp_ok ce L fi fp frs (cident ce x) [v].
Proof.
  intros vg vn vf L x v ce fi fp frs H Hrel.
  destruct Hrel as (Hg & Hch & Hfn & _).
  (* the part after the two scopes *)
  assert (After :
    find_last x L = None -> find_last x (firstn vg (w_globals W)) = None ->
    comp_ok ce L fi fp frs
      (fun nk na =>
         if is_last_result x then {| f_consts := []; f_code := [IGetLastResult]; f_na := na |}
         else match fn_lookup x (c_functions ce) with
              | Some true =>
                  {| f_consts := [CFunRef (FForeign x)]; f_code := [ILoadConstant nk]; f_na := na |}
              | Some false =>
                  match rposition x (c_chunks ce) with
                  | Some i => {| f_consts := [CFunRef (FNormal x i)]; f_code := [ILoadConstant nk]; f_na := na |}
                  | None => {| f_consts := []; f_code := [ICompilePanic]; f_na := na |}
                  end
              | None => {| f_consts := []; f_code := [ICompilePanic]; f_na := na |}
              end) [v]).
  { intros E1 E2. rewrite E1, E2 in H.
    destruct (is_last_result x).
    - unfold comp_ok; simpl; intros nk na ip stk s Hs Hl Ha Hk Hm.
      destruct (w_last W) as [w|] eqn:Ew; [|discriminate]. inversion H; subst w.
      exists 1. eapply run_one; [exact Ha|]. simpl. rewrite Hl. try rewrite Nat.add_0_r; reflexivity.
    - specialize (Hfn x).
      pose proof (rposition_find_last x (firstn vn (w_fns W))) as Hr.
      destruct (find_last x (firstn vn (w_fns W))) as [[i fd]|] eqn:Ef;
        destruct (mem x (firstn vf (w_foreign W))) eqn:Em; try discriminate.
      + (* normal *)
        inversion H; subst v.
        destruct (fn_lookup x (c_functions ce)) as [[|]|].
        * congruence.
        * rewrite Hch. rewrite rposition_cons.
          destruct (rposition x (map fst (firstn vn (w_fns W)))) as [j|]; [|contradiction].
          destruct Hr as [Hr _]. subst j.
          apply (ok_const ce L fi fp frs (CFunRef (FNormal x (S i)))).
        * destruct Hfn. congruence.
      + (* foreign *)
        inversion H; subst v.
        destruct (fn_lookup x (c_functions ce)) as [[|]|].
        * apply (ok_const ce L fi fp frs (CFunRef (FForeign x))).
        * congruence.
        * destruct Hfn. congruence. }
  unfold cident.
  pose proof (rposition_find_last x L) as HL.
  pose proof (rposition_find_last x (firstn vg (w_globals W))) as HG.
  rewrite <- Hg in HG.
  unfold comp_ok; intros nk na ip stk s Hs Hl Ha Hk Hm.
  destruct Hs as [[upper Hup] Hloc].
  assert (Hs' : stack_ok ce L fp stk) by (split; [exists upper; exact Hup | exact Hloc]).
  destruct (c_locals ce) as [ls|] eqn:Ecl.
  - destruct Hloc as [Els (temps & below & Hstk & Hlen)]. subst ls.
    destruct (rposition x (map fst L)) as [p|].
    + destruct (find_last x L) as [[j a]|]; [|contradiction].
      destruct HL as [_ Hn]. inversion H; subst a. simpl in *.
      apply nomark_one in Hm. destruct Hm as [Hm _]. apply chk16_ok in Hm. destruct Hm as [Hm _].
      rewrite Hm in *. exists 1. eapply run_one; [exact Ha|]. simpl.
      rewrite <- Hlen. rewrite (stack_get_local _ _ _ _ _ _ Hstk Hn). try rewrite Nat.add_0_r; reflexivity.
    + destruct (find_last x L) as [[j a]|] eqn:EL; [contradiction|].
      destruct (rposition x (c_globals ce)) as [p|].
      * destruct (find_last x (firstn vg (w_globals W))) as [[j a]|]; [|contradiction].
        destruct HG as [_ Hn]. inversion H; subst a. simpl in *.
        apply nomark_one in Hm. destruct Hm as [Hm _]. apply chk16_ok in Hm. destruct Hm as [Hm _].
        rewrite Hm in *. exists 1. eapply run_one; [exact Ha|]. simpl.
        assert (Hn' : nth_error (map snd (w_globals W)) p = Some v).
        { rewrite <- firstn_map in Hn. eapply nth_error_firstn_some. exact Hn. }
        rewrite (stack_get_global _ _ _ _ _ Hup Hn'). try rewrite Nat.add_0_r; reflexivity.
      * destruct (find_last x (firstn vg (w_globals W))) as [[j a]|] eqn:EG; [contradiction|].
        apply (After eq_refl eq_refl nk na ip stk s Hs' Hl Ha Hk Hm).
  - destruct Hloc as [EL Efp]. subst L fp. simpl in H.
    destruct (rposition x (c_globals ce)) as [p|].
    + destruct (find_last x (firstn vg (w_globals W))) as [[j a]|]; [|contradiction].
      destruct HG as [_ Hn]. inversion H; subst a. simpl in *.
      apply nomark_one in Hm. destruct Hm as [Hm _]. apply chk16_ok in Hm. destruct Hm as [Hm _].
      rewrite Hm in *. exists 1. eapply run_one; [exact Ha|]. simpl.
      assert (Hn' : nth_error (map snd (w_globals W)) p = Some v).
      { rewrite <- firstn_map in Hn. eapply nth_error_firstn_some. exact Hn. }
      rewrite (stack_get_global _ _ _ _ _ Hup Hn'). try rewrite Nat.add_0_r; reflexivity.
    + destruct (find_last x (firstn vg (w_globals W))) as [[j a]|] eqn:EG; [contradiction|].
      apply (After eq_refl eq_refl nk na ip stk s Hs' Hl Ha Hk Hm).
Qed.


Lemma bind_ok {A B} : forall (r : res A) (f : A -> res B) v,
  bind r f = Ok v -> exists a, r = Ok a /\ f a = Ok v.
Proof. intros r f v H. destruct r; simpl in H; try discriminate. eauto. Qed.

(* run [c], then the code [tail] *)
Lemma ok_then : forall ce L fi fp frs (c c' : nat -> nat -> @frag Q) pushed result
                       (tail : nat -> nat -> list instr) (tailk : nat -> nat -> list (const Q)),
  comp_ok ce L fi fp frs c pushed ->
  (forall nk na, f_code (c' nk na) = f_code (c nk na) ++ tail nk na /\
                 f_consts (c' nk na) = f_consts (c nk na) ++ tailk nk na) ->
  (forall nk na ip stk s,
      nomark (tail nk na) -> stack_ok ce L fp stk -> m_last s = w_last W ->
      at_code fi ip (tail nk na) -> consts_at (nk + length (f_consts (c nk na))) (tailk nk na) ->
      exists k, steps k (St fi ip fp frs (pushed ++ stk) s)
                = Some (St fi (ip + csize (tail nk na)) fp frs (result ++ stk) s)) ->
  comp_ok ce L fi fp frs c' result.
Proof.
  intros ce L fi fp frs c c' pushed result tail tailk Hc Heq Ht.
  unfold comp_ok; intros nk na ip stk s Hs Hl Ha Hk Hm.
  destruct (Heq nk na) as [E1 E2]. rewrite E1 in *. rewrite E2 in *.
  apply at_code_app in Ha. destruct Ha as [Ha1 Ha2].
  apply consts_at_app in Hk. destruct Hk as [Hk1 Hk2].
  apply nomark_app in Hm. destruct Hm as [Hm1 Hm2].
  destruct (Hc nk na ip stk s Hs Hl Ha1 Hk1 Hm1) as [k1 S1].
  destruct (Ht nk na _ stk s Hm2 Hs Hl Ha2 Hk2) as [k2 S2].
  exists (k1 + k2). rewrite (steps_trans _ _ _ _ _ S1 S2). rewrite csize_app, Nat.add_assoc. reflexivity.
Qed.

(* run [c], then one instruction that rewrites the top of the stack *)
Lemma ok_emit : forall ce L fi fp frs (c c' : nat -> nat -> @frag Q) pushed result (i : nat -> nat -> instr),
  comp_ok ce L fi fp frs c pushed ->
  (forall nk na, f_code (c' nk na) = f_code (c nk na) ++ [i nk na] /\
                 f_consts (c' nk na) = f_consts (c nk na)) ->
  (forall nk na ip stk s,
      is_marker (i nk na) = false -> stack_ok ce L fp stk -> m_last s = w_last W ->
      exec O C (i nk na) (F fi (ip + isize (i nk na)) fp) frs (St fi ip fp frs (pushed ++ stk) s)
      = SNext (St fi (ip + isize (i nk na)) fp frs (result ++ stk) s)) ->
  comp_ok ce L fi fp frs c' result.
Proof.
  intros ce L fi fp frs c c' pushed result i Hc Heq Hi.
  apply (ok_then ce L fi fp frs c c' pushed result (fun nk na => [i nk na]) (fun _ _ => [])); [exact Hc| |].
  - intros nk na. destruct (Heq nk na) as [E1 E2]. rewrite E1, E2, app_nil_r. split; reflexivity.
  - intros nk na ip stk s Hm Hs Hl Ha _. apply nomark_one in Hm. destruct Hm as [Hm _].
    exists 1. simpl. rewrite Nat.add_0_r.
    eapply run_one; [exact Ha|]. apply Hi; assumption.
Qed.

Lemma ok_seq2 : forall ce L fi fp frs (c1 c2 c' : nat -> nat -> @frag Q) p1 p2,
  comp_ok ce L fi fp frs c1 p1 -> comp_ok ce L fi fp frs c2 p2 ->
  (forall nk na, f_code (c' nk na)
                 = f_code (c1 nk na) ++ f_code (c2 (nk + length (f_consts (c1 nk na))) (f_na (c1 nk na))) /\
                 f_consts (c' nk na)
                 = f_consts (c1 nk na) ++ f_consts (c2 (nk + length (f_consts (c1 nk na))) (f_na (c1 nk na)))) ->
  comp_ok ce L fi fp frs c' (p2 ++ p1).
Proof.
  intros ce L fi fp frs c1 c2 c' p1 p2 H1 H2 Heq.
  apply (ok_then ce L fi fp frs c1 c' p1 (p2 ++ p1)
           (fun nk na => f_code (c2 (nk + length (f_consts (c1 nk na))) (f_na (c1 nk na))))
           (fun nk na => f_consts (c2 (nk + length (f_consts (c1 nk na))) (f_na (c1 nk na)))));
    [exact H1 | exact Heq |].
  intros nk na ip stk s Hm Hs Hl Ha Hk.
  destruct (H2 _ _ ip (p1 ++ stk) s (stack_ok_push _ _ _ _ p1 Hs) Hl Ha Hk Hm) as [k E].
  exists k. rewrite E. rewrite <- app_assoc. reflexivity.
Qed.

Lemma pop_n_rev : forall (vs stk : list (value Q)),
  pop_n (length vs) (rev vs ++ stk) = Some (vs, stk).
Proof.
  intros. unfold pop_n. rewrite app_length, rev_length.
  destruct (Nat.leb (length vs) (length vs + length stk)) eqn:E; [|apply Nat.leb_gt in E; lia].
  rewrite <- (rev_length vs) at 1 2.
  rewrite firstn_length_app, skipn_length_app, rev_involutive. reflexivity.
Qed.

Lemma evals_length {A B} : forall (ev : A -> res B) l vs, evals ev l = Ok vs -> length vs = length l.
Proof.
  induction l; simpl; intros vs H.
  - inversion H. reflexivity.
  - apply bind_ok in H. destruct H as (v & _ & H). apply bind_ok in H. destruct H as (vs' & H & E).
    inversion E. simpl. f_equal. apply IHl. assumption.
Qed.

Lemma concat_rev_singletons {A} : forall (vs : list A), concat (rev (map (fun v => [v]) vs)) = rev vs.
Proof.
  induction vs; simpl; [reflexivity|]. rewrite concat_app. simpl. rewrite IHvs. reflexivity.
Qed.

(* arguments / elements: left to right *)
Lemma ok_args : forall n, expr_ok n ->
  forall vg vn vf L es vs ce fi fp frs,
    evals (eval O lits n W vg vn vf L) es = Ok vs -> cenv_rel ce vg vn vf ->
    comp_ok ce L fi fp frs (cseq (map (fun a => cexpr ce a) es)) (rev vs).
Proof.
  intros n IH vg vn vf L es vs ce fi fp frs H Hrel.
  rewrite <- concat_rev_singletons. apply cseq_ok.
  revert vs H. induction es as [|e es IHes]; simpl; intros vs H.
  - inversion H. constructor.
  - apply bind_ok in H. destruct H as (v & Hv & H). apply bind_ok in H. destruct H as (vs' & Hvs & E).
    inversion E. simpl. constructor; [|apply IHes; assumption].
    eapply IH; eassumption.
Qed.


Lemma lift_ok : forall (r : res (value Q)) (k : value Q -> sres) v, r = Ok v -> lift r k = k v.
Proof. intros. subst. reflexivity. Qed.

Lemma ok_un : forall n, expr_ok n -> forall vg vn vf L op a v ce fi fp frs,
  bind (eval O lits n W vg vn vf L a) (apply_un O op) = Ok v -> cenv_rel ce vg vn vf ->
  comp_ok ce L fi fp frs (cexpr ce (EUn op a)) [v].
Proof.
  intros n IH vg vn vf L op a v ce fi fp frs H Hrel.
  apply bind_ok in H. destruct H as (va & Ha & Hv).
  apply (ok_emit ce L fi fp frs (cexpr ce a) _ [va] [v]
           (fun _ _ => match op with UFact k => chk16 k (IUn op) | _ => IUn op end)).
  - eapply IH; eassumption.
  - intros. simpl. split; reflexivity.
  - intros nk na ip stk s Hm Hs Hl.
    assert (E : match op with UFact k => chk16 k (IUn op) | _ => IUn op end = IUn op).
    { destruct op; try reflexivity. apply chk16_ok in Hm. apply Hm. }
    rewrite E. simpl. rewrite (lift_ok _ _ _ Hv). reflexivity.
Qed.

Lemma ok_bin : forall n, expr_ok n -> forall vg vn vf L op a b v ce fi fp frs,
  bind (eval O lits n W vg vn vf L a)
       (fun va => bind (eval O lits n W vg vn vf L b) (fun vb => apply_bin O op va vb)) = Ok v ->
  cenv_rel ce vg vn vf ->
  comp_ok ce L fi fp frs (cexpr ce (EBin op a b)) [v].
Proof.
  intros n IH vg vn vf L op a b v ce fi fp frs H Hrel.
  apply bind_ok in H. destruct H as (va & Ha & H). apply bind_ok in H. destruct H as (vb & Hb & Hv).
  apply (ok_emit ce L fi fp frs
           (fun nk na => fapp (cexpr ce a nk na)
                              (cexpr ce b (nk + length (f_consts (cexpr ce a nk na))) (f_na (cexpr ce a nk na))))
           _ ([vb] ++ [va]) [v] (fun _ _ => IBin op)).
  - apply (ok_seq2 ce L fi fp frs (cexpr ce a) (cexpr ce b)).
    + eapply IH; eassumption.
    + eapply IH; eassumption.
    + intros. simpl. split; reflexivity.
  - intros. simpl. split; reflexivity.
  - intros nk na ip stk s Hm Hs Hl. simpl. rewrite (lift_ok _ _ _ Hv). reflexivity.
Qed.

Lemma ok_list : forall n, expr_ok n -> forall vg vn vf L es v ce fi fp frs,
  bind (evals (eval O lits n W vg vn vf L) es) (fun vs => Ok (VList vs)) = Ok v ->
  cenv_rel ce vg vn vf ->
  comp_ok ce L fi fp frs (cexpr ce (EList es)) [v].
Proof.
  intros n IH vg vn vf L es v ce fi fp frs H Hrel.
  apply bind_ok in H. destruct H as (vs & Hvs & Hv). inversion Hv; subst v.
  apply (ok_emit ce L fi fp frs (cseq (map (fun a => cexpr ce a) es)) _ (rev vs) [VList vs]
           (fun _ _ => chk16 (length es) (IBuildList (length es)))).
  - eapply ok_args; eassumption.
  - intros. simpl. split; reflexivity.
  - intros nk na ip stk s Hm Hs Hl. apply chk16_ok in Hm. destruct Hm as [Hm _]. rewrite Hm.
    simpl. rewrite <- (evals_length _ _ _ Hvs). rewrite pop_n_rev. reflexivity.
Qed.

Lemma index_of_assoc {A} : forall x (fs : list string) (vals : list A) i,
  index_of x fs = Some i -> length fs = length vals ->
  exists a, nth_error vals i = Some a /\ assoc x (combine fs vals) = Some a.
Proof.
  induction fs as [|f fs IH]; intros vals i; simpl; [discriminate|].
  destruct vals as [|a vals]; [discriminate|]. simpl.
  destruct (String.eqb f x).
  - intros H _. inversion H. exists a. split; reflexivity.
  - destruct (index_of x fs) as [j|] eqn:E; [|discriminate].
    intros H Hl. inversion H. simpl. apply (IH vals j eq_refl). lia.
Qed.

Lemma list_eqb_string_eq : forall a b, list_eqb String.eqb a b = true -> a = b.
Proof.
  induction a; destruct b; simpl; intro H; try discriminate; [reflexivity|].
  apply andb_prop in H. destruct H as [H1 H2]. apply String.eqb_eq in H1. subst. f_equal. auto.
Qed.

Lemma ok_field : forall n, expr_ok n -> forall vg vn vf L a fname sfields v ce fi fp frs,
  eval O lits (S n) W vg vn vf L (EField a fname sfields) = Ok v ->
  cenv_rel ce vg vn vf ->
  comp_ok ce L fi fp frs (cexpr ce (EField a fname sfields)) [v].
Proof.
  intros n IH vg vn vf L a fname sfields v ce fi fp frs H Hrel. simpl in H.
  apply bind_ok in H. destruct H as (va & Ha & Hv).
  destruct va; try discriminate.
  destruct (list_eqb String.eqb fields sfields) eqn:Ef; [|discriminate].
  destruct (Nat.eqb (length fields) (length vals)) eqn:El; [|discriminate]. simpl in Hv.
  apply list_eqb_string_eq in Ef. subst fields. apply Nat.eqb_eq in El.
  simpl. destruct (index_of fname sfields) as [idx|] eqn:Ei.
  - destruct (index_of_assoc _ _ _ _ Ei El) as (w & Hn & Hw). rewrite Hw in Hv. inversion Hv; subst w.
    apply (ok_emit ce L fi fp frs (cexpr ce a) _ [VStruct sname sfields vals] [v]
             (fun _ _ => chk16 idx (IAccessField idx))).
    + eapply IH; eassumption.
    + intros. simpl. split; reflexivity.
    + intros nk na ip stk s Hm Hs Hl. apply chk16_ok in Hm. destruct Hm as [Hm _]. rewrite Hm.
      simpl. rewrite Hn. reflexivity.
  - (* the compiler would have panicked: excluded by nomark *)
    apply (ok_emit ce L fi fp frs (cexpr ce a) _ [VStruct sname sfields vals] [v] (fun _ _ => ICompilePanic)).
    + eapply IH; eassumption.
    + intros. simpl. split; reflexivity.
    + intros nk na ip stk s Hm. discriminate.
Qed.

Lemma ok_cond : forall n, expr_ok n -> forall vg vn vf L c t e v ce fi fp frs,
  eval O lits (S n) W vg vn vf L (ECond c t e) = Ok v ->
  cenv_rel ce vg vn vf ->
  comp_ok ce L fi fp frs (cexpr ce (ECond c t e)) [v].
Proof.
  intros n IH vg vn vf L c t e v ce fi fp frs H Hrel. simpl in H.
  apply bind_ok in H. destruct H as (vc & Hc & Hv).
  unfold comp_ok; intros nk na ip stk s Hs Hl Ha Hk Hm. simpl in *.
  set (fc := cexpr ce c nk na) in *.
  set (ft := cexpr ce t (nk + length (f_consts fc)) (f_na fc)) in *.
  set (fe := cexpr ce e (nk + length (f_consts fc) + length (f_consts ft)) (f_na ft)) in *.
  apply at_code_app in Ha. destruct Ha as [Hac Ha].
  change (IJumpIfFalse (csize (f_code ft) + 3) :: f_code ft ++ IJump (csize (f_code fe)) :: f_code fe)
    with ([IJumpIfFalse (csize (f_code ft) + 3)] ++ f_code ft ++ [IJump (csize (f_code fe))] ++ f_code fe) in *.
  apply at_code_app in Ha. destruct Ha as [Haj Ha].
  apply at_code_app in Ha. destruct Ha as [Hat Ha].
  apply at_code_app in Ha. destruct Ha as [Haj2 Hae].
  apply consts_at_app in Hk. destruct Hk as [Hkc Hk].
  apply consts_at_app in Hk. destruct Hk as [Hkt Hke].
  apply nomark_app in Hm. destruct Hm as [Hmc Hm].
  apply nomark_app in Hm. destruct Hm as [_ Hm].
  apply nomark_app in Hm. destruct Hm as [Hmt Hm].
  apply nomark_app in Hm. destruct Hm as [_ Hme].
  destruct (IH _ _ _ _ _ _ Hc ce fi fp frs Hrel nk na ip stk s Hs Hl Hac Hkc Hmc) as [k1 S1].
  simpl in S1. fold fc in S1.
  rewrite !csize_app. simpl csize.
  destruct vc; try discriminate. destruct b.
  - (* then branch, then the jump over the else branch *)
    assert (S2 : steps 1 (St fi (ip + csize (f_code fc)) fp frs (VBool true :: stk) s)
                 = Some (St fi (ip + csize (f_code fc) + 3) fp frs stk s)).
    { eapply run_one; [exact Haj|]. reflexivity. }
    destruct (IH _ _ _ _ _ _ Hv ce fi fp frs Hrel _ _ _ stk s Hs Hl Hat Hkt Hmt) as [k3 S3].
    simpl in S3. fold fc ft in S3.
    assert (S4 : steps 1 (St fi (ip + csize (f_code fc) + 3 + csize (f_code ft)) fp frs (v :: stk) s)
                 = Some (St fi (ip + csize (f_code fc) + 3 + csize (f_code ft) + 3 + csize (f_code fe)) fp frs (v :: stk) s)).
    { eapply run_one; [exact Haj2|]. reflexivity. }
    exists (k1 + (1 + (k3 + 1))).
    rewrite (steps_trans _ _ _ _ _ S1 (steps_trans _ _ _ _ _ S2 (steps_trans _ _ _ _ _ S3 S4))).
    f_equal. unfold St, F. do 3 f_equal. lia.
  - assert (S2 : steps 1 (St fi (ip + csize (f_code fc)) fp frs (VBool false :: stk) s)
                 = Some (St fi (ip + csize (f_code fc) + 3 + (csize (f_code ft) + 3)) fp frs stk s)).
    { eapply run_one; [exact Haj|]. reflexivity. }
    replace (ip + csize (f_code fc) + 3 + (csize (f_code ft) + 3))
      with (ip + csize (f_code fc) + 3 + csize (f_code ft) + 3) in S2 by lia.
    destruct (IH _ _ _ _ _ _ Hv ce fi fp frs Hrel _ _ _ stk s Hs Hl Hae Hke Hme) as [k3 S3].
    simpl in S3.
    exists (k1 + (1 + k3)).
    rewrite (steps_trans _ _ _ _ _ S1 (steps_trans _ _ _ _ _ S2 S3)).
    f_equal. unfold St, F. do 3 f_equal. fold fe. lia.
Qed.


(* ---- function bodies: where-locals, body, Return *)
Lemma clocals_ok : forall n, expr_ok n -> forall vg vn vf ce fi fp frs below,
  cenv_rel ce vg vn vf -> length below = fp ->
  (exists upper, below = upper ++ rev (map snd (w_globals W))) ->
  forall wl L0 L' nk na ip s,
    bind_locals (fun L e => eval O lits n W vg vn vf L e) L0 wl = Ok L' ->
    m_last s = w_last W ->
    at_code fi ip (f_code (fst (clocals ce (map fst L0) wl nk na))) ->
    consts_at nk (f_consts (fst (clocals ce (map fst L0) wl nk na))) ->
    nomark (f_code (fst (clocals ce (map fst L0) wl nk na))) ->
    snd (clocals ce (map fst L0) wl nk na) = map fst L' /\
    exists k, steps k (St fi ip fp frs (rev (map snd L0) ++ below) s)
              = Some (St fi (ip + csize (f_code (fst (clocals ce (map fst L0) wl nk na)))) fp frs
                         (rev (map snd L') ++ below) s).
Proof.
  intros n IH vg vn vf ce fi fp frs below Hrel Hlen [upper Hup].
  induction wl as [|[x e] wl IHwl]; intros L0 L' nk na ip s H Hl Ha Hk Hm.
  - simpl in *. inversion H; subst L'. split; [reflexivity|]. exists 0. simpl. rewrite Nat.add_0_r. reflexivity.
  - simpl in H. apply bind_ok in H. destruct H as (v & Hv & H).
    simpl in Ha, Hk, Hm |- *.
    set (f1 := cexpr (with_locals ce (Some (map fst L0))) e nk na) in *.
    specialize (IHwl (L0 ++ [(x, v)]) L' (nk + length (f_consts f1)) (f_na f1)).
    rewrite map_app in IHwl. simpl in IHwl.
    destruct (clocals ce (map fst L0 ++ [x]) wl (nk + length (f_consts f1)) (f_na f1)) as [f2 ls'] eqn:Ecl.
    simpl in *.
    apply at_code_app in Ha. destruct Ha as [Ha1 Ha2].
    apply consts_at_app in Hk. destruct Hk as [Hk1 Hk2].
    apply nomark_app in Hm. destruct Hm as [Hm1 Hm2].
    assert (Hs : stack_ok (with_locals ce (Some (map fst L0))) L0 fp (rev (map snd L0) ++ below)).
    { split.
      - exists (rev (map snd L0) ++ upper). rewrite Hup. rewrite app_assoc. reflexivity.
      - simpl. split; [reflexivity|]. exists [], below. split; [reflexivity | exact Hlen]. }
    destruct (IH _ _ _ _ _ _ Hv (with_locals ce (Some (map fst L0))) fi fp frs
                 (cenv_rel_locals _ _ _ _ _ Hrel) nk na ip _ s Hs Hl Ha1 Hk1 Hm1) as [k1 S1].
    fold f1 in S1.
    destruct (IHwl (ip + csize (f_code f1)) s H Hl Ha2 Hk2 Hm2) as [E [k2 S2]].
    split; [exact E|].
    rewrite map_app, rev_app_distr in S2. simpl in S2.
    exists (k1 + k2). rewrite (steps_trans _ _ _ _ _ S1 S2). rewrite csize_app, Nat.add_assoc. reflexivity.
Qed.

Lemma map_fst_combine {A B} : forall (a : list A) (b : list B), length a = length b -> map fst (combine a b) = a.
Proof. induction a; destruct b; simpl; intros; try discriminate; [reflexivity | f_equal; auto]. Qed.
Lemma map_snd_combine {A B} : forall (a : list A) (b : list B), length a = length b -> map snd (combine a b) = b.
Proof. induction a; destruct b; simpl; intros; try discriminate; [reflexivity | f_equal; auto]. Qed.

Lemma call_ok : RelW -> forall n, expr_ok n -> forall i name fd vs v,
  nth_error (w_fns W) i = Some (name, fd) ->
  (if Nat.eqb (length (fd_params fd)) (length vs) then
     bind (bind_locals (fun L' e' => eval O lits n W (fd_nglob fd) (S i) (fd_nforeign fd) L' e')
                       (combine (fd_params fd) vs) (fd_locals fd))
          (fun L' => eval O lits n W (fd_nglob fd) (S i) (fd_nforeign fd) L' (fd_body fd))
   else Wrong) = Ok v ->
  forall fi ip fp frs stk0 s,
    (exists upper, stk0 = upper ++ rev (map snd (w_globals W))) -> m_last s = w_last W ->
    exists k, steps k (mk (F (S i) 0 (length stk0) :: F fi ip fp :: frs) (rev vs ++ stk0) s)
              = Some (St fi ip fp frs (v :: stk0) s).
Proof.
  intros [Hfuns _] n IH i name fd vs v Hi H fi ip fp frs stk0 s Hup Hl.
  destruct (Hfuns i name fd Hi) as (ce & nk & na & Hch & Hk & Hm & Hrel).
  destruct (Nat.eqb (length (fd_params fd)) (length vs)) eqn:El; [|discriminate].
  apply Nat.eqb_eq in El.
  apply bind_ok in H. destruct H as (L' & HL & Hb).
  unfold cfun in Hch, Hk, Hm.
  pose proof (clocals_ok n IH _ _ _ ce (S i) (length stk0) (F fi ip fp :: frs) stk0 Hrel eq_refl Hup
                (fd_locals fd) (combine (fd_params fd) vs) L' nk na 0 s HL Hl) as CL.
  rewrite (map_fst_combine _ _ El), (map_snd_combine _ _ El) in CL.
  destruct (clocals ce (fd_params fd) (fd_locals fd) nk na) as [fl ls] eqn:Ecl. simpl in *.
  assert (Ha : at_code (S i) 0 ((f_code fl ++ f_code (cexpr (with_locals ce (Some ls)) (fd_body fd)
                                   (nk + length (f_consts fl)) (f_na fl))) ++ [IReturn])).
  { exists name, [], []. split; [rewrite app_nil_r; exact Hch | reflexivity]. }
  apply at_code_app in Ha. destruct Ha as [Ha Har].
  apply at_code_app in Ha. destruct Ha as [Hal Hab].
  apply consts_at_app in Hk. destruct Hk as [Hkl Hkb].
  apply nomark_app in Hm. destruct Hm as [Hm _].
  apply nomark_app in Hm. destruct Hm as [Hml Hmb].
  destruct (CL Hal Hkl Hml) as [Els [k1 S1]]. subst ls.
  assert (Hs : stack_ok (with_locals ce (Some (map fst L'))) L' (length stk0) (rev (map snd L') ++ stk0)).
  { destruct Hup as [upper Hup]. split.
    - exists (rev (map snd L') ++ upper). rewrite Hup. rewrite app_assoc. reflexivity.
    - simpl. split; [reflexivity|]. exists [], stk0. split; reflexivity. }
  destruct (IH _ _ _ _ _ _ Hb (with_locals ce (Some (map fst L'))) (S i) (length stk0) (F fi ip fp :: frs)
               (cenv_rel_locals _ _ _ _ _ Hrel) _ _ _ _ s Hs Hl Hab Hkb Hmb) as [k2 S2].
  assert (S3 : steps 1 (St (S i) (0 + csize (f_code fl) + csize (f_code (cexpr (with_locals ce (Some (map fst L')))
                           (fd_body fd) (nk + length (f_consts fl)) (f_na fl)))) (length stk0) (F fi ip fp :: frs)
                           ([v] ++ rev (map snd L') ++ stk0) s)
               = Some (St fi ip fp frs (v :: stk0) s)).
  { eapply run_one.
    - rewrite csize_app in Har. rewrite Nat.add_assoc in Har. exact Har.
    - simpl. unfold St, mk. simpl. do 2 f_equal.
      rewrite app_length, rev_length.
      replace (length (map snd L') + length stk0 - length stk0) with (length (rev (map snd L'))) by (rewrite rev_length; lia).
      rewrite skipn_length_app. reflexivity. }
  exists (k1 + (k2 + 1)).
  unfold St in S1 at 1. simpl in S1.
  rewrite (steps_trans _ _ _ _ _ S1 (steps_trans _ _ _ _ _ S2 S3)). reflexivity.
Qed.


Lemma nth_error_map_snd {A B} : forall (l : list (A * B)) i b,
  nth_error (map snd l) i = Some b -> exists a, nth_error l i = Some (a, b).
Proof.
  induction l as [|[a b'] l IH]; intros i b; destruct i; simpl; try discriminate.
  - intro H. inversion H. eauto.
  - apply IH.
Qed.

Lemma find_last_nth : forall x vn i (fd : @fdef Q),
  find_last x (firstn vn (w_fns W)) = Some (i, fd) ->
  rposition x (map fst (firstn vn (w_fns W))) = Some i /\ exists name, nth_error (w_fns W) i = Some (name, fd).
Proof.
  intros x vn i fd H. pose proof (rposition_find_last x (firstn vn (w_fns W))) as R. rewrite H in R.
  destruct (rposition x (map fst (firstn vn (w_fns W)))) as [j|]; [|contradiction].
  destruct R as [E R]. subst j. split; [reflexivity|].
  apply nth_error_map_snd in R. destruct R as [a R]. exists a. eapply nth_error_firstn_some. exact R.
Qed.

Lemma leb_len_app : forall (vs stk : list (value Q)) n, n = length vs ->
  Nat.leb n (length (rev vs ++ stk)) = true /\ length (rev vs ++ stk) - n = length stk.
Proof.
  intros. subst. rewrite app_length, rev_length. split; [apply Nat.leb_le; lia | lia].
Qed.

Lemma ok_call : RelW -> forall n, expr_ok n -> forall vg vn vf L f args v ce fi fp frs,
  eval O lits (S n) W vg vn vf L (ECall f args) = Ok v ->
  cenv_rel ce vg vn vf ->
  comp_ok ce L fi fp frs (cexpr ce (ECall f args)) [v].
Proof.
  intros HW n IH vg vn vf L f args v ce fi fp frs H Hrel. simpl in H.
  apply bind_ok in H. destruct H as (vs & Hvs & H).
  pose proof (ok_args n IH _ _ _ _ _ _ ce fi fp frs Hvs Hrel) as Hargs.
  pose proof (evals_length _ _ _ Hvs) as Hlen.
  destruct Hrel as (Hg & Hch & Hfn & [rest Hffi] & Hmem & Hrest).
  specialize (Hmem f).
  destruct (index_of f (c_ffi ce)) as [idx|] eqn:Ei.
  - rewrite Hmem in H. destruct (find_last f (firstn vn (w_fns W))) as [[? ?]|]; [discriminate|].
    apply (ok_emit ce L fi fp frs (cseq (map (fun a => cexpr ce a) args)) _ (rev vs) [v]
             (fun nk na => chk16 (length args)
                (IFFICallFunction idx (length args) (f_na (cseq (map (fun a => cexpr ce a) args) nk na))))).
    + exact Hargs.
    + intros. simpl. rewrite Ei. simpl. split; reflexivity.
    + intros nk na ip stk s Hm Hs Hl. apply chk16_ok in Hm. destruct Hm as [Hm _]. rewrite Hm.
      simpl. rewrite Hffi. rewrite (nth_error_app_l _ _ _ _ (index_of_nth _ _ _ Ei)).
      rewrite <- Hlen. rewrite pop_n_rev. rewrite (lift_ok _ _ _ H). reflexivity.
  - rewrite Hmem in H. destruct (find_last f (firstn vn (w_fns W))) as [[i fd]|] eqn:Ef; [|discriminate].
    destruct (find_last_nth _ _ _ _ Ef) as [Hr [name Hi]].
    apply (ok_then ce L fi fp frs (cseq (map (fun a => cexpr ce a) args)) _ (rev vs) [v]
             (fun _ _ => [chk16 (length args) (ICall (S i) (length args))]) (fun _ _ => [])).
    + exact Hargs.
    + intros. simpl. rewrite Ei. rewrite Hch. rewrite rposition_cons. rewrite Hr. simpl.
      rewrite app_nil_r. split; reflexivity.
    + intros nk na ip stk s Hm Hs Hl Ha _.
      apply nomark_one in Hm. destruct Hm as [Hm _]. apply chk16_ok in Hm. destruct Hm as [Hm _].
      rewrite Hm in *. simpl csize.
      destruct (leb_len_app vs stk (length args) (eq_sym Hlen)) as [Hle Hsub].
      assert (S1 : steps 1 (St fi ip fp frs (rev vs ++ stk) s)
                   = Some (mk (F (S i) 0 (length stk) :: F fi (ip + 5) fp :: frs) (rev vs ++ stk) s)).
      { eapply run_one; [exact Ha|]. simpl. rewrite Hle, Hsub. reflexivity. }
      destruct Hs as [Hup _].
      destruct (call_ok HW n IH i name fd vs v Hi H fi (ip + 5) fp frs stk s Hup Hl) as [k2 S2].
      exists (1 + k2). rewrite (steps_trans _ _ _ _ _ S1 S2). try rewrite Nat.add_0_r. reflexivity.
Qed.

Lemma index_of_some_of_ne : forall x l, index_of x l <> None -> exists i, index_of x l = Some i.
Proof. intros. destruct (index_of x l); [eauto | contradiction]. Qed.

Lemma ok_callable : RelW -> forall n, expr_ok n -> forall vg vn vf L callee args v ce fi fp frs,
  eval O lits (S n) W vg vn vf L (ECallable callee args) = Ok v ->
  cenv_rel ce vg vn vf ->
  comp_ok ce L fi fp frs (cexpr ce (ECallable callee args)) [v].
Proof.
  intros HW n IH vg vn vf L callee args v ce fi fp frs H Hrel. simpl in H.
  apply bind_ok in H. destruct H as (vs & Hvs & H). apply bind_ok in H. destruct H as (c & Hc & H).
  pose proof (ok_args n IH _ _ _ _ _ _ ce fi fp frs Hvs Hrel) as Hargs.
  pose proof (IH _ _ _ _ _ _ Hc ce fi fp frs Hrel) as Hcallee.
  pose proof (evals_length _ _ _ Hvs) as Hlen.
  apply (ok_then ce L fi fp frs
           (fun nk na => fapp (cseq (map (fun a => cexpr ce a) args) nk na)
                              (cexpr ce callee (nk + length (f_consts (cseq (map (fun a => cexpr ce a) args) nk na)))
                                     (f_na (cseq (map (fun a => cexpr ce a) args) nk na))))
           _ ([c] ++ rev vs) [v]
           (fun nk na => [chk16 (length args) (ICallCallable (length args)
               (f_na (cexpr ce callee (nk + length (f_consts (cseq (map (fun a => cexpr ce a) args) nk na)))
                                     (f_na (cseq (map (fun a => cexpr ce a) args) nk na)))))])
           (fun _ _ => [])).
  - apply (ok_seq2 ce L fi fp frs (cseq (map (fun a => cexpr ce a) args)) (cexpr ce callee)); try assumption.
    intros. simpl. split; reflexivity.
  - intros. simpl. rewrite app_nil_r. rewrite <- app_assoc. split; reflexivity.
  - intros nk na ip stk s Hm Hs Hl Ha _.
    apply nomark_one in Hm. destruct Hm as [Hm _]. apply chk16_ok in Hm. destruct Hm as [Hm _].
    rewrite Hm in *. simpl csize.
    destruct (leb_len_app vs stk (length args) (eq_sym Hlen)) as [Hle Hsub].
    destruct HW as (Hfuns & Hforeign).
    destruct c; try discriminate. destruct f as [name [|i]|name]; try discriminate.
    + destruct (nth_error (w_fns W) i) as [[name' fd]|] eqn:Hi; [|discriminate].
      assert (S1 : steps 1 (St fi ip fp frs ([VFun (FNormal name (S i))] ++ rev vs ++ stk) s)
                   = Some (mk (F (S i) 0 (length stk) :: F fi (ip + 5) fp :: frs) (rev vs ++ stk) s)).
      { eapply run_one; [exact Ha|]. simpl. rewrite Hle, Hsub. reflexivity. }
      destruct Hs as [Hup _].
      destruct (call_ok (conj Hfuns Hforeign) n IH i name' fd vs v Hi H fi (ip + 5) fp frs stk s Hup Hl) as [k2 S2].
      exists (1 + k2). rewrite <- app_assoc. rewrite (steps_trans _ _ _ _ _ S1 S2). try rewrite Nat.add_0_r. reflexivity.
    + destruct (mem name (procs O ++ w_foreign W)) eqn:Em; [|discriminate].
      destruct (index_of_some_of_ne _ _ (Hforeign _ Em)) as [j Hj].
      exists 1. rewrite <- app_assoc. eapply run_one; [exact Ha|]. simpl. rewrite Hj.
      rewrite <- Hlen. rewrite pop_n_rev. rewrite (lift_ok _ _ _ H). try rewrite Nat.add_0_r. reflexivity.
Qed.


(* ---- strings: parts are pushed left to right, JoinString pops them last to first *)
Lemma sapp_assoc : forall a b c : string, append (append a b) c = append a (append b c).
Proof. induction a; simpl; intros; [reflexivity | f_equal; apply IHa]. Qed.

Lemma sapp_nil_r : forall a : string, append a EmptyString = a.
Proof. induction a; simpl; [reflexivity | f_equal; assumption]. Qed.

Lemma sconcat_cons : forall x (xs : list string), xs <> [] ->
  String.concat EmptyString (x :: xs) = append x (String.concat EmptyString xs).
Proof. intros x xs H. destruct xs; [contradiction | reflexivity]. Qed.

Lemma sconcat_snoc : forall (l : list string) s,
  String.concat EmptyString (l ++ [s]) = append (String.concat EmptyString l) s.
Proof.
  induction l as [|x l IH]; intro s.
  - reflexivity.
  - change ((x :: l) ++ [s]) with (x :: (l ++ [s])).
    rewrite sconcat_cons by (destruct l; discriminate). rewrite IH.
    destruct l as [|y r].
    + reflexivity.
    + rewrite (sconcat_cons x (y :: r)) by discriminate. rewrite sapp_assoc. reflexivity.
Qed.

Inductive part_rel : list (value Q) -> string -> Prop :=
| PR_fixed : forall s, part_rel [VStr s] s
| PR_plain : forall v, part_rel [VFmt None; v] (to_str O v)
| PR_spec : forall spec v str, fmt_spec O spec v = Ok str -> part_rel [VFmt (Some spec); v] str.

Lemma join_pop_ok : forall rps rstrs, Forall2 part_rel rps rstrs ->
  forall stk acc,
    join_pop O (length rps) (concat rps ++ stk) acc
    = Ok (append (String.concat EmptyString (rev rstrs)) acc, stk).
Proof.
  induction 1 as [|p str rps rstrs Hp Hr IH]; intros stk acc.
  - reflexivity.
  - simpl length. simpl concat. rewrite <- app_assoc. simpl rev. rewrite sconcat_snoc, sapp_assoc.
    destruct Hp as [s | v | spec v str' Hf]; simpl.
    + apply IH.
    + apply IH.
    + rewrite Hf. simpl. apply IH.
Qed.

Lemma Forall2_len {A B} (R : A -> B -> Prop) : forall l l', Forall2 R l l' -> length l = length l'.
Proof. induction 1; simpl; congruence. Qed.

Lemma Forall2_rev {A B} (R : A -> B -> Prop) : forall l l', Forall2 R l l' -> Forall2 R (rev l) (rev l').
Proof.
  induction 1; simpl; [constructor|]. apply Forall2_app; [assumption | constructor; [assumption | constructor]].
Qed.

Definition part_sub (ce : cenv) (p : string + (expr Q * option string)) : nat -> nat -> @frag Q :=
  match p with
  | inl s => fun nk na => {| f_consts := [CString s]; f_code := [ILoadConstant nk]; f_na := na |}
  | inr (a, spec) => fun nk na =>
      let fa := cexpr ce a nk na in
      {| f_consts := f_consts fa ++ [CFmt spec];
         f_code := f_code fa ++ [ILoadConstant (nk + length (f_consts fa))];
         f_na := f_na fa |}
  end.

Lemma ok_parts : forall n, expr_ok n -> forall vg vn vf L ce fi fp frs parts strs,
  cenv_rel ce vg vn vf ->
  evals (fun p : string + (expr Q * option string) =>
           match p with
           | inl s => Ok s
           | inr (a, None) => bind (eval O lits n W vg vn vf L a) (fun v => Ok (to_str O v))
           | inr (a, Some spec) => bind (eval O lits n W vg vn vf L a) (fun v => fmt_spec O spec v)
           end) parts = Ok strs ->
  exists pushes, Forall2 (comp_ok ce L fi fp frs) (map (part_sub ce) parts) pushes /\
                 Forall2 part_rel pushes strs.
Proof.
  intros n IH vg vn vf L ce fi fp frs parts strs Hrel. revert strs.
  induction parts as [|p parts IHp]; simpl; intros strs H.
  - inversion H. exists []. split; constructor.
  - apply bind_ok in H. destruct H as (str & Hstr & H). apply bind_ok in H. destruct H as (strs' & Hs & E).
    inversion E; subst strs; clear E.
    destruct (IHp _ Hs) as (pushes & F1 & F2).
    assert (Interp : forall a spec v, eval O lits n W vg vn vf L a = Ok v ->
              comp_ok ce L fi fp frs (part_sub ce (inr (a, spec))) [VFmt spec; v]).
    { intros a spec v Hv.
      apply (ok_then ce L fi fp frs (cexpr ce a) _ [v] [VFmt spec; v]
               (fun nk na => [ILoadConstant (nk + length (f_consts (cexpr ce a nk na)))])
               (fun _ _ => [CFmt spec])).
      - eapply IH; eassumption.
      - intros. simpl. split; reflexivity.
      - intros nk na ip stk s Hm Hs' Hl Ha Hk. exists 1. simpl csize.
        eapply run_one; [exact Ha|]. simpl. rewrite (consts_at_nth _ _ _ Hk). reflexivity. }
    destruct p as [s | [a [spec|]]].
    + inversion Hstr; subst str.
      exists ([VStr s] :: pushes). split; constructor; try assumption.
      * apply (ok_const ce L fi fp frs (CString s)).
      * constructor.
    + apply bind_ok in Hstr. destruct Hstr as (v & Hv & Hf).
      exists ([VFmt (Some spec); v] :: pushes). split; constructor; try assumption.
      * apply Interp. exact Hv.
      * constructor. exact Hf.
    + apply bind_ok in Hstr. destruct Hstr as (v & Hv & Hf). inversion Hf; subst str.
      exists ([VFmt None; v] :: pushes). split; constructor; try assumption.
      * apply Interp. exact Hv.
      * constructor.
Qed.

Lemma ok_string : forall n, expr_ok n -> forall vg vn vf L parts v ce fi fp frs,
  fst lits = true ->
  eval O lits (S n) W vg vn vf L (EString parts) = Ok v ->
  cenv_rel ce vg vn vf ->
  comp_ok ce L fi fp frs (cexpr ce (EString parts)) [v].
Proof.
  intros n IH vg vn vf L parts v ce fi fp frs Hlit H Hrel. simpl in H. rewrite Hlit in H. simpl in H.
  apply bind_ok in H. destruct H as (strs & Hstrs & Hv). inversion Hv; subst v; clear Hv.
  destruct (ok_parts n IH vg vn vf L ce fi fp frs parts strs Hrel Hstrs) as (pushes & F1 & F2).
  apply (ok_emit ce L fi fp frs (cseq (map (part_sub ce) parts)) _ (concat (rev pushes))
           [VStr (String.concat EmptyString strs)]
           (fun _ _ => chk16 (length parts) (IJoinString (length parts)))).
  - apply cseq_ok. exact F1.
  - intros. simpl. split; reflexivity.
  - intros nk na ip stk s Hm Hs Hl. apply chk16_ok in Hm. destruct Hm as [Hm _]. rewrite Hm.
    simpl.
    assert (El : length parts = length (rev pushes)).
    { rewrite rev_length. rewrite <- (map_length (part_sub ce) parts). eapply Forall2_len. exact F1. }
    rewrite El. rewrite (join_pop_ok _ _ (Forall2_rev _ _ _ F2)).
    rewrite rev_involutive, sapp_nil_r. reflexivity.
Qed.

(* ---- struct literals: fields sorted by definition index, emitted in reverse *)
Lemma evals_fields_names : forall (ev : expr Q -> res (value Q)) fields fvs,
  evals (fun nf : string * expr Q => bind (ev (snd nf)) (fun v => Ok (fst nf, v))) fields = Ok fvs ->
  map fst fvs = map fst fields.
Proof.
  induction fields as [|[x e] fields IH]; simpl; intros fvs H.
  - inversion H. reflexivity.
  - apply bind_ok in H. destruct H as (p & Hp & H). apply bind_ok in H. destruct H as (r & Hr & E).
    apply bind_ok in Hp. destruct Hp as (v & _ & Hp). inversion Hp; subst p. inversion E; subst fvs.
    simpl. f_equal. apply IH. exact Hr.
Qed.

Lemma assoc_In_fst {A} : forall x (l : list (string * A)) a, assoc x l = Some a -> In x (map fst l).
Proof.
  induction l as [|[y b] l IH]; simpl; intros a H; [discriminate|].
  destruct (String.eqb y x) eqn:E; [left; apply String.eqb_eq; exact E | right; eapply IH; exact H].
Qed.

Lemma collect_incl {A} : forall names (env : list (string * A)) vals,
  collect names env = Some vals -> incl names (map fst env).
Proof.
  induction names as [|f names IH]; simpl; intros env vals H; [intros x []|].
  destruct (assoc f env) as [a|] eqn:Ea; [|discriminate].
  destruct (collect names env) as [vs|] eqn:Ec; [|discriminate].
  intros x [Hx|Hx]; [subst; eapply assoc_In_fst; exact Ea | eapply IH; eassumption].
Qed.

Lemma mem_In : forall x l, mem x l = true <-> In x l.
Proof.
  intros. unfold mem. rewrite existsb_exists. split.
  - intros (y & Hy & E). apply String.eqb_eq in E. subst. exact Hy.
  - intro H. exists x. split; [exact H | apply String.eqb_refl].
Qed.

Lemma nodupb_NoDup : forall l, nodupb l = true -> NoDup l.
Proof.
  induction l as [|x l IH]; simpl; intro H; [constructor|].
  apply andb_prop in H. destruct H as [H1 H2]. constructor; [|apply IH; exact H2].
  intro Hin. apply mem_In in Hin. rewrite Hin in H1. discriminate.
Qed.

Lemma In_index_of : forall x l, In x l -> exists i, index_of x l = Some i.
Proof.
  induction l as [|y l IH]; simpl; intros H; [contradiction|].
  destruct (String.eqb y x) eqn:E; [eauto|].
  destruct H as [H|H]; [subst; rewrite String.eqb_refl in E; discriminate|].
  destruct (IH H) as [i Hi]. rewrite Hi. eauto.
Qed.

Lemma assoc_NoDup_In {A} : forall (l : list (string * A)) x a,
  NoDup (map fst l) -> In (x, a) l -> assoc x l = Some a.
Proof.
  induction l as [|[y b] l IH]; simpl; intros x a Hnd Hin; [contradiction|].
  apply NoDup_cons_iff in Hnd. destruct Hnd as [Hni Hnd].
  destruct Hin as [Hin|Hin].
  - inversion Hin; subst. rewrite String.eqb_refl. reflexivity.
  - destruct (String.eqb y x) eqn:E.
    + apply String.eqb_eq in E. subst. exfalso. apply Hni. change x with (fst (x, a)). apply in_map. exact Hin.
    + apply IH; assumption.
Qed.

Lemma assoc_app_l {A} : forall x (l l' : list (string * A)) a, assoc x l = Some a -> assoc x (l ++ l') = Some a.
Proof.
  induction l as [|[y b] l IH]; simpl; intros l' a H; [discriminate|].
  destruct (String.eqb y x); [exact H | apply IH; exact H].
Qed.

(* one record per field: definition index, sub-compiler, (name, value) *)
Definition zrec : Type := (nat * ((nat -> nat -> @frag Q) * (string * value Q)))%type.
Definition zname (z : zrec) : string := fst (snd (snd z)).
Definition zval (z : zrec) : value Q := snd (snd (snd z)).

Lemma struct_zs : forall n, expr_ok n -> forall vg vn vf L ce fi fp frs sfields,
  cenv_rel ce vg vn vf ->
  forall fields fvs,
    evals (fun nf : string * expr Q =>
             bind (eval O lits n W vg vn vf L (snd nf)) (fun v => Ok (fst nf, v))) fields = Ok fvs ->
    (forall x, In x (map fst fields) -> In x sfields) ->
    exists zs : list zrec,
      keyed sfields (map (fun nf : string * expr Q => (fst nf, fun nk na => cexpr ce (snd nf) nk na)) fields)
      = Some (map (fun z : zrec => (fst z, fst (snd z))) zs) /\
      Forall (fun z : zrec => comp_ok ce L fi fp frs (fst (snd z)) [zval z] /\
                              index_of (zname z) sfields = Some (fst z)) zs /\
      map (fun z : zrec => snd (snd z)) zs = fvs.
Proof.
  intros n IH vg vn vf L ce fi fp frs sfields Hrel.
  induction fields as [|[x e] fields IHf]; simpl; intros fvs H Hin.
  - inversion H. exists []. repeat split. constructor.
  - apply bind_ok in H. destruct H as (p & Hp & H). apply bind_ok in H. destruct H as (r & Hr & E).
    apply bind_ok in Hp. destruct Hp as (v & Hv & Hp). inversion Hp; subst p. inversion E; subst fvs.
    destruct (In_index_of x sfields (Hin x (or_introl eq_refl))) as [k Hk].
    destruct (IHf r Hr (fun y Hy => Hin y (or_intror Hy))) as (zs & K & F & M).
    exists ((k, ((fun nk na => cexpr ce e nk na), (x, v))) :: zs). repeat split.
    + rewrite Hk, K. reflexivity.
    + constructor; [|exact F]. split; [|exact Hk].
      unfold zval. simpl. eapply IH; eassumption.
    + simpl. rewrite M. reflexivity.
Qed.

Lemma keys_NoDup : forall sfields (zs : list zrec),
  Forall (fun z => index_of (zname z) sfields = Some (fst z)) zs ->
  NoDup (map zname zs) -> NoDup (map fst zs).
Proof.
  induction zs as [|z zs IH]; simpl; intros HF Hnd; [constructor|].
  inversion HF as [|? ? Hz HF']; subst. apply NoDup_cons_iff in Hnd. destruct Hnd as [Hni Hnd].
  constructor; [|apply IH; assumption].
  intro Hin. apply in_map_iff in Hin. destruct Hin as (z' & Ez & Hz').
  apply Hni. rewrite Forall_forall in HF'. pose proof (HF' z' Hz') as H'. rewrite Ez in H'.
  rewrite (index_of_inj _ _ _ _ Hz H'). apply in_map. exact Hz'.
Qed.

Lemma names_by_keys : forall (l : list string) (sz : list zrec) pre,
  Forall (fun z => nth_error (pre ++ l) (fst z) = Some (zname z)) sz ->
  map fst sz = seq (length pre) (length l) ->
  map zname sz = l.
Proof.
  induction l as [|x l IH]; intros sz pre HF Hk.
  - simpl in Hk. destruct sz; [reflexivity | discriminate].
  - simpl in Hk. destruct sz as [|z sz]; [discriminate|]. simpl in Hk. inversion Hk as [[Ez Er]].
    inversion HF as [|? ? Hz HF']; subst. simpl. f_equal.
    + rewrite Ez in Hz. rewrite nth_error_app2 in Hz by lia. rewrite Nat.sub_diag in Hz. simpl in Hz. congruence.
    + apply (IH sz (pre ++ [x])).
      * rewrite <- app_assoc. exact HF'.
      * rewrite app_length. simpl. rewrite Nat.add_1_r. rewrite Ez in Er. exact Er.
Qed.

Lemma collect_by_assoc : forall (fvs : list (string * value Q)) (sz : list zrec),
  Forall (fun z => assoc (zname z) fvs = Some (zval z)) sz ->
  collect (map zname sz) fvs = Some (map zval sz).
Proof.
  induction sz as [|z sz IH]; simpl; intro HF; [reflexivity|].
  inversion HF as [|? ? Hz HF']; subst. rewrite Hz, (IH HF'). reflexivity.
Qed.

Lemma Forall2_of_Forall : forall ce L fi fp frs (sz : list zrec),
  Forall (fun z : zrec => comp_ok ce L fi fp frs (fst (snd z)) [zval z]) sz ->
  Forall2 (comp_ok ce L fi fp frs) (map (fun z : zrec => fst (snd z)) sz) (map (fun z => [zval z]) sz).
Proof. induction 1; simpl; constructor; assumption. Qed.

Lemma concat_singletons {A B} (g : A -> B) : forall l, concat (map (fun z => [g z]) l) = map g l.
Proof. induction l; simpl; [reflexivity | f_equal; assumption]. Qed.

Lemma ok_struct : forall n, expr_ok n -> forall vg vn vf L sname sfields fields v ce fi fp frs,
  snd lits = true ->
  eval O lits (S n) W vg vn vf L (EStruct sname sfields fields) = Ok v ->
  cenv_rel ce vg vn vf ->
  comp_ok ce L fi fp frs (cexpr ce (EStruct sname sfields fields)) [v].
Proof.
  intros n IH vg vn vf L sname sfields fields v ce fi fp frs Hlit H Hrel. simpl in H.
  rewrite Hlit in H. simpl in H.
  destruct (assoc sname (w_structs W)) as [declared|] eqn:Ea; [|discriminate].
  destruct (list_eqb String.eqb declared sfields) eqn:Ed; [|discriminate].
  destruct (nodupb sfields) eqn:End; [|discriminate].
  destruct (Nat.eqb (length fields) (length sfields)) eqn:El; [|discriminate]. simpl in H.
  apply list_eqb_string_eq in Ed. subst declared. apply nodupb_NoDup in End. apply Nat.eqb_eq in El.
  apply bind_ok in H. destruct H as (fvs & Hfvs & H).
  destruct (collect sfields fvs) as [vals|] eqn:Ec; [|discriminate]. inversion H; subst v; clear H.
  pose proof (evals_fields_names _ _ _ Hfvs) as Hnames.
  pose proof (collect_incl _ _ _ Ec) as Hincl. rewrite Hnames in Hincl.
  assert (Hlen : length (map fst fields) <= length sfields) by (rewrite map_length; lia).
  pose proof (NoDup_incl_NoDup End Hlen Hincl) as Hnd.
  pose proof (NoDup_length_incl End Hlen Hincl) as Hincl'.
  destruct (struct_zs n IH vg vn vf L ce fi fp frs sfields Hrel fields fvs Hfvs Hincl') as (zs & K & F & M).
  (* facts about the sorted records *)
  set (sz := sort_by zs).
  assert (Fsz : Forall (fun z : zrec => comp_ok ce L fi fp frs (fst (snd z)) [zval z] /\
                                        index_of (zname z) sfields = Some (fst z)) sz).
  { apply Forall_forall. intros z Hz. rewrite Forall_forall in F. apply F. apply (proj1 (sort_by_In zs z)). exact Hz. }
  assert (Lzs : length zs = length sfields).
  { rewrite <- El. rewrite <- (map_length (fun z : zrec => snd (snd z)) zs), M.
    rewrite <- (map_length fst fvs), Hnames, map_length. reflexivity. }
  assert (Lsz : length sz = length sfields) by (unfold sz; rewrite sort_by_length; exact Lzs).
  assert (Nzs : NoDup (map zname zs)).
  { assert (E : map zname zs = map fst fvs) by (rewrite <- M, map_map; reflexivity).
    rewrite E, Hnames. exact Hnd. }
  assert (Kzs : NoDup (map fst zs)).
  { apply (keys_NoDup sfields); [|exact Nzs]. eapply Forall_impl; [|exact F]. intros z [_ Hz]. exact Hz. }
  assert (Ksz : map fst sz = seq 0 (length sfields)).
  { rewrite <- Lsz. apply ssorted_seq; [apply sort_ssorted; exact Kzs|].
    intros z Hz. rewrite Forall_forall in Fsz. destruct (Fsz z Hz) as [_ Hi].
    apply index_of_lt in Hi. rewrite Lsz. lia. }
  assert (Nsz : map zname sz = sfields).
  { apply (names_by_keys sfields sz []); [|exact Ksz].
    eapply Forall_impl; [|exact Fsz]. intros z [_ Hz]. simpl. apply index_of_nth. exact Hz. }
  assert (Vsz : map zval sz = vals).
  { assert (Hc : collect (map zname sz) fvs = Some (map zval sz)).
    { apply collect_by_assoc. apply Forall_forall. intros z Hz.
      apply assoc_NoDup_In; [rewrite Hnames; exact Hnd|].
      apply (proj1 (sort_by_In zs z)) in Hz. rewrite <- M.
      change (zname z, zval z) with (snd (snd z)) || idtac.
      replace (zname z, zval z) with (snd (snd z)) by (unfold zname, zval; destruct z as [? [? [? ?]]]; reflexivity).
      apply (in_map (fun z : zrec => snd (snd z))). exact Hz. }
    rewrite Nsz, Ec in Hc. inversion Hc. reflexivity. }
  (* the compiled code *)
  assert (Ks : sort_by (map (fun z : zrec => (fst z, fst (snd z))) zs)
               = map (fun z : zrec => (fst z, fst (snd z))) sz).
  { unfold sz. symmetry. apply (sort_by_map (fun y : (nat -> nat -> @frag Q) * (string * value Q) => fst y)). }
  assert (Hcs : comp_ok ce L fi fp frs
                  (cseq (rev (map snd (sort_by (map (fun z : zrec => (fst z, fst (snd z))) zs))))) (map zval sz)).
  { rewrite Ks, map_map. simpl.
    rewrite <- (concat_singletons zval sz). rewrite <- (rev_involutive (map (fun z => [zval z]) sz)).
    apply cseq_ok. apply Forall2_rev.
    apply Forall2_of_Forall. eapply Forall_impl; [|exact Fsz]. intros z [Hz _]. exact Hz. }
  rewrite Vsz in Hcs.
  destruct Hrel as (_ & _ & _ & _ & _ & [rest6 H6] & [[rest7 H7] _]).
  pose proof (index_of_assoc_fst sname (c_structs ce)) as Hix.
  destruct (index_of sname (map fst (c_structs ce))) as [sidx|] eqn:Ei.
  - destruct (assoc sname (c_structs ce)) as [fs'|] eqn:Ea'; [|contradiction].
    assert (fs' = sfields).
    { pose proof (assoc_app_l _ _ rest7 _ Ea') as E. rewrite <- H7, Ea in E. congruence. }
    subst fs'.
    apply (ok_emit ce L fi fp frs _ _ vals [VStruct sname sfields vals]
             (fun _ _ => chk16 (length fields) (IBuildStruct sidx (length fields))) Hcs).
    + intros. simpl. rewrite K. rewrite Ei. simpl. split; reflexivity.
    + intros nk na ip stk s Hm Hs Hl. apply chk16_ok in Hm. destruct Hm as [Hm _]. rewrite Hm.
      simpl. rewrite H6. rewrite (nth_error_app_l _ _ _ _ Hix).
      assert (Lv : length vals = length sfields).
      { rewrite <- Lsz. rewrite <- Vsz. apply map_length. }
      rewrite El, <- Lv. rewrite app_length.
      destruct (Nat.leb (length vals) (length vals + length stk)) eqn:E; [|apply Nat.leb_gt in E; lia].
      rewrite firstn_length_app, skipn_length_app. reflexivity.
  - apply (ok_emit ce L fi fp frs _ _ vals [VStruct sname sfields vals] (fun _ _ => ICompilePanic) Hcs).
    + intros. simpl. rewrite K. rewrite Ei. simpl. split; reflexivity.
    + intros nk na ip stk s Hm. discriminate.
Qed.

Lemma ok_unit : forall n vg vn vf L x v ce fi fp frs,
  eval O lits (S n) W vg vn vf L (EUnit x) = Ok v -> cenv_rel ce vg vn vf ->
  comp_ok ce L fi fp frs (cexpr ce (EUnit x)) [v].
Proof.
  intros n vg vn vf L x v ce fi fp frs H Hrel. simpl in H.
  destruct (mem x (w_units W)); [|discriminate]. inversion H; subst v.
  destruct Hrel as (_ & _ & _ & _ & _ & _ & _ & Hu).
  unfold comp_ok; intros nk na ip stk s Hs Hl Ha Hk Hm. simpl in *.
  destruct (unit_lookup x (c_units ce)) as [idx|] eqn:E.
  - destruct (Hu x idx E) as [Hc _]. exists 1. eapply run_one; [exact Ha|]. simpl. rewrite Hc. reflexivity.
  - discriminate Hm.
Qed.

Theorem expr_correct : RelW -> forall n, expr_ok n.
Proof.
  intros HW. induction n as [|n IH]; unfold expr_ok; intros vg vn vf L e v H ce fi fp frs Hrel.
  - discriminate.
  - destruct e.
    + simpl in H. inversion H. apply (ok_const ce L fi fp frs (CScalar q)).
    + simpl in H. inversion H. apply (ok_const ce L fi fp frs (CBool b)).
    + destruct (fst lits) eqn:El; [eapply ok_string; eassumption | simpl in H; rewrite El in H; discriminate].
    + simpl in H. eapply ok_ident; eassumption.
    + eapply ok_unit; eassumption.
    + eapply ok_un; eassumption.
    + eapply ok_bin; eassumption.
    + eapply ok_call; eassumption.
    + eapply ok_callable; eassumption.
    + eapply ok_cond; eassumption.
    + destruct (snd lits) eqn:El; [eapply ok_struct; eassumption | simpl in H; rewrite El in H; simpl in H; discriminate].
    + eapply ok_field; eassumption.
    + eapply ok_list; eassumption.
Qed.

End Sim.

(* ------------------------------------------------------------------ *)
(* closed forms *)
Section Closed.
Context {Q : Type}.
Variable O : ops Q.
Variable C : @compiled Q.
Variable W : @world Q.

(* the machine is deterministic: more fuel never changes an Ok outcome, less fuel
   gives Fuel — in particular never a panic *)
Lemma run_from_more : forall m s r d, run_from O C m s = Ok r -> run_from O C (m + d) s = Ok r.
Proof.
  induction m; simpl; intros s r d H; [discriminate|].
  destruct (Machine.step O C s); try discriminate; auto.
Qed.

Lemma run_from_any : forall m s r, run_from O C m s = Ok r ->
  forall m', run_from O C m' s = Fuel \/ run_from O C m' s = Ok r.
Proof.
  induction m; simpl; intros s r H m'; [discriminate|].
  destruct m'; simpl; [left; reflexivity|].
  destruct (Machine.step O C s); try discriminate; auto.
Qed.

Lemma step_halt : forall fi ip fp frs stk last out res name code,
  nth_error (p_chunks C) fi = Some (name, code) -> csize code <= ip ->
  Machine.step O C {| m_frames := F fi ip fp :: frs; m_stack := stk; m_last := last; m_out := out; m_res := res |}
  = SHalt.
Proof.
  intros. unfold Machine.step. cbn [m_frames fr_fn fr_ip F]. rewrite H.
  apply Nat.leb_le in H0. rewrite H0. reflexivity.
Qed.

(* An expression statement at top level: the code of [e] followed by Return at the
   end of <main>.  If the reference evaluation of [e] in world [W] yields [v], the
   machine started at that code halts with value [v] (and the output so far). *)
Theorem expr_statement_correct :
  RelW O C W ->
  forall n e v ce nk na pre out res,
    eval O (false, false) n W (length (w_globals W)) (length (w_fns W)) (length (w_foreign W)) [] e = Ok v ->
    cenv_rel O C W ce (length (w_globals W)) (length (w_fns W)) (length (w_foreign W)) ->
    c_locals ce = None ->
    nth_error (p_chunks C) 0 = Some ("<main>"%string, pre ++ f_code (cexpr ce e nk na) ++ [IReturn]) ->
    consts_at C nk (f_consts (cexpr ce e nk na)) ->
    nomark (f_code (cexpr ce e nk na)) ->
    exists m,
      run_from O C m {| m_frames := [F 0 (csize pre) 0]; m_stack := rev (map snd (w_globals W));
                        m_last := w_last W; m_out := out; m_res := res |}
      = Ok (out, Some v).
Proof.
  intros HW n e v ce nk na pre out res H Hrel Hloc Hmain Hk Hm.
  set (s0 := {| m_frames := [F 0 (csize pre) 0]; m_stack := rev (map snd (w_globals W));
                m_last := w_last W; m_out := out; m_res := res |}).
  assert (Ha : at_code C 0 (csize pre) (f_code (cexpr ce e nk na) ++ [IReturn])).
  { exists "<main>"%string, pre, []. rewrite app_nil_r. split; [exact Hmain | reflexivity]. }
  apply at_code_app in Ha. destruct Ha as [Ha Har].
  assert (Hs : stack_ok W ce [] 0 (rev (map snd (w_globals W)))).
  { split; [exists []; reflexivity|]. rewrite Hloc. split; reflexivity. }
  destruct (expr_correct O (false, false) C W HW n _ _ _ _ _ _ H ce 0 0 [] Hrel
              nk na (csize pre) _ s0 Hs eq_refl Ha Hk Hm) as [k1 S1].
  assert (S2 : steps O C 1 (St 0 (csize pre + csize (f_code (cexpr ce e nk na))) 0 []
                               ([v] ++ rev (map snd (w_globals W))) s0)
               = Some {| m_frames := [F 0 (csize pre + csize (f_code (cexpr ce e nk na)) + 1) 0];
                         m_stack := rev (map snd (w_globals W));
                         m_last := Some v; m_out := out; m_res := Some v |}).
  { eapply run_one; [exact Har|]. reflexivity. }
  pose proof (steps_trans O C _ _ _ _ _ S1 S2) as S3.
  exists (k1 + 1 + 1).
  change (run_from O C (k1 + 1 + 1) (St 0 (csize pre) 0 [] (rev (map snd (w_globals W))) s0) = Ok (out, Some v)).
  rewrite (steps_run O C _ 1 _ _ S3).
  cbn [run_from]. rewrite (step_halt _ _ _ _ _ _ _ _ _ _ Hmain); [reflexivity|].
  rewrite !csize_app. simpl. lia.
Qed.

End Closed.

(* ------------------------------------------------------------------ *)
(* whole programs: the compiler state as a prefix of the final one *)
Section Prefix.
Context {Q : Type}.

Definition pre (a b : @cstate Q) : Prop :=
  (exists r, s_consts b = s_consts a ++ r) /\
  (exists r, s_main b = s_main a ++ r) /\
  (exists r, s_fns b = s_fns a ++ r) /\
  (exists r, c_ffi (s_env b) = c_ffi (s_env a) ++ r) /\
  ((exists r, c_structs (s_env b) = c_structs (s_env a) ++ r) /\
   (exists r, s_strings b = s_strings a ++ r)).

Lemma pre_refl : forall a, pre a a.
Proof. intro a. repeat split; exists []; rewrite app_nil_r; reflexivity. Qed.

Lemma pre_trans : forall a b c, pre a b -> pre b c -> pre a c.
Proof.
  intros a b c (A1 & A2 & A3 & A4 & A5 & A6) (B1 & B2 & B3 & B4 & B5 & B6).
  repeat split.
  - destruct A1 as [r1 E1], B1 as [r2 E2]. exists (r1 ++ r2). rewrite E2, E1, app_assoc. reflexivity.
  - destruct A2 as [r1 E1], B2 as [r2 E2]. exists (r1 ++ r2). rewrite E2, E1, app_assoc. reflexivity.
  - destruct A3 as [r1 E1], B3 as [r2 E2]. exists (r1 ++ r2). rewrite E2, E1, app_assoc. reflexivity.
  - destruct A4 as [r1 E1], B4 as [r2 E2]. exists (r1 ++ r2). rewrite E2, E1, app_assoc. reflexivity.
  - destruct A5 as [r1 E1], B5 as [r2 E2]. exists (r1 ++ r2). rewrite E2, E1, app_assoc. reflexivity.
  - destruct A6 as [r1 E1], B6 as [r2 E2]. exists (r1 ++ r2). rewrite E2, E1, app_assoc. reflexivity.
Qed.

Lemma add_key_pre : forall x l, exists r, add_key x l = l ++ r.
Proof.
  intros. unfold add_key. destruct (index_of x l); [exists []; rewrite app_nil_r | exists [x]]; reflexivity.
Qed.

Lemma add_struct_pre : forall n fs l, exists r, add_struct n fs l = l ++ r.
Proof.
  intros. unfold add_struct. destruct (index_of n (map fst l)); [exists []; rewrite app_nil_r | exists [(n, fs)]]; reflexivity.
Qed.

Lemma cstmt_pre : forall (s : stmt Q) st, pre st (cstmt s st).
Proof.
  intros s st. unfold pre. destruct s; simpl.
  - repeat split; try (exists []; rewrite app_nil_r; reflexivity); eexists; reflexivity.
  - repeat split; try (exists []; rewrite app_nil_r; reflexivity); eexists; reflexivity.
  - repeat split; try (exists []; rewrite app_nil_r; reflexivity); eexists; reflexivity.
  - repeat split; try (exists []; rewrite app_nil_r; reflexivity). apply add_key_pre.
  - repeat split; try (exists []; rewrite app_nil_r; reflexivity). apply add_struct_pre.
  - destruct (index_of name (c_ffi (s_env st))); simpl;
      repeat split; try (exists []; rewrite app_nil_r; reflexivity); eexists; reflexivity.
  - repeat split; exists []; rewrite app_nil_r; reflexivity.
  - repeat split; try (exists []; rewrite app_nil_r; reflexivity); eexists; reflexivity.
  - repeat split; try (exists []; rewrite app_nil_r; reflexivity); eexists; reflexivity.
Qed.

Lemma cstmts_pre : forall (p : program Q) st, pre st (cstmts p st).
Proof.
  induction p as [|s p IH]; intro st; simpl.
  - apply pre_refl.
  - eapply pre_trans; [apply cstmt_pre | apply IH].
Qed.

Lemma cstmts_cons : forall (s : stmt Q) p st, cstmts (s :: p) st = cstmts p (cstmt s st).
Proof. reflexivity. Qed.

End Prefix.

(* ------------------------------------------------------------------ *)
(* list facts for the statement level *)
Lemma firstn_app_le {A} : forall n (l l' : list A), n <= length l -> firstn n (l ++ l') = firstn n l.
Proof.
  intros. rewrite firstn_app. replace (n - length l) with 0 by lia. simpl. apply app_nil_r.
Qed.

Lemma fn_lookup_snoc : forall x l f b,
  fn_lookup x (l ++ [(f, b)]) = if String.eqb f x then Some b else fn_lookup x l.
Proof.
  induction l as [|[y c] l IH]; intros f b; simpl.
  - destruct (String.eqb f x); reflexivity.
  - rewrite IH. destruct (String.eqb f x); reflexivity.
Qed.

Lemma find_last_snoc {A} : forall x (l : list (string * A)) f a,
  find_last x (l ++ [(f, a)]) = if String.eqb f x then Some (length l, a) else find_last x l.
Proof.
  induction l as [|[y c] l IH]; intros f a; simpl.
  - destruct (String.eqb f x); reflexivity.
  - rewrite IH. destruct (String.eqb f x); reflexivity.
Qed.

Lemma mem_app : forall x a b, mem x (a ++ b) = (mem x a || mem x b)%bool.
Proof. intros. unfold mem. apply existsb_app. Qed.

Lemma index_of_mem : forall x l,
  match index_of x l with Some _ => mem x l = true | None => mem x l = false end.
Proof.
  induction l as [|y l IH]; simpl; [reflexivity|].
  rewrite (String.eqb_sym x y). destruct (String.eqb y x); simpl; [reflexivity|].
  destruct (index_of x l); exact IH.
Qed.


(* ------------------------------------------------------------------ *)
Section Top.
Context {Q : Type}.
Variable O : ops Q.
Variable lits : bool * bool.
Variable fin : @cstate Q.
Notation C := (finish fin).
Hypothesis Hok : compile_ok (finish fin) = true.

Definition wext (W W' : @world Q) : Prop :=
  (exists r, w_globals W' = w_globals W ++ r) /\
  (exists r, w_fns W' = w_fns W ++ r) /\
  (exists r, w_foreign W' = w_foreign W ++ r) /\
  ((exists r, w_structs W' = w_structs W ++ r) /\
   (exists r, w_units W' = w_units W ++ r)).

Lemma cenv_rel_grow : forall W W' ce vg vn vf,
  cenv_rel O C W ce vg vn vf ->
  vg <= length (w_globals W) -> vn <= length (w_fns W) -> vf <= length (w_foreign W) ->
  wext W W' -> cenv_rel O C W' ce vg vn vf.
Proof.
  intros W W' ce vg vn vf (H1 & H2 & H3 & H4 & H5 & H6 & H7 & H8) Lg Ln Lf ([g Eg] & [f Ef] & [o Eo] & [s Es] & [u Eu]).
  unfold cenv_rel. rewrite Eg, Ef, Eo, Es, Eu. rewrite !firstn_app_le by assumption.
  refine (conj H1 (conj H2 (conj H3 (conj H4 (conj H5 (conj H6 (conj _ _))))))).
  - destruct H7 as [r E]. exists (r ++ s). rewrite E, app_assoc. reflexivity.
  - intros x i Hx. destruct (H8 x i Hx) as [A B]. split; [exact A|]. rewrite mem_app, B. reflexivity.
Qed.

Definition fun_ok (W : @world Q) (i : nat) (name : string) (fd : @fdef Q) : Prop :=
  (exists ce nk na,
     nth_error (p_chunks C) (S i)
       = Some (name, f_code (cfun ce (fd_params fd) (fd_locals fd) (fd_body fd) nk na)) /\
     consts_at C nk (f_consts (cfun ce (fd_params fd) (fd_locals fd) (fd_body fd) nk na)) /\
     nomark (f_code (cfun ce (fd_params fd) (fd_locals fd) (fd_body fd) nk na)) /\
     cenv_rel O C W ce (fd_nglob fd) (S i) (fd_nforeign fd)) /\
  fd_nglob fd <= length (w_globals W) /\ fd_nforeign fd <= length (w_foreign W).

Definition funs_inv (W : @world Q) : Prop :=
  forall i name fd, nth_error (w_fns W) i = Some (name, fd) -> fun_ok W i name fd.

Lemma fun_ok_grow : forall W W' i name fd,
  fun_ok W i name fd -> nth_error (w_fns W) i = Some (name, fd) -> wext W W' -> fun_ok W' i name fd.
Proof.
  intros W W' i name fd [(ce & nk & na & A & B & D & E) [Lg Lf]] Hi Hext.
  assert (Li : S i <= length (w_fns W)) by (apply nth_error_Some; congruence).
  pose proof Hext as ([g Eg] & _ & [o Eo] & _).
  split; [|split].
  - exists ce, nk, na. refine (conj A (conj B (conj D _))).
    eapply cenv_rel_grow; eassumption.
  - rewrite Eg, app_length. lia.
  - rewrite Eo, app_length. lia.
Qed.

Definition Inv (st : @cstate Q) (rst : @rstate Q) (ms : @mstate Q) : Prop :=
  pre st fin /\
  cenv_rel O C (r_world rst) (s_env st) (length (w_globals (r_world rst)))
           (length (w_fns (r_world rst))) (length (w_foreign (r_world rst))) /\
  c_locals (s_env st) = None /\
  w_structs (r_world rst) = c_structs (s_env st) /\
  funs_inv (r_world rst) /\
  length (s_fns st) = length (w_fns (r_world rst)) /\
  ms = {| m_frames := [F 0 (csize (s_main st)) 0];
          m_stack := rev (map snd (w_globals (r_world rst)));
          m_last := w_last (r_world rst); m_out := r_out rst; m_res := r_res rst |}.

Lemma Inv_RelW : forall st rst ms, Inv st rst ms -> RelW O C (r_world rst).
Proof.
  intros st rst ms (Hpre & Hrel & _ & _ & Hf & _). split.
  - intros i name fd Hi. destruct (Hf i name fd Hi) as [H _]. exact H.
  - intros x Hx. destruct Hrel as (_ & _ & _ & [rest Effi] & Hmem & _).
    specialize (Hmem x). rewrite firstn_all in Hmem.
    destruct (index_of x (c_ffi (s_env st))) as [i|] eqn:E; [|congruence].
    simpl in Effi |- *. rewrite Effi. rewrite (index_of_app _ _ rest _ E). discriminate.
Qed.

(* facts about the final chunks *)
Lemma main_chunk : nth_error (p_chunks C) 0 = Some ("<main>"%string, s_main fin).
Proof. reflexivity. Qed.

Lemma main_at : forall m code tail r, s_main fin = (m ++ code ++ tail) ++ r -> at_code C 0 (csize m) code.
Proof.
  intros m code tail r E. exists "<main>"%string, m, (tail ++ r). split; [|reflexivity].
  rewrite main_chunk. rewrite E. rewrite <- !app_assoc. reflexivity.
Qed.

Lemma consts_pre_at : forall k ks r, s_consts fin = (k ++ ks) ++ r -> consts_at C (length k) ks.
Proof.
  intros k ks r E. exists k, r. split; [|reflexivity]. simpl. rewrite E, <- app_assoc. reflexivity.
Qed.

Lemma main_nomark : forall m code r, s_main fin = (m ++ code) ++ r -> nomark code.
Proof.
  intros m code r E. unfold compile_ok in Hok. simpl in Hok.
  apply andb_prop in Hok. destruct Hok as [H _]. apply andb_prop in H. destruct H as [H _].
  unfold chunk_ok in H. apply andb_prop in H. destruct H as [H _].
  rewrite E in H. apply forallb_app_inv in H. destruct H as [H _].
  apply forallb_app_inv in H. destruct H as [_ H]. exact H.
Qed.

Lemma fn_chunk_nomark : forall a name code r, s_fns fin = (a ++ [(name, code)]) ++ r -> nomark code.
Proof.
  intros a name code r E. unfold compile_ok in Hok. simpl in Hok.
  apply andb_prop in Hok. destruct Hok as [H _]. apply andb_prop in H. destruct H as [_ H].
  rewrite E in H. apply forallb_app_inv in H. destruct H as [H _].
  apply forallb_app_inv in H. destruct H as [_ H]. simpl in H.
  apply andb_prop in H. destruct H as [H _]. unfold chunk_ok in H.
  apply andb_prop in H. destruct H as [H _]. exact H.
Qed.

(* evaluating a top-level expression *)
Lemma top_expr : forall st rst ms n e v tail r1 r2,
  Inv st rst ms ->
  top_eval O lits n (r_world rst) e = Ok v ->
  s_main fin = (s_main st ++ f_code (cexpr (s_env st) e (length (s_consts st)) (s_na st)) ++ tail) ++ r1 ->
  s_consts fin = (s_consts st ++ f_consts (cexpr (s_env st) e (length (s_consts st)) (s_na st))) ++ r2 ->
  exists k, steps O C k ms
            = Some (St 0 (csize (s_main st) + csize (f_code (cexpr (s_env st) e (length (s_consts st)) (s_na st))))
                       0 [] ([v] ++ rev (map snd (w_globals (r_world rst)))) ms).
Proof.
  intros st rst ms n e v tail r1 r2 HI H Em Ek.
  pose proof (Inv_RelW _ _ _ HI) as HW.
  destruct HI as (Hpre & Hrel & Hloc & _ & _ & _ & Ems).
  assert (Hs : stack_ok (r_world rst) (s_env st) [] 0 (rev (map snd (w_globals (r_world rst))))).
  { split; [exists []; reflexivity|]. rewrite Hloc. split; reflexivity. }
  assert (Hm : nomark (f_code (cexpr (s_env st) e (length (s_consts st)) (s_na st)))).
  { rewrite app_assoc in Em. rewrite <- app_assoc in Em.
    eapply (main_nomark (s_main st) _ (tail ++ r1)).
    rewrite Em. rewrite <- !app_assoc. reflexivity. }
  unfold top_eval in H.
  destruct (expr_correct O lits C (r_world rst) HW n _ _ _ _ _ _ H (s_env st) 0 0 [] Hrel
              _ _ (csize (s_main st)) _ ms Hs (eq_trans (f_equal (@m_last Q) Ems) eq_refl)
              (main_at _ _ _ _ Em) (consts_pre_at _ _ _ Ek) Hm) as [k S1].
  exists k. rewrite <- S1. f_equal. rewrite Ems. reflexivity.
Qed.


Lemma wext_refl : forall W, wext W W.
Proof. intro W. repeat split; exists []; rewrite app_nil_r; reflexivity. Qed.

Lemma funs_inv_grow_same : forall W W',
  funs_inv W -> wext W W' -> w_fns W' = w_fns W -> funs_inv W'.
Proof.
  intros W W' Hf Hext E i name fd Hi. rewrite E in Hi.
  eapply fun_ok_grow; [apply Hf| |]; eassumption.
Qed.

Lemma step_expr : forall n e st rst rst' ms,
  Inv st rst ms -> pre (cstmt (SExpr e) st) fin ->
  exec_stmt O lits n (SExpr e) rst = Ok rst' ->
  exists k ms', steps O C k ms = Some ms' /\ Inv (cstmt (SExpr e) st) rst' ms'.
Proof.
  intros n e st rst rst' ms HI Hpre H. simpl in H.
  apply bind_ok in H. destruct H as (v & Hv & H). inversion H; subst rst'; clear H.
  pose proof Hpre as ([r2 Ek] & [r1 Em] & _). simpl in Ek, Em.
  destruct (top_expr st rst ms n e v [IReturn] r1 r2 HI Hv Em Ek) as [k1 S1].
  set (fr := cexpr (s_env st) e (length (s_consts st)) (s_na st)) in *.
  pose proof (main_at _ _ _ _ Em) as Ha.
  assert (Har : at_code C 0 (csize (s_main st) + csize (f_code fr)) [IReturn]).
  { exists "<main>"%string, (s_main st ++ f_code fr), r1. split.
    - rewrite main_chunk, Em. rewrite <- !app_assoc. reflexivity.
    - apply csize_app. }
  destruct HI as (Hp & Hrel & Hloc & Hst & Hf & Hlen & Ems).
  eexists (k1 + 1), _. split.
  - eapply steps_trans; [exact S1|]. eapply run_one; [exact Har|]. reflexivity.
  - refine (conj Hpre (conj Hrel (conj Hloc (conj Hst (conj Hf (conj Hlen _)))))).
    simpl. rewrite Ems. simpl. rewrite !csize_app. simpl. rewrite Nat.add_assoc. reflexivity.
Qed.

Lemma firstn_snoc_all {A} : forall (l : list A) a, firstn (length l + 1) (l ++ [a]) = l ++ [a].
Proof. intros. rewrite <- (firstn_all (l ++ [a])) at 2. rewrite app_length. reflexivity. Qed.

Lemma step_let : forall n x e st rst rst' ms,
  Inv st rst ms -> pre (cstmt (SLet x e) st) fin ->
  exec_stmt O lits n (SLet x e) rst = Ok rst' ->
  exists k ms', steps O C k ms = Some ms' /\ Inv (cstmt (SLet x e) st) rst' ms'.
Proof.
  intros n x e st rst rst' ms HI Hpre H. simpl in H.
  apply bind_ok in H. destruct H as (v & Hv & H). inversion H; subst rst'; clear H.
  pose proof Hpre as ([r2 Ek] & [r1 Em] & _). simpl in Ek, Em.
  destruct (top_expr st rst ms n e v [] r1 r2 HI Hv Em Ek) as [k1 S1].
  set (fr := cexpr (s_env st) e (length (s_consts st)) (s_na st)) in *.
  destruct HI as (Hp & Hrel & Hloc & Hst & Hf & Hlen & Ems).
  set (W := r_world rst) in *.
  assert (Hext : wext W {| w_globals := w_globals W ++ [(x, v)]; w_fns := w_fns W;
                           w_foreign := w_foreign W; w_structs := w_structs W; w_last := w_last W; w_units := w_units W |}).
  { repeat split; simpl; try (exists []; rewrite app_nil_r; reflexivity). exists [(x, v)]. reflexivity. }
  eexists k1, _. split; [exact S1|].
  refine (conj Hpre (conj _ (conj Hloc (conj Hst (conj _ (conj Hlen _)))))).
  - destruct Hrel as (H1 & H2 & H3 & H4 & H5 & H6 & H7).
    unfold cenv_rel. simpl. rewrite app_length. simpl.
    refine (conj _ (conj H2 (conj H3 (conj H4 (conj H5 (conj H6 H7)))))).
    rewrite firstn_snoc_all. rewrite map_app. simpl. rewrite H1. rewrite firstn_all. reflexivity.
  - simpl. eapply funs_inv_grow_same; [exact Hf | exact Hext | reflexivity].
  - simpl. rewrite Ems. unfold St, mk. simpl. rewrite map_app, rev_app_distr. simpl.
    rewrite app_nil_r, csize_app. reflexivity.
Qed.


Lemma step_fn : forall n f params wl body st rst rst' ms,
  Inv st rst ms -> pre (cstmt (SFn f params wl body) st) fin ->
  exec_stmt O lits n (SFn f params wl body) rst = Ok rst' ->
  exists k ms', steps O C k ms = Some ms' /\ Inv (cstmt (SFn f params wl body) st) rst' ms'.
Proof.
  intros n f params wl body st rst rst' ms HI Hpre H. simpl in H. inversion H; subst rst'; clear H.
  pose proof Hpre as ([r2 Ek] & _ & [r3 Ef] & _). simpl in Ek, Ef.
  destruct HI as (Hp & Hrel & Hloc & Hst & Hf & Hlen & Ems).
  set (W := r_world rst) in *.
  set (fd := {| fd_params := params; fd_locals := wl; fd_body := body;
                fd_nglob := length (w_globals W); fd_nforeign := length (w_foreign W) |}).
  set (W' := {| w_globals := w_globals W; w_fns := w_fns W ++ [(f, fd)]; w_foreign := w_foreign W;
                w_structs := w_structs W; w_last := w_last W; w_units := w_units W |}).
  set (ce' := {| c_globals := c_globals (s_env st); c_locals := None;
                 c_functions := c_functions (s_env st) ++ [(f, false)];
                 c_chunks := c_chunks (s_env st) ++ [f];
                 c_ffi := c_ffi (s_env st); c_structs := c_structs (s_env st);
                 c_units := c_units (s_env st) |}) in *.
  assert (Hext : wext W W').
  { repeat split; simpl; try (exists []; rewrite app_nil_r; reflexivity). exists [(f, fd)]. reflexivity. }
  assert (Hrel' : cenv_rel O C W' ce' (length (w_globals W)) (length (w_fns W) + 1) (length (w_foreign W))).
  { destruct Hrel as (H1 & H2 & H3 & H4 & H5 & H6 & H7).
    unfold cenv_rel. simpl.
    refine (conj H1 (conj _ (conj _ (conj H4 (conj H5 (conj H6 H7)))))).
    - rewrite firstn_snoc_all, map_app. rewrite H2, firstn_all. reflexivity.
    - intro x. rewrite fn_lookup_snoc, firstn_snoc_all, find_last_snoc.
      specialize (H3 x). rewrite !firstn_all in H3. rewrite ?firstn_all.
      destruct (String.eqb f x); [discriminate | exact H3]. }
  eexists 0, _. split; [reflexivity|].
  refine (conj Hpre (conj _ (conj eq_refl (conj Hst (conj _ (conj _ Ems)))))).
  - simpl. rewrite app_length. simpl. exact Hrel'.
  - intros i name fd0 Hi. simpl in Hi.
    destruct (Nat.lt_ge_cases i (length (w_fns W))) as [Lt|Ge].
    + rewrite nth_error_app1 in Hi by assumption.
      eapply fun_ok_grow; [apply Hf; exact Hi | exact Hi | exact Hext].
    + assert (Ei : i = length (w_fns W)).
      { assert (i < length (w_fns W ++ [(f, fd)])) by (apply nth_error_Some; congruence).
        rewrite app_length in H. simpl in H. lia. }
      subst i. rewrite nth_error_app2, Nat.sub_diag in Hi by lia. simpl in Hi.
      inversion Hi; subst name fd0.
      split; [|split; simpl; lia].
      exists ce', (length (s_consts st)), (s_na st). simpl fd_params. simpl fd_locals. simpl fd_body.
      refine (conj _ (conj _ (conj _ _))).
      * simpl. rewrite Ef. rewrite <- Hlen.
        rewrite <- app_assoc. rewrite nth_error_app2, Nat.sub_diag by lia. reflexivity.
      * eapply consts_pre_at. exact Ek.
      * eapply fn_chunk_nomark. exact Ef.
      * simpl. rewrite <- Nat.add_1_r. exact Hrel'.
  - simpl. rewrite !app_length. simpl. lia.
Qed.


Lemma match_index_mem : forall x l (b : bool), mem x l = b ->
  match index_of x l with Some _ => b = true | None => b = false end.
Proof.
  intros x l b E. pose proof (index_of_mem x l) as H. destruct (index_of x l); congruence.
Qed.

Lemma mem_add_key : forall x f l, mem x (add_key f l) = (mem x l || String.eqb x f)%bool.
Proof.
  intros. unfold add_key. pose proof (index_of_mem f l) as H.
  destruct (index_of f l).
  - destruct (String.eqb x f) eqn:E.
    + apply String.eqb_eq in E. subst. rewrite H. reflexivity.
    + rewrite orb_false_r. reflexivity.
  - rewrite mem_app. simpl. rewrite orb_false_r. reflexivity.
Qed.

Lemma step_foreign : forall n f st rst rst' ms,
  Inv st rst ms -> pre (cstmt (SForeign f) st) fin ->
  exec_stmt O lits n (SForeign f) rst = Ok rst' ->
  exists k ms', steps O C k ms = Some ms' /\ Inv (cstmt (SForeign f) st) rst' ms'.
Proof.
  intros n f st rst rst' ms HI Hpre H. simpl in H. inversion H; subst rst'; clear H.
  pose proof Hpre as (_ & _ & _ & [r4 Effi] & _). simpl in Effi.
  destruct HI as (Hp & Hrel & Hloc & Hst & Hf & Hlen & Ems).
  set (W := r_world rst) in *.
  set (W' := {| w_globals := w_globals W; w_fns := w_fns W; w_foreign := w_foreign W ++ [f];
                w_structs := w_structs W; w_last := w_last W; w_units := w_units W |}).
  assert (Hext : wext W W').
  { repeat split; simpl; try (exists []; rewrite app_nil_r; reflexivity). exists [f]. reflexivity. }
  eexists 0, _. split; [reflexivity|].
  refine (conj Hpre (conj _ (conj eq_refl (conj Hst (conj _ (conj Hlen Ems)))))).
  - destruct Hrel as (H1 & H2 & H3 & H4 & H5 & H6 & H7).
    unfold cenv_rel. simpl. rewrite app_length. simpl.
    refine (conj H1 (conj H2 (conj _ (conj _ (conj _ (conj H6 H7)))))).
    + intro x. rewrite fn_lookup_snoc, firstn_snoc_all, mem_app. simpl. rewrite orb_false_r.
      specialize (H3 x). rewrite (firstn_all (w_foreign W)) in H3.
      rewrite (String.eqb_sym x f).
      destruct (String.eqb f x).
      * apply orb_true_r.
      * rewrite orb_false_r. exact H3.
    + exists r4. exact Effi.
    + intro x. apply match_index_mem.
      rewrite mem_add_key, firstn_snoc_all, !mem_app. simpl. rewrite orb_false_r.
      specialize (H5 x). rewrite (firstn_all (w_foreign W)) in H5. rewrite mem_app in H5.
      pose proof (index_of_mem x (c_ffi (s_env st))) as M.
      destruct (index_of x (c_ffi (s_env st))); rewrite M, <- H5; rewrite orb_assoc; reflexivity.
  - simpl. eapply funs_inv_grow_same; [exact Hf | exact Hext | reflexivity].
Qed.

Lemma step_struct : forall n sn fs st rst rst' ms,
  Inv st rst ms -> pre (cstmt (SStruct sn fs) st) fin ->
  exec_stmt O lits n (SStruct sn fs) rst = Ok rst' ->
  exists k ms', steps O C k ms = Some ms' /\ Inv (cstmt (SStruct sn fs) st) rst' ms'.
Proof.
  intros n sn fs st rst rst' ms HI Hpre H. simpl in H. inversion H; subst rst'; clear H.
  pose proof Hpre as (_ & _ & _ & _ & [r5 Est] & _). simpl in Est.
  destruct HI as (Hp & Hrel & Hloc & Hst & Hf & Hlen & Ems).
  set (W := r_world rst) in *.
  assert (Hst' : match assoc sn (w_structs W) with
                 | Some _ => w_structs W
                 | None => w_structs W ++ [(sn, fs)]
                 end = add_struct sn fs (c_structs (s_env st))).
  { unfold add_struct. rewrite Hst.
    pose proof (index_of_assoc_fst sn (c_structs (s_env st))) as A.
    destruct (index_of sn (map fst (c_structs (s_env st)))); destruct (assoc sn (c_structs (s_env st)));
      try contradiction; reflexivity. }
  assert (Hext : wext W {| w_globals := w_globals W; w_fns := w_fns W; w_foreign := w_foreign W;
                           w_structs := match assoc sn (w_structs W) with
                                        | Some _ => w_structs W
                                        | None => w_structs W ++ [(sn, fs)]
                                        end; w_last := w_last W; w_units := w_units W |}).
  { repeat split; simpl; try (exists []; rewrite app_nil_r; reflexivity).
    destruct (assoc sn (w_structs W)); [exists []; rewrite app_nil_r | exists [(sn, fs)]]; reflexivity. }
  eexists 0, _. split; [reflexivity|].
  refine (conj Hpre (conj _ (conj eq_refl (conj Hst' (conj _ (conj Hlen Ems)))))).
  - destruct Hrel as (H1 & H2 & H3 & H4 & H5 & H6 & H7 & H8).
    unfold cenv_rel. simpl.
    refine (conj H1 (conj H2 (conj H3 (conj H4 (conj H5 (conj _ (conj _ H8))))))).
    + exists r5. exact Est.
    + exists []. rewrite app_nil_r. exact Hst'.
  - simpl. eapply funs_inv_grow_same; [exact Hf | exact Hext | reflexivity].
Qed.

Lemma step_proc : forall n name args st rst rst' ms,
  Inv st rst ms -> pre (cstmt (SProc name args) st) fin ->
  exec_stmt O lits n (SProc name args) rst = Ok rst' ->
  exists k ms', steps O C k ms = Some ms' /\ Inv (cstmt (SProc name args) st) rst' ms'.
Proof.
  intros n name args st rst rst' ms HI Hpre H. simpl in H.
  apply bind_ok in H. destruct H as (vs & Hvs & H). apply bind_ok in H. destruct H as (lines & Hp & H).
  inversion H; subst rst'; clear H.
  pose proof (Inv_RelW _ _ _ HI) as HW.
  destruct HI as (Hp0 & Hrel & Hloc & Hst & Hf & Hlen & Ems).
  set (W := r_world rst) in *.
  set (fargs := cseq (map (fun a => cexpr (s_env st) a) args) (length (s_consts st)) (s_na st)) in *.
  pose proof (evals_length _ _ _ Hvs) as Hl.
  pose proof (ok_args O lits C W n (expr_correct O lits C W HW n) _ _ _ [] args vs
                (s_env st) 0 0 [] Hvs Hrel) as Hargs.
  assert (Hs : stack_ok W (s_env st) [] 0 (rev (map snd (w_globals W)))).
  { split; [exists []; reflexivity|]. rewrite Hloc. split; reflexivity. }
  destruct Hrel as (H1 & H2 & H3 & [rest H4] & H5 & H6 & H7).
  unfold cstmt in Hpre |- *. fold fargs in Hpre |- *.
  destruct (index_of name (c_ffi (s_env st))) as [idx|] eqn:Ei.
  - pose proof Hpre as ([r2 Ek] & [r1 Em] & _). simpl in Ek, Em.
    assert (Hm : nomark (f_code fargs ++ [chk16 (length args) (IFFICallProcedure idx (length args) (f_na fargs))])).
    { eapply (main_nomark (s_main st) _ r1). rewrite Em. rewrite app_nil_r. reflexivity. }
    apply nomark_app in Hm. destruct Hm as [Hm1 Hm2]. apply nomark_one in Hm2. destruct Hm2 as [Hm2 _].
    apply chk16_ok in Hm2. destruct Hm2 as [Hm2 _]. rewrite Hm2 in Em.
    rewrite app_nil_r in Em.
    destruct (Hargs (length (s_consts st)) (s_na st) (csize (s_main st)) _ ms Hs
                (eq_trans (f_equal (@m_last Q) Ems) eq_refl)
                (main_at _ _ _ _ Em) (consts_pre_at _ _ _ Ek) Hm1) as [k1 S1].
    fold fargs in S1.
    assert (Har : at_code C 0 (csize (s_main st) + csize (f_code fargs))
                    [IFFICallProcedure idx (length args) (f_na fargs)]).
    { exists "<main>"%string, (s_main st ++ f_code fargs), r1. split.
      - rewrite main_chunk, Em. rewrite <- !app_assoc. reflexivity.
      - apply csize_app. }
    eexists (k1 + 1), _. split.
    + rewrite Ems in S1 |- *. eapply steps_trans; [exact S1|]. eapply run_one; [exact Har|].
      simpl. simpl in H4. rewrite H4. rewrite (nth_error_app_l _ _ _ _ (index_of_nth _ _ _ Ei)).
      rewrite <- Hl. rewrite pop_n_rev. rewrite Hp. reflexivity.
    + refine (conj Hpre (conj _ (conj Hloc (conj Hst (conj Hf (conj Hlen _)))))).
      * unfold cenv_rel. exact (conj H1 (conj H2 (conj H3 (conj (ex_intro _ rest H4) (conj H5 (conj H6 H7)))))).
      * simpl. rewrite Hm2. rewrite ?app_nil_r. rewrite !csize_app. simpl.
        rewrite ?Nat.add_assoc. reflexivity.
  - (* compile-time panic marker: excluded by compile_ok *)
    exfalso. pose proof Hpre as (_ & [r1 Em] & _). simpl in Em.
    assert (Hm : nomark ((f_code fargs ++ [ICompilePanic]) ++ [])).
    { eapply (main_nomark (s_main st) _ r1). exact Em. }
    rewrite app_nil_r in Hm. apply nomark_app in Hm. destruct Hm as [_ Hm]. discriminate.
Qed.


Lemma unit_lookup_snoc : forall x l n k,
  unit_lookup x (l ++ [(n, k)]) = if String.eqb n x then Some k else unit_lookup x l.
Proof.
  induction l as [|[y c] l IH]; intros n k; simpl.
  - destruct (String.eqb n x); reflexivity.
  - rewrite IH. destruct (String.eqb n x); reflexivity.
Qed.

Lemma step_dim : forall n st rst rst' ms,
  Inv st rst ms -> exec_stmt O lits n SDim rst = Ok rst' ->
  exists k ms', steps O C k ms = Some ms' /\ Inv (cstmt SDim st) rst' ms'.
Proof.
  intros n st rst rst' ms HI H. simpl in H. inversion H; subst rst'.
  exists 0, ms. split; [reflexivity | exact HI].
Qed.

Lemma step_unit : forall n u st rst rst' ms,
  Inv st rst ms -> pre (cstmt (SUnitBase u) st) fin ->
  exec_stmt O lits n (SUnitBase u) rst = Ok rst' ->
  exists k ms', steps O C k ms = Some ms' /\ Inv (cstmt (SUnitBase u) st) rst' ms'.
Proof.
  intros n u st rst rst' ms HI Hpre H. simpl in H. inversion H; subst rst'; clear H.
  pose proof Hpre as ([r1 Ek] & _). simpl in Ek.
  destruct HI as (Hp & Hrel & Hloc & Hst & Hf & Hlen & Ems).
  set (W := r_world rst) in *.
  set (W' := {| w_globals := w_globals W; w_fns := w_fns W; w_foreign := w_foreign W;
                w_structs := w_structs W; w_last := w_last W; w_units := w_units W ++ [u] |}).
  assert (Hext : wext W W').
  { repeat split; simpl; try (exists []; rewrite app_nil_r; reflexivity). exists [u]. reflexivity. }
  eexists 0, _. split; [reflexivity|].
  refine (conj Hpre (conj _ (conj eq_refl (conj Hst (conj _ (conj Hlen Ems)))))).
  - destruct Hrel as (H1 & H2 & H3 & H4 & H5 & H6 & H7 & H8).
    unfold cenv_rel. simpl.
    refine (conj H1 (conj H2 (conj H3 (conj H4 (conj H5 (conj H6 (conj H7 _))))))).
    intros x i Hx. rewrite unit_lookup_snoc in Hx. rewrite mem_app. simpl.
    destruct (String.eqb u x) eqn:E.
    + apply String.eqb_eq in E. subst x. inversion Hx; subst i. split.
      * rewrite Ek. rewrite <- app_assoc. rewrite nth_error_app2, Nat.sub_diag by lia. reflexivity.
      * rewrite String.eqb_refl. apply orb_true_r.
    + destruct (H8 x i Hx) as [A B]. split; [exact A | rewrite B; reflexivity].
  - simpl. eapply funs_inv_grow_same; [exact Hf | exact Hext | reflexivity].
Qed.

Lemma step_type : forall n text st rst rst' ms,
  Inv st rst ms -> pre (cstmt (SType text) st) fin ->
  exec_stmt O lits n (SType text) rst = Ok rst' ->
  exists k ms', steps O C k ms = Some ms' /\ Inv (cstmt (SType text) st) rst' ms'.
Proof.
  intros n text st rst rst' ms HI Hpre H. simpl in H. inversion H; subst rst'; clear H.
  pose proof Hpre as (_ & [r1 Em] & _ & _ & _ & [r6 Es]). simpl in Em, Es.
  destruct HI as (Hp & Hrel & Hloc & Hst & Hf & Hlen & Ems).
  assert (Hm : nomark [chk16 (length (s_strings st)) (IPrintString (length (s_strings st)))]).
  { eapply (main_nomark (s_main st) _ r1). exact Em. }
  apply nomark_one in Hm. destruct Hm as [Hm _]. apply chk16_ok in Hm. destruct Hm as [Hm _].
  rewrite Hm in Em.
  assert (Ha : at_code C 0 (csize (s_main st)) [IPrintString (length (s_strings st))]).
  { exists "<main>"%string, (s_main st), r1. split; [|reflexivity].
    rewrite main_chunk, Em. rewrite <- app_assoc. reflexivity. }
  set (stk := rev (map snd (w_globals (r_world rst)))).
  assert (S1 : steps O C 1 (St 0 (csize (s_main st)) 0 [] stk ms)
               = Some {| m_frames := [F 0 (csize (s_main st) + 3) 0]; m_stack := stk;
                         m_last := m_last ms; m_out := m_out ms ++ [text]; m_res := m_res ms |}).
  { eapply run_one; [exact Ha|]. simpl. rewrite Es.
    rewrite <- app_assoc. rewrite nth_error_app2, Nat.sub_diag by lia. reflexivity. }
  eexists 1, _. split.
  - rewrite <- S1. f_equal. rewrite Ems. reflexivity.
  - refine (conj Hpre (conj Hrel (conj Hloc (conj Hst (conj Hf (conj Hlen _)))))).
    simpl. rewrite Hm. rewrite csize_app. simpl. rewrite Ems. simpl. try rewrite Nat.add_0_r. reflexivity.
Qed.

Lemma stmt_step : forall n s st rst rst' ms,
  Inv st rst ms -> pre (cstmt s st) fin ->
  exec_stmt O lits n s rst = Ok rst' ->
  exists k ms', steps O C k ms = Some ms' /\ Inv (cstmt s st) rst' ms'.
Proof.
  intros n s. destruct s; intros.
  - eapply step_expr; eassumption.
  - eapply step_let; eassumption.
  - eapply step_fn; eassumption.
  - eapply step_foreign; eassumption.
  - eapply step_struct; eassumption.
  - eapply step_proc; eassumption.
  - eapply step_dim; eassumption.
  - eapply step_unit; eassumption.
  - eapply step_type; eassumption.
Qed.

Lemma stmts_run : forall n p st rst rst' ms,
  Inv st rst ms -> cstmts p st = fin ->
  exec_stmts O lits n p rst = Ok rst' ->
  exists k ms', steps O C k ms = Some ms' /\ Inv fin rst' ms'.
Proof.
  induction p as [|s p IH]; intros st rst rst' ms HI Efin H.
  - simpl in *. inversion H; subst. exists 0, ms. split; [reflexivity | exact HI].
  - simpl in H. apply bind_ok in H. destruct H as (rst1 & H1 & H2).
    rewrite cstmts_cons in Efin.
    assert (Hpre : pre (cstmt s st) fin) by (rewrite <- Efin; apply cstmts_pre).
    destruct (stmt_step n s st rst rst1 ms HI Hpre H1) as (k1 & ms1 & S1 & HI1).
    destruct (IH _ _ _ _ HI1 Efin H2) as (k2 & ms2 & S2 & HI2).
    exists (k1 + k2), ms2. split; [eapply steps_trans; eassumption | exact HI2].
Qed.

End Top.

(* ------------------------------------------------------------------ *)
(* the program-level theorem *)
Lemma fns_names_cstmts {Q} : forall (p : program Q) st,
  map fst (s_fns (cstmts p st))
  = map fst (s_fns st) ++ flat_map (fun s => match s with SFn f _ _ _ => [f] | _ => [] end) p.
Proof.
  induction p as [|s p IH]; intro st; simpl.
  - rewrite app_nil_r. reflexivity.
  - change (fold_left (fun st0 s0 => cstmt s0 st0) p (cstmt s st)) with (cstmts p (cstmt s st)).
    rewrite IH. destruct s; simpl; try reflexivity.
    + rewrite map_app. simpl. rewrite <- app_assoc. reflexivity.
    + destruct (index_of name (c_ffi (s_env st))); reflexivity.
Qed.

Theorem compile_correct_lits {Q} : forall (O : ops Q) lits (p : program Q) n out v,
  compile_ok (compile (procs O) p) = true ->
  RefSem.run O lits n p = Ok (out, v) ->
  exists m, Machine.run O (compile (procs O) p) m = Ok (out, v).
Proof.
  intros O lits p n out v Hok H. unfold RefSem.run in H.
  apply bind_ok in H. destruct H as (rst' & Hrun & E). inversion E; subst out v; clear E.
  set (fin := cstmts p (cinit (procs O))).
  assert (HI : Inv O fin (cinit (procs O)) rinit (minit (Q := Q))).
  { refine (conj (cstmts_pre _ _) (conj _ (conj eq_refl (conj eq_refl (conj _ (conj eq_refl eq_refl)))))).
    - unfold cenv_rel. simpl.
      refine (conj eq_refl (conj eq_refl (conj _ (conj _ (conj _ (conj _ _)))))).
      + intro x. split; reflexivity.
      + destruct (cstmts_pre p (cinit (procs O))) as (_ & _ & _ & [r E] & _). exists r. exact E.
      + intro x. rewrite app_nil_r. apply index_of_mem.
      + destruct (cstmts_pre p (cinit (procs O))) as (_ & _ & _ & _ & [r E] & _). exists r. exact E.
      + split; [exists []; reflexivity | intros x i Hx; discriminate].
    - intros i name fd Hi. destruct i; discriminate. }
  destruct (stmts_run O lits fin Hok n p _ _ _ _ HI eq_refl Hrun)
    as (k & ms' & S & HI').
  destruct HI' as (_ & _ & _ & _ & _ & _ & Ems).
  exists (k + 1). unfold Machine.run. change (compile (procs O) p) with (finish fin).
  rewrite (steps_run O (finish fin) k 1 _ _ S). subst ms'.
  cbn [run_from]. rewrite (step_halt O (finish fin) _ _ _ _ _ _ _ _ _ _ (main_chunk fin)); [reflexivity | lia].
Qed.

(* the program-level theorem: the reference semantics of the language (all constructs) *)
Theorem compile_correct {Q} : forall (O : ops Q) (p : program Q) n out v,
  compile_ok (compile (procs O) p) = true ->
  run_ref O n p = Ok (out, v) ->
  exists m, Machine.run O (compile (procs O) p) m = Ok (out, v).
Proof. intros O p n out v. apply compile_correct_lits. Qed.

Theorem no_panic_after_ok {Q} : forall (O : ops Q) (p : program Q) n out v,
  compile_ok (compile (procs O) p) = true ->
  run_ref O n p = Ok (out, v) ->
  forall m, Machine.run O (compile (procs O) p) m = Fuel
            \/ Machine.run O (compile (procs O) p) m = Ok (out, v).
Proof.
  intros O p n out v Hok H m. destruct (compile_correct O p n out v Hok H) as [m0 Hm0].
  unfold Machine.run in *. eapply run_from_any. exact Hm0.
Qed.

(* ------------------------------------------------------------------ *)
(* the clauses of the property, as instances of the simulation *)
Section Clauses.
Context {Q : Type}.
Variable O : ops Q.
Variable C : @compiled Q.
Variable W : @world Q.
Hypothesis HW : RelW O C W.

(* list elements keep their source order *)
Lemma list_order : forall n vg vn vf L es vs ce fi fp frs,
  evals (eval O (true, true) n W vg vn vf L) es = Ok vs ->
  cenv_rel O C W ce vg vn vf ->
  comp_ok O C W ce L fi fp frs (cexpr ce (EList es)) [VList vs].
Proof.
  intros. eapply (expr_correct O (true, true) C W HW (S n)); [|eassumption].
  simpl. rewrite H. reflexivity.
Qed.

(* call arguments are evaluated left to right and arrive in the callee's frame in
   source order (first argument deepest) *)
Lemma arg_order : forall n vg vn vf L args vs ce fi fp frs,
  evals (eval O (true, true) n W vg vn vf L) args = Ok vs ->
  cenv_rel O C W ce vg vn vf ->
  comp_ok O C W ce L fi fp frs (cseq (map (fun a => cexpr ce a) args)) (rev vs).
Proof.
  intros. eapply ok_args; try eassumption. apply expr_correct. exact HW.
Qed.

(* string parts are joined in source order *)
Lemma string_order : forall n vg vn vf L parts strs ce fi fp frs,
  evals (fun p : string + (expr Q * option string) =>
           match p with
           | inl s => Ok s
           | inr (a, None) => bind (eval O (true, true) n W vg vn vf L a) (fun v => Ok (to_str O v))
           | inr (a, Some spec) => bind (eval O (true, true) n W vg vn vf L a) (fun v => fmt_spec O spec v)
           end) parts = Ok strs ->
  cenv_rel O C W ce vg vn vf ->
  comp_ok O C W ce L fi fp frs (cexpr ce (EString parts)) [VStr (String.concat EmptyString strs)].
Proof.
  intros. eapply (expr_correct O (true, true) C W HW (S n)); [|eassumption].
  simpl. rewrite H. reflexivity.
Qed.

(* every declared field of a struct literal receives the value of the source field of
   that NAME, whatever the order in which the source lists the fields *)
Lemma field_order : forall n vg vn vf L sname sfields fields fvs vals ce fi fp frs,
  assoc sname (w_structs W) = Some sfields ->
  nodupb sfields = true -> length fields = length sfields ->
  evals (fun nf : string * expr Q =>
           bind (eval O (true, true) n W vg vn vf L (snd nf)) (fun v => Ok (fst nf, v))) fields = Ok fvs ->
  collect sfields fvs = Some vals ->
  cenv_rel O C W ce vg vn vf ->
  comp_ok O C W ce L fi fp frs (cexpr ce (EStruct sname sfields fields)) [VStruct sname sfields vals].
Proof.
  intros n vg vn vf L sname sfields fields fvs vals ce fi fp frs Ha Hn Hl Hf Hc Hrel.
  eapply (expr_correct O (true, true) C W HW (S n)); [|eassumption].
  simpl. rewrite Ha.
  assert (E : list_eqb String.eqb sfields sfields = true).
  { clear. induction sfields; simpl; [reflexivity | rewrite String.eqb_refl; assumption]. }
  rewrite E, Hn, Hl, Nat.eqb_refl. simpl. rewrite Hf. simpl. rewrite Hc. reflexivity.
Qed.

(* every name refers to its innermost binding: the latest local (parameter or
   where-local) of that name, else the latest global visible at the definition point *)
Lemma innermost_local : forall vg vn vf L x i v ce fi fp frs,
  find_last x L = Some (i, v) ->
  cenv_rel O C W ce vg vn vf ->
  comp_ok O C W ce L fi fp frs (cexpr ce (EIdent x)) [v].
Proof.
  intros. eapply (expr_correct O (true, true) C W HW 1); [|eassumption].
  simpl. rewrite H. reflexivity.
Qed.

Lemma innermost_global : forall vg vn vf L x i v ce fi fp frs,
  find_last x L = None ->
  find_last x (firstn vg (w_globals W)) = Some (i, v) ->
  cenv_rel O C W ce vg vn vf ->
  comp_ok O C W ce L fi fp frs (cexpr ce (EIdent x)) [v].
Proof.
  intros. eapply (expr_correct O (true, true) C W HW 1); [|eassumption].
  simpl. rewrite H, H0. reflexivity.
Qed.

End Clauses.
