(* C09 — compiler correctness: the machine running the model-compiled code
   simulates the reference evaluator (forward simulation, Ok outcomes). *)
From Coq Require Import String List Bool Arith Lia.
From NV Require Import VM.Value VM.Ast VM.Bytecode VM.Compile VM.Machine VM.RefSem.
Import ListNotations.
Open Scope list_scope.

(* ------------------------------------------------------------------ *)
(* generic list facts *)

Lemma isize_pos : forall i, 1 <= isize i.
Proof. destruct i; simpl; try lia. destruct op; simpl; lia. Qed.

Lemma csize_app : forall a b, csize (a ++ b) = csize a + csize b.
Proof. induction a; simpl; intros; [reflexivity | rewrite IHa; lia]. Qed.

Lemma fetch_at : forall pre i post, fetch (pre ++ i :: post) (csize pre) = Some i.
Proof.
  induction pre as [|a pre IH]; intros; simpl.
  - reflexivity.
  - pose proof (isize_pos a).
    destruct (Nat.eqb (isize a + csize pre) 0) eqn:E; [apply Nat.eqb_eq in E; lia|].
    destruct (Nat.ltb (isize a + csize pre) (isize a)) eqn:E2; [apply Nat.ltb_lt in E2; lia|].
    replace (isize a + csize pre - isize a) with (csize pre) by lia. apply IH.
Qed.

Lemma forallb_app_inv {A} (f : A -> bool) a b :
  forallb f (a ++ b) = true -> forallb f a = true /\ forallb f b = true.
Proof. rewrite forallb_app. intro H. apply andb_prop in H. exact H. Qed.

Lemma chk16_ok : forall x i, is_marker (chk16 x i) = false -> chk16 x i = i /\ x < U16.
Proof.
  intros x i. unfold chk16. destruct (Nat.ltb x U16) eqn:E; simpl; intro H.
  - split; [reflexivity | apply Nat.ltb_lt; exact E].
  - discriminate.
Qed.

(* rposition (compiler) against find_last (reference) *)
Lemma rposition_from_spec : forall x l i acc,
  rposition_from x l i acc =
  match rposition_from x l 0 None with
  | Some j => Some (i + j)
  | None => acc
  end.
Proof.
  induction l as [|y l IH]; intros; simpl.
  - reflexivity.
  - rewrite (IH (S i)). rewrite (IH 1).
    destruct (rposition_from x l 0 None) as [j|].
    + f_equal. lia.
    + destruct (String.eqb y x); [f_equal; lia | reflexivity].
Qed.

Lemma rposition_cons : forall x y l,
  rposition x (y :: l) =
  match rposition x l with
  | Some j => Some (S j)
  | None => if String.eqb y x then Some 0 else None
  end.
Proof.
  intros. unfold rposition. simpl. rewrite rposition_from_spec.
  destruct (rposition_from x l 0 None); reflexivity.
Qed.

Lemma rposition_find_last {A} : forall x (l : list (string * A)),
  match rposition x (map fst l), find_last x l with
  | Some i, Some (j, a) => i = j /\ nth_error (map snd l) i = Some a
  | None, None => True
  | _, _ => False
  end.
Proof.
  induction l as [|[y a] l IH]; simpl.
  - exact I.
  - rewrite rposition_cons.
    destruct (rposition x (map fst l)) as [i|]; destruct (find_last x l) as [[j b]|]; try contradiction.
    + destruct IH as [E H]. subst. split; [reflexivity | exact H].
    + simpl. destruct (String.eqb y x); [split; reflexivity | exact I].
Qed.

Lemma rposition_lt : forall x l i, rposition x l = Some i -> i < length l.
Proof.
  induction l as [|y l IH]; intros i; [discriminate|].
  rewrite rposition_cons. destruct (rposition x l) as [j|].
  - intro H. inversion H. simpl. specialize (IH j eq_refl). lia.
  - destruct (String.eqb y x); intro H; inversion H. simpl. lia.
Qed.

Lemma rposition_name : forall x l i, rposition x l = Some i -> nth_error l i = Some x.
Proof.
  induction l as [|y l IH]; intros i; [discriminate|].
  rewrite rposition_cons. destruct (rposition x l) as [j|].
  - intro H. inversion H. simpl. apply IH. reflexivity.
  - destruct (String.eqb y x) eqn:E; intro H; inversion H. simpl. apply String.eqb_eq in E. subst. reflexivity.
Qed.

Lemma index_of_nth : forall x l i, index_of x l = Some i -> nth_error l i = Some x.
Proof.
  induction l as [|y l IH]; intros i; simpl; [discriminate|].
  destruct (String.eqb y x) eqn:E.
  - intro H. inversion H. apply String.eqb_eq in E. subst. reflexivity.
  - destruct (index_of x l) as [j|]; intro H; inversion H. simpl. apply IH. reflexivity.
Qed.

Lemma index_of_app : forall x l l' i, index_of x l = Some i -> index_of x (l ++ l') = Some i.
Proof.
  induction l as [|y l IH]; intros l' i; simpl; [discriminate|].
  destruct (String.eqb y x); [auto|].
  destruct (index_of x l) as [j|] eqn:E; intro H; inversion H.
  rewrite (IH l' j eq_refl). reflexivity.
Qed.

Lemma nth_error_app_l {A} : forall (l l' : list A) i a, nth_error l i = Some a -> nth_error (l ++ l') i = Some a.
Proof.
  intros. rewrite nth_error_app1; [assumption|]. apply nth_error_Some. congruence.
Qed.

(* ------------------------------------------------------------------ *)
Section Sim.
Context {Q : Type}.
Variable O : ops Q.
Variable stale : string -> nat -> bool.
Variable C : @compiled Q.

Notation step := (Machine.step O C).
Notation mstate := (@Machine.mstate Q).

Fixpoint steps (k : nat) (s : mstate) : option mstate :=
  match k with
  | 0 => Some s
  | S k' => match step s with SNext s' => steps k' s' | _ => None end
  end.

Lemma steps_trans : forall k1 k2 s s1 s2,
  steps k1 s = Some s1 -> steps k2 s1 = Some s2 -> steps (k1 + k2) s = Some s2.
Proof.
  induction k1; simpl; intros.
  - inversion H. subst. assumption.
  - destruct (step s); try discriminate. eapply IHk1; eassumption.
Qed.

Lemma steps_one : forall s s', step s = SNext s' -> steps 1 s = Some s'.
Proof. intros. simpl. rewrite H. reflexivity. Qed.

Lemma steps_run : forall k n s s', steps k s = Some s' -> run_from O C (k + n) s = run_from O C n s'.
Proof.
  induction k; simpl; intros.
  - inversion H. reflexivity.
  - destruct (step s); try discriminate. apply IHk. assumption.
Qed.

Definition F (fi ip fp : nat) : frame := {| fr_fn := fi; fr_ip := ip; fr_fp := fp |}.
Definition St (fi ip fp : nat) (frs : list frame) (stk : list (value Q)) (s : mstate) : mstate :=
  mk (F fi ip fp :: frs) stk s.

Definition at_code (fi ip : nat) (code : list instr) : Prop :=
  exists name pre post, nth_error (p_chunks C) fi = Some (name, pre ++ code ++ post) /\ csize pre = ip.

Lemma at_code_app : forall fi ip a b,
  at_code fi ip (a ++ b) -> at_code fi ip a /\ at_code fi (ip + csize a) b.
Proof.
  intros fi ip a b (name & pre & post & H & E). split.
  - exists name, pre, (b ++ post). rewrite <- app_assoc in H. split; assumption.
  - exists name, (pre ++ a), post. split.
    + rewrite <- app_assoc in H. rewrite <- app_assoc. assumption.
    + rewrite csize_app. lia.
Qed.

Lemma step_at : forall fi ip fp frs stk s i rest,
  at_code fi ip (i :: rest) ->
  step (St fi ip fp frs stk s) = exec O C i (F fi (ip + isize i) fp) frs (St fi ip fp frs stk s).
Proof.
  intros fi ip fp frs stk s i rest (name & pre & post & H & E).
  unfold Machine.step, St, mk. simpl. rewrite H.
  assert (L : Nat.leb (csize (pre ++ i :: rest ++ post)) ip = false).
  { apply Nat.leb_gt. rewrite csize_app. simpl. pose proof (isize_pos i). lia. }
  simpl in L. simpl. rewrite L. subst ip. rewrite fetch_at. reflexivity.
Qed.

Definition consts_at (nk : nat) (ks : list (const Q)) : Prop :=
  exists pre post, p_consts C = pre ++ ks ++ post /\ length pre = nk.

Lemma consts_at_app : forall nk a b,
  consts_at nk (a ++ b) -> consts_at nk a /\ consts_at (nk + length a) b.
Proof.
  intros nk a b (pre & post & H & E). split.
  - exists pre, (b ++ post). rewrite <- app_assoc in H. split; assumption.
  - exists (pre ++ a), post. split.
    + rewrite <- app_assoc in H. rewrite <- app_assoc. assumption.
    + rewrite app_length. lia.
Qed.

Lemma consts_at_nth : forall nk c r, consts_at nk (c :: r) -> nth_error (p_consts C) nk = Some c.
Proof.
  intros nk c r (pre & post & H & E). rewrite H. subst nk.
  rewrite nth_error_app2 by lia. rewrite Nat.sub_diag. reflexivity.
Qed.

Definition nomark (c : list instr) : Prop := forallb (fun i => negb (is_marker i)) c = true.

Lemma nomark_app : forall a b, nomark (a ++ b) -> nomark a /\ nomark b.
Proof. intros a b. apply forallb_app_inv. Qed.

Lemma nomark_one : forall i r, nomark (i :: r) -> is_marker i = false /\ nomark r.
Proof.
  unfold nomark. simpl. intros i r H. apply andb_prop in H. destruct H as [H1 H2].
  split; [destruct (is_marker i); [discriminate | reflexivity] | assumption].
Qed.

(* ---- what is fixed while one statement runs *)
Variable W : @world Q.

Definition stack_ok (ce : cenv) (L : list (string * value Q)) (fp : nat) (stk : list (value Q)) : Prop :=
  (exists upper, stk = upper ++ rev (map snd (w_globals W))) /\
  match c_locals ce with
  | Some ls => ls = map fst L /\
               exists temps below, stk = temps ++ rev (map snd L) ++ below /\ length below = fp
  | None => L = [] /\ fp = 0
  end.

Lemma stack_ok_push : forall ce L fp stk p, stack_ok ce L fp stk -> stack_ok ce L fp (p ++ stk).
Proof.
  intros ce L fp stk p [[u Hu] H]. split.
  - exists (p ++ u). rewrite Hu. rewrite app_assoc. reflexivity.
  - destruct (c_locals ce); [|assumption].
    destruct H as [E (t & b & Hs & Hl)]. split; [assumption|].
    exists (p ++ t), b. split; [|assumption]. rewrite Hs. rewrite app_assoc. reflexivity.
Qed.

Section Comp.
Variable ce : cenv.
Variable L : list (string * value Q).
Variables fi fp : nat.
Variable frs : list frame.

(* a sub-compiler [c] is correct for the values [pushed] (topmost first) *)
Definition comp_ok (c : nat -> nat -> @frag Q) (pushed : list (value Q)) : Prop :=
  forall nk na ip stk s,
    stack_ok ce L fp stk -> m_last s = w_last W ->
    at_code fi ip (f_code (c nk na)) -> consts_at nk (f_consts (c nk na)) ->
    nomark (f_code (c nk na)) ->
    exists k, steps k (St fi ip fp frs stk s)
              = Some (St fi (ip + csize (f_code (c nk na))) fp frs (pushed ++ stk) s).

Lemma cseq_ok : forall cs ps, Forall2 comp_ok cs ps -> comp_ok (cseq cs) (concat (rev ps)).
Proof.
  induction 1 as [|c p cs ps Hc Hr IH]; unfold comp_ok; intros nk na ip stk s Hs Hl Ha Hk Hm.
  - simpl. exists 0. simpl. rewrite Nat.add_0_r. reflexivity.
  - simpl in *. apply at_code_app in Ha. destruct Ha as [Ha1 Ha2].
    apply consts_at_app in Hk. destruct Hk as [Hk1 Hk2].
    apply nomark_app in Hm. destruct Hm as [Hm1 Hm2].
    destruct (Hc nk na ip stk s Hs Hl Ha1 Hk1 Hm1) as [k1 E1].
    destruct (IH _ _ _ (p ++ stk) s (stack_ok_push _ _ _ _ p Hs) Hl Ha2 Hk2 Hm2) as [k2 E2].
    exists (k1 + k2). rewrite (steps_trans _ _ _ _ _ E1 E2).
    rewrite csize_app. rewrite concat_app. simpl. rewrite app_nil_r.
    rewrite <- app_assoc. rewrite Nat.add_assoc. reflexivity.
Qed.

End Comp.
End Sim.
