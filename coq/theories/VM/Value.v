(* C09 — values, outcomes and the primitive operations the compiler-correctness
   theorem is parametric in (quantity arithmetic, comparison, formatting, foreign
   functions, procedures).  Mirrors numbat/src/value.rs (Value, FunctionReference)
   and vm.rs (Constant). *)
From Coq Require Import String List Bool Arith.
Import ListNotations.

(* outcome of an evaluation / a machine run *)
Inductive res (A : Type) : Type :=
| Ok (a : A)
| Err (e : string)        (* a numbat RuntimeError of the given kind *)
| Wrong                   (* reference: ill-typed / ill-scoped; machine: Rust panic *)
| Fuel.                   (* out of fuel *)
Arguments Ok {A} a.
Arguments Err {A} e.
Arguments Wrong {A}.
Arguments Fuel {A}.

Definition bind {A B} (r : res A) (f : A -> res B) : res B :=
  match r with
  | Ok a => f a
  | Err e => Err e
  | Wrong => Wrong
  | Fuel => Fuel
  end.

(* value.rs FunctionReference.  Normal carries the name (for display) and the index of
   the function's bytecode chunk at the time the reference was created; CallCallable
   calls that chunk (fix of finding C09-funref-rebound: the name used to be looked up
   at call time). *)
Inductive fref : Type :=
| FNormal (name : string) (idx : nat)
| FForeign (name : string).

Inductive value (Q : Type) : Type :=
| VQ (q : Q)
| VBool (b : bool)
| VStr (s : string)
| VFun (f : fref)
| VFmt (spec : option string)                       (* Value::FormatSpecifiers *)
| VStruct (sname : string) (fields : list string) (vals : list (value Q))
| VList (l : list (value Q)).
Arguments VQ {Q} q.
Arguments VBool {Q} b.
Arguments VStr {Q} s.
Arguments VFun {Q} f.
Arguments VFmt {Q} spec.
Arguments VStruct {Q} sname fields vals.
Arguments VList {Q} l.

(* vm.rs Constant (units and prefixes are not modelled) *)
Inductive const (Q : Type) : Type :=
| CScalar (q : Q)
| CBool (b : bool)
| CString (s : string)
| CFunRef (f : fref)
| CFmt (spec : option string)
| CUnit (name : string).          (* Constant::Unit of a base unit *)
Arguments CScalar {Q} q.
Arguments CBool {Q} b.
Arguments CString {Q} s.
Arguments CFunRef {Q} f.
Arguments CFmt {Q} spec.
Arguments CUnit {Q} name.


Inductive unop := UNeg | UNot | UFact (order : nat).
Inductive binop :=
| BAdd | BSub | BMul | BDiv | BPow | BConv
| BLt | BGt | BLe | BGe | BEq | BNe | BAnd | BOr.

(* The primitive operations: everything about quantities, formatting and the
   foreign functions is a parameter of the development. *)
Record ops (Q : Type) : Type := {
  q_unit : string -> Q;                        (* Quantity::from_unit of a base unit *)
  q_neg : Q -> Q;
  q_fact : nat -> Q -> res Q;
  q_arith : binop -> Q -> Q -> res Q;          (* Add Sub Mul Div Power ConvertTo *)
  q_cmp : binop -> Q -> Q -> res bool;         (* Lt Gt Le Ge *)
  q_eqb : Q -> Q -> bool;                      (* Quantity::eq *)
  q_show : Q -> string;                        (* simplify + Display *)
  fmt_spec : string -> value Q -> res string;  (* strfmt with format specifiers *)
  ffi : string -> list (value Q) -> res (value Q);
  proc : string -> list (value Q) -> res (list string);  (* printed lines *)
  procs : list string                          (* initial ffi_callables keys (Vm::new) *)
}.
Arguments q_unit {Q} o.
Arguments q_neg {Q} o.
Arguments q_fact {Q} o.
Arguments q_arith {Q} o.
Arguments q_cmp {Q} o.
Arguments q_eqb {Q} o.
Arguments q_show {Q} o.
Arguments fmt_spec {Q} o.
Arguments ffi {Q} o.
Arguments proc {Q} o.
Arguments procs {Q} o.

Section Prim.
Context {Q : Type}.
Variable O : ops Q.

(* Constant::to_value *)
Definition const_to_value (c : const Q) : value Q :=
  match c with
  | CScalar q => VQ q
  | CBool b => VBool b
  | CString s => VStr s
  | CFunRef f => VFun f
  | CFmt s => VFmt s
  | CUnit n => VQ (q_unit O n)
  end.

Definition fref_eqb (a b : fref) : bool :=
  match a, b with
  | FNormal x i, FNormal y j => String.eqb x y && Nat.eqb i j      (* derive(PartialEq) *)
  | FForeign x, FForeign y => String.eqb x y
  | _, _ => false
  end.

Definition opt_string_eqb (a b : option string) : bool :=
  match a, b with
  | None, None => true
  | Some x, Some y => String.eqb x y
  | _, _ => false
  end.

Fixpoint list_eqb {A} (eqb : A -> A -> bool) (l1 l2 : list A) : bool :=
  match l1, l2 with
  | [], [] => true
  | x :: r1, y :: r2 => eqb x y && list_eqb eqb r1 r2
  | _, _ => false
  end.

(* derive(PartialEq) for Value *)
Fixpoint value_eqb (a b : value Q) {struct a} : bool :=
  match a, b with
  | VQ x, VQ y => q_eqb O x y
  | VBool x, VBool y => Bool.eqb x y
  | VStr x, VStr y => String.eqb x y
  | VFun x, VFun y => fref_eqb x y
  | VFmt x, VFmt y => opt_string_eqb x y
  | VStruct n1 f1 v1, VStruct n2 f2 v2 =>
      String.eqb n1 n2 && list_eqb String.eqb f1 f2 &&
      (fix go (l1 l2 : list (value Q)) : bool :=
         match l1, l2 with
         | [], [] => true
         | x :: r1, y :: r2 => value_eqb x y && go r1 r2
         | _, _ => false
         end) v1 v2
  | VList l1, VList l2 =>
      (fix go (l1 l2 : list (value Q)) : bool :=
         match l1, l2 with
         | [], [] => true
         | x :: r1, y :: r2 => value_eqb x y && go r1 r2
         | _, _ => false
         end) l1 l2
  | _, _ => false
  end.

Definition is_arith (op : binop) : bool :=
  match op with BAdd | BSub | BMul | BDiv | BPow | BConv => true | _ => false end.
Definition is_cmp (op : binop) : bool :=
  match op with BLt | BGt | BLe | BGe => true | _ => false end.

(* vm.rs, the arms for Add..ConvertTo, LessThan.., Equal/NotEqual, LogicalAnd/Or:
   a wrong operand shape is a Rust panic (pop_quantity / unsafe_as_bool). *)
Definition apply_bin (op : binop) (lhs rhs : value Q) : res (value Q) :=
  match op with
  | BAdd | BSub | BMul | BDiv | BPow | BConv =>
      match lhs, rhs with
      | VQ a, VQ b => bind (q_arith O op a b) (fun q => Ok (VQ q))
      | _, _ => Wrong
      end
  | BLt | BGt | BLe | BGe =>
      match lhs, rhs with
      | VQ a, VQ b => bind (q_cmp O op a b) (fun r => Ok (VBool r))
      | _, _ => Wrong
      end
  | BEq => Ok (VBool (value_eqb lhs rhs))
  | BNe => Ok (VBool (negb (value_eqb lhs rhs)))
  | BAnd => match lhs, rhs with VBool a, VBool b => Ok (VBool (a && b)) | _, _ => Wrong end
  | BOr => match lhs, rhs with VBool a, VBool b => Ok (VBool (a || b)) | _, _ => Wrong end
  end.

Definition apply_un (op : unop) (v : value Q) : res (value Q) :=
  match op, v with
  | UNeg, VQ a => Ok (VQ (q_neg O a))
  | UNot, VBool b => Ok (VBool (negb b))
  | UFact k, VQ a => bind (q_fact O k a) (fun q => Ok (VQ q))
  | _, _ => Wrong
  end.

(* Display for Value (value.rs) and the `to_str` closure of JoinString (vm.rs) *)
Fixpoint sep_concat (sep : string) (l : list string) : string :=
  match l with
  | [] => EmptyString
  | [x] => x
  | x :: r => append x (append sep (sep_concat sep r))
  end.

Definition show_fref (f : fref) : string :=
  match f with
  | FNormal n _ => append "<function: " (append n ">")
  | FForeign n => append "<builtin function: " (append n ">")
  end.

Fixpoint zip_fields (fs : list string) (vs : list string) : list string :=
  match fs, vs with
  | f :: fr, v :: vr => append f (append ": " v) :: zip_fields fr vr
  | _, _ => []
  end.

(* impl Display for Value *)
Fixpoint display (v : value Q) : string :=
  match v with
  | VQ q => q_show O q
  | VBool b => if b then "true" else "false"
  | VStr s => append """" (append s """")
  | VFun f => show_fref f
  | VFmt _ => "<format specfiers>"
  | VStruct n fs vs =>
      match vs with
      | [] => append n " {}"
      | _ => append n (append " { " (append (sep_concat ", " (zip_fields fs (map display vs))) " }"))
      end
  | VList l => append "[" (append (sep_concat ", " (map display l)) "]")
  end.

(* the `to_str` closure in Op::JoinString: strings without quotes at top level *)
Definition to_str (v : value Q) : string :=
  match v with
  | VStr s => s
  | _ => display v
  end.

End Prim.
