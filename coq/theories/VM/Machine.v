(* C09 — the stack machine (vm.rs Vm::run_without_cleanup, CallFrame).  Popping an
   empty stack, a value of the wrong shape, an out-of-range operand or an [ip]
   that is not an instruction boundary is the explicit outcome SPanic. *)
From Coq Require Import String List Bool Arith.
From NV Require Import VM.Value VM.Ast VM.Bytecode VM.Compile.
Import ListNotations.
Open Scope list_scope.

Section Machine.
Context {Q : Type}.
Variable O : ops Q.
Variable C : @compiled Q.

Record frame : Type := { fr_fn : nat; fr_ip : nat; fr_fp : nat }.

Record mstate : Type := {
  m_frames : list frame;            (* head = current frame *)
  m_stack : list (value Q);         (* head = top of the stack *)
  m_last : option (value Q);        (* Vm::last_result *)
  m_out : list string;              (* lines handed to print_fn, oldest first *)
  m_res : option (value Q)          (* result_last_statement *)
}.

Inductive sres : Type :=
| SNext (s : mstate)
| SHalt                 (* is_at_the_end() *)
| SErr (e : string)     (* RuntimeError *)
| SPanic.

Definition mk (fs : list frame) (stk : list (value Q)) (s : mstate) : mstate :=
  {| m_frames := fs; m_stack := stk; m_last := m_last s; m_out := m_out s; m_res := m_res s |}.

(* stack[idx], counted from the bottom as the Rust Vec is *)
Definition stack_get (stk : list (value Q)) (idx : nat) : option (value Q) :=
  nth_error (rev stk) idx.

(* pop n values; returned in the order they were pushed *)
Definition pop_n (n : nat) (stk : list (value Q)) : option (list (value Q) * list (value Q)) :=
  if Nat.leb n (length stk) then Some (rev (firstn n stk), skipn n stk) else None.

(* the loop of Op::JoinString *)
Fixpoint join_pop (n : nat) (stk : list (value Q)) (acc : string)
  : res (string * list (value Q)) :=
  match n with
  | 0 => Ok (acc, stk)
  | S n' =>
      match stk with
      | [] => Wrong
      | VFmt (Some spec) :: v :: r =>
          bind (fmt_spec O spec v) (fun s => join_pop n' r (append s acc))
      | VFmt None :: v :: r => join_pop n' r (append (to_str O v) acc)
      | VFmt _ :: [] => Wrong
      | v :: r => join_pop n' r (append (to_str O v) acc)
      end
  end.

Definition chunk_names : list string := map fst (p_chunks C).

Definition lift (r : res (value Q)) (k : value Q -> sres) : sres :=
  match r with
  | Ok v => k v
  | Err e => SErr e
  | _ => SPanic
  end.

(* one instruction; [fr] is the current frame with ip already advanced *)
Definition exec (i : instr) (fr : frame) (frs : list frame) (s : mstate) : sres :=
  let stk := m_stack s in
  let next stk' := SNext (mk (fr :: frs) stk' s) in
  match i with
  | ILoadConstant k =>
      match nth_error (p_consts C) k with
      | Some c => next (const_to_value O c :: stk)
      | None => SPanic
      end
  | IGetLocal k =>
      match stack_get stk (fr_fp fr + k) with Some v => next (v :: stk) | None => SPanic end
  | IGetUpvalue k =>
      match stack_get stk k with Some v => next (v :: stk) | None => SPanic end
  | IGetLastResult =>
      match m_last s with Some v => next (v :: stk) | None => SPanic end
  | IUn op =>
      match stk with
      | v :: r => lift (apply_un O op v) (fun w => next (w :: r))
      | [] => SPanic
      end
  | IBin op =>
      match stk with
      | rhs :: lhs :: r => lift (apply_bin O op lhs rhs) (fun w => next (w :: r))
      | _ => SPanic
      end
  | IJumpIfFalse off =>
      match stk with
      | VBool b :: r =>
          if b then next r
          else SNext (mk ({| fr_fn := fr_fn fr; fr_ip := fr_ip fr + off; fr_fp := fr_fp fr |} :: frs) r s)
      | _ => SPanic
      end
  | IJump off =>
      SNext (mk ({| fr_fn := fr_fn fr; fr_ip := fr_ip fr + off; fr_fp := fr_fp fr |} :: frs) stk s)
  | ICall fidx nargs =>
      if Nat.leb nargs (length stk)
      then SNext (mk ({| fr_fn := fidx; fr_ip := 0; fr_fp := length stk - nargs |} :: fr :: frs) stk s)
      else SPanic
  | IFFICallFunction idx nargs _ =>
      match nth_error (p_ffi C) idx, pop_n nargs stk with
      | Some name, Some (args, r) => lift (ffi O name args) (fun w => next (w :: r))
      | _, _ => SPanic
      end
  | IFFICallProcedure idx nargs _ =>
      match nth_error (p_ffi C) idx, pop_n nargs stk with
      | Some name, Some (args, r) =>
          match proc O name args with
          | Ok lines =>
              SNext {| m_frames := fr :: frs; m_stack := r; m_last := m_last s;
                       m_out := m_out s ++ lines; m_res := m_res s |}
          | Err e => SErr e
          | _ => SPanic
          end
      | _, _ => SPanic
      end
  | ICallCallable nargs _ =>
      match stk with
      | VFun (FNormal _ fidx) :: r =>
          (* the chunk the reference was created for *)
          if Nat.leb nargs (length r)
          then SNext (mk ({| fr_fn := fidx; fr_ip := 0; fr_fp := length r - nargs |} :: fr :: frs) r s)
          else SPanic
      | VFun (FForeign name) :: r =>
          match index_of name (p_ffi C), pop_n nargs r with
          | Some _, Some (args, r') => lift (ffi O name args) (fun w => next (w :: r'))
          | _, _ => SPanic
          end
      | _ => SPanic
      end
  | IJoinString n =>
      match join_pop n stk EmptyString with
      | Ok (str, r) => next (VStr str :: r)
      | Err e => SErr e
      | _ => SPanic
      end
  | IBuildStruct sidx n =>
      match nth_error (p_structs C) sidx with
      | Some (sname, sfields) =>
          if Nat.leb n (length stk)
          then next (VStruct sname sfields (firstn n stk) :: skipn n stk)
          else SPanic
      | None => SPanic
      end
  | IAccessField idx =>
      match stk with
      | VStruct _ _ vals :: r =>
          match nth_error vals idx with Some v => next (v :: r) | None => SPanic end
      | _ => SPanic
      end
  | IPrintString k =>
      match nth_error (p_strings C) k with
      | Some text =>
          SNext {| m_frames := fr :: frs; m_stack := stk; m_last := m_last s;
                   m_out := m_out s ++ [text]; m_res := m_res s |}
      | None => SPanic
      end
  | IBuildList n =>
      match pop_n n stk with
      | Some (elems, r) => next (VList elems :: r)
      | None => SPanic
      end
  | IReturn =>
      match frs with
      | [] =>
          match stk with
          | v :: r => SNext {| m_frames := [fr]; m_stack := r; m_last := Some v;
                               m_out := m_out s; m_res := Some v |}
          | [] => SPanic
          end
      | _ :: _ =>
          match stk with
          | v :: r =>
              (* drop everything above the discarded frame's fp, push the result *)
              SNext (mk frs (v :: skipn (length r - fr_fp fr) r) s)
          | [] => SPanic
          end
      end
  | ICompilePanic | IUnmodelled => SPanic
  end.

Definition step (s : mstate) : sres :=
  match m_frames s with
  | [] => SPanic
  | fr :: frs =>
      match nth_error (p_chunks C) (fr_fn fr) with
      | None => SPanic
      | Some (_, code) =>
          if Nat.leb (csize code) (fr_ip fr) then SHalt
          else match fetch code (fr_ip fr) with
               | None => SPanic
               | Some i =>
                   exec i {| fr_fn := fr_fn fr; fr_ip := fr_ip fr + isize i; fr_fp := fr_fp fr |} frs s
               end
      end
  end.

Definition minit : mstate :=
  {| m_frames := [{| fr_fn := 0; fr_ip := 0; fr_fp := 0 |}]; m_stack := [];
     m_last := None; m_out := []; m_res := None |}.

(* observable outcome of Vm::run: printed lines and the value of the last
   expression statement (None = InterpreterResult::Continue) *)
Fixpoint run_from (n : nat) (s : mstate) : res (list string * option (value Q)) :=
  match n with
  | 0 => Fuel
  | S n' =>
      match step s with
      | SNext s' => run_from n' s'
      | SHalt => Ok (m_out s, m_res s)
      | SErr e => Err e
      | SPanic => Wrong
      end
  end.

Definition run (n : nat) : res (list string * option (value Q)) := run_from n minit.

End Machine.
