(* C09 — bytecode (vm.rs Op).  A chunk is a list of instructions; positions are
   BYTE offsets as in the Rust Vec<u8>: one byte for the opcode and two bytes per
   u16 operand.  Operands are natural numbers; wherever the Rust code casts to
   u16 the compiler model guards the value with [chk16] and emits the marker
   [IUnmodelled] instead when it does not fit. *)
From Coq Require Import String List Arith.
From NV Require Import VM.Value.
Import ListNotations.

Definition U16 : nat := Nat.pow 2 16.

Inductive instr : Type :=
| ILoadConstant (k : nat)
| IGetLocal (k : nat)
| IGetUpvalue (k : nat)
| IGetLastResult
| IUn (op : unop)                    (* Negate / LogicalNeg / Factorial order *)
| IBin (op : binop)
| IJumpIfFalse (off : nat)
| IJump (off : nat)
| ICall (fidx nargs : nat)
| IFFICallFunction (idx nargs cidx : nat)
| IFFICallProcedure (idx nargs cidx : nat)
| ICallCallable (nargs cidx : nat)
| IJoinString (n : nat)
| IBuildStruct (sidx n : nat)
| IAccessField (idx : nat)
| IBuildList (n : nat)
| IPrintString (k : nat)
| IReturn
| ICompilePanic      (* the compiler hit unreachable!() / unwrap() on None *)
| IUnmodelled.       (* a value did not fit its u16 cast: not modelled further *)

Definition isize (i : instr) : nat :=
  match i with
  | IGetLastResult | IBin _ | IReturn | ICompilePanic | IUnmodelled => 1
  | IUn (UFact _) => 3
  | IUn _ => 1
  | ILoadConstant _ | IGetLocal _ | IGetUpvalue _ | IJumpIfFalse _ | IJump _
  | IJoinString _ | IAccessField _ | IBuildList _ | IPrintString _ => 3
  | ICall _ _ | ICallCallable _ _ | IBuildStruct _ _ => 5
  | IFFICallFunction _ _ _ | IFFICallProcedure _ _ _ => 7
  end.

Fixpoint csize (c : list instr) : nat :=
  match c with
  | [] => 0
  | i :: r => isize i + csize r
  end.

(* the instruction that starts at byte offset [ip]; None if [ip] is not an
   instruction boundary (the Rust VM would transmute an operand byte) *)
Fixpoint fetch (c : list instr) (ip : nat) : option instr :=
  match c with
  | [] => None
  | i :: r => if Nat.eqb ip 0 then Some i
              else if Nat.ltb ip (isize i) then None
              else fetch r (ip - isize i)
  end.

Definition is_marker (i : instr) : bool :=
  match i with ICompilePanic | IUnmodelled => true | _ => false end.

(* `x as u16` guarded: keep the instruction if x fits, else the marker *)
Definition chk16 (x : nat) (i : instr) : instr :=
  if Nat.ltb x U16 then i else IUnmodelled.
