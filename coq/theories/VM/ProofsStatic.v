(* C09 — the main theorem for the PLAIN static reference semantics, under a syntactic
   hypothesis: the program defines no function name twice (and foreign functions do
   not invent function values). *)
From Coq Require Import String List Bool Arith Lia ZArith.
From NV Require Import Base.Show VM.Value VM.Ast VM.Bytecode VM.Compile VM.Machine VM.RefSem VM.Exec
     VM.Proofs VM.StaticBinding.
Import ListNotations.
Open Scope list_scope.

Definition ffi_parametric {Q} (O : ops Q) : Prop :=
  forall (P : string -> nat -> bool) name args v,
    Forall (good P) args -> ffi O name args = Ok v -> good P v.

Theorem compile_correct_static {Q} : forall (O : ops Q) (p : program Q) n out v,
  ffi_parametric O -> NoDup (fn_names p) ->
  compile_ok (compile (procs O) p) = true ->
  run_static O n p = Ok (out, v) ->
  exists m, Machine.run O (compile (procs O) p) m = Ok (out, v).
Proof.
  intros O p n out v Hffi Hnd Hok H. apply (compile_correct O p n out v Hok).
  unfold run_checked. unfold run_static in H. rewrite (run_same O (true, true) Hffi p Hnd n). exact H.
Qed.

(* the instance used by the correspondence satisfies the hypothesis *)
Lemma zffi_parametric : ffi_parametric zops.
Proof.
  intros P name args v HF H. simpl in H. unfold zffi in H.
  repeat match type of H with
         | (if ?c then _ else _) = _ => destruct c
         end;
  repeat match type of H with
         | match ?x with _ => _ end = _ => destruct x; try discriminate
         end;
  inversion H; subst; clear H; try exact I;
  repeat match goal with
         | HF : Forall _ (_ :: _) |- _ => inversion HF; subst; clear HF
         end;
  repeat match goal with
         | Hg : good P (VList _) |- _ => apply (good_VList P) in Hg
         end;
  try (apply (good_VList P));
  repeat match goal with
         | Hg : Forall _ (_ :: _) |- _ => inversion Hg; subst; clear Hg
         end;
  try assumption; try (constructor; assumption).
  apply Forall_app. split; [assumption | constructor; [assumption | constructor]].
Qed.
