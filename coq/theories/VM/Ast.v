(* C09 — the typed source language (typed_ast.rs Expression / Statement), restricted
   to the constructs the property talks about.  Struct literals and field accesses
   carry the struct's declared field list, as the typed AST carries StructInfo. *)
From Coq Require Import String List.
From NV Require Import VM.Value.
Import ListNotations.

Inductive expr (Q : Type) : Type :=
| EScalar (q : Q)
| EBool (b : bool)
| EString (parts : list (string + (expr Q * option string)))   (* Fixed | Interpolation *)
| EIdent (x : string)
| EUnit (x : string)                                   (* Expression::UnitIdentifier, no prefix *)
| EUn (op : unop) (e : expr Q)
| EBin (op : binop) (a b : expr Q)
| ECall (f : string) (args : list (expr Q))            (* Expression::FunctionCall *)
| ECallable (callee : expr Q) (args : list (expr Q))   (* Expression::CallableCall *)
| ECond (c t e : expr Q)
| EStruct (sname : string) (sfields : list string) (fields : list (string * expr Q))
| EField (e : expr Q) (fname : string) (sfields : list string)
| EList (es : list (expr Q)).
Arguments EScalar {Q} q.
Arguments EBool {Q} b.
Arguments EString {Q} parts.
Arguments EIdent {Q} x.
Arguments EUnit {Q} x.
Arguments EUn {Q} op e.
Arguments EBin {Q} op a b.
Arguments ECall {Q} f args.
Arguments ECallable {Q} callee args.
Arguments ECond {Q} c t e.
Arguments EStruct {Q} sname sfields fields.
Arguments EField {Q} e fname sfields.
Arguments EList {Q} es.

Inductive stmt (Q : Type) : Type :=
| SExpr (e : expr Q)
| SLet (x : string) (e : expr Q)
| SFn (f : string) (params : list string) (locals : list (string * expr Q)) (body : expr Q)
| SForeign (f : string)                                  (* fn without body *)
| SStruct (sname : string) (sfields : list string)
| SProc (name : string) (args : list (expr Q))           (* print / assert / assert_eq *)
| SDim                                                   (* dimension definition: no run-time effect *)
| SUnitBase (name : string)                              (* `unit name: Dim` (base unit) *)
| SType (text : string).                                 (* type(e): prints the type the checker inferred *)
Arguments SExpr {Q} e.
Arguments SLet {Q} x e.
Arguments SFn {Q} f params locals body.
Arguments SForeign {Q} f.
Arguments SStruct {Q} sname sfields.
Arguments SProc {Q} name args.
Arguments SDim {Q}.
Arguments SUnitBase {Q} name.
Arguments SType {Q} text.

Definition program (Q : Type) := list (stmt Q).

(* name_resolution.rs LAST_RESULT_IDENTIFIERS *)
Definition is_last_result (x : string) : bool := (String.eqb x "ans" || String.eqb x "_")%bool.
