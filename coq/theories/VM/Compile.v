(* C09 — the bytecode compiler (bytecode_interpreter.rs compile_expression,
   compile_define_variable, compile_statement; the Vm emission helpers of vm.rs).
   The mutable Vm is rendered functionally: compiling an expression returns the
   constants and instructions it APPENDS, given the number of constants [nk] and of
   ffi_call_args entries [na] that exist already.  Jump operands are the values
   patch_u16_value_at writes (else_block_offset - (if_jump_offset + 2), ...), exact
   as long as the chunk stays below 2^16 bytes, which [compile_ok] demands. *)
From Coq Require Import String List Bool Arith.
From NV Require Import VM.Value VM.Ast VM.Bytecode.
Import ListNotations.
Open Scope string_scope.
Open Scope list_scope.

(* ---- scope tables of BytecodeInterpreter / Vm that name resolution reads *)
Record cenv : Type := {
  c_globals : list string;                  (* locals[0]: one slot per global, in order *)
  c_locals : option (list string);          (* locals[1] while a function is compiled *)
  c_functions : list (string * bool);       (* `functions` map as insertion log (name, is_foreign); last wins *)
  c_chunks : list string;                   (* names of vm.bytecode; index 0 is <main> *)
  c_ffi : list string;                      (* keys of vm.ffi_callables by index *)
  c_structs : list (string * list string);  (* vm.struct_infos by index *)
  c_units : list (string * nat)             (* unit_name_to_constant_index as insertion log; last wins *)
}.

(* HashMap::get on the insertion log of unit_name_to_constant_index *)
Fixpoint unit_lookup (x : string) (l : list (string * nat)) : option nat :=
  match l with
  | [] => None
  | (y, i) :: r => match unit_lookup x r with
                   | Some j => Some j
                   | None => if String.eqb y x then Some i else None
                   end
  end.

(* Iterator::rposition *)
Fixpoint rposition_from (x : string) (l : list string) (i : nat) (acc : option nat) : option nat :=
  match l with
  | [] => acc
  | y :: r => rposition_from x r (S i) (if String.eqb y x then Some i else acc)
  end.
Definition rposition (x : string) (l : list string) : option nat := rposition_from x l 0 None.

(* IndexMap::get_index_of / Iterator::position *)
Fixpoint index_of (x : string) (l : list string) : option nat :=
  match l with
  | [] => None
  | y :: r => if String.eqb y x then Some 0
              else match index_of x r with Some i => Some (S i) | None => None end
  end.

(* HashMap::get on the insertion log: the last insertion of the key *)
Fixpoint fn_lookup (x : string) (l : list (string * bool)) : option bool :=
  match l with
  | [] => None
  | (y, b) :: r => match fn_lookup x r with
                   | Some b' => Some b'
                   | None => if String.eqb y x then Some b else None
                   end
  end.

(* IndexMap::insert / entry().or_insert: an existing key keeps its index *)
Definition add_key (x : string) (l : list string) : list string :=
  match index_of x l with Some _ => l | None => l ++ [x] end.
Definition add_struct (n : string) (fs : list string) (l : list (string * list string)) :=
  match index_of n (map fst l) with Some _ => l | None => l ++ [(n, fs)] end.

Section Compile.
Context {Q : Type}.

Record frag : Type := { f_consts : list (const Q); f_code : list instr; f_na : nat }.
Definition fempty (na : nat) : frag := {| f_consts := []; f_code := []; f_na := na |}.
Definition fapp (a b : frag) : frag :=
  {| f_consts := f_consts a ++ f_consts b; f_code := f_code a ++ f_code b; f_na := f_na b |}.
Definition femit (a : frag) (is : list instr) : frag :=
  {| f_consts := f_consts a; f_code := f_code a ++ is; f_na := f_na a |}.

(* run a list of sub-compilers one after the other (arguments, elements, fields) *)
Fixpoint cseq (cs : list (nat -> nat -> frag)) (nk na : nat) : frag :=
  match cs with
  | [] => fempty na
  | c :: r => let f1 := c nk na in
              fapp f1 (cseq r (nk + length (f_consts f1)) (f_na f1))
  end.

(* itertools sorted_by_key: stable insertion sort on a nat key *)
Fixpoint insert_by {A} (k : nat) (a : A) (l : list (nat * A)) : list (nat * A) :=
  match l with
  | [] => [(k, a)]
  | (k', a') :: r => if Nat.leb k k' then (k, a) :: l else (k', a') :: insert_by k a r
  end.
Definition sort_by {A} (l : list (nat * A)) : list (nat * A) :=
  fold_right (fun ka acc => insert_by (fst ka) (snd ka) acc) [] l.

(* keys of the struct fields: struct_info.fields.get_index_of(n).unwrap() *)
Fixpoint keyed {A} (sfields : list string) (l : list (string * A)) : option (list (nat * A)) :=
  match l with
  | [] => Some []
  | (n, a) :: r => match index_of n sfields, keyed sfields r with
                   | Some k, Some kr => Some ((k, a) :: kr)
                   | _, _ => None
                   end
  end.

Definition cident (ce : cenv) (x : string) (nk na : nat) : frag :=
  let after_scopes :=
    if is_last_result x then {| f_consts := []; f_code := [IGetLastResult]; f_na := na |}
    else match fn_lookup x (c_functions ce) with
         | Some true =>
             {| f_consts := [CFunRef (FForeign x)]; f_code := [ILoadConstant nk]; f_na := na |}
         | Some false =>
             (* FunctionReference::Normal(name, get_function_idx(name)) *)
             match rposition x (c_chunks ce) with
             | Some i => {| f_consts := [CFunRef (FNormal x i)]; f_code := [ILoadConstant nk]; f_na := na |}
             | None => {| f_consts := []; f_code := [ICompilePanic]; f_na := na |}
             end
         | None => {| f_consts := []; f_code := [ICompilePanic]; f_na := na |}
         end in
  match c_locals ce with
  | Some ls =>
      match rposition x ls with
      | Some p => {| f_consts := []; f_code := [chk16 p (IGetLocal p)]; f_na := na |}
      | None => match rposition x (c_globals ce) with
                | Some p => {| f_consts := []; f_code := [chk16 p (IGetUpvalue p)]; f_na := na |}
                | None => after_scopes
                end
      end
  | None =>
      (* depth 0: locals[current_depth] is locals[0] *)
      match rposition x (c_globals ce) with
      | Some p => {| f_consts := []; f_code := [chk16 p (IGetLocal p)]; f_na := na |}
      | None => after_scopes
      end
  end.

(* compile_expression *)
Fixpoint cexpr (ce : cenv) (e : expr Q) (nk na : nat) {struct e} : frag :=
  match e with
  | EScalar q => {| f_consts := [CScalar q]; f_code := [ILoadConstant nk]; f_na := na |}
  | EBool b => {| f_consts := [CBool b]; f_code := [ILoadConstant nk]; f_na := na |}
  | EIdent x => cident ce x nk na
  | EUnit x =>
      (* unit_name_to_constant_index.get(unit_name).expect("unit should already exist") *)
      match unit_lookup x (c_units ce) with
      | Some idx => {| f_consts := []; f_code := [ILoadConstant idx]; f_na := na |}
      | None => {| f_consts := []; f_code := [ICompilePanic]; f_na := na |}
      end
  | EUn op a =>
      femit (cexpr ce a nk na)
            [match op with UFact k => chk16 k (IUn op) | _ => IUn op end]
  | EBin op a b =>
      let fa := cexpr ce a nk na in
      let fb := cexpr ce b (nk + length (f_consts fa)) (f_na fa) in
      femit (fapp fa fb) [IBin op]
  | ECall f args =>
      let fargs := cseq (map (fun a => cexpr ce a) args) nk na in
      let n := length args in
      match index_of f (c_ffi ce) with
      | Some idx =>
          {| f_consts := f_consts fargs;
             f_code := f_code fargs ++ [chk16 n (IFFICallFunction idx n (f_na fargs))];
             f_na := S (f_na fargs) |}
      | None =>
          match rposition f (c_chunks ce) with
          | Some idx => femit fargs [chk16 n (ICall idx n)]
          | None => femit fargs [ICompilePanic]
          end
      end
  | ECallable callee args =>
      let fargs := cseq (map (fun a => cexpr ce a) args) nk na in
      let fc := cexpr ce callee (nk + length (f_consts fargs)) (f_na fargs) in
      let n := length args in
      {| f_consts := f_consts fargs ++ f_consts fc;
         f_code := f_code fargs ++ f_code fc ++ [chk16 n (ICallCallable n (f_na fc))];
         f_na := S (f_na fc) |}
  | ECond c t e =>
      let fc := cexpr ce c nk na in
      let ft := cexpr ce t (nk + length (f_consts fc)) (f_na fc) in
      let fe := cexpr ce e (nk + length (f_consts fc) + length (f_consts ft)) (f_na ft) in
      {| f_consts := f_consts fc ++ f_consts ft ++ f_consts fe;
         f_code := f_code fc ++ [IJumpIfFalse (csize (f_code ft) + 3)] ++ f_code ft
                   ++ [IJump (csize (f_code fe))] ++ f_code fe;
         f_na := f_na fe |}
  | EStruct sname sfields fields =>
      let subs := map (fun nf => (fst nf, fun nk na => cexpr ce (snd nf) nk na)) fields in
      match keyed sfields subs with
      | None => {| f_consts := []; f_code := [ICompilePanic]; f_na := na |}
      | Some ks =>
          let ordered := rev (map snd (sort_by ks)) in
          let ff := cseq ordered nk na in
          let n := length fields in
          match index_of sname (map fst (c_structs ce)) with
          | Some sidx => femit ff [chk16 n (IBuildStruct sidx n)]
          | None => femit ff [ICompilePanic]
          end
      end
  | EField a fname sfields =>
      let fa := cexpr ce a nk na in
      match index_of fname sfields with
      | Some idx => femit fa [chk16 idx (IAccessField idx)]
      | None => femit fa [ICompilePanic]
      end
  | EList es =>
      let fe := cseq (map (fun a => cexpr ce a) es) nk na in
      femit fe [chk16 (length es) (IBuildList (length es))]
  | EString parts =>
      let subs := map (fun p : string + (expr Q * option string) =>
                         match p with
                         | inl s => fun nk na =>
                             {| f_consts := [CString s]; f_code := [ILoadConstant nk]; f_na := na |}
                         | inr (a, spec) => fun nk na =>
                             let fa := cexpr ce a nk na in
                             {| f_consts := f_consts fa ++ [CFmt spec];
                                f_code := f_code fa ++ [ILoadConstant (nk + length (f_consts fa))];
                                f_na := f_na fa |}
                         end) parts in
      let fp := cseq subs nk na in
      femit fp [chk16 (length parts) (IJoinString (length parts))]
  end.

Definition with_locals (ce : cenv) (ls : option (list string)) : cenv :=
  {| c_globals := c_globals ce; c_locals := ls; c_functions := c_functions ce;
     c_chunks := c_chunks ce; c_ffi := c_ffi ce; c_structs := c_structs ce; c_units := c_units ce |}.

(* the where-locals of a function: compile_define_variable at depth 1 *)
Fixpoint clocals (ce : cenv) (ls : list string) (wl : list (string * expr Q)) (nk na : nat)
  : frag * list string :=
  match wl with
  | [] => (fempty na, ls)
  | (x, e) :: r =>
      let f1 := cexpr (with_locals ce (Some ls)) e nk na in
      let '(f2, ls') := clocals ce (ls ++ [x]) r (nk + length (f_consts f1)) (f_na f1) in
      (fapp f1 f2, ls')
  end.

(* the chunk of a function: parameters, where-locals, body, Return *)
Definition cfun (ce : cenv) (params : list string) (wl : list (string * expr Q)) (body : expr Q)
           (nk na : nat) : frag :=
  let '(fl, ls) := clocals ce params wl nk na in
  let fb := cexpr (with_locals ce (Some ls)) body (nk + length (f_consts fl)) (f_na fl) in
  femit (fapp fl fb) [IReturn].

Record cstate : Type := {
  s_env : cenv;
  s_consts : list (const Q);
  s_na : nat;
  s_main : list instr;
  s_fns : list (string * list instr);     (* vm.bytecode[1..] *)
  s_strings : list string                 (* vm.strings: compile-time texts of PrintString *)
}.

Definition cinit (procs : list string) : cstate :=
  {| s_env := {| c_globals := []; c_locals := None; c_functions := []; c_chunks := ["<main>"];
                 c_ffi := procs; c_structs := []; c_units := [] |};
     s_consts := []; s_na := 0; s_main := []; s_fns := []; s_strings := [] |}.

Definition upd_env (st : cstate) (ce : cenv) (fr : frag) (main_extra : list instr) : cstate :=
  {| s_env := ce; s_consts := s_consts st ++ f_consts fr; s_na := f_na fr;
     s_main := s_main st ++ f_code fr ++ main_extra; s_fns := s_fns st; s_strings := s_strings st |}.

(* compile_statement *)
Definition cstmt (s : stmt Q) (st : cstate) : cstate :=
  let ce := s_env st in
  let nk := length (s_consts st) in
  match s with
  | SExpr e => upd_env st ce (cexpr ce e nk (s_na st)) [IReturn]
  | SLet x e =>
      let ce' := {| c_globals := c_globals ce ++ [x]; c_locals := c_locals ce;
                    c_functions := c_functions ce; c_chunks := c_chunks ce;
                    c_ffi := c_ffi ce; c_structs := c_structs ce; c_units := c_units ce |} in
      upd_env st ce' (cexpr ce e nk (s_na st)) []
  | SFn f params wl body =>
      (* begin_function pushes the chunk; the function is registered in `functions`
         before its body is compiled (fix: self reference as a value) *)
      let ce' := {| c_globals := c_globals ce; c_locals := None;
                    c_functions := c_functions ce ++ [(f, false)];
                    c_chunks := c_chunks ce ++ [f];
                    c_ffi := c_ffi ce; c_structs := c_structs ce; c_units := c_units ce |} in
      let fr := cfun ce' params wl body nk (s_na st) in
      {| s_env := ce'; s_consts := s_consts st ++ f_consts fr; s_na := f_na fr;
         s_main := s_main st; s_fns := s_fns st ++ [(f, f_code fr)]; s_strings := s_strings st |}
  | SForeign f =>
      let ce' := {| c_globals := c_globals ce; c_locals := None;
                    c_functions := c_functions ce ++ [(f, true)];
                    c_chunks := c_chunks ce;
                    c_ffi := add_key f (c_ffi ce); c_structs := c_structs ce; c_units := c_units ce |} in
      {| s_env := ce'; s_consts := s_consts st; s_na := s_na st;
         s_main := s_main st; s_fns := s_fns st; s_strings := s_strings st |}
  | SStruct n fs =>
      let ce' := {| c_globals := c_globals ce; c_locals := None;
                    c_functions := c_functions ce; c_chunks := c_chunks ce;
                    c_ffi := c_ffi ce; c_structs := add_struct n fs (c_structs ce); c_units := c_units ce |} in
      {| s_env := ce'; s_consts := s_consts st; s_na := s_na st;
         s_main := s_main st; s_fns := s_fns st; s_strings := s_strings st |}
  | SProc name args =>
      let fargs := cseq (map (fun a => cexpr ce a) args) nk (s_na st) in
      let n := length args in
      match index_of name (c_ffi ce) with
      | Some idx =>
          upd_env st ce {| f_consts := f_consts fargs;
                           f_code := f_code fargs ++ [chk16 n (IFFICallProcedure idx n (f_na fargs))];
                           f_na := S (f_na fargs) |} []
      | None => upd_env st ce (femit fargs [ICompilePanic]) []
      end
  | SDim => st      (* Statement::DefineDimension: nothing happens at run time *)
  | SUnitBase n =>
      (* Statement::DefineBaseUnit: a Constant::Unit, and the name -> constant index entry *)
      let ce' := {| c_globals := c_globals ce; c_locals := None;
                    c_functions := c_functions ce; c_chunks := c_chunks ce;
                    c_ffi := c_ffi ce; c_structs := c_structs ce;
                    c_units := c_units ce ++ [(n, nk)] |} in
      {| s_env := ce'; s_consts := s_consts st ++ [CUnit n]; s_na := s_na st;
         s_main := s_main st; s_fns := s_fns st; s_strings := s_strings st |}
  | SType text =>
      (* ProcedureKind::Type: vm.add_string(…) and Op::PrintString *)
      let idx := length (s_strings st) in
      {| s_env := ce; s_consts := s_consts st; s_na := s_na st;
         s_main := s_main st ++ [chk16 idx (IPrintString idx)]; s_fns := s_fns st;
         s_strings := s_strings st ++ [text] |}
  end.

Definition cstmts (p : program Q) (st : cstate) : cstate :=
  fold_left (fun st s => cstmt s st) p st.

(* what the Vm holds after interpret_statements has compiled every statement *)
Record compiled : Type := {
  p_consts : list (const Q);
  p_chunks : list (string * list instr);   (* index 0: <main> *)
  p_ffi : list string;
  p_structs : list (string * list string);
  p_globals : list string;
  p_strings : list string
}.

Definition finish (st : cstate) : compiled :=
  {| p_consts := s_consts st;
     p_chunks := ("<main>", s_main st) :: s_fns st;
     p_ffi := c_ffi (s_env st);
     p_structs := c_structs (s_env st);
     p_globals := c_globals (s_env st);
     p_strings := s_strings st |}.

Definition compile (procs : list string) (p : program Q) : compiled :=
  finish (cstmts p (cinit procs)).

(* no compile-time panic, every u16 cast exact, every chunk below 2^16 bytes,
   at most 2^16-1 constants (add_constant asserts this) *)
(* Vm::current_offset / compile_statement (repair of finding C09-jump-offset-wrap): a
   conditional whose code ends beyond byte 65532 of its chunk cannot be encoded with
   16 bit jump operands; compile_statement then fails with RuntimeErrorKind::CodeTooLarge
   instead of silently truncating the offsets.  Jump instructions are only emitted by
   conditionals; [pos + 3 + o] is the end_offset of that conditional. *)
Fixpoint jumps_overflow (c : list instr) (pos : nat) : bool :=
  match c with
  | [] => false
  | i :: r =>
      (match i with IJump o => Nat.leb U16 (6 + o + pos) | _ => false end)
      || jumps_overflow r (isize i + pos)
  end.

Definition chunk_ok (c : list instr) : bool :=
  forallb (fun i => negb (is_marker i)) c && (Nat.ltb (csize c) U16 && negb (jumps_overflow c 0)).
Definition code_too_large (c : compiled) : bool :=
  existsb (fun nc => jumps_overflow (snd nc) 0) (p_chunks c).

Definition compile_ok (c : compiled) : bool :=
  forallb (fun nc => chunk_ok (snd nc)) (p_chunks c) && Nat.ltb (length (p_consts c)) U16.

End Compile.
