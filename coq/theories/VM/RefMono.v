(* C09 — the reference semantics is monotone in its fuel: a definite outcome (a value, a
   runtime error, or Wrong) never changes when more fuel is given.  Hence "the value of
   a program" is well defined, independently of the fuel that happens to suffice. *)
From Coq Require Import String List Bool Arith Lia.
From NV Require Import VM.Value VM.Ast VM.RefSem.
Import ListNotations.
Open Scope list_scope.

Section Mono.
Context {Q : Type}.
Variable O : ops Q.
Variable lits : bool * bool.

(* r' refines r: r is out of fuel, or they agree *)
Definition le {A} (r r' : res A) : Prop := r = Fuel \/ r = r'.

Lemma le_refl {A} : forall r : res A, le r r.
Proof. intro r. right. reflexivity. Qed.

Lemma bind_le {A B} : forall (r r' : res A) (f f' : A -> res B),
  le r r' -> (forall a, le (f a) (f' a)) -> le (bind r f) (bind r' f').
Proof.
  intros r r' f f' [H|H] Hf.
  - subst. left. reflexivity.
  - subst. destruct r'; simpl; try (right; reflexivity). apply Hf.
Qed.

Lemma evals_le {A B} : forall (f g : A -> res B) l,
  (forall a, le (f a) (g a)) -> le (evals f l) (evals g l).
Proof.
  induction l as [|a l IH]; intro H; simpl; [apply le_refl|].
  apply bind_le; [apply H|]. intro v. apply bind_le; [apply IH; exact H|]. intro vs. apply le_refl.
Qed.

Lemma bind_locals_le : forall (ev ev' : list (string * value Q) -> expr Q -> res (value Q)) wl L,
  (forall L e, le (ev L e) (ev' L e)) -> le (bind_locals ev L wl) (bind_locals ev' L wl).
Proof.
  induction wl as [|[x e] wl IH]; intros L H; simpl; [apply le_refl|].
  apply bind_le; [apply H|]. intro v. apply IH. exact H.
Qed.

Theorem eval_le : forall n W vg vn vf L e,
  le (eval O lits n W vg vn vf L e) (eval O lits (S n) W vg vn vf L e).
Proof.
  induction n as [|n IH]; intros W vg vn vf L e.
  - left. reflexivity.
  - remember (S n) as m eqn:Em. rewrite Em at 1. clear Em.
    assert (Call : forall idx (fd : @fdef Q) vs,
      le (if Nat.eqb (length (fd_params fd)) (length vs) then
            bind (bind_locals (fun L' e' => eval O lits n W (fd_nglob fd) idx (fd_nforeign fd) L' e')
                              (combine (fd_params fd) vs) (fd_locals fd))
                 (fun L' => eval O lits n W (fd_nglob fd) idx (fd_nforeign fd) L' (fd_body fd))
          else Wrong)
         (if Nat.eqb (length (fd_params fd)) (length vs) then
            bind (bind_locals (fun L' e' => eval O lits m W (fd_nglob fd) idx (fd_nforeign fd) L' e')
                              (combine (fd_params fd) vs) (fd_locals fd))
                 (fun L' => eval O lits m W (fd_nglob fd) idx (fd_nforeign fd) L' (fd_body fd))
          else Wrong)).
    { intros idx fd vs. destruct (Nat.eqb (length (fd_params fd)) (length vs)); [|apply le_refl].
      apply bind_le; [apply bind_locals_le; intros; apply IH | intro L'; apply IH]. }
    assert (Args : forall es, le (evals (eval O lits n W vg vn vf L) es) (evals (eval O lits m W vg vn vf L) es))
      by (intro es; apply evals_le; intro a; apply IH).
    destruct e; cbn [eval].
    + apply le_refl.
    + apply le_refl.
    + destruct (negb (fst lits)); [apply le_refl|].
      apply bind_le; [|intro; apply le_refl].
      apply evals_le. intros [s0|[a [spec|]]]; [apply le_refl | |];
        (apply bind_le; [apply IH | intro; apply le_refl]).
    + apply le_refl.
    + apply le_refl.
    + apply bind_le; [apply IH | intro; apply le_refl].
    + apply bind_le; [apply IH|]. intro va. apply bind_le; [apply IH | intro; apply le_refl].
    + apply bind_le; [apply Args|]. intro vs.
      destruct (mem f (procs O ++ firstn vf (w_foreign W))); destruct (find_last f (firstn vn (w_fns W))) as [[i fd]|];
        try apply le_refl. apply Call.
    + apply bind_le; [apply Args|]. intro vs. apply bind_le; [apply IH|]. intro c.
      destruct c; try apply le_refl. destruct f as [name [|i]|name]; try apply le_refl.
      destruct (nth_error (w_fns W) i) as [[name' fd]|]; [apply Call | apply le_refl].
    + apply bind_le; [apply IH|]. intro vc. destruct vc; try apply le_refl. destruct b; apply IH.
    + destruct (negb (snd lits)); [apply le_refl|].
      destruct (assoc sname (w_structs W)); [|apply le_refl].
      destruct (list_eqb String.eqb l sfields && nodupb sfields && Nat.eqb (length fields) (length sfields))%bool;
        [|apply le_refl].
      apply bind_le; [|intro; apply le_refl].
      apply evals_le. intro nf. apply bind_le; [apply IH | intro; apply le_refl].
    + apply bind_le; [apply IH | intro; apply le_refl].
    + apply bind_le; [apply Args | intro; apply le_refl].
Qed.

Lemma exec_stmt_le : forall n s st, le (exec_stmt O lits n s st) (exec_stmt O lits (S n) s st).
Proof.
  intros n s st. destruct s; simpl; try apply le_refl.
  - apply bind_le; [apply eval_le | intro; apply le_refl].
  - apply bind_le; [apply eval_le | intro; apply le_refl].
  - apply bind_le; [|intro; apply le_refl]. apply evals_le. intro a. apply eval_le.
Qed.

Lemma exec_stmts_le : forall n p st, le (exec_stmts O lits n p st) (exec_stmts O lits (S n) p st).
Proof.
  induction p as [|s p IH]; intro st; simpl; [apply le_refl|].
  apply bind_le; [apply exec_stmt_le | exact IH].
Qed.

Lemma run_le : forall n p, le (RefSem.run O lits n p) (RefSem.run O lits (S n) p).
Proof. intros n p. unfold RefSem.run. apply bind_le; [apply exec_stmts_le | intro; apply le_refl]. Qed.

Lemma run_le_many : forall d n p r, RefSem.run O lits n p = r -> r <> Fuel -> RefSem.run O lits (d + n) p = r.
Proof.
  induction d; intros n p r H Hr; simpl; [exact H|].
  specialize (IHd n p r H Hr). destruct (run_le (d + n) p) as [E|E]; congruence.
Qed.

(* the outcome of a program does not depend on the fuel, once it is definite *)
Theorem run_unique : forall n n' p r r',
  RefSem.run O lits n p = r -> RefSem.run O lits n' p = r' -> r <> Fuel -> r' <> Fuel -> r = r'.
Proof.
  intros n n' p r r' H H' Hr Hr'.
  pose proof (run_le_many n' n p r H Hr) as A. pose proof (run_le_many n n' p r' H' Hr') as B.
  rewrite Nat.add_comm in B. congruence.
Qed.

End Mono.
