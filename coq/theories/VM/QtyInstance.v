(* C03 x C09 — composition of the exact quantity model (area qty: Qty/*.v, Props/C03.v)
   with the compiler / machine model (area vm).  The vm area's files are not edited.

   The parameters [ops] of the VM development are instantiated with the exact quantity
   arithmetic of Qty/Model.v over rationals ([qops]: a value is a Quantity — magnitude,
   unit factor list, can_simplify flag, conversion target; + - * / ^ -> are impl Add/Sub,
   Mul, checked_div, checked_power, Op::ConvertTo; comparison is the symmetric comparison).
   For the shared fragment (`let x = e` and expression statements over quantity literals
   — the unit constants of a finite initial environment are lets of literals —, names,
   unary minus, + - * /, ^n with a literal integer exponent, ->) the reference semantics
   of the VM area, run on these ops, computes quantities whose size in base units is the
   value of EXACT DIMENSIONAL ARITHMETIC ([psem]: plain rational arithmetic on the sizes);
   composed with C09_compile_correct this holds for what the MODEL MACHINE computes from
   the MODEL-COMPILED program. *)
From Coq Require Import String List ZArith QArith Qcanon Bool Arith Lia.
From NV Require Qty.Model Qty.Exec Qty.NumFacts Qty.Proofs Qty.TableSem Qty.Good Qty.AssertProofs.
From NV Require Import VM.Value VM.Ast VM.Bytecode VM.Compile VM.Machine VM.RefSem VM.Proofs.
Import ListNotations.
Open Scope list_scope.

Module QM := NV.Qty.Model.
Module QE := NV.Qty.Exec.
Module QN := NV.Qty.NumFacts.
Module QP := NV.Qty.Proofs.
Module QA := NV.Qty.AssertProofs.

Definition qq : Type := @QM.quantity Qc.

Section Inst.
  Variable tbl : QM.table Qc.
  Variable keys : list QM.skey.
  Let rs := QM.resolve QE.QcN tbl.

  Definition lift (r : QM.res_t qq) : res qq :=
    match r with
    | QM.Ok q => Ok q
    | QM.Err QM.IncompatibleUnits => Err "IncompatibleUnits"
    | QM.Err QM.DivisionByZero => Err "DivisionByZero"
    | QM.Err QM.Panic => Wrong
    end.

  (* vm.rs Op::Power: lhs.checked_power(rhs); the exponent is rhs as a scalar, and the
     exact model covers integer exponents *)
  Definition pow_arith (x y : qq) : res qq :=
    match QM.convert_to QE.QcN tbl rs keys y [] with
    | QM.Ok s => if QM.Qc_is_int (QM.q_val s) then lift (QM.qpow QE.QcN x (Qnum (this (QM.q_val s)))) else Wrong
    | QM.Err _ => Err "IncompatibleUnits"
    end.

  Definition cmp_of (op : binop) : option QM.cmpop :=
    match op with
    | BLt => Some QM.CLt | BGt => Some QM.CGt | BLe => Some QM.CLe | BGe => Some QM.CGe
    | _ => None
    end.

  Definition qops : ops qq :=
    {| q_unit := fun _ => QM.qnew 1%Qc [];
       q_neg := QM.qneg QE.QcN;
       q_fact := fun _ _ => Wrong;
       q_arith := fun op x y =>
         match op with
         | BAdd => lift (QM.qadd QE.QcN tbl rs keys x y)
         | BSub => lift (QM.qsub QE.QcN tbl rs keys x y)
         | BMul => Ok (QM.qmul QE.QcN x y)
         | BDiv => lift (QM.qdiv QE.QcN x y)
         | BPow => pow_arith x y
         | BConv => lift (QM.vm_convert QE.QcN tbl rs keys x y)
         | _ => Wrong
         end;
       q_cmp := fun op x y =>
         match cmp_of op with
         | Some c => match QM.vm_cmp QE.QcN tbl rs keys c x y with
                     | QM.Ok b => Ok b
                     | QM.Err _ => Err "IncompatibleUnits"
                     end
         | None => Wrong
         end;
       q_eqb := QM.qeq QE.QcN tbl rs keys;
       q_show := fun _ => EmptyString;
       fmt_spec := fun _ _ => Wrong;
       ffi := fun _ _ => Wrong;
       proc := fun _ _ => Wrong;
       procs := [] |}.

  (* ---- the shared fragment *)
  Inductive aop := AAdd | ASub | AMul | ADiv | AConv.
  Definition bop (o : aop) : binop :=
    match o with AAdd => BAdd | ASub => BSub | AMul => BMul | ADiv => BDiv | AConv => BConv end.

  Inductive qexpr :=
  | QLit (q : qq)
  | QVar (x : string)
  | QNeg (a : qexpr)
  | QBin (o : aop) (a b : qexpr)
  | QPow (a : qexpr) (n : Z).

  Fixpoint T (e : qexpr) : expr qq :=
    match e with
    | QLit q => EScalar q
    | QVar x => EIdent x
    | QNeg a => EUn UNeg (T a)
    | QBin o a b => EBin (bop o) (T a) (T b)
    | QPow a n => EBin BPow (T a) (EScalar (QM.qnew (QM.Qc_of_Z n) []))
    end.

  Inductive qitem := ILet (x : string) (e : qexpr) | IExpr (e : qexpr).
  Definition Titem (i : qitem) : stmt qq :=
    match i with ILet x e => SLet x (T e) | IExpr e => SExpr (T e) end.

  (* every literal has integer unit exponents; names are not the reserved ans / _ *)
  Fixpoint eok (e : qexpr) : bool :=
    match e with
    | QLit q => QE.unit_int (QM.q_unit q)
    | QVar x => negb (is_last_result x)
    | QNeg a => eok a
    | QBin _ a b => eok a && eok b
    | QPow a _ => eok a
    end.
  Definition iok (i : qitem) : bool := match i with ILet _ e | IExpr e => eok e end.

  (* ---- exact dimensional arithmetic: plain rational arithmetic on sizes in base units *)
  Local Open Scope Qc_scope.
  Definition denv := list (string * Qc).

  Fixpoint sem (r : denv) (e : qexpr) : Qc :=
    match e with
    | QLit q => QP.DenQ rs q
    | QVar x => match find_last x r with Some (_, d) => d | None => 0 end
    | QNeg a => - sem r a
    | QBin AAdd a b => sem r a + sem r b
    | QBin ASub a b => sem r a - sem r b
    | QBin AMul a b => sem r a * sem r b
    | QBin ADiv a b => sem r a / sem r b
    | QBin AConv a _ => sem r a
    | QPow a n => QE.qpowz (sem r a) n
    end.

  Fixpoint psem (p : list qitem) (r : denv) (last : option Qc) : denv * option Qc :=
    match p with
    | [] => (r, last)
    | ILet x e :: rest => psem rest (r ++ [(x, sem r e)])%list last
    | IExpr e :: rest => psem rest r (Some (sem r e))
    end.
  Local Close Scope Qc_scope.

  (* ---- the reference semantics of the VM area on qops computes these sizes *)
  Hypothesis Hgood : NV.Qty.Good.good_table tbl.
  Let spos := NV.Qty.Good.good_scale_pos tbl Hgood.

  Definition vden (v : value qq) (d : Qc) : Prop :=
    exists q, v = VQ q /\ QP.DenQ rs q = d /\ QE.unit_int (QM.q_unit q) = true.

  Definition Rel (G : list (string * value qq)) (r : denv) : Prop :=
    Forall2 (fun g x => fst g = fst x /\ vden (snd g) (snd x)) G r.

  Lemma find_last_rel x G r : Rel G r ->
    match find_last x G, find_last x r with
    | Some (_, v), Some (_, d) => vden v d
    | None, None => True
    | _, _ => False
    end.
  Proof.
    induction 1 as [|[y v] [y' d] G' r' [E V] _ IH]; simpl; [exact I|].
    simpl in E. subst y'.
    destruct (find_last x G') as [[i w]|]; destruct (find_last x r') as [[j d']|]; try contradiction; [exact IH|].
    destruct (String.eqb y x); [exact V | exact I].
  Qed.

  Lemma Rel_app G r x v d : Rel G r -> vden v d -> Rel (G ++ [(x, v)]) (r ++ [(x, d)]).
  Proof.
    intros H V. apply Forall2_app; [exact H|]. constructor; [split; [reflexivity | exact V] | constructor].
  Qed.

  Lemma lift_ok r q : lift r = Ok q -> r = QM.Ok q.
  Proof. destruct r as [a|[]]; simpl; intros H; inversion H; reflexivity. Qed.

  Definition Wok (W : @world qq) (r : denv) : Prop :=
    w_fns W = [] /\ w_foreign W = [] /\ Rel (w_globals W) r.

  Lemma eval_S n W vg vn vf L (e : expr qq) lits :
    eval qops lits (S n) W vg vn vf L e =
    match e with
    | EScalar q => Ok (VQ q)
    | EIdent x =>
        match find_last x L with
        | Some (_, v) => Ok v
        | None =>
            match find_last x (firstn vg (w_globals W)) with
            | Some (_, v) => Ok v
            | None =>
                if is_last_result x then
                  match w_last W with Some v => Ok v | None => Wrong end
                else
                  match find_last x (firstn vn (w_fns W)), mem x (firstn vf (w_foreign W)) with
                  | Some (i, _), false => Ok (VFun (FNormal x (S i)))
                  | None, true => Ok (VFun (FForeign x))
                  | _, _ => Wrong
                  end
            end
        end
    | EUn op a => bind (eval qops lits n W vg vn vf L a) (apply_un qops op)
    | EBin op a b => bind (eval qops lits n W vg vn vf L a)
                          (fun va => bind (eval qops lits n W vg vn vf L b) (fun vb => apply_bin qops op va vb))
    | _ => eval qops lits (S n) W vg vn vf L e
    end.
  Proof. destruct e; reflexivity. Qed.

  Lemma bind_ok_inv {A B} (r : res A) (f : A -> res B) b : bind r f = Ok b -> exists a, r = Ok a /\ f a = Ok b.
  Proof. destruct r; simpl; intros H; try discriminate. eauto. Qed.

  (* the expression-level correspondence *)
  Lemma eval_sem lits : forall n W r e v,
    Wok W r -> eok e = true ->
    eval qops lits n W (length (w_globals W)) 0 0 [] (T e) = Ok v -> vden v (sem r e).
  Proof.
    induction n as [|n IH]; intros W r e v HW He H; [discriminate|].
    destruct HW as (Hf & Hfo & HR).
    destruct e as [q|x|a|o a b|a k]; simpl in He; simpl T in H; rewrite eval_S in H.
    - inversion H; subst v. exists q. auto.
    - simpl in H. rewrite firstn_all in H.
      pose proof (find_last_rel x _ _ HR) as F. simpl.
      destruct (find_last x (w_globals W)) as [[i w]|]; destruct (find_last x r) as [[j d]|]; try contradiction.
      + inversion H; subst v. exact F.
      + apply negb_true_iff in He. rewrite He in H. simpl in H. discriminate.
    - apply bind_ok_inv in H. destruct H as (va & Ea & Ha).
      destruct (IH W r a va (conj Hf (conj Hfo HR)) He Ea) as (qa & -> & Da & Ia).
      simpl in Ha. inversion Ha; subst v. exists (QM.qneg QE.QcN qa). split; [reflexivity|]. split.
      + rewrite QP.DenQ_qneg, Da. reflexivity.
      + exact Ia.
    - apply andb_true_iff in He. destruct He as [Hea Heb].
      apply bind_ok_inv in H. destruct H as (va & Ea & H).
      apply bind_ok_inv in H. destruct H as (vb & Eb & H).
      destruct (IH W r a va (conj Hf (conj Hfo HR)) Hea Ea) as (qa & -> & Da & Ia).
      destruct (IH W r b vb (conj Hf (conj Hfo HR)) Heb Eb) as (qb & -> & Db & Ib).
      destruct o; cbn [bop apply_bin] in H; apply bind_ok_inv in H; destruct H as (qr & Hq & Hv);
        cbn [q_arith qops] in Hq; inversion Hv; subst v; exists qr; (split; [reflexivity|]).
      + apply lift_ok in Hq. destruct (QP.qadd_sound tbl rs keys spos qa qb qr Ia Ib Hq) as (E & I & _).
        split; [rewrite E, Da, Db; reflexivity | exact I].
      + apply lift_ok in Hq. destruct (QP.qsub_sound tbl rs keys spos qa qb qr Ia Ib Hq) as (E & I & _).
        split; [rewrite E, Da, Db; reflexivity | exact I].
      + inversion Hq; subst qr. split; [rewrite QP.qmul_sound, Da, Db; reflexivity|].
        simpl. apply QP.unit_int_app. auto.
      + apply lift_ok in Hq. destruct (QP.qdiv_sound rs spos qa qb qr Ia Ib Hq) as (E & _ & I).
        split; [rewrite E, Da, Db; reflexivity | exact I].
      + apply lift_ok in Hq. destruct (QP.vm_convert_sound tbl rs keys spos qa qb qr Ia Ib Hq) as (U & _ & E & _).
        split; [rewrite E; exact Da | rewrite U; exact Ib].
    - apply bind_ok_inv in H. destruct H as (va & Ea & H).
      apply bind_ok_inv in H. destruct H as (vb & Eb & H).
      destruct (IH W r a va (conj Hf (conj Hfo HR)) He Ea) as (qa & -> & Da & Ia).
      destruct n as [|n']; [discriminate|]. rewrite eval_S in Eb. inversion Eb; subst vb.
      cbn [apply_bin] in H. apply bind_ok_inv in H. destruct H as (qr & Hq & Hv). inversion Hv; subst v.
      cbn [q_arith qops] in Hq. unfold pow_arith in Hq.
      rewrite (QA.convert_same QE.QcN tbl rs keys (QM.qnew (QM.Qc_of_Z k) []) []) in Hq
        by (apply QA.unit_eq_refl).
      change (QM.q_val (QM.qnew (QM.q_val (QM.qnew (QM.Qc_of_Z k) [])) [])) with (QM.Qc_of_Z k) in Hq.
      rewrite QN.Qc_is_int_of_Z in Hq. apply lift_ok in Hq.
      change (Qnum (this (QM.Qc_of_Z k))) with (Qnum (QM.Qc_of_Z k)) in Hq. rewrite QN.Qnum_of_Z in Hq.
      destruct (QP.qpow_sound rs qa k qr Ia Hq) as (E & I).
      exists qr. split; [reflexivity|]. split; [rewrite E, Da; reflexivity | exact I].
  Qed.

  (* ---- programs *)
  Definition Inv (st : @rstate qq) (r : denv) (last : option Qc) : Prop :=
    Wok (r_world st) r /\ r_out st = [] /\
    match r_res st, last with
    | Some v, Some d => vden v d
    | None, None => True
    | _, _ => False
    end.

  Lemma exec_items lits n : forall p st r last st',
    Inv st r last -> forallb iok p = true ->
    exec_stmts qops lits n (map Titem p) st = Ok st' ->
    Inv st' (fst (psem p r last)) (snd (psem p r last)).
  Proof.
    induction p as [|i p IH]; intros st r last st' HI Hp H; simpl in *.
    - inversion H; subst st'. exact HI.
    - apply andb_true_iff in Hp. destruct Hp as [Hi Hp].
      apply bind_ok_inv in H. destruct H as (st1 & E1 & H).
      destruct HI as ((Hf & Hfo & HR) & Ho & Hl).
      destruct i as [x e|e]; simpl in E1; unfold top_eval in E1;
        apply bind_ok_inv in E1; destruct E1 as (v & Ev & E1); inversion E1; subst st1; clear E1;
        rewrite Hf, Hfo in Ev; simpl in Ev;
        pose proof (eval_sem lits n (r_world st) r e v (conj Hf (conj Hfo HR)) Hi Ev) as V.
      + refine (IH _ (r ++ [(x, sem r e)]) last st' _ Hp H).
        split; [|split; [exact Ho | exact Hl]]. simpl. split; [exact Hf|]. split; [exact Hfo|].
        apply Rel_app; assumption.
      + refine (IH _ r (Some (sem r e)) st' _ Hp H).
        split; [|split; [exact Ho | exact V]]. unfold Wok. simpl. repeat split; assumption.
  Qed.

  Lemma Inv_init : Inv (rinit (Q := qq)) [] None.
  Proof. repeat split; constructor. Qed.

  (* the result of the reference semantics *)
  Definition result_den (v : option (value qq)) (d : option Qc) : Prop :=
    match v, d with
    | Some w, Some x => vden w x
    | None, None => True
    | _, _ => False
    end.

  Theorem ref_sem_exact lits n p out v :
    forallb iok p = true ->
    RefSem.run qops lits n (map Titem p) = Ok (out, v) ->
    out = [] /\ result_den v (snd (psem p [] None)).
  Proof.
    intros Hp H. unfold RefSem.run in H. apply bind_ok_inv in H. destruct H as (st & E & H).
    inversion H; subst out v.
    destruct (exec_items lits n p rinit [] None st Inv_init Hp E) as (_ & Ho & Hl).
    split; [exact Ho | exact Hl].
  Qed.

  (* composed with the compiler-correctness theorem of the vm area *)
  Theorem machine_exact n p out v :
    forallb iok p = true ->
    compile_ok (compile (procs qops) (map Titem p)) = true ->
    run_ref qops n (map Titem p) = Ok (out, v) ->
    exists m, Machine.run qops (compile (procs qops) (map Titem p)) m = Ok (out, v)
              /\ out = [] /\ result_den v (snd (psem p [] None)).
  Proof.
    intros Hp Hc H. destruct (compile_correct qops (map Titem p) n out v Hc H) as (m & Hm).
    exists m. split; [exact Hm|]. exact (ref_sem_exact (true, true) n p out v Hp H).
  Qed.
End Inst.
