(* C09 — when is the checked reference semantics the plain static one?
   If every function value that can arise is "good" (its name still denotes the function
   it was created for), the stale check never fires: [eval stale] = [eval (fun _ _ => false)].
   Program level: a program that defines no function name twice has only good values. *)
From Coq Require Import String List Bool Arith Lia.
From NV Require Import VM.Value VM.Ast VM.RefSem.
Import ListNotations.
Open Scope list_scope.

Definition all_list {A} (P : A -> Prop) : list A -> Prop :=
  fix all (l : list A) : Prop := match l with [] => True | x :: r => P x /\ all r end.

Lemma all_list_Forall {A} (P : A -> Prop) : forall l, all_list P l <-> Forall P l.
Proof.
  induction l as [|a l IH]; simpl; split; intro H.
  - constructor.
  - exact I.
  - destruct H as [H1 H2]. constructor; [exact H1 | apply IH; exact H2].
  - inversion H; subst. split; [assumption | apply IH; assumption].
Qed.

Section SB.
Context {Q : Type}.
Variable O : ops Q.
Variable stale : string -> nat -> bool.
Variable lits : bool * bool.

Fixpoint good (v : value Q) : Prop :=
  match v with
  | VFun (FNormal name idx) => stale name idx = false
  | VStruct _ _ vals => all_list good vals
  | VList l => all_list good l
  | _ => True
  end.

(* foreign functions do not invent function values *)
Hypothesis ffi_good : forall name args v, Forall good args -> ffi O name args = Ok v -> good v.

Definition goodL (L : list (string * value Q)) : Prop := Forall (fun p => good (snd p)) L.

Definition good_world (W : @world Q) : Prop :=
  goodL (w_globals W) /\
  match w_last W with Some v => good v | None => True end /\
  (forall x vn i fd, find_last x (firstn vn (w_fns W)) = Some (i, fd) -> stale x (S i) = false).

Lemma bind_ok' {A B} : forall (r : res A) (f : A -> res B) v,
  bind r f = Ok v -> exists a, r = Ok a /\ f a = Ok v.
Proof. intros r f v H. destruct r; simpl in H; try discriminate. eauto. Qed.

Lemma bind_congr {A B} : forall (r1 r0 : res A) (f1 f0 : A -> res B),
  r1 = r0 -> (forall a, r1 = Ok a -> f1 a = f0 a) -> bind r1 f1 = bind r0 f0.
Proof. intros. subst. destruct r0; simpl; auto. Qed.

Lemma find_last_In {A} : forall x (l : list (string * A)) i a, find_last x l = Some (i, a) -> In (x, a) l.
Proof.
  induction l as [|[y b] l IH]; simpl; intros i a H; [discriminate|].
  destruct (find_last x l) as [[j c]|] eqn:E.
  - inversion H; subst. right. eapply IH. reflexivity.
  - destruct (String.eqb y x) eqn:Ey; [|discriminate]. inversion H; subst.
    apply String.eqb_eq in Ey. subst. left. reflexivity.
Qed.

Lemma firstn_incl {A} : forall n (l : list A) x, In x (firstn n l) -> In x l.
Proof.
  induction n; intros l x H; [contradiction|]. destruct l; [contradiction|].
  simpl in H. destruct H; [left; assumption | right; apply IHn; assumption].
Qed.

Lemma goodL_lookup : forall L x i v, goodL L -> find_last x L = Some (i, v) -> good v.
Proof.
  intros L x i v HL H. apply find_last_In in H. unfold goodL in HL. rewrite Forall_forall in HL.
  apply (HL (x, v)). exact H.
Qed.

Lemma apply_un_good : forall op v w, apply_un O op v = Ok w -> good w.
Proof.
  intros op v w H. destruct op; destruct v; simpl in H; try discriminate.
  - inversion H. exact I.
  - inversion H. exact I.
  - apply bind_ok' in H. destruct H as (q' & _ & H). inversion H. exact I.
Qed.

Lemma apply_bin_good : forall op a b w, apply_bin O op a b = Ok w -> good w.
Proof.
  intros op a b w H. destruct op; simpl in H;
    try (destruct a; try discriminate; destruct b; try discriminate;
         try (apply bind_ok' in H; destruct H as (q' & _ & H)); inversion H; exact I);
    try (inversion H; exact I).
Qed.

Lemma evals_congr {A B} : forall (f g : A -> res B) l,
  (forall a, In a l -> f a = g a) -> evals f l = evals g l.
Proof.
  induction l as [|a l IH]; simpl; intro H; [reflexivity|].
  rewrite (H a (or_introl eq_refl)). rewrite IH; [reflexivity|]. intros. apply H. right. assumption.
Qed.

Lemma evals_good {A} : forall (f : A -> res (value Q)) l vs,
  (forall a v, In a l -> f a = Ok v -> good v) -> evals f l = Ok vs -> Forall good vs.
Proof.
  induction l as [|a l IH]; simpl; intros vs Hg H.
  - inversion H. constructor.
  - apply bind_ok' in H. destruct H as (v & Hv & H). apply bind_ok' in H. destruct H as (vs' & Hvs & E).
    inversion E. constructor; [eapply Hg; [left; reflexivity | exact Hv]|].
    apply IH; [|exact Hvs]. intros. eapply Hg; [right|]; eassumption.
Qed.

Lemma goodL_combine : forall params vs, Forall good vs -> goodL (combine params vs).
Proof.
  induction params; intros vs H; simpl; [constructor|]. destruct vs; [constructor|].
  inversion H; subst. constructor; [assumption | apply IHparams; assumption].
Qed.

Lemma assoc_In' {A} : forall x (l : list (string * A)) a, assoc x l = Some a -> In (x, a) l.
Proof.
  induction l as [|[y b] l IH]; simpl; intros a H; [discriminate|].
  destruct (String.eqb y x) eqn:E.
  - inversion H; subst. apply String.eqb_eq in E. subst. left. reflexivity.
  - right. apply IH. exact H.
Qed.

Lemma collect_good : forall names (fvs : list (string * value Q)) vals,
  goodL fvs -> collect names fvs = Some vals -> Forall good vals.
Proof.
  induction names as [|f names IH]; simpl; intros fvs vals Hg H.
  - inversion H. constructor.
  - destruct (assoc f fvs) as [v|] eqn:Ea; [|discriminate].
    destruct (collect names fvs) as [vs|] eqn:Ec; [|discriminate]. inversion H; subst.
    constructor; [|eapply IH; eassumption].
    apply assoc_In' in Ea. unfold goodL in Hg. rewrite Forall_forall in Hg. apply (Hg (f, v)). exact Ea.
Qed.

Lemma In_combine_r {A B} : forall (a : list A) (b : list B) x y, In (x, y) (combine a b) -> In y b.
Proof.
  induction a; destruct b; simpl; intros x y H; try contradiction.
  destruct H as [H|H]; [inversion H; left; reflexivity | right; eapply IHa; exact H].
Qed.

Definition same (n : nat) : Prop :=
  forall W vg vn vf L e, good_world W -> goodL L ->
    eval O stale lits n W vg vn vf L e = eval O (fun _ _ => false) lits n W vg vn vf L e /\
    (forall v, eval O stale lits n W vg vn vf L e = Ok v -> good v).

Lemma bind_locals_same : forall n, same n -> forall W vg vn vf wl L,
  good_world W -> goodL L ->
  bind_locals (fun L' e' => eval O stale lits n W vg vn vf L' e') L wl
  = bind_locals (fun L' e' => eval O (fun _ _ => false) lits n W vg vn vf L' e') L wl /\
  (forall L', bind_locals (fun L' e' => eval O stale lits n W vg vn vf L' e') L wl = Ok L' -> goodL L').
Proof.
  intros n IH W vg vn vf. induction wl as [|[x e] wl IHwl]; intros L HW HL; simpl.
  - split; [reflexivity|]. intros L' H. inversion H; subst. exact HL.
  - destruct (IH W vg vn vf L e HW HL) as [E G]. rewrite <- E.
    destruct (eval O stale lits n W vg vn vf L e) eqn:Ev; simpl; try (split; [reflexivity | intros; discriminate]).
    assert (HL' : goodL (L ++ [(x, a)])).
    { unfold goodL. apply Forall_app. split; [exact HL | constructor; [apply G; reflexivity | constructor]]. }
    exact (IHwl _ HW HL').
Qed.


Lemma call_same : forall n, same n -> forall W idx (fd : @fdef Q) vs,
  good_world W -> Forall good vs ->
  (if Nat.eqb (length (fd_params fd)) (length vs) then
     bind (bind_locals (fun L' e' => eval O stale lits n W (fd_nglob fd) idx (fd_nforeign fd) L' e')
                       (combine (fd_params fd) vs) (fd_locals fd))
          (fun L' => eval O stale lits n W (fd_nglob fd) idx (fd_nforeign fd) L' (fd_body fd))
   else Wrong)
  = (if Nat.eqb (length (fd_params fd)) (length vs) then
       bind (bind_locals (fun L' e' => eval O (fun _ _ => false) lits n W (fd_nglob fd) idx (fd_nforeign fd) L' e')
                         (combine (fd_params fd) vs) (fd_locals fd))
            (fun L' => eval O (fun _ _ => false) lits n W (fd_nglob fd) idx (fd_nforeign fd) L' (fd_body fd))
     else Wrong)
  /\
  (forall v,
     (if Nat.eqb (length (fd_params fd)) (length vs) then
        bind (bind_locals (fun L' e' => eval O stale lits n W (fd_nglob fd) idx (fd_nforeign fd) L' e')
                          (combine (fd_params fd) vs) (fd_locals fd))
             (fun L' => eval O stale lits n W (fd_nglob fd) idx (fd_nforeign fd) L' (fd_body fd))
      else Wrong) = Ok v -> good v).
Proof.
  intros n IH W idx fd vs HW Hvs.
  destruct (Nat.eqb (length (fd_params fd)) (length vs)); [|split; [reflexivity | intros; discriminate]].
  destruct (bind_locals_same n IH W (fd_nglob fd) idx (fd_nforeign fd) (fd_locals fd)
              (combine (fd_params fd) vs) HW (goodL_combine _ _ Hvs)) as [E G].
  rewrite <- E.
  destruct (bind_locals (fun L' e' => eval O stale lits n W (fd_nglob fd) idx (fd_nforeign fd) L' e')
              (combine (fd_params fd) vs) (fd_locals fd)) as [L'| | | |] eqn:EL; simpl;
    try (split; [reflexivity | intros; discriminate]).
  exact (IH W (fd_nglob fd) idx (fd_nforeign fd) L' (fd_body fd) HW (G L' eq_refl)).
Qed.

Lemma good_VList : forall l, good (VList l) <-> Forall good l.
Proof. intro l. simpl. apply all_list_Forall. Qed.

Lemma good_VStruct : forall n fs l, good (VStruct n fs l) <-> Forall good l.
Proof. intros. simpl. apply all_list_Forall. Qed.

Theorem eval_same : forall n, same n.
Proof.
  induction n as [|n IH]; intros W vg vn vf L e HW HL.
  - simpl. split; [reflexivity | intros; discriminate].
  - assert (Sub : forall a, eval O stale lits n W vg vn vf L a = eval O (fun _ _ => false) lits n W vg vn vf L a)
      by (intro a; apply (IH W vg vn vf L a HW HL)).
    assert (SubG : forall a v, eval O stale lits n W vg vn vf L a = Ok v -> good v)
      by (intros a v; apply (IH W vg vn vf L a HW HL)).
    assert (Args : forall es, evals (eval O stale lits n W vg vn vf L) es
                              = evals (eval O (fun _ _ => false) lits n W vg vn vf L) es)
      by (intro es; apply evals_congr; intros; apply Sub).
    assert (ArgsG : forall es vs, evals (eval O stale lits n W vg vn vf L) es = Ok vs -> Forall good vs)
      by (intros es vs; apply evals_good; intros; eapply SubG; eassumption).
    destruct e; simpl.
    + split; [reflexivity | intros v H; inversion H; exact I].
    + split; [reflexivity | intros v H; inversion H; exact I].
    + destruct (negb (fst lits)); [split; [reflexivity | intros; discriminate]|].
      split.
      * f_equal. apply evals_congr. intros p _. destruct p as [s0|[a [spec|]]]; try reflexivity; rewrite Sub; reflexivity.
      * intros v H. apply bind_ok' in H. destruct H as (strs & _ & H). inversion H. exact I.
    + split; [reflexivity|]. intros v H.
      destruct (find_last x L) as [[i w]|] eqn:E1.
      { inversion H; subst. eapply goodL_lookup; eassumption. }
      destruct (find_last x (firstn vg (w_globals W))) as [[i w]|] eqn:E2.
      { inversion H; subst. apply find_last_In in E2. apply firstn_incl in E2.
        destruct HW as [HG _]. unfold goodL in HG. rewrite Forall_forall in HG. apply (HG (x, v)). exact E2. }
      destruct (is_last_result x).
      { destruct HW as (_ & HLa & _). destruct (w_last W); [|discriminate]. inversion H; subst. exact HLa. }
      destruct (find_last x (firstn vn (w_fns W))) as [[i fd]|] eqn:E3;
        destruct (mem x (firstn vf (w_foreign W))); try discriminate.
      { inversion H; subst. simpl. destruct HW as (_ & _ & HN). eapply HN. exact E3. }
      { inversion H; subst. exact I. }
    + rewrite <- Sub. split; [reflexivity|]. intros v H. apply bind_ok' in H. destruct H as (va & _ & H).
      eapply apply_un_good. exact H.
    + rewrite <- !Sub. split; [reflexivity|]. intros v H.
      apply bind_ok' in H. destruct H as (va & _ & H). apply bind_ok' in H. destruct H as (vb & _ & H).
      eapply apply_bin_good. exact H.
    + (* ECall *)
      rewrite <- Args.
      destruct (evals (eval O stale lits n W vg vn vf L) args) as [vs| | | |] eqn:Ev; simpl;
        try (split; [reflexivity | intros; discriminate]).
      pose proof (ArgsG _ _ Ev) as Gvs.
      destruct (mem f (procs O ++ firstn vf (w_foreign W))); destruct (find_last f (firstn vn (w_fns W))) as [[i fd]|];
        try (split; [reflexivity | intros; discriminate]).
      * split; [reflexivity | intros v H; eapply ffi_good; eassumption].
      * exact (call_same n IH W (S i) fd vs HW Gvs).
    + (* ECallable *)
      rewrite <- Args.
      destruct (evals (eval O stale lits n W vg vn vf L) args) as [vs| | | |] eqn:Ev; simpl;
        try (split; [reflexivity | intros; discriminate]).
      pose proof (ArgsG _ _ Ev) as Gvs.
      rewrite <- Sub.
      destruct (eval O stale lits n W vg vn vf L e) as [c| | | |] eqn:Ec; simpl;
        try (split; [reflexivity | intros; discriminate]).
      pose proof (SubG _ _ Ec) as Gc.
      destruct c; try (split; [reflexivity | intros; discriminate]).
      destruct f as [name [|i]|name]; try (split; [reflexivity | intros; discriminate]).
      * simpl in Gc. rewrite Gc.
        destruct (nth_error (w_fns W) i) as [[name' fd]|]; [|split; [reflexivity | intros; discriminate]].
        exact (call_same n IH W (S i) fd vs HW Gvs).
      * destruct (mem name (procs O ++ w_foreign W)); [|split; [reflexivity | intros; discriminate]].
        split; [reflexivity | intros v H; eapply ffi_good; eassumption].
    + (* ECond *)
      rewrite <- Sub.
      destruct (eval O stale lits n W vg vn vf L e1) as [vc| | | |]; simpl;
        try (split; [reflexivity | intros; discriminate]).
      destruct vc; try (split; [reflexivity | intros; discriminate]).
      destruct b; [exact (conj (Sub e2) (SubG e2)) | exact (conj (Sub e3) (SubG e3))].
    + (* EStruct *)
      destruct (negb (snd lits)); [split; [reflexivity | intros; discriminate]|].
      destruct (assoc sname (w_structs W)); [|split; [reflexivity | intros; discriminate]].
      destruct (list_eqb String.eqb l sfields && nodupb sfields && Nat.eqb (length fields) (length sfields))%bool;
        [|split; [reflexivity | intros; discriminate]].
      assert (EF : evals (fun nf : string * expr Q => bind (eval O stale lits n W vg vn vf L (snd nf)) (fun v => Ok (fst nf, v))) fields
                   = evals (fun nf : string * expr Q => bind (eval O (fun _ _ => false) lits n W vg vn vf L (snd nf)) (fun v => Ok (fst nf, v))) fields).
      { apply evals_congr. intros nf _. rewrite Sub. reflexivity. }
      rewrite <- EF. split; [reflexivity|].
      intros v H. apply bind_ok' in H. destruct H as (fvs & Hf & H).
      destruct (collect sfields fvs) as [vals|] eqn:Ec; [|discriminate]. inversion H; subst.
      apply good_VStruct. eapply collect_good; [|exact Ec].
      clear - Hf SubG. revert fvs Hf. induction fields as [|[x0 e0] fields IHf]; simpl; intros fvs Hf.
      * inversion Hf. constructor.
      * apply bind_ok' in Hf. destruct Hf as (p & Hp & Hf). apply bind_ok' in Hf. destruct Hf as (r & Hr & E).
        apply bind_ok' in Hp. destruct Hp as (v0 & Hv0 & Hp). inversion Hp; subst p. inversion E; subst fvs.
        constructor; [simpl; eapply SubG; exact Hv0 | apply IHf; exact Hr].
    + (* EField *)
      rewrite <- Sub. split; [reflexivity|]. intros v H.
      apply bind_ok' in H. destruct H as (va & Ha & H). pose proof (SubG _ _ Ha) as Ga.
      destruct va; try discriminate.
      destruct (list_eqb String.eqb fields sfields && Nat.eqb (length fields) (length vals))%bool; [|discriminate].
      destruct (assoc fname (combine fields vals)) as [w|] eqn:Ew; [|discriminate]. inversion H; subst.
      apply good_VStruct in Ga. rewrite Forall_forall in Ga. apply Ga.
      apply assoc_In' in Ew. eapply In_combine_r. exact Ew.
    + (* EList *)
      rewrite <- Args. split; [reflexivity|]. intros v H.
      apply bind_ok' in H. destruct H as (vs & Hvs & H). inversion H; subst.
      apply good_VList. eapply ArgsG. exact Hvs.
Qed.

End SB.

(* ------------------------------------------------------------------ *)
(* programs that never define a function name twice *)
Definition fnames {Q} (p : program Q) : list string :=
  flat_map (fun s => match s with SFn f _ _ _ => [f] | _ => [] end) p.

Lemma fn_names_fnames {Q} : forall (p : program Q), fn_names p = "<main>"%string :: fnames p.
Proof. reflexivity. Qed.

Lemma find_last_Some_In {A} : forall x (l : list (string * A)) r, find_last x l = Some r -> In x (map fst l).
Proof.
  induction l as [|[y b] l IH]; simpl; intros r H; [discriminate|].
  destruct (find_last x l) as [[j c]|] eqn:E; [right; eapply IH; reflexivity|].
  destruct (String.eqb y x) eqn:Ey; [|discriminate]. left. apply String.eqb_eq. exact Ey.
Qed.

Lemma find_last_nth {A} : forall x (l : list (string * A)) i a,
  find_last x l = Some (i, a) -> nth_error (map fst l) i = Some x.
Proof.
  induction l as [|[y b] l IH]; simpl; intros i a H; [discriminate|].
  destruct (find_last x l) as [[j c]|] eqn:E.
  - inversion H; subst. simpl. eapply IH. reflexivity.
  - destruct (String.eqb y x) eqn:Ey; [|discriminate]. inversion H; subst. simpl.
    apply String.eqb_eq in Ey. subst. reflexivity.
Qed.

Lemma find_last_nodup {A} : forall (l : list (string * A)) i x,
  NoDup (map fst l) -> nth_error (map fst l) i = Some x -> exists a, find_last x l = Some (i, a).
Proof.
  induction l as [|[y b] l IH]; intros i x Hnd Hn; [destruct i; discriminate|].
  simpl in Hnd. apply NoDup_cons_iff in Hnd. destruct Hnd as [Hni Hnd].
  destruct i as [|j]; simpl in Hn |- *.
  - inversion Hn; subst.
    destruct (find_last x l) as [r|] eqn:E; [exfalso; apply Hni; eapply find_last_Some_In; exact E|].
    rewrite String.eqb_refl. eauto.
  - destruct (IH j x Hnd Hn) as [a Ha]. rewrite Ha. eauto.
Qed.

Lemma nth_error_firstn_le {A} : forall n (l : list A) i a, nth_error (firstn n l) i = Some a -> nth_error l i = Some a.
Proof.
  induction n; intros l i a H; [destruct i; discriminate|].
  destruct l; [destruct i; discriminate|]. destruct i; simpl in *; [assumption | apply IHn; assumption].
Qed.

Lemma names_ok_prefix {Q} : forall (p : program Q) (fns : list (string * @fdef Q)) rest,
  NoDup (fn_names p) -> fnames p = map fst fns ++ rest ->
  forall x vn i fd, find_last x (firstn vn fns) = Some (i, fd) -> stale_in p x (S i) = false.
Proof.
  intros p fns rest Hnd Hpre x vn i fd H.
  apply find_last_nth in H. rewrite <- firstn_map in H. apply nth_error_firstn_le in H.
  assert (E0 : forall names, map fst (map (fun n : string => (n, tt)) names) = names).
  { induction names; simpl; [reflexivity | f_equal; assumption]. }
  assert (Hn : nth_error (map fst (map (fun n : string => (n, tt)) (fn_names p))) (S i) = Some x).
  { rewrite E0, fn_names_fnames. simpl. rewrite Hpre.
    rewrite nth_error_app1; [exact H|]. apply nth_error_Some. congruence. }
  assert (Hnd' : NoDup (map fst (map (fun n : string => (n, tt)) (fn_names p)))).
  { rewrite E0. exact Hnd. }
  destruct (find_last_nodup _ _ _ Hnd' Hn) as [u Hu].
  unfold stale_in, final_idx. rewrite Hu. rewrite Nat.eqb_refl. reflexivity.
Qed.

Section ProgSame.
Context {Q : Type}.
Variable O : ops Q.
Variable lits : bool * bool.
(* foreign functions do not invent function values *)
Hypothesis ffi_parametric : forall (P : string -> nat -> bool) name args v,
  Forall (good P) args -> ffi O name args = Ok v -> good P v.
Variable p : program Q.
Hypothesis Hnd : NoDup (fn_names p).

Notation st := (stale_in p).
Notation nost := (fun (_ : string) (_ : nat) => false).

Definition gworld (W : @world Q) : Prop :=
  goodL st (w_globals W) /\ match w_last W with Some v => good st v | None => True end.

Lemma gworld_good : forall W rest, gworld W -> fnames p = map fst (w_fns W) ++ rest -> good_world st W.
Proof.
  intros W rest [HG HL] Hpre. refine (conj HG (conj HL _)).
  eapply names_ok_prefix; eassumption.
Qed.

Lemma exec_stmt_same : forall n s rst rest,
  gworld (r_world rst) -> fnames p = map fst (w_fns (r_world rst)) ++ rest ->
  exec_stmt O st lits n s rst = exec_stmt O nost lits n s rst /\
  (forall rst', exec_stmt O st lits n s rst = Ok rst' -> gworld (r_world rst')).
Proof.
  intros n s rst rest HG Hpre.
  pose proof (gworld_good _ _ HG Hpre) as HW.
  assert (Top : forall e, top_eval O st lits n (r_world rst) e = top_eval O nost lits n (r_world rst) e /\
                          (forall v, top_eval O st lits n (r_world rst) e = Ok v -> good st v)).
  { intro e. unfold top_eval. apply (eval_same O st lits (ffi_parametric st) n); [exact HW | constructor]. }
  destruct HG as [HGl HLa].
  destruct s; simpl.
  - destruct (Top e) as [E G]. rewrite <- E.
    destruct (top_eval O st lits n (r_world rst) e) eqn:Ev; simpl; try (split; [reflexivity | intros; discriminate]).
    split; [reflexivity|]. intros rst' H. inversion H; subst. simpl. split; [exact HGl | apply G; reflexivity].
  - destruct (Top e) as [E G]. rewrite <- E.
    destruct (top_eval O st lits n (r_world rst) e) eqn:Ev; simpl; try (split; [reflexivity | intros; discriminate]).
    split; [reflexivity|]. intros rst' H. inversion H; subst. simpl. split; [|exact HLa].
    apply Forall_app. split; [exact HGl | constructor; [apply G; reflexivity | constructor]].
  - split; [reflexivity|]. intros rst' H. inversion H; subst. simpl. split; assumption.
  - split; [reflexivity|]. intros rst' H. inversion H; subst. simpl. split; assumption.
  - split; [reflexivity|]. intros rst' H. inversion H; subst. simpl. split; assumption.
  - assert (EA : evals (top_eval O st lits n (r_world rst)) args = evals (top_eval O nost lits n (r_world rst)) args).
    { apply evals_congr. intros a _. apply Top. }
    rewrite <- EA. split; [reflexivity|].
    intros rst' H. apply bind_ok' in H. destruct H as (vs & _ & H). apply bind_ok' in H. destruct H as (lines & _ & H).
    inversion H; subst. simpl. split; assumption.
Qed.

Lemma exec_stmts_same : forall n q rst,
  gworld (r_world rst) -> fnames p = map fst (w_fns (r_world rst)) ++ fnames q ->
  exec_stmts O st lits n q rst = exec_stmts O nost lits n q rst.
Proof.
  induction q as [|s q IH]; intros rst HG Hpre; simpl; [reflexivity|].
  destruct (exec_stmt_same n s rst (fnames (s :: q)) HG Hpre) as [E G].
  rewrite <- E.
  destruct (exec_stmt O st lits n s rst) as [rst1| | | |] eqn:Es; simpl; try reflexivity.
  apply IH; [apply G; reflexivity|].
  (* the function names defined so far are still a prefix *)
  destruct s; simpl in Es; try (apply bind_ok' in Es; destruct Es as (v & _ & Es));
    try (apply bind_ok' in Es; destruct Es as (l0 & _ & Es)); inversion Es; subst; simpl in *; try exact Hpre.
  rewrite map_app. simpl. rewrite <- app_assoc. exact Hpre.
Qed.

Theorem run_same : forall n, RefSem.run O st lits n p = RefSem.run O nost lits n p.
Proof.
  intro n. unfold RefSem.run. rewrite exec_stmts_same; [reflexivity | split; [constructor | exact I] | reflexivity].
Qed.

End ProgSame.
