(* C01 x C09 — composition of the dimension checker model (area dim: Dim/*.v, Props/C01.v)
   with the compiler / machine model (this area).

   Dim/RunProgProofs.v proves C01_program_sound_partial about [rt_prog], a direct reading of
   what the run time does to the DIMENSIONS of the units of its operands, with "a name
   resolves to its latest binding" built into rt_prog as an assumption about the compiler.
   Here the parameters [ops] of the VM development are instantiated with exactly that
   dimension-level arithmetic ([dops]: a quantity is its dimension plus, where the
   expression is a constant, its exact value — needed for exponents), the programs of the
   shared fragment are translated to the VM source language ([Tprog]), and the assumption
   is discharged: the MODEL MACHINE running the MODEL-COMPILED program ends with, in every
   global's stack slot, a quantity of the dimension the type-checker model inferred.

   Shared fragment (what both models cover): a finite initial environment of monomorphic
   names with closed dimension types (units and constants, modelled on the VM side as
   pre-bound globals), followed by `let x = e` (no annotation) and expression statements,
   e built from non-zero numeric literals, names, unary minus, + - -> * / and ^ (with a
   constant exponent unless the base is dimensionless).  No functions, conditionals,
   generics, structs, strings or lists. *)
From Coq Require Import String List ZArith QArith Qcanon Bool Arith Lia.
From NV Require Dim.Model Dim.Infer Dim.Run Dim.RunTreeProofs Dim.RunProgProofs.
From NV Require Import VM.Value VM.Ast VM.Bytecode VM.Compile VM.Machine VM.RefSem VM.SortLemmas VM.Proofs.
Import ListNotations.
Open Scope list_scope.
Open Scope nat_scope.

Module DM := NV.Dim.Model.
Module DI := NV.Dim.Infer.
Module DR := NV.Dim.Run.
Module DT := NV.Dim.RunTreeProofs.
Module DP := NV.Dim.RunProgProofs.

(* a run-time quantity at the level of dimensions: the dimension of its unit and, for
   constant expressions, the exact value (the VM computes exponents from values) *)
Definition dq : Type := (DM.dtype * option Qc)%type.

Definition ub (o : binop) : DI.binop :=
  match o with
  | BAdd => DI.OAdd | BSub => DI.OSub | BMul => DI.OMul | BDiv => DI.ODiv | BPow => DI.OPow
  | BConv => DI.OConv | BLt => DI.OLt | BGt => DI.OGt | BLe => DI.OLe | BGe => DI.OGe
  | BEq => DI.OEq | BNe => DI.ONe | BAnd => DI.OAnd | BOr => DI.OOr
  end.
Definition tb (o : DI.binop) : binop :=
  match o with
  | DI.OAdd => BAdd | DI.OSub => BSub | DI.OMul => BMul | DI.ODiv => BDiv | DI.OPow => BPow
  | DI.OConv => BConv | DI.OLt => BLt | DI.OGt => BGt | DI.OLe => BLe | DI.OGe => BGe
  | DI.OEq => BEq | DI.ONe => BNe | DI.OAnd => BAnd | DI.OOr => BOr
  end.
Lemma ub_tb : forall o, ub (tb o) = o.
Proof. destruct o; reflexivity. Qed.

(* const_eval of Dim/Infer.v on values *)
Definition cbin (o : DI.binop) (c1 c2 : option Qc) : option Qc :=
  match c1, c2 with
  | Some x, Some y =>
      match o with
      | DI.OAdd => Some (x + y)%Qc
      | DI.OSub => Some (x - y)%Qc
      | DI.OMul => Some (x * y)%Qc
      | DI.ODiv => if DM.qc_eqb y DM.Qc0 then None else Some (x / y)%Qc
      | DI.OPow => if DM.qc_is_int y then
                     match Qnum (this y) with
                     | Zneg _ => None
                     | z => Some (Qcpower x (Z.to_nat z))
                     end
                   else None
      | _ => None
      end
  | _, _ => None
  end.

(* the exponent the VM computes: the exact value of a constant expression *)
Definition rexp0 (e : DI.expr) : option Qc :=
  match DI.const_eval e with DM.Ok q => Some q | DM.Err _ => None end.

Lemma rexp0_agree : DT.exp_agree_all rexp0.
Proof. intros b q H. unfold rexp0. rewrite H. reflexivity. Qed.

Lemma rexp0_bin : forall o a b q, rexp0 (DI.EBin o a b) = Some q ->
  exists x y, rexp0 a = Some x /\ rexp0 b = Some y /\ cbin o (Some x) (Some y) = Some q.
Proof.
  intros o a b q H. unfold rexp0 in *. simpl in H.
  destruct (DI.const_eval a) as [x|]; simpl in H; [|discriminate].
  destruct (DI.const_eval b) as [y|]; simpl in H; [|discriminate].
  exists x, y. split; [reflexivity|]. split; [reflexivity|].
  simpl. destruct o; simpl in *;
    try (inversion H; reflexivity); try discriminate.
  - destruct (DM.qc_eqb y DM.Qc0); [discriminate | inversion H; reflexivity].
  - destruct (DM.qc_is_int y); [|discriminate].
    destruct (Qnum (this y)); try discriminate; inversion H; reflexivity.
Qed.

Lemma rexp0_neg : forall a q, rexp0 (DI.EUn DI.UNeg a) = Some q ->
  exists x, rexp0 a = Some x /\ q = (- x)%Qc.
Proof.
  intros a q H. unfold rexp0 in *. simpl in H.
  destruct (DI.const_eval a) as [x|]; simpl in H; [|discriminate].
  inversion H. eauto.
Qed.

(* the instance of the primitive operations: vm.rs Add/Subtract/ConvertTo/Multiply/Divide/
   Power on the dimensions of the operand units, as Dim/Run.v rt_binop reads them *)
Definition dops : ops dq :=
  {| q_unit := fun _ => (DM.dscalar, None);
     q_neg := fun x => (fst x, option_map Qcopp (snd x));
     q_fact := fun _ _ => Wrong;
     q_arith := fun op x y =>
       match DR.rt_binop (ub op) (fst x) (fst y) (snd y) with
       | DR.RDim d => Ok (d, cbin (ub op) (snd x) (snd y))
       | DR.RIncompatible => Err "IncompatibleUnits"
       | _ => Wrong
       end;
     q_cmp := fun _ _ _ => Wrong;
     q_eqb := fun _ _ => false;
     q_show := fun _ => EmptyString;
     fmt_spec := fun _ _ => Wrong;
     ffi := fun _ _ => Wrong;
     proc := fun _ _ => Wrong;
     procs := [] |}.

(* translation of the shared fragment *)
Fixpoint T (e : DI.expr) : expr dq :=
  match e with
  | DI.EScalar q => EScalar (DM.dscalar, Some q)
  | DI.EIdent x => EIdent x
  | DI.EUnit x => EIdent x
  | DI.EUn DI.UNeg a => EUn UNeg (T a)
  | DI.EBin o a b => EBin (tb o) (T a) (T b)
  | _ => EBool false
  end.

Fixpoint edepth (e : DI.expr) : nat :=
  match e with
  | DI.EUn _ a => S (edepth a)
  | DI.EBin _ a b => S (Nat.max (edepth a) (edepth b))
  | _ => 0
  end.

Definition Titem (i : DP.item) : stmt dq :=
  match i with DP.ILet x e => SLet x (T e) | DP.IExpr e => SExpr (T e) end.

Definition idepth (i : DP.item) : nat := match i with DP.ILet _ e | DP.IExpr e => edepth e end.

(* ---- the reference world represents the run-time environment g of Dim/Run.v *)
Definition dim_of_val (v : value dq) : option DM.dtype :=
  match v with VQ x => Some (fst x) | _ => None end.

Definition lookupW (W : @world dq) (x : string) : option DM.dtype :=
  match find_last x (w_globals W) with
  | Some (_, v) => dim_of_val v
  | None => if is_last_result x
            then match w_last W with Some v => dim_of_val v | None => None end
            else None
  end.

Definition repr (W : @world dq) (g : string -> option DM.dtype) : Prop :=
  w_fns W = [] /\ w_foreign W = [] /\ forall x, g x = lookupW W x.

Definition lits : bool * bool := (true, true).

Lemma eval_T : forall e, DT.arith e -> forall W g d,
  repr W g -> DR.rt_expr g rexp0 e = DR.RDim d ->
  forall n, edepth e < n ->
    exists c, eval dops lits n W (length (w_globals W)) 0 0 [] (T e) = Ok (VQ (d, c))
              /\ (forall q, rexp0 e = Some q -> c = Some q).
Proof.
  induction 1 as [q Hq | x | x | a Ha IH | o a b Ho Ha IHa Hb IHb]; intros W g d HR Hrt n Hn;
    (destruct n as [|n]; [lia|]).
  - simpl in Hrt. inversion Hrt; subst. exists (Some q). split; [reflexivity|].
    intros q' H'. unfold rexp0 in H'. simpl in H'. exact H'.
  - destruct HR as (Hf & Ho & Hg). simpl in Hrt. rewrite Hg in Hrt. unfold lookupW in Hrt.
    cbn [T eval find_last]. rewrite firstn_all.
    destruct (find_last x (w_globals W)) as [[i v]|].
    + destruct v as [[d' c']| | | | | |]; simpl in Hrt; try discriminate.
      inversion Hrt; subst. exists c'. split; [reflexivity|]. intros q H'. discriminate.
    + destruct (is_last_result x); [|discriminate].
      destruct (w_last W) as [v|]; [|discriminate].
      destruct v as [[d' c']| | | | | |]; simpl in Hrt; try discriminate.
      inversion Hrt; subst. exists c'. split; [reflexivity|]. intros q H'. discriminate.
  - destruct HR as (Hf & Ho & Hg). simpl in Hrt. rewrite Hg in Hrt. unfold lookupW in Hrt.
    cbn [T eval find_last]. rewrite firstn_all.
    destruct (find_last x (w_globals W)) as [[i v]|].
    + destruct v as [[d' c']| | | | | |]; simpl in Hrt; try discriminate.
      inversion Hrt; subst. exists c'. split; [reflexivity|]. intros q H'. discriminate.
    + destruct (is_last_result x); [|discriminate].
      destruct (w_last W) as [v|]; [|discriminate].
      destruct v as [[d' c']| | | | | |]; simpl in Hrt; try discriminate.
      inversion Hrt; subst. exists c'. split; [reflexivity|]. intros q H'. discriminate.
  - simpl in Hrt. simpl in Hn.
    destruct (IH W g d HR Hrt n ltac:(lia)) as (c & E & Hc).
    exists (option_map Qcopp c). cbn [T eval]. rewrite E. simpl. split; [reflexivity|].
    intros q H'. apply rexp0_neg in H'. destruct H' as (x & Hx & Eq). rewrite (Hc x Hx). subst. reflexivity.
  - simpl in Hrt. simpl in Hn.
    destruct (DR.rt_expr g rexp0 a) as [d1| | |] eqn:Ea; try discriminate;
      destruct (DR.rt_expr g rexp0 b) as [d2| | |] eqn:Eb; try discriminate.
    destruct (IHa W g d1 HR Ea n ltac:(lia)) as (c1 & E1 & Hc1).
    destruct (IHb W g d2 HR Eb n ltac:(lia)) as (c2 & E2 & Hc2).
    cbn [T eval]. rewrite E1. simpl. rewrite E2. simpl.
    assert (Hdim : DR.rt_binop o d1 d2 c2 = DR.RDim d).
    { destruct Ho as [H|[H|[H|[H|[H|H]]]]]; subst o; simpl in Hrt |- *; try exact Hrt.
      destruct (DM.d_is_scalar d1); [exact Hrt|].
      destruct (rexp0 b) as [q|] eqn:Eq; [|discriminate]. rewrite (Hc2 q eq_refl). exact Hrt. }
    exists (cbin o c1 c2). split.
    + assert (G : q_arith dops (tb o) (d1, c1) (d2, c2) = Ok (d, cbin o c1 c2)).
      { unfold dops. cbn [q_arith fst snd]. rewrite ub_tb. rewrite Hdim. reflexivity. }
      destruct Ho as [H|[H|[H|[H|[H|H]]]]]; subst o; cbn [tb apply_bin] in *; rewrite G; reflexivity.
    + intros q H'. apply rexp0_bin in H'. destruct H' as (x & y & Hx & Hy & Hq).
      rewrite (Hc1 x Hx), (Hc2 y Hy). exact Hq.
Qed.

(* ------------------------------------------------------------------ programs *)
Fixpoint lets (p : list DP.item) (ds : list DM.dtype) : list (string * DM.dtype) :=
  match p, ds with
  | DP.ILet x _ :: r, d :: dr => (x, d) :: lets r dr
  | DP.IExpr _ :: r, _ :: dr => lets r dr
  | _, _ => []
  end.

Definition names_ok (p : list DP.item) : Prop :=
  Forall (fun i => match i with DP.ILet x _ => is_last_result x = false | DP.IExpr _ => True end) p.

Definition gdims (G : list (string * value dq)) : list (string * option DM.dtype) :=
  map (fun xv => (fst xv, dim_of_val (snd xv))) G.

Fixpoint pdepth (p : list DP.item) : nat :=
  match p with [] => 0 | i :: r => Nat.max (idepth i) (pdepth r) end.

Definition no_ans (W : @world dq) : Prop :=
  forall x, is_last_result x = true -> find_last x (w_globals W) = None.

Lemma is_last_result_spec : forall y,
  is_last_result y = (String.eqb y "ans" || String.eqb y "_")%bool.
Proof. reflexivity. Qed.

Lemma exec_T : forall p, Forall DP.item_arith p -> names_ok p -> forall g rst ds n,
  repr (r_world rst) g -> no_ans (r_world rst) ->
  DP.rt_prog g rexp0 p = Some ds -> pdepth p < n ->
  exists rst', exec_stmts dops lits n (map Titem p) rst = Ok rst' /\
    gdims (w_globals (r_world rst'))
    = gdims (w_globals (r_world rst)) ++ map (fun xd => (fst xd, Some (snd xd))) (lets p ds).
Proof.
  induction p as [|i p IH]; intros Ha Hn g rst ds n HR HA Hrt Hd.
  - simpl in *. inversion Hrt; subst. exists rst. split; [reflexivity|]. simpl. rewrite app_nil_r. reflexivity.
  - inversion Ha as [|? ? Hai Hap]; subst. inversion Hn as [|? ? Hni Hnp]; subst.
    simpl in Hd.
    pose proof HR as (Hf & Hfo & Hg).
    destruct i as [x e|e]; simpl in Hrt, Hai, Hni.
    + destruct (DR.rt_expr g rexp0 e) as [d| | |] eqn:Er; try discriminate.
      destruct (DP.rt_prog (DP.upd g x d) rexp0 p) as [dr|] eqn:Ep; [|discriminate].
      inversion Hrt; subst ds; clear Hrt.
      destruct (eval_T e Hai (r_world rst) g d HR Er n ltac:(simpl in Hd; lia)) as (c & Ev & _).
      pose (W := r_world rst).
      set (rst1 := {| r_world := {| w_globals := w_globals W ++ [(x, VQ (d, c))]; w_fns := w_fns W;
                                    w_foreign := w_foreign W; w_structs := w_structs W; w_last := w_last W; w_units := w_units W |};
                      r_out := r_out rst; r_res := r_res rst |}).
      assert (HR1 : repr (r_world rst1) (DP.upd g x d)).
      { refine (conj Hf (conj Hfo _)). intro y. unfold DP.upd, lookupW, rst1, W. simpl.
        rewrite find_last_snoc. rewrite (String.eqb_sym y x).
        destruct (String.eqb x y); [reflexivity|]. apply Hg. }
      assert (HA1 : no_ans (r_world rst1)).
      { intros y Hy. unfold rst1, W. simpl. rewrite find_last_snoc.
        destruct (String.eqb x y) eqn:E; [apply String.eqb_eq in E; subst; congruence | apply HA; exact Hy]. }
      destruct (IH Hap Hnp _ rst1 dr n HR1 HA1 Ep ltac:(lia)) as (rst' & Ex & Gd).
      exists rst'. split.
      * cbn [map Titem exec_stmts exec_stmt]. unfold top_eval. rewrite Hf, Hfo. cbn [length]. rewrite Ev. cbn [bind]. unfold rst1, W in Ex. rewrite ?Hf, ?Hfo in Ex. exact Ex.
      * rewrite Gd. simpl. unfold gdims. rewrite map_app. simpl. rewrite <- app_assoc. reflexivity.
    + destruct (DR.rt_expr g rexp0 e) as [d| | |] eqn:Er; try discriminate.
      destruct (DP.rt_prog (DP.upd (DP.upd g "ans" d) "_" d) rexp0 p) as [dr|] eqn:Ep; [|discriminate].
      inversion Hrt; subst ds; clear Hrt.
      destruct (eval_T e Hai (r_world rst) g d HR Er n ltac:(simpl in Hd; lia)) as (c & Ev & _).
      pose (W := r_world rst).
      set (rst1 := {| r_world := {| w_globals := w_globals W; w_fns := w_fns W; w_foreign := w_foreign W;
                                    w_structs := w_structs W; w_last := Some (VQ (d, c)); w_units := w_units W |};
                      r_out := r_out rst; r_res := Some (VQ (d, c)) |}).
      assert (HR1 : repr (r_world rst1) (DP.upd (DP.upd g "ans" d) "_" d)).
      { refine (conj Hf (conj Hfo _)). intro y. unfold DP.upd, lookupW, rst1, W. simpl.
        rewrite is_last_result_spec.
        destruct (String.eqb y "_") eqn:E1.
        - rewrite (HA y) by (rewrite is_last_result_spec, E1; apply orb_true_r). rewrite orb_true_r. reflexivity.
        - destruct (String.eqb y "ans") eqn:E2.
          + rewrite (HA y) by (rewrite is_last_result_spec, E2; reflexivity). reflexivity.
          + simpl. rewrite Hg. unfold lookupW. rewrite is_last_result_spec, E1, E2. simpl.
            destruct (find_last y (w_globals W)) as [[? ?]|]; reflexivity. }
      assert (HA1 : no_ans (r_world rst1)) by exact HA.
      destruct (IH Hap Hnp _ rst1 dr n HR1 HA1 Ep ltac:(lia)) as (rst' & Ex & Gd).
      exists rst'. split.
      * cbn [map Titem exec_stmts exec_stmt]. unfold top_eval. rewrite Hf, Hfo. cbn [length]. rewrite Ev. cbn [bind]. unfold rst1, W in Ex. rewrite ?Hf, ?Hfo in Ex. exact Ex.
      * rewrite Gd. reflexivity.
Qed.

(* ---- the initial environment: units and constants as pre-bound globals *)
Definition prelude (G0 : list (string * DM.dtype)) : program dq :=
  map (fun xd => SLet (fst xd) (EScalar (snd xd, None))) G0.

Definition world0 (G0 : list (string * DM.dtype)) : @world dq :=
  {| w_globals := map (fun xd => (fst xd, VQ (snd xd, None))) G0; w_fns := []; w_foreign := [];
     w_structs := []; w_last := None; w_units := [] |}.

(* the run-time environment of Dim/Run.v that G0 denotes: the LATEST binding of a name *)
Definition g_of (G0 : list (string * DM.dtype)) : string -> option DM.dtype := lookupW (world0 G0).

Definition G0_ok (G0 : list (string * DM.dtype)) : Prop :=
  Forall (fun xd => is_last_result (fst xd) = false) G0.

Lemma exec_stmts_cons {Q} : forall (O : ops Q) l n s (r : program Q) rst,
  exec_stmts O l n (s :: r) rst = bind (exec_stmt O l n s rst) (exec_stmts O l n r).
Proof. reflexivity. Qed.

Lemma exec_prelude : forall G0 pre out res n, 0 < n ->
  exec_stmts dops lits n (prelude G0)
    {| r_world := {| w_globals := pre; w_fns := []; w_foreign := []; w_structs := []; w_last := None; w_units := [] |};
       r_out := out; r_res := res |}
  = Ok {| r_world := {| w_globals := pre ++ map (fun xd => (fst xd, VQ (snd xd, None))) G0;
                        w_fns := []; w_foreign := []; w_structs := []; w_last := None; w_units := [] |};
          r_out := out; r_res := res |}.
Proof.
  induction G0 as [|[x d] G0 IH]; intros pre out res n Hn.
  - simpl. rewrite app_nil_r. reflexivity.
  - destruct n as [|n]; [lia|].
    change (prelude ((x, d) :: G0)) with (SLet x (EScalar (d, @None Qc)) :: prelude G0).
    rewrite exec_stmts_cons.
    assert (E : exec_stmt dops lits (S n) (SLet x (EScalar (d, @None Qc)))
                  {| r_world := {| w_globals := pre; w_fns := []; w_foreign := []; w_structs := []; w_last := None; w_units := [] |};
                     r_out := out; r_res := res |}
                = Ok {| r_world := {| w_globals := pre ++ [(x, VQ (d, None))]; w_fns := []; w_foreign := [];
                                      w_structs := []; w_last := None; w_units := [] |}; r_out := out; r_res := res |})
      by reflexivity.
    rewrite E. cbn [bind]. rewrite (IH (pre ++ [(x, VQ (d, None))]) out res (S n) ltac:(lia)).
    rewrite <- app_assoc. reflexivity.
Qed.

Lemma exec_stmts_app {Q} : forall (O : ops Q) l n (a b : program Q) rst,
  exec_stmts O l n (a ++ b) rst = bind (exec_stmts O l n a rst) (exec_stmts O l n b).
Proof.
  induction a as [|s a IH]; intros b rst; simpl; [reflexivity|].
  destruct (exec_stmt O l n s rst); simpl; auto.
Qed.

Lemma find_last_none_map : forall (G0 : list (string * DM.dtype)) y,
  G0_ok G0 -> is_last_result y = true ->
  find_last y (map (fun xd => (fst xd, VQ (snd xd, @None Qc))) G0) = None.
Proof.
  induction G0 as [|[x d] G0 IH]; intros y H Hy; simpl; [reflexivity|].
  inversion H; subst. rewrite (IH y H3 Hy).
  destruct (String.eqb x y) eqn:E; [apply String.eqb_eq in E; subst; simpl in H2; congruence | reflexivity].
Qed.

(* THE COMPOSITION.  For an initial environment G0 and a program p of the shared fragment that
   the type-checker model accepts (check … = Ok (outs, _)) in a static environment that agrees
   with G0, the model machine running the model-compiled program (prelude G0 ++ p) reaches
   the end of <main> without error, and its stack holds, slot by slot, quantities whose
   dimensions are those of G0 followed by, for every `let` of p, exactly the dimension the
   checker reports in outs (outs = map out_of (combine p ds)). *)
Theorem dim_composition : forall (G0 : list (string * DM.dtype)) (p : list DP.item)
                                 (s s' : DI.tc) (outs : list DI.sout),
  Forall DP.item_arith p -> names_ok p -> G0_ok G0 ->
  DP.env_agree2 (DI.tc_env s) (g_of G0) -> DP.allq (DI.tc_env s) ->
  DI.check (map DP.stmt_of p) s = DM.Ok (outs, s') ->
  compile_ok (compile (procs dops) (prelude G0 ++ map Titem p)) = true ->
  exists (ds : list DM.dtype) (k : nat) (ms : @mstate dq),
    outs = map (fun id => DP.out_of (fst id) (snd id)) (combine p ds) /\
    length ds = length p /\
    steps dops (compile (procs dops) (prelude G0 ++ map Titem p)) k (minit (Q := dq)) = Some ms /\
    map dim_of_val (rev (m_stack ms))
    = map (fun xd => Some (snd xd)) G0 ++ map (fun xd => Some (snd xd)) (lets p ds) /\
    m_frames ms = [F 0 (csize (snd (hd (EmptyString, []) (p_chunks (compile (procs dops) (prelude G0 ++ map Titem p)))))) 0].
Proof.
  intros G0 p s s' outs Ha Hn HG Henv Hallq Hchk Hok.
  destruct (DP.prog_sound rexp0 rexp0_agree p Ha (g_of G0) s outs s' Henv Hallq Hchk) as (ds & Hrt & Hout & Hlen).
  set (P := prelude G0 ++ map Titem p) in *.
  set (n := S (pdepth p)).
  (* the reference run *)
  assert (HR0 : repr (world0 G0) (g_of G0)) by (split; [reflexivity | split; [reflexivity | intro; reflexivity]]).
  assert (HA0 : no_ans (world0 G0)) by (intros y Hy; apply find_last_none_map; assumption).
  destruct (exec_T p Ha Hn (g_of G0) {| r_world := world0 G0; r_out := []; r_res := None |} ds n HR0 HA0 Hrt ltac:(unfold n; lia))
    as (rst' & Ex & Gd).
  assert (Hrun : exec_stmts dops lits n P rinit = Ok rst').
  { unfold P. rewrite exec_stmts_app. unfold rinit.
    rewrite (exec_prelude G0 [] [] None n ltac:(unfold n; lia)). simpl. exact Ex. }
  (* the machine *)
  set (fin := cstmts P (cinit (procs dops))).
  assert (HI : Inv dops fin (cinit (procs dops)) rinit (minit (Q := dq))).
  { refine (conj (cstmts_pre _ _) (conj _ (conj eq_refl (conj eq_refl (conj _ (conj eq_refl eq_refl)))))).
    - unfold cenv_rel. simpl.
      refine (conj eq_refl (conj eq_refl (conj _ (conj _ (conj _ (conj _ _)))))).
      + intro x. split; reflexivity.
      + destruct (cstmts_pre P (cinit (procs dops))) as (_ & _ & _ & [r E] & _). exists r. exact E.
      + intro x. reflexivity.
      + destruct (cstmts_pre P (cinit (procs dops))) as (_ & _ & _ & _ & [r E] & _). exists r. exact E.
      + split; [exists []; reflexivity | intros x i Hx; discriminate].
    - intros i name fd Hi. destruct i; discriminate. }
  destruct (stmts_run dops lits fin Hok n P _ _ _ _ HI eq_refl Hrun) as (k & ms & S & HI').
  destruct HI' as (_ & _ & _ & _ & _ & _ & Ems).
  exists ds, k, ms. split; [exact Hout|]. split; [exact Hlen|]. split; [exact S|]. split.
  - rewrite Ems. simpl. rewrite rev_involutive.
    assert (E : map dim_of_val (map snd (w_globals (r_world rst'))) = map snd (gdims (w_globals (r_world rst'))))
      by (unfold gdims; rewrite !map_map; reflexivity).
    rewrite E, Gd. simpl. unfold gdims. rewrite map_app, !map_map. simpl. reflexivity.
  - rewrite Ems. reflexivity.
Qed.

(* ------------------------------------------------------------------ non-vacuity *)
(* meter : Length, second : Time;  let va = 2 meter ; let vb = va / second ;
   let va = vb * vb ; va + va     (re-using and re-binding a name) *)
Definition ex_G0 : list (string * DM.dtype) :=
  [("meter"%string, [(DM.FBase "Length", DM.Qc1)]); ("second"%string, [(DM.FBase "Time", DM.Qc1)])].
Definition ex_env : DI.env :=
  [("meter"%string, DI.IdNormal (DI.Quantified 0 (DM.TDim [(DM.FBase "Length", DM.Qc1)]) []));
   ("second"%string, DI.IdNormal (DI.Quantified 0 (DM.TDim [(DM.FBase "Time", DM.Qc1)]) []))].
Definition ex_s : DI.tc := DI.mkTc ex_env (DI.mkReg ["Length"%string; "Time"%string] [] []) 5%N [].
Definition ex_p : list DP.item :=
  [DP.ILet "va" (DI.EBin DI.OMul (DI.EScalar (DM.qc 2)) (DI.EUnit "meter"));
   DP.ILet "vb" (DI.EBin DI.ODiv (DI.EIdent "va") (DI.EUnit "second"));
   DP.ILet "va" (DI.EBin DI.OMul (DI.EIdent "vb") (DI.EIdent "vb"));
   DP.IExpr (DI.EBin DI.OAdd (DI.EIdent "va") (DI.EIdent "va"))].

Lemma ex_hypotheses :
  Forall DP.item_arith ex_p /\ names_ok ex_p /\ G0_ok ex_G0 /\
  DP.env_agree2 (DI.tc_env ex_s) (g_of ex_G0) /\ DP.allq (DI.tc_env ex_s) /\
  (exists outs s', DI.check (map DP.stmt_of ex_p) ex_s = DM.Ok (outs, s')) /\
  compile_ok (compile (procs dops) (prelude ex_G0 ++ map Titem ex_p)) = true.
Proof.
  assert (N : DM.qc 2 <> DM.Qc0) by (intro E; apply (f_equal this) in E; vm_compute in E; discriminate).
  split; [|split; [|split; [|split; [|split; [|split]]]]].
  - constructor; [|constructor; [|constructor; [|constructor; [|constructor]]]]; simpl;
      (apply DT.ABin; [auto 10 | |]); try apply DT.AIdent; try apply DT.AUnit; apply DT.AScalar; exact N.
  - repeat constructor.
  - repeat constructor.
  - intro x. unfold g_of, lookupW, ex_s, ex_env, ex_G0. cbn -[String.eqb].
    rewrite (String.eqb_sym x "meter"), (String.eqb_sym x "second").
    destruct (String.eqb "second" x) eqn:E2.
    + apply String.eqb_eq in E2. subst x. cbn. repeat split.
    + destruct (String.eqb "meter" x) eqn:E1; [cbn; repeat split | exact I].
  - repeat constructor.
  - eexists; eexists. vm_compute. reflexivity.
  - vm_compute. reflexivity.
Qed.

(* ------------------------------------------------------------------ no-stuck with a STATIC hypothesis *)
(* For the shared fragment the type checker's acceptance is a typing judgment that excludes
   [Wrong]: the reference evaluation of an accepted program is defined, hence (no_panic_after_ok)
   the machine never panics and never raises a run-time error, whatever fuel it is given. *)
Theorem typed_fragment_no_stuck : forall (G0 : list (string * DM.dtype)) (p : list DP.item)
                                         (s s' : DI.tc) (outs : list DI.sout),
  Forall DP.item_arith p -> names_ok p -> G0_ok G0 ->
  DP.env_agree2 (DI.tc_env s) (g_of G0) -> DP.allq (DI.tc_env s) ->
  DI.check (map DP.stmt_of p) s = DM.Ok (outs, s') ->
  compile_ok (compile (procs dops) (prelude G0 ++ map Titem p)) = true ->
  exists out v, forall m,
    Machine.run dops (compile (procs dops) (prelude G0 ++ map Titem p)) m = Fuel \/
    Machine.run dops (compile (procs dops) (prelude G0 ++ map Titem p)) m = Ok (out, v).
Proof.
  intros G0 p s s' outs Ha Hn HG Henv Hallq Hchk Hok.
  destruct (DP.prog_sound rexp0 rexp0_agree p Ha (g_of G0) s outs s' Henv Hallq Hchk) as (ds & Hrt & _ & _).
  set (n := S (pdepth p)).
  assert (HR0 : repr (world0 G0) (g_of G0)) by (split; [reflexivity | split; [reflexivity | intro; reflexivity]]).
  assert (HA0 : no_ans (world0 G0)) by (intros y Hy; apply find_last_none_map; assumption).
  destruct (exec_T p Ha Hn (g_of G0) {| r_world := world0 G0; r_out := []; r_res := None |} ds n HR0 HA0 Hrt ltac:(unfold n; lia))
    as (rst' & Ex & _).
  assert (Hrun : run_ref dops n (prelude G0 ++ map Titem p) = Ok (r_out rst', r_res rst')).
  { unfold run_ref, RefSem.run. change (true, true) with lits. rewrite exec_stmts_app. unfold rinit.
    rewrite (exec_prelude G0 [] [] None n ltac:(unfold n; lia)). cbn [bind].
    change (bind (exec_stmts dops lits n (map Titem p) {| r_world := world0 G0; r_out := []; r_res := None |})
                 (fun st => Ok (r_out st, r_res st)) = Ok (r_out rst', r_res rst')).
    rewrite Ex. reflexivity. }
  exists (r_out rst'), (r_res rst'). intro m.
  exact (no_panic_after_ok dops _ n _ _ Hok Hrun m).
Qed.
