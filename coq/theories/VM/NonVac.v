(* C09 — non-vacuity: a concrete compiled program and reference world (a global, a
   recursive function with a where-local that reads the global) satisfy every
   hypothesis of the simulation theorems. *)
From Coq Require Import String List Bool Arith Lia.
From NV Require Import Base.Show VM.Value VM.Ast VM.Bytecode VM.Compile VM.Machine VM.RefSem VM.Exec VM.Proofs.
Import ListNotations.
Open Scope string_scope.
Open Scope list_scope.

Definition nv_defs : program Z := [
  SLet "x" (EScalar 2%Z);
  SFn "f" ["n"] [("y", EBin BMul (EIdent "n") (EIdent "x"))]
      (ECond (EBin BLt (EIdent "n") (EScalar 1%Z)) (EIdent "x")
             (EBin BAdd (ECall "f" [EBin BSub (EIdent "n") (EScalar 1%Z)]) (EIdent "y")))].
Definition nv_expr : expr Z := ECall "f" [EScalar 3%Z].
Definition nv_prog : program Z := nv_defs ++ [SExpr nv_expr].

Definition nv_C := compile (procs zops) nv_prog.
Definition nv_st := cstmts nv_defs (cinit (procs zops)).
Definition nv_ce := s_env nv_st.
Definition nv_fd : @fdef Z :=
  {| fd_params := ["n"]; fd_locals := [("y", EBin BMul (EIdent "n") (EIdent "x"))];
     fd_body := ECond (EBin BLt (EIdent "n") (EScalar 1%Z)) (EIdent "x")
                      (EBin BAdd (ECall "f" [EBin BSub (EIdent "n") (EScalar 1%Z)]) (EIdent "y"));
     fd_nglob := 1; fd_nforeign := 0 |}.
Definition nv_W : @world Z :=
  {| w_globals := [("x", VQ 2%Z)]; w_fns := [("f", nv_fd)]; w_foreign := []; w_structs := []; w_last := None; w_units := [] |}.

Lemma nv_cenv_rel : cenv_rel zops nv_C nv_W nv_ce 1 1 0.
Proof.
  unfold cenv_rel. repeat split; try (exists []; reflexivity).
  - intro x. cbn -[String.eqb]. destruct (String.eqb "f" x); cbn -[String.eqb]; [discriminate | split; reflexivity].
  - intro x. cbn -[String.eqb].
    rewrite (String.eqb_sym x "print"), (String.eqb_sym x "assert"), (String.eqb_sym x "assert_eq").
    destruct (String.eqb "print" x); [reflexivity|].
    destruct (String.eqb "assert" x); [reflexivity|].
    destruct (String.eqb "assert_eq" x); reflexivity.
  - simpl in *. congruence.
  - simpl in *. congruence.
Qed.

Lemma nv_RelW : RelW zops nv_C nv_W.
Proof.
  split.
  - intros i name fd H. destruct i as [|[|i]]; cbn in H; try discriminate.
    inversion H; subst name fd.
    exists nv_ce, 1, 0. split; [reflexivity|]. split; [|split].
    + exists [CScalar 2%Z], [CScalar 3%Z]. split; reflexivity.
    + reflexivity.
    + exact nv_cenv_rel.
  - intros x H. cbn -[String.eqb] in H.
    rewrite (String.eqb_sym x "print"), (String.eqb_sym x "assert"), (String.eqb_sym x "assert_eq") in H.
    cbn -[String.eqb].
    destruct (String.eqb "print" x); [discriminate|].
    destruct (String.eqb "assert" x); [discriminate|].
    destruct (String.eqb "assert_eq" x); discriminate.
Qed.

(* all hypotheses of expr_statement_correct hold, hence its conclusion; the value is
   f(3) = ((2 + 1*2) + 2*2) + 3*2 = 14 *)
Lemma nv_conclusion :
  exists m, run_from zops nv_C m
              {| m_frames := [F 0 3 0]; m_stack := [VQ 2%Z]; m_last := None; m_out := []; m_res := None |}
            = Ok ([], Some (VQ 14%Z)).
Proof.
  apply (expr_statement_correct zops nv_C nv_W nv_RelW 20 nv_expr (VQ 14%Z)
           nv_ce 3 0 [ILoadConstant 0] [] None).
  - vm_compute. reflexivity.
  - exact nv_cenv_rel.
  - reflexivity.
  - reflexivity.
  - exists [CScalar 2%Z; CScalar 1%Z; CScalar 1%Z], []. split; reflexivity.
  - reflexivity.
Qed.
