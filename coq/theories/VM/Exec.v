(* C09 — executable instance (dimensionless integer scalars, so f64 arithmetic with
   + - * on small integers is exact) and the observation printer used by the
   three-way correspondence: model machine on model-compiled code, reference
   evaluator (static and checked), and a dump of the compiled code in the format
   of the hook numbat::verif::vm::disassembly. *)
From NV Require Import Base.Show VM.Value VM.Ast VM.Bytecode VM.Compile VM.Machine VM.RefSem.
Open Scope list_scope.
Open Scope string_scope.

(* Number::pretty_print for integers below 2^53: digit groups separated by _ from 10^5 on *)
Fixpoint group3 (ds : list ascii) : list ascii :=   (* ds: least significant digit first *)
  match ds with
  | a :: b :: c :: ((_ :: _) as r) => a :: b :: c :: "_"%char :: group3 r
  | _ => ds
  end.
Definition show_q (z : Z) : string :=
  if Z.ltb (Z.abs z) 100000 then show_Z z
  else
    let digits := list_ascii_of_string (show_N (Z.abs_N z)) in
    let g := string_of_list_ascii (rev (group3 (rev digits))) in
    if Z.ltb z 0 then "-" ++ g else g.

Definition zarith (op : binop) (a b : Z) : res Z :=
  match op with
  | BAdd => Ok (a + b)%Z
  | BSub => Ok (a - b)%Z
  | BMul => Ok (a * b)%Z
  | BDiv => if Z.eqb b 0 then Err "DivisionByZero"
            else if Z.eqb (Z.rem a b) 0 then Ok (Z.quot a b) else Err "unmodelled-inexact-division"
  | BPow => if Z.leb 0 b then Ok (Z.pow a b) else Err "unmodelled-negative-power"
  | _ => Wrong
  end.
Definition zcmp (op : binop) (a b : Z) : res bool :=
  match op with
  | BLt => Ok (Z.ltb a b)
  | BGt => Ok (Z.gtb a b)
  | BLe => Ok (Z.leb a b)
  | BGe => Ok (Z.geb a b)
  | _ => Wrong
  end.

Fixpoint zfact_aux (fuel : nat) (x : Z) (order : Z) : Z :=
  match fuel with
  | O => 1%Z
  | S f => if Z.leb x 1 then 1%Z else (x * zfact_aux f (x - order) order)%Z
  end.
Definition zfact (order : nat) (x : Z) : res Z :=
  if Z.ltb x 0 then Err "FactorialOfNegativeNumber"
  else Ok (zfact_aux (Z.to_nat x) x (Z.of_nat order)).

Definition upper_ascii (c : ascii) : ascii :=
  let n := Ascii.nat_of_ascii c in
  if (Nat.leb 97 n && Nat.leb n 122)%bool then Ascii.ascii_of_nat (n - 32) else c.
Definition lower_ascii (c : ascii) : ascii :=
  let n := Ascii.nat_of_ascii c in
  if (Nat.leb 65 n && Nat.leb n 90)%bool then Ascii.ascii_of_nat (n + 32) else c.
Fixpoint map_ascii (f : ascii -> ascii) (s : string) : string :=
  match s with
  | EmptyString => EmptyString
  | String c r => String (f c) (map_ascii f r)
  end.

Definition zffi (name : string) (args : list (value Z)) : res (value Z) :=
  if String.eqb name "len" then
    match args with [VList l] => Ok (VQ (Z.of_nat (length l))) | _ => Wrong end
  else if String.eqb name "head" then
    match args with [VList (x :: _)] => Ok x | [VList []] => Err "EmptyList" | _ => Wrong end
  else if String.eqb name "tail" then
    match args with [VList (_ :: r)] => Ok (VList r) | [VList []] => Err "EmptyList" | _ => Wrong end
  else if String.eqb name "cons" then
    match args with [x; VList l] => Ok (VList (x :: l)) | _ => Wrong end
  else if String.eqb name "cons_end" then
    match args with [x; VList l] => Ok (VList (l ++ [x])%list) | _ => Wrong end
  else if String.eqb name "str_length" then
    match args with [VStr s] => Ok (VQ (Z.of_nat (String.length s))) | _ => Wrong end
  else if String.eqb name "mod" then
    (* f64::rem_euclid; mod(x, 0) is NaN and is kept out of the comparison *)
    match args with
    | [VQ a; VQ b] => if Z.eqb b 0 then Err "unmodelled-nan" else Ok (VQ (Z.modulo a (Z.abs b)))
    | _ => Wrong
    end
  else if String.eqb name "str_slice" then
    (* input.get(start..end).unwrap_or_default(), ASCII strings; `as usize` saturates at 0 *)
    match args with
    | [VQ a; VQ b; VStr s] =>
        let a' := Z.to_nat a in
        let b' := Z.to_nat b in
        if (Nat.leb a' b' && Nat.leb b' (String.length s))%bool
        then Ok (VStr (String.substring a' (b' - a') s)) else Ok (VStr "")
    | _ => Wrong
    end
  else if String.eqb name "uppercase" then
    match args with [VStr s] => Ok (VStr (map_ascii upper_ascii s)) | _ => Wrong end
  else if String.eqb name "lowercase" then
    match args with [VStr s] => Ok (VStr (map_ascii lower_ascii s)) | _ => Wrong end
  else Wrong.

Definition zops0 : ops Z :=
  {| q_unit := fun _ => 1%Z; q_neg := Z.opp; q_fact := zfact; q_arith := zarith; q_cmp := zcmp; q_eqb := Z.eqb;
     q_show := show_q;
     fmt_spec := fun _ _ => Err "unmodelled-format-specifier";
     ffi := zffi;
     proc := fun _ _ => Wrong;
     procs := ["print"; "assert"; "assert_eq"] |}.

(* pretty_print.rs escape_numbat_string: print(…) of a non-string value renders nested strings
   as literals (quotes, braces and backslashes escaped) — unlike Display, used by JoinString *)
Fixpoint escape_str (s : string) : string :=
  match s with
  | EmptyString => EmptyString
  | String c r =>
      let n := Ascii.nat_of_ascii c in
      if (Nat.eqb n 123 || Nat.eqb n 125 || Nat.eqb n 92)%bool then String c (String c (escape_str r))
      else if Nat.eqb n 34 then String (Ascii.ascii_of_nat 92) (String c (escape_str r))
      else String c (escape_str r)
  end.

Fixpoint pretty (v : value Z) : string :=
  match v with
  | VStr s => """" ++ escape_str s ++ """"
  | VStruct n fs vs =>
      match vs with
      | [] => n ++ " {}"
      | _ => n ++ " { " ++ sep_concat ", " (zip_fields fs (map pretty vs)) ++ " }"
      end
  | VList l => "[" ++ sep_concat ", " (map pretty l) ++ "]"
  | _ => display zops0 v
  end.

Definition zproc (name : string) (args : list (value Z)) : res (list string) :=
  if String.eqb name "print" then
    match args with
    | [] => Ok [""]
    | [VStr s] => Ok [s]                  (* a string is printed without quotes *)
    | [v] => Ok [pretty v]
    | _ => Wrong
    end
  else if String.eqb name "assert" then
    match args with
    | [VBool true] => Ok []
    | [VBool false] => Err "AssertFailed"
    | _ => Wrong
    end
  else if String.eqb name "assert_eq" then
    match args with
    | [a; b] => if value_eqb zops0 a b then Ok [] else Err "AssertEq2Failed"
    | _ => Wrong
    end
  else Wrong.

Definition zops : ops Z :=
  {| q_unit := fun _ => 1%Z; q_neg := Z.opp; q_fact := zfact; q_arith := zarith; q_cmp := zcmp; q_eqb := Z.eqb;
     q_show := show_q;
     fmt_spec := fun _ _ => Err "unmodelled-format-specifier";
     ffi := zffi; proc := zproc;
     procs := ["print"; "assert"; "assert_eq"] |}.

(* ---- rendering, same format as numbat::verif::vm::value_repr *)
Fixpoint zip_eq (fs vs : list string) : list string :=
  match fs, vs with
  | f :: fr, v :: vr => (f ++ "=" ++ v) :: zip_eq fr vr
  | _, _ => []
  end.

Fixpoint show_value (v : value Z) : string :=
  match v with
  | VQ q => show_Z q
  | VBool b => if b then "true" else "false"
  | VStr s => """" ++ s ++ """"
  | VFun (FNormal n _) => "<fn " ++ n ++ ">"
  | VFun (FForeign n) => "<ffi " ++ n ++ ">"
  | VFmt _ => "<fmt>"
  | VStruct n fs vs =>
      n ++ "{" ++ join "," (zip_eq fs (map show_value vs)) ++ "}"
  | VList l => "[" ++ join "," (map show_value l) ++ "]"
  end.

Definition sep_lines : string :=
  String (Ascii.ascii_of_nat 226) (String (Ascii.ascii_of_nat 144) (String (Ascii.ascii_of_nat 158) "")).

Definition show_outcome (r : res (list string * option (value Z))) : string :=
  match r with
  | Ok (out, Some v) => "R:V:" ++ show_value v ++ " ## O:" ++ join sep_lines out
  | Ok (out, None) => "R:C ## O:" ++ join sep_lines out
  | Err e => "R:E:" ++ e
  | Wrong => "R:P"
  | Fuel => "R:F"
  end.

(* ---- dump of the compiled code *)
Definition show_const (c : const Z) : string :=
  match c with
  | CScalar q => "n" ++ show_Z q
  | CBool b => if b then "bT" else "bF"
  | CString s => "s""" ++ s ++ """"
  | CFunRef (FNormal n _) => "f" ++ n
  | CFunRef (FForeign n) => "F" ++ n
  | CFmt None => "p-"
  | CFmt (Some s) => "p""" ++ s ++ """"
  | CUnit n => "u" ++ n
  end.

Definition binop_name (op : binop) : string :=
  match op with
  | BAdd => "Add" | BSub => "Subtract" | BMul => "Multiply" | BDiv => "Divide"
  | BPow => "Power" | BConv => "ConvertTo" | BLt => "LessThan" | BGt => "GreaterThan"
  | BLe => "LessOrEqual" | BGe => "GreatorOrEqual" | BEq => "Equal" | BNe => "NotEqual"
  | BAnd => "LogicalAnd" | BOr => "LogicalOr"
  end.

Definition show_instr (ffi_names : list string) (i : instr) : string :=
  let nm idx := nth idx ffi_names "?" in
  match i with
  | ILoadConstant k => "LoadConstant " ++ show_nat k
  | IGetLocal k => "GetLocal " ++ show_nat k
  | IGetUpvalue k => "GetUpvalue " ++ show_nat k
  | IGetLastResult => "GetLastResult"
  | IUn UNeg => "Negate"
  | IUn UNot => "LogicalNeg"
  | IUn (UFact k) => "Factorial " ++ show_nat k
  | IBin op => binop_name op
  | IJumpIfFalse o => "JumpIfFalse " ++ show_nat o
  | IJump o => "Jump " ++ show_nat o
  | ICall f n => "Call " ++ show_nat f ++ " " ++ show_nat n
  | IFFICallFunction f n c => "FFICallFunction " ++ nm f ++ " " ++ show_nat n ++ " " ++ show_nat c
  | IFFICallProcedure f n c => "FFICallProcedure " ++ nm f ++ " " ++ show_nat n ++ " " ++ show_nat c
  | ICallCallable n c => "CallCallable " ++ show_nat n ++ " " ++ show_nat c
  | IJoinString n => "JoinString " ++ show_nat n
  | IBuildStruct s n => "BuildStructInstance " ++ show_nat s ++ " " ++ show_nat n
  | IAccessField k => "AccessStructField " ++ show_nat k
  | IBuildList n => "BuildList " ++ show_nat n
  | IPrintString k => "PrintString " ++ show_nat k
  | IReturn => "Return"
  | ICompilePanic => "!CompilePanic"
  | IUnmodelled => "!Unmodelled"
  end.

Definition show_compiled (c : @compiled Z) : string :=
  "K:" ++ join "," (map show_const (p_consts c))
  ++ " S:" ++ join "," (map (fun s => fst s ++ "(" ++ join "." (snd s) ++ ")") (p_structs c))
  ++ String.concat "" (map (fun ch => " C:" ++ fst ch ++ ":" ++ join "," (map (show_instr (p_ffi c)) (snd ch)))
                           (p_chunks c))
  ++ " G:" ++ join "." (p_globals c).

Definition has_marker (c : @compiled Z) : bool :=
  existsb (fun ch => existsb is_marker (snd ch)) (p_chunks c).

(* ---- sessions: several inputs interpreted one after the other on the same Context.
   Context::interpret_with_settings appends the new statements to the compiled program
   and runs on from where the machine stopped; a failing input is rolled back completely
   (interpreter, type checker, name resolution are restored from clones).  Since code is
   only ever appended and chunks are referenced by index, running the inputs one by one
   is running their concatenation; the model therefore evaluates input k as the program
   (successful inputs so far ++ input k).  The result of an input is the value of its own
   last expression statement. *)
Definition has_expr (inp : program Z) : bool :=
  existsb (fun s => match s with SExpr _ => true | _ => false end) inp.

Definition show_input_outcome (r : res (list string * option (value Z))) (inp : program Z) : string :=
  match r with
  | Ok (_, Some v) => if has_expr inp then "V:" ++ show_value v else "C"
  | Ok (_, None) => "C"
  | Err e => "E:" ++ e
  | Wrong => "P"
  | Fuel => "F"
  end.

Definition out_of (r : res (list string * option (value Z))) : list string :=
  match r with Ok (out, _) => out | _ => [] end.

(* returns the outcomes per input, the output of the successful inputs, the statements
   of the successful inputs *)
Fixpoint run_session (run1 : program Z -> res (list string * option (value Z)))
         (done : program Z) (out : list string) (inputs : list (program Z))
  : list string * list string * program Z :=
  match inputs with
  | [] => ([], out, done)
  | inp :: rest =>
      let r := run1 (done ++ inp)%list in
      match r with
      | Ok (out', _) =>
          let '(os, o, d) := run_session run1 (done ++ inp)%list out' rest in
          (show_input_outcome r inp :: os, o, d)
      | _ =>
          let '(os, o, d) := run_session run1 done out rest in
          (show_input_outcome r inp :: os, o, d)
      end
  end.

Definition machine_run1 (mfuel : nat) (p : program Z) : res (list string * option (value Z)) :=
  let c := compile (procs zops) p in
  if code_too_large c then Err "CodeTooLarge"
  else if has_marker c then Wrong else Machine.run zops c mfuel.

Definition show_session_result (x : list string * list string * program Z) : string :=
  let '(os, o, _) := x in
  "R:" ++ join " ;; " os ++ " ## O:" ++ join sep_lines o.

(* machine | reference | dump of the code of the successful inputs *)
Definition show_session (fuel mfuel : nat) (inputs : list (program Z)) : string :=
  let m := run_session (machine_run1 mfuel) [] [] inputs in
  let r := run_session (run_ref zops fuel) [] [] inputs in
  let c := compile (procs zops) (snd m) in
  show_session_result m ++ " || " ++ show_session_result r
  ++ " || " ++ (if code_too_large c then "" else show_compiled c).

(* one correspondence case (a single input): machine | reference | dump *)
Definition show_case (fuel mfuel : nat) (p : program Z) : string := show_session fuel mfuel [p].

