(* C14 — tie of the number text printed by NumFmt/Model.v to the lexer model of the syntax
   area (Syntax/Lexer.v, the model that C10 ties to the real tokenizer): the unsigned text
   of every structured literal the model prints, and of every integer, is scanned by
   scan_single_token as exactly ONE Number token whose lexeme is that text, with nothing
   left over (C10_lex_number / lex_number_complete does the lexer part). *)
From Coq Require Import List ZArith NArith Bool Lia String Ascii.
From NV Require Import NumFmt.Model NumFmt.Proofs NumFmt.ProofsF.
From NV Require Import Syntax.Token Syntax.Lexer Syntax.LexNumber.
Import ListNotations.
Local Open Scope N_scope.

(* a Coq string as a list of code points (the texts here are ASCII) *)
Fixpoint codes (s : string) : str :=
  match s with EmptyString => [] | String c r => N_of_ascii c :: codes r end.

Lemma codes_app : forall a b, codes (a ++ b)%string = codes a ++ codes b.
Proof. induction a as [|c a IH]; intros b; simpl; [reflexivity|]. rewrite IH. reflexivity. Qed.

Definition dcodes (ds : digits) : str := map (fun d => 48 + d) ds.

Lemma codes_digits : forall ds, wfd ds -> codes (show_digits ds) = dcodes ds.
Proof.
  induction ds as [|d ds IH]; intros W; [reflexivity|]. inversion W; subst.
  cbn [show_digits codes dcodes map]. unfold dchar. rewrite N_ascii_embedding by lia.
  f_equal. apply IH. assumption.
Qed.

Lemma dcodes_digit : forall ds, wfd ds -> forallb is_ascii_digit (dcodes ds) = true.
Proof.
  induction ds as [|d ds IH]; intros W; [reflexivity|]. inversion W; subst.
  cbn [dcodes map forallb]. fold (dcodes ds). rewrite IH by assumption.
  unfold is_ascii_digit, in_range. replace (48 <=? 48 + d) with true by (symmetry; apply N.leb_le; lia).
  replace (48 + d <=? 57) with true by (symmetry; apply N.leb_le; lia). reflexivity.
Qed.

Lemma digits_not_us_last : forall cs, forallb is_ascii_digit cs = true -> ends_us cs = false.
Proof.
  intros cs H. unfold ends_us. destruct (rev cs) as [|c r] eqn:E; [reflexivity|].
  assert (In c cs) by (apply in_rev; rewrite E; left; reflexivity).
  rewrite forallb_forall in H. specialize (H c H0).
  unfold is_ascii_digit, in_range in H. apply andb_prop in H. destruct H as [_ H]. apply N.leb_le in H.
  destruct c as [|p]; [reflexivity|]. destruct (N.eq_dec (N.pos p) 95) as [e|n]; [lia|].
  destruct p; try reflexivity; repeat (destruct p; try reflexivity); lia.
Qed.

Lemma dgroup_dcodes : forall ds, wfd ds -> ds <> [] -> dgroup (dcodes ds) = true.
Proof.
  intros ds W NE. pose proof (dcodes_digit ds W) as D. unfold dgroup.
  destruct ds as [|d ds]; [congruence|]. cbn [dcodes map] in *. cbn [forallb] in D.
  apply andb_prop in D. destruct D as [D1 D2]. rewrite D1. cbn [andb].
  assert (F : forallb is_dus ((48 + d) :: map (fun d0 => 48 + d0) ds) = true).
  { cbn [forallb]. unfold is_dus at 1. rewrite D1. cbn [orb andb].
    clear -D2. induction (map (fun d0 => 48 + d0) ds) as [|c r IH]; [reflexivity|].
    cbn [forallb] in *. apply andb_prop in D2. destruct D2 as [A B]. unfold is_dus at 1. rewrite A. cbn [orb andb]. apply IH. assumption. }
  rewrite F. cbn [andb]. rewrite digits_not_us_last; [reflexivity|]. cbn [forallb]. rewrite D1, D2. reflexivity.
Qed.

Lemma dgroup0_dcodes : forall ds, wfd ds -> dgroup0 (dcodes ds) = true.
Proof.
  intros ds W. unfold dgroup0. destruct ds as [|d r] eqn:E; [reflexivity|].
  cbn [dcodes map]. change ((48 + d) :: map (fun d0 => 48 + d0) r) with (dcodes (d :: r)).
  apply dgroup_dcodes; [assumption|discriminate].
Qed.

(* the structured literal of NumFmt/Model.v as a literal of the documented grammar (unsigned) *)
Definition exp_numlit (x : Z) : N * option N * str :=
  match x with
  | Zneg p => (101, Some 45, dcodes (dec_digits (Npos p)))
  | _ => (101, Some 43, dcodes (dec_digits (Z.to_N x)))
  end.
Definition to_numlit (l : lit) : numlit :=
  mk_num (dcodes (l_int l)) (option_map dcodes (l_frac l)) (option_map exp_numlit (l_exp l)).

Definition unsigned (l : lit) : lit := mkLit false (l_int l) (l_frac l) (l_exp l).

Lemma codes_show_exp : forall x, codes (show_exp true x) = pr_exp (Some (exp_numlit x)) -> True.
Proof. trivial. Qed.

Lemma codes_unsigned : forall l, wf_lit l -> codes (show_lit true (unsigned l)) = pr_num (to_numlit l).
Proof.
  intros [neg ip fr ex] (Wi & NEi & Wf). cbn [l_int l_frac l_exp l_neg] in *.
  unfold show_lit, unsigned, to_numlit, pr_num. cbn [l_int l_frac l_exp l_neg n_int n_frac n_exp].
  cbn [append]. rewrite !codes_app, codes_digits by assumption. f_equal. f_equal.
  - destruct fr as [f|]; [|reflexivity]. cbn [codes option_map pr_frac]. rewrite codes_digits by assumption. reflexivity.
  - destruct ex as [x|]; [|reflexivity]. cbn [codes option_map pr_exp]. unfold show_exp, exp_numlit.
    destruct x as [|p|p]; cbn [append codes app]; rewrite codes_digits by apply dec_digits_wf; reflexivity.
Qed.

Lemma wf_to_numlit : forall l, wf_lit l -> wf_num (to_numlit l) = true.
Proof.
  intros [neg ip fr ex] (Wi & NEi & Wf). cbn [l_int l_frac l_exp l_neg] in *.
  unfold wf_num, to_numlit. cbn [n_int n_frac n_exp l_int l_frac l_exp l_neg].
  destruct ip as [|d ip']; [congruence|].
  assert (G : dgroup (dcodes (d :: ip')) = true) by (apply dgroup_dcodes; [assumption|discriminate]).
  cbn [dcodes map] in *. rewrite G. cbn [andb].
  assert (Hf : match option_map dcodes fr with Some f => dgroup0 f | None => true end = true).
  { destruct fr as [f|]; [|reflexivity]. cbn [option_map]. apply dgroup0_dcodes. assumption. }
  rewrite Hf. cbn [andb].
  destruct ex as [x|]; [|reflexivity]. cbn [option_map wf_exp]. unfold exp_numlit.
  destruct x as [|p|p]; cbn [N.eqb Pos.eqb orb andb];
    rewrite dgroup_dcodes by (apply dec_digits_wf || apply dec_digits_nonempty); reflexivity.
Qed.

Lemma based_prefix_spec : forall c x r,
  based_prefix (c :: x :: r) = (c =? 48) && ((x =? 120) || (x =? 111) || (x =? 98)).
Proof.
  intros c x r. destruct (N.eqb_spec c 48) as [->|n]; [reflexivity|].
  cbn [andb]. unfold based_prefix.
  destruct c as [|p]; [reflexivity|].
  do 6 (destruct p as [p|p|]; try reflexivity).
  exfalso. apply n. reflexivity.
Qed.

Lemma based_prefix_short : forall c, based_prefix [c] = false.
Proof.
  intros c. unfold based_prefix. destruct c as [|p]; [reflexivity|].
  do 6 (destruct p as [p|p|]; try reflexivity).
Qed.

Lemma not_xob : forall x, x <> 120 -> x <> 111 -> x <> 98 -> (x =? 120) || (x =? 111) || (x =? 98) = false.
Proof.
  intros x A B C. apply N.eqb_neq in A. apply N.eqb_neq in B. apply N.eqb_neq in C. rewrite A, B, C. reflexivity.
Qed.

Lemma not_based : forall l, wf_lit l -> based_prefix (pr_num (to_numlit l) ++ []) = false.
Proof.
  intros [neg ip fr ex] (Wi & NEi & Wf). cbn [l_int l_frac l_exp l_neg] in *.
  unfold to_numlit, pr_num. cbn [n_int n_frac n_exp l_int l_frac l_exp l_neg]. rewrite app_nil_r.
  destruct ip as [|d [|d2 ip']]; [congruence| |].
  - (* one integer digit: the next character is '.', 'e' or nothing *)
    cbn [dcodes map app]. destruct fr as [f|]; cbn [option_map pr_frac app].
    + rewrite based_prefix_spec, not_xob by discriminate. apply andb_false_r.
    + destruct ex as [x|]; cbn [option_map pr_exp app].
      * unfold exp_numlit. destruct x; cbn [app]; rewrite based_prefix_spec, not_xob by discriminate; apply andb_false_r.
      * apply based_prefix_short.
  - (* two or more integer digits: the second character is a digit *)
    inversion Wi as [|? ? _ W2]; subst. inversion W2 as [|? ? H2 _]; subst.
    cbn [dcodes map app]. rewrite based_prefix_spec, not_xob by lia. apply andb_false_r.
Qed.

Section Tie.
  Variables xid_start xid_continue : N -> bool.
  Hypothesis digits_are_not_identifier_starts :
    forall c, is_ascii_digit c = true -> xid_start c = false.

  (* the unsigned text of a structured literal is exactly one Number token, in any lexer
     state (interpolation scope stack d, previous token la) *)
  Theorem literal_is_one_number_token : forall l (d : list bool) (la : option token), wf_lit l ->
    scan_single_token xid_start xid_continue d la (codes (show_lit true (unsigned l)))
    = LOk (Some (TNumber (codes (show_lit true (unsigned l)))), [], d).
  Proof.
    intros l d la W. rewrite (codes_unsigned l W).
    rewrite <- (app_nil_r (pr_num (to_numlit l))) at 1.
    apply (lex_number_complete xid_start xid_continue digits_are_not_identifier_starts).
    - apply wf_to_numlit. assumption.
    - reflexivity.
    - apply not_based. assumption.
  Qed.

  (* the digits of an integer are exactly one Number token *)
  Theorem integer_is_one_number_token : forall (n : N) (d : list bool) (la : option token),
    scan_single_token xid_start xid_continue d la (codes (show_digits (dec_digits n)))
    = LOk (Some (TNumber (codes (show_digits (dec_digits n)))), [], d).
  Proof.
    intros n d la.
    assert (W : wf_lit (mkLit false (dec_digits n) None None)).
    { repeat split; [apply dec_digits_wf|apply dec_digits_nonempty]. }
    pose proof (literal_is_one_number_token (mkLit false (dec_digits n) None None) d la W) as H.
    unfold unsigned, show_lit in H. cbn [l_int l_frac l_exp l_neg append] in H.
    rewrite !Proofs.append_nil_r in H. exact H.
  Qed.
End Tie.

(* the displayed text is an optional '-' followed by the unsigned text *)
Lemma show_lit_sign : forall l,
  show_lit true l = ((if l_neg l then String "-"%char EmptyString else EmptyString) ++ show_lit true (unsigned l))%string.
Proof. intros [neg ip fr ex]. unfold show_lit, unsigned. cbn [l_neg l_int l_frac l_exp]. reflexivity. Qed.
