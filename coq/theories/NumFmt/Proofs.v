(* C14 — proofs about NumFmt/Model.v *)
From Coq Require Import List ZArith NArith Bool Arith String Ascii Lia QArith Qpower.
From NV Require Import NumFmt.Model.
Import ListNotations.
Local Open Scope N_scope.

Definition wfd (ds : digits) : Prop := Forall (fun d => d < 10) ds.

Notation len l := (N.of_nat (List.length l)).

(* ------------------------------------------------------------------ val *)
Lemma val_acc : forall ds a,
  fold_left (fun a d => 10 * a + d) ds a = a * 10 ^ len ds + val ds.
Proof.
  induction ds as [|d ds IH]; intros a.
  - simpl. rewrite N.mul_1_r. unfold val. simpl. lia.
  - unfold val. cbn [fold_left]. rewrite IH, (IH (10 * 0 + d)).
    change (List.length (d :: ds)) with (S (List.length ds)).
    rewrite Nat2N.inj_succ, N.pow_succ_r'. ring.
Qed.

Lemma val_nil : val [] = 0. Proof. reflexivity. Qed.

Lemma val_cons : forall d ds, val (d :: ds) = d * 10 ^ len ds + val ds.
Proof. intros. unfold val at 1. cbn [fold_left]. rewrite val_acc. ring. Qed.

Lemma val_app : forall a b, val (a ++ b) = val a * 10 ^ len b + val b.
Proof. intros. unfold val at 1. rewrite fold_left_app. fold (val a). apply val_acc. Qed.

Lemma val_single : forall d, val [d] = d.
Proof. intros. rewrite val_cons. simpl. rewrite val_nil. lia. Qed.

Lemma pow10_pos : forall k, 0 < 10 ^ k.
Proof. intros. apply N.neq_0_lt_0. apply N.pow_nonzero. discriminate. Qed.

Lemma val_bound : forall ds, wfd ds -> val ds < 10 ^ len ds.
Proof.
  induction ds as [|d ds IH]; intros H.
  - simpl. rewrite val_nil. lia.
  - inversion H; subst. rewrite val_cons.
    change (List.length (d :: ds)) with (S (List.length ds)).
    rewrite Nat2N.inj_succ, N.pow_succ_r'. specialize (IH H3).
    pose proof (pow10_pos (len ds)). nia.
Qed.

Lemma val_zeros : forall k, val (zeros k) = 0.
Proof.
  induction k; [reflexivity|]. unfold zeros in *. simpl repeat. rewrite val_cons, IHk. lia.
Qed.

Lemma zeros_length : forall k, List.length (zeros k) = k.
Proof. intros. apply repeat_length. Qed.

Lemma wfd_zeros : forall k, wfd (zeros k).
Proof. intros. unfold wfd, zeros. apply Forall_forall. intros x Hx. apply repeat_spec in Hx. subst. lia. Qed.

Lemma wfd_app : forall a b, wfd a -> wfd b -> wfd (a ++ b).
Proof. intros. apply Forall_app. split; assumption. Qed.

(* ------------------------------------------------------------ dec_digits *)
Lemma digs_fuel_val : forall f n acc, val (digs_fuel f n acc) = n * 10 ^ len acc + val acc.
Proof.
  induction f as [|f IH]; intros n acc; cbn [digs_fuel].
  - apply val_cons.
  - destruct (n <? 10) eqn:E.
    + apply val_cons.
    + rewrite IH, val_cons.
      change (List.length (n mod 10 :: acc)) with (S (List.length acc)).
      rewrite Nat2N.inj_succ, N.pow_succ_r'.
      pose proof (N.div_mod n 10 ltac:(discriminate)) as D.
      set (q := n / 10) in *. set (r := n mod 10) in *. rewrite D. ring.
Qed.

Lemma dec_digits_val : forall n, val (dec_digits n) = n.
Proof. intros. unfold dec_digits. rewrite digs_fuel_val. simpl. rewrite val_nil. lia. Qed.

Lemma digs_fuel_wf : forall f n acc,
  n < 2 ^ N.of_nat f -> wfd acc -> wfd (digs_fuel f n acc).
Proof.
  induction f as [|f IH]; intros n acc Hn Hacc; cbn [digs_fuel].
  - simpl in Hn. constructor; [lia|assumption].
  - destruct (n <? 10) eqn:E.
    + apply N.ltb_lt in E. constructor; assumption.
    + apply IH.
      * rewrite Nat2N.inj_succ, N.pow_succ_r' in Hn.
        apply N.div_lt_upper_bound; [discriminate|]. lia.
      * constructor; [|assumption]. apply N.mod_lt. discriminate.
Qed.

Lemma dec_digits_wf : forall n, wfd (dec_digits n).
Proof.
  intros. unfold dec_digits. apply digs_fuel_wf; [|constructor].
  rewrite N2Nat.id. apply N.size_gt.
Qed.

Lemma digs_fuel_nonempty : forall f n acc, digs_fuel f n acc <> [].
Proof.
  induction f; intros; cbn [digs_fuel]; [discriminate|].
  destruct (n <? 10); [discriminate|apply IHf].
Qed.

Lemma dec_digits_nonempty : forall n, dec_digits n <> [].
Proof. intros. apply digs_fuel_nonempty. Qed.

(* --------------------------------------------------- characters and spans *)
Lemma digit_cases : forall d, d < 10 ->
  d = 0 \/ d = 1 \/ d = 2 \/ d = 3 \/ d = 4 \/ d = 5 \/ d = 6 \/ d = 7 \/ d = 8 \/ d = 9.
Proof. intros. lia. Qed.

Ltac digit_case H :=
  apply digit_cases in H;
  repeat (destruct H as [H|H]); subst.

Lemma digit_of_dchar : forall d, d < 10 -> digit_of (dchar d) = Some d.
Proof. intros d H. digit_case H; reflexivity. Qed.

Lemma dchar_not : forall d c, d < 10 -> digit_of c = None -> is_char (dchar d) c = false.
Proof.
  intros d c H Hc. unfold is_char. destruct (Ascii.eqb (dchar d) c) eqn:E; [|reflexivity].
  apply Ascii.eqb_eq in E. subst c. rewrite digit_of_dchar in Hc by assumption. discriminate.
Qed.

Definition nodigit_head (s : string) : Prop :=
  match s with EmptyString => True | String c _ => digit_of c = None end.

Lemma span_nodigit : forall s, nodigit_head s -> span_digits s = ([], s).
Proof. intros [|c r] H; simpl in *; [reflexivity|]. rewrite H. reflexivity. Qed.

Lemma span_show : forall ds rest, wfd ds -> nodigit_head rest ->
  span_digits (show_digits ds ++ rest) = (ds, rest).
Proof.
  induction ds as [|d ds IH]; intros rest H Hr.
  - simpl. apply span_nodigit. assumption.
  - inversion H; subst. cbn [show_digits append span_digits].
    rewrite digit_of_dchar by assumption. rewrite IH by assumption. reflexivity.
Qed.

Lemma append_nil_r : forall s : string, (s ++ "")%string = s.
Proof. induction s; simpl; [reflexivity|]. rewrite IHs. reflexivity. Qed.

Lemma span_show_end : forall ds, wfd ds -> span_digits (show_digits ds) = (ds, EmptyString).
Proof. intros. rewrite <- (append_nil_r (show_digits ds)). apply span_show; simpl; auto. Qed.

(* ------------------------------------------------------- separator removal *)
Definition sep_ok (sep : string) : Prop :=
  match sep with
  | EmptyString => True
  | String c _ => digit_of c = None /\ c <> "-"%char
  end.

Lemma prefix_app : forall a t, String.prefix a (a ++ t) = true.
Proof.
  induction a as [|c a IH]; intros t; simpl.
  - destruct t; reflexivity.
  - destruct (ascii_dec c c) as [_|n]; [apply IH|congruence].
Qed.

Lemma prefix_head_neq : forall c0 sr c r, c0 <> c -> String.prefix (String c0 sr) (String c r) = false.
Proof. intros. simpl. destruct (ascii_dec c0 c); [contradiction|reflexivity]. Qed.

Lemma rm_skip : forall sep a t, rm sep (String.length a) (a ++ t) = rm sep 0 t.
Proof.
  induction a as [|c a IH]; intros t; [reflexivity|].
  cbn [String.length append rm]. apply IH.
Qed.

Lemma rm_sep_prefix : forall c0 sr t,
  rm (String c0 sr) 0 (String c0 sr ++ t) = rm (String c0 sr) 0 t.
Proof.
  intros. cbn [append]. cbn [rm].
  change (String c0 (sr ++ t)) with (String c0 sr ++ t)%string.
  rewrite prefix_app. cbn [String.length]. rewrite Nat.sub_succ, Nat.sub_0_r.
  apply rm_skip.
Qed.

Lemma rm_other : forall c0 sr c r, c0 <> c ->
  rm (String c0 sr) 0 (String c r) = String c (rm (String c0 sr) 0 r).
Proof. intros. cbn [rm]. rewrite prefix_head_neq by assumption. reflexivity. Qed.

Lemma dchar_neq : forall c0 d, digit_of c0 = None -> d < 10 -> c0 <> dchar d.
Proof. intros c0 d H Hd E. subst. rewrite digit_of_dchar in H by assumption. discriminate. Qed.

Lemma rm_show_digits : forall c0 sr ds, digit_of c0 = None -> wfd ds ->
  rm (String c0 sr) 0 (show_digits ds) = show_digits ds.
Proof.
  induction ds as [|d ds IH]; intros H0 H; [reflexivity|].
  inversion H; subst. cbn [show_digits]. rewrite rm_other by (apply dchar_neq; assumption).
  rewrite IH by assumption. reflexivity.
Qed.

Lemma rm_grp : forall c0 sr ds, digit_of c0 = None -> wfd ds ->
  rm (String c0 sr) 0 (grp (String c0 sr) ds) = show_digits ds.
Proof.
  induction ds as [|d ds IH]; intros H0 H; [reflexivity|].
  inversion H; subst. cbn [grp show_digits].
  rewrite rm_other by (apply dchar_neq; assumption).
  destruct (_ && _).
  - rewrite rm_sep_prefix, IH by assumption. reflexivity.
  - rewrite IH by assumption. reflexivity.
Qed.

Definition sign_str (z : Z) (body : string) : string :=
  if (z <? 0)%Z then String "-"%char body else body.

(* C14_int_digits *)
Lemma int_digits : forall o z, sep_ok (o_sep o) ->
  exists s, fmt_int o z = Out s /\
            remove_sep (o_sep o) s = sign_str z (show_digits (dec_digits (Z.abs_N z))).
Proof.
  intros o z Hs. unfold fmt_int. eexists. split; [reflexivity|].
  pose proof (dec_digits_wf (Z.abs_N z)) as W.
  unfold remove_sep, use_grouping, sign_str.
  destruct (o_sep o) as [|c0 sr] eqn:Es.
  - simpl. reflexivity.
  - destruct Hs as [Hd Hm]. cbn [is_empty].
    destruct (_ && _); destruct (z <? 0)%Z;
      rewrite ?rm_other by assumption;
      rewrite ?rm_grp, ?rm_show_digits by assumption; reflexivity.
Qed.

Lemma is_char_dchar_minus : forall d, d < 10 -> is_char (dchar d) "-" = false.
Proof. intros. apply dchar_not; [assumption|reflexivity]. Qed.

(* C14_int: the digits read back as z *)
Lemma int_read : forall z,
  read_number (sign_str z (show_digits (dec_digits (Z.abs_N z)))) = Some (z, 0%Z).
Proof.
  intros z. pose proof (dec_digits_wf (Z.abs_N z)) as W.
  pose proof (dec_digits_nonempty (Z.abs_N z)) as NE.
  pose proof (dec_digits_val (Z.abs_N z)) as V.
  unfold sign_str, read_number.
  destruct (dec_digits (Z.abs_N z)) as [|d ds] eqn:E; [congruence|].
  assert (Hd : d < 10) by (inversion W; assumption).
  destruct (z <? 0)%Z eqn:Ez.
  - replace (is_char "-" "-") with true by reflexivity.
    rewrite span_show_end by assumption. cbn [List.length].
    rewrite app_nil_r, V. f_equal. f_equal.
    apply Z.ltb_lt in Ez. unfold signed. rewrite N2Z.inj_abs_N. lia.
  - cbn [show_digits]. rewrite is_char_dchar_minus by assumption.
    change (String (dchar d) (show_digits ds)) with (show_digits (d :: ds)).
    rewrite span_show_end by assumption. cbn [List.length].
    rewrite app_nil_r, V. f_equal. f_equal.
    apply Z.ltb_ge in Ez. unfold signed. rewrite N2Z.inj_abs_N. lia.
Qed.


(* the expansion has no leading zero (so it is the canonical decimal numeral of n) *)
Lemma digs_fuel_head : forall f n acc, n <> 0 -> hd 0 (digs_fuel f n acc) <> 0.
Proof.
  induction f as [|f IH]; intros n acc Hn; cbn [digs_fuel].
  - exact Hn.
  - destruct (n <? 10) eqn:E; [exact Hn|].
    apply IH. apply N.ltb_ge in E. intro H0.
    assert (n / 10 >= 1); [|lia].
    apply N.le_ge. apply N.div_le_lower_bound; lia.
Qed.

Lemma dec_digits_no_leading_zero : forall n, n <> 0 -> hd 0 (dec_digits n) <> 0.
Proof. intros. apply digs_fuel_head. assumption. Qed.

(* uniqueness of decimal numerals: digits below 10, no leading zero, same value => same list *)
Lemma val_lower : forall d ds, wfd (d :: ds) -> d <> 0 -> 10 ^ len ds <= val (d :: ds).
Proof.
  intros d ds W Hd. rewrite val_cons. pose proof (pow10_pos (len ds)).
  assert (1 <= d) by lia. nia.
Qed.

Lemma numeral_length_unique : forall a b, wfd a -> wfd b -> a <> [] -> b <> [] ->
  hd 0 a <> 0 -> hd 0 b <> 0 -> val a = val b -> List.length a = List.length b.
Proof.
  intros a b Wa Wb Na Nb Ha Hb E.
  destruct a as [|x a]; [congruence|]. destruct b as [|y b]; [congruence|]. cbn [hd] in *.
  pose proof (val_lower x a Wa Ha) as La. pose proof (val_lower y b Wb Hb) as Lb.
  pose proof (val_bound (x :: a) Wa) as Ua. pose proof (val_bound (y :: b) Wb) as Ub.
  cbn [List.length] in *. rewrite Nat2N.inj_succ in Ua, Ub. rewrite E in *.
  destruct (Nat.lt_trichotomy (List.length a) (List.length b)) as [L|[L|L]]; [|lia|].
  - exfalso. assert (10 ^ N.succ (len a) <= 10 ^ len b) by (apply N.pow_le_mono_r; lia). lia.
  - exfalso. assert (10 ^ N.succ (len b) <= 10 ^ len a) by (apply N.pow_le_mono_r; lia). lia.
Qed.

Lemma numeral_same_length_unique : forall a b, wfd a -> wfd b ->
  List.length a = List.length b -> val a = val b -> a = b.
Proof.
  induction a as [|x a IH]; intros b Wa Wb L E.
  - destruct b; [reflexivity|discriminate].
  - destruct b as [|y b]; [discriminate|]. injection L as L.
    inversion Wa; subst. inversion Wb; subst.
    rewrite !val_cons, L in E.
    pose proof (val_bound a H2) as Ba. pose proof (val_bound b H4) as Bb. rewrite L in Ba.
    set (P := 10 ^ len b) in *.
    assert (x = y) by nia. subst y. f_equal. apply IH; try assumption. lia.
Qed.

Theorem dec_digits_unique : forall n ds, n <> 0 -> wfd ds -> ds <> [] -> hd 0 ds <> 0 ->
  val ds = n -> ds = dec_digits n.
Proof.
  intros n ds Hn W NE H0 V.
  apply numeral_same_length_unique; try assumption; [apply dec_digits_wf| |rewrite dec_digits_val; assumption].
  apply numeral_length_unique; try assumption.
  - apply dec_digits_wf.
  - apply dec_digits_nonempty.
  - apply dec_digits_no_leading_zero. assumption.
  - rewrite dec_digits_val. assumption.
Qed.
