(* C14 — proofs about the float branch of NumFmt/Model.v *)
From Coq Require Import List ZArith NArith Bool Arith String Ascii Lia QArith Qpower.
From NV Require Import NumFmt.Model NumFmt.Proofs.
Import ListNotations.
Local Open Scope N_scope.

(* ---------------------------------------------------------------- rounding *)
Fixpoint valr (r : digits) : N := match r with [] => 0 | d :: r' => d + 10 * valr r' end.

Lemma val_rev : forall r, val (rev r) = valr r.
Proof.
  induction r as [|d r IH]; [reflexivity|].
  cbn [rev valr]. rewrite val_app, IH, val_single. change (len [d]) with 1. rewrite N.pow_1_r. lia.
Qed.

Lemma inc_rev_spec : forall r, r <> [] -> wfd r ->
  forall r' c, inc_rev r = (r', c) ->
  wfd r' /\ r' <> [] /\ (List.length r' <= List.length r)%nat /\
  valr r' * 10 ^ (N.of_nat (List.length r - List.length r') + (if c then 1 else 0)) = valr r + 1.
Proof.
  induction r as [|d r IH]; intros NE W r' c E; [congruence|].
  inversion W as [|? ? Hd Wr]; subst. cbn [inc_rev] in E.
  destruct (d + 1 <? 10) eqn:Ed.
  - inversion E; subst. apply N.ltb_lt in Ed. repeat split.
    + constructor; assumption.
    + discriminate.
    + simpl. lia.
    + rewrite Nat.sub_diag. cbn [valr]. change (N.of_nat 0 + 0) with 0. rewrite N.pow_0_r. lia.
  - apply N.ltb_ge in Ed. assert (d = 9) by lia. subst d.
    destruct r as [|x r0].
    + inversion E; subst. repeat split.
      * constructor; [lia|constructor].
      * discriminate.
      * simpl. lia.
    + specialize (IH ltac:(discriminate) Wr r' c E). destruct IH as (W' & NE' & L & V).
      repeat split; try assumption.
      * cbn [List.length] in *. lia.
      * replace (List.length (9%N :: x :: r0) - List.length r')%nat
          with (S (List.length (x :: r0) - List.length r')) by (cbn [List.length] in *; lia).
        rewrite Nat2N.inj_succ, N.add_succ_l, N.pow_succ_r'.
        change (valr (9 :: x :: r0)) with (9 + 10 * valr (x :: r0)).
        set (P := 10 ^ _) in *. replace (valr r' * (10 * P)) with (10 * (valr r' * P)) by ring.
        rewrite V. lia.
Qed.

(* the shortest decimal ds, cut to `limit` digits, rounded half-up (as an integer
   in units of the last kept digit) *)
Definition rounded (ds : digits) (limit : nat) : N :=
  if Nat.leb (List.length ds) limit then val ds
  else let T := 10 ^ N.of_nat (List.length ds - limit) in (2 * val ds + T) / (2 * T).

Lemma split_at : forall (ds : digits) n, (n < List.length ds)%nat ->
  ds = firstn n ds ++ nth n ds 0 :: skipn (S n) ds.
Proof.
  induction ds as [|d ds IH]; intros n H; [simpl in H; lia|].
  destruct n; [reflexivity|]. cbn [firstn nth skipn app]. f_equal. apply IH. simpl in H. lia.
Qed.

Lemma half_up_div : forall K r rest P, r < 10 -> rest < P ->
  (2 * (K * (10 * P) + r * P + rest) + 10 * P) / (2 * (10 * P)) = K + (if 5 <=? r then 1 else 0).
Proof.
  intros K r rest P Hr Hrest. symmetry.
  destruct (5 <=? r) eqn:E.
  - apply N.leb_le in E.
    apply N.div_unique with (r := 2 * (r - 5) * P + 2 * rest).
    + digit_case Hr; try lia; simpl; lia.
    + digit_case Hr; try lia; simpl; lia.
  - apply N.leb_gt in E.
    apply N.div_unique with (r := 2 * r * P + 2 * rest + 10 * P).
    + digit_case Hr; try lia; simpl; lia.
    + digit_case Hr; try lia; simpl; lia.
Qed.

Lemma wfd_firstn : forall n ds, wfd ds -> wfd (firstn n ds).
Proof. intros n ds H. rewrite <- (firstn_skipn n ds) in H. apply Forall_app in H. tauto. Qed.
Lemma wfd_skipn : forall n ds, wfd ds -> wfd (skipn n ds).
Proof. intros n ds H. rewrite <- (firstn_skipn n ds) in H. apply Forall_app in H. tauto. Qed.

Lemma round_sig_spec : forall ds e limit, wfd ds -> ds <> [] -> (1 <= limit)%nat ->
  exists ds' e' (k : nat),
    round_sig ds e limit = Some (ds', e') /\ wfd ds' /\ ds' <> [] /\
    (e' - Z.of_nat (List.length ds')
     = e - Z.of_nat (Nat.min (List.length ds) limit) + Z.of_nat k)%Z /\
    val ds' * 10 ^ N.of_nat k = rounded ds limit.
Proof.
  intros ds e limit W NE L1. unfold round_sig, rounded.
  destruct (Nat.leb (List.length ds) limit) eqn:El.
  - apply Nat.leb_le in El. exists ds, e, O. repeat split; try assumption.
    + rewrite Nat.min_l by assumption. lia.
    + change (N.of_nat 0) with 0. rewrite N.pow_0_r. lia.
  - apply Nat.leb_gt in El.
    pose proof (split_at ds limit El) as Sp.
    set (kept := firstn limit ds) in *. set (r := nth limit ds 0) in *.
    set (rest := skipn (S limit) ds) in *.
    assert (Lk : List.length kept = limit) by (apply firstn_length_le; lia).
    assert (Wk : wfd kept) by (apply wfd_firstn; assumption).
    assert (Wr : wfd rest) by (apply wfd_skipn; assumption).
    assert (Hr : r < 10).
    { rewrite Sp in W. apply Forall_app in W. destruct W as [_ W]. inversion W; assumption. }
    assert (Lr : (List.length ds - limit = S (List.length rest))%nat).
    { rewrite Sp at 1. rewrite app_length. cbn [List.length]. lia. }
    assert (NEk : kept <> []).
    { intro Hk. rewrite Hk in Lk. simpl in Lk. lia. }
    assert (V : (2 * val ds + 10 ^ N.of_nat (List.length ds - limit))
                / (2 * 10 ^ N.of_nat (List.length ds - limit))
                = val kept + (if 5 <=? r then 1 else 0)).
    { rewrite Lr, Nat2N.inj_succ, N.pow_succ_r'. rewrite Sp at 1.
      rewrite val_app, val_cons. cbn [List.length]. rewrite Nat2N.inj_succ, N.pow_succ_r'.
      set (P := 10 ^ len rest).
      replace (val kept * (10 * P) + (r * P + val rest))
        with (val kept * (10 * P) + r * P + val rest) by ring.
      apply half_up_div; [assumption|]. apply val_bound. assumption. }
    rewrite V. rewrite Nat.min_r by lia.
    destruct (5 <=? r) eqn:E5.
    + destruct kept as [|k0 kt] eqn:Ek; [congruence|]. rewrite <- Ek in *.
      destruct (inc_rev (rev kept)) as [r' c] eqn:Ei.
      assert (NErev : rev kept <> []).
      { intro Hk. apply (f_equal (@rev N)) in Hk. rewrite rev_involutive in Hk. simpl in Hk. congruence. }
      assert (Wrev : wfd (rev kept)) by (apply Forall_rev; assumption).
      destruct (inc_rev_spec (rev kept) NErev Wrev r' c Ei) as (W' & NE' & Ll & Vv).
      rewrite rev_length in *.
      exists (rev r'), (if c then (e + 1)%Z else e),
             (List.length kept - List.length r' + (if c then 1 else 0))%nat.
      repeat split.
      * apply Forall_rev. assumption.
      * intro Hk. apply (f_equal (@rev N)) in Hk. rewrite rev_involutive in Hk. simpl in Hk. congruence.
      * rewrite rev_length. destruct c; lia.
      * rewrite val_rev. rewrite Nat2N.inj_add.
        replace (N.of_nat (if c then 1 else 0)%nat) with (if c then 1 else 0) by (destruct c; reflexivity).
        rewrite Vv. rewrite <- val_rev, rev_involutive. reflexivity.
    + exists kept, e, O. repeat split; try assumption.
      * lia.
      * change (N.of_nat 0) with 0. rewrite N.pow_0_r. lia.
Qed.

(* the rounding is a nearest one, ties upward: W * T is the multiple of
   T = 10^(dropped digits) nearest to the value *)
Lemma rounded_nearest : forall ds limit, (limit < List.length ds)%nat ->
  let T := 10 ^ N.of_nat (List.length ds - limit) in
  let W := rounded ds limit in
  2 * T * W <= 2 * val ds + T /\ 2 * val ds + T < 2 * T * W + 2 * T.
Proof.
  intros ds limit H T W. unfold W, rounded.
  assert (El : Nat.leb (List.length ds) limit = false) by (apply Nat.leb_gt; assumption).
  rewrite El. fold T.
  assert (HT : 2 * T <> 0) by (pose proof (pow10_pos (N.of_nat (List.length ds - limit))); unfold T; lia).
  split.
  - apply N.mul_div_le. assumption.
  - pose proof (N.mul_succ_div_gt (2 * val ds + T) (2 * T) HT). lia.
Qed.

(* ------------------------------------------------ decimal values as rationals *)
Definition dQ (p : Z * Z) : Q := inject_Z (fst p) * (10 # 1) ^ (snd p).

Lemma ten_nz : ~ (10 # 1) == 0.
Proof. intro H. discriminate H. Qed.

Lemma dQ_shift : forall m e k, (0 <= k)%Z -> dQ ((m * 10 ^ k)%Z, e) == dQ (m, (e + k)%Z).
Proof.
  intros m e k Hk. unfold dQ. cbn [fst snd].
  rewrite inject_Z_mult, Zpower_Qpower by assumption.
  rewrite Qpower_plus by apply ten_nz.
  change (inject_Z 10) with (10 # 1). ring.
Qed.

Lemma signed_mul : forall neg a b, signed neg (a * b) = (signed neg a * Z.of_N b)%Z.
Proof. intros. unfold signed. destruct neg; rewrite N2Z.inj_mul; ring. Qed.

Lemma of_N_pow10 : forall k : nat, Z.of_N (10 ^ N.of_nat k) = (10 ^ Z.of_nat k)%Z.
Proof. intros. rewrite N2Z.inj_pow. rewrite nat_N_Z. reflexivity. Qed.

(* dQ of a value with k extra trailing zero digits *)
Lemma dQ_zeros : forall neg v (k : nat) e,
  dQ (signed neg (v * 10 ^ N.of_nat k), e) == dQ (signed neg v, (e + Z.of_nat k)%Z).
Proof.
  intros. rewrite signed_mul, of_N_pow10. apply dQ_shift. lia.
Qed.

(* ------------------------------------------------------------------ layout *)
Definition wf_lit (l : lit) : Prop :=
  wfd (l_int l) /\ l_int l <> [] /\
  match l_frac l with Some f => wfd f | None => True end.

Lemma layout_spec : forall neg ds e, wfd ds -> ds <> [] ->
  exists l, layout neg ds e = Some l /\ wf_lit l /\ l_neg l = neg /\
    dQ (lit_dec l) == dQ (signed neg (val ds), (e - Z.of_nat (List.length ds))%Z).
Proof.
  intros neg ds e W NE. unfold layout.
  destruct ((e >? 6) || (e <=? -6))%Z eqn:Ee.
  - destruct ds as [|d0 tl]; [congruence|]. inversion W as [|? ? Hd Wt]; subst.
    eexists. split; [reflexivity|]. unfold wf_lit, lit_dec. cbn [l_int l_frac l_exp l_neg].
    destruct tl as [|d1 tl].
    + repeat split; try (constructor; [assumption || lia|constructor]); try discriminate.
      change ([d0] ++ [0]) with ([d0] ++ zeros 1).
      rewrite val_app, val_zeros, zeros_length, N.add_0_r.
      rewrite dQ_zeros. cbn [List.length].
      replace (e - 1 - Z.of_nat 1 + Z.of_nat 1)%Z with (e - Z.of_nat 1)%Z by lia. reflexivity.
    + repeat split; try (constructor; [assumption|constructor]); try discriminate; try assumption.
      change ([d0] ++ d1 :: tl) with (d0 :: d1 :: tl).
      replace (e - 1 - Z.of_nat (List.length (d1 :: tl)))%Z
        with (e - Z.of_nat (List.length (d0 :: d1 :: tl)))%Z by (cbn [List.length]; lia).
      reflexivity.
  - destruct (e <=? 0)%Z eqn:E0.
    + apply Z.leb_le in E0.
      eexists. split; [reflexivity|]. unfold wf_lit, lit_dec. cbn [l_int l_frac l_exp l_neg].
      repeat split; try (constructor; [lia|constructor]); try discriminate.
      * apply wfd_app; [apply wfd_zeros|assumption].
      * rewrite app_length, zeros_length.
        change ([0] ++ zeros (Z.to_nat (- e)) ++ ds) with (zeros (S (Z.to_nat (- e))) ++ ds).
        rewrite val_app, val_zeros, N.mul_0_l, N.add_0_l.
        replace (0 - Z.of_nat (Z.to_nat (- e) + List.length ds))%Z
          with (e - Z.of_nat (List.length ds))%Z by lia. reflexivity.
    + apply Z.leb_gt in E0.
      destruct (Nat.ltb (Z.to_nat e) (List.length ds)) eqn:Ek.
      * apply Nat.ltb_lt in Ek.
        eexists. split; [reflexivity|]. unfold wf_lit, lit_dec. cbn [l_int l_frac l_exp l_neg].
        repeat split.
        -- apply wfd_firstn. assumption.
        -- intro Hk. apply (f_equal (@List.length N)) in Hk. rewrite firstn_length_le in Hk by lia.
           simpl in Hk. lia.
        -- apply wfd_skipn. assumption.
        -- rewrite firstn_skipn, skipn_length.
           replace (0 - Z.of_nat (List.length ds - Z.to_nat e))%Z
             with (e - Z.of_nat (List.length ds))%Z by lia. reflexivity.
      * apply Nat.ltb_ge in Ek.
        eexists. split; [reflexivity|]. unfold wf_lit, lit_dec. cbn [l_int l_frac l_exp l_neg].
        repeat split.
        -- apply wfd_app; [assumption|apply wfd_zeros].
        -- intro Hk. apply app_eq_nil in Hk. tauto.
        -- rewrite app_nil_r, val_app, val_zeros, zeros_length, N.add_0_r.
           rewrite dQ_zeros. cbn [List.length].
           replace (0 - Z.of_nat 0 + Z.of_nat (Z.to_nat e - List.length ds))%Z
             with (e - Z.of_nat (List.length ds))%Z by lia. reflexivity.
Qed.

(* ------------------------------------------------------------ post-processing *)
Definition allzero (z : digits) : Prop := Forall (fun d => d = 0) z.

Lemma allzero_zeros : forall z, allzero z -> z = zeros (List.length z).
Proof.
  induction z as [|d z IH]; intros H; [reflexivity|]. inversion H; subst.
  cbn [List.length]. unfold zeros in *. cbn [repeat]. f_equal. apply IH. assumption.
Qed.

Lemma trim_rev_spec : forall r, exists z, allzero z /\ r = z ++ trim_rev r.
Proof.
  induction r as [|d r IH].
  - exists []. split; [constructor|reflexivity].
  - destruct d as [|p].
    + destruct IH as (z & Hz & E). exists (0 :: z). split; [constructor; auto|].
      cbn [trim_rev app]. f_equal. assumption.
    + exists []. split; [constructor|reflexivity].
Qed.

Lemma trim_zeros_spec : forall f, exists k, f = trim_zeros f ++ zeros k.
Proof.
  intros f. destruct (trim_rev_spec (rev f)) as (z & Hz & E).
  exists (List.length (rev z)). unfold trim_zeros.
  rewrite <- (allzero_zeros (rev z)) by (apply Forall_rev; assumption).
  rewrite <- rev_app_distr, <- E, rev_involutive. reflexivity.
Qed.

Lemma post_spec : forall l, wf_lit l ->
  wf_lit (post l) /\ l_neg (post l) = l_neg l /\ dQ (lit_dec (post l)) == dQ (lit_dec l).
Proof.
  intros [neg ip fr ex] (Wi & NEi & Wf). unfold post. cbn [l_int l_frac l_exp l_neg] in *.
  destruct fr as [f|]; [|repeat split; auto; reflexivity].
  destruct ex as [x|]; [repeat split; auto; reflexivity|].
  destruct (trim_zeros_spec f) as (k & Ef).
  set (f' := trim_zeros f) in *.
  assert (Wf' : wfd f') by (rewrite Ef in Wf; apply Forall_app in Wf; tauto).
  unfold wf_lit, lit_dec. cbn [l_int l_frac l_exp l_neg].
  assert (Eq0 : dQ (signed neg (val (ip ++ f)), (0 - Z.of_nat (List.length f))%Z)
                == dQ (signed neg (val (ip ++ f')), (0 - Z.of_nat (List.length f'))%Z)).
  { rewrite Ef at 1 2. rewrite app_assoc, val_app, val_zeros, zeros_length, N.add_0_r.
    rewrite dQ_zeros. rewrite app_length, zeros_length.
    replace (0 - Z.of_nat (List.length f' + k) + Z.of_nat k)%Z
      with (0 - Z.of_nat (List.length f'))%Z by lia. reflexivity. }
  destruct f' as [|d f''] eqn:Ef'.
  - repeat split; auto.
    + constructor; [lia|constructor].
    + rewrite Eq0. rewrite app_nil_r.
      change (ip ++ [0]) with (ip ++ zeros 1).
      rewrite val_app, val_zeros, zeros_length, N.add_0_r, dQ_zeros.
      cbn [List.length]. reflexivity.
  - repeat split; auto. rewrite Eq0. reflexivity.
Qed.

(* ---------------------------------------- printed literals are read back exactly *)
Lemma is_char_dchar : forall d c, d < 10 -> digit_of c = None -> is_char (dchar d) c = false.
Proof. exact dchar_not. Qed.

Lemma read_show_exp : forall x mant fl,
  (let (eneg, r1) := match show_exp true x with
                     | String c' r' => if is_char c' "+" then (false, r')
                                       else if is_char c' "-" then (true, r') else (false, show_exp true x)
                     | _ => (false, show_exp true x)
                     end in
   let (ep, r2) := span_digits r1 in
   match ep, r2 with
   | _ :: _, EmptyString => Some (mant, (signed eneg (val ep) - fl)%Z)
   | _, _ => None
   end) = Some (mant : Z, (x - fl)%Z).
Proof.
  intros x mant fl. unfold show_exp.
  destruct x as [|p|p].
  - cbn [append]. replace (is_char "+" "+") with true by reflexivity.
    rewrite span_show_end by apply dec_digits_wf.
    pose proof (dec_digits_nonempty (Z.to_N 0)). pose proof (dec_digits_val (Z.to_N 0)) as V.
    destruct (dec_digits (Z.to_N 0)); [congruence|]. rewrite V. reflexivity.
  - cbn [append]. replace (is_char "+" "+") with true by reflexivity.
    rewrite span_show_end by apply dec_digits_wf.
    pose proof (dec_digits_nonempty (Z.to_N (Z.pos p))).
    pose proof (dec_digits_val (Z.to_N (Z.pos p))) as V.
    destruct (dec_digits (Z.to_N (Z.pos p))); [congruence|]. rewrite V. reflexivity.
  - replace (is_char "-" "+") with false by reflexivity.
    replace (is_char "-" "-") with true by reflexivity.
    rewrite span_show_end by apply dec_digits_wf.
    pose proof (dec_digits_nonempty (N.pos p)).
    pose proof (dec_digits_val (N.pos p)) as V.
    destruct (dec_digits (N.pos p)); [congruence|]. rewrite V. reflexivity.
Qed.

Lemma read_show : forall l, wf_lit l -> read_number (show_lit true l) = Some (lit_dec l).
Proof.
  intros [neg ip fr ex] (Wi & NEi & Wf). cbn [l_int l_frac l_exp l_neg] in *.
  unfold show_lit, lit_dec. cbn [l_int l_frac l_exp l_neg].
  set (expart := match ex with
                 | Some x => String "e" (show_exp true x)
                 | None => EmptyString
                 end).
  set (frpart := match fr with
                 | Some f => String "." (show_digits f)
                 | None => EmptyString
                 end).
  assert (Hex : nodigit_head expart) by (unfold expart; destruct ex; simpl; auto).
  assert (Hfr : nodigit_head (frpart ++ expart)%string)
    by (unfold frpart; destruct fr; simpl; auto).
  destruct ip as [|d ip']; [congruence|].
  assert (Hd : d < 10) by (inversion Wi; assumption).
  unfold read_number.
  (* the sign *)
  assert (Hsign :
    (let (neg0, s1) :=
       match ((if neg then String "-" EmptyString else EmptyString)
              ++ show_digits (d :: ip') ++ frpart ++ expart)%string with
       | String c r => if is_char c "-" then (true, r)
                       else (false, ((if neg then String "-" EmptyString else EmptyString)
                                     ++ show_digits (d :: ip') ++ frpart ++ expart)%string)
       | EmptyString => (false, ((if neg then String "-" EmptyString else EmptyString)
                                  ++ show_digits (d :: ip') ++ frpart ++ expart)%string)
       end in (neg0, s1)) = (neg, (show_digits (d :: ip') ++ frpart ++ expart)%string)).
  { destruct neg.
    - reflexivity.
    - cbn [append show_digits]. rewrite is_char_dchar by (assumption || reflexivity). reflexivity. }
  match goal with |- (let (neg0, s1) := ?m in _) = _ =>
    replace m with (neg, (show_digits (d :: ip') ++ frpart ++ expart)%string)
  end.
  2:{ symmetry. revert Hsign. generalize ((if neg then String "-" EmptyString else EmptyString)
              ++ show_digits (d :: ip') ++ frpart ++ expart)%string.
      intros s. destruct s as [|c r]; [auto|]. destruct (is_char c "-"); auto. }
  rewrite span_show by assumption.
  (* fraction *)
  assert (Hfrac :
    (match (frpart ++ expart)%string with
     | String c r => if is_char c "." then span_digits r else ([], (frpart ++ expart)%string)
     | EmptyString => ([], (frpart ++ expart)%string)
     end) = (match fr with Some f => f | None => [] end, expart)).
  { unfold frpart. destruct fr as [f|].
    - cbn [append]. replace (is_char "." ".") with true by reflexivity.
      apply span_show; assumption.
    - cbn [append]. unfold expart. destruct ex; [|reflexivity].
      replace (is_char "e" ".") with false by reflexivity. reflexivity. }
  rewrite Hfrac.
  unfold expart. destruct ex as [x|].
  - replace (is_char "e" "e") with true by reflexivity.
    apply read_show_exp.
  - repeat f_equal; lia.
Qed.

(* ----------------------------------------------------------- the float branch *)
Lemma sig_limit_pos : forall sig, (1 <= sig_limit sig)%nat.
Proof. intros. unfold sig_limit. lia. Qed.

Theorem float_correct : forall o neg ds e, wfd ds -> ds <> [] ->
  let limit := sig_limit (o_sig o) in
  exists l,
    display o (CFloat neg ds e) = Out (show_lit true l) /\
    read_number (show_lit true l) = Some (lit_dec l) /\
    dQ (lit_dec l)
    == dQ (signed neg (rounded ds limit),
           (e - Z.of_nat (Nat.min (List.length ds) limit))%Z).
Proof.
  intros o neg ds e W NE limit.
  destruct (round_sig_spec ds e limit W NE (sig_limit_pos _)) as (ds' & e' & k & Er & W' & NE' & Ee & Ev).
  destruct (layout_spec neg ds' e' W' NE') as (l & El & Wl & Nl & Ql).
  destruct (post_spec l Wl) as (Wp & Np & Qp).
  exists (post l). split; [|split].
  - unfold display, dtoa. fold limit. rewrite Er, El. reflexivity.
  - apply read_show. assumption.
  - rewrite Qp, Ql. rewrite <- Ev. rewrite dQ_zeros. rewrite Ee.
    replace (e - Z.of_nat (Nat.min (List.length ds) limit) + Z.of_nat k - Z.of_nat k)%Z
      with (e - Z.of_nat (Nat.min (List.length ds) limit))%Z by lia.
    rewrite <- Ee. 
    replace (e' - Z.of_nat (List.length ds'))%Z
      with (e - Z.of_nat (Nat.min (List.length ds) limit) + Z.of_nat k)%Z by lia.
    reflexivity.
Qed.

(* ----------------------------------------------------- the integer branch, whole *)
Theorem int_correct : forall o z, sep_ok (o_sep o) ->
  exists s, display o (CInt z) = Out s /\
            remove_sep (o_sep o) s = sign_str z (show_digits (dec_digits (Z.abs_N z))) /\
            wfd (dec_digits (Z.abs_N z)) /\ val (dec_digits (Z.abs_N z)) = Z.abs_N z.
Proof.
  intros o z H. destruct (int_digits o z H) as (s & E & R). exists s.
  repeat split; try assumption. apply dec_digits_wf. apply dec_digits_val.
Qed.

Theorem int_read_back : forall o z, sep_ok (o_sep o) ->
  exists s, display o (CInt z) = Out s /\
            read_number (remove_sep (o_sep o) s) = Some (z, 0%Z).
Proof.
  intros o z H. destruct (int_digits o z H) as (s & E & R). exists s.
  split; [assumption|]. rewrite R. apply int_read.
Qed.

Theorem special_correct : forall o,
  display o CNaN = Out "NaN"%string /\
  display o (CInf false) = Out "inf"%string /\
  display o (CInf true) = Out "-inf"%string.
Proof. intros. repeat split. Qed.

(* ------------------------------------- the float text contains no separator *)
Definition lit_char (c : ascii) : bool :=
  match digit_of c with
  | Some _ => true
  | None => is_char c "-" || is_char c "+" || is_char c "." || is_char c "e"
  end.

Fixpoint all_chars (p : ascii -> bool) (s : string) : bool :=
  match s with EmptyString => true | String c r => p c && all_chars p r end.

Lemma all_chars_app : forall p a b, all_chars p (a ++ b) = all_chars p a && all_chars p b.
Proof. induction a as [|c a IH]; intros b; simpl; [reflexivity|]. rewrite IH, andb_assoc. reflexivity. Qed.

Lemma all_chars_digits : forall ds, wfd ds -> all_chars lit_char (show_digits ds) = true.
Proof.
  induction ds as [|d ds IH]; intros W; [reflexivity|]. inversion W; subst.
  cbn [show_digits all_chars]. unfold lit_char at 1. rewrite digit_of_dchar by assumption.
  rewrite IH by assumption. reflexivity.
Qed.

Lemma all_chars_exp : forall x, all_chars lit_char (show_exp true x) = true.
Proof.
  intros x. unfold show_exp. destruct x; cbn [append all_chars];
    rewrite ?all_chars_digits by apply dec_digits_wf; reflexivity.
Qed.

Lemma all_chars_lit : forall l, wf_lit l -> all_chars lit_char (show_lit true l) = true.
Proof.
  intros [neg ip fr ex] (Wi & _ & Wf). cbn [l_int l_frac l_exp l_neg] in *. unfold show_lit.
  cbn [l_int l_frac l_exp l_neg]. rewrite !all_chars_app.
  rewrite all_chars_digits by assumption.
  assert (H1 : all_chars lit_char (if neg then String "-" EmptyString else EmptyString) = true)
    by (destruct neg; reflexivity).
  assert (H2 : all_chars lit_char match fr with Some f => String "." (show_digits f) | None => EmptyString end = true).
  { destruct fr as [f|]; [|reflexivity]. cbn [all_chars]. rewrite all_chars_digits by assumption. reflexivity. }
  assert (H3 : all_chars lit_char match ex with Some x => String "e" (show_exp true x) | None => EmptyString end = true).
  { destruct ex as [x|]; [|reflexivity]. cbn [all_chars]. rewrite all_chars_exp. reflexivity. }
  rewrite H1, H2, H3. reflexivity.
Qed.

Lemma rm_noop : forall c0 sr s, lit_char c0 = false -> all_chars lit_char s = true ->
  rm (String c0 sr) 0 s = s.
Proof.
  induction s as [|c s IH]; intros H0 H; [reflexivity|].
  cbn [all_chars] in H. apply andb_true_iff in H. destruct H as [Hc Hs].
  rewrite rm_other; [rewrite IH by assumption; reflexivity|].
  intro E. subst. rewrite H0 in Hc. discriminate.
Qed.

(* separators that cannot be confused with the characters of a number *)
Definition sep_lit_ok (sep : string) : Prop :=
  match sep with EmptyString => True | String c _ => lit_char c = false end.

Lemma float_no_sep : forall sep l, wf_lit l -> sep_lit_ok sep ->
  remove_sep sep (show_lit true l) = show_lit true l.
Proof.
  intros sep l W H. unfold remove_sep. destruct sep as [|c0 sr]; [reflexivity|].
  cbn [is_empty]. apply rm_noop; [exact H|apply all_chars_lit; assumption].
Qed.

Theorem float_correct_sep : forall o neg ds e, wfd ds -> ds <> [] ->
  let limit := sig_limit (o_sig o) in
  exists l,
    display o (CFloat neg ds e) = Out (show_lit true l) /\
    (sep_lit_ok (o_sep o) -> remove_sep (o_sep o) (show_lit true l) = show_lit true l) /\
    read_number (show_lit true l) = Some (lit_dec l) /\
    dQ (lit_dec l)
    == dQ (signed neg (rounded ds limit),
           (e - Z.of_nat (Nat.min (List.length ds) limit))%Z).
Proof.
  intros o neg ds e W NE limit.
  destruct (round_sig_spec ds e limit W NE (sig_limit_pos _)) as (ds' & e' & k & Er & W' & NE' & Ee & Ev).
  destruct (layout_spec neg ds' e' W' NE') as (l & El & Wl & Nl & Ql).
  destruct (post_spec l Wl) as (Wp & Np & Qp).
  destruct (float_correct o neg ds e W NE) as (l2 & D2 & R2 & Q2).
  assert (El2 : show_lit true l2 = show_lit true (post l)).
  { unfold display, dtoa in D2. fold limit in D2. rewrite Er, El in D2. inversion D2. reflexivity. }
  exists (post l). split; [|split; [|split]].
  - rewrite <- El2. exact D2.
  - intros Hs. apply float_no_sep; assumption.
  - apply read_show. assumption.
  - rewrite Qp, Ql. rewrite <- Ev. rewrite dQ_zeros.
    replace (e' - Z.of_nat (List.length ds'))%Z
      with (e - Z.of_nat (Nat.min (List.length ds) limit) + Z.of_nat k)%Z by lia.
    reflexivity.
Qed.
