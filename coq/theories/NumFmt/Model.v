(* C14 — model of numbat/src/number.rs Number::pretty_print_with_dtoa_config
   (dtoa_config = None), including the part of pretty_dtoa 0.3.0
   (digits_to_a with numbat's configuration: max_sig_digits = Some(sig as u8),
   round, add_point_zero(false), lower_e_break(-6), upper_e_break(6)) that turns
   the shortest decimal digits of the f64 into text.

   What is NOT modelled: the conversion f64 -> shortest round-trip decimal digits
   (ryu d2d) — the digits and the decimal exponent are inputs of the model — and
   the classification of the f64 (NaN / infinite / integer below 2^53 / other).
   No proofs in this file. *)
From Coq Require Import List ZArith NArith Bool Arith String Ascii.
Import ListNotations.
Local Open Scope N_scope.

(* ---------------------------------------------------------------- digits *)
(* digit lists are most-significant first; a digit is an N below 10 *)
Definition digits := list N.

Definition val (ds : digits) : N := fold_left (fun a d => 10 * a + d) ds 0.

Definition dchar (d : N) : ascii := ascii_of_N (48 + d).
Fixpoint show_digits (ds : digits) : string :=
  match ds with [] => EmptyString | d :: r => String (dchar d) (show_digits r) end.

(* decimal expansion of n (what Rust's integer Display / num_format's itoa give) *)
Fixpoint digs_fuel (fuel : nat) (n : N) (acc : digits) : digits :=
  match fuel with
  | O => n :: acc
  | S f => if n <? 10 then n :: acc else digs_fuel f (n / 10) (n mod 10 :: acc)
  end.
Definition dec_digits (n : N) : digits := digs_fuel (N.to_nat (N.size n)) n [].

(* ------------------------------------------------------------ the options *)
Record options := mkOpt { o_sep : string; o_thr : nat; o_sig : nat }.

Inductive outcome (A : Type) := Panic | Out (a : A).
Arguments Panic {A}. Arguments Out {A} a.

(* ---------------------------------------------------------- integer branch *)
(* num_format, Grouping::Standard: a separator between groups of three counted
   from the right; Grouping::Posix with an empty grouping string: none. *)
Fixpoint grp (sep : string) (ds : digits) : string :=
  match ds with
  | [] => EmptyString
  | d :: r =>
      String (dchar d)
        (if andb (Nat.eqb (List.length r mod 3) 0) (negb (Nat.eqb (List.length r) 0))
         then sep ++ grp sep r else grp sep r)
  end.

Definition is_empty (s : string) : bool := match s with EmptyString => true | _ => false end.

(* self.0.abs() >= 10.0_f64.powf(threshold - 1.0) ; threshold 0 gives 0.1 *)
Definition use_grouping (o : options) (a : N) : bool :=
  negb (is_empty (o_sep o)) &&
  match o_thr o with O => 1 <=? a | S t => 10 ^ N.of_nat t <=? a end.

(* num_format groups with the one-byte placeholder "," (its CustomFormat accepts at
   most 8 bytes), then number.rs substitutes the configured separator:
   formatted.replace(',', &options.digit_separator) — digits and "-" contain no comma,
   so the result is the grouping with the configured separator, whatever its length *)
Definition fmt_int (o : options) (z : Z) : outcome string :=
  let a := Z.abs_N z in
  let body := if use_grouping o a then grp (o_sep o) (dec_digits a)
              else show_digits (dec_digits a) in
  Out (if (z <? 0)%Z then String "-"%char body else body).

(* ------------------------------------------------------------ float branch *)
(* a decimal literal in structured form *)
Record lit := mkLit { l_neg : bool; l_int : digits; l_frac : option digits; l_exp : option Z }.

Inductive fout := FNaN | FInf (neg : bool) | FLit (l : lit).

(* pretty_dtoa digits_to_a, "round up" loop, on the reversed digit vector:
   l = len-1; d[l] += 1; while d[l] == 10 { if l == 0 { d[0] = 1; e += 1; break }
   d.pop(); l -= 1; d[l] += 1 }   — result and whether e was incremented *)
Fixpoint inc_rev (r : digits) : digits * bool :=
  match r with
  | [] => ([], false)
  | d :: r' =>
      if d + 1 <? 10 then (d + 1 :: r', false)
      else match r' with
           | [] => ([1], true)
           | _ => inc_rev r'
           end
  end.

(* max_sig_digits step.  None = `digits.len() - 1` underflows (limit = 0). *)
Definition round_sig (ds : digits) (e : Z) (limit : nat) : option (digits * Z) :=
  if Nat.leb (List.length ds) limit then Some (ds, e) else
  let kept := firstn limit ds in
  if 5 <=? nth limit ds 0 then
    match kept with
    | [] => None
    | _ => let (r, c) := inc_rev (rev kept) in Some (rev r, if c then (e + 1)%Z else e)
    end
  else Some (kept, e).

Definition zeros (k : nat) : digits := repeat 0 k.

(* final formatting stage of digits_to_a for numbat's configuration.
   None = index out of bounds (digits[0] on an empty vector). *)
Definition layout (neg : bool) (ds : digits) (e : Z) : option lit :=
  if ((e >? 6) || (e <=? -6))%Z then
    match ds with
    | [] => None
    | d0 :: tl =>
        Some (mkLit neg [d0] (Some (match tl with [] => [0] | _ => tl end)) (Some (e - 1)%Z))
    end
  else if (e <=? 0)%Z then
    Some (mkLit neg [0] (Some (zeros (Z.to_nat (- e)) ++ ds)) None)
  else
    let k := Z.to_nat e in
    if Nat.ltb k (List.length ds) then Some (mkLit neg (firstn k ds) (Some (skipn k ds)) None)
    else Some (mkLit neg (ds ++ zeros (k - List.length ds)) None None).

(* dtoa(number, config) for a finite non-zero value with shortest digits ds and
   value 0.ds * 10^e ; the limit is `options.significant_digits.clamp(1, 255) as u8` *)
Definition sig_limit (sig : nat) : nat := Nat.max 1 (Nat.min sig 255).

Definition dtoa (neg : bool) (ds : digits) (e : Z) (sig : nat) : outcome lit :=
  match round_sig ds e (sig_limit sig) with
  | None => Panic
  | Some (ds', e') => match layout neg ds' e' with None => Panic | Some l => Out l end
  end.

(* number.rs post-processing of the dtoa string:
   contains '.' and no 'e'  -> trim_end_matches('0'), then add "0" after a final '.'
   contains 'e' but no "e-" -> 'e' becomes "e+"  (done by the printer, flag plus) *)
Fixpoint trim_rev (r : digits) : digits :=
  match r with
  | 0 :: r' => trim_rev r'
  | _ => r
  end.
Definition trim_zeros (ds : digits) : digits := rev (trim_rev (rev ds)).

Definition post (l : lit) : lit :=
  match l_frac l, l_exp l with
  | Some f, None =>
      let f' := trim_zeros f in
      mkLit (l_neg l) (l_int l) (Some (match f' with [] => [0] | _ => f' end)) None
  | _, _ => l
  end.

Definition show_exp (plus : bool) (x : Z) : string :=
  match x with
  | Zneg p => String "-"%char (show_digits (dec_digits (Npos p)))
  | _ => (if plus then String "+"%char EmptyString else EmptyString) ++ show_digits (dec_digits (Z.to_N x))
  end.

(* plus = false: the raw pretty_dtoa text; plus = true: after numbat's e -> e+ *)
Definition show_lit (plus : bool) (l : lit) : string :=
  ((if l_neg l then String "-"%char EmptyString else EmptyString)
   ++ show_digits (l_int l)
   ++ match l_frac l with None => EmptyString | Some f => String "."%char (show_digits f) end
   ++ match l_exp l with None => EmptyString | Some x => String "e"%char (show_exp plus x) end)%string.

Definition show_fout (o : fout) : string :=
  match o with
  | FNaN => "NaN"
  | FInf false => "inf"
  | FInf true => "-inf"
  | FLit l => show_lit true l
  end.

(* ------------------------------------------------------- the whole function *)
(* classification of the f64 (done outside the model) *)
Inductive fclass :=
| CNaN
| CInf (neg : bool)
| CInt (z : Z)                                (* trunc(x) = x and |x| < 2^53 *)
| CFloat (neg : bool) (ds : digits) (e : Z).  (* anything else; x = ± 0.ds * 10^e, shortest digits *)

Definition display (o : options) (c : fclass) : outcome string :=
  match c with
  | CNaN => Out (show_fout FNaN)
  | CInf n => Out (show_fout (FInf n))
  | CInt z => fmt_int o z
  | CFloat n ds e =>
      match dtoa n ds e (o_sig o) with
      | Panic => Panic
      | Out l => Out (show_fout (FLit (post l)))
      end
  end.

(* ------------------------------------------- reading: separators and literals *)
(* str::replace(sep, "") for a non-empty sep: left-to-right, non-overlapping *)
Fixpoint rm (sep : string) (skip : nat) (s : string) : string :=
  match s with
  | EmptyString => EmptyString
  | String c r =>
      match skip with
      | S k => rm sep k r
      | O => if String.prefix sep s then rm sep (String.length sep - 1) r
             else String c (rm sep 0 r)
      end
  end.
Definition remove_sep (sep s : string) : string := if is_empty sep then s else rm sep 0 s.

(* numbat's number-literal syntax without underscores (tokenizer.rs: digits,
   optional '.' digits*, optional e[+-]digits+), preceded by an optional unary
   minus; the value is mantissa * 10^exponent *)
Definition digit_of (c : ascii) : option N :=
  let n := N_of_ascii c in if (48 <=? n) && (n <=? 57) then Some (n - 48) else None.

Fixpoint span_digits (s : string) : digits * string :=
  match s with
  | EmptyString => ([], EmptyString)
  | String c r => match digit_of c with
                  | Some d => let (ds, t) := span_digits r in (d :: ds, t)
                  | None => ([], s)
                  end
  end.

Definition signed (neg : bool) (n : N) : Z := if neg then (- Z.of_N n)%Z else Z.of_N n.

Definition is_char (c d : ascii) : bool := Ascii.eqb c d.

Definition read_number (s : string) : option (Z * Z) :=
  let (neg, s1) := match s with
                   | String c r => if is_char c "-" then (true, r) else (false, s)
                   | _ => (false, s)
                   end in
  let (ip, s2) := span_digits s1 in
  match ip with [] => None | _ =>
    let (fp, s3) := match s2 with
                    | String c r => if is_char c "." then span_digits r else ([], s2)
                    | _ => ([], s2)
                    end in
    let mant := signed neg (val (ip ++ fp)) in
    let fl := Z.of_nat (List.length fp) in
    match s3 with
    | EmptyString => Some (mant, (- fl)%Z)
    | String c r =>
        if is_char c "e" then
          let (eneg, r1) := match r with
                            | String c' r' => if is_char c' "+" then (false, r')
                                              else if is_char c' "-" then (true, r') else (false, r)
                            | _ => (false, r)
                            end in
          let (ep, r2) := span_digits r1 in
          match ep, r2 with
          | _ :: _, EmptyString => Some (mant, (signed eneg (val ep) - fl)%Z)
          | _, _ => None
          end
        else None
    end
  end.

(* the decimal value (mantissa, exponent) denoted by a structured literal *)
Definition lit_dec (l : lit) : Z * Z :=
  let f := match l_frac l with None => [] | Some f => f end in
  (signed (l_neg l) (val (l_int l ++ f)),
   (match l_exp l with None => 0 | Some x => x end - Z.of_nat (List.length f))%Z).
