(* C14 — observation printer for the correspondence check: the same line the
   harness subcommand `fmt` prints before the read-back part. *)
From Coq Require Import PrimFloat.
From NV Require Import Base.Show NumFmt.Model NumFmt.Classify.
Local Open Scope string_scope.

Definition show_case (o : options) (c : fclass) : string :=
  match display o c with
  | Panic => "P"
  | Out s => "F:" ++ s
  end.

(* the same, with the classification done in the model from the f64 itself *)
Definition show_case_f64 (o : options) (f : float) (ds : digits) (e10 : Z) : string :=
  match display_f64 o f ds e10 with
  | Panic => "P"
  | Out s => "F:" ++ s
  end.
