(* C14 — observation printer for the correspondence check: the same line the
   harness subcommand `fmt` prints before the read-back part. *)
From NV Require Import Base.Show NumFmt.Model.
Local Open Scope string_scope.

Definition show_case (o : options) (c : fclass) : string :=
  match display o c with
  | Panic => "P"
  | Out s => "F:" ++ s
  end.
