(* C14 — classification of the f64 inside the model (executable glue, no theorems):
   number.rs  `self.is_integer() && self.0.abs() < 2^53`  on the kernel's primitive
   binary64 value, and a check that the digits supplied from outside (shortest
   round-trip digits, computed by Python's repr) denote a decimal inside the rounding
   interval of that very f64.  Used by the correspondence check only: the theorems of
   Props/C14.v are about `display` on every class. *)
From Coq Require Import ZArith NArith List Bool String PrimFloat FloatOps SpecFloat.
From NV Require Import NumFmt.Model.
Import ListNotations.
Local Open Scope Z_scope.

Definition two53 : Z := 2 ^ 53.

(* value = (-1)^s * m * 2^e as an integer, if it is one *)
Definition integer_value (m : positive) (e : Z) : option Z :=
  if 0 <=? e then Some (Zpos m * 2 ^ e)
  else let d := 2 ^ (- e) in if (Zpos m) mod d =? 0 then Some (Zpos m / d) else None.

(* D = val ds * 10^(e10 - #ds) lies between the midpoints to the neighbouring floats of
   m * 2^e (exact integer comparison after clearing denominators) *)
Definition in_rounding_interval (m : positive) (e : Z) (ds : digits) (e10 : Z) : bool :=
  let k := e10 - Z.of_nat (List.length ds) in
  let v := Z.of_N (val ds) in
  (* compare  v * 10^k  with  (2m ± 1) * 2^(e-1) *)
  let scale10 := if 0 <=? k then (10 ^ k, 1) else (1, 10 ^ (- k)) in
  let scale2 := if 0 <=? e - 1 then (2 ^ (e - 1), 1) else (1, 2 ^ (1 - e)) in
  let lhs := v * fst scale10 * snd scale2 in
  let unit := fst scale2 * snd scale10 in
  ((2 * Zpos m - 1) * unit <=? lhs) && (lhs <=? (2 * Zpos m + 1) * unit).

Inductive classified := BadDigits | Class (c : fclass).

Definition classify (f : float) (ds : digits) (e10 : Z) : classified :=
  match Prim2SF f with
  | S754_nan => Class CNaN
  | S754_infinity s => Class (CInf s)
  | S754_zero _ => Class (CInt 0)
  | S754_finite s m e =>
      match integer_value m e with
      | Some z => if z <? two53 then Class (CInt (if s then - z else z))
                  else if in_rounding_interval m e ds e10 then Class (CFloat s ds e10) else BadDigits
      | None => if in_rounding_interval m e ds e10 then Class (CFloat s ds e10) else BadDigits
      end
  end.

Definition display_f64 (o : options) (f : float) (ds : digits) (e10 : Z) : outcome string :=
  match classify f ds e10 with
  | BadDigits => Out "@@bad-digits"%string
  | Class c => display o c
  end.
