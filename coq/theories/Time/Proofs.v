(* C19 — proofs about Time/Model.v *)
From Coq Require Import QArith Qround Qabs ZArith Lia Lqa String.
From NV Require Import Gen.TimeLimits Time.Model.
Local Open Scope Q_scope.

Lemma floor_bounds : forall x, inject_Z (Qfloor x) <= x /\ x < inject_Z (Qfloor x) + 1.
Proof.
  intros x. split; [apply Qfloor_le|].
  pose proof (Qlt_floor x) as H. rewrite inject_Z_plus in H. exact H.
Qed.

Lemma round_away_err : forall x, Qabs (inject_Z (round_away x) - x) <= 1 # 2.
Proof.
  intros x. apply Qabs_Qle_condition. unfold round_away.
  destruct (Qle_bool 0 x) eqn:E.
  - destruct (floor_bounds (x + (1 # 2))) as [A B]. split; lra.
  - destruct (floor_bounds (- x + (1 # 2))) as [A B]. rewrite inject_Z_opp. split; lra.
Qed.

Definition half_ns : Q := 1 # 2000000000.

Lemma split_error : forall q sn, duration_split q = Ok sn ->
  Qabs (inject_Z (span_ns sn) / inject_Z ns_per_s - q) <= half_ns.
Proof.
  intros q sn H. unfold duration_split in H.
  destruct (Z.abs (qtrunc q) >? i64_max)%Z; [discriminate|].
  destruct (Z.abs (qtrunc q) >? span_sec_max)%Z; [discriminate|].
  inversion H; subst; clear H. unfold span_ns. cbn [fst snd].
  set (s := qtrunc q).
  pose proof (round_away_err ((q - inject_Z s) * inject_Z ns_per_s)) as R.
  set (n := round_away ((q - inject_Z s) * inject_Z ns_per_s)) in *.
  apply Qabs_Qle_condition in R. destruct R as [R1 R2].
  apply Qabs_Qle_condition. unfold half_ns.
  rewrite inject_Z_plus, inject_Z_mult.
  change (inject_Z ns_per_s) with (1000000000 # 1) in *.
  unfold Qdiv. change (/ (1000000000 # 1)) with (1 # 1000000000).
  split; lra.
Qed.

Local Open Scope Z_scope.

Theorem add_sub : forall t q t', in_range t = true -> add_dt t q = Ok t' ->
  exists sn, duration_split q = Ok sn /\ t' = t + span_ns sn /\
             sub_dt t' q = Ok t /\
             (diff_dt t' t == inject_Z (span_ns sn) / inject_Z ns_per_s)%Q /\
             (Qabs (diff_dt t' t - q) <= half_ns)%Q.
Proof.
  intros t q t' Ht H. unfold add_dt in H.
  destruct (duration_split q) as [e|sn] eqn:E; [discriminate|].
  destruct (in_range (t + span_ns sn)) eqn:R; [|discriminate].
  inversion H; subst; clear H. exists sn. repeat split.
  - unfold sub_dt. rewrite E.
    replace (t + span_ns sn - span_ns sn) with t by lia. rewrite Ht. reflexivity.
  - unfold diff_dt. replace (t + span_ns sn - t) with (span_ns sn) by lia. reflexivity.
  - unfold diff_dt. replace (t + span_ns sn - t) with (span_ns sn) by lia.
    apply split_error. assumption.
Qed.

Theorem range_ok : forall t q t',
  (add_dt t q = Ok t' -> in_range t' = true) /\ (sub_dt t q = Ok t' -> in_range t' = true).
Proof.
  intros t q t'. unfold add_dt, sub_dt. destruct (duration_split q) as [e|sn].
  - split; discriminate.
  - split.
    + destruct (in_range (t + span_ns sn)) eqn:R; [|discriminate]. intros H. inversion H; subst. assumption.
    + destruct (in_range (t - span_ns sn)) eqn:R; [|discriminate]. intros H. inversion H; subst. assumption.
Qed.

(* an out-of-range result is an error, never another instant *)
Theorem range_err : forall t q sn, duration_split q = Ok sn ->
  (in_range (t + span_ns sn) = false -> add_dt t q = Err DateTimeOutOfRange) /\
  (in_range (t - span_ns sn) = false -> sub_dt t q = Err DateTimeOutOfRange).
Proof.
  intros t q sn E. unfold add_dt, sub_dt. rewrite E. split; intros H; rewrite H; reflexivity.
Qed.

Theorem duration_err : forall t q,
  (Z.abs (qtrunc q) > span_sec_max) -> add_dt t q = Err DurationOutOfRange /\ sub_dt t q = Err DurationOutOfRange.
Proof.
  intros t q H. unfold add_dt, sub_dt, duration_split.
  destruct (Z.abs (qtrunc q) >? i64_max) eqn:A; [split; reflexivity|].
  assert (B : (Z.abs (qtrunc q) >? span_sec_max) = true) by (apply Z.gtb_lt; lia).
  rewrite B. split; reflexivity.
Qed.

Theorem tz_keeps_instant : forall (d : zoned) z1 z2,
  fst (tz_convert d z1) = fst d /\ snd (tz_convert d z1) = z1 /\
  tz_convert (tz_convert d z1) z2 = tz_convert d z2.
Proof. intros [t z] z1 z2. repeat split. Qed.

(* ------------------------------------------------------------- zoned values *)
Theorem zoned_arith : forall (d : zoned) (q : Q) (z z2 : string),
  (* arithmetic keeps the zone *)
  (forall d', zadd d q = Ok d' -> snd d' = snd d) /\
  (forall d', zsub d q = Ok d' -> snd d' = snd d) /\
  (* converting before or after the arithmetic is the same *)
  zadd (tz_convert d z) q = res_map (fun d' => tz_convert d' z) (zadd d q) /\
  zsub (tz_convert d z) q = res_map (fun d' => tz_convert d' z) (zsub d q) /\
  (* a difference does not depend on the zones of its operands *)
  (forall b : zoned, zdiff (tz_convert d z) (tz_convert b z2) = zdiff d b).
Proof.
  intros [t zn] q z z2. unfold zadd, zsub, zdiff, tz_convert. cbn [fst snd].
  repeat split.
  - intros d'. destruct (add_dt t q); intros H; inversion H; reflexivity.
  - intros d'. destruct (sub_dt t q); intros H; inversion H; reflexivity.
  - destruct (add_dt t q); reflexivity.
  - destruct (sub_dt t q); reflexivity.
Qed.

Theorem zoned_add_sub : forall (d d' : zoned) q, in_range (fst d) = true ->
  zadd d q = Ok d' -> zsub d' q = Ok d /\ (Qabs (zdiff d' d - q) <= half_ns)%Q.
Proof.
  intros [t zn] [t' zn'] q Ht H. unfold zadd, zsub, zdiff in *. cbn [fst snd] in *.
  destruct (add_dt t q) as [e|t1] eqn:E; [discriminate|]. inversion H; subst.
  destruct (add_sub t q t' Ht E) as (sn & _ & _ & Hs & _ & Hd).
  rewrite Hs. split; [reflexivity|exact Hd].
Qed.

(* table lemma over the generated constants (Gen/TimeLimits.v): the supported range contains the
   Unix epoch and is far larger than a nanosecond, the sub-second part of the largest timestamp is a
   proper sub-second part, and the span limit is positive and below the i64 range — so the range
   checks of the model are not vacuous and `Z.abs s >? i64_max` can only fire beyond the span limit *)
Lemma limits_sane :
  (ts_min < 0 < ts_max)%Z /\ (0 <= gen_ts_max_subsec_ns < ns_per_s)%Z /\ (0 < span_sec_max < i64_max)%Z
  /\ in_range 0 = true /\ in_range (ts_max + 1) = false /\ in_range (ts_min - 1) = false.
Proof. vm_compute. repeat split; reflexivity || discriminate. Qed.
