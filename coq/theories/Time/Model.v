(* C19 — integer-nanosecond model of numbat/src/vm.rs Op::AddToDateTime /
   Op::SubFromDateTime / Op::DiffDateTime and of TzConversion.

   An instant is a Z (nanoseconds since the Unix epoch); a zoned value is
   (instant, zone name).  The duration operand is the f64 number of seconds the
   VM obtains from `to_base_unit_representation()`, taken here as the rational it
   denotes (NaN and infinities are outside the model; `to_i64` rejects them).

   jiff is outside the model: its calendar, zone database, strptime/strftime are
   not represented at all; of its arithmetic only "adding a span of seconds and
   nanoseconds to a zoned value moves the instant by exactly that many
   nanoseconds or fails when the result leaves the supported range" is assumed,
   with jiff's limits as constants generated from the implementation.  No proofs in this file. *)
From Coq Require Import QArith Qround ZArith String.
From NV Require Import Gen.TimeLimits.
Local Open Scope Z_scope.

Definition ns_per_s : Z := 1000000000.
(* jiff::Timestamp::MIN / MAX and the jiff::Span seconds limit (try_seconds) are NOT hard-coded: they are read
   from the running implementation on every check run (Gen/TimeLimits.v, hook datetime_limits); the table
   lemma Time/Proofs.v limits_sane states what the theorems need of them *)
Definition ts_min : Z := gen_ts_min_s * ns_per_s.
Definition ts_max : Z := gen_ts_max_s * ns_per_s + gen_ts_max_subsec_ns.
Definition span_sec_max : Z := gen_span_sec_max.
Definition i64_max : Z := 9223372036854775807.

Inductive err := DurationOutOfRange | DateTimeOutOfRange.
Inductive res (A : Type) := Err (e : err) | Ok (a : A).
Arguments Err {A} e. Arguments Ok {A} a.

Definition in_range (t : Z) : bool := (ts_min <=? t) && (t <=? ts_max).

(* f64::trunc / f64::fract / f64::round (half away from zero), on the denoted rational *)
Definition qtrunc (x : Q) : Z := if Qle_bool 0 x then Qfloor x else - Qfloor (- x).
Definition round_away (x : Q) : Z :=
  if Qle_bool 0 x then Qfloor (x + (1 # 2)) else - Qfloor (- x + (1 # 2)).

(* seconds_f64.to_i64() ; Span::new().try_seconds(..) ; .nanoseconds((fract * 1e9).round() as i64) *)
Definition duration_split (q : Q) : res (Z * Z) :=
  let s := qtrunc q in
  if (Z.abs s >? i64_max) then Err DurationOutOfRange
  else if (Z.abs s >? span_sec_max) then Err DurationOutOfRange
  else Ok (s, round_away ((q - inject_Z s) * inject_Z ns_per_s)).

Definition span_ns (sn : Z * Z) : Z := fst sn * ns_per_s + snd sn.

(* lhs.checked_add(span) / lhs.checked_sub(span) *)
Definition add_dt (t : Z) (q : Q) : res Z :=
  match duration_split q with
  | Err e => Err e
  | Ok sn => let t' := t + span_ns sn in
             if in_range t' then Ok t' else Err DateTimeOutOfRange
  end.

Definition sub_dt (t : Z) (q : Q) : res Z :=
  match duration_split q with
  | Err e => Err e
  | Ok sn => let t' := t - span_ns sn in
             if in_range t' then Ok t' else Err DateTimeOutOfRange
  end.

(* lhs.since(&rhs).total(Second), as the rational number of seconds *)
Definition diff_dt (a b : Z) : Q := inject_Z (a - b) / inject_Z ns_per_s.

(* dt.with_time_zone(tz) *)
Definition zoned : Type := (Z * string)%type.
Definition tz_convert (d : zoned) (zone : string) : zoned := (fst d, zone).

(* the VM operations on zoned values: Zoned::checked_add / checked_sub keep the zone of
   the left operand, Zoned::since only looks at the instants *)
Definition zadd (d : zoned) (q : Q) : res zoned :=
  match add_dt (fst d) q with Ok t => Ok (t, snd d) | Err e => Err e end.
Definition zsub (d : zoned) (q : Q) : res zoned :=
  match sub_dt (fst d) q with Ok t => Ok (t, snd d) | Err e => Err e end.
Definition zdiff (a b : zoned) : Q := diff_dt (fst a) (fst b).
Definition res_map {A B} (f : A -> B) (r : res A) : res B :=
  match r with Ok a => Ok (f a) | Err e => Err e end.

(* ------------------------------------------------------------------------------
   The same duration split with the f64 arithmetic of vm.rs made explicit
   (executable refinement used by the correspondence check; SpecFloat only, no
   primitive floats, no axioms).  The duration is the f64 (-1)^s * m * 2^e.
     seconds_f64.to_i64()                          trunc, exact
     seconds_f64.fract()                           exact in f64
     (fract * 1_000_000_000f64)                    ONE rounding to nearest-even
     .round() as i64                               half away from zero
   `duration_split` above rounds the exact product instead; the two differ by at
   most one nanosecond, in the rare cases where the f64 product crosses a .5. *)
From Coq Require Import SpecFloat.

Definition f64_value (s : bool) (m : positive) (e : Z) : Q :=
  let v := if 0 <=? e then inject_Z (Zpos m * 2 ^ e) else Zpos m # (Z.to_pos (2 ^ (- e))) in
  if s then - v else v.

(* magnitude of round(fract * 1e9) *)
Definition f64_fract_nanos (m : positive) (e : Z) : Z :=
  if 0 <=? e then 0 else
  let fr := (Zpos m) mod (2 ^ (- e)) in                       (* fract = fr * 2^e, exact *)
  match binary_normalize 53 1024 (fr * 1000000000) e false with  (* RNE of the exact product *)
  | S754_finite _ m2 e2 =>
      if 0 <=? e2 then Zpos m2 * 2 ^ e2
      else let d := 2 ^ (- e2) in
           let q := Zpos m2 / d in let r := Zpos m2 mod d in
           if d <=? 2 * r then q + 1 else q                    (* round half away from zero *)
  | _ => 0
  end.

Definition duration_split_f64 (s : bool) (m : positive) (e : Z) : res (Z * Z) :=
  let secs := qtrunc (f64_value s m e) in
  if (Z.abs secs >? i64_max) then Err DurationOutOfRange
  else if (Z.abs secs >? span_sec_max) then Err DurationOutOfRange
  else let n := f64_fract_nanos m e in Ok (secs, if s then - n else n).

Definition add_dt_f64 (t : Z) (s : bool) (m : positive) (e : Z) : res Z :=
  match duration_split_f64 s m e with
  | Err er => Err er
  | Ok sn => let t' := t + span_ns sn in if in_range t' then Ok t' else Err DateTimeOutOfRange
  end.
Definition sub_dt_f64 (t : Z) (s : bool) (m : positive) (e : Z) : res Z :=
  match duration_split_f64 s m e with
  | Err er => Err er
  | Ok sn => let t' := t - span_ns sn in if in_range t' then Ok t' else Err DateTimeOutOfRange
  end.
