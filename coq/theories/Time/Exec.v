(* C19 — observation printer for the correspondence check. *)
From Coq Require Import QArith ZArith.
From NV Require Import Base.Show Time.Model.
Local Open Scope string_scope.

Definition show_res (r : res Z) : string :=
  match r with
  | Ok t => "D:" ++ show_Z t
  | Err DurationOutOfRange => "E:duration"
  | Err DateTimeOutOfRange => "E:datetime"
  end.

(* t + q, then (t + q) - q, then the nanoseconds of (t + q) - t *)
Definition show_case (t : Z) (q : Q) : string :=
  match add_dt t q with
  | Ok t' => "D:" ++ show_Z t' ++ ";" ++ show_res (sub_dt t' q) ++ ";" ++ show_Z (t' - t)
  | e => show_res e
  end.
