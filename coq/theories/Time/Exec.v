(* C19 — observation printer for the correspondence check. *)
From Coq Require Import QArith ZArith.
From NV Require Import Base.Show Time.Model.
Local Open Scope string_scope.

Definition show_res (r : res Z) : string :=
  match r with
  | Ok t => "D:" ++ show_Z t
  | Err DurationOutOfRange => "E:duration"
  | Err DateTimeOutOfRange => "E:datetime"
  end.

(* t + q, then (t + q) - q, then the nanoseconds of (t + q) - t *)
Definition show_case (t : Z) (q : Q) : string :=
  match add_dt t q with
  | Ok t' => "D:" ++ show_Z t' ++ ";" ++ show_res (sub_dt t' q) ++ ";" ++ show_Z (t' - t)
  | e => show_res e
  end.

(* the same observation from the f64-faithful refinement, followed by the nanosecond
   difference to the exact-rational model (0, or ±1 when the f64 product crosses a .5) *)
Definition show_case_f64 (t : Z) (s : bool) (m : positive) (e : Z) : string :=
  match add_dt_f64 t s m e with
  | Ok t' => "D:" ++ show_Z t' ++ ";" ++ show_res (sub_dt_f64 t' s m e) ++ ";" ++ show_Z (t' - t)
             ++ ";" ++ match add_dt t (f64_value s m e) with Ok t2 => show_Z (t' - t2) | _ => "x" end
  | e => show_res e
  end.
