(* C13 — the specification of what each prefix NAME and SYMBOL denotes:
   SI prefixes (BIPM SI brochure, 9th ed., incl. the 2022 additions ronna,
   quetta, ronto, quecto) as powers of ten and the binary prefixes of
   IEC 80000-13 as powers of two (robi / quebi follow the same pattern: they
   are proposed, not yet standardised, and numbat accepts them).
   Written by hand from the standards, NOT derived from the code. *)
From NV Require Import Prefix.Model.
Local Open Scope string_scope.
Local Open Scope Z_scope.

(* long name, symbols, kind, exponent *)
Definition standard : list (bytes * list bytes * pkind * Z) := [
  (B "quecto", [B "q"], Metric, -30); (B "ronto", [B "r"], Metric, -27);
  (B "yocto", [B "y"], Metric, -24);  (B "zepto", [B "z"], Metric, -21);
  (B "atto", [B "a"], Metric, -18);   (B "femto", [B "f"], Metric, -15);
  (B "pico", [B "p"], Metric, -12);   (B "nano", [B "n"], Metric, -9);
  (* micro: U+00B5 micro sign, U+03BC greek mu, and the ASCII fallback u *)
  (B "micro", [B "µ"; B "μ"; B "u"], Metric, -6);
  (B "milli", [B "m"], Metric, -3);   (B "centi", [B "c"], Metric, -2);
  (B "deci", [B "d"], Metric, -1);    (B "deca", [B "da"], Metric, 1);
  (B "hecto", [B "h"], Metric, 2);    (B "kilo", [B "k"], Metric, 3);
  (B "mega", [B "M"], Metric, 6);     (B "giga", [B "G"], Metric, 9);
  (B "tera", [B "T"], Metric, 12);    (B "peta", [B "P"], Metric, 15);
  (B "exa", [B "E"], Metric, 18);     (B "zetta", [B "Z"], Metric, 21);
  (B "yotta", [B "Y"], Metric, 24);   (B "ronna", [B "R"], Metric, 27);
  (B "quetta", [B "Q"], Metric, 30);
  (B "kibi", [B "Ki"], Binary, 10);   (B "mebi", [B "Mi"], Binary, 20);
  (B "gibi", [B "Gi"], Binary, 30);   (B "tebi", [B "Ti"], Binary, 40);
  (B "pebi", [B "Pi"], Binary, 50);   (B "exbi", [B "Ei"], Binary, 60);
  (B "zebi", [B "Zi"], Binary, 70);   (B "yobi", [B "Yi"], Binary, 80);
  (B "robi", [B "Ri"], Binary, 90);   (B "quebi", [B "Qi"], Binary, 100) ].

(* a table row agrees with the standard: its long name is a standard name with
   that kind and exponent, and every short spelling is a standard symbol of it *)
Definition row_standard (e : pentry) : bool :=
  existsb (fun s => let '(long, syms, k, ex) := s in
                    beq long (plong e) && prefix_eqb (ppre e) (mkP k ex)
                    && forallb (fun sh => bmem sh syms) (pshorts e)) standard.

Definition table_standard (t : list pentry) : bool := forallb row_standard t.
