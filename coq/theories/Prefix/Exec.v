(* C13 — printers and table checks used by the correspondence check *)
From Coq Require Import QArith.
From NV Require Import Base.Show Base.F64 Prefix.Model.
Local Open Scope string_scope.

Definition show_prefix (p : prefix) : string :=
  (match pk p with Metric => "M" | Binary => "B" end) ++ ":" ++ show_Z (pexp p).

Definition show_result (r : result) : string :=
  match r with
  | RIdent => "-"
  | RUnit p n f => show_prefix p ++ ":" ++ hex_of_bytes n ++ ":" ++ hex_of_bytes f
  end.

Fixpoint lookup_render (p : prefix) (l : list (prefix * bytes)) : bytes :=
  match l with
  | [] => B "<prefix>"
  | (q, s) :: r => if prefix_eqb p q then s else lookup_render p r
  end.

(* the prefix denotes 10^n / 2^n: the implementation's factor (f64 bits) is
   within 4 ulp-ish (relative 1e-15) of the exact power *)
Definition factor_ok (row : prefix * Z) : bool :=
  let (p, bits) := row in
  Qclose (f64_to_Q bits)
         (match pk p with Metric => Qpow_Z 10 (pexp p) | Binary => Qpow_Z 2 (pexp p) end)
         (1 # 1000000000000000).

(* registry row: unit name, canonical name, canonical accepts short, metric, binary *)
Definition printable (st : state) (row : bytes * bytes * bool * bool * bool) : bool :=
  let '(unit, canon, cshort, m, b) := row in
  match assoc canon (units st) with
  | Some i =>
      beq (full i) unit
      && (if m || b then
            (if cshort then acc_short i else acc_long i)
            && Bool.eqb (metric i) m && Bool.eqb (binary i) b
          else true)
  | None => false
  end.
