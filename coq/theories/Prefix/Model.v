(* C13 — model of numbat/src/prefix_parser.rs (PrefixParser) and of the way
   prefixed units are written in output (unit.rs Display for UnitFactor,
   prefix.rs as_string_short/long).  Strings are UTF-8 byte lists.

   The prefix table itself is data: [Gen/PrefixTables.v] is regenerated on
   every run from the running implementation (hook PrefixParser::verif_prefix_table). *)
From Coq Require Export ZArith.
From NV Require Export Base.Bytes.

Inductive pkind := Metric | Binary.
Record prefix := mkP { pk : pkind; pexp : Z }.
Definition pnone : prefix := mkP Metric 0.         (* Prefix::none() *)

Definition pkind_eqb (a b : pkind) : bool :=
  match a, b with Metric, Metric | Binary, Binary => true | _, _ => false end.
Definition prefix_eqb (a b : prefix) : bool := pkind_eqb (pk a) (pk b) && Z.eqb (pexp a) (pexp b).

(* one row of PREFIXES: (long name, short spellings, prefix) *)
Record pentry := mkE { plong : bytes; pshorts : list bytes; ppre : prefix }.

(* UnitInfo (without the span) *)
Record uinfo := mkU { acc_short : bool; acc_long : bool; metric : bool; binary : bool; full : bytes }.

Record state := mkSt { units : list (bytes * uinfo);   (* IndexMap: insertion order *)
                       others : list bytes }.          (* other_identifiers: key set *)

Definition empty : state := mkSt [] [].
Definition reserved : list bytes := [B "_"; B "ans"].

Inductive result :=
| RIdent
| RUnit (p : prefix) (name fullname : bytes).

Fixpoint assoc (k : bytes) (l : list (bytes * uinfo)) : option uinfo :=
  match l with
  | [] => None
  | (k', v) :: r => if beq k k' then Some v else assoc k r
  end.

(* IndexMap::insert: replace in place if the key exists, else append *)
Fixpoint insert (k : bytes) (v : uinfo) (l : list (bytes * uinfo)) : list (bytes * uinfo) :=
  match l with
  | [] => [(k, v)]
  | (k', v') :: r => if beq k k' then (k', v) :: r else (k', v') :: insert k v r
  end.

Fixpoint find_map {A R} (f : A -> option R) (l : list A) : option R :=
  match l with
  | [] => None
  | x :: r => match f x with Some y => Some y | None => find_map f r end
  end.

Definition kind_ok (i : uinfo) (p : prefix) : bool :=
  match pk p with Metric => metric i | Binary => binary i end.

(* input.starts_with(sp) && input[sp.len()..] == name *)
Definition is_prefixed (input sp name : bytes) : bool :=
  match strip_prefix sp input with
  | Some rest => beq rest name
  | None => false
  end.

Section WithTable.
  Variable table : list pentry.

  (* the body of the inner `for` loop of PrefixParser::parse *)
  Definition try_entry (input name : bytes) (i : uinfo) (e : pentry) : option result :=
    if acc_long i && kind_ok i (ppre e) && is_prefixed input (plong e) name
    then Some (RUnit (ppre e) name (full i))
    else if acc_short i && kind_ok i (ppre e)
            && existsb (fun sh => is_prefixed input sh name) (pshorts e)
    then Some (RUnit (ppre e) name (full i))
    else None.

  Definition try_unit (input : bytes) (u : bytes * uinfo) : option result :=
    if ends_with input (fst u)
    then find_map (try_entry input (fst u) (snd u)) table
    else None.

  (* PrefixParser::parse *)
  Definition parse (st : state) (input : bytes) : result :=
    if bmem input (others st) then RIdent
    else match assoc input (units st) with
         | Some i => RUnit pnone input (full i)
         | None => match find_map (try_unit input) (units st) with
                   | Some r => r
                   | None => RIdent
                   end
         end.

  (* ensure_name_is_available: true = Ok(()) *)
  Definition available (st : state) (name : bytes) (clash_with_others : bool) : bool :=
    if bmem name reserved then false
    else if clash_with_others && bmem name (others st) then false
    else match parse st name with RIdent => true | RUnit _ _ _ => false end.

  Definition entry_allowed (m b : bool) (e : pentry) : bool :=
    match pk (ppre e) with Metric => m | Binary => b end.

  (* the loop of add_unit over the prefix table *)
  Definition prefixed_available (st : state) (name : bytes) (ashort along m b : bool) : bool :=
    forallb (fun e =>
               if entry_allowed m b e then
                 (if along then available st (plong e ++ name) true else true)
                 && (if ashort then forallb (fun sh => available st (sh ++ name) true) (pshorts e)
                     else true)
               else true) table.

  Inductive op :=
  | AddUnit (name : bytes) (ashort along m b : bool) (fullname : bytes)
  | AddOther (name : bytes).

  (* None = Err(NameResolutionError) *)
  Definition step (st : state) (o : op) : option state :=
    match o with
    | AddUnit name ashort along m b fullname =>
        if available st name true && prefixed_available st name ashort along m b
        then Some (mkSt (insert name (mkU ashort along m b fullname) (units st)) (others st))
        else None
    | AddOther name =>
        if available st name false then Some (mkSt (units st) (name :: others st)) else None
    end.

  Fixpoint run (st : state) (ops : list op) : option state :=
    match ops with
    | [] => Some st
    | o :: r => match step st o with Some st1 => run st1 r | None => None end
    end.

  (* add_shadowing_identifier (function parameters / locals, on a cloned parser) *)
  Definition add_shadowing (st : state) (name : bytes) : option state :=
    if bmem name reserved then None else Some (mkSt (units st) (name :: others st)).

  (* ---------- specification: the readings of a string ---------- *)
  Definition spelling_of (i : uinfo) (e : pentry) (sp : bytes) : Prop :=
    kind_ok i (ppre e) = true /\
    ((acc_long i = true /\ sp = plong e) \/ (acc_short i = true /\ In sp (pshorts e))).

  Definition reading (st : state) (s : bytes) (p : prefix) (n : bytes) : Prop :=
    (exists i, assoc s (units st) = Some i /\ p = pnone /\ n = s)
    \/ (exists i e sp, assoc n (units st) = Some i /\ In e table /\ spelling_of i e sp /\
                       s = sp ++ n /\ p = ppre e).

  (* ---------- well-formedness of the prefix table (decidable) ---------- *)
  Definition spellings (e : pentry) : list bytes := plong e :: pshorts e.

  Definition table_wf : bool :=
    forallb (fun e =>
      negb (prefix_eqb (ppre e) pnone)
      && forallb (fun sp => negb (beq sp [])) (spellings e)
      && forallb (fun e' =>
           prefix_eqb (ppre e) (ppre e')
           || forallb (fun sp => negb (bmem sp (spellings e'))) (spellings e)) table) table.

  (* ---------- output side: Display for UnitFactor ---------- *)
  Variable render_short render_long : prefix -> bytes.   (* as_string_short / as_string_long *)

  Definition render (p : prefix) (canon_short : bool) (canon_name : bytes) : bytes :=
    (if canon_short then render_short p else render_long p) ++ canon_name.

  Definition render_wf : bool :=
    forallb (fun e => bmem (render_short (ppre e)) (pshorts e) && beq (render_long (ppre e)) (plong e))
            table
    && beq (render_short pnone) [] && beq (render_long pnone) [].
End WithTable.
