(* C13 — proofs about Prefix.Model *)
From Coq Require Import Lia.
From NV Require Import Prefix.Model.

Lemma prefix_eqb_eq a b : prefix_eqb a b = true <-> a = b.
Proof.
  destruct a as [ka ea], b as [kb eb]. unfold prefix_eqb. simpl. split.
  - intros H. apply andb_true_iff in H as [H1 H2]. apply Z.eqb_eq in H2.
    destruct ka, kb; simpl in H1; try discriminate; now subst.
  - intros H. inversion H; subst. rewrite Z.eqb_refl. destruct kb; reflexivity.
Qed.

Lemma is_prefixed_spec input sp name : is_prefixed input sp name = true <-> input = sp ++ name.
Proof.
  unfold is_prefixed. destruct (strip_prefix sp input) as [rest|] eqn:E.
  - apply strip_prefix_spec in E. rewrite beq_eq. split; intros H; subst; auto.
    now apply app_inv_head in H.
  - split; [discriminate|]. intros H.
    assert (strip_prefix sp input = Some name) by now apply strip_prefix_spec.
    congruence.
Qed.

Lemma find_map_some {A R} (f : A -> option R) l y :
  find_map f l = Some y -> exists x, In x l /\ f x = Some y.
Proof.
  induction l as [|a l IH]; simpl; [discriminate|].
  destruct (f a) eqn:E.
  - intros H; inversion H; subst. eauto.
  - intros H. destruct (IH H) as [x [Hx Hf]]. eauto.
Qed.

Lemma find_map_hit {A R} (f : A -> option R) l x y :
  In x l -> f x = Some y -> exists y', find_map f l = Some y'.
Proof.
  induction l as [|a l IH]; simpl; [contradiction|].
  intros [->|Hin] Hf.
  - rewrite Hf. eauto.
  - destruct (f a); eauto.
Qed.

Lemma assoc_In k l v : assoc k l = Some v -> In (k, v) l.
Proof.
  induction l as [|[k' v'] l IH]; simpl; [discriminate|].
  destruct (beq k k') eqn:E.
  - apply beq_eq in E. intros H; inversion H; subst. auto.
  - auto.
Qed.

Lemma assoc_None k l : assoc k l = None <-> ~ In k (map fst l).
Proof.
  induction l as [|[k' v'] l IH]; simpl; [tauto|].
  destruct (beq k k') eqn:E.
  - apply beq_eq in E. subst. split; [discriminate|]. intros H. exfalso. auto.
  - apply beq_neq in E. rewrite IH. split; intros H; [intros [H1|H1]; congruence|tauto].
Qed.

Lemma In_assoc k v l : NoDup (map fst l) -> In (k, v) l -> assoc k l = Some v.
Proof.
  induction l as [|[k' v'] l IH]; simpl; [contradiction|].
  intros Hnd [H|H]; inversion Hnd; subst.
  - inversion H; subst. now rewrite beq_refl.
  - destruct (beq k k') eqn:E; [|auto].
    apply beq_eq in E. subst. exfalso. apply H2. apply in_map_iff. exists (k', v). auto.
Qed.

Lemma insert_fresh k v l : assoc k l = None -> insert k v l = l ++ [(k, v)].
Proof.
  induction l as [|[k' v'] l IH]; simpl; auto.
  destruct (beq k k'); [discriminate|]. intros H. now rewrite IH.
Qed.

Lemma assoc_app k l k' v' :
  assoc k (l ++ [(k', v')]) =
  match assoc k l with Some v => Some v | None => if beq k k' then Some v' else None end.
Proof.
  induction l as [|[k0 v0] l IH]; simpl; auto.
  destruct (beq k k0); auto.
Qed.

Lemma app_self_nil {A} (sp l : list A) : l = sp ++ l -> sp = [].
Proof.
  intros H. assert (List.length l = List.length (sp ++ l)) by now rewrite <- H.
  rewrite app_length in H0. destruct sp; auto. simpl in H0. lia.
Qed.

Lemma NoDup_app_fresh {A} (l : list A) x : NoDup l -> ~ In x l -> NoDup (l ++ [x]).
Proof.
  induction l as [|a l IH]; simpl; intros Hnd Hx.
  - constructor; [intros []|constructor].
  - inversion Hnd; subst. constructor.
    + rewrite in_app_iff. simpl. intros [H|[H|[]]]; [contradiction|subst; tauto].
    + apply IH; auto.
Qed.

Section Proofs.
  Variable table : list pentry.
  Hypothesis Hwf : table_wf table = true.

  Notation parse := (parse table).
  Notation reading := (reading table).
  Notation step := (step table).
  Notation run := (run table).
  Notation available := (available table).

  (* ----- consequences of table_wf ----- *)
  Lemma wf_entry e : In e table ->
    ppre e <> pnone /\
    (forall sp, In sp (spellings e) -> sp <> []) /\
    (forall e' sp, In e' table -> In sp (spellings e) -> In sp (spellings e') -> ppre e = ppre e').
  Proof.
    intros He. unfold table_wf in Hwf. rewrite forallb_forall in Hwf.
    specialize (Hwf e He). apply andb_true_iff in Hwf as [H12 H3].
    apply andb_true_iff in H12 as [H1 H2].
    split; [|split].
    - intros E. rewrite (proj2 (prefix_eqb_eq _ _) E) in H1. discriminate.
    - intros sp Hsp E. rewrite forallb_forall in H2. specialize (H2 sp Hsp).
      subst sp. discriminate.
    - intros e' sp He' Hsp Hsp'. rewrite forallb_forall in H3. specialize (H3 e' He').
      apply orb_true_iff in H3 as [H3|H3]; [now apply prefix_eqb_eq|].
      rewrite forallb_forall in H3. specialize (H3 sp Hsp).
      apply negb_true_iff in H3.
      assert (bmem sp (spellings e') = true) by now apply bmem_In. congruence.
  Qed.

  Lemma R_plain st s i : assoc s (units st) = Some i -> reading st s pnone s.
  Proof. intros H. left. eauto. Qed.

  Lemma R_prefixed st s name i e sp :
    assoc name (units st) = Some i -> In e table -> spelling_of i e sp ->
    s = sp ++ name -> reading st s (ppre e) name.
  Proof. intros. right. exists i, e, sp. auto. Qed.

  Lemma spelling_in i e sp : spelling_of i e sp -> In sp (spellings e).
  Proof. intros [_ [[_ ->]|[_ H]]]; simpl; auto. Qed.

  (* ----- try_entry ----- *)
  Lemma try_entry_sound input name i e r :
    try_entry input name i e = Some r ->
    r = RUnit (ppre e) name (full i) /\ exists sp, spelling_of i e sp /\ input = sp ++ name.
  Proof.
    unfold try_entry.
    destruct (acc_long i && kind_ok i (ppre e) && is_prefixed input (plong e) name) eqn:E1.
    - intros H; inversion H; subst. split; auto.
      apply andb_true_iff in E1 as [E1 E3]. apply andb_true_iff in E1 as [E1 E2].
      apply is_prefixed_spec in E3. exists (plong e). split; auto.
      split; auto.
    - destruct (acc_short i && kind_ok i (ppre e) &&
                existsb (fun sh => is_prefixed input sh name) (pshorts e)) eqn:E2; [|discriminate].
      intros H; inversion H; subst. split; auto.
      apply andb_true_iff in E2 as [E2 E4]. apply andb_true_iff in E2 as [E2 E3].
      apply existsb_exists in E4 as [sh [Hsh E4]]. apply is_prefixed_spec in E4.
      exists sh. split; auto. split; auto.
  Qed.

  Lemma try_entry_complete input name i e sp :
    spelling_of i e sp -> input = sp ++ name ->
    try_entry input name i e = Some (RUnit (ppre e) name (full i)).
  Proof.
    intros [Hk Hs] ->. unfold try_entry. rewrite Hk.
    destruct Hs as [[Hl ->]|[Hs Hin]].
    - rewrite Hl. simpl. now rewrite (proj2 (is_prefixed_spec _ _ _) eq_refl).
    - destruct (acc_long i && true && is_prefixed (sp ++ name) (plong e) name); auto.
      rewrite Hs. simpl.
      assert (existsb (fun sh => is_prefixed (sp ++ name) sh name) (pshorts e) = true) as ->; auto.
      apply existsb_exists. exists sp. split; auto. now apply is_prefixed_spec.
  Qed.

  Lemma try_unit_is_unit input u r : try_unit table input u = Some r -> r <> RIdent.
  Proof.
    unfold try_unit. destruct (ends_with input (fst u)); [|discriminate].
    intros H. apply find_map_some in H as [e [_ He]].
    apply try_entry_sound in He as [-> _]. discriminate.
  Qed.

  (* ----- parse ----- *)
  Lemma parse_sound st s p n f :
    NoDup (map fst (units st)) ->
    parse st s = RUnit p n f ->
    ~ In s (others st) /\ reading st s p n /\ exists i, assoc n (units st) = Some i /\ full i = f.
  Proof.
    intros Hnd. unfold Model.parse.
    destruct (bmem s (others st)) eqn:Eo; [discriminate|].
    assert (Hno : ~ In s (others st)).
    { intros H. apply bmem_In in H. congruence. }
    destruct (assoc s (units st)) as [i|] eqn:Ea.
    - intros H; inversion H; subst. split; auto. split; [eapply R_plain; eauto|eauto].
    - destruct (find_map (try_unit table s) (units st)) as [r|] eqn:Ef; [|discriminate].
      intros Hres. apply find_map_some in Ef as [[name i] [Hu Ht]].
      unfold try_unit in Ht. simpl in Ht. destruct (ends_with s name); [|discriminate].
      apply find_map_some in Ht as [e [He Ht]].
      apply try_entry_sound in Ht as [Hr [sp [Hsp Hs]]].
      rewrite Hr in Hres. injection Hres as Hp Hn Hf. subst p n f.
      assert (assoc name (units st) = Some i) by now apply In_assoc.
      split; auto. split; [eapply R_prefixed; eauto|eauto].
  Qed.

  Lemma parse_complete st s p n :
    reading st s p n -> ~ In s (others st) -> parse st s <> RIdent.
  Proof.
    intros Hr Hno. unfold Model.parse.
    destruct (bmem s (others st)) eqn:Eo; [apply bmem_In in Eo; contradiction|].
    destruct (assoc s (units st)) as [i0|] eqn:Ea; [discriminate|].
    destruct Hr as [[i [Hi _]] | [i [e [sp [Hi [He [Hsp [Hs _]]]]]]]]; [congruence|].
    set (name := n) in *.
    assert (Hu : In (name, i) (units st)) by now apply assoc_In.
    assert (Ht : exists r, try_unit table s (name, i) = Some r).
    { unfold try_unit. simpl. subst s. rewrite ends_with_app.
      eapply find_map_hit; eauto. eapply try_entry_complete; eauto. }
    destruct Ht as [r Ht].
    destruct (find_map_hit _ _ _ _ Hu Ht) as [r' Hr']. rewrite Hr'.
    apply find_map_some in Hr' as [u [_ Hu']]. eapply try_unit_is_unit; eauto.
  Qed.

  (* ----- invariant ----- *)
  Record Inv (st : state) : Prop := {
    inv_nodup : NoDup (map fst (units st));
    inv_unique : forall s p1 n1 p2 n2,
        reading st s p1 n1 -> reading st s p2 n2 -> p1 = p2 /\ n1 = n2;
    inv_others : forall s p n, In s (others st) -> ~ reading st s p n;
  }.

  Lemma Inv_empty : Inv empty.
  Proof.
    split; simpl.
    - constructor.
    - intros s p1 n1 p2 n2 [[i [H _]]|[i [e [sp [H _]]]]]; simpl in H; discriminate.
    - intros s p n [].
  Qed.

  Lemma available_spec st s c :
    available st s c = true ->
    parse st s = RIdent /\ (c = true -> ~ In s (others st)).
  Proof.
    unfold Model.available. destruct (bmem s reserved); [discriminate|].
    destruct (c && bmem s (others st)) eqn:E; [discriminate|].
    destruct (parse st s) eqn:Ep; [|discriminate].
    intros _. split; auto. intros ->. simpl in E. intros H. apply bmem_In in H. congruence.
  Qed.

  Lemma prefixed_available_spec st name ashort along m b fullname e sp :
    prefixed_available table st name ashort along m b = true ->
    In e table -> spelling_of (mkU ashort along m b fullname) e sp ->
    available st (sp ++ name) true = true.
  Proof.
    unfold prefixed_available. rewrite forallb_forall. intros H He [Hk Hs].
    specialize (H e He). unfold kind_ok in Hk. simpl in Hk. unfold entry_allowed in H.
    rewrite Hk in H. apply andb_true_iff in H as [H1 H2].
    simpl in Hs. destruct Hs as [[-> ->]|[-> Hin]]; auto.
    rewrite forallb_forall in H2. auto.
  Qed.

  (* readings after appending a fresh unit *)
  Lemma reading_after_add st name info s p n :
    assoc name (units st) = None ->
    Model.reading table (mkSt (units st ++ [(name, info)]) (others st)) s p n ->
    reading st s p n \/
    (n = name /\ ((p = pnone /\ s = name) \/
                  (exists e sp, In e table /\ spelling_of info e sp /\ s = sp ++ name /\ p = ppre e))).
  Proof.
    intros Hfresh Hr.
    destruct Hr as [[i [Hi [-> ->]]] | [i [e [sp [Hi [He [Hsp [Hs ->]]]]]]]]; simpl in Hi.
    - rewrite assoc_app in Hi. destruct (assoc s (units st)) eqn:Ea.
      + left. eapply R_plain; eauto.
      + destruct (beq s name) eqn:Eb; [|discriminate]. apply beq_eq in Eb. subst. right. auto.
    - rewrite assoc_app in Hi. destruct (assoc n (units st)) eqn:Ea.
      + left. injection Hi as <-. eapply R_prefixed; eauto.
      + destruct (beq n name) eqn:Eb; [|discriminate]. apply beq_eq in Eb.
        injection Hi as <-. subst n. right. split; auto. right. eauto 6.
  Qed.

  Lemma reading_weaken st name info s p n :
    assoc name (units st) = None ->
    reading st s p n -> Model.reading table (mkSt (units st ++ [(name, info)]) (others st)) s p n.
  Proof.
    intros Hf Hr. destruct Hr as [[i [Hi [-> ->]]] | [i [e [sp [Hi [He [Hsp [Hs ->]]]]]]]].
    - left. exists i. simpl. rewrite assoc_app, Hi. auto.
    - right. exists i, e, sp. simpl. rewrite assoc_app, Hi. auto.
  Qed.

  Lemma step_inv st o st' : Inv st -> step st o = Some st' -> Inv st'.
  Proof.
    intros HI. destruct o as [name ashort along m b fullname | name]; simpl.
    - (* add_unit *)
      destruct (available st name true && prefixed_available table st name ashort along m b) eqn:E;
        [|discriminate].
      intros H; inversion H; subst st'; clear H.
      apply andb_true_iff in E as [Ea Ep].
      destruct (available_spec _ _ _ Ea) as [Hpn Hno]. specialize (Hno eq_refl).
      set (info := mkU ashort along m b fullname) in *.
      assert (Hfresh : assoc name (units st) = None).
      { destruct (assoc name (units st)) as [i|] eqn:Ei; auto. exfalso.
        eapply (parse_complete st name pnone name); eauto. eapply R_plain; eauto. }
      rewrite (insert_fresh _ _ _ Hfresh).
      (* every new reading's string was checked available *)
      assert (Hnew : forall s p,
                 ((p = pnone /\ s = name) \/
                  (exists e sp, In e table /\ spelling_of info e sp /\ s = sp ++ name /\ p = ppre e)) ->
                 parse st s = RIdent /\ ~ In s (others st)).
      { intros s p [[_ ->]|[e [sp [He [Hsp [-> _]]]]]].
        - auto.
        - pose proof (prefixed_available_spec _ _ _ _ _ _ fullname e sp Ep He Hsp) as Hav.
          destruct (available_spec _ _ _ Hav) as [H1 H2]. auto. }
      split; simpl.
      + rewrite map_app. simpl. apply NoDup_app_fresh; [apply (inv_nodup _ HI)|].
        now apply assoc_None.
      + intros s p1 n1 p2 n2 H1 H2.
        apply reading_after_add in H1; auto. apply reading_after_add in H2; auto.
        destruct H1 as [H1|[-> H1]], H2 as [H2|[-> H2]].
        * eapply (inv_unique _ HI); eauto.
        * exfalso. destruct (Hnew _ _ H2) as [Hp Ho]. eapply parse_complete; eauto.
        * exfalso. destruct (Hnew _ _ H1) as [Hp Ho]. eapply parse_complete; eauto.
        * split; auto.
          destruct H1 as [[-> ->]|[e1 [sp1 [He1 [Hs1 [-> ->]]]]]],
                   H2 as [[-> E2]|[e2 [sp2 [He2 [Hs2 [E2 ->]]]]]]; auto.
          -- exfalso. apply app_self_nil in E2. subst sp2.
             destruct (wf_entry e2 He2) as [_ [Hne _]].
             eapply Hne; eauto. eapply spelling_in; eauto.
          -- exfalso. symmetry in E2. apply app_self_nil in E2. subst sp1.
             destruct (wf_entry e1 He1) as [_ [Hne _]].
             eapply Hne; eauto. eapply spelling_in; eauto.
          -- apply app_inv_tail in E2. subst sp2.
             destruct (wf_entry e1 He1) as [_ [_ Hd]].
             eapply Hd; eauto; eapply spelling_in; eauto.
      + intros s p n Hin Hr. apply reading_after_add in Hr; auto.
        destruct Hr as [Hr|[-> Hr]].
        * eapply (inv_others _ HI); eauto.
        * destruct (Hnew _ _ Hr) as [_ Ho]. contradiction.
    - (* add_other_identifier *)
      destruct (available st name false) eqn:Ea; [|discriminate].
      intros H; inversion H; subst st'; clear H.
      destruct (available_spec _ _ _ Ea) as [Hpn _].
      split; simpl.
      + apply (inv_nodup _ HI).
      + intros s p1 n1 p2 n2 H1 H2. eapply (inv_unique _ HI); [exact H1|exact H2].
      + intros s p n [<-|Hin] Hr.
        * destruct (in_dec (list_eq_dec ascii_dec) name (others st)) as [Hi|Hi].
          -- exact (inv_others _ HI _ p n Hi Hr).
          -- exact (parse_complete st name p n Hr Hi Hpn).
        * exact (inv_others _ HI _ p n Hin Hr).
  Qed.

  Lemma run_inv ops : forall st st', Inv st -> run st ops = Some st' -> Inv st'.
  Proof.
    induction ops as [|o ops IH]; simpl; intros st st' HI H.
    - now inversion H; subst.
    - destruct (step st o) as [st1|] eqn:Es; [|discriminate].
      eapply IH; [|exact H]. eapply step_inv; eauto.
  Qed.

  Theorem reachable_inv ops st : run empty ops = Some st -> Inv st.
  Proof. apply run_inv. apply Inv_empty. Qed.

  (* ----- parse returns exactly the unique reading ----- *)
  Theorem parse_exact st s p n f :
    Inv st ->
    (parse st s = RUnit p n f <->
     reading st s p n /\ exists i, assoc n (units st) = Some i /\ full i = f).
  Proof.
    intros HI. split.
    - intros H. apply parse_sound in H; [tauto|apply (inv_nodup _ HI)].
    - intros [Hr [i [Hi Hf]]].
      assert (Hno : ~ In s (others st)) by (intros Hin; eapply (inv_others _ HI); eauto).
      pose proof (parse_complete _ _ _ _ Hr Hno) as Hne.
      destruct (parse st s) as [|p' n' f'] eqn:Ep; [congruence|].
      apply parse_sound in Ep; [|apply (inv_nodup _ HI)].
      destruct Ep as [_ [Hr' [i' [Hi' Hf']]]].
      destruct (inv_unique _ HI _ _ _ _ _ Hr Hr') as [-> ->].
      rewrite Hi in Hi'. inversion Hi'; subst. reflexivity.
  Qed.

  Theorem parse_ident st s :
    Inv st -> (parse st s = RIdent <-> In s (others st) \/ forall p n, ~ reading st s p n).
  Proof.
    intros HI. split.
    - intros Hp. destruct (in_dec (list_eq_dec ascii_dec) s (others st)) as [Hi|Hi]; auto.
      right. intros p n Hr. eapply parse_complete; eauto.
    - intros H. destruct (parse st s) as [|p n f] eqn:Ep; auto. exfalso.
      apply parse_sound in Ep; [|apply (inv_nodup _ HI)].
      destruct Ep as [Hno [Hr _]]. destruct H as [H|H]; [contradiction|eapply H; eauto].
  Qed.

  (* ----- read-back of the output form ----- *)
  Variable render_short render_long : prefix -> bytes.
  Hypothesis Hrw : render_wf table render_short render_long = true.

  Lemma render_wf_entry e : In e table ->
    In (render_short (ppre e)) (pshorts e) /\ render_long (ppre e) = plong e.
  Proof.
    intros He. unfold render_wf in Hrw.
    apply andb_true_iff in Hrw as [H12 _]. apply andb_true_iff in H12 as [H1 _].
    rewrite forallb_forall in H1. specialize (H1 e He).
    apply andb_true_iff in H1 as [Ha Hb]. split; [now apply bmem_In|now apply beq_eq].
  Qed.

  Lemma render_none_nil : render_short pnone = [] /\ render_long pnone = [].
  Proof.
    unfold render_wf in Hrw. apply andb_true_iff in Hrw as [H12 H3].
    apply andb_true_iff in H12 as [_ H2]. split; now apply beq_eq.
  Qed.

  Theorem readback_prefixed st c i e (cs : bool) :
    Inv st -> assoc c (units st) = Some i -> In e table ->
    kind_ok i (ppre e) = true ->
    (if cs then acc_short i else acc_long i) = true ->
    parse st (render render_short render_long (ppre e) cs c) = RUnit (ppre e) c (full i).
  Proof.
    intros HI Hi He Hk Hacc. apply parse_exact; auto. split; [|eauto].
    destruct (render_wf_entry e He) as [Hs Hl]. unfold render.
    eapply R_prefixed; eauto. split; auto.
    destruct cs; [right|left]; auto.
  Qed.

  Theorem readback_plain st c i (cs : bool) :
    Inv st -> assoc c (units st) = Some i ->
    parse st (render render_short render_long pnone cs c) = RUnit pnone c (full i).
  Proof.
    intros HI Hi. destruct render_none_nil as [Hs Hl]. unfold render.
    replace ((if cs then render_short pnone else render_long pnone) ++ c) with c
      by (destruct cs; [rewrite Hs|rewrite Hl]; reflexivity).
    apply parse_exact; auto. split; [eapply R_plain; eauto|eauto].
  Qed.
End Proofs.
