(* Pipeline/Glue.v — C24 (partial): the three executable models composed.

     text --Syntax.Exec.lex / Syntax.Parser.parse--> Syntax statements
          --to_tc-->  Dim.Infer statements  --Dim.Infer.check-->        type-checked
          --to_vm-->  VM.Ast program        --VM.Compile / VM.Machine--> value

   for the fragment all three models share: integer scalar literals, identifiers, strings without
   interpolation, booleans, unary and binary operators, `if`, lists, calls of named functions,
   `let`, `fn` with type parameters / annotations / where-locals, foreign function declarations,
   print / assert / assert_eq.  Units are NOT in the fragment (the VM model's quantities are
   plain integers).  Everything outside the fragment yields OutOfFragment, never a value.
   Definitions only. *)
From Coq Require Import String List ZArith NArith QArith Qcanon Bool Ascii.
From NV Require Base.Show.
From NV Require Syntax.Token Syntax.Ast Syntax.StmtAst Syntax.Lexer Syntax.Parser Syntax.Exec.
From NV Require Dim.Model Dim.Infer Dim.Exec.
From NV Require VM.Value VM.Ast VM.Compile VM.Machine VM.Exec.
Import ListNotations.
Open Scope string_scope.

Module S := Syntax.Ast.
Module SS := Syntax.StmtAst.
Module T := Dim.Infer.
Module V := VM.Ast.

(* ------------------------------------------------------------------ small conversions *)
Fixpoint str_to_string (s : Syntax.Token.str) : option string :=
  match s with
  | [] => Some EmptyString
  | c :: r =>
      if (c <? 128)%N then
        match str_to_string r with
        | Some t => Some (String (ascii_of_N c) t)
        | None => None
        end
      else None
  end.

(* decimal integer lexemes only *)
Fixpoint digits_to_Z (s : Syntax.Token.str) (acc : Z) : option Z :=
  match s with
  | [] => Some acc
  | c :: r => if ((48 <=? c) && (c <=? 57))%N then digits_to_Z r (acc * 10 + Z.of_N (c - 48))%Z else None
  end.
Definition lexeme_to_Z (s : Syntax.Token.str) : option Z :=
  match s with [] => None | _ => digits_to_Z s 0%Z end.

Definition omap {A B} (f : A -> option B) : list A -> option (list B) :=
  fix go l := match l with
              | [] => Some []
              | x :: r => match f x, go r with Some y, Some ys => Some (y :: ys) | _, _ => None end
              end.

(* ------------------------------------------------------------------ to the type checker's input *)
Definition tc_binop (o : S.binop) : T.binop :=
  match o with
  | S.Add => T.OAdd | S.Sub => T.OSub | S.Mul => T.OMul | S.Div => T.ODiv | S.Power => T.OPow
  | S.ConvertTo => T.OConv | S.LessThan => T.OLt | S.GreaterThan => T.OGt
  | S.LessOrEqual => T.OLe | S.GreaterOrEqual => T.OGe | S.Equal => T.OEq | S.NotEqual => T.ONe
  | S.LogicalAnd => T.OAnd | S.LogicalOr => T.OOr
  end.

Fixpoint to_tc (e : S.expr) : option T.expr :=
  match e with
  | S.EScalar lx => match lexeme_to_Z lx with Some z => Some (T.EScalar (Dim.Model.qc z)) | None => None end
  | S.EIdent n => option_map T.EIdent (str_to_string n)
  | S.EBool b => Some (T.EBool b)
  | S.EString _ => Some T.EStr
  | S.EUn op a =>
      match op, to_tc a with
      | S.Negate, Some x => Some (T.EUn T.UNeg x)
      | S.Factorial 1, Some x => Some (T.EUn T.UFact x)
      | S.LogicalNeg, Some x => Some (T.EUn T.UNot x)
      | _, _ => None
      end
  | S.EBin op a b =>
      match to_tc a, to_tc b with
      | Some x, Some y => Some (T.EBin (tc_binop op) x y)
      | _, _ => None
      end
  | S.ECall (S.EIdent f) args =>
      match str_to_string f, omap to_tc args with
      | Some f', Some xs => Some (T.ECall f' xs)
      | _, _ => None
      end
  | S.EIf c t e0 =>
      match to_tc c, to_tc t, to_tc e0 with
      | Some x, Some y, Some z => Some (T.EIf x y z)
      | _, _, _ => None
      end
  | S.EList es => option_map T.EList (omap to_tc es)
  | _ => None
  end.

Fixpoint tc_texp (t : SS.texp) : option T.dexpr :=
  match t with
  | SS.TEUnity => Some T.DUnity
  | SS.TEIdent n [] => option_map T.DName (str_to_string n)
  | SS.TEIdent _ _ => None
  | SS.TEMul a b => match tc_texp a, tc_texp b with Some x, Some y => Some (T.DMul x y) | _, _ => None end
  | SS.TEDiv a b => match tc_texp a, tc_texp b with Some x, Some y => Some (T.DDiv x y) | _, _ => None end
  | SS.TEPow a (n, d) => match tc_texp a with Some x => Some (T.DPow x (Dim.Model.qcf n d)) | None => None end
  end.

Fixpoint tc_tann (a : SS.tann) : option T.annot :=
  match a with
  | SS.TAExp t => option_map T.ADim (tc_texp t)
  | SS.TABool => Some T.ABool
  | SS.TAString => Some T.AString
  | SS.TADateTime => Some T.ADateTime
  | SS.TAList t => option_map T.AList (tc_tann t)
  | SS.TAFn _ _ => None
  end.

Definition tc_oann (a : option SS.tann) : option (option T.annot) :=
  match a with None => Some None | Some t => option_map Some (tc_tann t) end.

Definition tc_local (v : SS.defvar) : option (string * option T.annot * T.expr) :=
  match str_to_string (SS.dv_name v), tc_oann (SS.dv_ann v), to_tc (SS.dv_expr v) with
  | Some x, Some a, Some e => Some (x, a, e)
  | _, _, _ => None
  end.

Definition tc_param (p : Syntax.Token.str * option SS.tann) : option (string * option T.annot) :=
  match str_to_string (fst p), tc_oann (snd p) with Some x, Some a => Some (x, a) | _, _ => None end.
Definition tc_param_ann (p : Syntax.Token.str * option SS.tann) : option (string * T.annot) :=
  match str_to_string (fst p), snd p with
  | Some x, Some t => option_map (fun a => (x, a)) (tc_tann t)
  | _, _ => None
  end.
Definition tc_tparam (p : Syntax.Token.str * bool) : option (string * bool) :=
  option_map (fun x => (x, snd p)) (str_to_string (fst p)).

Definition stmt_to_tc (s : SS.stmt) : option T.stmt :=
  match s with
  | SS.StExpr e => option_map T.SExpr (to_tc e)
  | SS.StLet v =>
      match tc_local v with Some (x, a, e) => Some (T.SLet x a e) | None => None end
  | SS.StProc k args =>
      match omap to_tc args with
      | Some xs =>
          match k with
          | Syntax.Token.KPrint => Some (T.SProc T.PPrint xs)
          | Syntax.Token.KAssert => Some (T.SProc T.PAssert xs)
          | Syntax.Token.KAssertEq => Some (T.SProc T.PAssertEq xs)
          | _ => None
          end
      | None => None
      end
  | SS.StFn name tps ps ret (Some body) locals _ =>
      match str_to_string name, omap tc_tparam tps, omap tc_param ps, tc_oann ret, omap tc_local locals, to_tc body with
      | Some f, Some tps', Some ps', Some ret', Some ls, Some b => Some (T.SFn f tps' ps' ret' ls b)
      | _, _, _, _, _, _ => None
      end
  | SS.StFn name tps ps (Some ret) None [] _ =>
      match str_to_string name, omap tc_tparam tps, omap tc_param_ann ps, tc_tann ret with
      | Some f, Some tps', Some ps', Some ret' => Some (T.SForeign f tps' ps' ret')
      | _, _, _, _ => None
      end
  | _ => None
  end.

(* ------------------------------------------------------------------ to the VM's typed source *)
Definition vm_binop (o : S.binop) : VM.Value.binop :=
  match o with
  | S.Add => VM.Value.BAdd | S.Sub => VM.Value.BSub | S.Mul => VM.Value.BMul | S.Div => VM.Value.BDiv
  | S.Power => VM.Value.BPow | S.ConvertTo => VM.Value.BConv | S.LessThan => VM.Value.BLt
  | S.GreaterThan => VM.Value.BGt | S.LessOrEqual => VM.Value.BLe | S.GreaterOrEqual => VM.Value.BGe
  | S.Equal => VM.Value.BEq | S.NotEqual => VM.Value.BNe | S.LogicalAnd => VM.Value.BAnd
  | S.LogicalOr => VM.Value.BOr
  end.

Fixpoint to_vm (e : S.expr) : option (V.expr Z) :=
  match e with
  | S.EScalar lx => option_map V.EScalar (lexeme_to_Z lx)
  | S.EIdent n => option_map V.EIdent (str_to_string n)
  | S.EBool b => Some (V.EBool b)
  | S.EString s => option_map (fun t => V.EString [inl t]) (str_to_string s)
  | S.EUn op a =>
      match op, to_vm a with
      | S.Negate, Some x => Some (V.EUn VM.Value.UNeg x)
      | S.Factorial n, Some x => Some (V.EUn (VM.Value.UFact n) x)
      | S.LogicalNeg, Some x => Some (V.EUn VM.Value.UNot x)
      | _, _ => None
      end
  | S.EBin op a b =>
      match to_vm a, to_vm b with
      | Some x, Some y => Some (V.EBin (vm_binop op) x y)
      | _, _ => None
      end
  | S.ECall (S.EIdent f) args =>
      match str_to_string f, omap to_vm args with
      | Some f', Some xs => Some (V.ECall f' xs)
      | _, _ => None
      end
  | S.EIf c t e0 =>
      match to_vm c, to_vm t, to_vm e0 with
      | Some x, Some y, Some z => Some (V.ECond x y z)
      | _, _, _ => None
      end
  | S.EList es => option_map V.EList (omap to_vm es)
  | _ => None
  end.

Definition vm_local (v : SS.defvar) : option (string * V.expr Z) :=
  match str_to_string (SS.dv_name v), to_vm (SS.dv_expr v) with
  | Some x, Some e => Some (x, e)
  | _, _ => None
  end.

Definition stmt_to_vm (s : SS.stmt) : option (V.stmt Z) :=
  match s with
  | SS.StExpr e => option_map V.SExpr (to_vm e)
  | SS.StLet v => match vm_local v with Some (x, e) => Some (V.SLet x e) | None => None end
  | SS.StProc k args =>
      match omap to_vm args with
      | Some xs =>
          match k with
          | Syntax.Token.KPrint => Some (V.SProc "print" xs)
          | Syntax.Token.KAssert => Some (V.SProc "assert" xs)
          | Syntax.Token.KAssertEq => Some (V.SProc "assert_eq" xs)
          | _ => None
          end
      | None => None
      end
  | SS.StFn name _ ps _ (Some body) locals _ =>
      match str_to_string name, omap (fun p => str_to_string (fst p)) ps, omap vm_local locals, to_vm body with
      | Some f, Some ps', Some ls, Some b => Some (V.SFn f ps' ls b)
      | _, _, _, _ => None
      end
  | SS.StFn name _ _ _ None _ _ => option_map V.SForeign (str_to_string name)
  | _ => None
  end.

(* ------------------------------------------------------------------ the run-time primitives *)
(* the integer instance of VM.Exec with two more foreign functions (ffi/math.rs abs, mod) *)
Definition pffi (name : string) (args : list (VM.Value.value Z)) : VM.Value.res (VM.Value.value Z) :=
  if String.eqb name "abs" then
    match args with [VM.Value.VQ a] => VM.Value.Ok (VM.Value.VQ (Z.abs a)) | _ => VM.Value.Wrong end
  else if String.eqb name "mod" then
    match args with
    | [VM.Value.VQ a; VM.Value.VQ b] =>
        if Z.eqb b 0 then VM.Value.Err "unmodelled-mod-by-zero" else VM.Value.Ok (VM.Value.VQ (Z.modulo a (Z.abs b)))
    | _ => VM.Value.Wrong
    end
  else VM.Exec.zffi name args.

Definition pops : VM.Value.ops Z :=
  {| VM.Value.q_unit := fun _ => 1%Z;   (* never reached: unit identifiers are outside the fragment *)
     VM.Value.q_neg := Z.opp; VM.Value.q_fact := VM.Exec.zfact; VM.Value.q_arith := VM.Exec.zarith;
     VM.Value.q_cmp := VM.Exec.zcmp; VM.Value.q_eqb := Z.eqb; VM.Value.q_show := VM.Exec.show_q;
     VM.Value.fmt_spec := fun _ _ => VM.Value.Err "unmodelled-format-specifier";
     VM.Value.ffi := pffi; VM.Value.proc := VM.Exec.zproc;
     VM.Value.procs := ["print"; "assert"; "assert_eq"] |}.

(* how the CLI / docs print a value of the fragment *)
Fixpoint show_value (v : VM.Value.value Z) : string :=
  match v with
  | VM.Value.VQ q => VM.Exec.show_q q
  | VM.Value.VBool true => "true"
  | VM.Value.VBool false => "false"
  | VM.Value.VStr s => """" ++ s ++ """"
  | VM.Value.VList l => "[" ++ Base.Show.join ", " (map show_value l) ++ "]"
  | _ => "?"
  end.

(* ------------------------------------------------------------------ the pipeline *)
Inductive poutcome :=
| POk (value : string)             (* type-checks and evaluates; the printed value ("-" if none) *)
| PTypeError (e : string)
| PRuntimeError (e : string)
| PSyntaxError
| POutOfFragment
| POutOfFuel.

Definition parse_text (src : Syntax.Token.str) : option (list SS.stmt) :=
  match Syntax.Exec.lex src with
  | Syntax.Lexer.LOk ts =>
      match Syntax.Parser.parse ts with
      | Syntax.Parser.Ok stmts [] => Some stmts
      | _ => None
      end
  | _ => None
  end.

(* session state: the checker's state and the VM-level program accepted so far *)
Definition pstate := (T.tc * V.program Z)%type.

Definition initial_registry : T.registry := T.mkReg [] [("Scalar", [])] [].
Definition pinit : pstate := (T.mkTc [] initial_registry 0%N [], []).

Definition mfuel : nat := Nat.pow 2 16.

(* one input against a session state *)
Definition interpret_in (st : pstate) (src : Syntax.Token.str) : poutcome * pstate :=
  match Syntax.Exec.lex src with
  | Syntax.Lexer.LOk ts =>
      match Syntax.Parser.parse ts with
      | Syntax.Parser.Ok stmts [] =>
          match omap stmt_to_tc stmts, omap stmt_to_vm stmts with
          | Some tcs, Some vms =>
              match T.check tcs (fst st) with
              | Dim.Model.Err Dim.Model.EUnsupported => (POutOfFragment, st)
              | Dim.Model.Err e => (PTypeError (Dim.Exec.show_err e), st)
              | Dim.Model.Ok (_, tc') =>
                  let prog := (snd st ++ vms)%list in
                  let c := VM.Compile.compile (VM.Value.procs pops) prog in
                  if VM.Compile.code_too_large c then (POutOfFragment, st) else
                  match VM.Machine.run pops c mfuel with
                  | VM.Value.Ok (_, Some v) => (POk (show_value v), (tc', prog))
                  | VM.Value.Ok (_, None) => (POk "-", (tc', prog))
                  | VM.Value.Err e =>
                      if String.prefix "unmodelled" e then (POutOfFragment, st) else (PRuntimeError e, st)
                  | VM.Value.Wrong => (POutOfFragment, st)
                  | VM.Value.Fuel => (POutOfFuel, st)
                  end
              end
          | _, _ => (POutOfFragment, st)
          end
      | Syntax.Parser.Unsupported => (POutOfFragment, st)
      | Syntax.Parser.OutOfFuel => (POutOfFuel, st)
      | _ => (PSyntaxError, st)
      end
  | Syntax.Lexer.LUnsupported => (POutOfFragment, st)
  | Syntax.Lexer.LOutOfFuel => (POutOfFuel, st)
  | Syntax.Lexer.LErr _ => (PSyntaxError, st)
  end.

(* load library sources (each one definition of the standard library, verbatim from the .nbt
   file); a definition outside the fragment is skipped — what depends on it will then fail to
   check and be classified as outside the fragment *)
Fixpoint load_library (st : pstate) (lib : list Syntax.Token.str) : pstate :=
  match lib with
  | [] => st
  | src :: r => load_library (snd (interpret_in st src)) r
  end.

(* interpret_model: the example `src` in a session that has loaded the library sources `lib` *)
Definition interpret_model (lib : list Syntax.Token.str) (src : Syntax.Token.str) : poutcome :=
  fst (interpret_in (load_library pinit lib) src).

(* the strict variant used for the documentation examples: every needed library definition must
   itself go through the whole pipeline; otherwise the example is outside the fragment *)
Fixpoint load_library_strict (st : pstate) (lib : list Syntax.Token.str) : option pstate :=
  match lib with
  | [] => Some st
  | src :: r =>
      match interpret_in st src with
      | (POk _, st') => load_library_strict st' r
      | _ => None
      end
  end.

Definition interpret_model_strict (lib : list Syntax.Token.str) (src : Syntax.Token.str) : poutcome :=
  match load_library_strict pinit lib with
  | Some st => fst (interpret_in st src)
  | None => POutOfFragment
  end.

Definition show_poutcome (o : poutcome) : string :=
  match o with
  | POk v => "ok:" ++ v
  | PTypeError e => "err:typecheck:" ++ e
  | PRuntimeError e => "err:runtime:" ++ e
  | PSyntaxError => "err:parse"
  | POutOfFragment => "out-of-fragment"
  | POutOfFuel => "out-of-fuel"
  end.

Definition example_runs_ok (x : list Syntax.Token.str * Syntax.Token.str) : bool :=
  match interpret_model_strict (fst x) (snd x) with POk _ => true | _ => false end.
