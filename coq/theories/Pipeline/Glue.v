(* Pipeline/Glue.v — C24 (partial): the three executable models composed.

     text --Syntax.Exec.lex / Syntax.Parser.parse--> Syntax statements
          --to_tc-->  Dim.Infer statements  --Dim.Infer.check-->        type-checked
          --to_vm-->  VM.Ast program        --VM.Compile / VM.Machine--> value

   for the fragment all three models share: decimal scalar literals (exact rationals: `5.5` is
   11/2 — no exponents, no hex), identifiers, strings with and without interpolation, booleans,
   unary and binary operators, `if`, lists, calls of named functions (also `x -> f` and
   `x |> f(..)`), `let`, `fn` with type parameters / annotations / where-locals, foreign function
   declarations, print / assert / assert_eq.  Scalars are exact rationals; an operation whose
   result is not an exact rational (irrational root, division by zero = inf) or whose decimal
   rendering needs rounding is "unmodelled" and makes the input OutOfFragment.  Units are NOT in
   the fragment.  Everything outside the fragment yields OutOfFragment, never a value.
   Definitions only. *)
From Coq Require Import String List ZArith NArith QArith Qcanon Qround Qabs Bool Ascii.
From NV Require Base.Show.
From NV Require Syntax.Token Syntax.Ast Syntax.StmtAst Syntax.Lexer Syntax.Parser Syntax.Exec.
From NV Require Dim.Model Dim.Infer Dim.Exec.
From NV Require VM.Value VM.Ast VM.Compile VM.Machine VM.Exec.
Import ListNotations.
Open Scope string_scope.

Module S := Syntax.Ast.
Module SS := Syntax.StmtAst.
Module T := Dim.Infer.
Module V := VM.Ast.

(* ------------------------------------------------------------------ small conversions *)
Fixpoint str_to_string (s : Syntax.Token.str) : option string :=
  match s with
  | [] => Some EmptyString
  | c :: r =>
      if (c <? 128)%N then
        match str_to_string r with
        | Some t => Some (String (ascii_of_N c) t)
        | None => None
        end
      else None
  end.

(* decimal lexemes `digits` or `digits.digits` (the lexer has removed underscores); no exponent *)
Fixpoint digits_to_Z (s : Syntax.Token.str) (acc : Z) : option Z :=
  match s with
  | [] => Some acc
  | c :: r => if ((48 <=? c) && (c <=? 57))%N then digits_to_Z r (acc * 10 + Z.of_N (c - 48))%Z else None
  end.
Fixpoint split_dot (s : Syntax.Token.str) : Syntax.Token.str * option Syntax.Token.str :=
  match s with
  | [] => ([], None)
  | c :: r => if (c =? 46)%N then ([], Some r) else let (a, b) := split_dot r in (c :: a, b)
  end.
(* 0x… / 0o… / 0b… integer literals *)
Definition digit_val (c : N) : option Z :=
  if ((48 <=? c) && (c <=? 57))%N then Some (Z.of_N (c - 48))
  else if ((97 <=? c) && (c <=? 102))%N then Some (Z.of_N (c - 87))
  else if ((65 <=? c) && (c <=? 70))%N then Some (Z.of_N (c - 55))
  else None.
Fixpoint radix_to_Z (base : Z) (s : Syntax.Token.str) (acc : Z) : option Z :=
  match s with
  | [] => Some acc
  | c :: r => match digit_val c with
              | Some d => if (d <? base)%Z then radix_to_Z base r (acc * base + d)%Z else None
              | None => None
              end
  end.
Definition lexeme_to_Q (s : Syntax.Token.str) : option Q :=
  match s with
  | 48%N :: 120%N :: (_ :: _) as r => option_map inject_Z (radix_to_Z 16 r 0%Z)
  | 48%N :: 111%N :: (_ :: _) as r => option_map inject_Z (radix_to_Z 8 r 0%Z)
  | 48%N :: 98%N :: (_ :: _) as r => option_map inject_Z (radix_to_Z 2 r 0%Z)
  | _ =>
  match split_dot s with
  | ([], _) => None
  | (ip, None) => option_map inject_Z (digits_to_Z ip 0%Z)
  | (ip, Some []) => None
  | (ip, Some fp) =>
      match digits_to_Z ip 0%Z, digits_to_Z fp 0%Z with
      | Some i, Some f =>
          let d := Z.pow 10 (Z.of_nat (length fp)) in
          Some (Qred (Qmake (i * d + f) (Z.to_pos d)))
      | _, _ => None
      end
  end
  end.

Definition omap {A B} (f : A -> option B) : list A -> option (list B) :=
  fix go l := match l with
              | [] => Some []
              | x :: r => match f x, go r with Some y, Some ys => Some (y :: ys) | _, _ => None end
              end.

(* ------------------------------------------------------------------ to the type checker's input *)
Definition tc_binop (o : S.binop) : T.binop :=
  match o with
  | S.Add => T.OAdd | S.Sub => T.OSub | S.Mul => T.OMul | S.Div => T.ODiv | S.Power => T.OPow
  | S.ConvertTo => T.OConv | S.LessThan => T.OLt | S.GreaterThan => T.OGt
  | S.LessOrEqual => T.OLe | S.GreaterOrEqual => T.OGe | S.Equal => T.OEq | S.NotEqual => T.ONe
  | S.LogicalAnd => T.OAnd | S.LogicalOr => T.OOr
  end.

(* The checker model has no constructor for interpolated strings.  numbat elaborates every
   embedded expression (any type) and gives the string the type String; the same typing is
   obtained from `if true then {}(e1) else (if true then {}(e2) else … "")` with the pseudo
   foreign function `{}<T>(x: T) -> String` (declared in pinit; `{}` is not an identifier, so
   no program can mention or redefine it). *)
Definition interp_fn : string := "{}".
Fixpoint tc_interp (es : list T.expr) : T.expr :=
  match es with
  | [] => T.EStr
  | e :: r => T.EIf (T.EBool true) (T.ECall interp_fn [e]) (tc_interp r)
  end.

Section WithFunctions.
(* names bound to functions (session + this input): `x -> f` with such an f is the call f(x) *)
Variable isfn : string -> bool.

Fixpoint to_tc (e : S.expr) : option T.expr :=
  match e with
  | S.EScalar lx => match lexeme_to_Q lx with Some q => Some (T.EScalar (Q2Qc q)) | None => None end
  | S.EScalarExp k => Some (T.EScalar (Dim.Model.qc k))
  | S.EIdent n => option_map T.EIdent (str_to_string n)
  | S.EBool b => Some (T.EBool b)
  | S.EString _ => Some T.EStr
  | S.EInterp parts =>
      option_map (fun l => tc_interp (concat l))
        (omap (fun p => match p with
                        | S.PFixed _ => Some []
                        | S.PExpr x _ => option_map (fun y => [y]) (to_tc x)
                        end) parts)
  | S.EUn op a =>
      match op, to_tc a with
      | S.Negate, Some x => Some (T.EUn T.UNeg x)
      | S.Factorial 1, Some x => Some (T.EUn T.UFact x)
      | S.LogicalNeg, Some x => Some (T.EUn T.UNot x)
      | _, _ => None
      end
  | S.EBin op a b =>
      match op, b with
      | S.ConvertTo, S.EIdent f =>
          match str_to_string f, to_tc a with
          | Some f', Some x => if isfn f' then Some (T.ECall f' [x]) else Some (T.EBin T.OConv x (T.EIdent f'))
          | _, _ => None
          end
      | _, _ =>
          match to_tc a, to_tc b with
          | Some x, Some y => Some (T.EBin (tc_binop op) x y)
          | _, _ => None
          end
      end
  | S.ECall (S.EIdent f) args =>
      match str_to_string f, omap to_tc args with
      | Some f', Some xs => Some (T.ECall f' xs)
      | _, _ => None
      end
  | S.EIf c t e0 =>
      match to_tc c, to_tc t, to_tc e0 with
      | Some x, Some y, Some z => Some (T.EIf x y z)
      | _, _, _ => None
      end
  | S.EList es => option_map T.EList (omap to_tc es)
  | _ => None
  end.

Fixpoint tc_texp (t : SS.texp) : option T.dexpr :=
  match t with
  | SS.TEUnity => Some T.DUnity
  | SS.TEIdent n [] => option_map T.DName (str_to_string n)
  | SS.TEIdent _ _ => None
  | SS.TEMul a b => match tc_texp a, tc_texp b with Some x, Some y => Some (T.DMul x y) | _, _ => None end
  | SS.TEDiv a b => match tc_texp a, tc_texp b with Some x, Some y => Some (T.DDiv x y) | _, _ => None end
  | SS.TEPow a (n, d) => match tc_texp a with Some x => Some (T.DPow x (Dim.Model.qcf n d)) | None => None end
  end.

Fixpoint tc_tann (a : SS.tann) : option T.annot :=
  match a with
  | SS.TAExp t => option_map T.ADim (tc_texp t)
  | SS.TABool => Some T.ABool
  | SS.TAString => Some T.AString
  | SS.TADateTime => Some T.ADateTime
  | SS.TAList t => option_map T.AList (tc_tann t)
  | SS.TAFn _ _ => None
  end.

Definition tc_oann (a : option SS.tann) : option (option T.annot) :=
  match a with None => Some None | Some t => option_map Some (tc_tann t) end.

Definition tc_local (v : SS.defvar) : option (string * option T.annot * T.expr) :=
  match str_to_string (SS.dv_name v), tc_oann (SS.dv_ann v), to_tc (SS.dv_expr v) with
  | Some x, Some a, Some e => Some (x, a, e)
  | _, _, _ => None
  end.

Definition tc_param (p : Syntax.Token.str * option SS.tann) : option (string * option T.annot) :=
  match str_to_string (fst p), tc_oann (snd p) with Some x, Some a => Some (x, a) | _, _ => None end.
Definition tc_param_ann (p : Syntax.Token.str * option SS.tann) : option (string * T.annot) :=
  match str_to_string (fst p), snd p with
  | Some x, Some t => option_map (fun a => (x, a)) (tc_tann t)
  | _, _ => None
  end.
Definition tc_tparam (p : Syntax.Token.str * bool) : option (string * bool) :=
  option_map (fun x => (x, snd p)) (str_to_string (fst p)).

Definition stmt_to_tc (s : SS.stmt) : option T.stmt :=
  match s with
  | SS.StExpr e => option_map T.SExpr (to_tc e)
  | SS.StLet v =>
      match tc_local v with Some (x, a, e) => Some (T.SLet x a e) | None => None end
  | SS.StProc k args =>
      match omap to_tc args with
      | Some xs =>
          match k with
          | Syntax.Token.KPrint => Some (T.SProc T.PPrint xs)
          | Syntax.Token.KAssert => Some (T.SProc T.PAssert xs)
          | Syntax.Token.KAssertEq => Some (T.SProc T.PAssertEq xs)
          | _ => None
          end
      | None => None
      end
  | SS.StFn name tps ps ret (Some body) locals _ =>
      match str_to_string name, omap tc_tparam tps, omap tc_param ps, tc_oann ret, omap tc_local locals, to_tc body with
      | Some f, Some tps', Some ps', Some ret', Some ls, Some b => Some (T.SFn f tps' ps' ret' ls b)
      | _, _, _, _, _, _ => None
      end
  | SS.StFn name tps ps (Some ret) None [] _ =>
      match str_to_string name, omap tc_tparam tps, omap tc_param_ann ps, tc_tann ret with
      | Some f, Some tps', Some ps', Some ret' => Some (T.SForeign f tps' ps' ret')
      | _, _, _, _ => None
      end
  | _ => None
  end.

(* ------------------------------------------------------------------ to the VM's typed source *)
Definition vm_binop (o : S.binop) : VM.Value.binop :=
  match o with
  | S.Add => VM.Value.BAdd | S.Sub => VM.Value.BSub | S.Mul => VM.Value.BMul | S.Div => VM.Value.BDiv
  | S.Power => VM.Value.BPow | S.ConvertTo => VM.Value.BConv | S.LessThan => VM.Value.BLt
  | S.GreaterThan => VM.Value.BGt | S.LessOrEqual => VM.Value.BLe | S.GreaterOrEqual => VM.Value.BGe
  | S.Equal => VM.Value.BEq | S.NotEqual => VM.Value.BNe | S.LogicalAnd => VM.Value.BAnd
  | S.LogicalOr => VM.Value.BOr
  end.

Fixpoint to_vm (e : S.expr) : option (V.expr Q) :=
  match e with
  | S.EScalar lx => option_map V.EScalar (lexeme_to_Q lx)
  | S.EScalarExp k => Some (V.EScalar (inject_Z k))
  | S.EIdent n => option_map V.EIdent (str_to_string n)
  | S.EBool b => Some (V.EBool b)
  | S.EString s => option_map (fun t => V.EString [inl t]) (str_to_string s)
  | S.EInterp parts =>
      option_map V.EString
        (omap (fun p => match p with
                        | S.PFixed t => option_map inl (str_to_string t)
                        | S.PExpr x None => option_map (fun y => inr (y, None)) (to_vm x)
                        | S.PExpr x (Some f) =>
                            match to_vm x, str_to_string f with
                            | Some y, Some f' => Some (inr (y, Some f'))
                            | _, _ => None
                            end
                        end) parts)
  | S.EUn op a =>
      match op, to_vm a with
      | S.Negate, Some x => Some (V.EUn VM.Value.UNeg x)
      | S.Factorial n, Some x => Some (V.EUn (VM.Value.UFact n) x)
      | S.LogicalNeg, Some x => Some (V.EUn VM.Value.UNot x)
      | _, _ => None
      end
  | S.EBin op a b =>
      match op, b with
      | S.ConvertTo, S.EIdent f =>
          match str_to_string f, to_vm a with
          | Some f', Some x => if isfn f' then Some (V.ECall f' [x]) else Some (V.EBin VM.Value.BConv x (V.EIdent f'))
          | _, _ => None
          end
      | _, _ =>
          match to_vm a, to_vm b with
          | Some x, Some y => Some (V.EBin (vm_binop op) x y)
          | _, _ => None
          end
      end
  | S.ECall (S.EIdent f) args =>
      match str_to_string f, omap to_vm args with
      | Some f', Some xs => Some (V.ECall f' xs)
      | _, _ => None
      end
  | S.EIf c t e0 =>
      match to_vm c, to_vm t, to_vm e0 with
      | Some x, Some y, Some z => Some (V.ECond x y z)
      | _, _, _ => None
      end
  | S.EList es => option_map V.EList (omap to_vm es)
  | _ => None
  end.

Definition vm_local (v : SS.defvar) : option (string * V.expr Q) :=
  match str_to_string (SS.dv_name v), to_vm (SS.dv_expr v) with
  | Some x, Some e => Some (x, e)
  | _, _ => None
  end.

Definition stmt_to_vm (s : SS.stmt) : option (V.stmt Q) :=
  match s with
  | SS.StExpr e => option_map V.SExpr (to_vm e)
  | SS.StLet v => match vm_local v with Some (x, e) => Some (V.SLet x e) | None => None end
  | SS.StProc k args =>
      match omap to_vm args with
      | Some xs =>
          match k with
          | Syntax.Token.KPrint => Some (V.SProc "print" xs)
          | Syntax.Token.KAssert => Some (V.SProc "assert" xs)
          | Syntax.Token.KAssertEq => Some (V.SProc "assert_eq" xs)
          | _ => None
          end
      | None => None
      end
  | SS.StFn name _ ps _ (Some body) locals _ =>
      match str_to_string name, omap (fun p => str_to_string (fst p)) ps, omap vm_local locals, to_vm body with
      | Some f, Some ps', Some ls, Some b => Some (V.SFn f ps' ls b)
      | _, _, _, _ => None
      end
  | SS.StFn name _ _ _ None _ _ => option_map V.SForeign (str_to_string name)
  | _ => None
  end.

End WithFunctions.

(* ------------------------------------------------------------------ the run-time primitives *)
(* The VM model is parametric in the quantity type; here a quantity is an exact rational (Qred-
   normalised).  numbat computes in f64: the instance answers only where the f64 computation
   is exact for the short decimals of the examples and says "unmodelled…" otherwise. *)
Definition unmodelled {A} (why : string) : VM.Value.res A := VM.Value.Err ("unmodelled-" ++ why).
Definition q_is_int (q : Q) : bool := Pos.eqb (Qden (Qred q)) 1.
Definition q_trunc (q : Q) : Z := if Qle_bool 0 q then Qfloor q else Qceiling q.
Definition q_round (q : Q) : Z :=           (* f64::round: half away from zero *)
  if Qle_bool 0 q then Qfloor (q + (1 # 2)) else Qceiling (q - (1 # 2)).
Definition q_ltb (a b : Q) : bool := Qle_bool a b && negb (Qeq_bool a b).

Definition perfect_sqrt (z : Z) : option Z :=
  let r := Z.sqrt z in if (Z.leb 0 z && Z.eqb (r * r) z)%bool then Some r else None.

Definition qpow_int (a : Q) (n : Z) : VM.Value.res Q :=
  if (Qeq_bool a 0 && Z.ltb n 0)%bool then unmodelled "division-by-zero" else VM.Value.Ok (Qred (Qpower a n)).

Definition qarith (op : VM.Value.binop) (a b : Q) : VM.Value.res Q :=
  match op with
  | VM.Value.BAdd => VM.Value.Ok (Qred (a + b))
  | VM.Value.BSub => VM.Value.Ok (Qred (a - b))
  | VM.Value.BMul => VM.Value.Ok (Qred (a * b))
  | VM.Value.BDiv => if Qeq_bool b 0 then unmodelled "division-by-zero" else VM.Value.Ok (Qred (a / b))
  | VM.Value.BPow =>
      let e := Qred b in
      match Qden e with
      | 1%positive => qpow_int a (Qnum e)
      | 2%positive =>
          let a' := Qred a in
          match perfect_sqrt (Qnum a'), perfect_sqrt (Zpos (Qden a')) with
          | Some n, Some (Zpos d) => qpow_int (Qmake n d) (Qnum e)
          | _, _ => unmodelled "irrational-power"
          end
      | _ => unmodelled "irrational-power"
      end
  | VM.Value.BConv => VM.Value.Ok a             (* scalar -> scalar *)
  | _ => VM.Value.Wrong
  end.
Definition qcmp (op : VM.Value.binop) (a b : Q) : VM.Value.res bool :=
  match op with
  | VM.Value.BLt => VM.Value.Ok (q_ltb a b)
  | VM.Value.BGt => VM.Value.Ok (q_ltb b a)
  | VM.Value.BLe => VM.Value.Ok (Qle_bool a b)
  | VM.Value.BGe => VM.Value.Ok (Qle_bool b a)
  | _ => VM.Value.Wrong
  end.
Definition qfact (order : nat) (q : Q) : VM.Value.res Q :=
  if q_is_int q then
    match VM.Exec.zfact order (Qnum (Qred q)) with
    | VM.Value.Ok z => VM.Value.Ok (inject_Z z)
    | VM.Value.Err e => VM.Value.Err e
    | VM.Value.Wrong => VM.Value.Wrong
    | VM.Value.Fuel => VM.Value.Fuel
    end
  else VM.Value.Err "FactorialOfNonInteger".

(* how numbat prints a scalar: integers as VM.Exec.show_q; a non-integer only if it is a decimal
   with at most 6 significant digits and magnitude >= 0.001 (then no rounding is involved) *)
Definition unmodelled_mark : string := "?unmodelled".
Fixpoint decimal_places (fuel k : nat) (q : Q) : option (nat * Z) :=
  let x := Qred (q * inject_Z (Z.pow 10 (Z.of_nat k))) in
  if Pos.eqb (Qden x) 1 then Some (k, Qnum x) else
  match fuel with O => None | S f => decimal_places f (S k) q end.
Fixpoint zeros (n : nat) : string := match n with O => "" | S k => "0" ++ zeros k end.
Definition qshow (q : Q) : string :=
  let q := Qred q in
  if q_is_int q then VM.Exec.show_q (Qnum q) else
  let neg := negb (Qle_bool 0 q) in
  let aq := if neg then Qopp q else q in
  match decimal_places 6 0 aq with
  | Some (k, n) =>
      let p := Z.pow 10 (Z.of_nat k) in
      let digits := Base.Show.show_Z n in
      if (Nat.leb (String.length digits) 6 && Z.leb (Z.pow 10 (Z.of_nat k - 3)) n && Z.ltb (n / p) 100000)%bool then
        let fp := Base.Show.show_Z (n mod p) in
        (if neg then "-" else "") ++ Base.Show.show_Z (n / p) ++ "." ++ zeros (k - String.length fp) ++ fp
      else unmodelled_mark
  | None => unmodelled_mark
  end.

(* exact logarithms: only of exact powers of the base (there the f64 result is the integer) *)
Fixpoint ilog (fuel : nat) (base x acc : Z) : option Z :=
  match fuel with
  | O => None
  | S f => if Z.eqb x 1 then Some acc
           else if Z.eqb (x mod base) 0 then ilog f base (x / base) (acc + 1)%Z else None
  end.
Definition qlog (base : Z) (q : Q) : option Z :=
  let q := Qred q in
  if Z.leb (Qnum q) 0 then None
  else if Pos.eqb (Qden q) 1 then ilog (S (Z.to_nat (Z.log2 (Qnum q)))) base (Qnum q) 0%Z
  else if Z.eqb (Qnum q) 1 then option_map Z.opp (ilog (S (Z.to_nat (Z.log2 (Zpos (Qden q))))) base (Zpos (Qden q)) 0%Z)
  else None.

(* ffi parse on plain numbers: an optional minus sign and one numeric literal (underscores removed,
   as the tokenizer does) *)
Fixpoint string_codes (s : string) : list N :=
  match s with
  | EmptyString => []
  | String c r => N.of_nat (nat_of_ascii c) :: string_codes r
  end.
Definition parse_number (s : string) : option Q :=
  let cs := filter (fun c => negb (N.eqb c 95)) (string_codes s) in
  match cs with
  | 45%N :: r => option_map Qopp (lexeme_to_Q r)
  | _ => lexeme_to_Q cs
  end.

Definition qv (q : Q) : VM.Value.res (VM.Value.value Q) := VM.Value.Ok (VM.Value.VQ (Qred q)).
Definition qz (z : Z) : VM.Value.res (VM.Value.value Q) := VM.Value.Ok (VM.Value.VQ (inject_Z z)).

(* the foreign functions of the fragment (ffi/lists.rs, strings.rs, math.rs, functions.rs) on
   exact rationals; every quantity of the fragment is a plain scalar *)
Definition qffi (name : string) (args : list (VM.Value.value Q)) : VM.Value.res (VM.Value.value Q) :=
  let is x := String.eqb name x in
  if is "len" then
    match args with [VM.Value.VList l] => qz (Z.of_nat (length l)) | _ => VM.Value.Wrong end
  else if is "head" then
    match args with [VM.Value.VList (x :: _)] => VM.Value.Ok x | [VM.Value.VList []] => VM.Value.Err "EmptyList" | _ => VM.Value.Wrong end
  else if is "tail" then
    match args with [VM.Value.VList (_ :: r)] => VM.Value.Ok (VM.Value.VList r) | [VM.Value.VList []] => VM.Value.Err "EmptyList" | _ => VM.Value.Wrong end
  else if is "cons" then
    match args with [x; VM.Value.VList l] => VM.Value.Ok (VM.Value.VList (x :: l)) | _ => VM.Value.Wrong end
  else if is "cons_end" then
    match args with [x; VM.Value.VList l] => VM.Value.Ok (VM.Value.VList (l ++ [x])%list) | _ => VM.Value.Wrong end
  else if is "str_length" then
    match args with [VM.Value.VStr s] => qz (Z.of_nat (String.length s)) | _ => VM.Value.Wrong end
  else if is "str_slice" then
    match args with
    | [VM.Value.VQ a; VM.Value.VQ b; VM.Value.VStr s] =>
        let a' := Z.to_nat (q_trunc a) in
        let b' := Z.to_nat (q_trunc b) in
        if (Nat.leb a' b' && Nat.leb b' (String.length s))%bool
        then VM.Value.Ok (VM.Value.VStr (String.substring a' (b' - a') s)) else VM.Value.Ok (VM.Value.VStr "")
    | _ => VM.Value.Wrong
    end
  else if is "uppercase" then
    match args with [VM.Value.VStr s] => VM.Value.Ok (VM.Value.VStr (VM.Exec.map_ascii VM.Exec.upper_ascii s)) | _ => VM.Value.Wrong end
  else if is "lowercase" then
    match args with [VM.Value.VStr s] => VM.Value.Ok (VM.Value.VStr (VM.Exec.map_ascii VM.Exec.lower_ascii s)) | _ => VM.Value.Wrong end
  else if is "chr" then
    match args with
    | [VM.Value.VQ a] =>
        if (q_is_int a && Qle_bool 1 a && Qle_bool a 127)%bool
        then VM.Value.Ok (VM.Value.VStr (String (ascii_of_nat (Z.to_nat (Qnum (Qred a)))) ""))
        else unmodelled "chr-outside-ascii"
    | _ => VM.Value.Wrong
    end
  else if is "abs" then
    match args with [VM.Value.VQ a] => qv (Qabs a) | _ => VM.Value.Wrong end
  else if is "floor" then
    match args with [VM.Value.VQ a] => qz (Qfloor a) | _ => VM.Value.Wrong end
  else if is "ceil" then
    match args with [VM.Value.VQ a] => qz (Qceiling a) | _ => VM.Value.Wrong end
  else if is "round" then
    match args with [VM.Value.VQ a] => qz (q_round a) | _ => VM.Value.Wrong end
  else if is "trunc" then
    match args with [VM.Value.VQ a] => qz (q_trunc a) | _ => VM.Value.Wrong end
  else if is "fract" then
    match args with [VM.Value.VQ a] => qv (a - inject_Z (q_trunc a)) | _ => VM.Value.Wrong end
  else if is "mod" then
    (* f64::rem_euclid: r = a - b*trunc(a/b); r < 0 => r + |b| *)
    match args with
    | [VM.Value.VQ a; VM.Value.VQ b] =>
        if Qeq_bool b 0 then unmodelled "mod-by-zero" else
        let r := a - b * inject_Z (q_trunc (a / b)) in
        qv (if Qle_bool 0 r then r else r + Qabs b)
    | _ => VM.Value.Wrong
    end
  else if is "log2" then
    match args with
    | [VM.Value.VQ a] => match qlog 2 a with Some k => qz k | None => unmodelled "inexact-logarithm" end
    | _ => VM.Value.Wrong
    end
  else if is "log10" then
    match args with
    | [VM.Value.VQ a] => match qlog 10 a with Some k => qz k | None => unmodelled "inexact-logarithm" end
    | _ => VM.Value.Wrong
    end
  else if is "parse" then
    match args with
    | [VM.Value.VStr t] => match parse_number t with Some q => qv q | None => unmodelled "parse-of-an-expression" end
    | _ => VM.Value.Wrong
    end
  else if is "is_nan" then
    match args with [VM.Value.VQ _] => VM.Value.Ok (VM.Value.VBool false) | _ => VM.Value.Wrong end
  else if is "is_infinite" then
    match args with [VM.Value.VQ _] => VM.Value.Ok (VM.Value.VBool false) | _ => VM.Value.Wrong end
  else if is "is_dimensionless" then
    match args with [VM.Value.VQ _] => VM.Value.Ok (VM.Value.VBool true) | _ => VM.Value.Wrong end
  else if is "unit_name" then
    match args with [VM.Value.VQ _] => VM.Value.Ok (VM.Value.VStr "") | _ => VM.Value.Wrong end
  else if is "error" then
    match args with [VM.Value.VStr m] => VM.Value.Err ("UserError: " ++ m) | _ => VM.Value.Wrong end
  else VM.Value.Wrong.

Definition qops0 : VM.Value.ops Q :=
  {| VM.Value.q_unit := fun _ => 1%Q;   (* never reached: unit identifiers are outside the fragment *)
     VM.Value.q_neg := fun q => Qred (Qopp q); VM.Value.q_fact := qfact; VM.Value.q_arith := qarith;
     VM.Value.q_cmp := qcmp; VM.Value.q_eqb := Qeq_bool; VM.Value.q_show := qshow;
     VM.Value.fmt_spec := fun _ _ => unmodelled "format-specifier";
     VM.Value.ffi := qffi; VM.Value.proc := fun _ _ => VM.Value.Wrong;
     VM.Value.procs := ["print"; "assert"; "assert_eq"] |}.

Definition qproc (name : string) (args : list (VM.Value.value Q)) : VM.Value.res (list string) :=
  if String.eqb name "print" then
    match args with
    | [] => VM.Value.Ok [""]
    | [VM.Value.VStr s] => VM.Value.Ok [s]
    | [VM.Value.VQ q] => VM.Value.Ok [qshow q]
    | [VM.Value.VBool b] => VM.Value.Ok [if b then "true" else "false"]
    | [_] => unmodelled "print-of-compound-value"
    | _ => VM.Value.Wrong
    end
  else if String.eqb name "assert" then
    match args with
    | [VM.Value.VBool true] => VM.Value.Ok []
    | [VM.Value.VBool false] => VM.Value.Err "AssertFailed"
    | _ => VM.Value.Wrong
    end
  else if String.eqb name "assert_eq" then
    match args with
    | [a; b] => if VM.Value.value_eqb qops0 a b then VM.Value.Ok [] else VM.Value.Err "AssertEq2Failed"
    | _ => VM.Value.Wrong
    end
  else VM.Value.Wrong.

Definition pops : VM.Value.ops Q :=
  {| VM.Value.q_unit := fun _ => 1%Q;
     VM.Value.q_neg := fun q => Qred (Qopp q); VM.Value.q_fact := qfact; VM.Value.q_arith := qarith;
     VM.Value.q_cmp := qcmp; VM.Value.q_eqb := Qeq_bool; VM.Value.q_show := qshow;
     VM.Value.fmt_spec := fun _ _ => unmodelled "format-specifier";
     VM.Value.ffi := qffi; VM.Value.proc := qproc;
     VM.Value.procs := ["print"; "assert"; "assert_eq"] |}.

(* how the CLI / docs print a value of the fragment *)
Fixpoint show_value (v : VM.Value.value Q) : string :=
  match v with
  | VM.Value.VQ q => qshow q
  | VM.Value.VBool true => "true"
  | VM.Value.VBool false => "false"
  | VM.Value.VStr s => """" ++ s ++ """"
  | VM.Value.VList l => "[" ++ Base.Show.join ", " (map show_value l) ++ "]"
  | _ => unmodelled_mark
  end.

(* does the text contain the mark of an unmodelled rendering? *)
Fixpoint has_mark (s : string) : bool :=
  match s with
  | EmptyString => false
  | String _ r => String.prefix unmodelled_mark s || has_mark r
  end.

(* ------------------------------------------------------------------ the pipeline *)
Inductive poutcome :=
| POk (value : string)             (* type-checks and evaluates; the printed value ("-" if none) *)
| PTypeError (e : string)
| PRuntimeError (e : string)
| PSyntaxError
| POutOfFragment
| POutOfFuel.

Definition parse_text (src : Syntax.Token.str) : option (list SS.stmt) :=
  match Syntax.Exec.lex src with
  | Syntax.Lexer.LOk ts =>
      match Syntax.Parser.parse ts with
      | Syntax.Parser.Ok stmts [] => Some stmts
      | _ => None
      end
  | _ => None
  end.

(* session state: the checker's state and the VM-level program accepted so far *)
Definition pstate := (T.tc * V.program Q)%type.

Definition initial_registry : T.registry := T.mkReg [] [("Scalar", [])] [].
(* the pseudo function of interpolated strings (see tc_interp) is the only initial binding *)
Definition pinit : pstate :=
  let s0 := T.mkTc [] initial_registry 0%N [] in
  match T.check [T.SForeign interp_fn [("T", false)] [("x", T.ADim (T.DName "T"))] T.AString] s0 with
  | Dim.Model.Ok (_, s1) => (s1, [])
  | Dim.Model.Err _ => (s0, [])
  end.

(* the names bound to functions: in the checker's environment, or defined by this very input *)
Definition fn_names (stmts : list SS.stmt) : list string :=
  flat_map (fun s => match s with
                     | SS.StFn name _ _ _ _ _ _ => match str_to_string name with Some f => [f] | None => [] end
                     | _ => []
                     end) stmts.
Definition isfn_in (tc : T.tc) (stmts : list SS.stmt) (f : string) : bool :=
  match T.env_find (T.tc_env tc) f with
  | Some (T.IdFunction _) => true
  | Some _ => false
  | None => existsb (String.eqb f) (fn_names stmts)
  end.

Definition mfuel : nat := Nat.pow 2 16.

(* one input against a session state *)
Definition interpret_in (st : pstate) (src : Syntax.Token.str) : poutcome * pstate :=
  match Syntax.Exec.lex src with
  | Syntax.Lexer.LOk ts =>
      match Syntax.Parser.parse ts with
      | Syntax.Parser.Ok stmts [] =>
          let isfn := isfn_in (fst st) stmts in
          match omap (stmt_to_tc isfn) stmts, omap (stmt_to_vm isfn) stmts with
          | Some tcs, Some vms =>
              match T.check tcs (fst st) with
              | Dim.Model.Err Dim.Model.EUnsupported => (POutOfFragment, st)
              | Dim.Model.Err e => (PTypeError (Dim.Exec.show_err e), st)
              | Dim.Model.Ok (_, tc') =>
                  let prog := (snd st ++ vms)%list in
                  let c := VM.Compile.compile (VM.Value.procs pops) prog in
                  if VM.Compile.code_too_large c then (POutOfFragment, st) else
                  match VM.Machine.run pops c mfuel with
                  | VM.Value.Ok (_, Some v) =>
                      let out := show_value v in
                      if has_mark out then (POutOfFragment, st) else (POk out, (tc', prog))
                  | VM.Value.Ok (_, None) => (POk "-", (tc', prog))
                  | VM.Value.Err e =>
                      if String.prefix "unmodelled" e then (POutOfFragment, st) else (PRuntimeError e, st)
                  | VM.Value.Wrong => (POutOfFragment, st)
                  | VM.Value.Fuel => (POutOfFuel, st)
                  end
              end
          | _, _ => (POutOfFragment, st)
          end
      | Syntax.Parser.Unsupported => (POutOfFragment, st)
      | Syntax.Parser.OutOfFuel => (POutOfFuel, st)
      | _ => (PSyntaxError, st)
      end
  | Syntax.Lexer.LUnsupported => (POutOfFragment, st)
  | Syntax.Lexer.LOutOfFuel => (POutOfFuel, st)
  | Syntax.Lexer.LErr _ => (PSyntaxError, st)
  end.

(* load library sources (each one definition of the standard library, verbatim from the .nbt
   file); a definition outside the fragment is skipped — what depends on it will then fail to
   check and be classified as outside the fragment *)
Fixpoint load_library (st : pstate) (lib : list Syntax.Token.str) : pstate :=
  match lib with
  | [] => st
  | src :: r => load_library (snd (interpret_in st src)) r
  end.

(* interpret_model: the example `src` in a session that has loaded the library sources `lib` *)
Definition interpret_model (lib : list Syntax.Token.str) (src : Syntax.Token.str) : poutcome :=
  fst (interpret_in (load_library pinit lib) src).

(* the strict variant used for the documentation examples: every needed library definition must
   itself go through the whole pipeline; otherwise the example is outside the fragment *)
Fixpoint load_library_strict (st : pstate) (lib : list Syntax.Token.str) : option pstate :=
  match lib with
  | [] => Some st
  | src :: r =>
      match interpret_in st src with
      | (POk _, st') => load_library_strict st' r
      | _ => None
      end
  end.

Definition interpret_model_strict (lib : list Syntax.Token.str) (src : Syntax.Token.str) : poutcome :=
  match load_library_strict pinit lib with
  | Some st => fst (interpret_in st src)
  | None => POutOfFragment
  end.

Definition show_poutcome (o : poutcome) : string :=
  match o with
  | POk v => "ok:" ++ v
  | PTypeError e => "err:typecheck:" ++ e
  | PRuntimeError e => "err:runtime:" ++ e
  | PSyntaxError => "err:parse"
  | POutOfFragment => "out-of-fragment"
  | POutOfFuel => "out-of-fuel"
  end.

Definition example_runs_ok (x : list Syntax.Token.str * Syntax.Token.str) : bool :=
  match interpret_model_strict (fst x) (snd x) with POk _ => true | _ => false end.
