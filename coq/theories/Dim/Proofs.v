(* Dim/Proofs.v — proofs about Dim/Model.v and Dim/Infer.v against the specification Dim/Sem.v. *)
From Coq Require Import String List ZArith QArith Qcanon Bool Lia.
From NV Require Import Dim.Model Dim.Infer Dim.Sem.
Import ListNotations.
Open Scope string_scope.
Open Scope list_scope.

(* ------------------------------------------------------------------ equalities *)
Lemma qc_eqb_true a b : qc_eqb a b = true -> a = b.
Proof. apply Qc_eq_bool_correct. Qed.
Lemma qc_eqb_false a b : qc_eqb a b = false -> a <> b.
Proof. unfold qc_eqb, Qc_eq_bool. destruct (Qc_eq_dec a b); congruence. Qed.

Lemma var_eqb_true a b : var_eqb a b = true -> a = b.
Proof.
  destruct a, b; simpl; try discriminate; intro H.
  - apply String.eqb_eq in H. congruence.
  - apply Nat.eqb_eq in H. congruence.
Qed.
Lemma var_eqb_refl a : var_eqb a a = true.
Proof. destruct a; simpl; [apply String.eqb_refl | apply Nat.eqb_refl]. Qed.

Lemma factor_eqb_true a b : factor_eqb a b = true -> a = b.
Proof.
  destruct a, b; simpl; try discriminate; intro H.
  - apply var_eqb_true in H. congruence.
  - apply String.eqb_eq in H. congruence.
  - apply String.eqb_eq in H. congruence.
Qed.

Lemma dtype_eqb_true a : forall b, dtype_eqb a b = true -> a = b.
Proof.
  induction a as [|[f n] r IH]; destruct b as [|[g m] s]; simpl; try discriminate; auto.
  intro H. apply andb_prop in H. destruct H as [H H3]. apply andb_prop in H. destruct H as [H1 H2].
  apply factor_eqb_true in H1. apply qc_eqb_true in H2. rewrite (IH _ H3). congruence.
Qed.

Lemma ty_eqb_true a : forall b, ty_eqb a b = true -> a = b.
Proof.
  induction a; destruct b; simpl; try discriminate; intro H; auto.
  - apply var_eqb_true in H. congruence.
  - apply String.eqb_eq in H. congruence.
  - apply dtype_eqb_true in H. congruence.
  - rewrite (IHa _ H). reflexivity.
Qed.

(* ------------------------------------------------------------------ deq / steq are equivalences *)
Lemma deq_refl a : deq a a. Proof. intro; reflexivity. Qed.
Lemma deq_sym a b : deq a b -> deq b a. Proof. intros H x; symmetry; apply H. Qed.
Lemma deq_trans a b c : deq a b -> deq b c -> deq a c.
Proof. intros H1 H2 x; rewrite H1; apply H2. Qed.

Lemma steq_refl a : steq a a.
Proof. induction a; simpl; auto. apply deq_refl. Qed.
Lemma steq_sym a : forall b, steq a b -> steq b a.
Proof. induction a; destruct b; simpl; auto. apply deq_sym. Qed.
Lemma steq_trans a : forall b c, steq a b -> steq b c -> steq a c.
Proof.
  induction a; destruct b; simpl; try contradiction; destruct c; simpl; try contradiction; auto.
  - apply deq_trans.
  - apply IHa.
Qed.

Lemma dadd_deq a a' b b' : deq a a' -> deq b b' -> deq (dadd a b) (dadd a' b').
Proof. intros H1 H2 x; unfold dadd; rewrite H1, H2; reflexivity. Qed.
Lemma dscale_deq q a a' : deq a a' -> deq (dscale q a) (dscale q a').
Proof. intros H x; unfold dscale; rewrite H; reflexivity. Qed.

Ltac qring := unfold dadd, dscale, dzero, Qc0, Qc1, Qcdiv, Qcminus; ring.

(* ------------------------------------------------------------------ meaning of factor lists *)
(* dd th d x : the list d has a meaning and it is (pointwise) x *)
Definition dd (th : valuation) (d : dtype) (x : Dim) : Prop :=
  exists z, dden th d = Some z /\ deq z x.

Lemma dd_deq th d x y : dd th d x -> deq x y -> dd th d y.
Proof. intros [z [H1 H2]] H. exists z. split; auto. eapply deq_trans; eauto. Qed.

Lemma dd_of th d z : dden th d = Some z -> dd th d z.
Proof. intro H. exists z. split; auto. apply deq_refl. Qed.

Lemma dd_nil th : dd th [] dzero.
Proof. apply dd_of. reflexivity. Qed.

Lemma dd_cons th f e r x y :
  fval th f = Some x -> dd th r y -> dd th ((f, e) :: r) (dadd (dscale e x) y).
Proof.
  intros Hf [z [Hz Hq]]. exists (dadd (dscale e x) z). simpl. rewrite Hf, Hz. split; auto.
  apply dadd_deq; auto. apply deq_refl.
Qed.

Lemma dd_cons_inv th f e r w :
  dd th ((f, e) :: r) w ->
  exists x y, fval th f = Some x /\ dd th r y /\ deq (dadd (dscale e x) y) w.
Proof.
  intros [z [Hz Hq]]. simpl in Hz.
  destruct (fval th f) as [x|] eqn:Hf; try discriminate.
  destruct (dden th r) as [y|] eqn:Hr; try discriminate.
  inversion Hz; subst. exists x, y. split; auto. split; auto. apply dd_of; auto.
Qed.

Lemma dd_app th a : forall b x y, dd th a x -> dd th b y -> dd th (a ++ b) (dadd x y).
Proof.
  induction a as [|[f e] r IH]; intros b x y Ha Hb.
  - simpl. destruct Ha as [z [Hz Hq]]. simpl in Hz. inversion Hz; subst.
    eapply dd_deq; eauto. intro k. unfold dadd. rewrite <- (Hq k). qring.
  - apply dd_cons_inv in Ha. destruct Ha as [u [v [Hf [Hr Hq]]]].
    simpl. eapply dd_deq. { apply dd_cons; eauto. }
    intro k. unfold dadd, dscale. rewrite <- (Hq k). qring.
Qed.

Lemma dd_app_inv th a : forall b w, dd th (a ++ b) w ->
  exists x y, dd th a x /\ dd th b y /\ deq (dadd x y) w.
Proof.
  induction a as [|[f e] r IH]; intros b w H.
  - simpl in H. exists dzero, w. split; [apply dd_nil|]. split; auto.
    intro k. qring.
  - simpl in H. apply dd_cons_inv in H. destruct H as [u [v [Hf [Hr Hq]]]].
    apply IH in Hr. destruct Hr as [x [y [Hx [Hy Hxy]]]].
    exists (dadd (dscale e u) x), y. split; [apply dd_cons; auto|]. split; auto.
    intro k. rewrite <- (Hq k). unfold dadd, dscale. rewrite <- (Hxy k). qring.
Qed.

Lemma dd_map_exp th (g : Qc -> Qc) n :
  (forall e, g e = (n * e)%Qc) ->
  forall d x, dd th d x -> dd th (map (fun p => (fst p, g (snd p))) d) (dscale n x).
Proof.
  intros Hg. induction d as [|[f e] r IH]; intros x H.
  - simpl. destruct H as [z [Hz Hq]]. simpl in Hz. inversion Hz; subst.
    eapply dd_deq; [apply dd_nil|]. intro k. unfold dscale. rewrite <- (Hq k).
    qring.
  - apply dd_cons_inv in H. destruct H as [u [v [Hf [Hr Hq]]]].
    simpl. eapply dd_deq. { apply dd_cons; eauto. }
    intro k. unfold dadd, dscale. rewrite <- (Hq k). unfold dadd, dscale. rewrite Hg. qring.
Qed.

Lemma dd_scale th n d x : dd th d x -> dd th (scale n d) (dscale n x).
Proof. unfold scale. apply (dd_map_exp th (fun e => (n * e)%Qc)). reflexivity. Qed.

Lemma dd_insert th a : forall l w, dd th (a :: l) w -> dd th (insert a l) w.
Proof.
  destruct a as [f e]. induction l as [|[g m] r IH]; intros w H; simpl; auto.
  destruct (factor_cmp f g); auto.
  - apply dd_cons_inv in H. destruct H as [u [v [Hf [Hr Hq]]]].
    apply dd_cons_inv in Hr. destruct Hr as [u2 [v2 [Hg [Hr2 Hq2]]]].
    eapply dd_deq. { apply dd_cons; [exact Hg|]. apply IH. apply dd_cons; [exact Hf|exact Hr2]. }
    intro k. rewrite <- (Hq k). unfold dadd, dscale. rewrite <- (Hq2 k). qring.
  - apply dd_cons_inv in H. destruct H as [u [v [Hf [Hr Hq]]]].
    apply dd_cons_inv in Hr. destruct Hr as [u2 [v2 [Hg [Hr2 Hq2]]]].
    eapply dd_deq. { apply dd_cons; [exact Hg|]. apply IH. apply dd_cons; [exact Hf|exact Hr2]. }
    intro k. rewrite <- (Hq k). unfold dadd, dscale. rewrite <- (Hq2 k). qring.
Qed.

Lemma dd_sort_acc th l : forall acc x y, dd th l x -> dd th acc y ->
  dd th (fold_left (fun acc x => insert x acc) l acc) (dadd x y).
Proof.
  induction l as [|[f e] r IH]; intros acc x y Hl Ha; simpl.
  - destruct Hl as [z [Hz Hq]]. simpl in Hz. inversion Hz; subst.
    eapply dd_deq; eauto. intro k. unfold dadd. rewrite <- (Hq k). qring.
  - apply dd_cons_inv in Hl. destruct Hl as [u [v [Hf [Hr Hq]]]].
    eapply dd_deq. { apply IH; [exact Hr|]. apply dd_insert. apply dd_cons; [exact Hf|exact Ha]. }
    intro k. unfold dadd. rewrite <- (Hq k). qring.
Qed.

Lemma dd_sort th l x : dd th l x -> dd th (sort_factors l) x.
Proof.
  intro H. unfold sort_factors. eapply dd_deq. { apply dd_sort_acc; [exact H|apply dd_nil]. }
  intro k. qring.
Qed.

Lemma dd_merge th l : forall x, dd th l x -> dd th (merge l) x.
Proof.
  induction l as [|[f n] r IH]; intros x H; simpl; auto.
  apply dd_cons_inv in H. destruct H as [u [v [Hf [Hr Hq]]]].
  apply IH in Hr. destruct (merge r) as [|[g m] r'] eqn:Hm.
  - eapply dd_deq. { apply dd_cons; [exact Hf|exact Hr]. } exact Hq.
  - destruct (factor_eqb f g) eqn:Hfg.
    + apply factor_eqb_true in Hfg. subst g.
      apply dd_cons_inv in Hr. destruct Hr as [u2 [v2 [Hg [Hr2 Hq2]]]].
      rewrite Hf in Hg. inversion Hg; subst u2.
      eapply dd_deq. { apply dd_cons; [exact Hf|exact Hr2]. }
      intro k. rewrite <- (Hq k). unfold dadd, dscale. rewrite <- (Hq2 k). qring.
    + eapply dd_deq. { apply dd_cons; [exact Hf|exact Hr]. } exact Hq.
Qed.

Lemma dd_filter th l : forall x, dd th l x -> dd th (filter nonzero l) x.
Proof.
  induction l as [|[f n] r IH]; intros x H; simpl; auto.
  apply dd_cons_inv in H. destruct H as [u [v [Hf [Hr Hq]]]].
  unfold nonzero at 1. simpl. destruct (qc_eqb n Qc0) eqn:Hn; simpl.
  - apply qc_eqb_true in Hn. subst n. eapply dd_deq. { apply IH. exact Hr. }
    intro k. rewrite <- (Hq k). qring.
  - eapply dd_deq. { apply dd_cons; [exact Hf|]. apply IH. exact Hr. } exact Hq.
Qed.

Lemma dd_canon th l x : dd th l x -> dd th (canon l) x.
Proof. intro H. unfold canon. apply dd_filter, dd_merge, dd_sort, H. Qed.

Lemma dd_multiply th a b x y : dd th a x -> dd th b y -> dd th (dmultiply a b) (dadd x y).
Proof. intros. apply dd_canon, dd_app; auto. Qed.
Lemma dd_power th d n x : dd th d x -> dd th (dpower d n) (dscale n x).
Proof. intros. apply dd_canon, dd_scale; auto. Qed.
Lemma dd_inverse th d x : dd th d x -> dd th (dinverse d) (dscale (- Qc1)%Qc x).
Proof. apply dd_power. Qed.
Lemma dd_divide th a b x y :
  dd th a x -> dd th b y -> dd th (ddivide a b) (dadd x (dscale (- Qc1)%Qc y)).
Proof. intros. apply dd_multiply; auto. apply dd_inverse; auto. Qed.

(* ------------------------------------------------------------------ meaning of types *)
Lemma single_shape d v : single d = Some v -> d = [(FVar v, Qc1)].
Proof.
  unfold single. destruct d as [|[f e] r]; try discriminate.
  destruct f; destruct r; try discriminate. destruct (qc_eqb e Qc1) eqn:He; try discriminate.
  intro H. inversion H; subst. apply qc_eqb_true in He. subst. reflexivity.
Qed.

Lemma from_var_eq v : from_var v = [(FVar v, Qc1)].
Proof. reflexivity. Qed.
Lemma single_from_var v : single (from_var v) = Some v.
Proof. reflexivity. Qed.

(* a dimension type whose factor list means x means SDim x *)
Lemma tden_TDim_of_dd th d x : dd th d x -> exists a, tden th (TDim d) = Some (SDim a) /\ deq a x.
Proof.
  intros [z [Hz Hq]]. simpl. destruct (single d) as [v|] eqn:Hs.
  - apply single_shape in Hs. subst d. simpl in Hz.
    destruct (th v) as [dv| | | |] eqn:Hv; try discriminate.
    inversion Hz; subst. exists dv. split; auto.
    intro k. rewrite <- (Hq k). qring.
  - rewrite Hz. simpl. exists z. split; auto.
Qed.

(* conversely, if a dimension type means SDim a then its factor list means a *)
Lemma dd_of_tden_TDim th d a : tden th (TDim d) = Some (SDim a) -> dd th d a.
Proof.
  simpl. destruct (single d) as [v|] eqn:Hs.
  - apply single_shape in Hs. subst d. intro H. inversion H as [Hv].
    exists (dadd (dscale Qc1 a) dzero). simpl. rewrite Hv. split; auto. intro k. qring.
  - destruct (dden th d) as [z|] eqn:Hz; simpl; try discriminate.
    intro H. inversion H; subst. apply dd_of; auto.
Qed.

Lemma lookup_In s : forall v t, lookup s v = Some t -> In (v, t) s.
Proof.
  induction s as [|[x u] r IH]; simpl; intros v t H; try discriminate.
  destruct (var_eqb x v) eqn:Hx.
  - apply var_eqb_true in Hx. inversion H; subst. left; reflexivity.
  - right. apply IH; auto.
Qed.

Lemma as_dtype_dd th t d a :
  as_dtype t = Ok d -> tden th t = Some (SDim a) -> dd th d a.
Proof.
  destruct t; simpl; try discriminate; intros H Ht; inversion H; subst.
  - rewrite from_var_eq. inversion Ht as [Hv].
    exists (dadd (dscale Qc1 a) dzero). simpl. rewrite Hv. split; auto. intro k. qring.
  - apply dd_of_tden_TDim. exact Ht.
Qed.

Lemma fval_FVar th v x : fval th (FVar v) = Some x -> th v = SDim x.
Proof. simpl. destruct (th v); try discriminate. intro H; inversion H; reflexivity. Qed.
Lemma fval_FPar th n x : fval th (FPar n) = Some x -> th (VNamed n) = SDim x.
Proof. simpl. destruct (th (VNamed n)); try discriminate. intro H; inversion H; reflexivity. Qed.

(* ------------------------------------------------------------------ substitution preserves meaning *)
(* for a valuation that is an instance of the substitution *)
Lemma dapply_go_sound th s : respects th s ->
  forall fs acc d' x w, dapply_go s fs acc = Ok d' -> dd th fs w -> dd th acc x -> dd th d' x.
Proof.
  intros Hr. induction fs as [|[f p] r IH]; intros acc d' x w H Hfs Hacc; simpl in H.
  - inversion H; subst; auto.
  - apply dd_cons_inv in Hfs. destruct Hfs as [u [v [Hf [Hrest _]]]].
    destruct f as [tv|n|b].
    + destruct (lookup s tv) as [t|] eqn:Hl.
      * destruct (as_dtype t) as [dt|] eqn:Hd; simpl in H; try discriminate.
        apply lookup_In in Hl. destruct (Hr _ _ Hl) as [a [Ha Hav]].
        apply fval_FVar in Hf. rewrite Hf in Hav. destruct a; simpl in Hav; try contradiction.
        pose proof (as_dtype_dd _ _ _ _ Hd Ha) as Hdt.
        eapply IH; [exact H|exact Hrest|].
        eapply dd_deq.
        { apply dd_multiply. { apply dd_divide. exact Hacc. apply dd_power. rewrite from_var_eq.
            apply (dd_cons th (FVar tv) Qc1 [] u dzero). simpl. rewrite Hf. reflexivity. apply dd_nil. }
          apply dd_power. exact Hdt. }
        intro k. unfold dadd, dscale. rewrite (Hav k). qring.
      * eapply IH; eauto.
    + destruct (lookup s (VNamed n)) as [t|] eqn:Hl.
      * destruct (as_dtype t) as [dt|] eqn:Hd; simpl in H; try discriminate.
        apply lookup_In in Hl. destruct (Hr _ _ Hl) as [a [Ha Hav]].
        apply fval_FPar in Hf. rewrite Hf in Hav. destruct a; simpl in Hav; try contradiction.
        pose proof (as_dtype_dd _ _ _ _ Hd Ha) as Hdt.
        eapply IH; [exact H|exact Hrest|].
        eapply dd_deq.
        { apply dd_multiply. { apply dd_divide. exact Hacc. apply dd_power.
            change (from_par n) with [(FPar n, Qc1)].
            apply (dd_cons th (FPar n) Qc1 [] u dzero). simpl. rewrite Hf. reflexivity. apply dd_nil. }
          apply dd_power. exact Hdt. }
        intro k. unfold dadd, dscale. rewrite (Hav k). qring.
      * eapply IH; eauto.
    + eapply IH; eauto.
Qed.

Lemma dapply_sound th s d d' x : respects th s -> dapply s d = Ok d' -> dd th d x -> dd th d' x.
Proof. intros Hr H Hd. unfold dapply in H. eapply dapply_go_sound; eauto. Qed.

(* ts th t a : the type t has a meaning and it is a (up to steq) *)
Definition ts (th : valuation) (t : ty) (a : sty) : Prop :=
  exists b, tden th t = Some b /\ steq b a.

Lemma ts_of th t a : tden th t = Some a -> ts th t a.
Proof. intro H. exists a. split; auto. apply steq_refl. Qed.
Lemma ts_steq th t a b : ts th t a -> steq a b -> ts th t b.
Proof. intros [z [H1 H2]] H. exists z. split; auto. eapply steq_trans; eauto. Qed.

Lemma lookup_ts th s v u : respects th s -> lookup s v = Some u -> ts th u (th v).
Proof. intros Hr Hl. apply lookup_In in Hl. destruct (Hr _ _ Hl) as [a [Ha Hav]]. exists a; auto. Qed.

Lemma tapply_sound th s : respects th s ->
  forall t t' a, tapply s t = Ok t' -> tden th t = Some a -> ts th t' a.
Proof.
  intros Hr. induction t; intros t' a H Ht; simpl in H.
  - inversion H; subst. simpl in Ht. inversion Ht; subst.
    destruct (lookup s v) eqn:Hl. { eapply lookup_ts; eauto. } apply ts_of. reflexivity.
  - inversion H; subst. simpl in Ht. inversion Ht; subst.
    destruct (lookup s (VNamed s0)) eqn:Hl. { eapply lookup_ts; eauto. } apply ts_of. reflexivity.
  - destruct (single d) as [v|] eqn:Hs.
    + inversion H; subst. simpl in Ht. rewrite Hs in Ht. inversion Ht; subst.
      destruct (lookup s v) eqn:Hl. { eapply lookup_ts; eauto. }
      apply ts_of. simpl. rewrite Hs. reflexivity.
    + destruct (dapply s d) as [d'|] eqn:Hd; simpl in H; try discriminate. inversion H; subst.
      simpl in Ht. rewrite Hs in Ht. destruct (dden th d) as [z|] eqn:Hz; simpl in Ht; try discriminate.
      inversion Ht; subst.
      assert (Hdd : dd th d' z) by (eapply dapply_sound; eauto; apply dd_of; auto).
      destruct (tden_TDim_of_dd _ _ _ Hdd) as [a' [Ha' Hq]]. exists (SDim a'). split; auto.
  - inversion H; subst. apply ts_of; auto.
  - inversion H; subst. apply ts_of; auto.
  - inversion H; subst. apply ts_of; auto.
  - destruct (tapply s t) as [e'|] eqn:He; simpl in H; try discriminate. inversion H; subst.
    simpl in Ht. destruct (tden th t) as [b|] eqn:Hb; simpl in Ht; try discriminate.
    inversion Ht; subst. destruct (IHt _ _ eq_refl eq_refl) as [c [Hc Hcb]].
    exists (SList c). simpl. rewrite Hc. split; auto.
Qed.

Lemma ts_unique th t a b : ts th t a -> ts th t b -> steq a b.
Proof.
  intros [x [Hx Hxa]] [y [Hy Hyb]]. rewrite Hx in Hy. inversion Hy; subst.
  eapply steq_trans; [apply steq_sym; exact Hxa|exact Hyb].
Qed.

Lemma dd_unique th d x y : dd th d x -> dd th d y -> deq x y.
Proof.
  intros [a [Ha Hax]] [b [Hb Hby]]. rewrite Ha in Hb. inversion Hb; subst.
  eapply deq_trans; [apply deq_sym; exact Hax|exact Hby].
Qed.

(* applying a substitution to a constraint: well-sortedness goes forward, satisfaction comes back *)
Lemma capply_defined th s c c' :
  respects th s -> capply s c = Ok c' -> defined th c -> defined th c'.
Proof.
  intros Hr H Hd. destruct c as [a b|t|d]; simpl in H.
  - destruct (tapply s a) as [a'|] eqn:Ha; simpl in H; try discriminate.
    destruct (tapply s b) as [b'|] eqn:Hb; simpl in H; try discriminate. inversion H; subst.
    destruct Hd as [[x Hx] [y Hy]]. simpl.
    destruct (tapply_sound th s Hr _ _ _ Ha Hx) as [x' [Hx' _]].
    destruct (tapply_sound th s Hr _ _ _ Hb Hy) as [y' [Hy' _]]. split; eauto.
  - destruct (tapply s t) as [t'|] eqn:Ha; simpl in H; try discriminate. inversion H; subst.
    destruct Hd as [x Hx]. destruct (tapply_sound th s Hr _ _ _ Ha Hx) as [x' [Hx' _]]. simpl; eauto.
  - destruct (dapply s d) as [d'|] eqn:Ha; simpl in H; try discriminate. inversion H; subst.
    destruct Hd as [x Hx]. destruct (dapply_sound th s _ _ x Hr Ha (dd_of _ _ _ Hx)) as [z [Hz _]].
    simpl; eauto.
Qed.

Lemma capply_sat_back th s c c' :
  respects th s -> capply s c = Ok c' -> defined th c -> sat th c' -> sat th c.
Proof.
  intros Hr H Hd Hs. destruct c as [a b|t|d]; simpl in H.
  - destruct (tapply s a) as [a'|] eqn:Ha; simpl in H; try discriminate.
    destruct (tapply s b) as [b'|] eqn:Hb; simpl in H; try discriminate. inversion H; subst.
    destruct Hd as [[x Hx] [y Hy]]. destruct Hs as [x' [y' [Hx' [Hy' Hxy]]]].
    pose proof (tapply_sound th s Hr _ _ _ Ha Hx) as Tx.
    pose proof (tapply_sound th s Hr _ _ _ Hb Hy) as Ty.
    exists x, y. split; auto. split; auto.
    pose proof (ts_unique _ _ _ _ (ts_of _ _ _ Hx') Tx) as E1.
    pose proof (ts_unique _ _ _ _ (ts_of _ _ _ Hy') Ty) as E2.
    eapply steq_trans; [apply steq_sym; exact E1|]. eapply steq_trans; [exact Hxy|exact E2].
  - destruct (tapply s t) as [t'|] eqn:Ha; simpl in H; try discriminate. inversion H; subst.
    destruct Hd as [x Hx]. destruct Hs as [dm Hdm].
    pose proof (tapply_sound th s Hr _ _ _ Ha Hx) as Tx.
    pose proof (ts_unique _ _ _ _ (ts_of _ _ _ Hdm) Tx) as E1.
    destruct x; simpl in E1; try contradiction. simpl. eauto.
  - destruct (dapply s d) as [d'|] eqn:Ha; simpl in H; try discriminate. inversion H; subst.
    destruct Hd as [x Hx]. destruct Hs as [z [Hz Hz0]].
    pose proof (dapply_sound th s _ _ x Hr Ha (dd_of _ _ _ Hx)) as Dx.
    exists x. split; auto.
    pose proof (dd_unique _ _ _ _ Dx (dd_of _ _ _ Hz)) as E. eapply deq_trans; eauto.
Qed.

(* ------------------------------------------------------------------ variables of factor lists *)
Lemma vinsert_In x : forall l v, In v (vinsert x l) -> v = x \/ In v l.
Proof.
  induction l as [|y r IH]; simpl; intros v H.
  - destruct H as [H|[]]; auto.
  - destruct (var_cmp x y); simpl in H.
    + auto.
    + destruct H as [H|H]; auto.
    + destruct H as [H|H]; auto. destruct (IH _ H); auto.
Qed.

Lemma vsort_acc_In l : forall acc v, In v (fold_left (fun acc x => vinsert x acc) l acc) -> In v l \/ In v acc.
Proof.
  induction l as [|x r IH]; simpl; intros acc v H; auto.
  destruct (IH _ _ H) as [H1|H1]; auto. destruct (vinsert_In _ _ _ H1); subst; auto.
Qed.

Lemma vsort_In l v : In v (vsort l) -> In v l.
Proof. intro H. destruct (vsort_acc_In _ _ _ H) as [?|[]]; auto. Qed.

Lemma dvars_raw_In incl d v : In v (dvars_raw incl d) ->
  (exists e, In (FVar v, e) d) \/ (exists n e, v = VNamed n /\ In (FPar n, e) d).
Proof.
  induction d as [|[f e] r IH]; simpl; intro H; try contradiction.
  apply in_app_or in H. destruct H as [H|H].
  - destruct f; simpl in H.
    + destruct H as [H|[]]; subst. left; eauto.
    + destruct incl; simpl in H; try contradiction. destruct H as [H|[]]; subst. right; eauto.
    + contradiction.
  - destruct (IH H) as [[e' H']|[n [e' [E H']]]]; [left|right]; eauto.
Qed.

Lemma dd_In_sdim th d x f e : dd th d x -> In (f, e) d -> exists y, fval th f = Some y.
Proof.
  revert x. induction d as [|[g m] r IH]; intros x H Hin; simpl in Hin; try contradiction.
  apply dd_cons_inv in H. destruct H as [u [v [Hf [Hr _]]]].
  destruct Hin as [Hin|Hin].
  - inversion Hin; subst. eauto.
  - eapply IH; eauto.
Qed.

Lemma contains_dim_sdim th d v x :
  ty_contains (TDim d) v false = true -> dd th d x -> exists dv, th v = SDim dv.
Proof.
  unfold ty_contains. simpl. intros H Hd.
  apply existsb_exists in H. destruct H as [w [Hw E]]. apply var_eqb_true in E. subst w.
  unfold dvars in Hw. apply vsort_In in Hw. apply dvars_raw_In in Hw.
  destruct Hw as [[e He]|[n [e [E He]]]].
  - destruct (dd_In_sdim _ _ _ _ _ Hd He) as [y Hy]. apply fval_FVar in Hy. eauto.
  - destruct (dd_In_sdim _ _ _ _ _ Hd He) as [y Hy]. apply fval_FPar in Hy. subst v. eauto.
Qed.

(* ------------------------------------------------------------------ try_satisfy *)
Lemma sat_eq_var_l th t1 t2 x :
  tden th t1 = Some (th x) -> respects th [(x, t2)] -> sat th (CEq t1 t2).
Proof.
  intros H1 Hr. destruct (Hr x t2 (or_introl eq_refl)) as [a [Ha Hax]].
  exists (th x), a. split; auto. split; auto. apply steq_sym; auto.
Qed.
Lemma sat_eq_var_r th t1 t2 x :
  tden th t2 = Some (th x) -> respects th [(x, t1)] -> sat th (CEq t1 t2).
Proof.
  intros H1 Hr. destruct (Hr x t1 (or_introl eq_refl)) as [a [Ha Hax]].
  exists a, (th x). split; auto.
Qed.

(* the meaning of a dimension type is a dimension as soon as its factor list has one *)
Lemma tden_dim_cases th d a :
  tden th (TDim d) = Some a ->
  (exists v, single d = Some v /\ a = th v) \/ (single d = None /\ exists z, dden th d = Some z /\ a = SDim z).
Proof.
  simpl. destruct (single d) as [v|] eqn:Hs.
  - intro H. inversion H. left. eauto.
  - destruct (dden th d) as [z|]; simpl; try discriminate. intro H. inversion H. right. eauto.
Qed.

Lemma sat_dim_dim th d1 d2 :
  ty_eqb (TDim d1) (TDim d2) = false ->
  (forall v, single d1 = Some v -> ty_contains (TDim d2) v false = true) ->
  (forall v, single d2 = Some v -> ty_contains (TDim d1) v false = true) ->
  defined th (CEq (TDim d1) (TDim d2)) ->
  sat th (CScalar (ddivide d1 d2)) ->
  sat th (CEq (TDim d1) (TDim d2)).
Proof.
  intros Hne H1 H2 [[a Ha] [b Hb]] [z [Hz Hz0]].
  (* both sides mean dimensions *)
  assert (A : exists xa, a = SDim xa).
  { destruct (tden_dim_cases _ _ _ Ha) as [[v [Hs E]]|[Hs [w [Hw E]]]]; eauto.
    destruct (tden_dim_cases _ _ _ Hb) as [[v2 [Hs2 E2]]|[Hs2 [w [Hw E2]]]].
    - exfalso. apply single_shape in Hs. apply single_shape in Hs2. subst d1 d2.
      pose proof (H1 v eq_refl) as C. unfold ty_contains in C. simpl in C.
      rewrite orb_false_r in C. apply var_eqb_true in C. subst v2.
      simpl in Hne. rewrite var_eqb_refl in Hne. simpl in Hne. discriminate.
    - destruct (contains_dim_sdim th d2 v w (H1 v Hs) (dd_of _ _ _ Hw)) as [dv Hdv].
      subst a. rewrite Hdv. eauto. }
  assert (B : exists xb, b = SDim xb).
  { destruct (tden_dim_cases _ _ _ Hb) as [[v [Hs E]]|[Hs [w [Hw E]]]]; eauto.
    destruct (tden_dim_cases _ _ _ Ha) as [[v2 [Hs2 E2]]|[Hs2 [w [Hw E2]]]].
    - exfalso. apply single_shape in Hs. apply single_shape in Hs2. subst d1 d2.
      pose proof (H2 v eq_refl) as C. unfold ty_contains in C. simpl in C.
      rewrite orb_false_r in C. apply var_eqb_true in C. subst v2.
      simpl in Hne. rewrite var_eqb_refl in Hne. simpl in Hne. discriminate.
    - destruct (contains_dim_sdim th d1 v w (H2 v Hs) (dd_of _ _ _ Hw)) as [dv Hdv].
      subst b. rewrite Hdv. eauto. }
  destruct A as [xa ->]. destruct B as [xb ->].
  exists (SDim xa), (SDim xb). split; auto. split; auto. simpl.
  pose proof (dd_divide th d1 d2 xa xb (dd_of_tden_TDim _ _ _ Ha) (dd_of_tden_TDim _ _ _ Hb)) as D.
  pose proof (dd_unique _ _ _ _ D (dd_of _ _ _ Hz)) as E.
  intro k. pose proof (E k) as Ek. pose proof (Hz0 k) as Zk. rewrite Zk in Ek.
  unfold dadd, dscale, dzero, Qc0, Qc1 in Ek.
  assert (xa k = (xa k + - (1) * xb k) + xb k)%Qc as R by ring. rewrite R, Ek. ring.
Qed.

Lemma defined_ddivide th d1 d2 :
  defined th (CEq (TDim d1) (TDim d2)) ->
  (forall v, single d1 = Some v -> ty_contains (TDim d2) v false = true) ->
  (forall v, single d2 = Some v -> ty_contains (TDim d1) v false = true) ->
  ty_eqb (TDim d1) (TDim d2) = false ->
  defined th (CScalar (ddivide d1 d2)).
Proof.
  intros [[a Ha] [b Hb]] H1 H2 Hne.
  assert (A : exists xa, dd th d1 xa).
  { destruct (tden_dim_cases _ _ _ Ha) as [[v [Hs E]]|[Hs [w [Hw E]]]].
    - destruct (tden_dim_cases _ _ _ Hb) as [[v2 [Hs2 E2]]|[Hs2 [w [Hw E2]]]].
      + exfalso. apply single_shape in Hs. apply single_shape in Hs2. subst d1 d2.
        pose proof (H1 v eq_refl) as C. unfold ty_contains in C. simpl in C.
        rewrite orb_false_r in C. apply var_eqb_true in C. subst v2.
        simpl in Hne. rewrite var_eqb_refl in Hne. simpl in Hne. discriminate.
      + destruct (contains_dim_sdim th d2 v w (H1 v Hs) (dd_of _ _ _ Hw)) as [dv Hdv].
        exists dv. apply dd_of_tden_TDim. rewrite Ha, E, Hdv. reflexivity.
    - exists w. apply dd_of; auto. }
  assert (B : exists xb, dd th d2 xb).
  { destruct (tden_dim_cases _ _ _ Hb) as [[v [Hs E]]|[Hs [w [Hw E]]]].
    - destruct (tden_dim_cases _ _ _ Ha) as [[v2 [Hs2 E2]]|[Hs2 [w [Hw E2]]]].
      + exfalso. apply single_shape in Hs. apply single_shape in Hs2. subst d1 d2.
        pose proof (H2 v eq_refl) as C. unfold ty_contains in C. simpl in C.
        rewrite orb_false_r in C. apply var_eqb_true in C. subst v2.
        simpl in Hne. rewrite var_eqb_refl in Hne. simpl in Hne. discriminate.
      + destruct (contains_dim_sdim th d1 v w (H2 v Hs) (dd_of _ _ _ Hw)) as [dv Hdv].
        exists dv. apply dd_of_tden_TDim. rewrite Hb, E, Hdv. reflexivity.
    - exists w. apply dd_of; auto. }
  destruct A as [xa A]. destruct B as [xb B].
  destruct (dd_divide th d1 d2 xa xb A B) as [z [Hz _]]. simpl. eauto.
Qed.
Ltac pick :=
  first [ solve [eauto 10]
        | left; solve [eauto 10]
        | right; pick ].

Lemma try_satisfy_eq_cases t1 t2 s news : try_satisfy (CEq t1 t2) = Sat s news ->
  (t1 = t2 /\ s = [] /\ news = [])
  \/ (exists x, t1 = TVar x /\ s = [(x,t2)] /\ news = [])
  \/ (exists x, t2 = TVar x /\ s = [(x,t1)] /\ news = [])
  \/ (exists d v, t1 = TDim d /\ single d = Some v /\ s = [(v,t2)] /\ news = [])
  \/ (exists d v, t2 = TDim d /\ single d = Some v /\ s = [(v,t1)] /\ news = [])
  \/ (exists a b, t1 = TList a /\ t2 = TList b /\ s = [] /\ news = [CEq a b])
  \/ (exists tv d, t1 = TVar tv /\ t2 = TDim d /\ s = [] /\ news = [CEq (TDim (from_var tv)) (TDim d)])
  \/ (exists tv d, t1 = TDim d /\ t2 = TVar tv /\ s = [] /\ news = [CEq (TDim (from_var tv)) (TDim d)])
  \/ (exists d1 d2, t1 = TDim d1 /\ t2 = TDim d2 /\ s = [] /\ news = [CScalar (ddivide d1 d2)]
        /\ ty_eqb t1 t2 = false
        /\ (forall v, single d1 = Some v -> ty_contains t2 v false = true)
        /\ (forall v, single d2 = Some v -> ty_contains t1 v false = true)).
Proof.
  unfold try_satisfy. destruct (ty_eqb t1 t2) eqn:E.
  { intro H; inversion H; subst. apply ty_eqb_true in E. left. auto. }
  destruct t1 as [x|p|d1| | | |a]; destruct t2 as [y|q|d2| | | |b]; cbn [negb];
  repeat match goal with
  | |- context [single ?d] => destruct (single d) eqn:?
  | |- context [ty_contains ?t ?v false] => destruct (ty_contains t v false) eqn:?
  end; cbn [negb]; intro H; inversion H; subst; try pick.
  all: right; right; right; right; right; right; right; right.
  all: exists d1, d2; repeat split; auto; intros; congruence.
Qed.

Lemma dvars_single_true v : dvars true [(FVar v, Qc1)] = [v].
Proof. reflexivity. Qed.

Lemma scalar_arm_map th rest k r :
  k <> Qc0 -> dd th rest r ->
  dd th (map (fun x => (fst x, (- snd x / k)%Qc)) rest) (dscale (- / k)%Qc r).
Proof.
  intros Hk H. apply (dd_map_exp th (fun e => (- e / k)%Qc) (- / k)%Qc); auto.
  intro e. unfold Qcdiv. ring.
Qed.

(* the bindings try_satisfy proposes have a meaning, and its new constraints are well-sorted *)
Lemma try_satisfy_defined th c s news :
  try_satisfy c = Sat s news -> defined th c ->
  (forall n, In n news -> defined th n) /\ (forall x t, In (x, t) s -> exists a, tden th t = Some a).
Proof.
  intros H Hd. destruct c as [t1 t2|t|d].
  - pose proof Hd as [[a Ha] [b Hb]].
    apply try_satisfy_eq_cases in H.
    repeat match goal with
    | H : _ \/ _ |- _ => destruct H
    | H : exists _, _ |- _ => destruct H
    | H : _ /\ _ |- _ => destruct H
    end; subst; (split; [intros n Hn|intros x' t' Hin]); simpl in *; try contradiction.
    all: try (destruct Hin as [E|[]]; inversion E; subst; solve [eauto]).
    + destruct Hn as [E|[]]; subst.
      match goal with |- defined _ (CEq ?p ?q) =>
        destruct (tden th p) eqn:Hp; simpl in Ha; try discriminate;
        destruct (tden th q) eqn:Hq; simpl in Hb; try discriminate end. simpl. eauto.
    + destruct Hn as [E|[]]; subst. simpl. split; eauto.
    + destruct Hn as [E|[]]; subst. simpl. split; eauto.
    + destruct Hn as [E|[]]; subst. eapply defined_ddivide; eauto.
  - destruct t; simpl in H; try discriminate. inversion H; subst. split.
    + intros n Hn. apply in_map_iff in Hn. destruct Hn as [tv [E _]]. subst. simpl. eauto.
    + intros ? ? [].
  - simpl in H. destruct (dtype_eqb d dscalar) eqn:E.
    { inversion H; subst. split; [intros ? []|intros ? ? []]. }
    destruct d as [|[f k] rest]; try discriminate. destruct f; try discriminate.
    destruct (qc_eqb k Qc0) eqn:Hk; try discriminate. inversion H; subst. split; [intros ? []|].
    intros x t [E1|[]]. inversion E1; subst.
    destruct Hd as [z Hz]. apply dd_of in Hz. apply dd_cons_inv in Hz.
    destruct Hz as [u [w [Hf [Hr _]]]].
    pose proof (scalar_arm_map th rest k w (qc_eqb_false _ _ Hk) Hr) as D.
    apply dd_canon in D. destruct (tden_TDim_of_dd _ _ _ D) as [a [Ha _]]. eauto.
Qed.

(* try_satisfy is sound: for an instance of its substitution that is well-sorted for the
   constraint, the constraint holds as soon as the new constraints hold *)
Lemma try_satisfy_sound th c s news :
  try_satisfy c = Sat s news -> respects th s -> defined th c ->
  (forall n, In n news -> sat th n) -> sat th c.
Proof.
  intros H Hr Hd Hn. destruct c as [t1 t2|t|d].
  - pose proof Hd as [[a Ha] [b Hb]].
    apply try_satisfy_eq_cases in H.
    repeat match goal with
    | H : _ \/ _ |- _ => destruct H
    | H : exists _, _ |- _ => destruct H
    | H : _ /\ _ |- _ => destruct H
    end; subst.
    + exists a, a. split; auto. split; auto. apply steq_refl.
    + match goal with Hr : respects th [(?x, _)] |- _ =>
        apply (sat_eq_var_l th _ _ x); [reflexivity|exact Hr] end.
    + match goal with Hr : respects th [(?x, _)] |- _ =>
        apply (sat_eq_var_r th _ _ x); [reflexivity|exact Hr] end.
    + match goal with Hr : respects th [(?x, _)], Hs : single _ = Some _ |- _ =>
        apply (sat_eq_var_l th _ _ x); [simpl; rewrite Hs; reflexivity|exact Hr] end.
    + match goal with Hr : respects th [(?x, _)], Hs : single _ = Some _ |- _ =>
        apply (sat_eq_var_r th _ _ x); [simpl; rewrite Hs; reflexivity|exact Hr] end.
    + destruct (Hn _ (or_introl eq_refl)) as [x' [y' [Hx [Hy Hxy]]]].
      exists (SList x'), (SList y'). simpl. rewrite Hx, Hy. auto.
    + destruct (Hn _ (or_introl eq_refl)) as [x' [y' [Hx [Hy Hxy]]]].
      exists x', y'. split; auto.
    + destruct (Hn _ (or_introl eq_refl)) as [x' [y' [Hx [Hy Hxy]]]].
      exists y', x'. split; auto. split; auto. apply steq_sym; auto.
    + eapply sat_dim_dim; eauto. apply Hn. left; reflexivity.
  - destruct t; simpl in H; try discriminate. inversion H; subst.
    destruct Hd as [a Ha]. destruct (tden_dim_cases _ _ _ Ha) as [[v [Hs E]]|[Hs [w [Hw E]]]].
    + pose proof (single_shape _ _ Hs) as Hd'. subst d.
      assert (Hin : In (CIsD (TVar v)) (map (fun tv => CIsD (TVar tv)) (dvars true [(FVar v, Qc1)]))).
      { rewrite dvars_single_true. left; reflexivity. }
      destruct (Hn _ Hin) as [dv Hdv]. simpl in Hdv. exists dv. rewrite Ha. subst a. exact Hdv.
    + exists w. rewrite Ha. subst a. reflexivity.
  - simpl in H. destruct (dtype_eqb d dscalar) eqn:E.
    { apply dtype_eqb_true in E. subst d. exists dzero. split; [reflexivity|apply deq_refl]. }
    destruct d as [|[f k] rest]; try discriminate. destruct f as [tv| |]; try discriminate.
    destruct (qc_eqb k Qc0) eqn:Hk; try discriminate. inversion H; subst.
    apply qc_eqb_false in Hk.
    destruct Hd as [z Hz]. exists z. split; auto.
    pose proof (dd_of _ _ _ Hz) as Dz. apply dd_cons_inv in Dz.
    destruct Dz as [u [w [Hf [Hrest Hq]]]].
    pose proof (scalar_arm_map th rest k w Hk Hrest) as D. apply dd_canon in D.
    destruct (tden_TDim_of_dd _ _ _ D) as [a [Ha Haq]].
    destruct (Hr tv _ (or_introl eq_refl)) as [a' [Ha' Hav]].
    rewrite Ha in Ha'. inversion Ha'; subst a'.
    apply fval_FVar in Hf. rewrite Hf in Hav. simpl in Hav.
    intro j. rewrite <- (Hq j). unfold dadd, dscale, dzero.
    rewrite <- (Hav j), (Haq j). unfold dscale, Qc0. field. exact Hk.
Qed.

(* ------------------------------------------------------------------ the solve loop *)
Lemma first_satisfiable_spec cs : forall pre s news others,
  first_satisfiable pre cs = FSome s news others ->
  exists c a b, cs = a ++ c :: b /\ others = rev pre ++ a ++ b /\ try_satisfy c = Sat s news.
Proof.
  induction cs as [|c r IH]; simpl; intros pre s news others H; try discriminate.
  destruct (try_satisfy c) as [|s' n'|] eqn:Hc; try discriminate.
  - apply IH in H. destruct H as [c' [a [b [E1 [E2 E3]]]]].
    exists c', (c :: a), b. subst. simpl. rewrite <- app_assoc. simpl. auto.
  - inversion H; subst. exists c, [], r. rewrite rev_append_rev. auto.
Qed.

Lemma mapM_Forall2 {A B} (f : A -> res B) : forall l l', mapM f l = Ok l' ->
  Forall2 (fun x y => f x = Ok y) l l'.
Proof.
  induction l as [|x r IH]; simpl; intros l' H.
  - inversion H; constructor.
  - destruct (f x) eqn:Hx; simpl in H; try discriminate.
    destruct (mapM f r) eqn:Hr; simpl in H; try discriminate. inversion H; subst.
    constructor; auto.
Qed.

Lemma extend_In s s' s'' x t :
  extend s s' = Ok s'' -> In (x, t) s -> exists t', tapply s' t = Ok t' /\ In (x, t') s''.
Proof.
  unfold extend. destruct (mapM _ s) as [m|] eqn:Hm; simpl; try discriminate.
  intros H Hin. inversion H; subst. clear H. apply mapM_Forall2 in Hm.
  induction Hm as [|[x0 t0] y l l' Hy Hm IH]; simpl in Hin; try contradiction.
  destruct Hin as [E|Hin].
  - inversion E; subst. simpl in Hy. destruct (tapply s' t) as [t'|] eqn:Ht; simpl in Hy; try discriminate.
    inversion Hy; subst. exists t'. split; auto. left; reflexivity.
  - destruct (IH Hin) as [t' [H1 H2]]. exists t'. split; auto. right; auto.
Qed.

Lemma extend_suffix s s' s'' : extend s s' = Ok s'' -> forall p, In p s' -> In p s''.
Proof.
  unfold extend. destruct (mapM _ s) as [m|]; simpl; try discriminate.
  intros H p Hp. inversion H; subst. apply in_or_app; auto.
Qed.

Theorem solve_loop_sound : forall fuel cs sigma rest,
  solve_loop fuel cs = Ok (sigma, rest) ->
  forall th, respects th sigma ->
    (forall c, In c cs -> defined th c) ->
    (forall c, In c rest -> sat th c) ->
    forall c, In c cs -> sat th c.
Proof.
  induction fuel as [|f IH]; simpl; intros cs sigma rest H; try discriminate.
  destruct (first_satisfiable [] cs) as [|s news others|] eqn:Hf; try discriminate.
  - inversion H; subst. auto.
  - destruct (mapM (capply s) (others ++ news)) as [cs'|] eqn:Hm; try discriminate.
    destruct (solve_loop f cs') as [[s' rest']|] eqn:Hl; try discriminate.
    destruct (extend s s') as [s''|] eqn:He; try discriminate. inversion H; subst.
    intros th Hr Hd Hrest.
    apply first_satisfiable_spec in Hf. destruct Hf as [c0 [a [b [E1 [E2 Hc0]]]]]. simpl in E2. subst.
    assert (Hr' : respects th s') by (intros x t Hin; apply Hr; eapply extend_suffix; eauto).
    assert (Hd0 : defined th c0) by (apply Hd; apply in_or_app; right; left; reflexivity).
    destruct (try_satisfy_defined th _ _ _ Hc0 Hd0) as [Hdn Hds].
    (* the one-step substitution holds in th *)
    assert (Hrs : respects th s).
    { intros x t Hin. destruct (Hds _ _ Hin) as [ta Hta].
      destruct (extend_In _ _ _ _ _ He Hin) as [t' [Ht' Hin']].
      destruct (Hr _ _ Hin') as [a' [Ha' Hax]].
      pose proof (tapply_sound th s' Hr' _ _ _ Ht' Hta) as T.
      exists ta. split; auto. eapply steq_trans; [|exact Hax].
      apply steq_sym. eapply ts_unique; [apply ts_of; exact Ha'|exact T]. }
    assert (Hdon : forall c, In c ((a ++ b) ++ news) -> defined th c).
    { intros c Hin. apply in_app_or in Hin. destruct Hin as [Hin|Hin]; auto.
      apply Hd. apply in_app_or in Hin. apply in_or_app. destruct Hin; auto. right; right; auto. }
    apply mapM_Forall2 in Hm.
    assert (Hd' : forall c, In c cs' -> defined th c).
    { clear - Hm Hdon Hrs. induction Hm as [|x y l l' Hxy Hm IHm]; simpl; intros c Hin; try contradiction.
      destruct Hin as [E|Hin].
      - subst. eapply capply_defined; eauto. apply Hdon. left; reflexivity.
      - apply IHm; auto. intros c' Hc'. apply Hdon. right; auto. }
    pose proof (IH _ _ _ Hl th Hr' Hd' Hrest) as Hsat'.
    assert (Hsaton : forall c, In c ((a ++ b) ++ news) -> sat th c).
    { clear - Hm Hdon Hrs Hsat'. induction Hm as [|x y l l' Hxy Hm IHm]; simpl; intros c Hin; try contradiction.
      destruct Hin as [E|Hin].
      - subst. eapply capply_sat_back; eauto. apply Hdon. left; reflexivity. apply Hsat'. left; reflexivity.
      - apply IHm; auto. intros c' Hc'. apply Hdon. right; auto. intros c' Hc'. apply Hsat'. right; auto. }
    intros c Hin. apply in_app_or in Hin. destruct Hin as [Hin|[E|Hin]].
    + apply Hsaton. apply in_or_app. left. apply in_or_app; auto.
    + subst. eapply try_satisfy_sound; eauto. intros n Hn. apply Hsaton. apply in_or_app; auto.
    + apply Hsaton. apply in_or_app. left. apply in_or_app; auto.
Qed.

Lemma str_cmp_eq a b : str_cmp a b = Eq -> a = b.
Proof. apply String.compare_eq_iff. Qed.
Lemma var_cmp_eq a b : var_cmp a b = Eq -> a = b.
Proof.
  destruct a, b; simpl; try discriminate; intro H.
  - apply str_cmp_eq in H. congruence.
  - apply Nat.compare_eq in H. congruence.
Qed.

Lemma vinsert_In_intro x : forall l v, v = x \/ In v l -> In v (vinsert x l).
Proof.
  induction l as [|y r IH]; simpl; intros v H.
  - destruct H as [H|[]]; auto.
  - destruct (var_cmp x y) eqn:C; simpl.
    + apply var_cmp_eq in C. subst y. destruct H as [H|[H|H]]; auto.
    + destruct H as [H|[H|H]]; auto.
    + destruct H as [H|[H|H]]; auto.
Qed.

Lemma vsort_acc_In_intro l : forall acc v, In v l \/ In v acc ->
  In v (fold_left (fun acc x => vinsert x acc) l acc).
Proof.
  induction l as [|x r IH]; simpl; intros acc v H.
  - destruct H as [[]|H]; auto.
  - apply IH. destruct H as [[H|H]|H]; auto; right; apply vinsert_In_intro; auto.
Qed.

Lemma vsort_In_intro l v : In v l -> In v (vsort l).
Proof. intro H. apply vsort_acc_In_intro. auto. Qed.

Lemma collect_dtypes_spec cs : forall vs, collect_dtypes cs = Some vs ->
  forall c, In c cs -> exists v, In v vs /\ (c = CIsD (TVar v) \/ exists n, v = VNamed n /\ c = CIsD (TPar n)).
Proof.
  induction cs as [|c r IH]; simpl; intros vs H c0 Hin; try contradiction.
  destruct (dtype_constraint_var c) as [v|] eqn:Hc; try discriminate.
  destruct (collect_dtypes r) as [vs'|] eqn:Hr; try discriminate. inversion H; subst.
  destruct Hin as [E|Hin].
  - subst c0. exists v. split; [left; reflexivity|].
    destruct c as [| t |]; simpl in Hc; try discriminate. destruct t; try discriminate; inversion Hc; subst; eauto.
  - destruct (IH _ eq_refl _ Hin) as [w [Hw Hc0]]. exists w. split; auto. right; auto.
Qed.

(* ConstraintSet::solve is sound: every valuation that is an instance of the returned
   substitution, gives the returned Dim-bounded variables dimensions and is well-sorted for the
   constraints, satisfies all of them *)
Theorem solve_sound cs sigma dts :
  solve cs = Ok (sigma, dts) ->
  forall th, respects th sigma ->
    (forall v, In v dts -> is_sdim (th v)) ->
    (forall c, In c cs -> defined th c) ->
    forall c, In c cs -> sat th c.
Proof.
  unfold solve. destruct (solve_loop (solve_fuel cs) cs) as [[s rest]|] eqn:Hl; simpl; try discriminate.
  destruct (collect_dtypes rest) as [vs|] eqn:Hc; try discriminate.
  intros H th Hr Hb Hd. inversion H; subst.
  eapply solve_loop_sound; eauto.
  intros c Hin. destruct (collect_dtypes_spec _ _ Hc _ Hin) as [v [Hv Hcv]].
  pose proof (Hb v (vsort_In_intro _ _ Hv)) as S.
  destruct (th v) as [dv| | | |] eqn:Hthv; simpl in S; try contradiction.
  destruct Hcv as [E|[n [E1 E2]]]; subst; simpl; rewrite Hthv; eauto.
Qed.

(* ------------------------------------------------------------------ whole-input checking *)
Lemma check_app_err pre : forall st post s o s1 e,
  check pre s = Ok (o, s1) -> check_statement st s1 = Err e ->
  check (pre ++ st :: post) s = Err e.
Proof.
  induction pre as [|p r IH]; simpl; intros st post s o s1 e H He.
  - inversion H; subst. rewrite He. reflexivity.
  - destruct (check_statement p s) as [[o1 s2]|] eqn:Hp; simpl in H; try discriminate.
    destruct (check r s2) as [[o2 s3]|] eqn:Hr; simpl in H; try discriminate. inversion H; subst.
    simpl. rewrite (IH _ post _ _ _ _ Hr He). reflexivity.
Qed.

Theorem whole_input_rejected {R} (run : list sout -> R) pre st post s o s1 e :
  check pre s = Ok (o, s1) -> check_statement st s1 = Err e ->
  interpret run (pre ++ st :: post) s = (Rejected e, s, None).
Proof. intros H He. unfold interpret. rewrite (check_app_err _ _ _ _ _ _ _ H He). reflexivity. Qed.

Theorem whole_input_accepted {R} (run : list sout -> R) sts s outs s' r :
  interpret run sts s = (Accepted outs, s', r) ->
  check sts s = Ok (outs, s') /\ r = Some (run outs).
Proof.
  unfold interpret. destruct (check sts s) as [[o s2]|]; intro H; inversion H; subst; auto.
Qed.
