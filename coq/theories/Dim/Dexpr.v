(* Dim/Dexpr.v — C16: model of how a closed dimension type is printed as a dimension expression
   (registry.rs BaseRepresentation::pretty_print -> product.rs Product::pretty_print_with:
   factors with positive exponents, then `/` and the inverted factors with non-positive
   exponents, parenthesised if there are several; exponent 1 is not printed), at the level of the
   dimension-expression syntax tree that the parser (parser.rs dimension_expression) returns for
   that text.  The way back is Infer.base_repr (dimension.rs get_base_representation).
   Definitions only. *)
From Coq Require Import String List ZArith QArith Qcanon Bool.
From NV Require Import Dim.Model Dim.Infer.
Import ListNotations.

Definition blist := list (string * Qc).       (* BaseRepresentation: (base dimension, exponent) *)
Definition to_dtype (l : blist) : dtype := map (fun x => (FBase (fst x), snd x)) l.
Definition qc_pos (q : Qc) : bool := (0 <? Qnum (this q))%Z.

Definition fac (x : string * Qc) : dexpr :=
  if qc_eqb (snd x) Qc1 then DName (fst x) else DPow (DName (fst x)) (snd x).

(* `A × B × C` parses left-associated *)
Definition prod_dexpr (l : blist) : dexpr :=
  match l with
  | [] => DUnity
  | x :: r => fold_left (fun acc y => DMul acc (fac y)) r (fac x)
  end.

Definition invert (x : string * Qc) : string * Qc := (fst x, (- snd x)%Qc).

Definition print_dexpr (l : blist) : dexpr :=
  let pos := filter (fun x => qc_pos (snd x)) l in
  let neg := filter (fun x => negb (qc_pos (snd x))) l in
  match pos, neg with
  | [], [] => DUnity                (* printed `Scalar`: the registered name of the empty product *)
  | [], n => prod_dexpr n
  | p, [] => prod_dexpr p
  | p, n => DDiv (prod_dexpr p) (prod_dexpr (map invert n))
  end.
