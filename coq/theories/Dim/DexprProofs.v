(* Dim/DexprProofs.v — C16: printing a closed dimension type as a dimension expression and reading
   it back through the registry yields the same exponent vector. *)
From Coq Require Import String List ZArith QArith Qcanon Bool Lia.
From NV Require Import Dim.Model Dim.Infer Dim.Sem Dim.Proofs Dim.Dexpr.
Import ListNotations.
Open Scope list_scope.

Section RoundTrip.
Variable r : registry.
Hypothesis no_tparams : reg_tparams r = [].

Definition registered (x : string * Qc) : Prop := existsb (String.eqb (fst x)) (reg_base r) = true.

Definition fmean (x : string * Qc) : Dim := dscale (snd x) (dbase (fst x)).

Lemma base_dimension_eq n : base_dimension n = [(FBase n, Qc1)].
Proof. reflexivity. Qed.

Lemma base_repr_name x : registered x -> base_repr r (DName (fst x)) = Ok [(FBase (fst x), Qc1)].
Proof.
  intro H. simpl. rewrite no_tparams. simpl. unfold reg_lookup. unfold registered in H. rewrite H.
  rewrite base_dimension_eq. reflexivity.
Qed.

Lemma dd_base th n : dd th [(FBase n, Qc1)] (dbase n).
Proof.
  eapply dd_deq. { apply (dd_cons th (FBase n) Qc1 [] (dbase n) dzero). reflexivity. apply dd_nil. }
  intro k. qring.
Qed.

Lemma base_repr_fac x : registered x ->
  exists d, base_repr r (fac x) = Ok d /\ forall th, dd th d (fmean x).
Proof.
  intro H. unfold fac. destruct (qc_eqb (snd x) Qc1) eqn:E.
  - exists [(FBase (fst x), Qc1)]. split; [apply base_repr_name; auto|].
    intro th. apply qc_eqb_true in E. unfold fmean. rewrite E.
    eapply dd_deq; [apply dd_base|]. intro k. qring.
  - exists (dpower [(FBase (fst x), Qc1)] (snd x)). split.
    + simpl base_repr. fold (base_repr r (DName (fst x))). rewrite (base_repr_name x H). reflexivity.
    + intro th. unfold fmean. apply dd_power. apply dd_base.
Qed.

Fixpoint lmean (l : blist) : Dim :=
  match l with [] => dzero | x :: t => dadd (fmean x) (lmean t) end.

Lemma dd_to_dtype th l : dd th (to_dtype l) (lmean l).
Proof.
  induction l as [|x t IH]; simpl; [apply dd_nil|].
  apply (dd_cons th (FBase (fst x)) (snd x) (to_dtype t) (dbase (fst x)) (lmean t)); auto.
Qed.

Lemma base_repr_fold : forall t acc da, Forall registered t ->
  base_repr r acc = Ok da ->
  exists d, base_repr r (fold_left (fun a y => DMul a (fac y)) t acc) = Ok d /\
    forall th x, dd th da x -> dd th d (dadd x (lmean t)).
Proof.
  induction t as [|y t IH]; intros acc da HF Ha; simpl.
  - exists da. split; auto. intros th x Hx. eapply dd_deq; eauto. intro k. qring.
  - inversion HF as [|? ? Hy Ht]; subst.
    destruct (base_repr_fac y Hy) as [dy [Hdy Dy]].
    destruct (IH (DMul acc (fac y)) (dmultiply da dy) Ht) as [d [Hd Dd]].
    { simpl; rewrite Ha, Hdy; try reflexivity. }
    exists d. split; auto. intros th x Hx.
    eapply dd_deq. { apply Dd. apply dd_multiply; [exact Hx|apply Dy]. }
    intro k. qring.
Qed.

Lemma base_repr_prod l : Forall registered l ->
  exists d, base_repr r (prod_dexpr l) = Ok d /\ forall th, dd th d (lmean l).
Proof.
  intro HF. destruct l as [|x t]; simpl.
  - exists dscalar. split; auto. intro th. apply dd_nil.
  - inversion HF as [|? ? Hx Ht]; subst.
    destruct (base_repr_fac x Hx) as [dx [Hdx Dx]].
    destruct (base_repr_fold t (fac x) dx Ht Hdx) as [d [Hd Dd]].
    exists d. split; auto.
Qed.

Lemma lmean_partition (p : string * Qc -> bool) l :
  deq (lmean l) (dadd (lmean (filter p l)) (lmean (filter (fun x => negb (p x)) l))).
Proof.
  induction l as [|x t IH]; simpl.
  - intro k. qring.
  - destruct (p x); simpl; intro k; unfold dadd in *; rewrite (IH k); unfold dadd; qring.
Qed.

Lemma lmean_invert l : deq (lmean (map invert l)) (dscale (- Qc1)%Qc (lmean l)).
Proof.
  induction l as [|x t IH]; simpl; intro k.
  - qring.
  - unfold dadd, dscale, fmean, invert in *. simpl. rewrite (IH k). unfold dscale. qring.
Qed.

Lemma Forall_filter {A} (P : A -> Prop) (p : A -> bool) l : Forall P l -> Forall P (filter p l).
Proof. induction 1; simpl; auto. destruct (p x); auto. Qed.

Lemma Forall_invert l : Forall registered l -> Forall registered (map invert l).
Proof. induction 1; simpl; constructor; auto. Qed.

(* the round trip: the registry reads the printed expression back as a factor list with the
   meaning of the original one, for every list of registered base dimensions and every exponents *)
Theorem print_parse_roundtrip l : Forall registered l ->
  exists d, base_repr r (print_dexpr l) = Ok d /\
    forall th x, dd th (to_dtype l) x -> dd th d x.
Proof.
  intro HF. unfold print_dexpr.
  pose proof (lmean_partition (fun x => qc_pos (snd x)) l) as P. cbv beta in P.
  assert (Fp : Forall registered (filter (fun x => qc_pos (snd x)) l)) by (apply Forall_filter; auto).
  assert (Fn : Forall registered (filter (fun x => negb (qc_pos (snd x))) l)) by (apply Forall_filter; auto).
  remember (filter (fun x => qc_pos (snd x)) l) as pos eqn:Ep.
  remember (filter (fun x => negb (qc_pos (snd x))) l) as neg eqn:En.
  assert (Conv : forall d, (forall th, dd th d (lmean l)) -> forall th x, dd th (to_dtype l) x -> dd th d x).
  { intros d Hd th x Hx. eapply dd_deq; [apply Hd|]. eapply dd_unique; [apply dd_to_dtype|exact Hx]. }
  clear Ep En. destruct pos as [|p0 pt]; destruct neg as [|n0 nt].
  - exists dscalar. split; auto. apply Conv. intro th. eapply dd_deq; [apply dd_nil|].
    apply deq_sym. eapply deq_trans; [exact P|]. simpl. intro k. qring.
  - destruct (base_repr_prod _ Fn) as [d [Hd Dd]]. exists d. split; auto. apply Conv. intro th.
    eapply dd_deq; [apply Dd|]. apply deq_sym. eapply deq_trans; [exact P|]. simpl. intro k. qring.
  - destruct (base_repr_prod _ Fp) as [d [Hd Dd]]. exists d. split; auto. apply Conv. intro th.
    eapply dd_deq; [apply Dd|]. apply deq_sym. eapply deq_trans; [exact P|]. simpl. intro k. qring.
  - destruct (base_repr_prod _ Fp) as [dp [Hdp Dp]].
    destruct (base_repr_prod _ (Forall_invert _ Fn)) as [dn [Hdn Dn]].
    exists (ddivide dp dn). split.
    { assert (E : forall a b, base_repr r (DDiv a b) =
                    (do x <- base_repr r a; do y <- base_repr r b; Ok (ddivide x y))) by reflexivity.
      rewrite E, Hdp, Hdn. reflexivity. }
    apply Conv. intro th. eapply dd_deq. { apply dd_divide; [apply Dp|apply Dn]. }
    apply deq_sym. eapply deq_trans; [exact P|].
    intro k. unfold dadd, dscale. rewrite (lmean_invert (n0 :: nt) k). unfold dscale. qring.
Qed.

(* the same through type_from_annotation: with the printed expression as a parameter annotation the
   checker reads back a dimension type with the meaning of the inferred one *)
Theorem annotation_roundtrip l : Forall registered l ->
  exists d, type_from_annotation r (ADim (print_dexpr l)) = Ok (TDim d) /\
    forall th x, dd th (to_dtype l) x -> dd th d x.
Proof.
  intro HF. destruct (print_parse_roundtrip l HF) as [b [Hb Hm]].
  cbn [type_from_annotation]. rewrite Hb. cbn [bind]. rewrite no_tparams.
  assert (E : map (fun x : factor * Qc => match fst x with
                                          | FBase n => if existsb (fun p : string * bool => String.eqb n (fst p)) [] then (FPar n, snd x) else x
                                          | _ => x end) b = b).
  { rewrite (map_ext _ (fun x => x)); [apply map_id|]. intros [f q]. destruct f; reflexivity. }
  rewrite E. eexists. split; [reflexivity|]. intros th x Hx. apply dd_canon. apply Hm. exact Hx.
Qed.

End RoundTrip.
