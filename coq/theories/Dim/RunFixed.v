(* Dim/RunFixed.v — C01: the run-time exponent after the repair of finding C01-exponent-f64.
   bytecode_interpreter.rs now compiles a power whose base is not a plain scalar to
   `LoadConstant (to_f64 (evaluate_const_expr rhs))`, and vm.rs / quantity.rs turn that f64 back
   into a rational with Ratio::from_f64 (Dim/FloatExact.v).  rexp_fixed is that computation;
   ExpAgree for it is the DECIDABLE statement "the exact exponent survives the f64 round trip"
   (exp_roundtrip), which the kernel evaluates per exponent — it is not true of every rational
   (a denominator beyond 2^53 cannot survive), so it stays a computed side condition instead of
   becoming an unconditional theorem. *)
From Coq Require Import String List ZArith QArith Qcanon Bool.
From Coq Require Import PrimFloat.
From NV Require Import Dim.Model Dim.Infer Dim.Run Dim.RunTreeProofs Dim.RunProgProofs Dim.FloatExact.
Import ListNotations.

(* Ratio<i128>::to_f64 (num-rational ratio_to_f64) for numerator and denominator below 2^53: both
   convert exactly and the result is the correctly rounded quotient.  Larger parts: not modelled. *)
Definition small53 (z : Z) : bool := (Z.abs z <? 2 ^ 53)%Z.
Definition q_to_f64 (q : Q) : option float :=
  if small53 (Qnum q) && small53 (Zpos (Qden q)) then Some (z2f (Qnum q) / z2f (Zpos (Qden q)))%float
  else None.

Definition rt_exponent (q : Qc) : option Qc :=
  match q_to_f64 (this q) with
  | Some f => option_map Q2Qc (from_f64 f)
  | None => None
  end.

Definition exp_roundtrip (q : Qc) : bool :=
  match q_to_f64 (this q) with
  | Some f => match from_f64 f with Some r => Qeq_bool r (this q) | None => false end
  | None => false
  end.

Lemma exp_roundtrip_ok q : exp_roundtrip q = true -> rt_exponent q = Some q.
Proof.
  unfold exp_roundtrip, rt_exponent. destruct (q_to_f64 (this q)) as [f|]; try discriminate.
  destruct (from_f64 f) as [r|]; try discriminate. intro H. simpl. f_equal.
  apply Qc_is_canon. simpl. rewrite Qred_correct. apply Qeq_bool_eq. exact H.
Qed.

(* the exponent the repaired VM uses / the exponent the checker uses *)
Definition rexp_fixed (b : expr) : option Qc :=
  match const_eval b with Ok q => rt_exponent q | Err _ => None end.
Definition rexp_exact (b : expr) : option Qc :=
  match const_eval b with Ok q => Some q | Err _ => None end.

Lemma rexp_exact_agree : exp_agree_all rexp_exact.
Proof. intros b q H. unfold rexp_exact. rewrite H. reflexivity. Qed.

(* every constant exponent of a power inside e survives the f64 round trip (computable) *)
Fixpoint exps_rt (e : expr) : bool :=
  match e with
  | EUn _ a => exps_rt a
  | EBin o a b =>
      exps_rt a && exps_rt b &&
      match o with
      | OPow => match const_eval b with Ok q => exp_roundtrip q | Err _ => true end
      | _ => true
      end
  | _ => true
  end.

Lemma rt_binop_rexp o d1 d2 r r' : (o = OPow -> r = r') -> rt_binop o d1 d2 r = rt_binop o d1 d2 r'.
Proof. intro H. destruct o; try reflexivity. rewrite (H eq_refl). reflexivity. Qed.

Lemma rt_expr_fixed g e : exps_rt e = true -> rt_expr g rexp_fixed e = rt_expr g rexp_exact e.
Proof.
  induction e as [q|x|x|o a IHa|o a IHa b IHb|f args|b| |c IHc t IHt e IHe|es]; intro H; try reflexivity.
  - (* EUn *) simpl in *. destruct o; auto.
  - (* EBin *) simpl in H. apply andb_prop in H. destruct H as [H Ho]. apply andb_prop in H. destruct H as [Ha Hb].
    simpl. rewrite (IHa Ha), (IHb Hb).
    destruct (rt_expr g rexp_exact a); try reflexivity.
    destruct (rt_expr g rexp_exact b); try reflexivity.
    apply rt_binop_rexp. intros ->. unfold rexp_fixed, rexp_exact.
    destruct (const_eval b) as [q|]; [|reflexivity]. apply exp_roundtrip_ok. exact Ho.
Qed.

Definition item_rt (i : item) : bool := match i with ILet _ e | IExpr e => exps_rt e end.

Lemma rt_prog_fixed p : forall g, forallb item_rt p = true -> rt_prog g rexp_fixed p = rt_prog g rexp_exact p.
Proof.
  induction p as [|i r IH]; intros g H; [reflexivity|].
  simpl in H. apply andb_prop in H. destruct H as [Hi Hr].
  destruct i as [x e|e]; simpl in *; rewrite (rt_expr_fixed g e Hi);
    destruct (rt_expr g rexp_exact e); try reflexivity; rewrite (IH _ Hr); reflexivity.
Qed.

(* the two agreement theorems without the ExpAgree hypothesis, for the repaired run time *)
Theorem rt_expr_agree_fixed gs g :
  env_agree gs g ->
  forall e, arith e -> exps_rt e = true -> forall s t ns s1,
    tc_env s = gs -> elab_expr e s = Ok (t, ns, s1) ->
    tc_env s1 = gs /\ exists d, t = TDim d /\ novar d = true /\ rt_expr g rexp_fixed e = RDim d.
Proof.
  intros Hg e Ha Hr s t ns s1 Es H. rewrite (rt_expr_fixed g e Hr).
  exact (rt_expr_agree gs g rexp_exact Hg rexp_exact_agree e Ha s t ns s1 Es H).
Qed.

Theorem prog_sound_fixed :
  forall p, Forall item_arith p -> forallb item_rt p = true -> forall g s outs s',
    env_agree2 (tc_env s) g -> allq (tc_env s) ->
    check (map stmt_of p) s = Ok (outs, s') ->
    exists ds, rt_prog g rexp_fixed p = Some ds /\ outs = map (fun id => out_of (fst id) (snd id)) (combine p ds)
               /\ length ds = length p.
Proof.
  intros p HF Hr g s outs s' Hg Hq H. rewrite (rt_prog_fixed p g Hr).
  exact (prog_sound rexp_exact rexp_exact_agree p HF g s outs s' Hg Hq H).
Qed.
