(* Dim/CanonProofs.v — the canonical form of DType::try_canonicalize: the result is strictly
   sorted by the factor order with non-zero exponents, and canonicalising a canonical list
   changes nothing (idempotence). *)
From Coq Require Import String List ZArith QArith Qcanon Bool Lia OrderedTypeEx.
From NV Require Import Dim.Model Dim.Proofs.
Import ListNotations.
Open Scope list_scope.

(* ------------------------------------------------------------------ the factor order *)
Lemma str_cmp_refl s : str_cmp s s = Eq.
Proof. apply String_as_OT.cmp_eq. reflexivity. Qed.
Lemma str_cmp_antisym a b : str_cmp a b = CompOpp (str_cmp b a).
Proof. apply String_as_OT.cmp_antisym. Qed.
Lemma str_cmp_trans a b c : str_cmp a b = Lt -> str_cmp b c = Lt -> str_cmp a c = Lt.
Proof.
  unfold str_cmp. intros H1 H2. apply String_as_OT.cmp_lt in H1. apply String_as_OT.cmp_lt in H2.
  apply String_as_OT.cmp_lt. eapply String_as_OT.lt_trans; eauto.
Qed.

Lemma var_cmp_antisym a b : var_cmp a b = CompOpp (var_cmp b a).
Proof. destruct a, b; simpl; auto using str_cmp_antisym. apply Nat.compare_antisym. Qed.
Lemma var_cmp_trans a b c : var_cmp a b = Lt -> var_cmp b c = Lt -> var_cmp a c = Lt.
Proof.
  destruct a, b, c; simpl; try discriminate; auto.
  - apply str_cmp_trans.
  - intros H1 H2. apply Nat.compare_lt_iff in H1. apply Nat.compare_lt_iff in H2.
    apply Nat.compare_lt_iff. lia.
Qed.

Lemma factor_cmp_eq a b : factor_cmp a b = Eq -> a = b.
Proof.
  destruct a, b; simpl; try discriminate; intro H.
  - apply var_cmp_eq in H. congruence.
  - apply str_cmp_eq in H. congruence.
  - apply str_cmp_eq in H. congruence.
Qed.
Lemma factor_cmp_antisym a b : factor_cmp a b = CompOpp (factor_cmp b a).
Proof. destruct a, b; simpl; auto using str_cmp_antisym, var_cmp_antisym. Qed.
Lemma factor_cmp_trans a b c : factor_cmp a b = Lt -> factor_cmp b c = Lt -> factor_cmp a c = Lt.
Proof.
  destruct a, b, c; simpl; try discriminate; auto.
  - apply var_cmp_trans.
  - apply str_cmp_trans.
  - apply str_cmp_trans.
Qed.
Lemma factor_cmp_gt_lt a b : factor_cmp a b = Gt -> factor_cmp b a = Lt.
Proof. intro H. rewrite factor_cmp_antisym, H. reflexivity. Qed.
Lemma factor_eqb_cmp a b : factor_eqb a b = false -> factor_cmp a b <> Eq.
Proof.
  intros H E. apply factor_cmp_eq in E. subst. destruct b; simpl in H.
  - rewrite var_eqb_refl in H. discriminate.
  - rewrite String.eqb_refl in H. discriminate.
  - rewrite String.eqb_refl in H. discriminate.
Qed.

(* ------------------------------------------------------------------ sortedness *)
Definition le_f (a b : factor * Qc) : Prop := factor_cmp (fst a) (fst b) <> Gt.
Definition lt_f (a b : factor * Qc) : Prop := factor_cmp (fst a) (fst b) = Lt.

Inductive sorted (R : factor * Qc -> factor * Qc -> Prop) : dtype -> Prop :=
| sorted_nil : sorted R []
| sorted_one x : sorted R [x]
| sorted_cons x y l : R x y -> sorted R (y :: l) -> sorted R (x :: y :: l).

Lemma sorted_tail R x l : sorted R (x :: l) -> sorted R l.
Proof. intro H. inversion H; subst; auto. constructor. Qed.

Lemma insert_sorted x : forall l, sorted le_f l -> sorted le_f (insert x l).
Proof.
  induction l as [|y r IH]; intro H; simpl; [constructor|].
  destruct (factor_cmp (fst x) (fst y)) eqn:C.
  - (* Eq: goes after y *)
    specialize (IH (sorted_tail _ _ _ H)).
    destruct r as [|z r']; simpl in *.
    + constructor; [unfold le_f; rewrite factor_cmp_antisym, C; discriminate|constructor].
    + destruct (factor_cmp (fst x) (fst z)) eqn:C2.
      * inversion H; subst. constructor; auto.
      * constructor; [unfold le_f; rewrite factor_cmp_antisym, C; discriminate|exact IH].
      * inversion H; subst. constructor; auto.
  - constructor; [unfold le_f; rewrite C; discriminate|exact H].
  - specialize (IH (sorted_tail _ _ _ H)).
    destruct r as [|z r']; simpl in *.
    + constructor; [unfold le_f; rewrite factor_cmp_antisym, C; discriminate|constructor].
    + destruct (factor_cmp (fst x) (fst z)) eqn:C2.
      * inversion H; subst. constructor; auto.
      * constructor; [unfold le_f; rewrite factor_cmp_antisym, C; discriminate|exact IH].
      * inversion H; subst. constructor; auto.
Qed.

Lemma sort_acc_sorted l : forall acc, sorted le_f acc ->
  sorted le_f (fold_left (fun acc x => insert x acc) l acc).
Proof. induction l as [|x r IH]; simpl; intros acc H; auto. apply IH. apply insert_sorted; auto. Qed.

Lemma sort_sorted l : sorted le_f (sort_factors l).
Proof. apply sort_acc_sorted. constructor. Qed.

(* merging equal neighbours of a sorted list gives a strictly sorted list with the same first key *)
Lemma merge_sorted l : sorted le_f l ->
  sorted lt_f (merge l) /\
  match l, merge l with
  | [], [] => True
  | x :: _, y :: _ => fst x = fst y
  | _, _ => False
  end.
Proof.
  induction l as [|[f n] r IH]; intro H; simpl; [split; [constructor|exact I]|].
  specialize (IH (sorted_tail _ _ _ H)). destruct IH as [S Hd].
  destruct (merge r) as [|[g m] r'] eqn:Em; try rewrite Em in Hd.
  - split; [constructor|reflexivity].
  - destruct r as [|[g0 m0] r0]; [simpl in Em; discriminate|]. rewrite Em in Hd. simpl in Hd. subst g0.
    destruct (factor_eqb f g) eqn:E.
    + apply factor_eqb_true in E. subst g. split; [|reflexivity].
      inversion S; subst; constructor; auto.
    + split; [|reflexivity]. constructor; auto. unfold lt_f. simpl.
      inversion H; subst. unfold le_f in H2. simpl in H2.
      destruct (factor_cmp f g) eqn:C; auto.
      * exfalso. exact (factor_eqb_cmp _ _ E C).
      * contradiction.
Qed.

Lemma lt_f_trans a b c : lt_f a b -> lt_f b c -> lt_f a c.
Proof. unfold lt_f. apply factor_cmp_trans. Qed.

Lemma sorted_lt_head x l : sorted lt_f (x :: l) -> forall y, In y l -> lt_f x y.
Proof.
  revert x. induction l as [|z r IH]; intros x H y Hy; [contradiction|].
  inversion H; subst. destruct Hy as [->|Hy]; auto.
  eapply lt_f_trans; [eassumption|]. apply IH; auto.
Qed.

Lemma filter_sorted (p : factor * Qc -> bool) l : sorted lt_f l -> sorted lt_f (filter p l).
Proof.
  induction l as [|x r IH]; intro H; simpl; [constructor|].
  specialize (IH (sorted_tail _ _ _ H)).
  destruct (p x); auto.
  destruct (filter p r) as [|y r'] eqn:Ef; [constructor|].
  constructor; auto. apply (sorted_lt_head x r H). 
  assert (In y (filter p r)) by (rewrite Ef; left; reflexivity).
  apply filter_In in H0. tauto.
Qed.

Definition canonical (d : dtype) : Prop := sorted lt_f d /\ forallb nonzero d = true.

Lemma filter_forallb {A} (p : A -> bool) l : forallb p (filter p l) = true.
Proof. induction l as [|x r IH]; simpl; auto. destruct (p x) eqn:E; simpl; auto. rewrite E; auto. Qed.

Theorem canon_canonical l : canonical (canon l).
Proof.
  unfold canonical, canon. split.
  - apply filter_sorted. apply merge_sorted. apply sort_sorted.
  - apply filter_forallb.
Qed.

(* ------------------------------------------------------------------ idempotence *)
Lemma insert_last x : forall l, (forall y, In y l -> lt_f y x) -> insert x l = l ++ [x].
Proof.
  induction l as [|y r IH]; intro H; simpl; auto.
  assert (C : factor_cmp (fst x) (fst y) = Gt).
  { pose proof (H y (or_introl eq_refl)) as L. unfold lt_f in L. rewrite factor_cmp_antisym, L. reflexivity. }
  rewrite C. rewrite IH; auto. intros z Hz. apply H. right; auto.
Qed.

Lemma sorted_lt_all_before l : forall acc, sorted lt_f (acc ++ l) ->
  fold_left (fun acc x => insert x acc) l acc = acc ++ l.
Proof.
  induction l as [|x r IH]; intros acc H; simpl; [rewrite app_nil_r; reflexivity|].
  rewrite insert_last.
  - rewrite IH; rewrite <- app_assoc; simpl; auto.
  - (* every element of acc is below x *)
    clear IH. induction acc as [|a acc' IHa]; intros y Hy; [contradiction|].
    simpl in H. destruct Hy as [->|Hy].
    + apply (sorted_lt_head y (acc' ++ x :: r) H). apply in_or_app. right. left. reflexivity.
    + apply IHa; auto. apply (sorted_tail _ _ _ H).
Qed.

Lemma sort_of_sorted l : sorted lt_f l -> sort_factors l = l.
Proof. intro H. unfold sort_factors. apply (sorted_lt_all_before l []). exact H. Qed.

Lemma merge_of_sorted l : sorted lt_f l -> merge l = l.
Proof.
  induction l as [|[f n] r IH]; intro H; simpl; auto.
  rewrite (IH (sorted_tail _ _ _ H)). destruct r as [|[g m] r']; auto.
  inversion H; subst. unfold lt_f in H2. simpl in H2.
  destruct (factor_eqb f g) eqn:E; auto. apply factor_eqb_true in E. subst.
  assert (factor_cmp g g = Eq) by (destruct g; simpl; [destruct v; simpl; [apply str_cmp_refl|apply Nat.compare_refl]|apply str_cmp_refl|apply str_cmp_refl]).
  congruence.
Qed.

Lemma filter_all {A} (p : A -> bool) l : forallb p l = true -> filter p l = l.
Proof. induction l as [|x r IH]; simpl; auto. intro H. apply andb_prop in H. destruct H as [Hx Hr]. rewrite Hx, IH; auto. Qed.

Theorem canon_of_canonical d : canonical d -> canon d = d.
Proof.
  intros [S Z]. unfold canon. rewrite (sort_of_sorted _ S), (merge_of_sorted _ S). apply filter_all; auto.
Qed.

Theorem canon_idem l : canon (canon l) = canon l.
Proof. apply canon_of_canonical, canon_canonical. Qed.
