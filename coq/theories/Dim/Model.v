(* Dim/Model.v — executable model of numbat's dimension types and constraint solver.

   Mirrors (function by function, names kept):
     numbat/src/typed_ast.rs            DTypeFactor, DType (try_canonicalize, multiply, power,
                                        inverse, divide, type_variables, split_first_factor,
                                        deconstruct_as_single_type_variable, instantiate), Type
                                        (type_variables, contains, is_closed,
                                        has_incompatible_constructor, instantiate)
     numbat/src/type_variable.rs        TypeVariable and its derived Ord
     numbat/src/typechecker/substitutions.rs   Substitution (lookup, extend), ApplySubstitution
                                        for Type and DType
     numbat/src/typechecker/constraints.rs     Constraint, try_trivial_resolution, try_satisfy,
                                        ConstraintSet::{add, solve}

   Not modelled: Type::Fn, Type::Struct and Constraint::HasField (function values and structs are
   outside the model: the elaborator in Infer.v reports them as EUnsupported), i128 overflow of
   exponents (exponents are exact rationals Qc here; overflow is the subject of C08).
   No proofs in this file. *)
From Coq Require Import String List ZArith QArith Qcanon Bool Ascii.
Import ListNotations.
Open Scope string_scope.
Open Scope list_scope.

(* ------------------------------------------------------------------ exponents *)
Definition qc (z : Z) : Qc := Q2Qc (inject_Z z).
Definition qcf (n : Z) (d : positive) : Qc := Q2Qc (Qmake n d).
Definition Qc0 : Qc := 0%Qc.
Definition Qc1 : Qc := 1%Qc.
Definition qc_eqb (a b : Qc) : bool := Qc_eq_bool a b.
Definition qc_is_int (a : Qc) : bool := Pos.eqb (Qden (this a)) 1.

(* ------------------------------------------------------------------ type variables, factors *)
Inductive var := VNamed (s : string) | VQuant (n : nat).

Definition str_cmp := String.compare.

Definition var_cmp (a b : var) : comparison :=
  match a, b with
  | VNamed x, VNamed y => str_cmp x y
  | VNamed _, VQuant _ => Lt
  | VQuant _, VNamed _ => Gt
  | VQuant x, VQuant y => Nat.compare x y
  end.

Definition var_eqb (a b : var) : bool :=
  match a, b with
  | VNamed x, VNamed y => String.eqb x y
  | VQuant x, VQuant y => Nat.eqb x y
  | _, _ => false
  end.

Inductive factor := FVar (v : var) | FPar (s : string) | FBase (s : string).

(* the comparator of DType::try_canonicalize: variables, then base dimensions, then type parameters *)
Definition factor_cmp (a b : factor) : comparison :=
  match a, b with
  | FVar x, FVar y => var_cmp x y
  | FVar _, _ => Lt
  | FBase x, FBase y => str_cmp x y
  | FBase _, FVar _ => Gt
  | FBase _, FPar _ => Lt
  | FPar x, FPar y => str_cmp x y
  | FPar _, _ => Gt
  end.

Definition factor_eqb (a b : factor) : bool :=
  match a, b with
  | FVar x, FVar y => var_eqb x y
  | FPar x, FPar y => String.eqb x y
  | FBase x, FBase y => String.eqb x y
  | _, _ => false
  end.

Definition dtype := list (factor * Qc).

(* stable insertion sort = Vec::sort_by with this comparator *)
Fixpoint insert (x : factor * Qc) (l : dtype) : dtype :=
  match l with
  | [] => [x]
  | y :: r => match factor_cmp (fst x) (fst y) with
              | Lt => x :: l
              | _ => y :: insert x r
              end
  end.
Definition sort_factors (l : dtype) : dtype := fold_left (fun acc x => insert x acc) l [].

(* "Merge powers of equal factors" *)
Fixpoint merge (l : dtype) : dtype :=
  match l with
  | [] => []
  | (f, n) :: r =>
      match merge r with
      | (g, m) :: r' => if factor_eqb f g then (f, (n + m)%Qc) :: r' else (f, n) :: (g, m) :: r'
      | [] => [(f, n)]
      end
  end.

Definition nonzero (x : factor * Qc) : bool := negb (qc_eqb (snd x) Qc0).

(* DType::try_canonicalize (without the overflow outcome) *)
Definition canon (l : dtype) : dtype := filter nonzero (merge (sort_factors l)).

Definition dscalar : dtype := [].
Definition scale (n : Qc) (d : dtype) : dtype := map (fun x => (fst x, (n * snd x)%Qc)) d.
Definition dmultiply (a b : dtype) : dtype := canon (a ++ b).
Definition dpower (d : dtype) (n : Qc) : dtype := canon (scale n d).
Definition dinverse (d : dtype) : dtype := dpower d (- Qc1)%Qc.
Definition ddivide (a b : dtype) : dtype := dmultiply a (dinverse b).
Definition from_var (v : var) : dtype := canon [(FVar v, Qc1)].
Definition from_par (s : string) : dtype := canon [(FPar s, Qc1)].
Definition base_dimension (s : string) : dtype := canon [(FBase s, Qc1)].

Fixpoint dtype_eqb (a b : dtype) : bool :=
  match a, b with
  | [], [] => true
  | (f, n) :: r, (g, m) :: s => factor_eqb f g && qc_eqb n m && dtype_eqb r s
  | _, _ => false
  end.
Definition d_is_scalar (d : dtype) : bool := dtype_eqb d dscalar.

(* deconstruct_as_single_type_variable *)
Definition single (d : dtype) : option var :=
  match d with
  | [(FVar v, e)] => if qc_eqb e Qc1 then Some v else None
  | _ => None
  end.

(* sorted, de-duplicated variable lists (Vec::sort + dedup) *)
Fixpoint vinsert (x : var) (l : list var) : list var :=
  match l with
  | [] => [x]
  | y :: r => match var_cmp x y with
              | Lt => x :: l
              | Eq => l
              | Gt => y :: vinsert x r
              end
  end.
Definition vsort (l : list var) : list var := fold_left (fun acc x => vinsert x acc) l [].

Definition dvars_raw (incl : bool) (d : dtype) : list var :=
  flat_map (fun x => match fst x with
                     | FVar v => [v]
                     | FPar s => if incl then [VNamed s] else []
                     | FBase _ => []
                     end) d.
Definition dvars (incl : bool) (d : dtype) : list var := vsort (dvars_raw incl d).

(* ------------------------------------------------------------------ types *)
Inductive ty :=
| TVar (v : var)
| TPar (s : string)
| TDim (d : dtype)
| TBool
| TString
| TDateTime
| TList (t : ty).

Definition tscalar : ty := TDim dscalar.

Fixpoint ty_eqb (a b : ty) : bool :=
  match a, b with
  | TVar x, TVar y => var_eqb x y
  | TPar x, TPar y => String.eqb x y
  | TDim x, TDim y => dtype_eqb x y
  | TBool, TBool => true
  | TString, TString => true
  | TDateTime, TDateTime => true
  | TList x, TList y => ty_eqb x y
  | _, _ => false
  end.

Fixpoint ty_vars (incl : bool) (t : ty) : list var :=
  match t with
  | TVar v => [v]
  | TPar s => if incl then [VNamed s] else []
  | TDim d => dvars incl d
  | TBool | TString | TDateTime => []
  | TList e => ty_vars incl e
  end.
Definition ty_contains (t : ty) (x : var) (incl : bool) : bool := existsb (var_eqb x) (ty_vars incl t).
Definition is_closed (t : ty) : bool := match ty_vars false t with [] => true | _ => false end.
Definition is_dtype (t : ty) : bool := match t with TDim _ => true | _ => false end.
Definition ty_is_scalar (t : ty) : bool := match t with TDim d => d_is_scalar d | _ => false end.

Definition dim_with_only_tvar (t : ty) : bool :=
  match t with TDim d => match single d with Some _ => true | None => false end | _ => false end.

Definition has_incompatible_constructor (a b : ty) : bool :=
  match a, b with
  | TVar _, _ | _, TVar _ | TPar _, _ | _, TPar _ => false
  | _, _ =>
      if dim_with_only_tvar a || dim_with_only_tvar b then false else
      match a, b with
      | TDim _, TDim _ | TBool, TBool | TString, TString | TDateTime, TDateTime
      | TList _, TList _ => false
      | _, _ => true
      end
  end.

(* instantiate: Quantified(i) -> type_variables[i] *)
Definition inst_var (vs : list var) (v : var) : var :=
  match v with VQuant i => nth i vs v | _ => v end.
Definition dinstantiate (vs : list var) (d : dtype) : dtype :=
  canon (map (fun x => match fst x with
                       | FVar v => (FVar (inst_var vs v), snd x)
                       | f => (f, snd x)
                       end) d).
Fixpoint instantiate (vs : list var) (t : ty) : ty :=
  match t with
  | TVar v => TVar (inst_var vs v)
  | TDim d => TDim (dinstantiate vs d)
  | TList e => TList (instantiate vs e)
  | _ => t
  end.

(* ------------------------------------------------------------------ outcomes *)
Inductive err :=
| EUnknownIdentifier | EIncompatibleDimensions | ENonScalarExponent | ENonScalarFactorialArgument
| EUnsupportedConstEvalExpression | EDivisionByZeroInConstEvalExpression | EDimensionRegistryError
| EIncompatibleAlternativeDimensionExpression | EWrongArity | ETypeParameterNameClash
| ENonRationalExponent | EOverflowInConstExpr | EExpectedDimensionType | EExpectedBool
| EIncompatibleTypesInCondition | EIncompatibleTypeInAssert | EIncompatibleTypesInAssertEq
| EIncompatibleTypesInAnnotation | EIncompatibleTypesInComparison | EIncompatibleTypesInOperator
| EIncompatibleTypesInFunctionCall | EIncompatibleTypesInList | ENameResolutionError
| EConstraintSolverError | ESubstitutionError | EMissingDimBound
| EExponentiationNeedsTypeAnnotation | EDerivedUnitDefinitionMustNotBeGeneric
| ENoDimensionlessBaseUnit
| EPanic              (* the code panics (division by a zero exponent in try_satisfy) *)
| EOutOfFuel          (* model only: the solve loop ran out of fuel *)
| EUnsupported.       (* model only: construct outside the modelled fragment *)

Inductive res (A : Type) := Ok (a : A) | Err (e : err).
Arguments Ok {A} a.
Arguments Err {A} e.
Definition bind {A B} (r : res A) (f : A -> res B) : res B :=
  match r with Ok a => f a | Err e => Err e end.
Notation "'do' x <- r ; k" := (bind r (fun x => k)) (at level 200, x pattern, r at level 100, k at level 200).

Fixpoint mapM {A B} (f : A -> res B) (l : list A) : res (list B) :=
  match l with
  | [] => Ok []
  | x :: r => do y <- f x; do ys <- mapM f r; Ok (y :: ys)
  end.

(* ------------------------------------------------------------------ substitutions *)
Definition subst := list (var * ty).

Fixpoint lookup (s : subst) (v : var) : option ty :=
  match s with
  | [] => None
  | (x, t) :: r => if var_eqb x v then Some t else lookup r v
  end.

(* the DType a looked-up type stands for inside a dimension expression *)
Definition as_dtype (t : ty) : res dtype :=
  match t with
  | TDim d => Ok d
  | TVar v => Ok (from_var v)
  | _ => Err ESubstitutionError
  end.

(* impl ApplySubstitution for DType: one pass over the *original* factors *)
Fixpoint dapply_go (s : subst) (fs : dtype) (acc : dtype) : res dtype :=
  match fs with
  | [] => Ok acc
  | (f, p) :: r =>
      match f with
      | FVar tv =>
          match lookup s tv with
          | Some t => do d <- as_dtype t;
                      dapply_go s r (dmultiply (ddivide acc (dpower (from_var tv) p)) (dpower d p))
          | None => dapply_go s r acc
          end
      | FPar n =>
          match lookup s (VNamed n) with
          | Some t => do d <- as_dtype t;
                      dapply_go s r (dmultiply (ddivide acc (dpower (from_par n) p)) (dpower d p))
          | None => dapply_go s r acc
          end
      | FBase _ => dapply_go s r acc
      end
  end.
Definition dapply (s : subst) (d : dtype) : res dtype := dapply_go s d d.

(* impl ApplySubstitution for Type *)
Fixpoint tapply (s : subst) (t : ty) : res ty :=
  match t with
  | TVar v => Ok (match lookup s v with Some u => u | None => t end)
  | TPar n => Ok (match lookup s (VNamed n) with Some u => u | None => t end)
  | TDim d =>
      match single d with
      | Some v => Ok (match lookup s v with Some u => u | None => t end)
      | None => do d' <- dapply s d; Ok (TDim d')
      end
  | TBool | TString | TDateTime => Ok t
  | TList e => do e' <- tapply s e; Ok (TList e')
  end.

(* Substitution::extend (its `unwrap` is an explicit error here) *)
Definition extend (s other : subst) : res subst :=
  do s' <- mapM (fun xt => do t' <- tapply other (snd xt); Ok (fst xt, t')) s;
  Ok (s' ++ other).

(* ------------------------------------------------------------------ constraints *)
Inductive constr :=
| CEq (a b : ty)
| CIsD (t : ty)
| CScalar (d : dtype).

Definition capply (s : subst) (c : constr) : res constr :=
  match c with
  | CEq a b => do a' <- tapply s a; do b' <- tapply s b; Ok (CEq a' b')
  | CIsD t => do t' <- tapply s t; Ok (CIsD t')
  | CScalar d => do d' <- dapply s d; Ok (CScalar d')
  end.

Inductive trivial := Satisfied | Violated | Unknown.

Definition try_trivial_resolution (c : constr) : trivial :=
  match c with
  | CEq t1 t2 =>
      if is_closed t1 && is_closed t2 then (if ty_eqb t1 t2 then Satisfied else Violated)
      else if has_incompatible_constructor t1 t2 then Violated
      else Unknown
  | CIsD t =>
      if is_closed t then (match t with TDim _ => Satisfied | _ => Violated end) else Unknown
  | CScalar d =>
      if d_is_scalar d then Satisfied
      else match dvars false d with [] => Violated | _ => Unknown end
  end.

(* ConstraintSet::add : the constraint is kept unless trivially satisfied *)
Definition cs_add (cs : list constr) (c : constr) : list constr * trivial :=
  let r := try_trivial_resolution c in
  (match r with Satisfied => cs | _ => cs ++ [c] end, r).

(* Constraint::try_satisfy: None = cannot (yet) be solved; Some (substitution, new constraints).
   `- j / k` on Ratio<i128> panics for k = 0: that is the explicit outcome SatPanic. *)
Inductive satres := NotYet | Sat (s : subst) (news : list constr) | SatPanic.

Definition try_satisfy (c : constr) : satres :=
  match c with
  | CEq t1 t2 =>
      if ty_eqb t1 t2 then Sat [] [] else
      let arm2 :=
        match t1 with
        | TVar x => if negb (ty_contains t2 x false) then Some (x, t2) else None
        | _ => None
        end in
      match arm2 with Some (x, t) => Sat [(x, t)] [] | None =>
      let arm2' :=
        match t2 with
        | TVar x => if negb (ty_contains t1 x false) then Some (x, t1) else None
        | _ => None
        end in
      match arm2' with Some (x, t) => Sat [(x, t)] [] | None =>
      let arm3 :=
        match t1 with
        | TDim dx => match single dx with
                     | Some v => if negb (ty_contains t2 v false) then Some (v, t2) else None
                     | None => None
                     end
        | _ => None
        end in
      match arm3 with Some (x, t) => Sat [(x, t)] [] | None =>
      let arm4 :=
        match t2 with
        | TDim dx => match single dx with
                     | Some v => if negb (ty_contains t1 v false) then Some (v, t1) else None
                     | None => None
                     end
        | _ => None
        end in
      match arm4 with Some (x, t) => Sat [(x, t)] [] | None =>
      match t1, t2 with
      | TList s1, TList s2 => Sat [] [CEq s1 s2]
      | TVar tv, TDim d => Sat [] [CEq (TDim (from_var tv)) (TDim d)]
      | TDim d, TVar tv => Sat [] [CEq (TDim (from_var tv)) (TDim d)]
      | TDim d1, TDim d2 => Sat [] [CScalar (ddivide d1 d2)]
      | _, _ => NotYet
      end end end end end
  | CIsD (TDim inner) => Sat [] (map (fun tv => CIsD (TVar tv)) (dvars true inner))
  | CIsD _ => NotYet
  | CScalar d =>
      if dtype_eqb d dscalar then Sat [] [] else
      match d with
      | (FVar tv, k) :: rest =>
          if qc_eqb k Qc0 then SatPanic else
          Sat [(tv, TDim (canon (map (fun x => (fst x, (- snd x / k)%Qc)) rest)))] []
      | _ => NotYet
      end
  end.

(* first constraint (in order) that can be satisfied, with the set without it *)
Inductive firstres := FNone | FSome (s : subst) (news others : list constr) | FPanic.

Fixpoint first_satisfiable (pre cs : list constr) : firstres :=
  match cs with
  | [] => FNone
  | c :: r =>
      match try_satisfy c with
      | Sat s news => FSome s news (rev_append pre r)
      | SatPanic => FPanic
      | NotYet => first_satisfiable (c :: pre) r
      end
  end.

(* the `while made_progress` loop of ConstraintSet::solve; returns the composed substitution and
   the constraints that are left *)
Fixpoint solve_loop (fuel : nat) (cs : list constr) : res (subst * list constr) :=
  match fuel with
  | O => Err EOutOfFuel
  | S f =>
      match first_satisfiable [] cs with
      | FNone => Ok ([], cs)
      | FPanic => Err EPanic
      | FSome s news others =>
          match mapM (capply s) (others ++ news) with
          | Err _ => Err ESubstitutionError
          | Ok cs' =>
              match solve_loop f cs' with
              | Err e => Err e
              | Ok (s', rest) =>
                  match extend s s' with
                  | Err e => Err e
                  | Ok s'' => Ok (s'', rest)
                  end
              end
          end
      end
  end.

(* get_dtype_constraint_type_variable *)
Definition dtype_constraint_var (c : constr) : option var :=
  match c with
  | CIsD (TVar v) => Some v
  | CIsD (TPar n) => Some (VNamed n)
  | _ => None
  end.

Fixpoint collect_dtypes (cs : list constr) : option (list var) :=
  match cs with
  | [] => Some []
  | c :: r => match dtype_constraint_var c, collect_dtypes r with
              | Some v, Some vs => Some (v :: vs)
              | _, _ => None
              end
  end.

Definition solve_fuel (cs : list constr) : nat := 64 + 16 * length cs.

(* ConstraintSet::solve *)
Definition solve (cs : list constr) : res (subst * list var) :=
  do r <- solve_loop (solve_fuel cs) cs;
  match collect_dtypes (snd r) with
  | Some vs => Ok (fst r, vsort vs)
  | None => Err EConstraintSolverError
  end.
