(* Dim/FloatExact.v — C01: a port of num-rational 0.4.2 `approximate_float` (what
   `Rational::from_f64` = `Ratio<i128>::from_f64` runs: continued fractions, max_error 10e-20,
   30 iterations, i128 overflow guards) to Coq's primitive binary64 floats, so that the exponent
   the VM computes (quantity.rs Quantity::checked_power: f64 arithmetic, then from_f64) can be
   evaluated inside the kernel.  Used only for the `_refuted` witness of finding C01-exponent-f64. *)
From Coq Require Import ZArith QArith Bool.
From Coq Require Import FloatClass PrimFloat SpecFloat FloatOps.   (* not Floats: FloatAxioms and FloatLemmas (Psatz, Reals) stay out of the checked cone *)
Open Scope Z_scope.

Definition TMAX : Z := 2 ^ 127 - 1.                       (* i128::MAX *)

(* `x as i128` through NumCast: truncation, None outside the range / for NaN and infinities *)
Definition f2z (f : float) : option Z :=
  match Prim2SF f with
  | S754_zero _ => Some 0
  | S754_finite s m e =>
      let v := if 0 <=? e then Zpos m * 2 ^ e else Zpos m / 2 ^ (- e) in
      let v := if s then - v else v in
      if (- TMAX - 1 <=? v) && (v <=? TMAX) then Some v else None
  | _ => None
  end.

(* `n as f64`: round to nearest, ties to even *)
Definition z2f (z : Z) : float := SF2Prim (binary_normalize prec emax z 0 false).

Definition max_error : float := 1e-19%float.             (* 10e-20 *)
Definition t_max_f : float := z2f TMAX.
Definition epsilon : float := (1 / t_max_f)%float.

Fixpoint approx_loop (fuel : nat) (val q : float) (n0 d0 n1 d1 : Z) : Z * Z :=
  match fuel with
  | O => (n1, d1)
  | S k =>
      match f2z q with
      | None => (n1, d1)
      | Some a =>
          let f := (q - z2f a)%float in
          if negb (a =? 0) &&
             ((n1 >? TMAX / a) || (d1 >? TMAX / a) || (a * n1 >? TMAX - n0) || (a * d1 >? TMAX - d0))
          then (n1, d1) else
          let n := a * n1 + n0 in
          let d := a * d1 + d0 in
          let g := Z.gcd n d in
          let n1' := if g =? 0 then n else n / g in
          let d1' := if g =? 0 then d else d / g in
          if (abs (z2f n / z2f d - val) <? max_error)%float then (n1', d1') else
          if (f <? epsilon)%float then (n1', d1') else
          approx_loop k val (1 / f)%float n1 d1 n1' d1'
      end
  end.

Definition approximate_float_unsigned (val : float) : option Q :=
  if (val <? 0)%float || is_nan val then None else
  if (t_max_f <? val)%float then None else
  let (n1, d1) := approx_loop 30 val val 0 1 1 0 in
  match d1 with
  | Zpos p => Some (Qred (n1 # p))
  | _ => None
  end.

(* Ratio::<i128>::from_f64 *)
Definition from_f64 (val : float) : option Q :=
  let negative := get_sign val in
  match approximate_float_unsigned (abs val) with
  | Some r => Some (if negative then Qopp r else r)
  | None => None
  end.
