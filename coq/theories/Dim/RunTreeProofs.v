(* Dim/RunTreeProofs.v — C01: the per-operator agreement lifted to expression trees of the
   arithmetic fragment over a closed (monomorphic) environment, and to let-programs. *)
From Coq Require Import String List ZArith QArith Qcanon Bool Lia.
From NV Require Import Dim.Model Dim.Infer Dim.Sem Dim.Proofs Dim.Run Dim.RunProofs.
Import ListNotations.
Open Scope string_scope.
Open Scope list_scope.

(* factor lists without type variables stay so under the DType operations, and are closed *)
Definition novar (d : dtype) : bool :=
  forallb (fun x => match fst x with FVar _ => false | _ => true end) d.

Lemma novar_insert a l : novar (a :: l) = true -> novar (insert a l) = true.
Proof.
  induction l as [|y r IH]; simpl; auto. intro H.
  destruct (factor_cmp (fst a) (fst y)); simpl; auto.
  - simpl in H. apply andb_prop in H. destruct H as [Ha H]. apply andb_prop in H. destruct H as [Hy Hr].
    rewrite Hy. simpl. apply IH. simpl. rewrite Ha, Hr. reflexivity.
  - simpl in H. apply andb_prop in H. destruct H as [Ha H]. apply andb_prop in H. destruct H as [Hy Hr].
    rewrite Hy. simpl. apply IH. simpl. rewrite Ha, Hr. reflexivity.
Qed.

Lemma novar_sort_acc l : forall acc, novar l = true -> novar acc = true ->
  novar (fold_left (fun acc x => insert x acc) l acc) = true.
Proof.
  induction l as [|x r IH]; simpl; intros acc Hl Ha; auto.
  apply andb_prop in Hl. destruct Hl as [Hx Hr]. apply IH; auto.
  apply novar_insert. simpl. rewrite Hx, Ha. reflexivity.
Qed.

Lemma novar_merge l : novar l = true -> novar (merge l) = true.
Proof.
  induction l as [|[f n] r IH]; simpl; auto. intro H. apply andb_prop in H. destruct H as [Hf Hr].
  specialize (IH Hr). destruct (merge r) as [|[g m] r'].
  - simpl. rewrite Hf. reflexivity.
  - destruct (factor_eqb f g).
    + simpl in *. rewrite Hf. apply andb_prop in IH. destruct IH as [_ IH]. rewrite IH. reflexivity.
    + simpl in *. rewrite Hf. exact IH.
Qed.

Lemma novar_filter (p : factor * Qc -> bool) l : novar l = true -> novar (filter p l) = true.
Proof.
  induction l as [|x r IH]; simpl; auto. intro H. apply andb_prop in H. destruct H as [Hx Hr].
  destruct (p x); simpl; auto. rewrite Hx. simpl. auto.
Qed.

Lemma novar_canon l : novar l = true -> novar (canon l) = true.
Proof.
  intro H. unfold canon. apply novar_filter, novar_merge. unfold sort_factors.
  apply novar_sort_acc; auto.
Qed.

Lemma novar_app a b : novar a = true -> novar b = true -> novar (a ++ b) = true.
Proof. unfold novar. intros. rewrite forallb_app. rewrite H, H0. reflexivity. Qed.

Lemma novar_scale n d : novar d = true -> novar (scale n d) = true.
Proof. unfold novar, scale. induction d as [|x r IH]; simpl; auto. intro H.
  apply andb_prop in H. destruct H as [Hx Hr]. rewrite Hx. simpl. auto. Qed.

Lemma novar_multiply a b : novar a = true -> novar b = true -> novar (dmultiply a b) = true.
Proof. intros. apply novar_canon, novar_app; auto. Qed.
Lemma novar_power d n : novar d = true -> novar (dpower d n) = true.
Proof. intros. apply novar_canon, novar_scale; auto. Qed.
Lemma novar_divide a b : novar a = true -> novar b = true -> novar (ddivide a b) = true.
Proof. intros. apply novar_multiply; auto. apply novar_power; auto. Qed.

Lemma novar_raw d : novar d = true -> dvars_raw false d = [].
Proof.
  induction d as [|[f e] r IH]; simpl; auto. intro H. apply andb_prop in H. destruct H as [Hf Hr].
  rewrite (IH Hr). destruct f; simpl in *; auto. discriminate.
Qed.

Lemma novar_closed d : novar d = true -> is_closed (TDim d) = true.
Proof. intro H. unfold is_closed. simpl. unfold dvars. rewrite (novar_raw _ H). reflexivity. Qed.

(* ------------------------------------------------------------------ expression trees *)
(* the fragment: non-zero literals, names, unary minus, + - -> * / ^ *)
Inductive arith : expr -> Prop :=
| AScalar q : q <> Qc0 -> arith (EScalar q)
| AIdent x : arith (EIdent x)
| AUnit x : arith (EUnit x)
| ANeg a : arith a -> arith (EUn UNeg a)
| ABin o a b : (o = OAdd \/ o = OSub \/ o = OConv \/ o = OMul \/ o = ODiv \/ o = OPow) ->
    arith a -> arith b -> arith (EBin o a b).

(* the run-time environment g agrees with a closed static environment: every name carries a unit
   whose dimension is the (variable-free, canonical) type the checker holds for it *)
Definition env_agree (gs : env) (g : string -> option dtype) : Prop :=
  forall x, match env_find gs x with
            | Some (IdNormal (Quantified 0 (TDim d) [])) =>
                g x = Some d /\ novar d = true /\ dinstantiate [] d = d
            | Some _ => False
            | None => True
            end.

Definition exp_agree_all (rexp : expr -> option Qc) : Prop :=
  forall b q, const_eval b = Ok q -> rexp b = Some q.

Definition same_env (s s' : tc) : Prop := tc_env s' = tc_env s.

Lemma enforce_closed_env s d s1 : is_closed (TDim d) = true -> enforce_dtype s (TDim d) = Ok s1 -> same_env s s1.
Proof. intros H E. rewrite (enforce_closed _ _ H) in E. inversion E; subst. reflexivity. Qed.

Lemma qc_eqb_false_of q : q <> Qc0 -> qc_eqb q Qc0 = false.
Proof. intro H. destruct (qc_eqb q Qc0) eqn:E; auto. apply qc_eqb_true in E. contradiction. Qed.

Lemma add_c_env s c s1 r : add_c s c = (s1, r) -> tc_env s1 = tc_env s.
Proof. unfold add_c, cs_add. intro H. inversion H; subst. reflexivity. Qed.

Theorem rt_expr_agree gs g rexp :
  env_agree gs g -> exp_agree_all rexp ->
  forall e, arith e -> forall s t ns s1,
    tc_env s = gs -> elab_expr e s = Ok (t, ns, s1) ->
    tc_env s1 = gs /\ exists d, t = TDim d /\ novar d = true /\ rt_expr g rexp e = RDim d.
Proof.
  intros Hg Hx e Ha. induction Ha as [q Hq|x|x|a Ha IH|o a b Ho Ha IHa Hb IHb]; intros s t ns s1 Es H; simpl in H.
  - rewrite (qc_eqb_false_of _ Hq) in H. inversion H; subst. split; auto. exists dscalar. auto.
  - pose proof (Hg x) as G. rewrite <- Es in G. destruct (env_find (tc_env s) x) as [[sc|fs]|]; try discriminate.
    destruct sc as [t0|k t0 bs]; try contradiction. destruct k; try contradiction.
    destruct t0; try contradiction. destruct bs; try contradiction. destruct G as [G1 [G2 G3]].
    simpl in H. rewrite G3 in H. inversion H. split; [congruence|]. exists d. simpl. rewrite G1. auto.
  - pose proof (Hg x) as G. rewrite <- Es in G. destruct (env_find (tc_env s) x) as [[sc|fs]|]; try discriminate.
    destruct sc as [t0|k t0 bs]; try contradiction. destruct k; try contradiction.
    destruct t0; try contradiction. destruct bs; try contradiction. destruct G as [G1 [G2 G3]].
    simpl in H. rewrite G3 in H. inversion H. split; [congruence|]. exists d. simpl. rewrite G1. auto.
  - destruct (elab_expr a s) as [[[ta na] sa]|] eqn:Ea; simpl in H; try discriminate.
    destruct (IH _ _ _ _ Es Ea) as [Ev [d [-> [Nd Rd]]]].
    rewrite (enforce_closed _ _ (novar_closed _ Nd)) in H. simpl in H. injection H as Ht Hns Hs1. subst t ns s1.
    split; auto. exists d. auto.
  - destruct (elab_expr a s) as [[[lt na] sa]|] eqn:Ea; simpl in H; try discriminate.
    destruct (elab_expr b sa) as [[[rt nb] sb]|] eqn:Eb; simpl in H; try discriminate.
    destruct (elab_binop o a b lt rt sb) as [[t0 sc]|] eqn:Eo; simpl in H; try discriminate.
    injection H as Ht Hns Hs1. subst t ns s1.
    destruct (IHa _ _ _ _ Es Ea) as [Eva [d1 [-> [N1 R1]]]].
    destruct (IHb _ _ _ _ Eva Eb) as [Evb [d2 [-> [N2 R2]]]].
    pose proof (novar_closed _ N1) as C1. pose proof (novar_closed _ N2) as C2.
    simpl. rewrite R1, R2.
    (* the state after the operator has the same environment: closed operands add no state *)
    assert (ENV : tc_env sc = gs /\ exists d, t0 = TDim d /\ novar d = true /\ rt_binop o d1 d2 (rexp b) = RDim d).
    { unfold elab_binop, elab_binop_core in Eo.
      destruct Ho as [->|[->|[->|[->|[->| ->]]]]].
      - destruct (assert_closed _ _ _ _ _ C1 C2 Eo) as [E ->].
        unfold assert_equal_dtypes, add_c, cs_add in Eo. rewrite (trivial_eq_closed _ _ C1 C2), E in Eo. simpl in Eo.
        rewrite (enforce_closed _ _ C1) in Eo. simpl in Eo. rewrite (enforce_closed _ _ C2) in Eo. simpl in Eo.
        inversion Eo; subst. simpl. split; [simpl; first [assumption|reflexivity|congruence]|]. exists d1. rewrite E. auto.
      - destruct (assert_closed _ _ _ _ _ C1 C2 Eo) as [E ->].
        unfold assert_equal_dtypes, add_c, cs_add in Eo. rewrite (trivial_eq_closed _ _ C1 C2), E in Eo. simpl in Eo.
        rewrite (enforce_closed _ _ C1) in Eo. simpl in Eo. rewrite (enforce_closed _ _ C2) in Eo. simpl in Eo.
        inversion Eo; subst. simpl. split; [simpl; first [assumption|reflexivity|congruence]|]. exists d1. rewrite E. auto.
      - destruct (assert_closed _ _ _ _ _ C1 C2 Eo) as [E ->].
        unfold assert_equal_dtypes, add_c, cs_add in Eo. rewrite (trivial_eq_closed _ _ C1 C2), E in Eo. simpl in Eo.
        rewrite (enforce_closed _ _ C1) in Eo. simpl in Eo. rewrite (enforce_closed _ _ C2) in Eo. simpl in Eo.
        inversion Eo; subst. simpl. split; [simpl; first [assumption|reflexivity|congruence]|]. exists d1. rewrite E. auto.
      - rewrite C1, C2 in Eo. simpl in Eo. inversion Eo; subst. split; [simpl; first [assumption|reflexivity|congruence]|].
        exists (dmultiply d1 d2). split; auto. split; auto. apply novar_multiply; auto.
      - rewrite C1, C2 in Eo. simpl in Eo. inversion Eo; subst. split; [simpl; first [assumption|reflexivity|congruence]|].
        exists (ddivide d1 d2). split; auto. split; auto. apply novar_divide; auto.
      - rewrite (enforce_closed _ _ C1) in Eo. unfold bind at 1 in Eo.
        rewrite (enforce_closed _ _ C2) in Eo. unfold bind at 1 in Eo.
        unfold rt_binop. destruct (d_is_scalar d1) eqn:Sc.
        + destruct (add_c _ (CEq (TDim d2) tscalar)) as [s3 r] eqn:Ec in Eo.
          pose proof (add_c_env _ _ _ _ Ec) as Ee. simpl in Ee.
          destruct (is_violated r); inversion Eo; subst; simpl.
          split; [congruence|]. exists d1. auto.
        + destruct (const_eval b) as [q|] eqn:Cq; simpl in Eo; try discriminate. inversion Eo; subst.
          simpl. split; [simpl; first [assumption|reflexivity|congruence]|]. rewrite (Hx _ _ Cq). exists (dpower d1 q). split; auto. split; auto.
          apply novar_power; auto. }
    destruct ENV as [E1 [d [-> [Nd Rd]]]]. split; [assumption|]. exists d. auto.
Qed.
