(* Dim/Sem.v — the specification side: physical dimensions as exponent vectors, the meaning of
   the checker's types under a valuation of the type variables, satisfaction of constraints, and
   (HasDim) declarative dimensional analysis of expressions.  Definitions only. *)
From Coq Require Import String List ZArith QArith Qcanon Bool.
From NV Require Import Dim.Model Dim.Infer.
Import ListNotations.
Open Scope string_scope.
Open Scope list_scope.

(* ------------------------------------------------------------------ dimensions *)
(* a physical dimension: base-dimension name -> rational exponent (ordinary dimensional analysis) *)
Definition Dim := string -> Qc.
Definition deq (a b : Dim) : Prop := forall x, a x = b x.
Definition dzero : Dim := fun _ => Qc0.
Definition dadd (a b : Dim) : Dim := fun x => (a x + b x)%Qc.
Definition dscale (q : Qc) (a : Dim) : Dim := fun x => (q * a x)%Qc.
Definition dbase (n : string) : Dim := fun x => if String.eqb x n then Qc1 else Qc0.

(* meanings of types *)
Inductive sty := SDim (d : Dim) | SBool | SString | SDateTime | SList (e : sty).

Fixpoint steq (a b : sty) : Prop :=
  match a, b with
  | SDim x, SDim y => deq x y
  | SBool, SBool => True
  | SString, SString => True
  | SDateTime, SDateTime => True
  | SList x, SList y => steq x y
  | _, _ => False
  end.

Definition is_sdim (a : sty) : Prop := match a with SDim _ => True | _ => False end.

(* a valuation gives every type variable (and, by name, every type parameter) a meaning *)
Definition valuation := var -> sty.

Definition fval (th : valuation) (f : factor) : option Dim :=
  match f with
  | FVar v => match th v with SDim d => Some d | _ => None end
  | FPar s => match th (VNamed s) with SDim d => Some d | _ => None end
  | FBase n => Some (dbase n)
  end.

(* meaning of a factor list: defined only if every variable in it means a dimension *)
Fixpoint dden (th : valuation) (d : dtype) : option Dim :=
  match d with
  | [] => Some dzero
  | (f, e) :: r =>
      match fval th f, dden th r with
      | Some x, Some y => Some (dadd (dscale e x) y)
      | _, _ => None
      end
  end.

(* Type::Dimension of a single type variable stands for that variable (the code treats
   `Dimension([T^1])` and `TVar(T)` alike: see the match arms of try_satisfy and Type::apply) *)
Fixpoint tden (th : valuation) (t : ty) : option sty :=
  match t with
  | TVar v => Some (th v)
  | TPar s => Some (th (VNamed s))
  | TDim d => match single d with
              | Some v => Some (th v)
              | None => option_map SDim (dden th d)
              end
  | TBool => Some SBool
  | TString => Some SString
  | TDateTime => Some SDateTime
  | TList e => option_map SList (tden th e)
  end.

(* ------------------------------------------------------------------ constraints *)
Definition sat (th : valuation) (c : constr) : Prop :=
  match c with
  | CEq a b => exists x y, tden th a = Some x /\ tden th b = Some y /\ steq x y
  | CIsD t => exists d, tden th t = Some (SDim d)
  | CScalar d => exists x, dden th d = Some x /\ deq x dzero
  end.

(* the valuation is well-sorted for the constraint: all its types have a meaning *)
Definition defined (th : valuation) (c : constr) : Prop :=
  match c with
  | CEq a b => (exists x, tden th a = Some x) /\ (exists y, tden th b = Some y)
  | CIsD t => exists x, tden th t = Some x
  | CScalar d => exists x, dden th d = Some x
  end.

(* the valuation is an instance of the substitution: every binding x := t holds in it *)
Definition respects (th : valuation) (s : subst) : Prop :=
  forall x t, In (x, t) s -> exists a, tden th t = Some a /\ steq a (th x).

(* ------------------------------------------------------------------ declarative dimensional analysis *)
(* semantic environment: the possible meanings of a value identifier, and the possible
   (argument meanings, result meaning) of a function — a generic function has one for every
   instantiation of its type parameters *)
Record senv := mkSenv {
  se_val : string -> sty -> Prop;
  se_fun : string -> list sty -> sty -> Prop }.

Definition sscalar : sty := SDim dzero.

Inductive has_ty (G : senv) : expr -> sty -> Prop :=
| HConv e a b : has_ty G e a -> steq a b -> has_ty G e b
| HScalar q : q <> Qc0 -> has_ty G (EScalar q) sscalar
| HZero d : has_ty G (EScalar Qc0) (SDim d)             (* 0 has every dimension *)
| HIdent x a : se_val G x a -> has_ty G (EIdent x) a
| HUnit x a : se_val G x a -> has_ty G (EUnit x) a
| HNeg e d : has_ty G e (SDim d) -> has_ty G (EUn UNeg e) (SDim d)
| HFact e : has_ty G e sscalar -> has_ty G (EUn UFact e) sscalar
| HNot e : has_ty G e SBool -> has_ty G (EUn UNot e) SBool
| HAdd o a b d : (o = OAdd \/ o = OSub \/ o = OConv) ->
    has_ty G a (SDim d) -> has_ty G b (SDim d) -> has_ty G (EBin o a b) (SDim d)
| HMul a b d1 d2 : has_ty G a (SDim d1) -> has_ty G b (SDim d2) ->
    has_ty G (EBin OMul a b) (SDim (dadd d1 d2))
| HDiv a b d1 d2 : has_ty G a (SDim d1) -> has_ty G b (SDim d2) ->
    has_ty G (EBin ODiv a b) (SDim (dadd d1 (dscale (- Qc1)%Qc d2)))
| HPowScalar a b : has_ty G a sscalar -> has_ty G b sscalar -> has_ty G (EBin OPow a b) sscalar
| HPowConst a b d q d2 : has_ty G a (SDim d) -> has_ty G b (SDim d2) -> const_eval b = Ok q ->
    has_ty G (EBin OPow a b) (SDim (dscale q d))
| HCmp o a b d : (o = OLt \/ o = OGt \/ o = OLe \/ o = OGe \/ o = OEq \/ o = ONe) ->
    has_ty G a (SDim d) -> has_ty G b (SDim d) -> has_ty G (EBin o a b) SBool
| HEqAny o a b t : (o = OEq \/ o = ONe) ->
    has_ty G a t -> has_ty G b t -> has_ty G (EBin o a b) SBool
| HLogic o a b : (o = OAnd \/ o = OOr) ->
    has_ty G a SBool -> has_ty G b SBool -> has_ty G (EBin o a b) SBool
| HCall f args ats r : se_fun G f ats r -> Forall2 (has_ty G) args ats ->
    has_ty G (ECall f args) r
| HBool b : has_ty G (EBool b) SBool
| HStr : has_ty G EStr SString
| HIf c t e a : has_ty G c SBool -> has_ty G t a -> has_ty G e a -> has_ty G (EIf c t e) a
| HListNil a : has_ty G (EList []) (SList a)
| HList es a : es <> [] -> Forall (fun e => has_ty G e a) es -> has_ty G (EList es) (SList a).

(* ------------------------------------------------------------------ meaning of schemes *)
(* valuation with the quantified variables 0..n-1 bound to vs *)
Definition with_quant (th : valuation) (vs : list sty) : valuation :=
  fun v => match v with VQuant i => nth i vs (th v) | _ => th v end.

(* the ground instances of a type scheme *)
Definition scheme_inst (th : valuation) (sc : scheme) (a : sty) : Prop :=
  match sc with
  | Concrete t => exists b, tden th t = Some b /\ steq b a
  | Quantified n t bs =>
      exists vs, length vs = n /\
        (forall b, In b bs -> exists d, tden (with_quant th vs) b = Some (SDim d)) /\
        exists b, tden (with_quant th vs) t = Some b /\ steq b a
  end.

Definition fscheme_inst (th : valuation) (fs : fscheme) (args : list sty) (r : sty) : Prop :=
  match fs with
  | FConcrete ps rt =>
      Forall2 (fun p a => exists b, tden th p = Some b /\ steq b a) ps args /\
      exists b, tden th rt = Some b /\ steq b r
  | FQuantified n ps rt bs =>
      exists vs, length vs = n /\
        (forall b, In b bs -> exists d, tden (with_quant th vs) b = Some (SDim d)) /\
        Forall2 (fun p a => exists b, tden (with_quant th vs) p = Some b /\ steq b a) ps args /\
        exists b, tden (with_quant th vs) rt = Some b /\ steq b r
  end.

Definition sem_env (th : valuation) (g : env) : senv :=
  mkSenv (fun x a => exists sc, env_find g x = Some (IdNormal sc) /\ scheme_inst th sc a)
         (fun f args r => exists fs, env_find g f = Some (IdFunction fs) /\ fscheme_inst th fs args r).
