(* Dim/Infer.v — executable model of numbat's type checker front end.

   Mirrors numbat/src/typechecker/mod.rs (elaborate_expression, _elaborate_inner,
   elaborate_define_variable, elaborate_statement, check_statement, check,
   proper_function_call, type_from_annotation), typechecker/const_evaluation.rs
   (evaluate_const_expr), typechecker/type_scheme.rs (instantiate, generalize),
   typechecker/qualified_type.rs (quantify), typechecker/environment.rs, dimension.rs
   (DimensionRegistry::get_base_representation, add_base_dimension, add_derived_dimension),
   typed_ast.rs (exponents_for, the LCM normalisation of check_statement).

   Outside the model (reported as EUnsupported, never silently accepted): function values and
   callable expressions (Type::Fn), structs, strings with interpolation, DateTime arithmetic,
   typed holes, decorators/aliases, foreign functions.  No proofs in this file. *)
From Coq Require Import String List ZArith QArith Qcanon Bool Ascii.
From NV Require Import Base.Show Dim.Model.
Import ListNotations.
Open Scope string_scope.
Open Scope list_scope.

(* ------------------------------------------------------------------ syntax *)
Inductive binop := OAdd | OSub | OMul | ODiv | OPow | OConv
                 | OLt | OGt | OLe | OGe | OEq | ONe | OAnd | OOr.
Inductive unop := UNeg | UFact | UNot.

Inductive expr :=
| EScalar (q : Qc)                 (* numeric literal, exact value *)
| EIdent (x : string)              (* variable / constant / parameter *)
| EUnit (x : string)               (* unit identifier (prefix stripped) *)
| EUn (o : unop) (e : expr)
| EBin (o : binop) (a b : expr)
| ECall (f : string) (args : list expr)
| EBool (b : bool)
| EStr                             (* string literal without interpolation *)
| EIf (c t e : expr)
| EList (es : list expr).

Inductive dexpr := DUnity | DName (s : string) | DMul (a b : dexpr) | DDiv (a b : dexpr)
                 | DPow (a : dexpr) (q : Qc).
Inductive annot := ADim (d : dexpr) | ABool | AString | ADateTime | AList (a : annot).

Inductive proc := PPrint | PAssert | PAssertEq | PType.

Inductive stmt :=
| SExpr (e : expr)
| SLet (x : string) (a : option annot) (e : expr)
| SFn (f : string) (tparams : list (string * bool)) (params : list (string * option annot))
      (ret : option annot) (locals : list (string * option annot * expr)) (body : expr)
| SDimBase (n : string)
| SDimDerived (n : string) (ds : list dexpr)
| SUnitBase (n : string) (a : option dexpr) (autodim : string)
| SUnitDerived (n : string) (a : option annot) (e : expr)
| SProc (p : proc) (args : list expr)
| SForeign (f : string) (tparams : list (string * bool)) (params : list (string * annot)) (ret : annot).
(* SForeign: a function declaration without body (foreign function); all types are annotated *)

(* ------------------------------------------------------------------ schemes, environment *)
(* TypeScheme for values; function types are kept apart because Type::Fn is not in `ty` *)
Inductive scheme := Concrete (t : ty) | Quantified (n : nat) (t : ty) (bounds : list ty).
Inductive fscheme := FConcrete (ps : list ty) (r : ty)
                   | FQuantified (n : nat) (ps : list ty) (r : ty) (bounds : list ty).

Inductive entry := IdNormal (s : scheme) | IdFunction (fs : fscheme).
Definition env := list (string * entry).

Fixpoint env_find (g : env) (x : string) : option entry :=
  match g with
  | [] => None
  | (y, e) :: r => if String.eqb x y then Some e else env_find r x
  end.

(* DimensionRegistry: base entries, derived entries (base representation as FBase factors),
   introduced_type_parameters with their Dim bound *)
Record registry := mkReg {
  reg_base : list string;
  reg_derived : list (string * dtype);
  reg_tparams : list (string * bool) }.

Definition reg_contains (r : registry) (n : string) : bool :=
  existsb (String.eqb n) (reg_base r) || existsb (fun p => String.eqb n (fst p)) (reg_derived r).

Fixpoint assoc {A} (l : list (string * A)) (n : string) : option A :=
  match l with [] => None | (k, v) :: r => if String.eqb n k then Some v else assoc r n end.

Definition reg_lookup (r : registry) (n : string) : res dtype :=
  if existsb (String.eqb n) (reg_base r) then Ok (base_dimension n)
  else match assoc (reg_derived r) n with
       | Some d => Ok d
       | None => Err EDimensionRegistryError
       end.

Fixpoint base_repr (r : registry) (d : dexpr) : res dtype :=
  match d with
  | DUnity => Ok dscalar
  | DName n =>
      if existsb (fun p => String.eqb n (fst p)) (reg_tparams r) then Ok (base_dimension n)
      else reg_lookup r n
  | DMul a b => do x <- base_repr r a; do y <- base_repr r b; Ok (dmultiply x y)
  | DDiv a b => do x <- base_repr r a; do y <- base_repr r b; Ok (ddivide x y)
  | DPow a q => do x <- base_repr r a; Ok (dpower x q)
  end.

(* type_from_annotation *)
Fixpoint type_from_annotation (r : registry) (a : annot) : res ty :=
  match a with
  | ADim d =>
      do b <- base_repr r d;
      Ok (TDim (canon (map (fun x =>
            match fst x with
            | FBase n => if existsb (fun p => String.eqb n (fst p)) (reg_tparams r)
                         then (FPar n, snd x) else x
            | _ => x
            end) b)))
  | ABool => Ok TBool
  | AString => Ok TString
  | ADateTime => Ok TDateTime
  | AList e => do t <- type_from_annotation r e; Ok (TList t)
  end.

(* ------------------------------------------------------------------ checker state *)
Record tc := mkTc {
  tc_env : env;
  tc_reg : registry;
  tc_next : N;                    (* NameGenerator::counter *)
  tc_cs : list constr }.

Definition fresh (s : tc) : var * tc :=
  (VNamed ("T" ++ show_N (tc_next s)),
   mkTc (tc_env s) (tc_reg s) (N.succ (tc_next s)) (tc_cs s)).

Fixpoint fresh_n (n : nat) (s : tc) : list var * tc :=
  match n with
  | O => ([], s)
  | S k => let (v, s1) := fresh s in let (vs, s2) := fresh_n k s1 in (v :: vs, s2)
  end.

Definition add_c (s : tc) (c : constr) : tc * trivial :=
  let (cs, r) := cs_add (tc_cs s) c in
  (mkTc (tc_env s) (tc_reg s) (tc_next s) cs, r).
Definition add_ok (s : tc) (c : constr) : tc := fst (add_c s c).
Definition is_violated (r : trivial) : bool := match r with Violated => true | _ => false end.

Definition with_env (s : tc) (g : env) : tc := mkTc g (tc_reg s) (tc_next s) (tc_cs s).
Definition with_reg (s : tc) (r : registry) : tc := mkTc (tc_env s) r (tc_next s) (tc_cs s).
Definition env_add (s : tc) (x : string) (e : entry) : tc := with_env s ((x, e) :: tc_env s).

(* enforce_dtype *)
Definition enforce_dtype (s : tc) (t : ty) : res tc :=
  let (s1, r) := add_c s (CIsD t) in
  if is_violated r then Err EExpectedDimensionType else Ok s1.

Definition add_bounds (s : tc) (bs : list ty) : tc :=
  fold_left (fun acc b => add_ok acc (CIsD b)) bs s.

(* ------------------------------------------------------------------ const evaluation *)
Inductive cval := CV (q : Qc) | CE (e : err).

Fixpoint const_eval (e : expr) : res Qc :=
  match e with
  | EScalar q => Ok q
  | EUn UNeg a => do x <- const_eval a; Ok (- x)%Qc
  | EUn _ _ => Err EUnsupportedConstEvalExpression
  | EBin o a b =>
      do x <- const_eval a;
      do y <- const_eval b;
      match o with
      | OAdd => Ok (x + y)%Qc
      | OSub => Ok (x - y)%Qc
      | OMul => Ok (x * y)%Qc
      | ODiv => if qc_eqb y Qc0 then Err EDivisionByZeroInConstEvalExpression else Ok (x / y)%Qc
      | OPow =>
          if qc_is_int y then
            match Qnum (this y) with
            | Zneg _ => Err EOverflowInConstExpr
            | z => Ok (Qcpower x (Z.to_nat z))
            end
          else Err EUnsupportedConstEvalExpression
      | _ => Err EUnsupportedConstEvalExpression
      end
  | _ => Err EUnsupportedConstEvalExpression
  end.

(* ------------------------------------------------------------------ elaboration *)
(* result of elaborating an expression: its type and the types of all its nodes
   (what Statement::for_all_type_schemes visits; used by the LCM normalisation) *)
Definition elab := (ty * list ty * tc)%type.

Definition dtype_of (t : ty) : res dtype :=
  match t with TDim d => Ok d | _ => Err EExpectedDimensionType end.

(* get_type_and_assert_equal_dtypes *)
Definition assert_equal_dtypes (s : tc) (lt rt : ty) : res (ty * tc) :=
  let (s1, r) := add_c s (CEq lt rt) in
  if is_violated r then
    do _ <- dtype_of lt; do _ <- dtype_of rt; Err EIncompatibleDimensions
  else
    do s2 <- enforce_dtype s1 lt;
    do s3 <- enforce_dtype s2 rt;
    Ok (lt, s3).

Definition instantiate_scheme (s : tc) (sc : scheme) : ty * tc :=
  match sc with
  | Concrete t => (t, s)
  | Quantified n t bs =>
      let (vs, s1) := fresh_n n s in
      (instantiate vs t, add_bounds s1 (map (instantiate vs) bs))
  end.

Definition elab_binop_core (o : binop) (a b : expr) (lt rt : ty) (s : tc) : res (ty * tc) :=
  match o with
  | OAdd | OSub | OConv => assert_equal_dtypes s lt rt
  | OMul | ODiv =>
      if is_closed lt && is_closed rt then
        do dl <- dtype_of lt;
        do dr <- dtype_of rt;
        Ok (TDim (match o with OMul => dmultiply dl dr | _ => ddivide dl dr end), s)
      else
        do s1 <- enforce_dtype s lt;
        do s2 <- enforce_dtype s1 rt;
        let (tv_res, s3) := fresh s2 in
        let s4 := add_ok s3 (CIsD (TVar tv_res)) in
        let (tv_l, s5) := fresh s4 in
        let (tv_r, s6) := fresh s5 in
        let s7 := add_ok s6 (CEq lt (TVar tv_l)) in
        let s8 := add_ok s7 (CEq rt (TVar tv_r)) in
        let s9 := add_ok s8 (CIsD (TVar tv_l)) in
        let s10 := add_ok s9 (CIsD (TVar tv_r)) in
        let dl := from_var tv_l in
        let dr := from_var tv_r in
        let dres := from_var tv_res in
        let c := match o with
                 | OMul => CScalar (dmultiply (dmultiply dl dr) (dinverse dres))
                 | _ => CScalar (dmultiply (ddivide dl dr) (dinverse dres))
                 end in
        Ok (TVar tv_res, add_ok s10 c)
  | OPow =>
      do s1 <- enforce_dtype s lt;
      do s2 <- enforce_dtype s1 rt;
      match lt with
      | TDim bd =>
          if d_is_scalar bd then
            let (s3, r) := add_c s2 (CEq rt tscalar) in
            if is_violated r then Err ENonScalarExponent else Ok (TDim bd, s3)
          else
            do q <- const_eval b;
            Ok (TDim (dpower bd q), s2)
      | _ =>
          match const_eval b with
          | Ok q =>
              let (tv_res, s3) := fresh s2 in
              let s4 := add_ok s3 (CIsD (TVar tv_res)) in
              let (tv_base, s5) := fresh s4 in
              let s6 := add_ok s5 (CIsD (TVar tv_base)) in
              let s7 := add_ok s6 (CEq (TVar tv_base) lt) in
              let c := CScalar (dmultiply (from_var tv_res) (dpower (from_var tv_base) (- q)%Qc)) in
              Ok (TVar tv_res, add_ok s7 c)
          | Err _ => Err EExponentiationNeedsTypeAnnotation
          end
      end
  | OLt | OGt | OLe | OGe =>
      do r <- assert_equal_dtypes s lt rt; Ok (TBool, snd r)
  | OEq | ONe =>
      if is_closed lt && is_closed rt then
        if is_dtype lt && is_dtype rt then
          do r <- assert_equal_dtypes s lt rt; Ok (TBool, snd r)
        else if negb (ty_eqb lt rt) then Err EIncompatibleTypesInComparison
        else Ok (TBool, s)
      else Ok (TBool, add_ok s (CEq lt rt))
  | OAnd | OOr =>
      let (s1, r1) := add_c s (CEq lt TBool) in
      if is_violated r1 then Err EExpectedBool else
      let (s2, r2) := add_c s1 (CEq rt TBool) in
      if is_violated r2 then Err EExpectedBool else Ok (TBool, s2)
  end.

(* DateTime operands take a separate path in the code (outside the model) *)
Definition elab_binop (o : binop) (a b : expr) (lt rt : ty) (s : tc) : res (ty * tc) :=
  match lt with
  | TDateTime => Err EUnsupported
  | _ => elab_binop_core o a b lt rt s
  end.

(* proper_function_call: parameter constraints in order *)
Fixpoint call_constraints (s : tc) (ps args : list ty) : res tc :=
  match ps, args with
  | p :: pr, a :: ar =>
      let (s1, r) := add_c s (CEq p a) in
      if is_violated r then
        match p, a with
        | TDim _, TDim _ => Err EIncompatibleDimensions
        | _, _ => Err EIncompatibleTypesInFunctionCall
        end
      else call_constraints s1 pr ar
  | _, _ => Ok s
  end.

Fixpoint elab_expr (e : expr) (s : tc) {struct e} : res elab :=
  match e with
  | EScalar q =>
      if qc_eqb q Qc0 then
        let (v, s1) := fresh s in
        let s2 := add_ok s1 (CIsD (TVar v)) in
        Ok (TVar v, [TVar v], s2)
      else Ok (tscalar, [tscalar], s)
  | EIdent x =>
      match env_find (tc_env s) x with
      | None => Err EUnknownIdentifier
      | Some (IdFunction _) => Err EUnsupported
      | Some (IdNormal sc) =>
          let (t, s1) := instantiate_scheme s sc in Ok (t, [t], s1)
      end
  | EUnit x =>
      match env_find (tc_env s) x with
      | None => Err EUnknownIdentifier
      | Some (IdFunction _) => Err EUnsupported
      | Some (IdNormal (Concrete _)) => Err EUnsupported   (* unreachable!() in the code *)
      | Some (IdNormal sc) =>
          let (t, s1) := instantiate_scheme s sc in Ok (t, [t], s1)
      end
  | EUn o a =>
      do r <- elab_expr a s;
      let '(t, ns, s1) := r in
      match o with
      | UFact =>
          let (s2, tr) := add_c s1 (CEq t tscalar) in
          if is_violated tr then Err ENonScalarFactorialArgument else Ok (t, ns ++ [t], s2)
      | UNeg => do s2 <- enforce_dtype s1 t; Ok (t, ns ++ [t], s2)
      | UNot =>
          let (s2, tr) := add_c s1 (CEq t TBool) in
          if is_violated tr then Err EExpectedBool else Ok (t, ns ++ [t], s2)
      end
  | EBin o a b =>
      do ra <- elab_expr a s;
      let '(lt, na, s1) := ra in
      do rb <- elab_expr b s1;
      let '(rt, nb, s2) := rb in
      do r <- elab_binop o a b lt rt s2;
      Ok (fst r, na ++ nb ++ [fst r], snd r)
  | ECall f args =>
      do ra <- (fix go (l : list expr) (s : tc) : res (list ty * list ty * tc) :=
                  match l with
                  | [] => Ok ([], [], s)
                  | x :: r =>
                      do rx <- elab_expr x s;
                      let '(t, n, s1) := rx in
                      do rr <- go r s1;
                      let '(ts, ns, s2) := rr in
                      Ok (t :: ts, n ++ ns, s2)
                  end) args s;
      let '(ats, ns, s1) := ra in
      match env_find (tc_env s1) f with
      | None => Err EUnknownIdentifier
      | Some (IdNormal _) => Err EUnsupported
      | Some (IdFunction fs) =>
          let '(ps, rt, s2) :=
            match fs with
            | FConcrete ps r => (ps, r, s1)
            | FQuantified n ps r bs =>
                let (vs, s') := fresh_n n s1 in
                (map (instantiate vs) ps, instantiate vs r, add_bounds s' (map (instantiate vs) bs))
            end in
          if negb (Nat.eqb (length ps) (length ats)) then Err EWrongArity else
          do s3 <- call_constraints s2 ps ats;
          Ok (rt, ns ++ [rt], s3)
      end
  | EBool _ => Ok (TBool, [], s)
  | EStr => Ok (TString, [], s)
  | EIf c t e =>
      do rc <- elab_expr c s;
      let '(ct, nc, s1) := rc in
      let (s2, tr) := add_c s1 (CEq ct TBool) in
      if is_violated tr then Err EExpectedBool else
      do rt <- elab_expr t s2;
      let '(thent, nt, s3) := rt in
      do re <- elab_expr e s3;
      let '(et, ne, s4) := re in
      let (s5, tr2) := add_c s4 (CEq thent et) in
      if is_violated tr2 then Err EIncompatibleTypesInCondition else
      Ok (thent, nc ++ nt ++ ne, s5)
  | EList es =>
      do ra <- (fix go (l : list expr) (s : tc) : res (list ty * list ty * tc) :=
                  match l with
                  | [] => Ok ([], [], s)
                  | x :: r =>
                      do rx <- elab_expr x s;
                      let '(t, n, s1) := rx in
                      do rr <- go r s1;
                      let '(ts, ns, s2) := rr in
                      Ok (t :: ts, n ++ ns, s2)
                  end) es s;
      let '(ets, ns, s1) := ra in
      match ets with
      | [] => let (v, s2) := fresh s1 in Ok (TList (TVar v), ns ++ [TVar v], s2)
      | t0 :: rest =>
          let '(rty, s2) :=
            if is_closed t0 then (t0, s1)
            else let (v, s') := fresh s1 in (TVar v, add_ok s' (CEq t0 (TVar v))) in
          do s3 <- (fix chk (l : list ty) (s : tc) : res tc :=
                      match l with
                      | [] => Ok s
                      | t :: r =>
                          let (s', tr) := add_c s (CEq rty t) in
                          if is_violated tr then Err EIncompatibleTypesInList else chk r s'
                      end) rest s2;
          Ok (TList rty, ns ++ [rty], s3)
      end
  end.

(* _elaborate_inner *)
Definition elaborate_inner (e : expr) (a : option annot) (s : tc) : res elab :=
  do r <- elab_expr e s;
  let '(td, ns, s1) := r in
  match a with
  | None => Ok (td, ns, s1)
  | Some an =>
      do ta <- type_from_annotation (tc_reg s1) an;
      match td, ta with
      | TDim dd, TDim ds =>
          if is_closed td && is_closed ta then
            if dtype_eqb dd ds then Ok (td, ns, s1) else Err EIncompatibleDimensions
          else
            let (s2, tr) := add_c s1 (CEq td ta) in
            if is_violated tr then Err EIncompatibleTypesInAnnotation else Ok (td, ns, s2)
      | _, _ =>
          let (s2, tr) := add_c s1 (CEq td ta) in
          if is_violated tr then Err EIncompatibleTypesInAnnotation else Ok (td, ns, s2)
      end
  end.

(* what a checked statement carries: the types to be substituted / generalised *)
Inductive sres :=
| RExpr (t : ty)
| RLet (x : string) (t : ty)
| RFn (f : string) (ps : list ty) (r : ty) (locals : list (string * ty))
| RDim
| RUnit (x : string) (t : ty) (derived : bool)
| RProc.

Definition LAST_RESULT : list string := ["ans"; "_"].

Fixpoint elab_locals (ls : list (string * option annot * expr)) (s : tc)
  : res (list (string * ty) * list ty * tc) :=
  match ls with
  | [] => Ok ([], [], s)
  | (x, a, e) :: r =>
      do re <- elaborate_inner e a s;
      let '(t, n, s1) := re in
      let s2 := env_add s1 x (IdNormal (Concrete t)) in
      do rr <- elab_locals r s2;
      let '(xs, ns, s3) := rr in
      Ok ((x, t) :: xs, n ++ ns, s3)
  end.

Fixpoint elab_params (ps : list (string * option annot)) (s : tc) : res (list ty * tc) :=
  match ps with
  | [] => Ok ([], s)
  | (x, a) :: r =>
      do ts1 <- match a with
                | Some an => do t <- type_from_annotation (tc_reg s) an; Ok (t, s)
                | None => let (v, s1) := fresh s in Ok (TVar v, s1)
                end;
      let '(t, s1) := ts1 in
      let s2 := env_add s1 x (IdNormal (Quantified 0 t [])) in
      do rr <- elab_params r s2;
      Ok (t :: fst rr, snd rr)
  end.

Fixpoint intro_tparams (tps : list (string * bool)) (s : tc) (seen : list string) : res tc :=
  match tps with
  | [] => Ok s
  | (n, b) :: r =>
      if reg_contains (tc_reg s) n || existsb (String.eqb n) seen then Err ETypeParameterNameClash else
      let rg := tc_reg s in
      let s1 := with_reg s (mkReg (reg_base rg) (reg_derived rg) (reg_tparams rg ++ [(n, b)])) in
      let s2 := if b then add_ok s1 (CIsD (TPar n)) else s1 in
      intro_tparams r s2 (n :: seen)
  end.

Fixpoint elab_args (l : list expr) (s : tc) : res (list ty * list ty * tc) :=
  match l with
  | [] => Ok ([], [], s)
  | x :: r =>
      do rx <- elab_expr x s;
      let '(t, n, s1) := rx in
      do rr <- elab_args r s1;
      let '(ts, ns, s2) := rr in
      Ok (t :: ts, n ++ ns, s2)
  end.

Definition elab_stmt (st : stmt) (s : tc) : res (sres * list ty * tc) :=
  match st with
  | SExpr e =>
      do r <- elab_expr e s;
      let '(t, ns, s1) := r in
      let s2 := fold_left (fun acc x => env_add acc x (IdNormal (Concrete t))) LAST_RESULT s1 in
      Ok (RExpr t, ns, s2)
  | SLet x a e =>
      do r <- elaborate_inner e a s;
      let '(t, ns, s1) := r in
      Ok (RLet x t, ns, env_add s1 x (IdNormal (Concrete t)))
  | SFn f tps ps ret locals body =>
      let genv := tc_env s in
      do s1 <- intro_tparams tps s [];
      do rp <- elab_params ps s1;
      let '(pts, s2) := rp in
      do rr <- match ret with
               | Some an => do t <- type_from_annotation (tc_reg s2) an; Ok (t, s2)
               | None => let (v, s') := fresh s2 in Ok (TVar v, s')
               end;
      let '(rty, s3) := rr in
      let s4 := env_add s3 f (IdFunction (FConcrete pts rty)) in
      do rl <- elab_locals locals s4;
      let '(lts, nl, s5) := rl in
      do rb <- elab_expr body s5;
      let '(bt, nb, s6) := rb in
      let (s7, tr) := add_c s6 (CEq bt rty) in
      if is_violated tr && (match ret with Some _ => true | None => false end) then
        match bt, rty with
        | TDim _, TDim _ => Err EIncompatibleDimensions
        | _, _ => Err EIncompatibleTypesInAnnotation
        end
      else
      let s8 := add_ok s7 (CEq bt rty) in
      let s9 := with_env s8 ((f, IdFunction (FConcrete pts rty)) :: genv) in
      Ok (RFn f pts rty lts, nl ++ nb, s9)
  | SForeign f tps ps ret =>
      (* body.is_none(): parameter and return types come from the annotations only *)
      let genv := tc_env s in
      do s1 <- intro_tparams tps s [];
      do rp <- elab_params (map (fun p => (fst p, Some (snd p))) ps) s1;
      let '(pts, s2) := rp in
      do rty <- type_from_annotation (tc_reg s2) ret;
      let s3 := add_ok s2 (CEq rty rty) in
      let s4 := with_env s3 ((f, IdFunction (FConcrete pts rty)) :: genv) in
      Ok (RFn f pts rty [], [], s4)
  | SDimBase n =>
      if reg_contains (tc_reg s) n then Err ENameResolutionError else
      let rg := tc_reg s in
      Ok (RDim, [], with_reg s (mkReg (reg_base rg ++ [n]) (reg_derived rg) (reg_tparams rg)))
  | SDimDerived n ds =>
      if reg_contains (tc_reg s) n then Err ENameResolutionError else
      match ds with
      | [] => Err EUnsupported
      | d0 :: alts =>
          let rg := tc_reg s in
          do b0 <- base_repr rg d0;
          let rg1 := mkReg (reg_base rg) ((n, b0) :: reg_derived rg) (reg_tparams rg) in
          do _ <- (fix chk (l : list dexpr) : res unit :=
                     match l with
                     | [] => Ok tt
                     | d :: r => do b <- base_repr rg1 d;
                                 if dtype_eqb b b0 then chk r
                                 else Err EIncompatibleAlternativeDimensionExpression
                     end) alts;
          Ok (RDim, [], with_reg s rg1)
      end
  | SUnitBase n a autodim =>
      match a with
      | Some d =>
          do b <- base_repr (tc_reg s) d;
          if d_is_scalar b then Err ENoDimensionlessBaseUnit else
          Ok (RUnit n (TDim b) false, [], env_add s n (IdNormal (Concrete (TDim b))))
      | None =>
          if reg_contains (tc_reg s) autodim then Err EDimensionRegistryError else
          let rg := tc_reg s in
          let s1 := with_reg s (mkReg (reg_base rg ++ [autodim]) (reg_derived rg) (reg_tparams rg)) in
          let t := TDim (base_dimension autodim) in
          Ok (RUnit n t false, [], env_add s1 n (IdNormal (Concrete t)))
      end
  | SUnitDerived n a e =>
      do r <- elaborate_inner e a s;
      let '(t, ns, s1) := r in
      Ok (RUnit n t true, ns, env_add s1 n (IdNormal (Concrete t)))
  | SProc p args =>
      match p with
      | PType =>
          if negb (Nat.eqb (length args) 1) then Err EWrongArity else
          do r <- elab_args args s; let '(_, ns, s1) := r in Ok (RProc, ns, s1)
      | PPrint =>
          if negb (Nat.eqb (length args) 1) then Err EWrongArity else
          do r <- elab_args args s; let '(_, ns, s1) := r in Ok (RProc, ns, s1)
      | PAssert =>
          if negb (Nat.eqb (length args) 1) then Err EWrongArity else
          do r <- elab_args args s;
          let '(ts, ns, s1) := r in
          let (s2, tr) := add_c s1 (CEq (hd TBool ts) TBool) in
          if is_violated tr then Err EIncompatibleTypeInAssert else Ok (RProc, ns, s2)
      | PAssertEq =>
          if negb (Nat.eqb (length args) 2 || Nat.eqb (length args) 3) then Err EWrongArity else
          do r <- elab_args args s;
          let '(ts, ns, s1) := r in
          let needs := Nat.eqb (length args) 3 in
          let t0 := hd TBool ts in
          do s2 <- (if needs then enforce_dtype s1 t0 else Ok s1);
          do s3 <- (fix go (l : list ty) (s : tc) : res tc :=
                      match l with
                      | [] => Ok s
                      | t :: r =>
                          do s' <- (if needs then enforce_dtype s t else Ok s);
                          let (s'', tr) := add_c s' (CEq t0 t) in
                          if is_violated tr then Err EIncompatibleTypesInAssertEq else go r s''
                      end) (tl ts) s2;
          Ok (RProc, ns, s3)
      end
  end.

(* ------------------------------------------------------------------ after solving *)
Definition sapply (s : subst) (sc : scheme) : res scheme :=
  match sc with
  | Concrete t => do t' <- tapply s t; Ok (Concrete t')
  | Quantified n t bs =>
      do t' <- tapply s t; do bs' <- mapM (tapply s) bs; Ok (Quantified n t' bs')
  end.
Definition fapply (s : subst) (fs : fscheme) : res fscheme :=
  match fs with
  | FConcrete ps r => do ps' <- mapM (tapply s) ps; do r' <- tapply s r; Ok (FConcrete ps' r')
  | FQuantified n ps r bs =>
      do ps' <- mapM (tapply s) ps; do r' <- tapply s r; do bs' <- mapM (tapply s) bs;
      Ok (FQuantified n ps' r' bs')
  end.
Definition eapply (s : subst) (g : env) : res env :=
  mapM (fun xe => match snd xe with
                  | IdNormal sc => do sc' <- sapply s sc; Ok (fst xe, IdNormal sc')
                  | IdFunction fs => do fs' <- fapply s fs; Ok (fst xe, IdFunction fs')
                  end) g.

Definition rapply (s : subst) (r : sres) : res sres :=
  match r with
  | RExpr t => do t' <- tapply s t; Ok (RExpr t')
  | RLet x t => do t' <- tapply s t; Ok (RLet x t')
  | RFn f ps rt ls =>
      do ps' <- mapM (tapply s) ps; do rt' <- tapply s rt;
      do ls' <- mapM (fun xt => do t' <- tapply s (snd xt); Ok (fst xt, t')) ls;
      Ok (RFn f ps' rt' ls')
  | RUnit x t d => do t' <- tapply s t; Ok (RUnit x t' d)
  | RDim => Ok RDim
  | RProc => Ok RProc
  end.

(* Type::type_variables for a function type: return type first, then parameters, sort, dedup *)
Definition fn_vars (ps : list ty) (r : ty) : list var :=
  vsort (ty_vars true r ++ flat_map (ty_vars true) ps).

(* QualifiedType::quantify: v_i := Quantified(i), one after the other *)
Fixpoint quantify_ty (vs : list var) (i : nat) (t : ty) : res ty :=
  match vs with
  | [] => Ok t
  | v :: r => do t' <- tapply [(v, TVar (VQuant i))] t; quantify_ty r (S i) t'
  end.

Definition bounds_for (dts : list var) (contains : var -> bool) : list ty :=
  map TVar (filter contains dts).

(* TypeScheme::generalize *)
Definition generalize (dts : list var) (sc : scheme) : res scheme :=
  match sc with
  | Concrete t =>
      let free := ty_vars true t in
      let bs := bounds_for dts (fun v => ty_contains t v true) in
      do t' <- quantify_ty free 0 t;
      do bs' <- mapM (quantify_ty free 0) bs;
      Ok (Quantified (length free) t' bs')
  | _ => Ok sc
  end.
(* generalize_with_leading for a function type: the declared type parameters `lead` of the
   statement are quantified first, in the declared order (whether or not they occur), then the
   remaining free variables in sorted order; bounds only for variables occurring in the type *)
Definition fgeneralize (lead : list var) (dts : list var) (fs : fscheme) : res fscheme :=
  match fs with
  | FConcrete ps r =>
      let occ := fn_vars ps r in
      let free := lead ++ filter (fun v => negb (existsb (var_eqb v) lead)) occ in
      let bs := bounds_for dts (fun v => existsb (var_eqb v) occ) in
      do ps' <- mapM (quantify_ty free 0) ps;
      do r' <- quantify_ty free 0 r;
      do bs' <- mapM (quantify_ty free 0) bs;
      Ok (FQuantified (length free) ps' r' bs')
  | _ => Ok fs
  end.
Definition egeneralize (lead : list var) (dts : list var) (g : env) : res env :=
  mapM (fun xe => match snd xe with
                  | IdNormal sc => do sc' <- generalize dts sc; Ok (fst xe, IdNormal sc')
                  | IdFunction fs => do fs' <- fgeneralize lead dts fs; Ok (fst xe, IdFunction fs')
                  end) g.

(* exponents_for + lcm of the denominators *)
Definition exponents_for (tv : var) (nodes : list ty) : list Qc :=
  flat_map (fun t => match t with
                     | TDim d => flat_map (fun x => if factor_eqb (fst x) (FVar tv) then [snd x] else []) d
                     | _ => []
                     end) nodes.
Definition lcm_denoms (es : list Qc) : Z :=
  fold_left (fun acc e => Z.lcm acc (Zpos (Qden (this e)))) es 1%Z.

(* what the checker reports for a statement *)
Inductive sout :=
| OExpr (sc : scheme)
| OLet (x : string) (sc : scheme)
| OFn (f : string) (fs : fscheme)
| OUnit (x : string) (sc : scheme)
| ODimDef
| OProc.

(* all types of the statement node itself (besides expression nodes) *)
Definition sres_types (r : sres) : list ty :=
  match r with
  | RExpr _ => []
  | RLet _ t => [t]
  | RFn _ _ _ ls => map snd ls
  | RUnit _ t _ => [t]
  | _ => []
  end.

Fixpoint lcm_pass (dts : list var) (nodes : list ty) (r : sres) : res (list ty * sres) :=
  match dts with
  | [] => Ok (nodes, r)
  | tv :: rest =>
      let l := lcm_denoms (exponents_for tv (nodes ++ sres_types r)) in
      if Z.eqb l 1 then lcm_pass rest nodes r else
      let s := [(tv, TDim (dpower (from_var tv) (qc l)))] in
      do nodes' <- mapM (tapply s) nodes;
      do r' <- rapply s r;
      lcm_pass rest nodes' r'
  end.

Definition missing_dim_bound (rg : registry) (dts : list var) : bool :=
  existsb (fun p => negb (snd p) && existsb (var_eqb (VNamed (fst p))) dts) (reg_tparams rg).

(* check_statement *)
Definition check_statement (st : stmt) (s0 : tc) : res (sout * tc) :=
  let rg0 := tc_reg s0 in
  let s := mkTc (tc_env s0) (mkReg (reg_base rg0) (reg_derived rg0) []) (tc_next s0) [] in
  do r <- elab_stmt st s;
  let '(sr, nodes, s1) := r in
  do sol <- solve (tc_cs s1);
  let '(sigma, dts) := sol in
  match mapM (tapply sigma) nodes, rapply sigma sr, eapply sigma (tc_env s1) with
  | Ok nodes1, Ok sr1, Ok env1 =>
      if (match sr1 with RUnit _ t true => negb (is_closed t) | _ => false end)
      then Err EDerivedUnitDefinitionMustNotBeGeneric else
      if missing_dim_bound (tc_reg s1) dts then Err EMissingDimBound else
      match lcm_pass dts nodes1 sr1 with
      | Err _ => Err ESubstitutionError
      | Ok (_, sr2) =>
          let lead := map (fun p => VNamed (fst p)) (reg_tparams (tc_reg s1)) in
          do env2 <- egeneralize lead dts env1;
          let s2 := mkTc env2 (tc_reg s1) (tc_next s1) (tc_cs s1) in
          match sr2 with
          | RExpr t => do sc <- generalize dts (Concrete t); Ok (OExpr sc, s2)
          | RLet x t => do sc <- generalize dts (Concrete t); Ok (OLet x sc, s2)
          | RFn f ps rt _ => do fs <- fgeneralize lead dts (FConcrete ps rt); Ok (OFn f fs, s2)
          | RUnit x t _ => do sc <- generalize dts (Concrete t); Ok (OUnit x sc, s2)
          | RDim => Ok (ODimDef, s2)
          | RProc => Ok (OProc, s2)
          end
      end
  | _, _, _ => Err ESubstitutionError
  end.

(* TypeChecker::check : all statements of one input; the first error rejects the whole input
   (lib.rs restores the saved type checker, so nothing of a rejected input survives) *)
Fixpoint check (sts : list stmt) (s : tc) : res (list sout * tc) :=
  match sts with
  | [] => Ok ([], s)
  | st :: r =>
      do o <- check_statement st s;
      do rr <- check r (snd o);
      Ok (fst o :: fst rr, snd rr)
  end.

(* Context::interpret_with_settings, type-checking stage: the new checker state is kept only
   if every statement checks; the run stage is entered only then *)
Inductive outcome := Rejected (e : err) | Accepted (outs : list sout).

Definition interpret_check (sts : list stmt) (s : tc) : outcome * tc :=
  match check sts s with
  | Ok (outs, s') => (Accepted outs, s')
  | Err e => (Rejected e, s)
  end.

(* the same with the run stage made explicit: `run` (bytecode compilation + execution, which is
   where print statements act and values are defined) is entered only with the typed statements
   of a completely checked input *)
Definition interpret {R : Type} (run : list sout -> R) (sts : list stmt) (s : tc)
  : outcome * tc * option R :=
  match check sts s with
  | Ok (outs, s') => (Accepted outs, s', Some (run outs))
  | Err e => (Rejected e, s, None)
  end.
