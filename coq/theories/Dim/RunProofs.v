(* Dim/RunProofs.v — C01 (partial): per-operator agreement between the static closed-type rule of
   the checker (elab_binop on closed dimension types) and the run-time rule on unit dimensions. *)
From Coq Require Import String List ZArith QArith Qcanon Bool.
From NV Require Import Dim.Model Dim.Infer Dim.Sem Dim.Proofs Dim.Run.
Import ListNotations.

Lemma trivial_eq_closed d1 d2 :
  is_closed (TDim d1) = true -> is_closed (TDim d2) = true ->
  try_trivial_resolution (CEq (TDim d1) (TDim d2)) = if dtype_eqb d1 d2 then Satisfied else Violated.
Proof. intros H1 H2. unfold try_trivial_resolution. rewrite H1, H2. reflexivity. Qed.

Lemma trivial_isd_closed d : is_closed (TDim d) = true -> try_trivial_resolution (CIsD (TDim d)) = Satisfied.
Proof. intros H. unfold try_trivial_resolution. rewrite H. reflexivity. Qed.

Lemma enforce_closed s d : is_closed (TDim d) = true -> enforce_dtype s (TDim d) = Ok (mkTc (tc_env s) (tc_reg s) (tc_next s) (tc_cs s)).
Proof. intro H. unfold enforce_dtype, add_c, cs_add. rewrite (trivial_isd_closed _ H). reflexivity. Qed.

Lemma assert_closed s d1 d2 t s' :
  is_closed (TDim d1) = true -> is_closed (TDim d2) = true ->
  assert_equal_dtypes s (TDim d1) (TDim d2) = Ok (t, s') -> dtype_eqb d1 d2 = true /\ t = TDim d1.
Proof.
  intros H1 H2. unfold assert_equal_dtypes, add_c, cs_add. rewrite (trivial_eq_closed _ _ H1 H2).
  destruct (dtype_eqb d1 d2); simpl.
  - rewrite (enforce_closed _ _ H1). simpl. rewrite (enforce_closed _ _ H2). simpl.
    intro H. inversion H. auto.
  - discriminate.
Qed.

Theorem binop_agree o a b d1 d2 s t s' rexp :
  is_closed (TDim d1) = true -> is_closed (TDim d2) = true ->
  o <> OAnd -> o <> OOr ->
  (o = OPow -> exists q, const_eval b = Ok q /\ rexp = Some q) ->
  elab_binop o a b (TDim d1) (TDim d2) s = Ok (t, s') ->
  rt_binop o d1 d2 rexp = rt_of_ty t /\ rt_binop o d1 d2 rexp <> RIncompatible.
Proof.
  intros H1 H2 Ha Ho He H. unfold elab_binop, elab_binop_core in H.
  destruct o; try congruence.
  1,2,6: apply assert_closed in H; auto; destruct H as [E ->]; simpl; rewrite E; split; [reflexivity|discriminate].
  1,2: rewrite H1, H2 in H; simpl in H; inversion H; subst; simpl; split; [reflexivity|discriminate].
  1: { (* OPow *)
    destruct (He eq_refl) as [q [Hq ->]].
    rewrite (enforce_closed _ _ H1) in H. unfold bind at 1 in H.
    rewrite (enforce_closed _ _ H2) in H. unfold bind at 1 in H.
    unfold rt_binop. destruct (d_is_scalar d1) eqn:Hs.
    + destruct (add_c _ (CEq (TDim d2) tscalar)) as [s3 r] in H.
      destruct (is_violated r); inversion H; subst; simpl; split; [reflexivity|discriminate].
    + rewrite Hq in H. unfold bind in H. inversion H; subst. simpl. split; [reflexivity|discriminate]. }
  all: try (rewrite H1, H2 in H; cbn [andb is_dtype] in H).
  all: destruct (assert_equal_dtypes s (TDim d1) (TDim d2)) as [[t0 s0]|] eqn:Ea; unfold bind in H; try discriminate;
       apply assert_closed in Ea; auto; destruct Ea as [E _]; inversion H; subst; simpl; rewrite E;
       split; [reflexivity|discriminate].
Qed.
