(* Dim/CompleteProofs.v — C02: the checker decides dimensional consistency EXACTLY on the
   monomorphic arithmetic fragment (both directions: accept-sound and reject-complete).

   danalyse is ordinary dimensional analysis of a closed expression: every name carries the
   dimension the environment gives it; + - -> need equal dimensions; * / ^ combine exponents; a
   power with a dimensionful base needs a constant exponent, a power with a dimensionless base a
   dimensionless exponent.  accepts_iff: over an environment of monomorphic names with
   variable-free dimension types, for every expression of the fragment `arith` (non-zero
   literals, names, unary minus, + - -> * / ^), the elaborator accepts iff danalyse succeeds, and
   then the inferred type is exactly that dimension. *)
From Coq Require Import String List ZArith QArith Qcanon Bool.
From NV Require Import Dim.Model Dim.Infer Dim.Run Dim.RunProofs Dim.RunTreeProofs.
Import ListNotations.

Definition dbin (o : binop) (b : expr) (d1 d2 : dtype) : option dtype :=
  match o with
  | OAdd | OSub | OConv => if dtype_eqb d1 d2 then Some d1 else None
  | OMul => Some (dmultiply d1 d2)
  | ODiv => Some (ddivide d1 d2)
  | OPow => if d_is_scalar d1 then (if dtype_eqb d2 dscalar then Some d1 else None)
            else match const_eval b with Ok q => Some (dpower d1 q) | Err _ => None end
  | _ => None
  end.

Fixpoint danalyse (g : string -> option dtype) (e : expr) : option dtype :=
  match e with
  | EScalar _ => Some dscalar
  | EIdent x | EUnit x => g x
  | EUn UNeg a => danalyse g a
  | EBin o a b =>
      match danalyse g a, danalyse g b with
      | Some d1, Some d2 => dbin o b d1 d2
      | _, _ => None
      end
  | _ => None
  end.

(* the static environment holds exactly the names g knows, as monomorphic closed dimensions *)
Definition env_exact (gs : env) (g : string -> option dtype) : Prop :=
  forall x, match g x with
            | Some d => env_find gs x = Some (IdNormal (Quantified 0 (TDim d) []))
                        /\ novar d = true /\ dinstantiate [] d = d
            | None => env_find gs x = None
            end.

Definition decides (g : string -> option dtype) (gs : env) (e : expr) (s : tc) : Prop :=
  match danalyse g e with
  | Some d => exists ns s1, elab_expr e s = Ok (TDim d, ns, s1) /\ tc_env s1 = gs /\ novar d = true
  | None => exists er, elab_expr e s = Err er
  end.

Lemma binop_decides o a b d1 d2 s :
  novar d1 = true -> novar d2 = true ->
  (o = OAdd \/ o = OSub \/ o = OConv \/ o = OMul \/ o = ODiv \/ o = OPow) ->
  match dbin o b d1 d2 with
  | Some d => exists s', elab_binop o a b (TDim d1) (TDim d2) s = Ok (TDim d, s') /\ tc_env s' = tc_env s /\ novar d = true
  | None => exists er, elab_binop o a b (TDim d1) (TDim d2) s = Err er
  end.
Proof.
  intros N1 N2 Ho.
  pose proof (novar_closed _ N1) as C1. pose proof (novar_closed _ N2) as C2.
  assert (EQ : match (if dtype_eqb d1 d2 then Some d1 else None) with
               | Some d => exists s', assert_equal_dtypes s (TDim d1) (TDim d2) = Ok (TDim d, s') /\ tc_env s' = tc_env s /\ novar d = true
               | None => exists er, assert_equal_dtypes s (TDim d1) (TDim d2) = Err er
               end).
  { unfold assert_equal_dtypes, add_c, cs_add. rewrite (trivial_eq_closed _ _ C1 C2).
    destruct (dtype_eqb d1 d2); simpl.
    - rewrite (enforce_closed _ _ C1). simpl. rewrite (enforce_closed _ _ C2). simpl.
      eexists. split; [reflexivity|]. split; [reflexivity|exact N1].
    - eexists. reflexivity. }
  unfold elab_binop, elab_binop_core.
  destruct Ho as [->|[->|[->|[->|[->| ->]]]]]; simpl dbin; try exact EQ.
  - rewrite C1, C2. simpl. eexists. split; [reflexivity|]. split; [reflexivity|apply novar_multiply; auto].
  - rewrite C1, C2. simpl. eexists. split; [reflexivity|]. split; [reflexivity|apply novar_divide; auto].
  - rewrite (enforce_closed _ _ C1). cbn [bind]. rewrite (enforce_closed _ _ C2). cbn [bind].
    destruct (d_is_scalar d1) eqn:Sc.
    + unfold add_c, cs_add. unfold tscalar.
      assert (Cs : is_closed (TDim dscalar) = true) by reflexivity.
      rewrite (trivial_eq_closed _ _ C2 Cs).
      destruct (dtype_eqb d2 dscalar); simpl.
      * eexists. split; [reflexivity|]. split; [reflexivity|exact N1].
      * eexists. reflexivity.
    + destruct (const_eval b) as [q|er]; simpl.
      * eexists. split; [reflexivity|]. split; [reflexivity|apply novar_power; auto].
      * eexists. reflexivity.
Qed.

Theorem accepts_iff gs g : env_exact gs g ->
  forall e, arith e -> forall s, tc_env s = gs -> decides g gs e s.
Proof.
  intros Hg e Ha. induction Ha as [q Hq|x|x|a Ha IH|o a b Ho Ha IHa Hb IHb]; intros s Es; unfold decides; cbn [elab_expr danalyse].
  - rewrite (qc_eqb_false_of _ Hq). eexists; eexists. split; [reflexivity|]. split; [exact Es|reflexivity].
  - pose proof (Hg x) as G. rewrite <- Es in G. destruct (g x) as [d|].
    + destruct G as [G1 [G2 G3]]. rewrite G1. simpl. rewrite G3.
      eexists; eexists. split; [reflexivity|]. split; [exact Es|exact G2].
    + rewrite G. eexists. reflexivity.
  - pose proof (Hg x) as G. rewrite <- Es in G. destruct (g x) as [d|].
    + destruct G as [G1 [G2 G3]]. rewrite G1. simpl. rewrite G3.
      eexists; eexists. split; [reflexivity|]. split; [exact Es|exact G2].
    + rewrite G. eexists. reflexivity.
  - specialize (IH s Es). unfold decides in IH. destruct (danalyse g a) as [d|].
    + destruct IH as [ns [s1 [E1 [V1 N1]]]]. rewrite E1. simpl.
      rewrite (enforce_closed _ _ (novar_closed _ N1)). simpl.
      eexists; eexists. split; [reflexivity|]. split; [exact V1|exact N1].
    + destruct IH as [er E1]. rewrite E1. simpl. eexists. reflexivity.
  - specialize (IHa s Es). unfold decides in IHa. destruct (danalyse g a) as [d1|].
    + destruct IHa as [na [s1 [E1 [V1 N1]]]]. rewrite E1. cbn [bind].
      specialize (IHb s1 V1). unfold decides in IHb. destruct (danalyse g b) as [d2|].
      * destruct IHb as [nb [s2 [E2 [V2 N2]]]]. rewrite E2. cbn [bind].
        pose proof (binop_decides o a b d1 d2 s2 N1 N2 Ho) as B.
        destruct (dbin o b d1 d2) as [d|].
        -- destruct B as [s' [E3 [V3 N3]]]. rewrite E3. cbn [bind].
           eexists; eexists. split; [reflexivity|]. split; [simpl; rewrite V3; exact V2|exact N3].
        -- destruct B as [er E3]. rewrite E3. cbn [bind]. eexists. reflexivity.
      * destruct IHb as [er E2]. rewrite E2. cbn [bind]. eexists. reflexivity.
    + destruct IHa as [er E1]. rewrite E1. cbn [bind]. eexists. reflexivity.
Qed.

(* the two directions, as statements about acceptance and rejection *)
Corollary reject_complete gs g : env_exact gs g ->
  forall e, arith e -> forall s er, tc_env s = gs ->
    elab_expr e s = Err er -> danalyse g e = None.
Proof.
  intros Hg e Ha s er Es H. pose proof (accepts_iff gs g Hg e Ha s Es) as D. unfold decides in D.
  destruct (danalyse g e) as [d|]; auto. destruct D as [ns [s1 [E _]]]. rewrite E in H. discriminate.
Qed.

Corollary accept_exact gs g : env_exact gs g ->
  forall e, arith e -> forall s t ns s1, tc_env s = gs ->
    elab_expr e s = Ok (t, ns, s1) -> exists d, danalyse g e = Some d /\ t = TDim d.
Proof.
  intros Hg e Ha s t ns s1 Es H. pose proof (accepts_iff gs g Hg e Ha s Es) as D. unfold decides in D.
  destruct (danalyse g e) as [d|].
  - destruct D as [ns' [s1' [E _]]]. rewrite E in H. inversion H; subst. exists d. auto.
  - destruct D as [er E]. rewrite E in H. discriminate.
Qed.
