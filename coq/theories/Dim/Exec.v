(* Dim/Exec.v — string printer of the model's observations, in the line format of the Rust
   harness (harness/src/dim.rs) and of the hook numbat::verif::dim::scheme_text. *)
From Coq Require Import String List ZArith QArith Qcanon Bool Ascii.
From NV Require Import Base.Show Dim.Model Dim.Infer.
Import ListNotations.
Open Scope string_scope.

Definition show_qc (q : Qc) : string :=
  show_Z (Qnum (this q)) ++ "/" ++ show_N (Npos (Qden (this q))).

Definition show_var_f (v : var) : string :=
  match v with VNamed s => "v" ++ s | VQuant n => "g" ++ show_nat n end.
Definition show_factor (x : factor * Qc) : string :=
  (match fst x with
   | FVar v => show_var_f v
   | FPar s => "p" ++ s
   | FBase s => "b" ++ s
   end) ++ "^" ++ show_qc (snd x).

Fixpoint show_ty (t : ty) : string :=
  match t with
  | TVar (VNamed s) => "V" ++ s
  | TVar (VQuant n) => "G" ++ show_nat n
  | TPar s => "P" ++ s
  | TDim d => "D[" ++ join ";" (map show_factor d) ++ "]"
  | TBool => "B"
  | TString => "S"
  | TDateTime => "T"
  | TList e => "L<" ++ show_ty e ++ ">"
  end.

Definition show_scheme (sc : scheme) : string :=
  match sc with
  | Concrete t => "C:" ++ show_ty t
  | Quantified n t bs =>
      "Q" ++ show_nat n ++ "[" ++ join "," (map show_ty bs) ++ "]:" ++ show_ty t
  end.

Definition show_fn (ps : list ty) (r : ty) : string :=
  "F(" ++ join "," (map show_ty ps) ++ ")->" ++ show_ty r.

Definition show_fscheme (fs : fscheme) : string :=
  match fs with
  | FConcrete ps r => "C:" ++ show_fn ps r
  | FQuantified n ps r bs =>
      "Q" ++ show_nat n ++ "[" ++ join "," (map show_ty bs) ++ "]:" ++ show_fn ps r
  end.

Definition show_sout (o : sout) : string :=
  match o with
  | OExpr sc => "expr|" ++ show_scheme sc
  | OLet x sc => "let|" ++ x ++ "|" ++ show_scheme sc
  | OFn f fs => "fn|" ++ f ++ "|" ++ show_fscheme fs
  | OUnit x sc => "unit|" ++ x ++ "|" ++ show_scheme sc
  | ODimDef => "dim"
  | OProc => "proc"
  end.

Definition show_err (e : err) : string :=
  match e with
  | EUnknownIdentifier => "UnknownIdentifier"
  | EIncompatibleDimensions => "IncompatibleDimensions"
  | ENonScalarExponent => "NonScalarExponent"
  | ENonScalarFactorialArgument => "NonScalarFactorialArgument"
  | EUnsupportedConstEvalExpression => "UnsupportedConstEvalExpression"
  | EDivisionByZeroInConstEvalExpression => "DivisionByZeroInConstEvalExpression"
  | EDimensionRegistryError => "DimensionRegistryError"
  | EIncompatibleAlternativeDimensionExpression => "IncompatibleAlternativeDimensionExpression"
  | EWrongArity => "WrongArity"
  | ETypeParameterNameClash => "TypeParameterNameClash"
  | ENonRationalExponent => "NonRationalExponent"
  | EOverflowInConstExpr => "OverflowInConstExpr"
  | EExpectedDimensionType => "ExpectedDimensionType"
  | EExpectedBool => "ExpectedBool"
  | EIncompatibleTypesInCondition => "IncompatibleTypesInCondition"
  | EIncompatibleTypeInAssert => "IncompatibleTypeInAssert"
  | EIncompatibleTypesInAssertEq => "IncompatibleTypesInAssertEq"
  | EIncompatibleTypesInAnnotation => "IncompatibleTypesInAnnotation"
  | EIncompatibleTypesInComparison => "IncompatibleTypesInComparison"
  | EIncompatibleTypesInOperator => "IncompatibleTypesInOperator"
  | EIncompatibleTypesInFunctionCall => "IncompatibleTypesInFunctionCall"
  | EIncompatibleTypesInList => "IncompatibleTypesInList"
  | ENameResolutionError => "NameResolutionError"
  | EConstraintSolverError => "ConstraintSolverError"
  | ESubstitutionError => "SubstitutionError"
  | EMissingDimBound => "MissingDimBound"
  | EExponentiationNeedsTypeAnnotation => "ExponentiationNeedsTypeAnnotation"
  | EDerivedUnitDefinitionMustNotBeGeneric => "DerivedUnitDefinitionMustNotBeGeneric"
  | ENoDimensionlessBaseUnit => "NoDimensionlessBaseUnit"
  | EPanic => "PANIC"
  | EOutOfFuel => "MODEL-OUT-OF-FUEL"
  | EUnsupported => "MODEL-UNSUPPORTED"
  end.

Definition show_outcome (o : outcome) : string :=
  match o with
  | Rejected e => "err|" ++ show_err e
  | Accepted outs => "ok|" ++ join "#" (map show_sout outs)
  end.

(* one input (all its statements) checked against a checker state *)
Definition show_run (s : tc) (sts : list stmt) : string := show_outcome (fst (interpret_check sts s)).

(* two inputs in sequence on the same session: the second sees the state the first left *)
Definition show_run2 (s : tc) (a b : list stmt) : string :=
  let (o1, s1) := interpret_check a s in
  show_outcome o1 ++ "&" ++ show_outcome (fst (interpret_check b s1)).
