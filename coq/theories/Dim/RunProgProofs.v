(* Dim/RunProgProofs.v — C01: the static/run-time agreement lifted from expression trees to
   programs: sequences of `let` definitions and expression statements over a growing closed
   (monomorphic) environment.  The run-time environment is a function from names to the
   dimension of the stored unit, updated at every definition: a name resolves to its LATEST
   binding (what bytecode_interpreter.rs does with `rposition` over the locals; the seeded C01
   regression broke exactly this, cf. VM/Compile.v C09_innermost_binding). *)
From Coq Require Import String List ZArith QArith Qcanon Bool Lia.
From NV Require Import Dim.Model Dim.Infer Dim.Sem Dim.Proofs Dim.Run Dim.RunProofs Dim.RunTreeProofs
                       Dim.CanonProofs.
Import ListNotations.
Open Scope string_scope.
Open Scope list_scope.

(* ------------------------------------------------------------------ ground factor lists *)
Definition isbase (f : factor) : bool := match f with FBase _ => true | _ => false end.
Definition ground (d : dtype) : bool := forallb (fun x => isbase (fst x)) d.

Lemma ground_insert a l : ground (a :: l) = true -> ground (insert a l) = true.
Proof.
  induction l as [|y r IH]; simpl; auto. intro H.
  simpl in H. apply andb_prop in H. destruct H as [Ha H]. apply andb_prop in H. destruct H as [Hy Hr].
  destruct (factor_cmp (fst a) (fst y)); simpl; rewrite ?Ha, ?Hy, ?Hr; auto;
    simpl; apply IH; simpl; rewrite Ha, Hr; reflexivity.
Qed.
Lemma ground_sort_acc l : forall acc, ground l = true -> ground acc = true ->
  ground (fold_left (fun acc x => insert x acc) l acc) = true.
Proof.
  induction l as [|x r IH]; simpl; intros acc Hl Ha; auto.
  apply andb_prop in Hl. destruct Hl as [Hx Hr]. apply IH; auto.
  apply ground_insert. simpl. rewrite Hx, Ha. reflexivity.
Qed.
Lemma ground_merge l : ground l = true -> ground (merge l) = true.
Proof.
  induction l as [|[f n] r IH]; simpl; auto. intro H. apply andb_prop in H. destruct H as [Hf Hr].
  specialize (IH Hr). destruct (merge r) as [|[g m] r'].
  - simpl. rewrite Hf. reflexivity.
  - destruct (factor_eqb f g).
    + simpl in *. rewrite Hf. apply andb_prop in IH. destruct IH as [_ IH]. rewrite IH. reflexivity.
    + simpl in *. rewrite Hf. exact IH.
Qed.
Lemma ground_filter (p : factor * Qc -> bool) l : ground l = true -> ground (filter p l) = true.
Proof.
  induction l as [|x r IH]; simpl; auto. intro H. apply andb_prop in H. destruct H as [Hx Hr].
  destruct (p x); simpl; auto. rewrite Hx. simpl. auto.
Qed.
Lemma ground_canon l : ground l = true -> ground (canon l) = true.
Proof. intro H. unfold canon. apply ground_filter, ground_merge. apply ground_sort_acc; auto. Qed.
Lemma ground_app a b : ground a = true -> ground b = true -> ground (a ++ b) = true.
Proof. unfold ground. intros. rewrite forallb_app, H, H0. reflexivity. Qed.
Lemma ground_scale n d : ground d = true -> ground (scale n d) = true.
Proof. unfold ground, scale. induction d as [|x r IH]; simpl; auto. intro H.
  apply andb_prop in H. destruct H as [Hx Hr]. rewrite Hx. simpl. auto. Qed.
Lemma ground_multiply a b : ground a = true -> ground b = true -> ground (dmultiply a b) = true.
Proof. intros. apply ground_canon, ground_app; auto. Qed.
Lemma ground_power d n : ground d = true -> ground (dpower d n) = true.
Proof. intros. apply ground_canon, ground_scale; auto. Qed.
Lemma ground_divide a b : ground a = true -> ground b = true -> ground (ddivide a b) = true.
Proof. intros. apply ground_multiply; auto. apply ground_power; auto. Qed.

Lemma ground_novar d : ground d = true -> novar d = true.
Proof.
  unfold ground, novar. induction d as [|[f e] r IH]; simpl; auto. intro H.
  apply andb_prop in H. destruct H as [Hf Hr]. rewrite (IH Hr). destruct f; simpl in *; auto; discriminate.
Qed.
Lemma ground_dvars d : ground d = true -> dvars true d = [].
Proof.
  intro H. unfold dvars. assert (E : dvars_raw true d = []).
  { induction d as [|[f e] r IH]; simpl; auto. simpl in H. apply andb_prop in H. destruct H as [Hf Hr].
    rewrite (IH Hr). destruct f; simpl in *; auto; discriminate. }
  rewrite E. reflexivity.
Qed.

(* stable: what a lookup of a stored type returns is the type itself *)
Definition stable (d : dtype) : Prop := dinstantiate [] d = d.

Lemma inst_nil_map' d :
  map (fun x : factor * Qc => match fst x with
                              | FVar v => (FVar (inst_var [] v), snd x)
                              | f => (f, snd x)
                              end) d = d.
Proof.
  induction d as [|[f e] r IH]; simpl; auto. rewrite IH.
  destruct f as [v| |]; simpl; auto. destruct v; simpl; auto. destruct n; reflexivity.
Qed.
Lemma stable_canon l : stable (canon l).
Proof. unfold stable, dinstantiate. rewrite inst_nil_map'. apply canon_idem. Qed.
Lemma stable_nil : stable [].
Proof. reflexivity. Qed.

(* ------------------------------------------------------------------ expressions, strengthened *)
Definition same_state (s s1 : tc) : Prop :=
  tc_env s1 = tc_env s /\ tc_reg s1 = tc_reg s /\ tc_next s1 = tc_next s /\ tc_cs s1 = tc_cs s.

Lemma same_refl s : same_state s s.
Proof. repeat split. Qed.
Lemma same_trans a b c : same_state a b -> same_state b c -> same_state a c.
Proof. intros [A1 [A2 [A3 A4]]] [B1 [B2 [B3 B4]]]. repeat split; congruence. Qed.

(* every name of the static environment is a monomorphic value of a ground, stable dimension type,
   and the run-time environment stores a unit of exactly that dimension for it *)
Definition env_agree2 (gs : env) (g : string -> option dtype) : Prop :=
  forall x, match env_find gs x with
            | Some (IdNormal (Quantified 0 (TDim d) [])) =>
                g x = Some d /\ ground d = true /\ stable d
            | Some _ => False
            | None => True
            end.

Lemma enforce_ground s d : ground d = true ->
  enforce_dtype s (TDim d) = Ok (mkTc (tc_env s) (tc_reg s) (tc_next s) (tc_cs s)).
Proof. intro H. apply enforce_closed. apply novar_closed, ground_novar, H. Qed.

Theorem rt_expr_agree2 g rexp :
  exp_agree_all rexp ->
  forall e, arith e -> forall s t ns s1,
    env_agree2 (tc_env s) g -> elab_expr e s = Ok (t, ns, s1) ->
    same_state s s1 /\ exists d, t = TDim d /\ ground d = true /\ stable d /\ rt_expr g rexp e = RDim d.
Proof.
  intros Hx e Ha. induction Ha as [q Hq|x|x|a Ha IH|o a b Ho Ha IHa Hb IHb]; intros s t ns s1 Hg H; simpl in H.
  - rewrite (qc_eqb_false_of _ Hq) in H. inversion H; subst. split; [apply same_refl|].
    exists dscalar. repeat split; auto.
  - pose proof (Hg x) as G. destruct (env_find (tc_env s) x) as [[sc|fs]|]; try discriminate.
    destruct sc as [t0|k t0 bs]; try contradiction. destruct k; try contradiction.
    destruct t0; try contradiction. destruct bs; try contradiction. destruct G as [G1 [G2 G3]].
    simpl in H. unfold stable in G3. rewrite G3 in H. inversion H; subst. split; [apply same_refl|].
    exists d. simpl. rewrite G1. auto.
  - pose proof (Hg x) as G. destruct (env_find (tc_env s) x) as [[sc|fs]|]; try discriminate.
    destruct sc as [t0|k t0 bs]; try contradiction. destruct k; try contradiction.
    destruct t0; try contradiction. destruct bs; try contradiction. destruct G as [G1 [G2 G3]].
    simpl in H. unfold stable in G3. rewrite G3 in H. inversion H; subst. split; [apply same_refl|].
    exists d. simpl. rewrite G1. auto.
  - destruct (elab_expr a s) as [[[ta na] sa]|] eqn:Ea; simpl in H; try discriminate.
    destruct (IH _ _ _ _ Hg Ea) as [Sa [d [-> [Gd [Sd Rd]]]]].
    rewrite (enforce_ground _ _ Gd) in H. simpl in H. inversion H; subst.
    split. { eapply same_trans; [exact Sa|]. repeat split. } exists d. auto.
  - destruct (elab_expr a s) as [[[lt na] sa]|] eqn:Ea; simpl in H; try discriminate.
    destruct (elab_expr b sa) as [[[rt nb] sb]|] eqn:Eb; simpl in H; try discriminate.
    destruct (elab_binop o a b lt rt sb) as [[t0 sc]|] eqn:Eo; simpl in H; try discriminate.
    inversion H; subst.
    destruct (IHa _ _ _ _ Hg Ea) as [Sa [d1 [-> [N1 [T1 R1]]]]].
    assert (Hga : env_agree2 (tc_env sa) g) by (destruct Sa as [E _]; rewrite E; exact Hg).
    destruct (IHb _ _ _ _ Hga Eb) as [Sb [d2 [-> [N2 [T2 R2]]]]].
    pose proof (novar_closed _ (ground_novar _ N1)) as C1. pose proof (novar_closed _ (ground_novar _ N2)) as C2.
    simpl. rewrite R1, R2.
    assert (OP : same_state sb s1 /\ exists d, t = TDim d /\ ground d = true /\ stable d /\ rt_binop o d1 d2 (rexp b) = RDim d).
    { unfold elab_binop, elab_binop_core in Eo.
      assert (AE : forall o', (o' = OAdd \/ o' = OSub \/ o' = OConv) -> assert_equal_dtypes sb (TDim d1) (TDim d2) = Ok (t, s1) ->
                same_state sb s1 /\ exists d, t = TDim d /\ ground d = true /\ stable d /\ rt_binop o' d1 d2 (rexp b) = RDim d).
      { intros o' Ho' Eq. destruct (assert_closed _ _ _ _ _ C1 C2 Eq) as [E ->].
        unfold assert_equal_dtypes, add_c, cs_add in Eq. rewrite (trivial_eq_closed _ _ C1 C2), E in Eq. simpl in Eq.
        rewrite (enforce_closed _ _ C1) in Eq. simpl in Eq. rewrite (enforce_closed _ _ C2) in Eq. simpl in Eq.
        inversion Eq; subst. split; [repeat split|]. exists d1.
        destruct Ho' as [->|[->| ->]]; simpl; rewrite E; auto. }
      destruct Ho as [->|[->|[->|[->|[->| ->]]]]].
      - apply (AE OAdd); auto.
      - apply (AE OSub); auto.
      - apply (AE OConv); auto.
      - rewrite C1, C2 in Eo. simpl in Eo. inversion Eo; subst. split; [apply same_refl|].
        exists (dmultiply d1 d2). repeat split; auto. apply ground_multiply; auto. apply stable_canon.
      - rewrite C1, C2 in Eo. simpl in Eo. inversion Eo; subst. split; [apply same_refl|].
        exists (ddivide d1 d2). repeat split; auto. apply ground_divide; auto. apply stable_canon.
      - rewrite (enforce_closed _ _ C1) in Eo. unfold bind at 1 in Eo.
        rewrite (enforce_closed _ _ C2) in Eo. unfold bind at 1 in Eo.
        unfold rt_binop. destruct (d_is_scalar d1) eqn:Sc.
        + destruct (add_c _ (CEq (TDim d2) tscalar)) as [s3 r] eqn:Ec in Eo.
          destruct (is_violated r) eqn:Vr; inversion Eo; subst.
          (* the exponent of a scalar base: closed, so the constraint is resolved on the spot *)
          unfold add_c, cs_add in Ec.
          assert (TR : try_trivial_resolution (CEq (TDim d2) tscalar) <> Unknown).
          { unfold try_trivial_resolution. rewrite C2. change (is_closed tscalar) with true. cbn [andb].
            destruct (ty_eqb (TDim d2) tscalar); discriminate. }
          destruct (try_trivial_resolution (CEq (TDim d2) tscalar)) eqn:TT; try contradiction;
            inversion Ec; subst; simpl in Vr; try discriminate.
          split; [repeat split|]. exists d1. auto.
        + destruct (const_eval b) as [q|] eqn:Cq; simpl in Eo; try discriminate. inversion Eo; subst.
          split; [repeat split|]. rewrite (Hx _ _ Cq). exists (dpower d1 q). repeat split; auto.
          apply ground_power; auto. apply stable_canon. }
    destruct OP as [So [d [-> [Gd [Sd Rd]]]]].
    split. { eapply same_trans; [exact Sa|]. eapply same_trans; eauto. } exists d. auto.
Qed.

(* ------------------------------------------------------------------ statements *)
Lemma dapply_go_nil : forall fs acc, dapply_go [] fs acc = Ok acc.
Proof. induction fs as [|[f p] r IH]; intro acc; simpl; auto. destruct f; apply IH. Qed.

Lemma tapply_nil : forall t, tapply [] t = Ok t.
Proof.
  induction t; simpl; auto.
  - destruct (single d); auto. unfold dapply. rewrite dapply_go_nil. reflexivity.
  - rewrite IHt. reflexivity.
Qed.

Lemma mapM_id {A} (f : A -> res A) l : (forall x, f x = Ok x) -> mapM f l = Ok l.
Proof. intro H. induction l as [|x r IH]; simpl; auto. rewrite H, IH. reflexivity. Qed.

Lemma sapply_nil sc : sapply [] sc = Ok sc.
Proof.
  destruct sc as [t|n t bs]; simpl; rewrite tapply_nil; simpl; auto.
  rewrite (mapM_id _ _ tapply_nil). reflexivity.
Qed.
Lemma fapply_nil fs : fapply [] fs = Ok fs.
Proof.
  destruct fs as [ps r|n ps r bs]; simpl; rewrite (mapM_id _ _ tapply_nil); simpl; rewrite tapply_nil; simpl; auto.
  rewrite (mapM_id _ _ tapply_nil). reflexivity.
Qed.
Lemma eapply_nil g : eapply [] g = Ok g.
Proof.
  unfold eapply. apply mapM_id. intros [x e]. simpl. destruct e; [rewrite sapply_nil|rewrite fapply_nil]; reflexivity.
Qed.

Lemma solve_nil : solve [] = Ok ([], []).
Proof. reflexivity. Qed.

(* every entry is already generalised *)
Definition allq (g : env) : Prop :=
  Forall (fun xe => match snd xe with
                    | IdNormal (Quantified _ _ _) => True
                    | IdFunction (FQuantified _ _ _ _) => True
                    | _ => False
                    end) g.

Lemma egeneralize_allq lead dts g : allq g -> egeneralize lead dts g = Ok g.
Proof.
  intro H. unfold egeneralize. induction H as [|[x e] r Hx Hr IH]; simpl; auto.
  simpl in Hx. destruct e as [[t|n t bs]|[ps rt|n ps rt bs]]; try contradiction; simpl; rewrite IH; reflexivity.
Qed.

Lemma generalize_ground d : ground d = true ->
  generalize [] (Concrete (TDim d)) = Ok (Quantified 0 (TDim d) []).
Proof. intro H. unfold generalize. simpl. rewrite (ground_dvars _ H). reflexivity. Qed.

Lemma mapM_cons {A B} (f : A -> res B) a l :
  mapM f (a :: l) = (do y <- f a; do ys <- mapM f l; Ok (y :: ys)).
Proof. reflexivity. Qed.

Lemma egeneralize_cons_ground lead x d g : ground d = true -> allq g ->
  egeneralize lead [] ((x, IdNormal (Concrete (TDim d))) :: g) = Ok ((x, IdNormal (Quantified 0 (TDim d) [])) :: g).
Proof.
  intros Gd Hq. pose proof (egeneralize_allq lead [] g Hq) as E. unfold egeneralize in *.
  rewrite mapM_cons, E. cbn [snd fst]. rewrite (generalize_ground _ Gd). reflexivity.
Qed.

Local Opaque tapply generalize egeneralize eapply.

(* check_statement on `let x = e` and on an expression statement of the fragment *)
Lemma check_let g rexp x e s0 o s' :
  exp_agree_all rexp -> arith e -> env_agree2 (tc_env s0) g -> allq (tc_env s0) ->
  check_statement (SLet x None e) s0 = Ok (o, s') ->
  exists d, o = OLet x (Quantified 0 (TDim d) []) /\ rt_expr g rexp e = RDim d /\ ground d = true /\ stable d /\
            tc_env s' = (x, IdNormal (Quantified 0 (TDim d) [])) :: tc_env s0.
Proof.
  intros Hx Ha Hg Hq H. unfold check_statement in H.
  set (s := mkTc (tc_env s0) (mkReg (reg_base (tc_reg s0)) (reg_derived (tc_reg s0)) []) (tc_next s0) []) in *.
  unfold elab_stmt, elaborate_inner in H.
  destruct (elab_expr e s) as [[[t ns] s1]|] eqn:Ee; simpl in H; try discriminate.
  destruct (rt_expr_agree2 g rexp Hx e Ha s t ns s1 Hg Ee) as [[E1 [E2 [E3 E4]]] [d [-> [Gd [Sd Rd]]]]].
  simpl in E1, E2, E4. rewrite E4 in H. rewrite solve_nil in H. simpl in H.
  rewrite (mapM_id _ _ tapply_nil) in H. rewrite tapply_nil in H. simpl in H.
  rewrite eapply_nil in H. rewrite E2 in H. simpl in H.
  assert (Eg : forall lead, egeneralize lead [] ((x, IdNormal (Concrete (TDim d))) :: tc_env s1) =
               Ok ((x, IdNormal (Quantified 0 (TDim d) [])) :: tc_env s0)).
  { intro lead. rewrite E1. apply egeneralize_cons_ground; auto. }
  rewrite Eg in H. simpl in H. rewrite (generalize_ground _ Gd) in H. simpl in H.
  inversion H; subst. exists d. repeat split; auto.
Qed.

Lemma check_exprstmt g rexp e s0 o s' :
  exp_agree_all rexp -> arith e -> env_agree2 (tc_env s0) g -> allq (tc_env s0) ->
  check_statement (SExpr e) s0 = Ok (o, s') ->
  exists d, o = OExpr (Quantified 0 (TDim d) []) /\ rt_expr g rexp e = RDim d /\ ground d = true /\ stable d /\
            tc_env s' = ("_", IdNormal (Quantified 0 (TDim d) [])) ::
                        ("ans", IdNormal (Quantified 0 (TDim d) [])) :: tc_env s0.
Proof.
  intros Hx Ha Hg Hq H. unfold check_statement in H.
  set (s := mkTc (tc_env s0) (mkReg (reg_base (tc_reg s0)) (reg_derived (tc_reg s0)) []) (tc_next s0) []) in *.
  unfold elab_stmt in H.
  destruct (elab_expr e s) as [[[t ns] s1]|] eqn:Ee; simpl in H; try discriminate.
  destruct (rt_expr_agree2 g rexp Hx e Ha s t ns s1 Hg Ee) as [[E1 [E2 [E3 E4]]] [d [-> [Gd [Sd Rd]]]]].
  simpl in E1, E2, E4. rewrite E4 in H. rewrite solve_nil in H. simpl in H.
  rewrite (mapM_id _ _ tapply_nil) in H. rewrite tapply_nil in H. simpl in H.
  rewrite eapply_nil in H. rewrite E2 in H. simpl in H.
  assert (Eg : forall lead, egeneralize lead [] (("_", IdNormal (Concrete (TDim d))) :: ("ans", IdNormal (Concrete (TDim d))) :: tc_env s1) =
               Ok (("_", IdNormal (Quantified 0 (TDim d) [])) :: ("ans", IdNormal (Quantified 0 (TDim d) [])) :: tc_env s0)).
  { intro lead. rewrite E1. pose proof (egeneralize_cons_ground lead "ans" d (tc_env s0) Gd Hq) as E.
    Local Transparent egeneralize. unfold egeneralize in *. rewrite mapM_cons, E. cbn [snd fst].
    rewrite (generalize_ground _ Gd). reflexivity. }
  Local Opaque egeneralize.
  rewrite Eg in H. simpl in H. rewrite (generalize_ground _ Gd) in H. simpl in H.
  inversion H; subst. exists d. repeat split; auto.
Qed.

(* ------------------------------------------------------------------ programs *)
Inductive item := ILet (x : string) (e : expr) | IExpr (e : expr).

Definition stmt_of (i : item) : stmt :=
  match i with ILet x e => SLet x None e | IExpr e => SExpr e end.
Definition item_arith (i : item) : Prop := match i with ILet _ e | IExpr e => arith e end.

(* the run-time environment: a name resolves to its latest binding *)
Definition upd (g : string -> option dtype) (x : string) (d : dtype) : string -> option dtype :=
  fun y => if String.eqb y x then Some d else g y.

(* run-time dimension of every defined global / expression result, or None as soon as a
   unit-incompatibility (or any other stuck state) occurs *)
Fixpoint rt_prog (g : string -> option dtype) (rexp : expr -> option Qc) (p : list item) : option (list dtype) :=
  match p with
  | [] => Some []
  | ILet x e :: r =>
      match rt_expr g rexp e with
      | RDim d => option_map (cons d) (rt_prog (upd g x d) rexp r)
      | _ => None
      end
  | IExpr e :: r =>
      match rt_expr g rexp e with
      | RDim d => option_map (cons d) (rt_prog (upd (upd g "ans" d) "_" d) rexp r)
      | _ => None
      end
  end.

Definition out_of (i : item) (d : dtype) : sout :=
  match i with
  | ILet x _ => OLet x (Quantified 0 (TDim d) [])
  | IExpr _ => OExpr (Quantified 0 (TDim d) [])
  end.

Lemma env_agree2_upd gs g x d :
  env_agree2 gs g -> ground d = true -> stable d ->
  env_agree2 ((x, IdNormal (Quantified 0 (TDim d) [])) :: gs) (upd g x d).
Proof.
  intros Hg Gd Sd y. simpl. unfold upd. destruct (String.eqb y x) eqn:E; auto. apply Hg.
Qed.

Lemma allq_cons x n t bs g : allq g -> allq ((x, IdNormal (Quantified n t bs)) :: g).
Proof. intro H. constructor; simpl; auto. Qed.

Theorem prog_sound rexp : exp_agree_all rexp ->
  forall p, Forall item_arith p -> forall g s outs s',
    env_agree2 (tc_env s) g -> allq (tc_env s) ->
    check (map stmt_of p) s = Ok (outs, s') ->
    exists ds, rt_prog g rexp p = Some ds /\ outs = map (fun id => out_of (fst id) (snd id)) (combine p ds)
               /\ length ds = length p.
Proof.
  intros Hx p. induction p as [|i r IH]; intros HF g s outs s' Hg Hq H; simpl in H.
  - inversion H; subst. exists []. auto.
  - inversion HF as [|? ? Hi Hr]; subst.
    destruct (check_statement (stmt_of i) s) as [[o s1]|] eqn:E1; simpl in H; try discriminate.
    destruct (check (map stmt_of r) s1) as [[os s2]|] eqn:E2; simpl in H; try discriminate.
    inversion H; subst. destruct i as [x e|e]; simpl in *.
    + destruct (check_let g rexp x e s o s1 Hx Hi Hg Hq E1) as [d [-> [Rd [Gd [Sd Ev]]]]].
      destruct (IH Hr (upd g x d) s1 os s' ) as [ds [R1 [R2 R3]]]; auto.
      { rewrite Ev. apply env_agree2_upd; auto. }
      { rewrite Ev. apply allq_cons; auto. }
      exists (d :: ds). rewrite Rd, R1. simpl. rewrite R2, R3. auto.
    + destruct (check_exprstmt g rexp e s o s1 Hx Hi Hg Hq E1) as [d [-> [Rd [Gd [Sd Ev]]]]].
      destruct (IH Hr (upd (upd g "ans" d) "_" d) s1 os s') as [ds [R1 [R2 R3]]]; auto.
      { rewrite Ev. apply env_agree2_upd; auto. apply env_agree2_upd; auto. }
      { rewrite Ev. apply allq_cons, allq_cons; auto. }
      exists (d :: ds). rewrite Rd, R1. simpl. rewrite R2, R3. auto.
Qed.
