(* Dim/LcmProofs.v — C16: the exponent normalisation of check_statement (multiply the exponents of
   a free dimension variable by the least common multiple of their denominators, i.e. substitute
   T := T^k) does not change the set of ground instances of a type. *)
From Coq Require Import String List ZArith QArith Qcanon Bool Lia.
From NV Require Import Dim.Model Dim.Infer Dim.Sem Dim.Proofs.
Import ListNotations.
Open Scope string_scope.
Open Scope list_scope.

(* th is the composition of th' with the substitution s *)
Definition comp_rel (th th' : valuation) (s : subst) : Prop :=
  forall v, match lookup s v with
            | Some t => ts th' t (th v)
            | None => th v = th' v
            end.

Lemma comp_fval_none th th' s f x :
  comp_rel th th' s ->
  (match f with FVar v => lookup s v = None | FPar n => lookup s (VNamed n) = None | FBase _ => True end) ->
  fval th f = Some x -> fval th' f = Some x.
Proof.
  intros Hc Hl. destruct f as [v|n|b]; simpl; auto.
  - pose proof (Hc v) as C. rewrite Hl in C. rewrite C. auto.
  - pose proof (Hc (VNamed n)) as C. rewrite Hl in C. rewrite C. auto.
Qed.

(* invariant of the single pass of DType::apply: acc means (a), the still unprocessed original
   factors mean w' under th' and w under th; the result means a - w' + w under th' *)
Lemma dapply_go_comp th th' s : comp_rel th th' s ->
  forall fs acc d' a w w', dapply_go s fs acc = Ok d' ->
    dd th fs w -> dd th' fs w' -> dd th' acc a ->
    dd th' d' (dadd a (dadd (dscale (- Qc1)%Qc w') w)).
Proof.
  intros Hc. induction fs as [|[f p] r IH]; intros acc d' a w w' H Hw Hw' Ha; simpl in H.
  - inversion H; subst. eapply dd_deq; [exact Ha|].
    destruct Hw as [z [Hz Hq]]. destruct Hw' as [z' [Hz' Hq']]. simpl in Hz, Hz'.
    inversion Hz; inversion Hz'; subst. intro k. unfold dadd, dscale. rewrite <- (Hq k), <- (Hq' k). qring.
  - apply dd_cons_inv in Hw. destruct Hw as [u [v [Hf [Hr Hq]]]].
    apply dd_cons_inv in Hw'. destruct Hw' as [u' [v' [Hf' [Hr' Hq']]]].
    assert (Keep : forall acc0 a0, dapply_go s r acc0 = Ok d' -> dd th' acc0 a0 -> u = u' ->
              dd th' d' (dadd a0 (dadd (dscale (- Qc1)%Qc w') w))).
    { intros acc0 a0 H0 Ha0 E. subst u'. eapply dd_deq; [eapply IH; eauto|].
      intro k. unfold dadd, dscale. rewrite <- (Hq k), <- (Hq' k). qring. }
    destruct f as [tv|n|b].
    + pose proof (Hc tv) as C. destruct (lookup s tv) as [t|] eqn:Hl.
      * destruct (as_dtype t) as [dt|] eqn:Hd; simpl in H; try discriminate.
        apply fval_FVar in Hf. rewrite Hf in C. destruct C as [b0 [Hb0 Hb0u]].
        destruct b0; simpl in Hb0u; try contradiction.
        pose proof (as_dtype_dd _ _ _ _ Hd Hb0) as Hdt.
        eapply dd_deq.
        { eapply IH; [exact H|exact Hr|exact Hr'|].
          apply dd_multiply. { apply dd_divide. exact Ha. apply dd_power. rewrite from_var_eq.
            apply (dd_cons th' (FVar tv) Qc1 [] u' dzero). exact Hf'. apply dd_nil. }
          apply dd_power. exact Hdt. }
        intro k. unfold dadd, dscale. rewrite <- (Hq k), <- (Hq' k). unfold dadd, dscale. rewrite (Hb0u k). qring.
      * apply (Keep _ _ H Ha). apply fval_FVar in Hf. apply fval_FVar in Hf'.
        rewrite C in Hf. rewrite Hf in Hf'. inversion Hf'. reflexivity.
    + pose proof (Hc (VNamed n)) as C. destruct (lookup s (VNamed n)) as [t|] eqn:Hl.
      * destruct (as_dtype t) as [dt|] eqn:Hd; simpl in H; try discriminate.
        apply fval_FPar in Hf. rewrite Hf in C. destruct C as [b0 [Hb0 Hb0u]].
        destruct b0; simpl in Hb0u; try contradiction.
        pose proof (as_dtype_dd _ _ _ _ Hd Hb0) as Hdt.
        eapply dd_deq.
        { eapply IH; [exact H|exact Hr|exact Hr'|].
          apply dd_multiply. { apply dd_divide. exact Ha. apply dd_power.
            change (from_par n) with [(FPar n, Qc1)].
            apply (dd_cons th' (FPar n) Qc1 [] u' dzero). exact Hf'. apply dd_nil. }
          apply dd_power. exact Hdt. }
        intro k. unfold dadd, dscale. rewrite <- (Hq k), <- (Hq' k). unfold dadd, dscale. rewrite (Hb0u k). qring.
      * apply (Keep _ _ H Ha). apply fval_FPar in Hf. apply fval_FPar in Hf'.
        rewrite C in Hf. rewrite Hf in Hf'. inversion Hf'. reflexivity.
    + apply (Keep _ _ H Ha). simpl in Hf, Hf'. inversion Hf; inversion Hf'; subst. reflexivity.
Qed.

Lemma dapply_comp th th' s d d' w w' :
  comp_rel th th' s -> dapply s d = Ok d' -> dd th d w -> dd th' d w' -> dd th' d' w.
Proof.
  intros Hc H Hw Hw'. unfold dapply in H.
  eapply dd_deq; [eapply dapply_go_comp; eauto|]. intro k. qring.
Qed.

Lemma tapply_comp th th' s : comp_rel th th' s ->
  forall t t' a, tapply s t = Ok t' -> tden th t = Some a -> (exists b, tden th' t = Some b) ->
    ts th' t' a.
Proof.
  intros Hc. induction t; intros t' a H Ht [b Hb]; simpl in H.
  - inversion H; subst. simpl in Ht. inversion Ht; subst. pose proof (Hc v) as C.
    destruct (lookup s v); auto. apply ts_of. simpl. rewrite C. reflexivity.
  - inversion H; subst. simpl in Ht. inversion Ht; subst. pose proof (Hc (VNamed s0)) as C.
    destruct (lookup s (VNamed s0)); auto. apply ts_of. simpl. rewrite C. reflexivity.
  - destruct (single d) as [v|] eqn:Hs.
    + inversion H; subst. simpl in Ht. rewrite Hs in Ht. inversion Ht; subst. pose proof (Hc v) as C.
      destruct (lookup s v); auto. apply ts_of. simpl. rewrite Hs, C. reflexivity.
    + destruct (dapply s d) as [d'|] eqn:Hd; simpl in H; try discriminate. inversion H; subst.
      simpl in Ht, Hb. rewrite Hs in Ht, Hb.
      destruct (dden th d) as [z|] eqn:Hz; simpl in Ht; try discriminate.
      destruct (dden th' d) as [z'|] eqn:Hz'; simpl in Hb; try discriminate.
      inversion Ht; subst.
      assert (Hdd : dd th' d' z) by (eapply dapply_comp; [exact Hc|exact Hd|apply dd_of; exact Hz|apply dd_of; exact Hz']).
      destruct (tden_TDim_of_dd _ _ _ Hdd) as [a' [Ha' Hq]]. exists (SDim a'). split; auto.
  - inversion H; subst. apply ts_of; auto.
  - inversion H; subst. apply ts_of; auto.
  - inversion H; subst. apply ts_of; auto.
  - destruct (tapply s t) as [e'|] eqn:He; simpl in H; try discriminate. inversion H; subst.
    simpl in Ht, Hb. destruct (tden th t) as [x|] eqn:Hx; simpl in Ht; try discriminate.
    destruct (tden th' t) as [y|] eqn:Hy; simpl in Hb; try discriminate.
    inversion Ht; subst. destruct (IHt _ _ eq_refl eq_refl (ex_intro _ y eq_refl)) as [c [Hc' Hcb]].
    exists (SList c). simpl. rewrite Hc'. split; auto.
Qed.

(* ------------------------------------------------------------------ the LCM substitution *)
Definition lcm_subst (tv : var) (k : Qc) : subst := [(tv, TDim (dpower (from_var tv) k))].

Definition upd (th : valuation) (tv : var) (a : sty) : valuation :=
  fun v => if var_eqb tv v then a else th v.

Lemma var_eqb_false_neq a b : var_eqb a b = false -> a <> b.
Proof. intros H E. subst. rewrite var_eqb_refl in H. discriminate. Qed.

Lemma comp_rel_lcm th' tv k x :
  th' tv = SDim x -> comp_rel (upd th' tv (SDim (dscale k x))) th' (lcm_subst tv k).
Proof.
  intros Hx v. unfold lcm_subst, upd. simpl. destruct (var_eqb tv v) eqn:E.
  - apply var_eqb_true in E. subst v.
    assert (D : dd th' (dpower (from_var tv) k) (dscale k x)).
    { eapply dd_deq. { apply dd_power. rewrite from_var_eq.
        apply (dd_cons th' (FVar tv) Qc1 [] x dzero). simpl. rewrite Hx. reflexivity. apply dd_nil. }
      intro j. qring. }
    destruct (tden_TDim_of_dd _ _ _ D) as [a [Ha Hq]]. exists (SDim a). split; auto.
  - reflexivity.
Qed.

(* meanings only depend on the valuation up to steq, and definedness only on which variables
   are dimensions *)
Lemma fval_ext th1 th2 f x : (forall v, steq (th1 v) (th2 v)) -> fval th1 f = Some x ->
  exists y, fval th2 f = Some y /\ deq x y.
Proof.
  intros He. destruct f as [v|n|b]; simpl.
  - pose proof (He v) as E. destruct (th1 v); try discriminate. destruct (th2 v); simpl in E; try contradiction.
    intro H; inversion H; subst. eauto.
  - pose proof (He (VNamed n)) as E. destruct (th1 (VNamed n)); try discriminate.
    destruct (th2 (VNamed n)); simpl in E; try contradiction. intro H; inversion H; subst. eauto.
  - intro H. inversion H; subst. exists (dbase b). split; auto. apply deq_refl.
Qed.

Lemma dd_ext th1 th2 : (forall v, steq (th1 v) (th2 v)) -> forall d x, dd th1 d x -> dd th2 d x.
Proof.
  intros He. induction d as [|[f e] r IH]; intros x H.
  - destruct H as [z [Hz Hq]]. simpl in Hz. inversion Hz; subst. eapply dd_deq; [apply dd_nil|exact Hq].
  - apply dd_cons_inv in H. destruct H as [u [v [Hf [Hr Hq]]]].
    destruct (fval_ext _ _ _ _ He Hf) as [y [Hy Huy]].
    eapply dd_deq. { apply dd_cons; [exact Hy|apply IH; exact Hr]. }
    intro k. rewrite <- (Hq k). unfold dadd, dscale. rewrite (Huy k). reflexivity.
Qed.

Lemma ts_ext th1 th2 : (forall v, steq (th1 v) (th2 v)) -> forall t a, ts th1 t a -> ts th2 t a.
Proof.
  intros He. induction t; intros a [b [Hb Hba]]; simpl in Hb.
  - inversion Hb; subst. exists (th2 v). split; auto. eapply steq_trans; [apply steq_sym; apply He|auto].
  - inversion Hb; subst. exists (th2 (VNamed s)). split; auto. eapply steq_trans; [apply steq_sym; apply He|auto].
  - destruct (single d) as [v|] eqn:Hs.
    + inversion Hb; subst. exists (th2 v). simpl. rewrite Hs. split; auto.
      eapply steq_trans; [apply steq_sym; apply He|auto].
    + destruct (dden th1 d) as [z|] eqn:Hz; simpl in Hb; try discriminate. inversion Hb; subst.
      destruct (dd_ext _ _ He _ _ (dd_of _ _ _ Hz)) as [z2 [Hz2 Hq]].
      exists (SDim z2). simpl. rewrite Hs, Hz2. split; auto.
      destruct a; simpl in Hba; try contradiction. simpl. eapply deq_trans; eauto.
  - inversion Hb; subst. exists SBool; auto.
  - inversion Hb; subst. exists SString; auto.
  - inversion Hb; subst. exists SDateTime; auto.
  - destruct (tden th1 t) as [x|] eqn:Hx; simpl in Hb; try discriminate. inversion Hb; subst.
    destruct a; simpl in Hba; try contradiction.
    destruct (IHt a (ex_intro _ x (conj Hx Hba))) as [c [Hc Hca]].
    exists (SList c). simpl. rewrite Hc. split; auto.
Qed.

(* C16_lcm_iso, one direction as an equation between instances: the instance of the normalised
   type t' at T = x is the instance of t at T = k.x *)
Theorem lcm_instance tv k t t' th' x a :
  tapply (lcm_subst tv k) t = Ok t' ->
  th' tv = SDim x ->
  tden (upd th' tv (SDim (dscale k x))) t = Some a ->
  ts th' t' a.
Proof.
  intros H Hx Ha.
  eapply tapply_comp; [apply comp_rel_lcm; exact Hx|exact H|exact Ha|].
  (* t also has a meaning under th': the two valuations give dimensions to the same variables *)
  clear H t'. revert a Ha. induction t; intros a Ha; simpl; eauto.
  - simpl in Ha. destruct (single d) eqn:Hs; [eauto|].
    destruct (dden (upd th' tv (SDim (dscale k x))) d) as [z|] eqn:Hz; simpl in Ha; try discriminate.
    assert (exists z', dden th' d = Some z') as [z' Hz'].
    { clear - Hz Hx. revert z Hz. induction d as [|[f e] r IH]; simpl; intros z Hz; eauto.
      destruct (fval (upd th' tv (SDim (dscale k x))) f) as [u|] eqn:Hf; try discriminate.
      destruct (dden (upd th' tv (SDim (dscale k x))) r) as [w|] eqn:Hr; try discriminate.
      destruct (IH _ eq_refl) as [w' Hw']. rewrite Hw'.
      assert (exists u', fval th' f = Some u') as [u' Hu'].
      { destruct f as [v|n|b]; simpl in *; eauto; unfold upd in Hf.
        - destruct (var_eqb tv v) eqn:E. { apply var_eqb_true in E. subst. rewrite Hx. eauto. }
          destruct (th' v); try discriminate; eauto.
        - destruct (var_eqb tv (VNamed n)) eqn:E. { apply var_eqb_true in E. rewrite <- E, Hx. eauto. }
          destruct (th' (VNamed n)); try discriminate; eauto. }
      rewrite Hu'. eauto. }
    rewrite Hz'. simpl. eauto.
  - simpl in Ha. destruct (tden (upd th' tv (SDim (dscale k x))) t) as [y|] eqn:Hy; simpl in Ha; try discriminate.
    destruct (IHt _ eq_refl) as [b Hb]. rewrite Hb. simpl. eauto.
Qed.

(* ... and conversely every instance of t (at T = y) is an instance of t' (at T = y/k), k <> 0 *)
Theorem lcm_instance_back tv k t t' th y a :
  k <> Qc0 ->
  tapply (lcm_subst tv k) t = Ok t' ->
  th tv = SDim y ->
  tden th t = Some a ->
  exists th', th' tv = SDim (dscale (/ k)%Qc y) /\ (forall v, v <> tv -> th' v = th v) /\ ts th' t' a.
Proof.
  intros Hk H Hy Ha.
  set (th' := upd th tv (SDim (dscale (/ k)%Qc y))).
  assert (Hx : th' tv = SDim (dscale (/ k)%Qc y)) by (unfold th', upd; rewrite var_eqb_refl; reflexivity).
  exists th'. split; auto. split.
  { intros v Hv. unfold th', upd. destruct (var_eqb tv v) eqn:E; auto. apply var_eqb_true in E. congruence. }
  assert (E : forall v, steq (th v) (upd th' tv (SDim (dscale k (dscale (/ k)%Qc y))) v)).
  { intro v. unfold upd, th', upd. destruct (var_eqb tv v) eqn:Ev.
    - apply var_eqb_true in Ev. subst v. rewrite Hy. simpl. intro j. unfold dscale, Qc0 in *. field. exact Hk.
    - apply steq_refl. }
  destruct (ts_ext _ _ E t a (ts_of _ _ _ Ha)) as [b [Hb Hba]].
  eapply ts_steq; [eapply lcm_instance; eauto|exact Hba].
Qed.

(* the factor k used by check_statement is a non-zero integer *)
Lemma lcm_denoms_acc es : forall acc, acc <> 0%Z ->
  fold_left (fun acc e => Z.lcm acc (Zpos (Qden (this e)))) es acc <> 0%Z.
Proof.
  induction es as [|e r IH]; simpl; intros acc H; auto.
  apply IH. intro E. apply Z.lcm_eq_0 in E. destruct E as [E|E]; [auto|discriminate].
Qed.
Lemma lcm_denoms_nonzero es : lcm_denoms es <> 0%Z.
Proof. apply lcm_denoms_acc. discriminate. Qed.

Lemma qc_nonzero z : z <> 0%Z -> qc z <> Qc0.
Proof.
  intros Hz E.
  assert (Q : Qeq (this (qc z)) (this Qc0)) by (rewrite E; reflexivity).
  change (this (qc z)) with (Qred (inject_Z z)) in Q.
  change (this Qc0) with (Qred 0) in Q.
  rewrite !Qred_correct in Q. unfold Qeq, inject_Z in Q. simpl in Q. lia.
Qed.

(* the substitution applied by lcm_pass for a variable is exactly lcm_subst with that factor *)
Lemma lcm_pass_step tv rest nodes r :
  lcm_pass (tv :: rest) nodes r =
  let l := lcm_denoms (exponents_for tv (nodes ++ sres_types r)) in
  if Z.eqb l 1 then lcm_pass rest nodes r else
  bind (mapM (tapply (lcm_subst tv (qc l))) nodes) (fun nodes' =>
  bind (rapply (lcm_subst tv (qc l)) r) (fun r' => lcm_pass rest nodes' r')).
Proof. reflexivity. Qed.
