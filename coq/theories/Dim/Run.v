(* Dim/Run.v — C01: the run-time side, at the level of physical dimensions of units.
   rt_binop mirrors what vm.rs Op::Add/Subtract/ConvertTo/Multiply/Divide/Power and the comparison
   ops do to the *units* of their operands (quantity.rs Quantity::convert_to fails with
   IncompatibleUnits iff the base-unit representations differ; mul/div/checked_power combine
   the unit exponents), read through the dimension of each unit. *)
From Coq Require Import String List ZArith QArith Qcanon Bool.
From NV Require Import Dim.Model Dim.Infer.
Import ListNotations.

Inductive rtres := RDim (d : dtype) | RBool | RIncompatible | RNone.

(* rexp: the exponent the VM computes (f64 evaluation, then Rational::from_f64), if any *)
Definition rt_binop (o : binop) (d1 d2 : dtype) (rexp : option Qc) : rtres :=
  match o with
  | OAdd | OSub | OConv => if dtype_eqb d1 d2 then RDim d1 else RIncompatible
  | OMul => RDim (dmultiply d1 d2)
  | ODiv => RDim (ddivide d1 d2)
  | OPow => if d_is_scalar d1 then RDim d1 else
            match rexp with
            | Some q => RDim (dpower d1 q)
            | None => RNone
            end
  | OLt | OGt | OLe | OGe | OEq | ONe => if dtype_eqb d1 d2 then RBool else RIncompatible
  | OAnd | OOr => RNone
  end.

Definition rt_of_ty (t : ty) : rtres :=
  match t with TDim d => RDim d | TBool => RBool | _ => RNone end.

(* ExpAgree for one power: the run-time exponent is the statically evaluated one *)
Definition exp_agree (b : expr) (rexp : option Qc) : Prop :=
  match const_eval b with Ok q => rexp = Some q | Err _ => True end.

(* run-time dimension of a whole expression of the arithmetic fragment; g gives the dimension of
   the unit stored for each name, rexp the exponent the VM computes for an exponent expression *)
Fixpoint rt_expr (g : string -> option dtype) (rexp : expr -> option Qc) (e : expr) : rtres :=
  match e with
  | EScalar _ => RDim dscalar
  | EIdent x | EUnit x => match g x with Some d => RDim d | None => RNone end
  | EUn UNeg a => rt_expr g rexp a
  | EBin o a b =>
      match rt_expr g rexp a, rt_expr g rexp b with
      | RDim d1, RDim d2 => rt_binop o d1 d2 (rexp b)
      | RIncompatible, _ | _, RIncompatible => RIncompatible
      | _, _ => RNone
      end
  | EBool _ => RBool
  | _ => RNone
  end.
