(* Qty/Prelude.v — the unit table of the running implementation (generated
   Gen/PreludeUnits.v) with its environment precomputed, and the table lemmas
   (finite, by vm_compute). *)
From Coq Require Import List ZArith QArith Qcanon String Bool.
From NV Require Export Qty.Model Qty.Assert Qty.Exec Gen.PreludeUnits.
Import ListNotations.

Definition P_env : env := Eval vm_compute in make_env prelude_tbl.
Definition P_exact_tbl : table Qc := firstn prelude_n_exact prelude_tbl.
Definition PX_env : env := Eval vm_compute in make_env P_exact_tbl.

(* definitions refer to earlier rows only (acyclic) *)
Lemma prelude_wf : wf_table prelude_tbl = true.
Proof. vm_compute. reflexivity. Qed.
(* every conversion factor is positive *)
Lemma prelude_pos : pos_table prelude_tbl = true.
Proof. vm_compute. reflexivity. Qed.
(* unit names are pairwise distinct (identifier equality = index equality) *)
Lemma prelude_names_distinct : distinct_names (map u_name prelude_tbl) = true.
Proof. vm_compute. reflexivity. Qed.
(* the identifiers embedded in definitions are the registered units *)
Lemma prelude_embedded : prelude_embedded_ok = true.
Proof. vm_compute. reflexivity. Qed.
(* the exact scope: a prefix of the table, closed under definitions, integer exponents *)
Lemma prelude_exact_wf : wf_table P_exact_tbl = true.
Proof. vm_compute. reflexivity. Qed.
Lemma prelude_exact_int : int_table P_exact_tbl = true.
Proof. vm_compute. reflexivity. Qed.
Lemma prelude_exact_pos : pos_table P_exact_tbl = true.
Proof. vm_compute. reflexivity. Qed.
Lemma prelude_exact_names_distinct : distinct_names (map u_name P_exact_tbl) = true.
Proof. vm_compute. reflexivity. Qed.
