(* Qty/MinUnit.v — the result unit of a sum is never larger than the operands'
   units (C12_min_unit), exact level. *)
From Coq Require Import List ZArith QArith Qcanon Bool.
From NV Require Import Qty.Model Qty.Exec Qty.NumFacts Qty.Proofs.
Import ListNotations.
Local Open Scope Qc_scope.

Section MinUnit.
  Variable tbl : table Qc.
  Variable res : resolved (T := Qc).
  Variable keys : list skey.
  Hypothesis scale_pos : forall i, 0 < scale res i.

  Lemma Qc_leb_total x y :
    (match Qc_cmp x y with Gt => false | _ => true end) = false -> y <= x.
  Proof.
    unfold Qc_cmp. destruct (x ?= y) eqn:E; try discriminate. intros _.
    apply Qcgt_alt in E. apply Qclt_le_weak. exact E.
  Qed.

  Lemma Qc_leb_le x y :
    (match Qc_cmp x y with Gt => false | _ => true end) = true -> x <= y.
  Proof.
    unfold Qc_cmp. destruct (x ?= y) eqn:E; try discriminate; intros _.
    - apply Qceq_alt in E. subst. apply Qcle_refl.
    - apply Qclt_alt in E. apply Qclt_le_weak. exact E.
  Qed.

  Lemma smaller_unit_le a b :
    Den res (smaller_unit QcN res a b) <= Den res a /\ Den res (smaller_unit QcN res a b) <= Den res b.
  Proof.
    unfold smaller_unit. rewrite !unit_factor_eq. simpl.
    destruct (match Qc_cmp (Den res a) (Den res b) with Gt => false | _ => true end) eqn:E.
    - split; [apply Qcle_refl | apply Qc_leb_le, E].
    - split; [apply Qc_leb_total, E | apply Qcle_refl].
  Qed.

  (* the unit of a + b (resp. a - b) of two non-zero operands is not larger than either unit *)
  Lemma qaddsub_unit_le op zl a b r :
    unit_int (q_unit a) = true -> unit_int (q_unit b) = true ->
    q_is_zero QcN a = false -> q_is_zero QcN b = false ->
    qaddsub QcN tbl res keys op zl a b = Ok r ->
    Den res (q_unit r) <= Den res (q_unit a) /\ Den res (q_unit r) <= Den res (q_unit b).
  Proof.
    intros Ha Hb Za Zb. unfold qaddsub. rewrite Za, Zb.
    destruct (unit_eq keys (q_unit a) (q_unit b)) eqn:Eu.
    - intros H. injection H as <-. simpl. rewrite <- (unit_eq_Den res keys scale_pos _ _ Ha Hb Eu).
      split; apply Qcle_refl.
    - destruct (convert_to QcN tbl res keys a _) as [a'|]; [|discriminate].
      destruct (convert_to QcN tbl res keys b _) as [b'|]; [|discriminate].
      cbn [bind]. intros H. injection H as <-. simpl. apply smaller_unit_le.
  Qed.

  (* three operands: when no operand and no partial sum is zero, (a + b) + c is
     expressed in a unit that is not larger than any of the three units *)
  Theorem sum3_min_unit a b c s r :
    unit_int (q_unit a) = true -> unit_int (q_unit b) = true -> unit_int (q_unit c) = true ->
    q_is_zero QcN a = false -> q_is_zero QcN b = false -> q_is_zero QcN c = false ->
    qadd QcN tbl res keys a b = Ok s -> q_is_zero QcN s = false ->
    qadd QcN tbl res keys s c = Ok r ->
    Den res (q_unit r) <= Den res (q_unit a)
    /\ Den res (q_unit r) <= Den res (q_unit b)
    /\ Den res (q_unit r) <= Den res (q_unit c).
  Proof.
    intros Ha Hb Hc Za Zb Zc H1 Zs H2.
    destruct (qaddsub_unit_le _ _ a b s Ha Hb Za Zb H1) as (L1 & L2).
    destruct (qadd_sound tbl res keys scale_pos a b s Ha Hb H1) as (_ & Is & _).
    destruct (qaddsub_unit_le _ _ s c r Is Hc Zs Zc H2) as (L3 & L4).
    split; [exact (Qcle_trans _ _ _ L3 L1) | split; [exact (Qcle_trans _ _ _ L3 L2) | exact L4]].
  Qed.
End MinUnit.
