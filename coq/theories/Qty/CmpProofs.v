(* Qty/CmpProofs.v — the exact number instance satisfies the antisymmetry law of
   partial_cmp used by the order-independence theorems of Qty/Struct.v (C11). *)
From Coq Require Import List ZArith QArith Qcanon Bool.
From NV Require Import Qty.Model Qty.Exec Qty.NumFacts Qty.Proofs Qty.Struct.
Local Open Scope Qc_scope.

Lemma QcN_cmp_antisym : cmp_antisym_law QcN.
Proof. intros x y. simpl. unfold opp_o. simpl. f_equal. apply Qc_cmp_antisym. Qed.
