(* Qty/CmpProofs.v — exact-level symmetry of comparisons (C11). *)
From Coq Require Import List ZArith QArith Qcanon Bool.
From NV Require Import Qty.Model Qty.Exec Qty.NumFacts Qty.Proofs Qty.Struct.
Import ListNotations.
Local Open Scope Qc_scope.

Section Cmp.
  Variable tbl : table Qc.
  Variable res : resolved (T := Qc).
  Variable keys : list skey.
  Hypothesis scale_pos : forall i, 0 < scale res i.

  Lemma pcmp_sym a b c c' :
    unit_int (q_unit a) = true -> unit_int (q_unit b) = true ->
    pcmp QcN tbl res keys a b = OOk c -> pcmp QcN tbl res keys b a = OOk c' -> c' = CompOpp c.
  Proof.
    intros Ha Hb H1 H2.
    rewrite (pcmp_exact tbl res keys scale_pos a b Ha Hb c H1).
    rewrite (pcmp_exact tbl res keys scale_pos b a Hb Ha c' H2).
    apply Qc_cmp_antisym.
  Qed.

  Lemma pcmp_cases a b :
    pcmp QcN tbl res keys a b = OIncompatible \/ exists c, pcmp QcN tbl res keys a b = OOk c.
  Proof.
    unfold pcmp. simpl. destruct (convert_to QcN tbl res keys b (q_unit a)); [right|left; reflexivity].
    eexists. reflexivity.
  Qed.

  Definition flip (op : cmpop) : cmpop :=
    match op with CLt => CGt | CGt => CLt | CLe => CGe | CGe => CLe end.

  (* a < b equals b > a, a <= b equals b >= a (whenever both are defined) *)
  Lemma vm_cmp_flip op a b x y :
    unit_int (q_unit a) = true -> unit_int (q_unit b) = true ->
    vm_cmp QcN tbl res keys op a b = Ok x -> vm_cmp QcN tbl res keys (flip op) b a = Ok y -> x = y.
  Proof.
    intros Ha Hb. unfold vm_cmp.
    destruct (pcmp_cases a b) as [E1|[c E1]]; rewrite E1; [discriminate|].
    destruct (pcmp_cases b a) as [E2|[c' E2]]; rewrite E2; [discriminate|].
    rewrite (pcmp_sym a b c c' Ha Hb E1 E2).
    destruct c, op; simpl; intros H1 H2; injection H1 as <-; injection H2 as <-; reflexivity.
  Qed.

  (* a == b equals b == a when each operand converts into the other's unit *)
  Lemma qeq_sym a b a' b' :
    unit_int (q_unit a) = true -> unit_int (q_unit b) = true ->
    convert_to QcN tbl res keys b (q_unit a) = Ok b' ->
    convert_to QcN tbl res keys a (q_unit b) = Ok a' ->
    qeq QcN tbl res keys a b = qeq QcN tbl res keys b a.
  Proof.
    intros Ha Hb C1 C2.
    rewrite (qeq_exact tbl res keys scale_pos a b b' Ha Hb C1).
    rewrite (qeq_exact tbl res keys scale_pos b a a' Hb Ha C2).
    rewrite (Qc_cmp_antisym (DenQ res a) (DenQ res b)).
    destruct (Qc_cmp (DenQ res a) (DenQ res b)); reflexivity.
  Qed.

  (* exactly one of <, ==, > *)
  Lemma trichotomy_exact a b c :
    pcmp QcN tbl res keys a b = OOk c ->
    vm_cmp QcN tbl res keys CLt a b = Ok (is_lt c)
    /\ qeq QcN tbl res keys a b = is_eq c
    /\ vm_cmp QcN tbl res keys CGt a b = Ok (is_gt c).
  Proof.
    intros H.
    assert (Heq : forall x y : Qc, n_eqb QcN x y = match n_cmp QcN x y with Some Eq => true | _ => false end)
      by (intros x y; simpl; apply Qc_eqb_cmp).
    destruct (trichotomy_struct QcN tbl res keys a b c Heq H) as (A & B & C & _). auto.
  Qed.
End Cmp.
