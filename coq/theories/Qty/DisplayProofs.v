(* Qty/DisplayProofs.v — what the displayed text of a converted value is (C04, C05);
   any number type. *)
From Coq Require Import List ZArith QArith Qcanon String Bool.
From NV Require Import Qty.Model Qty.Exec Qty.Display Qty.SimplProofs.
Import ListNotations.
Open Scope string_scope.

Section DP.
  Context {T : Type}.
  Variable N : numops T.
  Variable tbl : table T.
  Variable res : resolved (T := T).
  Variable keys : list skey.
  Variable names : list (string * bool).

  Lemma convert_unit (q : quantity (T := T)) u q' :
    convert_to N tbl res keys q u = Ok q' -> q_unit q' = u /\ q_target q' = None /\ q_simp q' = true.
  Proof.
    unfold convert_to. destruct (_ || _); [intros H; injection H as <-; auto|].
    destruct (to_base N tbl res _) as [tb f]. destruct (unit_eq keys _ tb); [|discriminate].
    intros H. injection H as <-. auto.
  Qed.

  (* the text shown for `a -> b`: b's unit text — written exactly as b's factor list
     renders, order and prefixes included —, preceded by the `×` marker iff b's
     magnitude is not 1.  It depends on b only: whatever a displayed before (a
     previous conversion target, a simplification) is gone. *)
  Theorem convert_text a b q :
    vm_convert N tbl res keys a b = Ok q ->
    display_shape names q
    = if n_eqb N (q_val b) (n_one N) then display_unit names (q_unit b)
      else "× " ++ display_unit names (q_unit b).
  Proof.
    unfold vm_convert. destruct (convert_to N tbl res keys a (q_unit b)) as [c|] eqn:C; [|discriminate].
    cbn [bind]. intros H. injection H as <-. destruct (convert_unit a (q_unit b) c C) as (U & _ & _).
    unfold display_shape. simpl. destruct (n_eqb N (q_val b) (n_one N)); [rewrite U|]; reflexivity.
  Qed.

  (* simplification (heuristic or registry-based) does not change the text of a converted value *)
  Theorem convert_text_simplified near_one near cands a b q s :
    vm_convert N tbl res keys a b = Ok q ->
    full_simplify_with_registry N tbl res keys near_one near cands q = Ok s ->
    display_shape names s = display_shape names q.
  Proof.
    intros H S.
    destruct (no_simplify_id N tbl res keys near_one near cands q
                (vm_convert_not_simplifiable N tbl res keys a b q H)) as (_ & E).
    rewrite E in S. injection S as <-. reflexivity.
  Qed.
End DP.
