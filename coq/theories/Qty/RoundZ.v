(* Qty/RoundZ.v — a tiny ROUNDING arithmetic (integers with truncating division)
   as an instance of [numops].  It satisfies the structural laws used in
   Qty/Struct.v (commutative +, x - y = -(y - x), == agrees with partial_cmp) but,
   like f64, its division rounds.  Used to show that the asymmetry of == is a
   consequence of the SHAPE of the code (one-sided conversion), not of f64. *)
From Coq Require Import List ZArith QArith Qcanon String Bool.
From NV Require Import Qty.Model.
Import ListNotations.
Open Scope Z_scope.

Definition ZN : numops Z :=
  mkNum Z 1 Z.add Z.sub Z.mul Z.quot Z.opp
        (fun x e => if Qc_eqb e (Qc_of_Z 1) then x else 1)
        (fun _ => 1)
        (fun x => Z.eqb x 0) (fun _ => false) Z.eqb Z.leb
        (fun x y => Some (Z.compare x y)) Z.abs.

Open Scope string_scope.
(* one base unit "b" and a unit "a" = 3 b *)
Definition rz_tbl : table Z := [
  mkRow "b" Base;
  mkRow "a" (Derived 3%Z [mkF 0 (Metric 0) (Qc_of_Z 1)])
]%list.
Definition rz_res := resolve ZN rz_tbl.
Definition rz_keys := all_keys ZN rz_tbl rz_res.
