(* Qty/FloatExact.v — the quantity model instantiated with the kernel's IEEE-754
   binary64 floats (PrimFloat): a bit-exact replica of the implementation's f64
   arithmetic for the fragment where every operation is an IEEE basic operation:
   +, -, *, /, comparisons, Prefix::factor (f64::powi = compiler-rt __powidf2:
   repeated multiplication), and Number::pow restricted to pow(x,1) = x,
   pow(x,0) = 1, pow(1,y) = 1 (exact by IEEE/C99); any other power is libm `pow`
   and yields the taint value NaN here (printed "OOS" by the printers).
   Evaluated by vm_compute; used by the correspondence of C11/C12 and by the
   kernel-computed witnesses in Props/C11.v, Props/C12.v. *)
From Coq Require Export Floats.
From Coq Require Import List ZArith QArith Qcanon String Bool Uint63.
From NV Require Import Base.Show Qty.Model Qty.Exec.
Import ListNotations.
Open Scope string_scope.

(* f64 from mantissa * 2^exponent (exact for |m| < 2^53), with sign *)
Definition fb (m : Z) (e : Z) (neg : bool) : float :=
  let f := PrimFloat.ldshiftexp (PrimFloat.of_uint63 (Uint63.of_Z m)) (Uint63.of_Z (e + 2101)) in
  if neg then PrimFloat.opp f else f.

(* compiler-rt __powidf2 *)
Fixpoint powi_pos (a : float) (p : positive) (r : float) : float :=
  match p with
  | xH => PrimFloat.mul r a
  | xO p' => powi_pos (PrimFloat.mul a a) p' r
  | xI p' => powi_pos (PrimFloat.mul a a) p' (PrimFloat.mul r a)
  end.
Definition f_powi (x : float) (z : Z) : float :=
  match z with
  | Z0 => PrimFloat.one
  | Zpos p => powi_pos x p PrimFloat.one
  | Zneg p => PrimFloat.div PrimFloat.one (powi_pos x p PrimFloat.one)
  end.

Definition f_pow (x : float) (e : Qc) : float :=
  if Qc_eqb e (Qc_of_Z 1) then x
  else if Qc_eqb e 0%Qc then PrimFloat.one
  else if PrimFloat.eqb x PrimFloat.one then PrimFloat.one
  else PrimFloat.nan.

Definition f_prefix (p : prefix) : float :=
  match p with
  | Metric e => f_powi (fb 10 0 false) e
  | Binary e => f_powi (fb 2 0 false) e
  end.

Definition f_cmp (x y : float) : option comparison :=
  match PrimFloat.compare x y with
  | FEq => Some Eq | FLt => Some Lt | FGt => Some Gt | FNotComparable => None
  end.

Definition FN : numops float :=
  mkNum float PrimFloat.one PrimFloat.add PrimFloat.sub PrimFloat.mul PrimFloat.div PrimFloat.opp
        f_pow f_prefix
        (fun x => PrimFloat.eqb x PrimFloat.zero) PrimFloat.is_nan PrimFloat.eqb PrimFloat.leb
        f_cmp PrimFloat.abs.

Record envF := mkEnvF { ef_tbl : table float; ef_res : resolved (T := float); ef_keys : list skey }.
Definition make_envF (tbl : table float) : envF :=
  let res := resolve FN tbl in mkEnvF tbl res (all_keys FN tbl res).

(* bit equality (distinguishes the sign of zero; all NaNs are identified) *)
Definition sf_eqb (a b : SpecFloat.spec_float) : bool :=
  match a, b with
  | SpecFloat.S754_zero s, SpecFloat.S754_zero t => Bool.eqb s t
  | SpecFloat.S754_infinity s, SpecFloat.S754_infinity t => Bool.eqb s t
  | SpecFloat.S754_nan, SpecFloat.S754_nan => true
  | SpecFloat.S754_finite s m e, SpecFloat.S754_finite t n f => Bool.eqb s t && Pos.eqb m n && Z.eqb e f
  | _, _ => false
  end.
Definition f_same (x y : float) : bool := sf_eqb (Prim2SF x) (Prim2SF y).

Definition show_sf (x : float) : string :=
  match Prim2SF x with
  | SpecFloat.S754_zero s => if s then "-0" else "0"
  | SpecFloat.S754_infinity s => if s then "-inf" else "inf"
  | SpecFloat.S754_nan => "nan"
  | SpecFloat.S754_finite s m e => (if s then "-" else "") ++ show_N (Npos m) ++ "p" ++ show_Z e
  end.

Definition show_factorF (E : envF) (f : ufactor) : string :=
  row_name (ef_tbl E) (f_uid f) ++ "/" ++ show_pfx (f_pfx f) ++ "/"
    ++ show_Z (Qnum (f_exp f)) ++ "/" ++ show_N (Npos (Qden (f_exp f))).
Definition show_unitF (E : envF) (u : unit) : string :=
  match u with [] => "-" | _ => join "," (map (show_factorF E) u) end.

Definition QF (m e : Z) (neg : bool) (u : unit) : quantity (T := float) := qnew (fb m e neg) u.
Definition QFnan (u : unit) : quantity (T := float) := qnew PrimFloat.nan u.
Definition QFinf (neg : bool) (u : unit) : quantity (T := float) :=
  qnew (if neg then PrimFloat.neg_infinity else PrimFloat.infinity) u.

Section RunF.
  Variable E : envF.
  Let tbl := ef_tbl E. Let res := ef_res E. Let keys := ef_keys E.

  (* taint: a unit whose size involves a libm power *)
  Definition tainted (u : unit) : bool := PrimFloat.is_nan (unit_factor FN res u).
  Definition guardF (us : list unit) (s : string) : string :=
    if existsb tainted us then "OOS" else s.

  Definition rf_eq (a b : quantity) : string :=
    guardF [q_unit a; q_unit b] ("B:" ++ show_bool (qeq FN tbl res keys a b)).
  Definition rf_cmp (a b : quantity) : string :=
    guardF [q_unit a; q_unit b] (show_ord (pcmp FN tbl res keys a b)).
  (* result of a + b / a - b / a -> u: "ok:unit" iff the magnitude has exactly the bits of [impl] *)
  Definition show_qF (impl : float) (r : res_t (quantity (T := float))) : string :=
    match r with
    | Ok q => (if f_same (q_val q) impl then "ok" else "val=" ++ show_sf (q_val q)) ++ ":" ++ show_unitF E (q_unit q)
    | Err e => show_err e
    end.
  Definition rf_add (impl : float) (a b : quantity) : string :=
    guardF [q_unit a; q_unit b] (show_qF impl (qadd FN tbl res keys a b)).
  Definition rf_sub (impl : float) (a b : quantity) : string :=
    guardF [q_unit a; q_unit b] (show_qF impl (qsub FN tbl res keys a b)).
  Definition rf_conv (impl : float) (a : quantity) (u : unit) : string :=
    guardF [q_unit a; u] (show_qF impl (convert_to FN tbl res keys a u)).
End RunF.
