(* Qty/DemoF.v — the demo table with kernel floats, for the kernel-computed
   float-exact examples of Props/C11.v and Props/C12.v. *)
From Coq Require Import List ZArith QArith Qcanon String Bool.
From NV Require Import Qty.Model Qty.Exec Qty.FloatExact.
Import ListNotations.
Open Scope string_scope.

(* 0 metre, 1 second, 2 gram, 3 inch = 0.0254 m (7321051554253478 * 2^-58), 4 foot = 12 inch,
   5 minute = 60 s, 6 hour = 60 min *)
Definition demo_tblF : table float := [
  mkRow "metre" Base;
  mkRow "second" Base;
  mkRow "gram" Base;
  mkRow "inch" (Derived (fb 7321051554253478 (-58) false) [mkF 0 (Metric 0) (Qc_of_Z 1)]);
  mkRow "foot" (Derived (fb 12 0 false) [mkF 3 (Metric 0) (Qc_of_Z 1)]);
  mkRow "minute" (Derived (fb 60 0 false) [mkF 1 (Metric 0) (Qc_of_Z 1)]);
  mkRow "hour" (Derived (fb 60 0 false) [mkF 5 (Metric 0) (Qc_of_Z 1)])
]%list.
Definition DF_env : envF := make_envF demo_tblF.
Definition DF_res := ef_res DF_env.
Definition DF_keys := ef_keys DF_env.
Definition uf (i : nat) : unit := [mkF i (Metric 0) (Qc_of_Z 1)].
Definition qf (z : Z) (u : unit) : quantity (T := float) := qnew (fb z 0 false) u.
