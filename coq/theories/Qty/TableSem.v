(* Qty/TableSem.v — the resolved table (UnitIdentifier::base_unit_and_factor of
   every unit) satisfies the defining equations of dimensional analysis:

     base unit b        : scale b = 1,            dim b = e_b
     unit u = f * D     : scale u = f * Den D,    dim u = dimv D

   and every scale is positive when every conversion factor is positive and
   the definitions have integer exponents. *)
From Coq Require Import List ZArith QArith Qcanon Bool Lia Field Arith.
From NV Require Import Qty.Model Qty.Exec Qty.NumFacts Qty.Proofs.
Import ListNotations.
Local Open Scope Qc_scope.

Definition all_pos (res : resolved (T := Qc)) : Prop := Forall (fun p => 0 < snd p) res.

Lemma all_pos_scale res : all_pos res -> forall i, 0 < scale res i.
Proof.
  intros H i. unfold scale, res_get.
  destruct (nth_in_or_default i res ([], n_one QcN)) as [Hin | Hd].
  - unfold all_pos in H. rewrite Forall_forall in H. apply H, Hin.
  - rewrite Hd. reflexivity.
Qed.

Lemma def_product_eq res def :
  def_product QcN res def = (expand res def, Den res def).
Proof.
  unfold def_product. etransitivity; [exact (to_base_raw_gen res def [] 1) |]. simpl. f_equal. ring.
Qed.

Lemma resolve_row_pos res i r :
  all_pos res -> row_int r = true -> row_pos r = true -> 0 < snd (resolve_row QcN res i r).
Proof.
  intros Hp Hi Hf. unfold resolve_row, row_int, row_pos in *.
  destruct (u_kind r) as [|f def]; [reflexivity|].
  rewrite def_product_eq. simpl. apply Qc_mult_pos.
  - apply Qc_ltb_lt, Hf.
  - apply Den_pos; [apply all_pos_scale, Hp | exact Hi].
Qed.

Lemma resolve_from_pos rows : forall res i,
  all_pos res -> forallb row_int rows = true -> forallb row_pos rows = true ->
  all_pos (resolve_from QcN res i rows).
Proof.
  induction rows as [|r rest IH]; intros res i Hp Hi Hf; simpl; [exact Hp|].
  simpl in Hi, Hf. apply andb_true_iff in Hi. apply andb_true_iff in Hf.
  destruct Hi as [Hi1 Hi2]. destruct Hf as [Hf1 Hf2].
  apply IH; try assumption.
  unfold all_pos. apply Forall_app. split; [exact Hp|].
  constructor; [|constructor]. apply resolve_row_pos; assumption.
Qed.

Theorem resolve_pos tbl :
  int_table tbl = true -> pos_table tbl = true -> forall i, 0 < scale (resolve QcN tbl) i.
Proof.
  intros Hi Hf. apply all_pos_scale. unfold resolve.
  apply resolve_from_pos; [constructor | exact Hi | exact Hf].
Qed.

(* ---- structure of resolve: row k is resolved against the first k results *)
Lemma resolve_from_app rows : forall res i,
  exists tail, resolve_from QcN res i rows = res ++ tail /\ List.length tail = List.length rows.
Proof.
  induction rows as [|r rest IH]; intros res i; simpl.
  - exists []. rewrite app_nil_r. auto.
  - destruct (IH (res ++ [resolve_row QcN res i r]) (S i)) as (tail & E & L).
    exists (resolve_row QcN res i r :: tail). rewrite E, <- app_assoc. simpl. auto.
Qed.

Lemma resolve_from_nth rows : forall res j r,
  nth_error rows j = Some r ->
  let out := resolve_from QcN res (List.length res) rows in
  nth_error out (List.length res + j)
  = Some (resolve_row QcN (firstn (List.length res + j) out) (List.length res + j) r).
Proof.
  induction rows as [|r0 rest IH]; intros res j r Hj; [destruct j; discriminate|].
  simpl. destruct j as [|j].
  - simpl in Hj. injection Hj as <-. rewrite Nat.add_0_r.
    destruct (resolve_from_app rest (res ++ [resolve_row QcN res (List.length res) r0])
                               (S (List.length res))) as (tail & E & _).
    rewrite E. rewrite <- app_assoc. simpl.
    rewrite nth_error_app2 by lia. rewrite Nat.sub_diag. simpl.
    rewrite firstn_app, firstn_all, Nat.sub_diag. simpl. rewrite app_nil_r. reflexivity.
  - simpl in Hj.
    specialize (IH (res ++ [resolve_row QcN res (List.length res) r0]) j r Hj).
    rewrite app_length in IH. simpl in IH.
    replace (List.length res + 1 + j)%nat with (List.length res + S j)%nat in IH by lia.
    replace (List.length res + 1)%nat with (S (List.length res)) in IH by lia.
    exact IH.
Qed.

Lemma resolve_nth tbl k r :
  nth_error tbl k = Some r ->
  nth_error (resolve QcN tbl) k
  = Some (resolve_row QcN (firstn k (resolve QcN tbl)) k r).
Proof.
  intros H. unfold resolve. apply (resolve_from_nth tbl [] k r H).
Qed.

(* agreement of two resolved tables below an index *)
Lemma res_get_firstn res k i : (i < k)%nat -> res_get QcN (firstn k res) i = res_get QcN res i.
Proof.
  intros H. unfold res_get. revert k i H. induction res as [|x r IH]; intros k i H.
  - rewrite firstn_nil. reflexivity.
  - destruct k; [lia|]. destruct i; [reflexivity|]. simpl. apply IH. lia.
Qed.

Lemma Den_firstn res k u : unit_in k u = true -> Den (firstn k res) u = Den res u.
Proof.
  induction u as [|f r IH]; [reflexivity|]. unfold unit_in in *. simpl.
  rewrite andb_true_iff. intros [Hf Hr]. apply Nat.ltb_lt in Hf.
  rewrite IH by exact Hr. f_equal. unfold fden, fbase, scale. rewrite res_get_firstn by exact Hf.
  reflexivity.
Qed.

Lemma expand_firstn res k u : unit_in k u = true -> expand (firstn k res) u = expand res u.
Proof.
  induction u as [|f r IH]; [reflexivity|]. unfold unit_in in *. simpl.
  rewrite andb_true_iff. intros [Hf Hr]. apply Nat.ltb_lt in Hf.
  rewrite IH by exact Hr. f_equal. unfold bu. rewrite res_get_firstn by exact Hf. reflexivity.
Qed.

Lemma wf_rows_nth rows : forall i k r,
  wf_rows (T := Qc) i rows = true -> nth_error rows k = Some r ->
  match u_kind r with Base => True | Derived _ def => unit_in (i + k) def = true end.
Proof.
  induction rows as [|r0 rest IH]; intros i k r Hw Hk; [destruct k; discriminate|].
  simpl in Hw. apply andb_true_iff in Hw. destruct Hw as [H0 Hr]. destruct k as [|k].
  - simpl in Hk. injection Hk as <-. rewrite Nat.add_0_r. destruct (u_kind r0); [exact I | exact H0].
  - simpl in Hk. specialize (IH (S i) k r Hr Hk).
    replace (i + S k)%nat with (S i + k)%nat by lia. exact IH.
Qed.

Section Sem.
  Variable tbl : table Qc.
  Hypothesis Hwf : wf_table tbl = true.
  Let res := resolve QcN tbl.

  Lemma res_get_row k r : nth_error tbl k = Some r ->
    res_get QcN res k = resolve_row QcN (firstn k res) k r.
  Proof.
    intros H. unfold res_get. apply nth_error_nth. apply resolve_nth, H.
  Qed.

  (* a base unit has scale 1 and is its own dimension *)
  Theorem scale_base k r : nth_error tbl k = Some r -> u_kind r = Base ->
    scale res k = 1 /\ forall x, dim res k x = (if Nat.eqb k x then 1 else 0).
  Proof.
    intros H B. unfold scale, dim, bu. rewrite (res_get_row k r H). unfold resolve_row. rewrite B.
    simpl. split; [reflexivity|]. intros x. destruct (Nat.eqb k x); [ring_simplify|]; reflexivity.
  Qed.

  (* a derived unit  u = factor * D  has scale factor * Den D and the dimension of D *)
  Theorem scale_derived k r f def : nth_error tbl k = Some r -> u_kind r = Derived f def ->
    scale res k = f * Den res def /\ forall x, dim res k x = dimv res def x.
  Proof.
    intros H D. unfold scale, dim, bu. rewrite (res_get_row k r H). unfold resolve_row. rewrite D.
    rewrite def_product_eq. simpl.
    pose proof (wf_rows_nth tbl 0 k r Hwf H) as W. rewrite D in W. simpl in W.
    split.
    - rewrite Den_firstn by exact W. reflexivity.
    - intros x. rewrite expand_firstn by exact W. apply bvec_expand.
  Qed.
End Sem.
