(* Qty/PreludeF.v — the dumped unit table with kernel floats (generated
   Gen/PreludeUnitsF.v), environment precomputed by vm_compute. *)
From NV Require Export Qty.Model Qty.Exec Qty.FloatExact Gen.PreludeUnitsF.
Definition PF_env : envF := Eval vm_compute in make_envF prelude_tblF.
