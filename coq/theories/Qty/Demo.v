(* Qty/Demo.v — a small hand-written unit table used by the non-vacuity
   examples of Props/C03 C04 C05 C11 C12 C21 (independent of the generated table). *)
From Coq Require Import List ZArith QArith Qcanon String Bool.
From NV Require Import Qty.Model Qty.Exec.
Import ListNotations.
Open Scope string_scope.

(* 0 metre, 1 second, 2 gram, 3 inch = 0.0254 m (the f64 nearest to 0.0254),
   4 foot = 12 inch, 5 minute = 60 s, 6 hour = 60 min, 7 newton = kg m / s^2,
   8 hertz = 1/s, 9 percent = 0.01 *)
Definition demo_tbl : table Qc := [
  mkRow "metre" Base;
  mkRow "second" Base;
  mkRow "gram" Base;
  mkRow "inch" (Derived (Q2Qc (Qmake 3660525777126739 144115188075855872)) [mkF 0 (Metric 0) (Qc_of_Z 1)]);
  mkRow "foot" (Derived (Qc_of_Z 12) [mkF 3 (Metric 0) (Qc_of_Z 1)]);
  mkRow "minute" (Derived (Qc_of_Z 60) [mkF 1 (Metric 0) (Qc_of_Z 1)]);
  mkRow "hour" (Derived (Qc_of_Z 60) [mkF 5 (Metric 0) (Qc_of_Z 1)]);
  mkRow "newton" (Derived (Qc_of_Z 1) [mkF 2 (Metric 3) (Qc_of_Z 1); mkF 0 (Metric 0) (Qc_of_Z 1);
                                       mkF 1 (Metric 0) (Qc_of_Z (-2))]);
  mkRow "hertz" (Derived (Qc_of_Z 1) [mkF 1 (Metric 0) (Qc_of_Z (-1))]);
  mkRow "percent" (Derived (Q2Qc (Qmake 1 100)) [])
]%list.

Definition D_env : env := make_env demo_tbl.
Definition D_res := e_res D_env.
Definition D_keys := e_keys D_env.

Definition u1 (i : nat) : unit := [mkF i (Metric 0) (Qc_of_Z 1)].
Definition up (i : nat) (p : Z) (e : Z) : ufactor := mkF i (Metric p) (Qc_of_Z e).
Definition qz (z : Z) (u : unit) : quantity (T := Qc) := qnew (Qc_of_Z z) u.

Lemma demo_wf : wf_table demo_tbl = true. Proof. vm_compute. reflexivity. Qed.
Lemma demo_int : int_table demo_tbl = true. Proof. vm_compute. reflexivity. Qed.
Lemma demo_pos : pos_table demo_tbl = true. Proof. vm_compute. reflexivity. Qed.
Lemma demo_res : D_res = resolve QcN demo_tbl. Proof. reflexivity. Qed.
