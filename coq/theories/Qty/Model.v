(* Qty/Model.v — executable model of numbat's units and quantities.

   Mirrors (file: function), as the code is:
     prefix.rs   : Prefix, Prefix::factor
     product.rs  : Product::{mul, div, power, invert, canonicalize, PartialEq}
     unit.rs     : UnitIdentifier::{base_unit_and_factor, sort_key, Ord},
                   UnitFactor (derived Ord / PartialEq, Canonicalize),
                   Unit::{to_base_unit_representation, smaller_unit}, is_multiple_of
     quantity.rs : Quantity::{new, convert_to, checked_power, checked_div, full_simplify,
                   no_simplify, with_conversion_target, partial_cmp_preserve_nan},
                   impl Add/Sub for &Quantity, Mul, Div, Neg, PartialEq
     vm.rs       : Op::ConvertTo, Op::LessThan .. Op::NotEqual

   Magnitudes are abstract (a record of operations [numops]); the executable
   exact instance (rationals) is in Exec.v.  No proofs in this file.

   Encoding: Rust's UnitIdentifier carries its definition by value (a finite
   tree).  Here a unit identifier is an index into a definition table whose
   rows refer to earlier rows ([wf_table]); identifier equality is index
   equality (the prelude's unit names are pairwise distinct, table lemma). *)
From Coq Require Import List ZArith QArith Qcanon String Bool Arith.
Import ListNotations.
Open Scope Z_scope.

(* ------------------------------------------------------------------ prefixes *)
Inductive prefix := Metric (e : Z) | Binary (e : Z).

Definition prefix_eqb (p q : prefix) : bool :=
  match p, q with
  | Metric a, Metric b => Z.eqb a b
  | Binary a, Binary b => Z.eqb a b
  | _, _ => false
  end.

(* #[derive(Ord)] on the enum: Metric(_) < Binary(_), then the exponent *)
Definition prefix_cmp (p q : prefix) : comparison :=
  match p, q with
  | Metric a, Metric b => Z.compare a b
  | Metric _, Binary _ => Lt
  | Binary _, Metric _ => Gt
  | Binary a, Binary b => Z.compare a b
  end.

Definition prefix_none : prefix := Metric 0.

Definition cmp_eqb (x y : comparison) : bool :=
  match x, y with
  | Eq, Eq | Lt, Lt | Gt, Gt => true
  | _, _ => false
  end.

Definition bool_cmp (a b : bool) : comparison :=
  match a, b with
  | false, true => Lt
  | true, false => Gt
  | _, _ => Eq
  end.

(* ------------------------------------------------------------------ numbers *)
Record numops (T : Type) := mkNum {
  n_one : T;                              (* Number::from_f64(1.0) *)
  n_add : T -> T -> T;
  n_sub : T -> T -> T;
  n_mul : T -> T -> T;
  n_div : T -> T -> T;
  n_neg : T -> T;
  n_pow : T -> Qc -> T;                   (* Number::pow (powf; exponent.to_f64()) *)
  n_prefix : prefix -> T;                 (* Prefix::factor: 10^e / 2^e *)
  n_is_zero : T -> bool;                  (* to_f64() == 0.0 *)
  n_is_nan : T -> bool;
  n_eqb : T -> T -> bool;                 (* f64 == *)
  n_leb : T -> T -> bool;                 (* f64 <= *)
  n_cmp : T -> T -> option comparison;    (* f64 partial_cmp *)
  n_abs : T -> T                          (* f64::abs *)
}.
Arguments n_one {T}. Arguments n_add {T}. Arguments n_sub {T}. Arguments n_mul {T}.
Arguments n_div {T}. Arguments n_neg {T}. Arguments n_pow {T}. Arguments n_prefix {T}.
Arguments n_is_zero {T}. Arguments n_is_nan {T}. Arguments n_eqb {T}. Arguments n_leb {T}.
Arguments n_cmp {T}. Arguments n_abs {T}.

(* ------------------------------------------------------------------ units *)
Record ufactor := mkF { f_uid : nat; f_pfx : prefix; f_exp : Qc }.
Definition unit := list ufactor.

Inductive ukind (T : Type) := Base | Derived (factor : T) (def : unit).
Arguments Base {T}. Arguments Derived {T}.
Record urow (T : Type) := mkRow { u_name : string; u_kind : ukind T }.
Arguments u_name {T}. Arguments u_kind {T}. Arguments mkRow {T}.
Definition table (T : Type) := list (urow T).

Definition Qc_eqb (a b : Qc) : bool := Qeq_bool a b.
Definition Qc_cmp (a b : Qc) : comparison := (a ?= b)%Qc.
Definition Qc_ltb (a b : Qc) : bool := match Qc_cmp a b with Lt => true | _ => false end.
Definition Qc_is_int (a : Qc) : bool := Pos.eqb (Qden a) 1.
Definition Qc_of_Z (z : Z) : Qc := Q2Qc (inject_Z z).
Definition Qc_min (a b : Qc) : Qc := if Qc_ltb b a then b else a.   (* std::cmp::min *)
Definition Qc_max (a b : Qc) : Qc := if Qc_ltb b a then a else b.   (* std::cmp::max *)

(* #[derive(PartialEq)] on UnitFactor (identifier equality = index equality) *)
Definition ufactor_eqb (a b : ufactor) : bool :=
  Nat.eqb (f_uid a) (f_uid b) && prefix_eqb (f_pfx a) (f_pfx b) && Qc_eqb (f_exp a) (f_exp b).

(* Canonicalize::merge_key = (prefix, unit_id) *)
Definition same_key (a b : ufactor) : bool :=
  prefix_eqb (f_pfx a) (f_pfx b) && Nat.eqb (f_uid a) (f_uid b).

Fixpoint list_eqb {A} (eqb : A -> A -> bool) (l1 l2 : list A) : bool :=
  match l1, l2 with
  | [], [] => true
  | x :: r1, y :: r2 => eqb x y && list_eqb eqb r1 r2
  | _, _ => false
  end.

(* Power for UnitFactor / Product *)
Definition fpower (e : Qc) (f : ufactor) : ufactor :=
  mkF (f_uid f) (f_pfx f) (f_exp f * e)%Qc.
Definition upower (u : unit) (e : Qc) : unit := map (fpower e) u.
Definition uinvert (u : unit) : unit := upower u (Qc_of_Z (-1)).
Definition umul (a b : unit) : unit := a ++ b.                 (* Vec::append, CANONICALIZE = false *)
Definition udiv (a b : unit) : unit := a ++ uinvert b.         (* self * other.invert() *)

(* ---- sort keys: Vec<(CompactString, Exponent)>, compared lexicographically *)
Definition skey := list (string * Qc).

Fixpoint skey_cmp (a b : skey) : comparison :=
  match a, b with
  | [], [] => Eq
  | [], _ :: _ => Lt
  | _ :: _, [] => Gt
  | (s1, e1) :: r1, (s2, e2) :: r2 =>
      match String.compare s1 s2 with
      | Eq => match Qc_cmp e1 e2 with Eq => skey_cmp r1 r2 | c => c end
      | c => c
      end
  end.

Section Canon.
  (* Ord for UnitFactor: unit_id (by sort_key), then prefix, then exponent *)
  Variable key : nat -> skey.

  Definition ufactor_cmp (a b : ufactor) : comparison :=
    match skey_cmp (key (f_uid a)) (key (f_uid b)) with
    | Eq => match prefix_cmp (f_pfx a) (f_pfx b) with
            | Eq => Qc_cmp (f_exp a) (f_exp b)
            | c => c
            end
    | c => c
    end.

  Definition ufactor_leb (a b : ufactor) : bool :=
    match ufactor_cmp a b with Gt => false | _ => true end.

  (* sort_unstable is modelled by a stable insertion sort; the theorems about
     canonicalize hold for any sorting function that returns a permutation *)
  Fixpoint insert_sorted (x : ufactor) (l : list ufactor) : list ufactor :=
    match l with
    | [] => [x]
    | y :: r => if ufactor_leb x y then x :: l else y :: insert_sorted x r
    end.
  Definition sort_factors (l : list ufactor) : list ufactor :=
    fold_right insert_sorted [] l.
End Canon.

(* chunk_by(merge_key) + reduce(merge): adjacent factors with the same key are
   merged by adding exponents *)
Fixpoint merge_adjacent (l : list ufactor) : list ufactor :=
  match l with
  | [] => []
  | x :: r =>
      match merge_adjacent r with
      | [] => [x]
      | y :: r' =>
          if same_key x y then mkF (f_uid x) (f_pfx x) (f_exp x + f_exp y)%Qc :: r'
          else x :: y :: r'
      end
  end.
(* NB: reduce folds from the left (((a+b)+c)); the sum is the same rational *)

Definition nontrivial (f : ufactor) : bool := negb (Qc_eqb (f_exp f) 0%Qc).

Definition canon_sorted_by (sort : list ufactor -> list ufactor) (u : unit) : unit :=
  filter nontrivial (merge_adjacent (sort u)).

Definition canon_with (key : nat -> skey) (u : unit) : unit :=
  canon_sorted_by (sort_factors key) u.

Definition unit_eq_with (key : nat -> skey) (a b : unit) : bool :=
  list_eqb ufactor_eqb (canon_with key a) (canon_with key b).

(* ------------------------------------------------------------------ tables *)
Section Tbl.
  Context {T : Type}.
  Variable N : numops T.
  Variable tbl : table T.

  Definition row_name (i : nat) : string :=
    match nth_error tbl i with Some r => u_name r | None => EmptyString end.

  (* sort_key of a base unit *)
  Definition base_key (i : nat) : skey := [(row_name i, Qc_of_Z 1)].

  (* base_unit_and_factor of every row, computed in table order.
     res : per row (base unit as a factor list over base units, factor) *)
  Definition resolved := list (unit * T).

  Definition res_get (res : resolved) (i : nat) : unit * T :=
    nth i res ([], n_one N).

  (* Iterator::product over the factors of the defining unit:
     units are concatenated, numbers folded from 1.0 *)
  Definition def_product (res : resolved) (def : unit) : unit * T :=
    fold_left (fun acc f =>
                 let '(bu, bf) := res_get res (f_uid f) in
                 (umul (fst acc) (upower bu (f_exp f)),
                  n_mul N (snd acc) (n_pow N (n_mul N (n_prefix N (f_pfx f)) bf) (f_exp f))))
              def ([], n_one N).

  Definition resolve_row (res : resolved) (i : nat) (r : urow T) : unit * T :=
    match u_kind r with
    | Base => ([mkF i prefix_none (Qc_of_Z 1)], n_one N)
    | Derived factor def =>
        let '(bu, df) := def_product res def in (bu, n_mul N factor df)
    end.

  Fixpoint resolve_from (res : resolved) (i : nat) (rows : list (urow T)) : resolved :=
    match rows with
    | [] => res
    | r :: rest => resolve_from (res ++ [resolve_row res i r]) (S i) rest
    end.

  Definition resolve : resolved := resolve_from [] 0 tbl.

  (* rows only refer to earlier rows *)
  Fixpoint wf_rows (i : nat) (rows : list (urow T)) : bool :=
    match rows with
    | [] => true
    | r :: rest =>
        match u_kind r with
        | Base => true
        | Derived _ def => forallb (fun f => Nat.ltb (f_uid f) i) def
        end && wf_rows (S i) rest
    end.
  Definition wf_table : bool := wf_rows 0 tbl.

  Definition is_base (i : nat) : bool :=
    match nth_error tbl i with
    | Some r => match u_kind r with Base => true | _ => false end
    | None => false
    end.

  (* ---- Unit::to_base_unit_representation *)
  Definition to_base_raw (res : resolved) (u : unit) : unit * T :=
    fold_left (fun acc f =>
                 let '(bu, bf) := res_get res (f_uid f) in
                 (umul (fst acc) (upower bu (f_exp f)),
                  n_mul N (snd acc) (n_pow N (n_mul N (n_prefix N (f_pfx f)) bf) (f_exp f))))
              u ([], n_one N).

  Definition to_base (res : resolved) (u : unit) : unit * T :=
    let '(b, f) := to_base_raw res u in (canon_with base_key b, f).

  (* ---- UnitIdentifier::sort_key *)
  Definition key_negate (k : skey) : skey := map (fun p => (fst p, (- snd p)%Qc)) k.
  Definition key_scale (c : Qc) (k : skey) : skey := map (fun p => (fst p, (snd p * c)%Qc)) k.
  Definition key_div (c : Qc) (k : skey) : skey := map (fun p => (fst p, (snd p / c)%Qc)) k.
  Definition qc_to_integer (q : Qc) : Z := Z.quot (Qnum q) (Zpos (Qden q)).  (* Ratio::to_integer: trunc *)

  Definition normalize_key (k : skey) : skey :=
    match k with
    | [] => []
    | (_, e0) :: _ =>
        let k1 := if Qc_ltb e0 0%Qc then key_negate k else k in
        let factor := fold_left (fun (a : Z) (p : string * Qc) => (a * Zpos (Qden (snd p)))%Z) k1 1%Z in
        let k2 := key_scale (Qc_of_Z factor) k1 in
        match k2 with
        | [] => []
        | (_, f0) :: rest =>
            (* num_integer gcd: non-negative *)
            let g := fold_left (fun (a : Z) (p : string * Qc) => Z.gcd a (qc_to_integer (snd p))) rest (Z.abs (qc_to_integer f0)) in
            key_div (Qc_of_Z g) k2
        end
    end.

  Definition sort_key (res : resolved) (i : nat) : skey :=
    match nth_error tbl i with
    | None => []
    | Some r =>
        match u_kind r with
        | Base => [(u_name r, Qc_of_Z 1)]
        | Derived _ def =>
            let base_unit := fst (to_base res def) in
            normalize_key (map (fun f => (row_name (f_uid f), f_exp f))
                               (canon_with base_key base_unit))
        end
    end.

  (* sort keys of all rows, computed once *)
  Definition all_keys (res : resolved) : list skey := map (sort_key res) (seq 0 (List.length tbl)).
  Definition key_of (keys : list skey) (i : nat) : skey := nth i keys [].

  (* ---------------------------------------------------------------- quantities *)
  Record quantity := mkQ {
    q_val : T;
    q_unit : unit;
    q_simp : bool;                         (* can_simplify *)
    q_target : option (T * unit)           (* conversion_target (value, unit) *)
  }.
  Definition qnew (v : T) (u : unit) : quantity := mkQ v u true None.   (* Quantity::new *)
  Definition from_unit (u : unit) : quantity := qnew (n_one N) u.
  Definition q_is_zero (q : quantity) : bool := n_is_zero N (q_val q).

  Inductive qerror := IncompatibleUnits | DivisionByZero | Panic.
  Inductive res_t (A : Type) := Ok (a : A) | Err (e : qerror).
  Arguments Ok {A}. Arguments Err {A}.

  Definition bind {A B} (r : res_t A) (f : A -> res_t B) : res_t B :=
    match r with Ok a => f a | Err e => Err e end.

  Section Ops.
    Variable res : resolved.
    Variable keys : list skey.
    Let key := key_of keys.
    Definition canon (u : unit) : unit := canon_with key u.
    Definition unit_eq (a b : unit) : bool := unit_eq_with key a b.

    Definition unit_factor (u : unit) : T := snd (to_base_raw res u).

    (* Unit::smaller_unit *)
    Definition smaller_unit (a b : unit) : unit :=
      if n_leb N (unit_factor a) (unit_factor b) then a else b.

    (* the common-factor heuristic of convert_to *)
    Definition common_factors (own_c target_c : unit) : unit :=
      fold_left (fun common factor =>
                   match find (fun f => prefix_eqb (f_pfx factor) (f_pfx f)
                                        && Nat.eqb (f_uid factor) (f_uid f)) target_c with
                   | Some other =>
                       if Qc_ltb 0%Qc (f_exp factor) && Qc_ltb 0%Qc (f_exp other) then
                         umul common [mkF (f_uid factor) (f_pfx factor) (Qc_min (f_exp factor) (f_exp other))]
                       else if Qc_ltb (f_exp factor) 0%Qc && Qc_ltb (f_exp other) 0%Qc then
                         umul common [mkF (f_uid factor) (f_pfx factor) (Qc_max (f_exp factor) (f_exp other))]
                       else common
                   | None => common
                   end) own_c [].

    (* Quantity::convert_to *)
    Definition convert_to (q : quantity) (target : unit) : res_t quantity :=
      if unit_eq (q_unit q) target || q_is_zero q then Ok (qnew (q_val q) target)
      else
        let common := common_factors (canon (q_unit q)) (canon target) in
        let target_reduced := canon (udiv target common) in
        let own_reduced := canon (udiv (q_unit q) common) in
        let '(target_base, factor) := to_base res target_reduced in
        (* (self / from_unit(common)).to_base_unit_representation() *)
        let qb_val := n_mul N (n_div N (q_val q) (n_one N))
                            (unit_factor (udiv (q_unit q) common)) in
        let own_base := fst (to_base res own_reduced) in
        if unit_eq own_base target_base then Ok (qnew (n_div N qb_val factor) target)
        else Err IncompatibleUnits.

    (* impl Add / Sub for &Quantity *)
    Definition qneg (q : quantity) : quantity := qnew (n_neg N (q_val q)) (q_unit q).

    Definition qaddsub (op : T -> T -> T) (zero_lhs : quantity -> quantity)
               (a b : quantity) : res_t quantity :=
      if q_is_zero a then Ok (zero_lhs b)
      else if q_is_zero b then Ok a
      else if unit_eq (q_unit a) (q_unit b) then Ok (qnew (op (q_val a) (q_val b)) (q_unit a))
      else
        let r := smaller_unit (q_unit a) (q_unit b) in
        bind (convert_to a r) (fun a' =>
        bind (convert_to b r) (fun b' =>
        Ok (qnew (op (q_val a') (q_val b')) r))).

    Definition qadd := qaddsub (n_add N) (fun b => b).
    Definition qsub := qaddsub (n_sub N) qneg.

    Definition qmul (a b : quantity) : quantity :=
      qnew (n_mul N (q_val a) (q_val b)) (umul (q_unit a) (q_unit b)).
    Definition qdiv_raw (a b : quantity) : quantity :=
      qnew (n_div N (q_val a) (q_val b)) (udiv (q_unit a) (q_unit b)).
    (* checked_div as used by Op::Divide *)
    Definition qdiv (a b : quantity) : res_t quantity :=
      if q_is_zero b then Err DivisionByZero else Ok (qdiv_raw a b).

    (* checked_power with an integer-valued scalar exponent n
       (Rational::from_f64 of an integral f64 is that integer) *)
    Definition qpow (a : quantity) (n : Z) : res_t quantity :=
      if Z.ltb n 0 && q_is_zero a then Err DivisionByZero
      else Ok (qnew (n_pow N (q_val a) (Qc_of_Z n)) (upower (q_unit a) (Qc_of_Z n))).

    (* Quantity::symmetric_partial_cmp: each operand is converted to the unit of the
       other one; the two comparisons have to agree, otherwise the quantities differ
       only by rounding and count as equal.  Err = incompatible units, Ok None = NaN *)
    Definition sym_cmp (a b : quantity) : res_t (option comparison) :=
      let in_own_unit :=
          match convert_to b (q_unit a) with
          | Ok b' => Ok (n_cmp N (q_val a) (q_val b'))
          | Err e => Err e
          end in
      let in_other_unit :=
          match convert_to a (q_unit b) with
          | Ok a' => Ok (n_cmp N (q_val a') (q_val b))
          | Err e => Err e
          end in
      match in_own_unit, in_other_unit with
      | Ok (Some c1), Ok (Some c2) => if cmp_eqb c1 c2 then Ok (Some c1) else Ok (Some Eq)
      | Ok None, _ => Ok None
      | _, Ok None => Ok None
      | Ok c, Err _ => Ok c                      (* only one direction: a zero value *)
      | Err _, Ok c => Ok c
      | Err _, Err _ => Err IncompatibleUnits
      end.

    (* impl PartialEq for Quantity *)
    Definition qeq (a b : quantity) : bool :=
      match sym_cmp a b with Ok (Some Eq) => true | _ => false end.
    Definition qne (a b : quantity) : bool := negb (qeq a b).   (* default PartialEq::ne *)

    (* impl PartialOrd for Quantity *)
    Definition q_partial_cmp (a b : quantity) : option comparison :=
      match sym_cmp a b with Ok c => c | Err _ => None end.

    (* Quantity::partial_cmp_preserve_nan *)
    Inductive qordering := OIncompatible | ONan | OOk (c : comparison).
    Definition pcmp (a b : quantity) : qordering :=
      if n_is_nan N (q_val a) || n_is_nan N (q_val b) then ONan
      else match sym_cmp a b with
           | Err _ => OIncompatible
           | Ok (Some c) => OOk c
           | Ok None => ONan                    (* a conversion produced a NaN: NanOperand *)
           end.

    (* vm.rs Op::LessThan | GreaterThan | LessOrEqual | GreatorOrEqual *)
    Inductive cmpop := CLt | CGt | CLe | CGe.
    Definition vm_cmp (op : cmpop) (a b : quantity) : res_t bool :=
      match pcmp a b with
      | OIncompatible => Err IncompatibleUnits
      | ONan => Ok false
      | OOk Lt => Ok (match op with CLt | CLe => true | _ => false end)
      | OOk Eq => Ok (match op with CLe | CGe => true | _ => false end)
      | OOk Gt => Ok (match op with CGt | CGe => true | _ => false end)
      end.

    (* vm.rs Op::ConvertTo: convert_to(rhs.unit()).no_simplify().with_conversion_target(rhs) *)
    Definition vm_convert (a b : quantity) : res_t quantity :=
      bind (convert_to a (q_unit b)) (fun q =>
        Ok (mkQ (q_val q) (q_unit q) false
                (if n_eqb N (q_val b) (n_one N) then None else Some (q_val b, q_unit b)))).

    (* what pretty_print_internal shows: (number, unit) or coefficient × (target) *)
    Definition displayed (q : quantity) : T * option (T * unit) * unit :=
      match q_target q with
      | Some (tv, tu) => (n_div N (q_val q) tv, Some (tv, tu), q_unit q)
      | None => (q_val q, None, q_unit q)
      end.

    (* ---- is_multiple_of (unit.rs) *)
    Definition is_scalar (u : unit) : bool := unit_eq u [].
    Definition is_multiple_of (a b : unit) : option Qc :=
      let a_base := fst (to_base res a) in
      let b_base := fst (to_base res b) in
      if is_scalar (canon (udiv a_base b_base)) then Some (Qc_of_Z 1)
      else if is_scalar a_base then None
      else match a_base with
           | [] => None                     (* .expect(..): unreachable, a_base is canonical and not scalar *)
           | a_first :: _ =>
               match find (fun fb => Nat.eqb (f_uid fb) (f_uid a_first)) b_base with
               | Some fb =>
                   let alpha := (f_exp a_first / f_exp fb)%Qc in
                   if is_scalar (udiv a_base (upower b_base alpha)) then Some alpha else None
               | None => None
               end
           end.

    (* ---- Quantity::full_simplify *)
    Fixpoint first_some {A B} (f : A -> option B) (l : list A) : option B :=
      match l with
      | [] => None
      | x :: r => match f x with Some y => Some y | None => first_some f r end
      end.

    (* chunk_by on equal sort keys (adjacent) *)
    Fixpoint chunk_by_key (l : list ufactor) : list (list ufactor) :=
      match l with
      | [] => []
      | x :: r =>
          match chunk_by_key r with
          | (y :: g) :: gs =>
              if match skey_cmp (key (f_uid x)) (key (f_uid y)) with Eq => true | _ => false end
              then (x :: y :: g) :: gs else [x] :: (y :: g) :: gs
          | gs => [x] :: gs
          end
      end.

    (* Iterator::max_by returns the last maximal element *)
    Definition rep_cmp (f1 f2 : ufactor) : comparison :=
      match bool_cmp (is_base (f_uid f1)) (is_base (f_uid f2)) with
      | Eq => Qc_cmp (f_exp f1) (f_exp f2)
      | c => c
      end.
    Fixpoint max_by_last (cur : ufactor) (l : list ufactor) : ufactor :=
      match l with
      | [] => cur
      | x :: r => max_by_last (match rep_cmp cur x with Gt => cur | _ => x end) r
      end.

    Definition removed_exponent (f : ufactor) : Qc :=
      match fst (res_get res (f_uid f)) with
      | first :: _ => f_exp first
      | [] => Qc_of_Z 1
      end.

    (* the target unit of one sort-key group *)
    Definition h3_target (g : list ufactor) : option unit :=
      match g with
      | [] => None                            (* "At least one unit factor in the group" *)
      | g0 :: grest =>
          let rep := max_by_last g0 grest in
          Some (if is_scalar (fst (to_base res g)) then []
                else
                  let e := fold_left (fun s f => (s + f_exp f * removed_exponent f / removed_exponent rep)%Qc)
                                     g 0%Qc in
                  [mkF (f_uid rep) (f_pfx rep) e])
      end.

    (* one group of heuristic 3: Ok None = the group cannot be converted to the guessed
       target (the code then returns the quantity unchanged) *)
    Definition h3_group (g : list ufactor) : res_t (option (unit * T)) :=
      match h3_target g with
      | None => Err Panic
      | Some target =>
          match convert_to (from_unit g) target with
          | Ok c => Ok (Some (target, q_val c))
          | Err _ => Ok None                  (* let Ok(converted) = ... else { return self.clone() } *)
          end
      end.

    (* the loop over the groups; Ok None once a group has failed (early return) *)
    Definition h3_step (acc : res_t (option (unit * T))) (g : list ufactor) : res_t (option (unit * T)) :=
      bind acc (fun o =>
        match o with
        | None => Ok None
        | Some (su, fac) =>
            bind (h3_group g) (fun r =>
              match r with
              | None => Ok None
              | Some (target, cv) => Ok (Some (umul su target, n_mul N fac cv))
              end)
        end).

    Definition full_simplify (q : quantity) : res_t quantity :=
      if negb (q_simp q) then Ok q
      else
        (* heuristic 1 *)
        match convert_to q [] with
        | Ok s => Ok s
        | Err _ =>
            (* heuristic 2 *)
            let u := canon (q_unit q) in
            let h2 :=
              if Nat.ltb 1 (List.length u) then
                first_some (fun f =>
                              let fu := [mkF (f_uid f) (f_pfx f) (Qc_of_Z 1)] in
                              match is_multiple_of u fu with
                              | Some alpha =>
                                  if Qc_is_int alpha then
                                    match convert_to q (upower fu alpha) with
                                    | Ok r => Some r
                                    | Err _ => None
                                    end
                                  else None
                              | None => None
                              end) u
              else None in
            match h2 with
            | Some r => Ok r
            | None =>
                (* heuristic 3 *)
                let groups := chunk_by_key (canon (q_unit q)) in
                match fold_left h3_step groups (Ok (Some ([], n_one N))) with
                | Ok (Some (su, fac)) => Ok (qnew (n_mul N (q_val q) fac) (canon su))
                | Ok None => Ok q                   (* return self.clone() *)
                | Err e => Err e
                end
            end
        end.

    (* full_simplify_with_registry: the registry lookup is abstracted as the list
       of candidate target units it yields ([cands], in the order tried); the
       1e-9 tests on the factors are the two predicates [near_one] / [near]. *)
    Variable near_one : T -> bool.
    Variable near : T -> T -> bool.

    Fixpoint pick_best (simplified : quantity) (cur : nat) (source_factor : T)
             (cands : list unit) (best : option quantity) : quantity :=
      match cands with
      | [] => match best with Some b => b | None => simplified end
      | t :: rest =>
          if Nat.ltb (List.length t) cur then
            if near source_factor (unit_factor t) then
              match convert_to simplified t with
              | Ok c =>
                  if Nat.eqb (List.length t) 1 then c
                  else
                    let dominated := match best with
                                     | None => true
                                     | Some b => Nat.ltb (List.length t) (List.length (q_unit b))
                                     end in
                    pick_best simplified cur source_factor rest (if dominated then Some c else best)
              | Err _ => pick_best simplified cur source_factor rest best
              end
            else pick_best simplified cur source_factor rest best
          else pick_best simplified cur source_factor rest best
      end.

    Definition full_simplify_with_registry (cands : unit -> list unit) (q : quantity) : res_t quantity :=
      bind (full_simplify q) (fun s =>
        if negb (q_simp s) then Ok s
        else
          let cur := List.length (q_unit s) in
          if Nat.leb cur 1 then Ok s
          else
            let '(base_repr, source_factor) := to_base res (q_unit s) in
            let direct :=
              match base_repr with
              | [f] =>
                  if Qc_is_int (f_exp f) && near_one source_factor then
                    match convert_to s base_repr with Ok c => Some c | Err _ => None end
                  else None
              | _ => None
              end in
            match direct with
            | Some c => Ok c
            | None => Ok (pick_best s cur source_factor (cands (q_unit s)) None)
            end).
  End Ops.
End Tbl.

Arguments Ok {A}. Arguments Err {A}.
Arguments mkQ {T}. Arguments q_val {T}. Arguments q_unit {T}. Arguments q_simp {T}. Arguments q_target {T}.

(* ------------------------------------------------------------------ expressions
   the fragment of C03: numbers with units, + - * / ^n, unary minus, conversion *)
Section Expr.
  Context {T : Type}.
  Variable N : numops T.
  Variable tbl : table T.
  Variable res : resolved (T := T).
  Variable keys : list skey.

  Inductive expr :=
  | ELit (v : T) (u : unit)
  | EAdd (a b : expr) | ESub (a b : expr) | EMul (a b : expr) | EDiv (a b : expr)
  | ENeg (a : expr) | EPow (a : expr) (n : Z) | EConv (a : expr) (u : unit).

  Fixpoint eval (e : expr) : res_t quantity :=
    match e with
    | ELit v u => Ok (qnew v u)
    | EAdd a b => bind (eval a) (fun x => bind (eval b) (fun y => qadd N tbl res keys x y))
    | ESub a b => bind (eval a) (fun x => bind (eval b) (fun y => qsub N tbl res keys x y))
    | EMul a b => bind (eval a) (fun x => bind (eval b) (fun y => Ok (qmul N x y)))
    | EDiv a b => bind (eval a) (fun x => bind (eval b) (fun y => qdiv N x y))
    | ENeg a => bind (eval a) (fun x => Ok (qneg N x))
    | EPow a n => bind (eval a) (fun x => qpow N x n)
    | EConv a u => bind (eval a) (fun x => vm_convert N tbl res keys x (from_unit N u))   (* vm.rs Op::ConvertTo *)
    end.
End Expr.
