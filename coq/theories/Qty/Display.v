(* Qty/Display.v — the text the user sees for a unit: port of
     unit.rs      impl Display for UnitFactor / for Unit  (as_string(|f| f.exponent, '·', '/', false))
     product.rs   Product::pretty_print_with (positive factors, then "/" and the inverted negative ones,
                  parenthesised when there are several)
     arithmetic.rs pretty_exponent (superscript digits, "^(n/d)" for non-integers)
     prefix.rs    Prefix::as_string_short / as_string_long
     quantity.rs  pretty_print_internal: `number unit`, or `coefficient × number unit` with a conversion target
   Numbers themselves (pretty_dtoa, num_format) are not modelled: the text is the unit part and
   the presence of the `×` marker.  Strings are UTF-8 byte strings, as in the harness output. *)
From Coq Require Import List ZArith QArith Qcanon String Ascii Bool.
From NV Require Import Base.Show Qty.Model Qty.Exec.
Import ListNotations.
Open Scope string_scope.

Definition prefix_short (p : prefix) : string :=
  match p with
  | Metric (-30) => "q" | Metric (-27) => "r" | Metric (-24) => "y" | Metric (-21) => "z"
  | Metric (-18) => "a" | Metric (-15) => "f" | Metric (-12) => "p" | Metric (-9) => "n"
  | Metric (-6) => "µ" | Metric (-3) => "m" | Metric (-2) => "c" | Metric (-1) => "d"
  | Metric 0 => "" | Metric 1 => "da" | Metric 2 => "h" | Metric 3 => "k" | Metric 6 => "M"
  | Metric 9 => "G" | Metric 12 => "T" | Metric 15 => "P" | Metric 18 => "E" | Metric 21 => "Z"
  | Metric 24 => "Y" | Metric 27 => "R" | Metric 30 => "Q"
  | Metric n => "<prefix 10^" ++ show_Z n ++ ">"
  | Binary 0 => "" | Binary 10 => "Ki" | Binary 20 => "Mi" | Binary 30 => "Gi" | Binary 40 => "Ti"
  | Binary 50 => "Pi" | Binary 60 => "Ei" | Binary 70 => "Zi" | Binary 80 => "Yi" | Binary 90 => "Ri"
  | Binary 100 => "Qi"
  | Binary n => "<prefix 2^" ++ show_Z n ++ ">"
  end%Z.

Definition prefix_long (p : prefix) : string :=
  match p with
  | Metric (-30) => "quecto" | Metric (-27) => "ronto" | Metric (-24) => "yocto" | Metric (-21) => "zepto"
  | Metric (-18) => "atto" | Metric (-15) => "femto" | Metric (-12) => "pico" | Metric (-9) => "nano"
  | Metric (-6) => "micro" | Metric (-3) => "milli" | Metric (-2) => "centi" | Metric (-1) => "deci"
  | Metric 0 => "" | Metric 1 => "deca" | Metric 2 => "hecto" | Metric 3 => "kilo" | Metric 6 => "mega"
  | Metric 9 => "giga" | Metric 12 => "tera" | Metric 15 => "peta" | Metric 18 => "exa" | Metric 21 => "zetta"
  | Metric 24 => "yotta" | Metric 27 => "ronna" | Metric 30 => "quetta"
  | Metric n => "<prefix 10^" ++ show_Z n ++ ">"
  | Binary 0 => "" | Binary 10 => "kibi" | Binary 20 => "mebi" | Binary 30 => "gibi" | Binary 40 => "tebi"
  | Binary 50 => "pebi" | Binary 60 => "exbi" | Binary 70 => "zebi" | Binary 80 => "yobi" | Binary 90 => "robi"
  | Binary 100 => "quebi"
  | Binary n => "<prefix 2^" ++ show_Z n ++ ">"
  end%Z.

Definition sup_char (c : ascii) : string :=
  if Ascii.eqb c "-" then "⁻" else if Ascii.eqb c "0" then "⁰" else if Ascii.eqb c "1" then "¹"
  else if Ascii.eqb c "2" then "²" else if Ascii.eqb c "3" then "³" else if Ascii.eqb c "4" then "⁴"
  else if Ascii.eqb c "5" then "⁵" else if Ascii.eqb c "6" then "⁶" else if Ascii.eqb c "7" then "⁷"
  else if Ascii.eqb c "8" then "⁸" else if Ascii.eqb c "9" then "⁹" else String c "".
Fixpoint superscript (s : string) : string :=
  match s with EmptyString => "" | String c r => sup_char c ++ superscript r end.

(* arithmetic.rs pretty_exponent *)
Definition pretty_exponent (e : Qc) : string :=
  if negb (Qc_is_int e) then "^(" ++ show_Z (Qnum e) ++ "/" ++ show_N (Npos (Qden e)) ++ ")"
  else if Z.eqb (Qnum e) 1 then ""
  else superscript (show_Z (Qnum e)).

Section Disp.
  (* per unit: canonical name and whether it takes the short prefix spelling
     (canonical_name.accepts_prefix.short) *)
  Variable names : list (string * bool).
  Definition canon_of (i : nat) : string * bool := nth i names ("?", false).

  (* impl Display for UnitFactor, with the exponent possibly inverted *)
  Definition display_factor (inv : bool) (f : ufactor) : string :=
    let '(cn, short) := canon_of (f_uid f) in
    (if short then prefix_short (f_pfx f) else prefix_long (f_pfx f)) ++ cn
      ++ pretty_exponent (if inv then (- f_exp f)%Qc else f_exp f).

  Definition is_pos (f : ufactor) : bool := Qc_ltb 0%Qc (f_exp f).

  (* Product::pretty_print_with with '·' and '/' and no padding *)
  Definition display_unit (u : unit) : string :=
    let pos := filter is_pos u in
    let neg := filter (fun f => negb (is_pos f)) u in
    match pos, neg with
    | [], [] => ""
    | [], _ => join "·" (map (display_factor false) neg)
    | _, [] => join "·" (map (display_factor false) pos)
    | _, [n] => join "·" (map (display_factor false) pos) ++ "/" ++ display_factor true n
    | _, _ => join "·" (map (display_factor false) pos) ++ "/(" ++ join "·" (map (display_factor true) neg) ++ ")"
    end.

  (* quantity.rs pretty_print_internal, without the numbers: "× " marks the
     `coefficient × target` form, followed by the unit text of the target *)
  Definition display_shape {T} (q : quantity (T := T)) : string :=
    match q_target q with
    | Some (_, tu) => "× " ++ display_unit tu
    | None => display_unit (q_unit q)
    end.
End Disp.
