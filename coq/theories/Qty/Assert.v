(* Qty/Assert.v — model of the assertion procedures (numbat/src/ffi/procedures.rs
   assert / assert_eq, PartialOrd for Quantity) and of "a Break ends the input"
   (vm.rs FFICallProcedure: ControlFlow::Break(kind) => return Err(runtime_error(kind))).
   No proofs in this file. *)
From Coq Require Import List ZArith QArith Qcanon String Bool.
From NV Require Import Qty.Model.
Import ListNotations.

Section Assert.
  Context {T : Type}.
  Variable N : numops T.
  Variable tbl : table T.
  Variable res : resolved (T := T).
  Variable keys : list skey.

  (* quantities, booleans, strings, lists (struct values are encoded as a list whose first
     element is the struct name) *)
  Inductive value := VQ (q : quantity (T := T)) | VB (b : bool) | VS (s : string) | VL (l : list value).

  (* #[derive(PartialEq)] on Value; for lists NumbatList::eq: same length and element-wise equal *)
  Fixpoint value_eqb (a b : value) : bool :=
    match a, b with
    | VQ x, VQ y => qeq N tbl res keys x y
    | VB x, VB y => Bool.eqb x y
    | VS x, VS y => String.eqb x y
    | VL x, VL y =>
        (fix leq (x y : list value) : bool :=
           match x, y with
           | [], [] => true
           | a' :: x', b' :: y' => value_eqb a' b' && leq x' y'
           | _, _ => false
           end) x y
    | _, _ => false
    end.

  Inductive breakkind := AssertFailed | AssertEq2Failed | AssertEq3Failed | QuantityErr (e : qerror) | ProcPanic.
  Inductive flow := Continue | Break (k : breakkind).

  (* fn assert *)
  Definition p_assert (v : value) : flow :=
    match v with
    | VB true => Continue
    | VB false => Break AssertFailed
    | _ => Break ProcPanic                     (* unsafe_as_bool *)
    end.

  (* fn assert_eq, two arguments *)
  Definition p_assert_eq2 (l r : value) : flow :=
    match l with
    | VQ lq =>
        match r with
        | VQ rq =>
            match convert_to N tbl res keys lq (q_unit rq) with
            | Ok converted => if qeq N tbl res keys converted rq then Continue else Break AssertEq2Failed
            | Err _ => Break AssertEq2Failed
            end
        | _ => Break ProcPanic                 (* unsafe_as_quantity *)
        end
    | _ => if value_eqb l r then Continue else Break AssertEq2Failed
    end.

  (* Quantity::abs, impl PartialOrd for Quantity (partial_cmp, then `<=`) *)
  Definition qabs (q : quantity (T := T)) : quantity := qnew (n_abs N (q_val q)) (q_unit q).
  Definition q_le (a b : quantity (T := T)) : bool :=
    match q_partial_cmp N tbl res keys a b with Some Lt | Some Eq => true | _ => false end.

  (* fn assert_eq, three arguments *)
  Definition p_assert_eq3 (l r eps : quantity (T := T)) : flow :=
    match convert_to N tbl res keys l (q_unit eps) with
    | Err e => Break (QuantityErr e)
    | Ok lc =>
        match convert_to N tbl res keys r (q_unit eps) with
        | Err e => Break (QuantityErr e)
        | Ok rc =>
            match qsub N tbl res keys lc rc with
            | Err e => Break (QuantityErr e)
            | Ok diff => if q_le (qabs diff) eps then Continue else Break AssertEq3Failed
            end
        end
    end.

  (* statements of one input: assertions and marker prints *)
  Inductive stmt :=
  | SAssert (v : value)
  | SAssertEq2 (l r : value)
  | SAssertEq3 (l r eps : quantity (T := T))
  | SPrint (marker : nat).

  Definition exec (s : stmt) : list nat * flow :=
    match s with
    | SAssert v => ([], p_assert v)
    | SAssertEq2 l r => ([], p_assert_eq2 l r)
    | SAssertEq3 l r e => ([], p_assert_eq3 l r e)
    | SPrint m => ([m], Continue)
    end.

  (* the statements run in order; a Break aborts the input *)
  Fixpoint run_prog (p : list stmt) : list nat * option breakkind :=
    match p with
    | [] => ([], None)
    | s :: rest =>
        match exec s with
        | (pr, Continue) => let '(ps, o) := run_prog rest in (pr ++ ps, o)
        | (pr, Break k) => (pr, Some k)
        end
    end.
End Assert.
