(* Qty/Exec.v — the exact (rational) instance of the quantity model and the
   observation printers used by the correspondence checks.  The model prints
   the same line format as harness/src/qty.rs (after tools/props/qtylib.py has
   normalised the implementation's f64 values into exact rationals). *)
From Coq Require Import List ZArith QArith Qcanon String Bool.
From NV Require Import Base.Show Qty.Model Qty.Assert.
Import ListNotations.
Open Scope string_scope.

(* ---------------------------------------------------------------- Qc numbers *)
Definition qpowz (x : Qc) (z : Z) : Qc := Q2Qc (Qpower x z).

(* Number::pow restricted to what is exact in Q: integer exponents.  For a
   non-integer exponent the value is junk (0); every theorem about this
   instance carries integrality hypotheses and the printers below refuse
   ("OOS") inputs outside them. *)
Definition qc_pow (x e : Qc) : Qc := if Qc_is_int e then qpowz x (Qnum e) else 0%Qc.

Definition qc_prefix (p : prefix) : Qc :=
  match p with
  | Metric e => qpowz (Qc_of_Z 10) e
  | Binary e => qpowz (Qc_of_Z 2) e
  end.

Definition QcN : numops Qc :=
  mkNum Qc 1%Qc Qcplus Qcminus Qcmult Qcdiv Qcopp qc_pow qc_prefix
        (fun x => Qc_eqb x 0%Qc) (fun _ => false) Qc_eqb
        (fun x y => match Qc_cmp x y with Gt => false | _ => true end)
        (fun x y => Some (Qc_cmp x y))
        (fun x => if Qc_ltb x 0%Qc then (- x)%Qc else x).

(* ---------------------------------------------------------------- environments *)
Record env := mkEnv { e_tbl : table Qc; e_res : resolved (T := Qc); e_keys : list skey }.
Definition make_env (tbl : table Qc) : env :=
  let res := resolve QcN tbl in mkEnv tbl res (all_keys QcN tbl res).

(* integrality guards *)
Definition unit_int (u : unit) : bool := forallb (fun f => Qc_is_int (f_exp f)) u.
Definition row_int (r : urow Qc) : bool :=
  match u_kind r with Base => true | Derived _ def => unit_int def end.
Definition int_table (tbl : table Qc) : bool := forallb row_int tbl.
Definition row_pos (r : urow Qc) : bool :=
  match u_kind r with Base => true | Derived f _ => Qc_ltb 0%Qc f end.
Definition pos_table (tbl : table Qc) : bool := forallb row_pos tbl.
Definition unit_in (n : nat) (u : unit) : bool := forallb (fun f => Nat.ltb (f_uid f) n) u.
Fixpoint distinct_names (l : list string) : bool :=
  match l with
  | [] => true
  | x :: r => negb (existsb (String.eqb x) r) && distinct_names r
  end.

(* heuristic 3 of full_simplify: every group target it constructs has integer exponents *)
Definition h3_ints_b (tbl : table Qc) (res : resolved (T := Qc)) (keys : list skey) (gs : list (list ufactor)) : bool :=
  forallb (fun g => match h3_group QcN tbl res keys g with Ok (Some (t, _)) => unit_int t | _ => true end) gs.

(* ---------------------------------------------------------------- printing *)
Definition show_pfx (p : prefix) : string :=
  match p with Metric e => "M/" ++ show_Z e | Binary e => "B/" ++ show_Z e end.
Definition show_factor (E : env) (f : ufactor) : string :=
  row_name (e_tbl E) (f_uid f) ++ "/" ++ show_pfx (f_pfx f) ++ "/"
    ++ show_Z (Qnum (f_exp f)) ++ "/" ++ show_N (Npos (Qden (f_exp f))).
Definition show_unit (E : env) (u : unit) : string :=
  match u with [] => "-" | _ => join "," (map (show_factor E) u) end.
Definition show_qc (q : Qc) : string := show_Z (Qnum q) ++ "#" ++ show_N (Npos (Qden q)).

Definition qc_abs (x : Qc) : Qc := if Qc_ltb x 0%Qc then (- x)%Qc else x.
(* |model - impl| <= tol   (absolute tolerance, computed per case by the driver
   from a stated relative tolerance and the magnitude of the operands) *)
Definition close (tol m i : Qc) : bool :=
  negb (Qc_ltb tol (qc_abs (m - i)%Qc)).

Definition show_err (e : qerror) : string :=
  match e with
  | IncompatibleUnits => "E:incompat"
  | DivisionByZero => "E:divzero"
  | Panic => "P"
  end.

(* observation of a quantity, given the implementation's value (exact rational
   of its f64) and the tolerance: "ok" or the model's exact value *)
Definition show_q (E : env) (tol : Qc) (impl : Qc) (q : quantity (T := Qc)) : string :=
  (if close tol (q_val q) impl then "ok" else "val=" ++ show_qc (q_val q))
    ++ ":" ++ show_unit E (q_unit q)
    ++ ":" ++ (if q_simp q then "s" else "n")
    ++ ":" ++ match q_target q with
              | None => "-"
              | Some (tv, tu) => show_qc tv ++ "=" ++ show_unit E tu
              end.

(* value and unit only *)
Definition show_qvu (E : env) (tol : Qc) (impl : Qc) (q : quantity (T := Qc)) : string :=
  (if close tol (q_val q) impl then "ok" else "val=" ++ show_qc (q_val q))
    ++ ":" ++ show_unit E (q_unit q).

Definition show_qres (E : env) (tol impl : Qc) (r : res_t (quantity (T := Qc))) : string :=
  match r with Ok q => show_q E tol impl q | Err e => show_err e end.

Definition show_bres (r : res_t bool) : string :=
  match r with Ok b => "B:" ++ show_bool b | Err e => show_err e end.

Definition show_ord (o : qordering) : string :=
  match o with
  | OIncompatible => "C:i" | ONan => "C:n"
  | OOk Lt => "C:<" | OOk Eq => "C:=" | OOk Gt => "C:>"
  end.

(* ---------------------------------------------------------------- case language *)
Definition Qm (n : Z) (d : positive) : Q := Qmake n d.
Definition F (uid : nat) (p : prefix) (num : Z) (den : positive) : ufactor :=
  mkF uid p (Q2Qc (num # den)).
Definition QL (v : Q) (u : unit) : quantity (T := Qc) := qnew (Q2Qc v) u.
Definition L (v : Q) (u : unit) : expr (T := Qc) := ELit (Q2Qc v) u.

Fixpoint expr_units (e : expr (T := Qc)) : list unit :=
  match e with
  | ELit _ u => [u]
  | EAdd a b | ESub a b | EMul a b | EDiv a b => expr_units a ++ expr_units b
  | ENeg a | EPow a _ => expr_units a
  | EConv a u => u :: expr_units a
  end.

Section Run.
  Variable E : env.
  Variable nexact : nat.     (* rows below this index are in exact scope *)
  Let tbl := e_tbl E. Let res := e_res E. Let keys := e_keys E.

  Definition in_scope (u : unit) : bool := unit_int u && unit_in nexact u.
  Definition guard (us : list unit) (s : string) : string :=
    if forallb in_scope us then s else "OOS".

  Definition r_eval (tol impl : Q) (e : expr) : string :=
    guard (expr_units e) (show_qres E (Q2Qc tol) (Q2Qc impl) (eval QcN tbl res keys e)).
  Definition r_evalu (tol impl : Q) (e : expr) : string :=
    guard (expr_units e)
          (match eval QcN tbl res keys e with
           | Ok q => show_qvu E (Q2Qc tol) (Q2Qc impl) q
           | Err er => show_err er
           end).
  Definition r_conv (tol impl : Q) (a : quantity) (u : unit) : string :=
    guard [q_unit a; u] (show_qres E (Q2Qc tol) (Q2Qc impl) (convert_to QcN tbl res keys a u)).
  Definition r_vmconv (tol impl : Q) (a b : quantity) : string :=
    guard [q_unit a; q_unit b] (show_qres E (Q2Qc tol) (Q2Qc impl) (vm_convert QcN tbl res keys a b)).
  (* a chain of two explicit conversions  a -> b -> c *)
  Definition r_vmconv2 (tol impl : Q) (a b c : quantity) : string :=
    guard [q_unit a; q_unit b; q_unit c]
          (show_qres E (Q2Qc tol) (Q2Qc impl)
                     (bind (vm_convert QcN tbl res keys a b) (fun q => vm_convert QcN tbl res keys q c))).
  Definition r_add (tol impl : Q) (a b : quantity) : string :=
    guard [q_unit a; q_unit b] (show_qres E (Q2Qc tol) (Q2Qc impl) (qadd QcN tbl res keys a b)).
  Definition r_sub (tol impl : Q) (a b : quantity) : string :=
    guard [q_unit a; q_unit b] (show_qres E (Q2Qc tol) (Q2Qc impl) (qsub QcN tbl res keys a b)).
  Definition r_eq (a b : quantity) : string :=
    guard [q_unit a; q_unit b] ("B:" ++ show_bool (qeq QcN tbl res keys a b)).
  Definition r_ne (a b : quantity) : string :=
    guard [q_unit a; q_unit b] ("B:" ++ show_bool (qne QcN tbl res keys a b)).
  Definition r_vmcmp (op : cmpop) (a b : quantity) : string :=
    guard [q_unit a; q_unit b] (show_bres (vm_cmp QcN tbl res keys op a b)).
  Definition r_cmp (a b : quantity) : string :=
    guard [q_unit a; q_unit b] (show_ord (pcmp QcN tbl res keys a b)).
  Definition r_simp (tol impl : Q) (a : quantity) : string :=
    if h3_ints_b tbl res keys (chunk_by_key keys (canon keys (q_unit a))) then
      match full_simplify QcN tbl res keys a with
      | Ok q => guard [q_unit a; q_unit q] (show_q E (Q2Qc tol) (Q2Qc impl) q)
      | Err e => guard [q_unit a] (show_err e)
      end
    else "OOS".
  (* what the interpreter displays for an expression statement: eval, then full_simplify
     (the registry step may still rewrite the unit; the driver accounts for that) *)
  Definition r_evalsimp (tol impl : Q) (e : expr) : string :=
    guard (expr_units e)
          (match eval QcN tbl res keys e with
           | Ok q =>
               if h3_ints_b tbl res keys (chunk_by_key keys (canon keys (q_unit q))) then
                 match full_simplify QcN tbl res keys q with
                 | Ok s => if unit_int (q_unit s) then show_qvu E (Q2Qc tol) (Q2Qc impl) s else "OOS"
                 | Err er => show_err er
                 end
               else "OOS"
           | Err er => show_err er
           end).
  Definition r_base (tol impl : Q) (u : unit) : string :=
    guard [u] (let '(b, f) := to_base QcN tbl res u in
               (if close (Q2Qc tol) f (Q2Qc impl) then "ok" else "val=" ++ show_qc f) ++ ":" ++ show_unit E b).
End Run.

(* ---------------------------------------------------------------- assertions (C21) *)
Definition show_break (k : breakkind) : string :=
  match k with
  | AssertFailed => "E:assert"
  | AssertEq2Failed => "E:assert_eq2"
  | AssertEq3Failed => "E:assert_eq3"
  | QuantityErr e => show_err e
  | ProcPanic => "P"
  end.

Fixpoint value_units (v : value (T := Qc)) : list unit :=
  match v with
  | VQ q => [q_unit q]
  | VL l => (fix go (l : list (value (T := Qc))) : list unit :=
               match l with [] => [] | x :: r => (value_units x ++ go r)%list end) l
  | _ => []
  end.

Fixpoint stmt_units (p : list (stmt (T := Qc))) : list unit :=
  match p with
  | [] => []
  | SAssert v :: r => (value_units v ++ stmt_units r)%list
  | SAssertEq2 a b :: r => (value_units a ++ value_units b ++ stmt_units r)%list
  | SAssertEq3 a b e :: r => q_unit a :: q_unit b :: q_unit e :: stmt_units r
  | _ :: r => stmt_units r
  end.

Definition r_prog (E : env) (nexact : nat) (p : list (stmt (T := Qc))) : string :=
  guard nexact (stmt_units p)
    (let '(prints, o) := run_prog QcN (e_tbl E) (e_res E) (e_keys E) p in
     (match o with None => "V:-" | Some k => show_break k end)
       ++ "|" ++ join "," (map show_nat prints)).
