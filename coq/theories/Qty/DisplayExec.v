(* Qty/DisplayExec.v — printers of the displayed text (unit part and `×` marker) for the
   correspondence checks; names from the generated Gen/PreludeDisplay.v. *)
From Coq Require Import List ZArith QArith Qcanon String Bool.
From NV Require Import Base.Show.
From NV Require Export Qty.Model Qty.Exec Qty.Display Gen.PreludeDisplay.
Import ListNotations.
Open Scope string_scope.

Section RunD.
  Variable E : env.
  Variable nexact : nat.
  Let tbl := e_tbl E. Let res := e_res E. Let keys := e_keys E.
  Notation names := prelude_display.

  (* expression statement: eval, full_simplify; value/unit as r_evalsimp, then the displayed text *)
  Definition r_evalsimp_text (tol impl : Q) (e : expr) : string :=
    guard nexact (expr_units e)
          (match eval QcN tbl res keys e with
           | Ok q =>
               if h3_ints_b tbl res keys (chunk_by_key keys (canon keys (q_unit q))) then
                 match full_simplify QcN tbl res keys q with
                 | Ok s => if unit_int (q_unit s)
                           then show_qvu E (Q2Qc tol) (Q2Qc impl) s ++ "|" ++ display_shape names s
                           else "OOS"
                 | Err er => show_err er
                 end
               else "OOS"
           | Err er => show_err er
           end).

  (* a -> b -> c : observation as r_vmconv2, then the displayed text *)
  Definition r_vmconv2_text (tol impl : Q) (a b c : quantity) : string :=
    guard nexact [q_unit a; q_unit b; q_unit c]
          (match bind (vm_convert QcN tbl res keys a b) (fun q => vm_convert QcN tbl res keys q c) with
           | Ok q => show_q E (Q2Qc tol) (Q2Qc impl) q ++ "|" ++ display_shape names q
           | Err er => show_err er
           end).

  (* full_simplify by direct call, then the displayed text *)
  Definition r_simp_text (tol impl : Q) (a : quantity) : string :=
    if h3_ints_b tbl res keys (chunk_by_key keys (canon keys (q_unit a))) then
      match full_simplify QcN tbl res keys a with
      | Ok q => guard nexact [q_unit a; q_unit q] (show_q E (Q2Qc tol) (Q2Qc impl) q ++ "|" ++ display_shape names q)
      | Err e => guard nexact [q_unit a] (show_err e)
      end
    else "OOS".
End RunD.
