(* Qty/Good.v — the standing hypotheses on a unit table, and the prelude instance *)
From Coq Require Import List ZArith QArith Qcanon String Bool.
From NV Require Import Qty.Model Qty.Exec Qty.NumFacts Qty.Proofs Qty.TableSem.
Local Open Scope Qc_scope.

(* definitions refer to earlier rows; integer exponents; positive factors *)
Definition good_table (tbl : table Qc) : Prop :=
  wf_table tbl = true /\ int_table tbl = true /\ pos_table tbl = true.

Lemma good_scale_pos tbl : good_table tbl -> forall i, 0 < scale (resolve QcN tbl) i.
Proof. intros (_ & Hi & Hp). apply resolve_pos; assumption. Qed.
