(* Qty/ConvProofs.v — consequences of convert_to_sound used by C04 / C12 / C11. *)
From Coq Require Import List ZArith QArith Qcanon Bool Field.
From NV Require Import Qty.Model Qty.Exec Qty.NumFacts Qty.Proofs.
Import ListNotations.
Local Open Scope Qc_scope.

Section Conv.
  Variable tbl : table Qc.
  Variable res : resolved (T := Qc).
  Variable keys : list skey.
  Hypothesis scale_pos : forall i, 0 < scale res i.

  Lemma Qc_mul_cancel_r (x y d : Qc) : d <> 0 -> x * d = y * d -> x = y.
  Proof.
    intros Hd H. assert (E : x = x * d / d) by (field; exact Hd).
    rewrite E, H. field. exact Hd.
  Qed.

  (* (q -> U) -> unit q restores q's magnitude *)
  Lemma convert_back a U q1 q2 :
    unit_int (q_unit a) = true -> unit_int U = true ->
    convert_to QcN tbl res keys a U = Ok q1 ->
    convert_to QcN tbl res keys q1 (q_unit a) = Ok q2 ->
    q_val q2 = q_val a /\ q_unit q2 = q_unit a.
  Proof.
    intros Ha HU C1 C2.
    destruct (convert_to_sound tbl res keys scale_pos _ _ _ Ha HU C1) as (U1 & _ & _ & V1 & _).
    assert (H1 : unit_int (q_unit q1) = true) by (rewrite U1; exact HU).
    destruct (convert_to_sound tbl res keys scale_pos _ _ _ H1 Ha C2) as (U2 & _ & _ & V2 & _).
    split; [|exact U2].
    apply (Qc_mul_cancel_r _ _ (Den res (q_unit a))); [apply Den_nz; assumption|].
    rewrite V2, U1. exact V1.
  Qed.

  (* converting through an intermediate unit agrees with converting directly *)
  Lemma convert_via a V U q1 q2 q3 :
    unit_int (q_unit a) = true -> unit_int V = true -> unit_int U = true ->
    convert_to QcN tbl res keys a V = Ok q1 ->
    convert_to QcN tbl res keys q1 U = Ok q2 ->
    convert_to QcN tbl res keys a U = Ok q3 ->
    q_val q2 = q_val q3 /\ q_unit q2 = q_unit q3.
  Proof.
    intros Ha HV HU C1 C2 C3.
    destruct (convert_to_sound tbl res keys scale_pos _ _ _ Ha HV C1) as (U1 & _ & _ & V1 & _).
    assert (H1 : unit_int (q_unit q1) = true) by (rewrite U1; exact HV).
    destruct (convert_to_sound tbl res keys scale_pos _ _ _ H1 HU C2) as (U2 & _ & _ & V2 & _).
    destruct (convert_to_sound tbl res keys scale_pos _ _ _ Ha HU C3) as (U3 & _ & _ & V3 & _).
    split; [|congruence].
    apply (Qc_mul_cancel_r _ _ (Den res U)); [apply Den_nz; assumption|].
    rewrite V2, V3, U1. exact V1.
  Qed.

  (* what is displayed after  a -> b : exactly b's unit; as  coef x (b)  when
     b's magnitude is not 1, and coef * b denotes a *)
  Lemma vm_convert_display a b q :
    unit_int (q_unit a) = true -> unit_int (q_unit b) = true ->
    vm_convert QcN tbl res keys a b = Ok q ->
    q_unit q = q_unit b /\ q_simp q = false /\ DenQ res q = DenQ res a
    /\ (q_val b = 1 -> displayed QcN q = (q_val q, None, q_unit b))
    /\ (q_val b <> 1 ->
        displayed QcN q = (q_val q / q_val b, Some (q_val b, q_unit b), q_unit b)
        /\ (q_val b <> 0 -> (q_val q / q_val b) * DenQ res b = DenQ res a)).
  Proof.
    intros Ha Hb H.
    destruct (vm_convert_sound tbl res keys scale_pos _ _ _ Ha Hb H) as (U & S & V & Tg).
    repeat split; try assumption.
    - intros E. unfold displayed. rewrite Tg, E, U. rewrite Qc_eqb_refl. reflexivity.
    - unfold displayed. rewrite Tg, U.
      destruct (Qc_eqb (q_val b) 1) eqn:E; [apply Qc_eqb_eq in E; contradiction | reflexivity].
    - intros Hz. rewrite <- V. unfold DenQ. rewrite U. field. exact Hz.
  Qed.
End Conv.
