(* Qty/NumFacts.v — facts about the exact number instance QcN (rationals with
   integer powers) used by Qty/Proofs.v. *)
From Coq Require Import List ZArith QArith Qcanon Qpower Bool Lia Field.
From NV Require Import Qty.Model Qty.Exec.
Import ListNotations.
Local Open Scope Qc_scope.

Lemma this_Q2Qc q : (this (Q2Qc q) == q)%Q.
Proof. simpl. apply Qred_correct. Qed.

Lemma this_mult x y : (this (x * y) == this x * this y)%Q.
Proof. unfold Qcmult. apply this_Q2Qc. Qed.
Lemma this_plus x y : (this (x + y) == this x + this y)%Q.
Proof. unfold Qcplus. apply this_Q2Qc. Qed.
Lemma this_inv x : (this (/ x) == / this x)%Q.
Proof. unfold Qcinv. apply this_Q2Qc. Qed.
Lemma this_opp x : (this (- x) == - this x)%Q.
Proof. unfold Qcopp. apply this_Q2Qc. Qed.

Lemma this_qpowz x z : (this (qpowz x z) == (this x) ^ z)%Q.
Proof. unfold qpowz. apply this_Q2Qc. Qed.

Lemma Qc_neq_Q (x : Qc) : x <> 0 -> ~ (this x == 0)%Q.
Proof. intros H E. apply H. apply Qc_is_canon. exact E. Qed.

Lemma qpowz_0_r x : qpowz x 0 = 1.
Proof. apply Qc_is_canon. rewrite this_qpowz. reflexivity. Qed.

Lemma qpowz_1_r x : qpowz x 1 = x.
Proof. apply Qc_is_canon. rewrite this_qpowz. apply Qpower_1_r. Qed.

Lemma qpowz_1_l z : qpowz 1 z = 1.
Proof. apply Qc_is_canon. rewrite this_qpowz. apply Qpower_1. Qed.

Lemma qpowz_mult_base x y z : qpowz (x * y) z = qpowz x z * qpowz y z.
Proof.
  apply Qc_is_canon. rewrite this_mult, !this_qpowz, this_mult. apply Qmult_power.
Qed.

Lemma qpowz_plus x a b : x <> 0 -> qpowz x (a + b) = qpowz x a * qpowz x b.
Proof.
  intros H. apply Qc_is_canon. rewrite this_mult, !this_qpowz.
  apply Qpower_plus. apply Qc_neq_Q; exact H.
Qed.

Lemma qpowz_mult x a b : qpowz x (a * b) = qpowz (qpowz x a) b.
Proof.
  apply Qc_is_canon. rewrite !this_qpowz. apply Qpower_mult.
Qed.

Lemma qpowz_opp x a : qpowz x (- a) = / qpowz x a.
Proof.
  apply Qc_is_canon. rewrite this_inv, !this_qpowz. apply Qpower_opp.
Qed.

Lemma Qc_lt_Q (x y : Qc) : x < y <-> (this x < this y)%Q.
Proof. reflexivity. Qed.

Lemma qpowz_pos x z : 0 < x -> 0 < qpowz x z.
Proof.
  intros H. apply Qc_lt_Q. rewrite this_qpowz. apply Qpower_0_lt. exact H.
Qed.

Lemma Qc_pos_nz (x : Qc) : 0 < x -> x <> 0.
Proof. intros H E. subst. unfold Qclt in H. simpl in H. apply (Qlt_irrefl 0). exact H. Qed.

Lemma Qc_mult_pos (x y : Qc) : 0 < x -> 0 < y -> 0 < x * y.
Proof.
  intros Hx Hy. apply Qc_lt_Q. rewrite this_mult. simpl.
  apply Qmult_lt_0_compat; assumption.
Qed.

Lemma Qc_inv_pos (x : Qc) : 0 < x -> 0 < / x.
Proof.
  intros Hx. apply Qc_lt_Q. rewrite this_inv. apply Qinv_lt_0_compat. exact Hx.
Qed.

(* ---- integers inside Qc *)
Lemma Qc_of_Z_this z : this (Qc_of_Z z) = inject_Z z.
Proof.
  unfold Qc_of_Z, Q2Qc. cbn [this]. apply Qred_identity. simpl. apply Z.gcd_1_r.
Qed.

Lemma Qc_is_int_of_Z z : Qc_is_int (Qc_of_Z z) = true.
Proof. unfold Qc_is_int. rewrite Qc_of_Z_this. reflexivity. Qed.

Lemma Qc_is_int_inv e : Qc_is_int e = true -> e = Qc_of_Z (Qnum e).
Proof.
  unfold Qc_is_int. intros H. apply Pos.eqb_eq in H.
  apply Qc_is_canon. rewrite Qc_of_Z_this. destruct e as [[n d] c]. simpl in *. subst d.
  reflexivity.
Qed.

Lemma Qnum_of_Z z : Qnum (Qc_of_Z z) = z.
Proof. rewrite Qc_of_Z_this. reflexivity. Qed.

Lemma Qc_of_Z_plus a b : Qc_of_Z a + Qc_of_Z b = Qc_of_Z (a + b).
Proof.
  apply Qc_is_canon. rewrite this_plus, !Qc_of_Z_this. rewrite inject_Z_plus. reflexivity.
Qed.
Lemma Qc_of_Z_mult a b : Qc_of_Z a * Qc_of_Z b = Qc_of_Z (a * b).
Proof.
  apply Qc_is_canon. rewrite this_mult, !Qc_of_Z_this. rewrite inject_Z_mult. reflexivity.
Qed.
Lemma Qc_of_Z_opp a : - Qc_of_Z a = Qc_of_Z (- a).
Proof.
  apply Qc_is_canon. rewrite this_opp, !Qc_of_Z_this. rewrite inject_Z_opp. reflexivity.
Qed.

Lemma Qc_of_Z_inj a b : Qc_of_Z a = Qc_of_Z b -> a = b.
Proof. intros H. apply (f_equal (fun q : Qc => Qnum q)) in H. rewrite !Qnum_of_Z in H. exact H. Qed.

Lemma qc_pow_int x z : qc_pow x (Qc_of_Z z) = qpowz x z.
Proof. unfold qc_pow. rewrite Qc_is_int_of_Z, Qnum_of_Z. reflexivity. Qed.

(* ---- boolean reflections *)
Lemma Qc_eqb_eq a b : Qc_eqb a b = true <-> a = b.
Proof.
  unfold Qc_eqb. rewrite Qeq_bool_iff. split.
  - apply Qc_is_canon.
  - intros ->. reflexivity.
Qed.

Lemma Qc_eqb_refl a : Qc_eqb a a = true.
Proof. apply Qc_eqb_eq. reflexivity. Qed.

Lemma Qc_eqb_neq a b : Qc_eqb a b = false <-> a <> b.
Proof.
  split.
  - intros H E. apply Qc_eqb_eq in E. congruence.
  - intros H. destruct (Qc_eqb a b) eqn:E; [apply Qc_eqb_eq in E; contradiction | reflexivity].
Qed.

Lemma Qc_ltb_lt a b : Qc_ltb a b = true <-> a < b.
Proof.
  unfold Qc_ltb, Qc_cmp, Qclt, Qccompare, Qlt.
  rewrite <- Z.compare_lt_iff. unfold Qcompare.
  destruct (Qnum a * QDen b ?= Qnum b * QDen a)%Z; split; congruence.
Qed.

Lemma prefix_eqb_eq p q : prefix_eqb p q = true <-> p = q.
Proof.
  destruct p, q; simpl; try (split; congruence);
    rewrite Z.eqb_eq; split; congruence.
Qed.

Lemma ufactor_eqb_eq a b : ufactor_eqb a b = true <-> a = b.
Proof.
  unfold ufactor_eqb. rewrite !andb_true_iff, Nat.eqb_eq, prefix_eqb_eq, Qc_eqb_eq.
  destruct a, b; simpl. split.
  - intros [[-> ->] ->]. reflexivity.
  - intros E. inversion E. auto.
Qed.

Lemma list_eqb_eq {A} (eqb : A -> A -> bool) :
  (forall x y, eqb x y = true <-> x = y) ->
  forall l1 l2, list_eqb eqb l1 l2 = true <-> l1 = l2.
Proof.
  intros H. induction l1 as [|x r IH]; destruct l2 as [|y r2]; simpl; try (split; congruence).
  rewrite andb_true_iff, H, IH. split.
  - intros [-> ->]. reflexivity.
  - intros E. inversion E. auto.
Qed.

Lemma same_key_eq a b : same_key a b = true <-> f_pfx a = f_pfx b /\ f_uid a = f_uid b.
Proof. unfold same_key. rewrite andb_true_iff, prefix_eqb_eq, Nat.eqb_eq. reflexivity. Qed.

Lemma qc_prefix_pos p : 0 < qc_prefix p.
Proof. destruct p; simpl; apply qpowz_pos; reflexivity. Qed.
