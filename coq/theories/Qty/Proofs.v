(* Qty/Proofs.v — proofs about the exact instance of the quantity model.

   Den u  : the size of unit u in base units (product of (prefix * scale)^exp)
   dimv u : its base-unit exponent vector
   Both are read off the resolved table; Section TableSem shows that they
   satisfy the defining equations of "dimensional analysis of the unit
   definitions" (scale_base / scale_derived / dim_base / dim_derived).

   Everything in Section Core holds for ANY sort-key assignment [keys] (the
   order chosen by canonicalize never matters for a value). *)
From Coq Require Import List ZArith QArith Qcanon Qpower Bool Lia Field Permutation.
From NV Require Import Qty.Model Qty.Exec Qty.NumFacts.
Import ListNotations.
Local Open Scope Qc_scope.

Section Core.
  Variable tbl : table Qc.
  Variable res : resolved (T := Qc).
  Variable keys : list skey.

  Definition bu (i : nat) : unit := fst (res_get QcN res i).
  Definition scale (i : nat) : Qc := snd (res_get QcN res i).
  Hypothesis scale_pos : forall i, 0 < scale i.

  Definition bvec (l : unit) (b : nat) : Qc :=
    fold_right (fun f a => (if Nat.eqb (f_uid f) b then f_exp f else 0) + a) 0 l.
  Definition dim (i : nat) (b : nat) : Qc := bvec (bu i) b.
  Definition fbase (f : ufactor) : Qc := qc_prefix (f_pfx f) * scale (f_uid f).
  Definition fden (f : ufactor) : Qc := qc_pow (fbase f) (f_exp f).
  Definition Den (u : unit) : Qc := fold_right (fun f a => fden f * a) 1 u.
  Definition dimv (u : unit) (b : nat) : Qc :=
    fold_right (fun f a => f_exp f * dim (f_uid f) b + a) 0 u.

  Lemma fbase_pos f : 0 < fbase f.
  Proof. unfold fbase. apply Qc_mult_pos; [apply qc_prefix_pos | apply scale_pos]. Qed.

  (* ------------------------------------------------------------ integrality *)
  Lemma unit_int_cons f u : unit_int (f :: u) = true <-> Qc_is_int (f_exp f) = true /\ unit_int u = true.
  Proof. unfold unit_int. simpl. apply andb_true_iff. Qed.

  Lemma unit_int_app a b : unit_int (a ++ b) = true <-> unit_int a = true /\ unit_int b = true.
  Proof. unfold unit_int. rewrite forallb_app. apply andb_true_iff. Qed.

  Lemma is_int_mult a b : Qc_is_int a = true -> Qc_is_int b = true -> Qc_is_int (a * b) = true.
  Proof.
    intros Ha Hb. rewrite (Qc_is_int_inv _ Ha), (Qc_is_int_inv _ Hb), Qc_of_Z_mult.
    apply Qc_is_int_of_Z.
  Qed.
  Lemma is_int_plus a b : Qc_is_int a = true -> Qc_is_int b = true -> Qc_is_int (a + b) = true.
  Proof.
    intros Ha Hb. rewrite (Qc_is_int_inv _ Ha), (Qc_is_int_inv _ Hb), Qc_of_Z_plus.
    apply Qc_is_int_of_Z.
  Qed.

  Lemma unit_int_upower u e : Qc_is_int e = true -> unit_int u = true -> unit_int (upower u e) = true.
  Proof.
    intros He. induction u as [|f r IH]; [reflexivity|].
    rewrite unit_int_cons. intros [Hf Hr]. change (upower (f :: r) e) with (fpower e f :: upower r e).
    apply unit_int_cons. split.
    - simpl. apply is_int_mult; assumption.
    - apply IH; exact Hr.
  Qed.

  Lemma unit_int_uinvert u : unit_int u = true -> unit_int (uinvert u) = true.
  Proof. apply unit_int_upower. apply Qc_is_int_of_Z. Qed.

  Lemma unit_int_perm a b : Permutation a b -> unit_int a = true -> unit_int b = true.
  Proof.
    unfold unit_int. intros P H. rewrite forallb_forall in *. intros x Hx.
    apply H. apply Permutation_in with b; [apply Permutation_sym; exact P | exact Hx].
  Qed.

  Lemma unit_int_filter p u : unit_int u = true -> unit_int (filter p u) = true.
  Proof.
    unfold unit_int. rewrite !forallb_forall. intros H x Hx. apply filter_In in Hx. apply H, Hx.
  Qed.

  (* ------------------------------------------------------------ Den *)
  Lemma Den_app a b : Den (a ++ b) = Den a * Den b.
  Proof. induction a as [|f r IH]; simpl; [ring | rewrite IH; ring]. Qed.

  Lemma fden_int f : Qc_is_int (f_exp f) = true -> fden f = qpowz (fbase f) (Qnum (f_exp f)).
  Proof. intros H. unfold fden, qc_pow. rewrite H. reflexivity. Qed.

  Lemma fden_pos f : Qc_is_int (f_exp f) = true -> 0 < fden f.
  Proof. intros H. rewrite fden_int by exact H. apply qpowz_pos, fbase_pos. Qed.

  Lemma Den_pos u : unit_int u = true -> 0 < Den u.
  Proof.
    induction u as [|f r IH]; [reflexivity|].
    rewrite unit_int_cons. intros [Hf Hr]. simpl. apply Qc_mult_pos; [apply fden_pos; exact Hf | apply IH; exact Hr].
  Qed.

  Lemma Den_nz u : unit_int u = true -> Den u <> 0.
  Proof. intros H. apply Qc_pos_nz, Den_pos, H. Qed.

  Lemma Den_upower u n : unit_int u = true -> Den (upower u (Qc_of_Z n)) = qpowz (Den u) n.
  Proof.
    induction u as [|f r IH]; intros H.
    - simpl. symmetry. apply qpowz_1_l.
    - apply unit_int_cons in H. destruct H as [Hf Hr]. simpl.
      rewrite IH by exact Hr. rewrite qpowz_mult_base. f_equal.
      unfold fden at 1. simpl. unfold fbase at 1. simpl. fold (fbase f).
      rewrite (Qc_is_int_inv _ Hf) at 1. rewrite Qc_of_Z_mult, qc_pow_int, qpowz_mult.
      rewrite fden_int by exact Hf. reflexivity.
  Qed.

  Lemma Den_uinvert u : unit_int u = true -> Den (uinvert u) = / Den u.
  Proof.
    intros H. unfold uinvert. rewrite Den_upower by exact H.
    change (-1)%Z with (- (1))%Z. rewrite qpowz_opp, qpowz_1_r. reflexivity.
  Qed.

  Lemma Den_udiv a b : unit_int a = true -> unit_int b = true -> Den (udiv a b) = Den a / Den b.
  Proof. intros Ha Hb. unfold udiv. rewrite Den_app, Den_uinvert by exact Hb. reflexivity. Qed.

  Lemma Den_perm a b : Permutation a b -> Den a = Den b.
  Proof.
    induction 1; simpl; try congruence; ring.
  Qed.

  Lemma merge_adjacent_nil l : merge_adjacent l = [] -> l = [].
  Proof.
    destruct l as [|x r]; [reflexivity|]. simpl.
    destruct (merge_adjacent r) as [|y r']; [discriminate|].
    destruct (same_key x y); discriminate.
  Qed.

  Lemma Den_merge l : unit_int l = true ->
    unit_int (merge_adjacent l) = true /\ Den (merge_adjacent l) = Den l.
  Proof.
    induction l as [|x r IH]; intros H; [split; reflexivity|].
    apply unit_int_cons in H. destruct H as [Hx Hr]. destruct (IH Hr) as [Hi Hd].
    simpl. destruct (merge_adjacent r) as [|y r'] eqn:E.
    - apply merge_adjacent_nil in E. subst r. split; [apply unit_int_cons; auto | reflexivity].
    - apply unit_int_cons in Hi. destruct Hi as [Hy Hr'].
      destruct (same_key x y) eqn:K.
      + apply same_key_eq in K. destruct K as [Kp Ku]. split.
        * apply unit_int_cons. split; [simpl; apply is_int_plus; assumption | exact Hr'].
        * rewrite <- Hd. simpl. rewrite Qcmult_assoc. f_equal.
          rewrite (fden_int x Hx), (fden_int y Hy).
          assert (Hb : fbase y = fbase x) by (unfold fbase; rewrite Kp, Ku; reflexivity).
          rewrite Hb. rewrite <- qpowz_plus by (apply Qc_pos_nz, fbase_pos).
          unfold fden. simpl. unfold fbase at 1. simpl. fold (fbase x).
          rewrite (Qc_is_int_inv _ Hx) at 1. rewrite (Qc_is_int_inv _ Hy) at 1.
          rewrite Qc_of_Z_plus, qc_pow_int. reflexivity.
      + split; [apply unit_int_cons; split; [exact Hx | apply unit_int_cons; auto] |].
        rewrite <- Hd. reflexivity.
  Qed.

  Lemma Den_filter_nontrivial l : Den (filter nontrivial l) = Den l.
  Proof.
    induction l as [|x r IH]; [reflexivity|]. simpl.
    unfold nontrivial at 1. destruct (Qc_eqb (f_exp x) 0) eqn:E; simpl.
    - rewrite IH. apply Qc_eqb_eq in E. unfold fden. rewrite E.
      change 0 with (Qc_of_Z 0). rewrite qc_pow_int, qpowz_0_r. ring.
    - rewrite IH. reflexivity.
  Qed.

  Lemma insert_sorted_perm key x l : Permutation (insert_sorted key x l) (x :: l).
  Proof.
    induction l as [|y r IH]; simpl; [apply Permutation_refl|].
    destruct (ufactor_leb key x y); [apply Permutation_refl|].
    eapply Permutation_trans; [apply perm_skip, IH | apply perm_swap].
  Qed.

  Lemma sort_factors_perm key l : Permutation (sort_factors key l) l.
  Proof.
    induction l as [|x r IH]; simpl; [apply Permutation_refl|].
    eapply Permutation_trans; [apply insert_sorted_perm | apply perm_skip, IH].
  Qed.

  (* canonicalize with ANY permutation-returning sort keeps Den *)
  Lemma Den_canon_sorted_by sort u :
    (forall l, Permutation (sort l) l) -> unit_int u = true ->
    unit_int (canon_sorted_by sort u) = true /\ Den (canon_sorted_by sort u) = Den u.
  Proof.
    intros P H. unfold canon_sorted_by.
    assert (Hs : unit_int (sort u) = true) by (eapply unit_int_perm; [apply Permutation_sym, P | exact H]).
    destruct (Den_merge _ Hs) as [Hi Hd]. split.
    - apply unit_int_filter, Hi.
    - rewrite Den_filter_nontrivial, Hd. apply Den_perm, P.
  Qed.

  Lemma Den_canon_with key u : unit_int u = true ->
    unit_int (canon_with key u) = true /\ Den (canon_with key u) = Den u.
  Proof. apply Den_canon_sorted_by. apply sort_factors_perm. Qed.

  (* ------------------------------------------------------------ vectors *)
  Lemma bvec_app a b x : bvec (a ++ b) x = bvec a x + bvec b x.
  Proof. induction a as [|f r IH]; simpl; [ring | rewrite IH; ring]. Qed.

  Lemma bvec_upower l e x : bvec (upower l e) x = e * bvec l x.
  Proof.
    induction l as [|f r IH]; simpl; [ring|]. rewrite IH.
    destruct (Nat.eqb (f_uid f) x); ring.
  Qed.

  Lemma bvec_perm a b x : Permutation a b -> bvec a x = bvec b x.
  Proof. induction 1; simpl; try congruence; ring. Qed.

  Lemma bvec_merge l x : bvec (merge_adjacent l) x = bvec l x.
  Proof.
    induction l as [|a r IH]; [reflexivity|]. simpl.
    destruct (merge_adjacent r) as [|y r'] eqn:E.
    - apply merge_adjacent_nil in E. subst r. reflexivity.
    - rewrite <- IH. destruct (same_key a y) eqn:K; [|reflexivity].
      apply same_key_eq in K. destruct K as [_ Ku]. simpl. rewrite Ku.
      destruct (Nat.eqb (f_uid y) x); ring.
  Qed.

  Lemma bvec_filter l x : bvec (filter nontrivial l) x = bvec l x.
  Proof.
    induction l as [|a r IH]; [reflexivity|]. simpl.
    unfold nontrivial at 1. destruct (Qc_eqb (f_exp a) 0) eqn:E; simpl; rewrite IH.
    - apply Qc_eqb_eq in E. rewrite E. destruct (Nat.eqb (f_uid a) x); ring.
    - reflexivity.
  Qed.

  Lemma bvec_canon_with key l x : bvec (canon_with key l) x = bvec l x.
  Proof.
    unfold canon_with, canon_sorted_by. rewrite bvec_filter, bvec_merge.
    apply bvec_perm, sort_factors_perm.
  Qed.

  Lemma dimv_app a b x : dimv (a ++ b) x = dimv a x + dimv b x.
  Proof. induction a as [|f r IH]; simpl; [ring | rewrite IH; ring]. Qed.

  Lemma dimv_upower l e x : dimv (upower l e) x = e * dimv l x.
  Proof. induction l as [|f r IH]; simpl; [ring|]. rewrite IH. ring. Qed.

  Lemma dimv_uinvert l x : dimv (uinvert l) x = - dimv l x.
  Proof.
    unfold uinvert. rewrite dimv_upower. change (-1)%Z with (- (1))%Z.
    rewrite <- Qc_of_Z_opp. change (Qc_of_Z 1) with 1. ring.
  Qed.

  Lemma dimv_perm a b x : Permutation a b -> dimv a x = dimv b x.
  Proof. induction 1; simpl; try congruence; ring. Qed.

  Lemma dimv_merge l x : dimv (merge_adjacent l) x = dimv l x.
  Proof.
    induction l as [|a r IH]; [reflexivity|]. simpl.
    destruct (merge_adjacent r) as [|y r'] eqn:E.
    - apply merge_adjacent_nil in E. subst r. reflexivity.
    - rewrite <- IH. destruct (same_key a y) eqn:K; [|reflexivity].
      apply same_key_eq in K. destruct K as [_ Ku]. simpl. rewrite Ku. ring.
  Qed.

  Lemma dimv_filter l x : dimv (filter nontrivial l) x = dimv l x.
  Proof.
    induction l as [|a r IH]; [reflexivity|]. simpl.
    unfold nontrivial at 1. destruct (Qc_eqb (f_exp a) 0) eqn:E; simpl; rewrite IH.
    - apply Qc_eqb_eq in E. rewrite E. ring.
    - reflexivity.
  Qed.

  Lemma dimv_canon_with key l x : dimv (canon_with key l) x = dimv l x.
  Proof.
    unfold canon_with, canon_sorted_by. rewrite dimv_filter, dimv_merge.
    apply dimv_perm, sort_factors_perm.
  Qed.

  (* ------------------------------------------------------------ to_base *)
  Definition expand (u : unit) : unit :=
    flat_map (fun f => upower (bu (f_uid f)) (f_exp f)) u.

  Lemma to_base_raw_gen u : forall b0 a0,
    fold_left (fun (acc : unit * Qc) f =>
                 let '(b, bf) := res_get QcN res (f_uid f) in
                 (umul (fst acc) (upower b (f_exp f)),
                  n_mul QcN (snd acc) (n_pow QcN (n_mul QcN (n_prefix QcN (f_pfx f)) bf) (f_exp f))))
              u (b0, a0)
    = (b0 ++ expand u, a0 * Den u).
  Proof.
    induction u as [|f r IH]; intros b0 a0; simpl.
    - rewrite app_nil_r. f_equal. ring.
    - destruct (res_get QcN res (f_uid f)) as [b bf] eqn:E. rewrite IH. simpl.
      unfold umul. rewrite <- app_assoc. f_equal.
      + unfold bu. rewrite E. reflexivity.
      + unfold fden, fbase, scale. rewrite E. simpl. ring.
  Qed.

  Lemma to_base_raw_eq u : to_base_raw QcN res u = (expand u, Den u).
  Proof.
    unfold to_base_raw. rewrite to_base_raw_gen. simpl. f_equal. ring.
  Qed.

  Lemma unit_factor_eq u : unit_factor QcN res u = Den u.
  Proof. unfold unit_factor. rewrite to_base_raw_eq. reflexivity. Qed.

  Lemma to_base_eq u : to_base QcN tbl res u = (canon_with (base_key tbl) (expand u), Den u).
  Proof. unfold to_base. rewrite to_base_raw_eq. reflexivity. Qed.

  Lemma bvec_expand u x : bvec (expand u) x = dimv u x.
  Proof.
    induction u as [|f r IH]; [reflexivity|]. simpl.
    rewrite bvec_app, bvec_upower, IH. reflexivity.
  Qed.

  Lemma bvec_to_base u x : bvec (fst (to_base QcN tbl res u)) x = dimv u x.
  Proof. rewrite to_base_eq. simpl. rewrite bvec_canon_with. apply bvec_expand. Qed.

  (* ------------------------------------------------------------ unit equality *)
  Let key := key_of keys.

  Lemma unit_eq_canon a b : unit_eq keys a b = true -> canon_with key a = canon_with key b.
  Proof.
    unfold unit_eq, unit_eq_with. intros H.
    apply (list_eqb_eq ufactor_eqb ufactor_eqb_eq) in H. exact H.
  Qed.

  Lemma unit_eq_Den a b : unit_int a = true -> unit_int b = true ->
    unit_eq keys a b = true -> Den a = Den b.
  Proof.
    intros Ha Hb H. apply unit_eq_canon in H.
    destruct (Den_canon_with key a Ha) as [_ <-]. destruct (Den_canon_with key b Hb) as [_ <-].
    rewrite H. reflexivity.
  Qed.

  Lemma unit_eq_dimv a b x : unit_eq keys a b = true -> dimv a x = dimv b x.
  Proof.
    intros H. apply unit_eq_canon in H.
    rewrite <- (dimv_canon_with key a), <- (dimv_canon_with key b), H. reflexivity.
  Qed.

  Lemma unit_eq_bvec a b x : unit_eq keys a b = true -> bvec a x = bvec b x.
  Proof.
    intros H. apply unit_eq_canon in H.
    rewrite <- (bvec_canon_with key a), <- (bvec_canon_with key b), H. reflexivity.
  Qed.

  Lemma unit_eq_sym a b : unit_eq keys a b = unit_eq keys b a.
  Proof.
    unfold unit_eq, unit_eq_with.
    destruct (list_eqb ufactor_eqb (canon_with (key_of keys) a) (canon_with (key_of keys) b)) eqn:E1;
    destruct (list_eqb ufactor_eqb (canon_with (key_of keys) b) (canon_with (key_of keys) a)) eqn:E2;
      try reflexivity.
    - apply (list_eqb_eq ufactor_eqb ufactor_eqb_eq) in E1. rewrite E1 in E2.
      assert (list_eqb ufactor_eqb (canon_with (key_of keys) b) (canon_with (key_of keys) b) = true)
        by (apply (list_eqb_eq ufactor_eqb ufactor_eqb_eq); reflexivity). congruence.
    - apply (list_eqb_eq ufactor_eqb ufactor_eqb_eq) in E2. rewrite E2 in E1.
      assert (list_eqb ufactor_eqb (canon_with (key_of keys) a) (canon_with (key_of keys) a) = true)
        by (apply (list_eqb_eq ufactor_eqb ufactor_eqb_eq); reflexivity). congruence.
  Qed.

  (* ------------------------------------------------------------ common factors *)
  Lemma Qc_min_int a b : Qc_is_int a = true -> Qc_is_int b = true -> Qc_is_int (Qc_min a b) = true.
  Proof. unfold Qc_min. destruct (Qc_ltb b a); auto. Qed.
  Lemma Qc_max_int a b : Qc_is_int a = true -> Qc_is_int b = true -> Qc_is_int (Qc_max a b) = true.
  Proof. unfold Qc_max. destruct (Qc_ltb b a); auto. Qed.

  Lemma unit_int_In u f : unit_int u = true -> In f u -> Qc_is_int (f_exp f) = true.
  Proof. unfold unit_int. rewrite forallb_forall. auto. Qed.

  Lemma common_factors_int own target :
    unit_int own = true -> unit_int target = true -> unit_int (common_factors own target) = true.
  Proof.
    intros Ho Ht. unfold common_factors.
    assert (G : forall l acc, unit_int l = true -> unit_int acc = true ->
              unit_int (fold_left (fun common factor =>
                   match find (fun f => prefix_eqb (f_pfx factor) (f_pfx f)
                                        && Nat.eqb (f_uid factor) (f_uid f)) target with
                   | Some other =>
                       if Qc_ltb 0 (f_exp factor) && Qc_ltb 0 (f_exp other) then
                         umul common [mkF (f_uid factor) (f_pfx factor) (Qc_min (f_exp factor) (f_exp other))]
                       else if Qc_ltb (f_exp factor) 0 && Qc_ltb (f_exp other) 0 then
                         umul common [mkF (f_uid factor) (f_pfx factor) (Qc_max (f_exp factor) (f_exp other))]
                       else common
                   | None => common
                   end) l acc) = true).
    { induction l as [|x r IH]; intros acc Hl Hacc; [exact Hacc|].
      apply unit_int_cons in Hl. destruct Hl as [Hx Hr]. simpl. apply IH; [exact Hr|].
      destruct (find _ target) as [other|] eqn:Fd; [|exact Hacc].
      apply find_some in Fd. destruct Fd as [Hin _].
      pose proof (unit_int_In _ _ Ht Hin) as Hoth.
      destruct (Qc_ltb 0 (f_exp x) && Qc_ltb 0 (f_exp other)).
      - unfold umul. apply unit_int_app. split; [exact Hacc|].
        apply unit_int_cons. split; [simpl; apply Qc_min_int; assumption | reflexivity].
      - destruct (Qc_ltb (f_exp x) 0 && Qc_ltb (f_exp other) 0); [|exact Hacc].
        unfold umul. apply unit_int_app. split; [exact Hacc|].
        apply unit_int_cons. split; [simpl; apply Qc_max_int; assumption | reflexivity]. }
    apply G; [exact Ho | reflexivity].
  Qed.

  (* ------------------------------------------------------------ convert_to *)
  Definition DenQ (q : quantity (T := Qc)) : Qc := q_val q * Den (q_unit q).

  Lemma is_zero_true (q : quantity (T := Qc)) : q_is_zero QcN q = true <-> q_val q = 0.
  Proof. unfold q_is_zero. simpl. apply Qc_eqb_eq. Qed.
  Lemma is_zero_false (q : quantity (T := Qc)) : q_is_zero QcN q = false <-> q_val q <> 0.
  Proof. unfold q_is_zero. simpl. apply Qc_eqb_neq. Qed.

  Theorem convert_to_sound q target q' :
    unit_int (q_unit q) = true -> unit_int target = true ->
    convert_to QcN tbl res keys q target = Ok q' ->
    q_unit q' = target
    /\ q_simp q' = true /\ q_target q' = None
    /\ q_val q' * Den target = q_val q * Den (q_unit q)
    /\ (q_val q <> 0 -> forall x, dimv (q_unit q) x = dimv target x).
  Proof.
    intros Hu Ht. unfold convert_to.
    destruct (unit_eq keys (q_unit q) target) eqn:Eu; cbn [orb].
    - intros H. injection H as <-. simpl. repeat split.
      + rewrite (unit_eq_Den _ _ Hu Ht Eu). reflexivity.
      + intros _ x. apply unit_eq_dimv, Eu.
    - destruct (q_is_zero QcN q) eqn:Ez; cbn [orb].
      + intros H. injection H as <-. simpl. apply is_zero_true in Ez.
        repeat split; [rewrite Ez; ring | intros C; contradiction].
      + set (common := common_factors (canon keys (q_unit q)) (canon keys target)).
        assert (Hc : unit_int common = true).
        { apply common_factors_int; apply Den_canon_with; assumption. }
        rewrite !to_base_eq. rewrite unit_factor_eq. cbv beta iota zeta. cbn [fst snd].
        match goal with |- context [if ?c then _ else _] => destruct c eqn:Eb end; [|intros H; discriminate H].
        intros H. injection H as <-. simpl. repeat split.
        * assert (Hd1 : unit_int (udiv target common) = true)
            by (apply unit_int_app; split; [exact Ht | apply unit_int_uinvert, Hc]).
          destruct (Den_canon_with key _ Hd1) as [_ Hd1'].
          unfold canon. fold key. rewrite Hd1'.
          rewrite !Den_udiv by assumption.
          pose proof (Den_nz _ Ht). pose proof (Den_nz _ Hc). pose proof (Den_nz _ Hu).
          field. repeat split; try assumption. discriminate.
        * intros _ x.
          apply unit_eq_bvec with (x := x) in Eb.
          rewrite !bvec_canon_with, !bvec_expand in Eb.
          unfold canon in Eb. rewrite !dimv_canon_with in Eb.
          unfold udiv in Eb. rewrite !dimv_app, !dimv_uinvert in Eb.
          assert (E : dimv (q_unit q) x = dimv (q_unit q) x + - dimv common x + dimv common x) by ring.
          rewrite E, Eb. ring.
  Qed.

  (* ------------------------------------------------------------ + and - *)
  Lemma smaller_unit_cases a b :
    smaller_unit QcN res a b = a \/ smaller_unit QcN res a b = b.
  Proof. unfold smaller_unit. destruct (n_leb QcN _ _); auto. Qed.

  Lemma DenQ_qneg a : DenQ (qneg QcN a) = - DenQ a.
  Proof. unfold DenQ, qneg. simpl. ring. Qed.

  Lemma qaddsub_sound op zl (s : Qc) a b r :
    (forall x y, op x y = x + s * y) ->
    (forall q, q_val (zl q) = s * q_val q /\ q_unit (zl q) = q_unit q) ->
    unit_int (q_unit a) = true -> unit_int (q_unit b) = true ->
    qaddsub QcN tbl res keys op zl a b = Ok r ->
    DenQ r = DenQ a + s * DenQ b
    /\ unit_int (q_unit r) = true
    /\ (q_unit r = q_unit a \/ q_unit r = q_unit b).
  Proof.
    intros Hop Hzl Ha Hb. unfold qaddsub.
    destruct (q_is_zero QcN a) eqn:Za.
    { intros H. injection H as <-. apply is_zero_true in Za. destruct (Hzl b) as [Hv Hu].
      unfold DenQ. rewrite Hv, Hu, Za. repeat split; [ring | exact Hb | auto]. }
    destruct (q_is_zero QcN b) eqn:Zb.
    { intros H. injection H as <-. apply is_zero_true in Zb.
      unfold DenQ. rewrite Zb. repeat split; [ring | exact Ha | auto]. }
    destruct (unit_eq keys (q_unit a) (q_unit b)) eqn:Eu.
    { intros H. injection H as <-. unfold DenQ. simpl.
      rewrite Hop, <- (unit_eq_Den _ _ Ha Hb Eu). repeat split; [ring | exact Ha | auto]. }
    set (R := smaller_unit QcN res (q_unit a) (q_unit b)).
    assert (HR : unit_int R = true)
      by (destruct (smaller_unit_cases (q_unit a) (q_unit b)) as [E|E]; unfold R; rewrite E; assumption).
    destruct (convert_to QcN tbl res keys a R) as [a'|] eqn:Ca; [|discriminate].
    destruct (convert_to QcN tbl res keys b R) as [b'|] eqn:Cb; [|discriminate].
    cbn [bind]. intros H. injection H as <-.
    destruct (convert_to_sound _ _ _ Ha HR Ca) as (_ & _ & _ & Va & _).
    destruct (convert_to_sound _ _ _ Hb HR Cb) as (_ & _ & _ & Vb & _).
    unfold DenQ. simpl. rewrite Hop. repeat split.
    - rewrite <- Va, <- Vb. ring.
    - exact HR.
    - apply smaller_unit_cases.
  Qed.

  Theorem qadd_sound a b r :
    unit_int (q_unit a) = true -> unit_int (q_unit b) = true ->
    qadd QcN tbl res keys a b = Ok r ->
    DenQ r = DenQ a + DenQ b /\ unit_int (q_unit r) = true
    /\ (q_unit r = q_unit a \/ q_unit r = q_unit b).
  Proof.
    intros Ha Hb H. unfold qadd in H.
    assert (H1 : forall x y : Qc, Qcplus x y = x + 1 * y) by (intros; ring).
    assert (H2 : forall q : quantity (T := Qc), q_val q = 1 * q_val q /\ q_unit q = q_unit q)
      by (intros; split; [ring | reflexivity]).
    destruct (qaddsub_sound Qcplus (fun q => q) 1 a b r H1 H2 Ha Hb H) as (E & I & U).
    split; [rewrite E; ring | auto].
  Qed.

  Theorem qsub_sound a b r :
    unit_int (q_unit a) = true -> unit_int (q_unit b) = true ->
    qsub QcN tbl res keys a b = Ok r ->
    DenQ r = DenQ a - DenQ b /\ unit_int (q_unit r) = true
    /\ (q_unit r = q_unit a \/ q_unit r = q_unit b).
  Proof.
    intros Ha Hb H. unfold qsub in H.
    assert (H1 : forall x y : Qc, Qcminus x y = x + (-(1)) * y) by (intros; ring).
    assert (H2 : forall q : quantity (T := Qc),
               q_val (qneg QcN q) = (-(1)) * q_val q /\ q_unit (qneg QcN q) = q_unit q)
      by (intros; split; [simpl; ring | reflexivity]).
    destruct (qaddsub_sound Qcminus (qneg QcN) (-(1)) a b r H1 H2 Ha Hb H) as (E & I & U).
    split; [rewrite E; ring | auto].
  Qed.

  (* ------------------------------------------------------------ * / ^ neg *)
  Lemma qmul_sound a b : DenQ (qmul QcN a b) = DenQ a * DenQ b.
  Proof. unfold DenQ, qmul, umul. simpl. rewrite Den_app. ring. Qed.

  Lemma qdiv_sound a b r :
    unit_int (q_unit a) = true -> unit_int (q_unit b) = true ->
    qdiv QcN a b = Ok r ->
    DenQ r = DenQ a / DenQ b /\ DenQ b <> 0 /\ unit_int (q_unit r) = true.
  Proof.
    intros Ha Hb. unfold qdiv. destruct (q_is_zero QcN b) eqn:Zb; [discriminate|].
    intros H. injection H as <-. apply is_zero_false in Zb. pose proof (Den_nz _ Hb) as Hd.
    assert (Hn : DenQ b <> 0).
    { unfold DenQ. intros E. apply Qcmult_integral in E. destruct E; contradiction. }
    repeat split; [| exact Hn |].
    - unfold DenQ, qdiv_raw. simpl. rewrite Den_udiv by assumption. field. auto.
    - simpl. apply unit_int_app. split; [exact Ha | apply unit_int_uinvert, Hb].
  Qed.

  Lemma qpow_sound a n r :
    unit_int (q_unit a) = true -> qpow QcN a n = Ok r ->
    DenQ r = qpowz (DenQ a) n /\ unit_int (q_unit r) = true.
  Proof.
    intros Ha. unfold qpow. destruct (_ && _); [discriminate|].
    intros H. injection H as <-. unfold DenQ. simpl. split.
    - rewrite qc_pow_int, Den_upower by exact Ha. symmetry. apply qpowz_mult_base.
    - apply unit_int_upower; [apply Qc_is_int_of_Z | exact Ha].
  Qed.

  (* ------------------------------------------------------------ comparisons *)
  Lemma Qc_cmp_mult_pos x y d : 0 < d -> Qc_cmp (x * d) (y * d) = Qc_cmp x y.
  Proof.
    intros Hd. unfold Qc_cmp. destruct (x ?= y) eqn:E.
    - apply Qceq_alt in E. subst. apply Qceq_alt. reflexivity.
    - apply Qclt_alt in E. apply Qclt_alt. apply Qcmult_lt_compat_r; assumption.
    - apply Qcgt_alt in E. apply Qcgt_alt. apply Qcmult_lt_compat_r; assumption.
  Qed.

  Lemma Qc_cmp_antisym x y : Qc_cmp y x = CompOpp (Qc_cmp x y).
  Proof.
    unfold Qc_cmp. destruct (x ?= y) eqn:E; simpl.
    - apply Qceq_alt in E. subst. apply Qceq_alt. reflexivity.
    - apply Qclt_alt in E. apply Qcgt_alt. exact E.
    - apply Qcgt_alt in E. apply Qclt_alt. exact E.
  Qed.

  Lemma Qc_eqb_cmp x y : Qc_eqb x y = match Qc_cmp x y with Eq => true | _ => false end.
  Proof.
    unfold Qc_cmp. destruct (x ?= y) eqn:E.
    - apply Qceq_alt in E. apply Qc_eqb_eq. exact E.
    - apply Qc_eqb_neq. intros ->. apply Qclt_alt in E. apply (Qclt_not_eq _ _ E). reflexivity.
    - apply Qc_eqb_neq. intros ->. apply Qcgt_alt in E. apply (Qclt_not_eq _ _ E). reflexivity.
  Qed.

  Lemma cmp_eqb_refl c : cmp_eqb c c = true.
  Proof. destruct c; reflexivity. Qed.

  (* the symmetric comparison decides the order of the physical quantities *)
  Theorem sym_cmp_exact a b r :
    unit_int (q_unit a) = true -> unit_int (q_unit b) = true ->
    sym_cmp QcN tbl res keys a b = Ok r -> r = Some (Qc_cmp (DenQ a) (DenQ b)).
  Proof.
    intros Ha Hb. unfold sym_cmp. simpl.
    assert (E1 : forall b', convert_to QcN tbl res keys b (q_unit a) = Ok b' ->
                 Qc_cmp (q_val a) (q_val b') = Qc_cmp (DenQ a) (DenQ b)).
    { intros b' C. destruct (convert_to_sound _ _ _ Hb Ha C) as (_ & _ & _ & V & _).
      unfold DenQ. rewrite <- V. symmetry. apply Qc_cmp_mult_pos, Den_pos, Ha. }
    assert (E2 : forall a', convert_to QcN tbl res keys a (q_unit b) = Ok a' ->
                 Qc_cmp (q_val a') (q_val b) = Qc_cmp (DenQ a) (DenQ b)).
    { intros a' C. destruct (convert_to_sound _ _ _ Ha Hb C) as (_ & _ & _ & V & _).
      unfold DenQ. rewrite <- V. symmetry. apply Qc_cmp_mult_pos, Den_pos, Hb. }
    destruct (convert_to QcN tbl res keys b (q_unit a)) as [b'|] eqn:Cb;
      destruct (convert_to QcN tbl res keys a (q_unit b)) as [a'|] eqn:Ca.
    - rewrite (E1 b' eq_refl), (E2 a' eq_refl), cmp_eqb_refl. intros H. injection H as <-. reflexivity.
    - rewrite (E1 b' eq_refl). intros H. injection H as <-. reflexivity.
    - rewrite (E2 a' eq_refl). intros H. injection H as <-. reflexivity.
    - discriminate.
  Qed.

  Lemma sym_cmp_ok a b b' :
    convert_to QcN tbl res keys b (q_unit a) = Ok b' -> exists r, sym_cmp QcN tbl res keys a b = Ok r.
  Proof.
    intros C. unfold sym_cmp. rewrite C. simpl.
    destruct (convert_to QcN tbl res keys a (q_unit b)); [|eexists; reflexivity].
    destruct (cmp_eqb _ _); eexists; reflexivity.
  Qed.

  Theorem pcmp_exact a b :
    unit_int (q_unit a) = true -> unit_int (q_unit b) = true ->
    forall c, pcmp QcN tbl res keys a b = OOk c -> c = Qc_cmp (DenQ a) (DenQ b).
  Proof.
    intros Ha Hb c. unfold pcmp. simpl.
    destruct (sym_cmp QcN tbl res keys a b) as [[c0|]|] eqn:S; try discriminate.
    intros H. injection H as <-. pose proof (sym_cmp_exact a b _ Ha Hb S) as E. congruence.
  Qed.

  Theorem qeq_exact a b b' :
    unit_int (q_unit a) = true -> unit_int (q_unit b) = true ->
    convert_to QcN tbl res keys b (q_unit a) = Ok b' ->
    qeq QcN tbl res keys a b = match Qc_cmp (DenQ a) (DenQ b) with Eq => true | _ => false end.
  Proof.
    intros Ha Hb Cb. unfold qeq. destruct (sym_cmp_ok a b b' Cb) as (r & S). rewrite S.
    rewrite (sym_cmp_exact a b r Ha Hb S). reflexivity.
  Qed.

  (* ------------------------------------------------------------ Op::ConvertTo *)
  Theorem vm_convert_sound a b q :
    unit_int (q_unit a) = true -> unit_int (q_unit b) = true ->
    vm_convert QcN tbl res keys a b = Ok q ->
    q_unit q = q_unit b /\ q_simp q = false /\ DenQ q = DenQ a
    /\ q_target q = (if Qc_eqb (q_val b) 1 then None else Some (q_val b, q_unit b)).
  Proof.
    intros Ha Hb. unfold vm_convert.
    destruct (convert_to QcN tbl res keys a (q_unit b)) as [c|] eqn:C; [|discriminate].
    cbn [bind]. intros H. injection H as <-. simpl.
    destruct (convert_to_sound _ _ _ Ha Hb C) as (U & _ & _ & V & _).
    repeat split; [exact U | unfold DenQ; simpl; rewrite U; exact V].
  Qed.

  (* ------------------------------------------------------------ expressions *)
  Fixpoint sem_val (e : expr (T := Qc)) : Qc :=
    match e with
    | ELit v u => v * Den u
    | EAdd a b => sem_val a + sem_val b
    | ESub a b => sem_val a - sem_val b
    | EMul a b => sem_val a * sem_val b
    | EDiv a b => sem_val a / sem_val b
    | ENeg a => - sem_val a
    | EPow a n => qpowz (sem_val a) n
    | EConv a _ => sem_val a
    end.

  Fixpoint sem_dim (e : expr (T := Qc)) (x : nat) : Qc :=
    match e with
    | ELit _ u => dimv u x
    | EAdd a _ | ESub a _ => sem_dim a x
    | EMul a b => sem_dim a x + sem_dim b x
    | EDiv a b => sem_dim a x - sem_dim b x
    | ENeg a => sem_dim a x
    | EPow a n => Qc_of_Z n * sem_dim a x
    | EConv _ u => dimv u x
    end.

  Fixpoint well_dim (e : expr (T := Qc)) : Prop :=
    match e with
    | ELit _ _ => True
    | EAdd a b | ESub a b => well_dim a /\ well_dim b /\ forall x, sem_dim a x = sem_dim b x
    | EMul a b | EDiv a b => well_dim a /\ well_dim b
    | ENeg a | EPow a _ => well_dim a
    | EConv a u => well_dim a /\ forall x, sem_dim a x = dimv u x
    end.

  Definition expr_int (e : expr (T := Qc)) : bool := forallb unit_int (expr_units e).

  Theorem eval_sound e : expr_int e = true ->
    forall q, eval QcN tbl res keys e = Ok q ->
    DenQ q = sem_val e /\ unit_int (q_unit q) = true
    /\ (well_dim e -> forall x, dimv (q_unit q) x = sem_dim e x).
  Proof.
    unfold expr_int.
    induction e as [v u | a IHa b IHb | a IHa b IHb | a IHa b IHb | a IHa b IHb | a IHa | a IHa n | a IHa u];
      simpl; intros Hi q.
    - intros H. injection H as <-. rewrite andb_true_r in Hi. repeat split; auto.
    - rewrite forallb_app in Hi. apply andb_true_iff in Hi. destruct Hi as [Hia Hib].
      destruct (eval QcN tbl res keys a) as [x|] eqn:Ea; [|discriminate].
      destruct (eval QcN tbl res keys b) as [y|] eqn:Eb; [|discriminate]. cbn [bind].
      destruct (IHa Hia x eq_refl) as (Va & Ia & Da). destruct (IHb Hib y eq_refl) as (Vb & Ib & Db).
      intros H. destruct (qadd_sound _ _ _ Ia Ib H) as (V & I & U).
      repeat split; [rewrite V, Va, Vb; reflexivity | exact I |].
      intros (Wa & Wb & Wab) z. destruct U as [U|U]; rewrite U.
      + apply Da, Wa.
      + rewrite Wab. apply Db, Wb.
    - rewrite forallb_app in Hi. apply andb_true_iff in Hi. destruct Hi as [Hia Hib].
      destruct (eval QcN tbl res keys a) as [x|] eqn:Ea; [|discriminate].
      destruct (eval QcN tbl res keys b) as [y|] eqn:Eb; [|discriminate]. cbn [bind].
      destruct (IHa Hia x eq_refl) as (Va & Ia & Da). destruct (IHb Hib y eq_refl) as (Vb & Ib & Db).
      intros H. destruct (qsub_sound _ _ _ Ia Ib H) as (V & I & U).
      repeat split; [rewrite V, Va, Vb; reflexivity | exact I |].
      intros (Wa & Wb & Wab) z. destruct U as [U|U]; rewrite U.
      + apply Da, Wa.
      + rewrite Wab. apply Db, Wb.
    - rewrite forallb_app in Hi. apply andb_true_iff in Hi. destruct Hi as [Hia Hib].
      destruct (eval QcN tbl res keys a) as [x|] eqn:Ea; [|discriminate].
      destruct (eval QcN tbl res keys b) as [y|] eqn:Eb; [|discriminate]. cbn [bind].
      destruct (IHa Hia x eq_refl) as (Va & Ia & Da). destruct (IHb Hib y eq_refl) as (Vb & Ib & Db).
      intros H. injection H as <-. repeat split.
      + rewrite qmul_sound, Va, Vb. reflexivity.
      + simpl. apply unit_int_app. auto.
      + intros (Wa & Wb) z. simpl. unfold umul. rewrite dimv_app, Da, Db by assumption. reflexivity.
    - rewrite forallb_app in Hi. apply andb_true_iff in Hi. destruct Hi as [Hia Hib].
      destruct (eval QcN tbl res keys a) as [x|] eqn:Ea; [|discriminate].
      destruct (eval QcN tbl res keys b) as [y|] eqn:Eb; [|discriminate]. cbn [bind].
      destruct (IHa Hia x eq_refl) as (Va & Ia & Da). destruct (IHb Hib y eq_refl) as (Vb & Ib & Db).
      intros H. destruct (qdiv_sound _ _ _ Ia Ib H) as (V & _ & I).
      repeat split; [rewrite V, Va, Vb; reflexivity | exact I |].
      intros (Wa & Wb) z. unfold qdiv in H. destruct (q_is_zero QcN y); [discriminate|].
      injection H as <-. simpl. unfold udiv. rewrite dimv_app, dimv_uinvert, Da, Db by assumption.
      reflexivity.
    - destruct (eval QcN tbl res keys a) as [x|] eqn:Ea; [|discriminate]. cbn [bind].
      destruct (IHa Hi x eq_refl) as (Va & Ia & Da).
      intros H. injection H as <-. repeat split.
      + rewrite DenQ_qneg, Va. reflexivity.
      + exact Ia.
      + intros Wa z. simpl. apply Da, Wa.
    - destruct (eval QcN tbl res keys a) as [x|] eqn:Ea; [|discriminate]. cbn [bind].
      destruct (IHa Hi x eq_refl) as (Va & Ia & Da).
      intros H. destruct (qpow_sound _ _ _ Ia H) as (V & I).
      repeat split; [rewrite V, Va; reflexivity | exact I |].
      intros Wa z. unfold qpow in H. destruct (_ && _); [discriminate|]. injection H as <-.
      simpl. rewrite dimv_upower, Da by assumption. reflexivity.
    - apply andb_true_iff in Hi. destruct Hi as [Hu Hia].
      destruct (eval QcN tbl res keys a) as [x|] eqn:Ea; [|discriminate]. cbn [bind].
      destruct (IHa Hia x eq_refl) as (Va & Ia & Da).
      intros H. destruct (vm_convert_sound x (from_unit QcN u) q Ia Hu H) as (U & _ & V & _).
      simpl in U. repeat split.
      + rewrite V. exact Va.
      + rewrite U. exact Hu.
      + intros _ z. rewrite U. reflexivity.
  Qed.
End Core.
