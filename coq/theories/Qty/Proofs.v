(* Qty/Proofs.v — proofs about the exact instance of the quantity model.

   Den u  : the size of unit u in base units (product of (prefix * scale)^exp)
   dimv u : its base-unit exponent vector
   Both are read off the resolved table; Section TableSem shows that they
   satisfy the defining equations of "dimensional analysis of the unit
   definitions" (scale_base / scale_derived / dim_base / dim_derived).

   Everything in Section Core holds for ANY sort-key assignment [keys] (the
   order chosen by canonicalize never matters for a value). *)
From Coq Require Import List ZArith QArith Qcanon Qpower Bool Lia Field Permutation.
From NV Require Import Qty.Model Qty.Exec Qty.NumFacts.
Import ListNotations.
Local Open Scope Qc_scope.

Section Core.
  Variable tbl : table Qc.
  Variable res : resolved (T := Qc).
  Variable keys : list skey.

  Definition bu (i : nat) : unit := fst (res_get QcN res i).
  Definition scale (i : nat) : Qc := snd (res_get QcN res i).
  Hypothesis scale_pos : forall i, 0 < scale i.

  Definition bvec (l : unit) (b : nat) : Qc :=
    fold_right (fun f a => (if Nat.eqb (f_uid f) b then f_exp f else 0) + a) 0 l.
  Definition dim (i : nat) (b : nat) : Qc := bvec (bu i) b.
  Definition fbase (f : ufactor) : Qc := qc_prefix (f_pfx f) * scale (f_uid f).
  Definition fden (f : ufactor) : Qc := qc_pow (fbase f) (f_exp f).
  Definition Den (u : unit) : Qc := fold_right (fun f a => fden f * a) 1 u.
  Definition dimv (u : unit) (b : nat) : Qc :=
    fold_right (fun f a => f_exp f * dim (f_uid f) b + a) 0 u.

  Lemma fbase_pos f : 0 < fbase f.
  Proof. unfold fbase. apply Qc_mult_pos; [apply qc_prefix_pos | apply scale_pos]. Qed.

  (* ------------------------------------------------------------ integrality *)
  Lemma unit_int_cons f u : unit_int (f :: u) = true <-> Qc_is_int (f_exp f) = true /\ unit_int u = true.
  Proof. unfold unit_int. simpl. apply andb_true_iff. Qed.

  Lemma unit_int_app a b : unit_int (a ++ b) = true <-> unit_int a = true /\ unit_int b = true.
  Proof. unfold unit_int. rewrite forallb_app. apply andb_true_iff. Qed.

  Lemma is_int_mult a b : Qc_is_int a = true -> Qc_is_int b = true -> Qc_is_int (a * b) = true.
  Proof.
    intros Ha Hb. rewrite (Qc_is_int_inv _ Ha), (Qc_is_int_inv _ Hb), Qc_of_Z_mult.
    apply Qc_is_int_of_Z.
  Qed.
  Lemma is_int_plus a b : Qc_is_int a = true -> Qc_is_int b = true -> Qc_is_int (a + b) = true.
  Proof.
    intros Ha Hb. rewrite (Qc_is_int_inv _ Ha), (Qc_is_int_inv _ Hb), Qc_of_Z_plus.
    apply Qc_is_int_of_Z.
  Qed.

  Lemma unit_int_upower u e : Qc_is_int e = true -> unit_int u = true -> unit_int (upower u e) = true.
  Proof.
    intros He. induction u as [|f r IH]; [reflexivity|].
    rewrite unit_int_cons. intros [Hf Hr]. change (upower (f :: r) e) with (fpower e f :: upower r e).
    apply unit_int_cons. split.
    - simpl. apply is_int_mult; assumption.
    - apply IH; exact Hr.
  Qed.

  Lemma unit_int_uinvert u : unit_int u = true -> unit_int (uinvert u) = true.
  Proof. apply unit_int_upower. apply Qc_is_int_of_Z. Qed.

  Lemma unit_int_perm a b : Permutation a b -> unit_int a = true -> unit_int b = true.
  Proof.
    unfold unit_int. intros P H. rewrite forallb_forall in *. intros x Hx.
    apply H. apply Permutation_in with b; [apply Permutation_sym; exact P | exact Hx].
  Qed.

  Lemma unit_int_filter p u : unit_int u = true -> unit_int (filter p u) = true.
  Proof.
    unfold unit_int. rewrite !forallb_forall. intros H x Hx. apply filter_In in Hx. apply H, Hx.
  Qed.

  (* ------------------------------------------------------------ Den *)
  Lemma Den_app a b : Den (a ++ b) = Den a * Den b.
  Proof. induction a as [|f r IH]; simpl; [ring | rewrite IH; ring]. Qed.

  Lemma fden_int f : Qc_is_int (f_exp f) = true -> fden f = qpowz (fbase f) (Qnum (f_exp f)).
  Proof. intros H. unfold fden, qc_pow. rewrite H. reflexivity. Qed.

  Lemma fden_pos f : Qc_is_int (f_exp f) = true -> 0 < fden f.
  Proof. intros H. rewrite fden_int by exact H. apply qpowz_pos, fbase_pos. Qed.

  Lemma Den_pos u : unit_int u = true -> 0 < Den u.
  Proof.
    induction u as [|f r IH]; [reflexivity|].
    rewrite unit_int_cons. intros [Hf Hr]. simpl. apply Qc_mult_pos; [apply fden_pos; exact Hf | apply IH; exact Hr].
  Qed.

  Lemma Den_nz u : unit_int u = true -> Den u <> 0.
  Proof. intros H. apply Qc_pos_nz, Den_pos, H. Qed.

  Lemma Den_upower u n : unit_int u = true -> Den (upower u (Qc_of_Z n)) = qpowz (Den u) n.
  Proof.
    induction u as [|f r IH]; intros H.
    - simpl. symmetry. apply qpowz_1_l.
    - apply unit_int_cons in H. destruct H as [Hf Hr]. simpl.
      rewrite IH by exact Hr. rewrite qpowz_mult_base. f_equal.
      unfold fden at 1. simpl. unfold fbase at 1. simpl. fold (fbase f).
      rewrite (Qc_is_int_inv _ Hf) at 1. rewrite Qc_of_Z_mult, qc_pow_int, qpowz_mult.
      rewrite fden_int by exact Hf. reflexivity.
  Qed.

  Lemma Den_uinvert u : unit_int u = true -> Den (uinvert u) = / Den u.
  Proof.
    intros H. unfold uinvert. rewrite Den_upower by exact H.
    change (-1)%Z with (- (1))%Z. rewrite qpowz_opp, qpowz_1_r. reflexivity.
  Qed.

  Lemma Den_udiv a b : unit_int a = true -> unit_int b = true -> Den (udiv a b) = Den a / Den b.
  Proof. intros Ha Hb. unfold udiv. rewrite Den_app, Den_uinvert by exact Hb. reflexivity. Qed.

  Lemma Den_perm a b : Permutation a b -> Den a = Den b.
  Proof.
    induction 1; simpl; try congruence; ring.
  Qed.

  Lemma merge_adjacent_nil l : merge_adjacent l = [] -> l = [].
  Proof.
    destruct l as [|x r]; [reflexivity|]. simpl.
    destruct (merge_adjacent r) as [|y r']; [discriminate|].
    destruct (same_key x y); discriminate.
  Qed.

  Lemma Den_merge l : unit_int l = true ->
    unit_int (merge_adjacent l) = true /\ Den (merge_adjacent l) = Den l.
  Proof.
    induction l as [|x r IH]; intros H; [split; reflexivity|].
    apply unit_int_cons in H. destruct H as [Hx Hr]. destruct (IH Hr) as [Hi Hd].
    simpl. destruct (merge_adjacent r) as [|y r'] eqn:E.
    - apply merge_adjacent_nil in E. subst r. split; [apply unit_int_cons; auto | reflexivity].
    - apply unit_int_cons in Hi. destruct Hi as [Hy Hr'].
      destruct (same_key x y) eqn:K.
      + apply same_key_eq in K. destruct K as [Kp Ku]. split.
        * apply unit_int_cons. split; [simpl; apply is_int_plus; assumption | exact Hr'].
        * rewrite <- Hd. simpl. rewrite Qcmult_assoc. f_equal.
          rewrite (fden_int x Hx), (fden_int y Hy).
          assert (Hb : fbase y = fbase x) by (unfold fbase; rewrite Kp, Ku; reflexivity).
          rewrite Hb. rewrite <- qpowz_plus by (apply Qc_pos_nz, fbase_pos).
          unfold fden. simpl. unfold fbase at 1. simpl. fold (fbase x).
          rewrite (Qc_is_int_inv _ Hx) at 1. rewrite (Qc_is_int_inv _ Hy) at 1.
          rewrite Qc_of_Z_plus, qc_pow_int. reflexivity.
      + split; [apply unit_int_cons; split; [exact Hx | apply unit_int_cons; auto] |].
        rewrite <- Hd. reflexivity.
  Qed.

  Lemma Den_filter_nontrivial l : Den (filter nontrivial l) = Den l.
  Proof.
    induction l as [|x r IH]; [reflexivity|]. simpl.
    unfold nontrivial at 1. destruct (Qc_eqb (f_exp x) 0) eqn:E; simpl.
    - rewrite IH. apply Qc_eqb_eq in E. unfold fden. rewrite E.
      change 0 with (Qc_of_Z 0). rewrite qc_pow_int, qpowz_0_r. ring.
    - rewrite IH. reflexivity.
  Qed.

  Lemma insert_sorted_perm key x l : Permutation (insert_sorted key x l) (x :: l).
  Proof.
    induction l as [|y r IH]; simpl; [apply Permutation_refl|].
    destruct (ufactor_leb key x y); [apply Permutation_refl|].
    eapply Permutation_trans; [apply perm_skip, IH | apply perm_swap].
  Qed.

  Lemma sort_factors_perm key l : Permutation (sort_factors key l) l.
  Proof.
    induction l as [|x r IH]; simpl; [apply Permutation_refl|].
    eapply Permutation_trans; [apply insert_sorted_perm | apply perm_skip, IH].
  Qed.

  (* canonicalize with ANY permutation-returning sort keeps Den *)
  Lemma Den_canon_sorted_by sort u :
    (forall l, Permutation (sort l) l) -> unit_int u = true ->
    unit_int (canon_sorted_by sort u) = true /\ Den (canon_sorted_by sort u) = Den u.
  Proof.
    intros P H. unfold canon_sorted_by.
    assert (Hs : unit_int (sort u) = true) by (eapply unit_int_perm; [apply Permutation_sym, P | exact H]).
    destruct (Den_merge _ Hs) as [Hi Hd]. split.
    - apply unit_int_filter, Hi.
    - rewrite Den_filter_nontrivial, Hd. apply Den_perm, P.
  Qed.

  Lemma Den_canon_with key u : unit_int u = true ->
    unit_int (canon_with key u) = true /\ Den (canon_with key u) = Den u.
  Proof. apply Den_canon_sorted_by. apply sort_factors_perm. Qed.

  (* ------------------------------------------------------------ vectors *)
  Lemma bvec_app a b x : bvec (a ++ b) x = bvec a x + bvec b x.
  Proof. induction a as [|f r IH]; simpl; [ring | rewrite IH; ring]. Qed.

  Lemma bvec_upower l e x : bvec (upower l e) x = e * bvec l x.
  Proof.
    induction l as [|f r IH]; simpl; [ring|]. rewrite IH.
    destruct (Nat.eqb (f_uid f) x); ring.
  Qed.

  Lemma bvec_perm a b x : Permutation a b -> bvec a x = bvec b x.
  Proof. induction 1; simpl; try congruence; ring. Qed.

  Lemma bvec_merge l x : bvec (merge_adjacent l) x = bvec l x.
  Proof.
    induction l as [|a r IH]; [reflexivity|]. simpl.
    destruct (merge_adjacent r) as [|y r'] eqn:E.
    - apply merge_adjacent_nil in E. subst r. reflexivity.
    - rewrite <- IH. destruct (same_key a y) eqn:K; [|reflexivity].
      apply same_key_eq in K. destruct K as [_ Ku]. simpl. rewrite Ku.
      destruct (Nat.eqb (f_uid y) x); ring.
  Qed.

  Lemma bvec_filter l x : bvec (filter nontrivial l) x = bvec l x.
  Proof.
    induction l as [|a r IH]; [reflexivity|]. simpl.
    unfold nontrivial at 1. destruct (Qc_eqb (f_exp a) 0) eqn:E; simpl; rewrite IH.
    - apply Qc_eqb_eq in E. rewrite E. destruct (Nat.eqb (f_uid a) x); ring.
    - reflexivity.
  Qed.

  Lemma bvec_canon_with key l x : bvec (canon_with key l) x = bvec l x.
  Proof.
    unfold canon_with, canon_sorted_by. rewrite bvec_filter, bvec_merge.
    apply bvec_perm, sort_factors_perm.
  Qed.

  Lemma dimv_app a b x : dimv (a ++ b) x = dimv a x + dimv b x.
  Proof. induction a as [|f r IH]; simpl; [ring | rewrite IH; ring]. Qed.

  Lemma dimv_upower l e x : dimv (upower l e) x = e * dimv l x.
  Proof. induction l as [|f r IH]; simpl; [ring|]. rewrite IH. ring. Qed.

  Lemma dimv_uinvert l x : dimv (uinvert l) x = - dimv l x.
  Proof.
    unfold uinvert. rewrite dimv_upower. change (-1)%Z with (- (1))%Z.
    rewrite <- Qc_of_Z_opp. change (Qc_of_Z 1) with 1. ring.
  Qed.

  Lemma dimv_perm a b x : Permutation a b -> dimv a x = dimv b x.
  Proof. induction 1; simpl; try congruence; ring. Qed.

  Lemma dimv_merge l x : dimv (merge_adjacent l) x = dimv l x.
  Proof.
    induction l as [|a r IH]; [reflexivity|]. simpl.
    destruct (merge_adjacent r) as [|y r'] eqn:E.
    - apply merge_adjacent_nil in E. subst r. reflexivity.
    - rewrite <- IH. destruct (same_key a y) eqn:K; [|reflexivity].
      apply same_key_eq in K. destruct K as [_ Ku]. simpl. rewrite Ku. ring.
  Qed.

  Lemma dimv_filter l x : dimv (filter nontrivial l) x = dimv l x.
  Proof.
    induction l as [|a r IH]; [reflexivity|]. simpl.
    unfold nontrivial at 1. destruct (Qc_eqb (f_exp a) 0) eqn:E; simpl; rewrite IH.
    - apply Qc_eqb_eq in E. rewrite E. ring.
    - reflexivity.
  Qed.

  Lemma dimv_canon_with key l x : dimv (canon_with key l) x = dimv l x.
  Proof.
    unfold canon_with, canon_sorted_by. rewrite dimv_filter, dimv_merge.
    apply dimv_perm, sort_factors_perm.
  Qed.

  (* ------------------------------------------------------------ to_base *)
  Definition expand (u : unit) : unit :=
    flat_map (fun f => upower (bu (f_uid f)) (f_exp f)) u.

  Lemma to_base_raw_gen u : forall b0 a0,
    fold_left (fun (acc : unit * Qc) f =>
                 let '(b, bf) := res_get QcN res (f_uid f) in
                 (umul (fst acc) (upower b (f_exp f)),
                  n_mul QcN (snd acc) (n_pow QcN (n_mul QcN (n_prefix QcN (f_pfx f)) bf) (f_exp f))))
              u (b0, a0)
    = (b0 ++ expand u, a0 * Den u).
  Proof.
    induction u as [|f r IH]; intros b0 a0; simpl.
    - rewrite app_nil_r. f_equal. ring.
    - destruct (res_get QcN res (f_uid f)) as [b bf] eqn:E. rewrite IH. simpl.
      unfold umul. rewrite <- app_assoc. f_equal.
      + unfold bu. rewrite E. reflexivity.
      + unfold fden, fbase, scale. rewrite E. simpl. ring.
  Qed.

  Lemma to_base_raw_eq u : to_base_raw QcN res u = (expand u, Den u).
  Proof.
    unfold to_base_raw. rewrite to_base_raw_gen. simpl. f_equal. ring.
  Qed.

  Lemma unit_factor_eq u : unit_factor QcN res u = Den u.
  Proof. unfold unit_factor. rewrite to_base_raw_eq. reflexivity. Qed.

  Lemma to_base_eq u : to_base QcN tbl res u = (canon_with (base_key tbl) (expand u), Den u).
  Proof. unfold to_base. rewrite to_base_raw_eq. reflexivity. Qed.

  Lemma bvec_expand u x : bvec (expand u) x = dimv u x.
  Proof.
    induction u as [|f r IH]; [reflexivity|]. simpl.
    rewrite bvec_app, bvec_upower, IH. reflexivity.
  Qed.

  Lemma bvec_to_base u x : bvec (fst (to_base QcN tbl res u)) x = dimv u x.
  Proof. rewrite to_base_eq. simpl. rewrite bvec_canon_with. apply bvec_expand. Qed.

  (* ------------------------------------------------------------ unit equality *)
  Let key := key_of keys.

  Lemma unit_eq_canon a b : unit_eq keys a b = true -> canon_with key a = canon_with key b.
  Proof.
    unfold unit_eq, unit_eq_with. intros H.
    apply (list_eqb_eq ufactor_eqb ufactor_eqb_eq) in H. exact H.
  Qed.

  Lemma unit_eq_Den a b : unit_int a = true -> unit_int b = true ->
    unit_eq keys a b = true -> Den a = Den b.
  Proof.
    intros Ha Hb H. apply unit_eq_canon in H.
    destruct (Den_canon_with key a Ha) as [_ <-]. destruct (Den_canon_with key b Hb) as [_ <-].
    rewrite H. reflexivity.
  Qed.

  Lemma unit_eq_dimv a b x : unit_eq keys a b = true -> dimv a x = dimv b x.
  Proof.
    intros H. apply unit_eq_canon in H.
    rewrite <- (dimv_canon_with key a), <- (dimv_canon_with key b), H. reflexivity.
  Qed.

  Lemma unit_eq_bvec a b x : unit_eq keys a b = true -> bvec a x = bvec b x.
  Proof.
    intros H. apply unit_eq_canon in H.
    rewrite <- (bvec_canon_with key a), <- (bvec_canon_with key b), H. reflexivity.
  Qed.

  Lemma unit_eq_sym a b : unit_eq keys a b = unit_eq keys b a.
  Proof.
    unfold unit_eq, unit_eq_with.
    destruct (list_eqb ufactor_eqb (canon_with (key_of keys) a) (canon_with (key_of keys) b)) eqn:E1;
    destruct (list_eqb ufactor_eqb (canon_with (key_of keys) b) (canon_with (key_of keys) a)) eqn:E2;
      try reflexivity.
    - apply (list_eqb_eq ufactor_eqb ufactor_eqb_eq) in E1. rewrite E1 in E2.
      assert (list_eqb ufactor_eqb (canon_with (key_of keys) b) (canon_with (key_of keys) b) = true)
        by (apply (list_eqb_eq ufactor_eqb ufactor_eqb_eq); reflexivity). congruence.
    - apply (list_eqb_eq ufactor_eqb ufactor_eqb_eq) in E2. rewrite E2 in E1.
      assert (list_eqb ufactor_eqb (canon_with (key_of keys) a) (canon_with (key_of keys) a) = true)
        by (apply (list_eqb_eq ufactor_eqb ufactor_eqb_eq); reflexivity). congruence.
  Qed.

  (* ------------------------------------------------------------ common factors *)
  Lemma Qc_min_int a b : Qc_is_int a = true -> Qc_is_int b = true -> Qc_is_int (Qc_min a b) = true.
  Proof. unfold Qc_min. destruct (Qc_ltb b a); auto. Qed.
  Lemma Qc_max_int a b : Qc_is_int a = true -> Qc_is_int b = true -> Qc_is_int (Qc_max a b) = true.
  Proof. unfold Qc_max. destruct (Qc_ltb b a); auto. Qed.

  Lemma unit_int_In u f : unit_int u = true -> In f u -> Qc_is_int (f_exp f) = true.
  Proof. unfold unit_int. rewrite forallb_forall. auto. Qed.

  Lemma common_factors_int own target :
    unit_int own = true -> unit_int target = true -> unit_int (common_factors own target) = true.
  Proof.
    intros Ho Ht. unfold common_factors.
    assert (G : forall l acc, unit_int l = true -> unit_int acc = true ->
              unit_int (fold_left (fun common factor =>
                   match find (fun f => prefix_eqb (f_pfx factor) (f_pfx f)
                                        && Nat.eqb (f_uid factor) (f_uid f)) target with
                   | Some other =>
                       if Qc_ltb 0 (f_exp factor) && Qc_ltb 0 (f_exp other) then
                         umul common [mkF (f_uid factor) (f_pfx factor) (Qc_min (f_exp factor) (f_exp other))]
                       else if Qc_ltb (f_exp factor) 0 && Qc_ltb (f_exp other) 0 then
                         umul common [mkF (f_uid factor) (f_pfx factor) (Qc_max (f_exp factor) (f_exp other))]
                       else common
                   | None => common
                   end) l acc) = true).
    { induction l as [|x r IH]; intros acc Hl Hacc; [exact Hacc|].
      apply unit_int_cons in Hl. destruct Hl as [Hx Hr]. simpl. apply IH; [exact Hr|].
      destruct (find _ target) as [other|] eqn:Fd; [|exact Hacc].
      apply find_some in Fd. destruct Fd as [Hin _].
      pose proof (unit_int_In _ _ Ht Hin) as Hoth.
      destruct (Qc_ltb 0 (f_exp x) && Qc_ltb 0 (f_exp other)).
      - unfold umul. apply unit_int_app. split; [exact Hacc|].
        apply unit_int_cons. split; [simpl; apply Qc_min_int; assumption | reflexivity].
      - destruct (Qc_ltb (f_exp x) 0 && Qc_ltb (f_exp other) 0); [|exact Hacc].
        unfold umul. apply unit_int_app. split; [exact Hacc|].
        apply unit_int_cons. split; [simpl; apply Qc_max_int; assumption | reflexivity]. }
    apply G; [exact Ho | reflexivity].
  Qed.

  (* ------------------------------------------------------------ convert_to *)
  Definition DenQ (q : quantity (T := Qc)) : Qc := q_val q * Den (q_unit q).

  Lemma is_zero_true (q : quantity (T := Qc)) : q_is_zero QcN q = true <-> q_val q = 0.
  Proof. unfold q_is_zero. simpl. apply Qc_eqb_eq. Qed.
  Lemma is_zero_false (q : quantity (T := Qc)) : q_is_zero QcN q = false <-> q_val q <> 0.
  Proof. unfold q_is_zero. simpl. apply Qc_eqb_neq. Qed.

  Theorem convert_to_sound q target q' :
    unit_int (q_unit q) = true -> unit_int target = true ->
    convert_to QcN tbl res keys q target = Ok q' ->
    q_unit q' = target
    /\ q_simp q' = true /\ q_target q' = None
    /\ q_val q' * Den target = q_val q * Den (q_unit q)
    /\ (q_val q <> 0 -> forall x, dimv (q_unit q) x = dimv target x).
  Proof.
    intros Hu Ht. unfold convert_to.
    destruct (unit_eq keys (q_unit q) target) eqn:Eu; cbn [orb].
    - intros H. injection H as <-. simpl. repeat split.
      + rewrite (unit_eq_Den _ _ Hu Ht Eu). reflexivity.
      + intros _ x. apply unit_eq_dimv, Eu.
    - destruct (q_is_zero QcN q) eqn:Ez; cbn [orb].
      + intros H. injection H as <-. simpl. apply is_zero_true in Ez.
        repeat split; [rewrite Ez; ring | intros C; contradiction].
      + set (common := common_factors (canon keys (q_unit q)) (canon keys target)).
        assert (Hc : unit_int common = true).
        { apply common_factors_int; apply Den_canon_with; assumption. }
        rewrite !to_base_eq. rewrite unit_factor_eq. cbv beta iota zeta. cbn [fst snd].
        match goal with |- context [if ?c then _ else _] => destruct c eqn:Eb end; [|intros H; discriminate H].
        intros H. injection H as <-. simpl. repeat split.
        * assert (Hd1 : unit_int (udiv target common) = true)
            by (apply unit_int_app; split; [exact Ht | apply unit_int_uinvert, Hc]).
          destruct (Den_canon_with key _ Hd1) as [_ Hd1'].
          unfold canon. fold key. rewrite Hd1'.
          rewrite !Den_udiv by assumption.
          pose proof (Den_nz _ Ht). pose proof (Den_nz _ Hc). pose proof (Den_nz _ Hu).
          field. repeat split; try assumption. discriminate.
        * intros _ x.
          apply unit_eq_bvec with (x := x) in Eb.
          rewrite !bvec_canon_with, !bvec_expand in Eb.
          unfold canon in Eb. rewrite !dimv_canon_with in Eb.
          unfold udiv in Eb. rewrite !dimv_app, !dimv_uinvert in Eb.
          assert (E : dimv (q_unit q) x = dimv (q_unit q) x + - dimv common x + dimv common x) by ring.
          rewrite E, Eb. ring.
  Qed.
End Core.
