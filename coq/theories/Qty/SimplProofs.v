(* Qty/SimplProofs.v — full_simplify / full_simplify_with_registry preserve the
   quantity (C05).  Exact level.  Every exit of the code is either a convert_to
   (sound by convert_to_sound) or, in heuristic 3, value * factor where factor is
   the product of the values of from_unit(group).convert_to(target). *)
From Coq Require Import List ZArith QArith Qcanon Bool Field.
From NV Require Import Qty.Model Qty.Exec Qty.NumFacts Qty.Proofs Qty.ConvProofs.
Import ListNotations.
Local Open Scope Qc_scope.

Section Simpl.
  Variable tbl : table Qc.
  Variable res : resolved (T := Qc).
  Variable keys : list skey.
  Hypothesis scale_pos : forall i, 0 < scale res i.

  Notation conv := (convert_to QcN tbl res keys).

  Lemma conv_DenQ q t q' : unit_int (q_unit q) = true -> unit_int t = true ->
    conv q t = Ok q' -> DenQ res q' = DenQ res q /\ q_unit q' = t.
  Proof.
    intros Hq Ht C. destruct (convert_to_sound tbl res keys scale_pos _ _ _ Hq Ht C) as (U & _ & _ & V & _).
    split; [unfold DenQ; rewrite U; exact V | exact U].
  Qed.

  Lemma chunk_concat l : concat (chunk_by_key keys l) = l.
  Proof.
    induction l as [|x r IH]; [reflexivity|]. simpl.
    destruct (chunk_by_key keys r) as [|[|y g] gs] eqn:E; simpl in *.
    - rewrite <- IH. reflexivity.
    - rewrite <- IH. reflexivity.
    - destruct (skey_cmp _ _); simpl; rewrite <- IH; reflexivity.
  Qed.

  Lemma unit_int_concat ls : unit_int (concat ls) = true -> forall g, In g ls -> unit_int g = true.
  Proof.
    induction ls as [|a r IH]; intros H g Hg; [contradiction|]. simpl in H.
    apply unit_int_app in H. destruct H as [Ha Hr]. destruct Hg as [<-|Hg]; auto.
  Qed.

  (* the group conversion of heuristic 3: same size, same dimension vector *)
  Lemma h3_group_sound g target cv :
    unit_int g = true -> unit_int target = true ->
    h3_group QcN tbl res keys g = Ok (Some (target, cv)) ->
    cv * Den res target = Den res g /\ forall x, dimv res target x = dimv res g x.
  Proof.
    intros Hg Ht. unfold h3_group. destruct (h3_target QcN tbl res keys g) as [tg|]; [|discriminate].
    destruct (conv (from_unit QcN g) tg) as [c|] eqn:C; [|discriminate].
    intros H. injection H as <- <-.
    destruct (convert_to_sound tbl res keys scale_pos (from_unit QcN g) tg c Hg Ht C) as (_ & _ & _ & V & D).
    simpl in V, D. split; [rewrite V; ring|]. intros x. symmetry. apply D. discriminate.
  Qed.

  Notation step := (h3_step QcN tbl res keys).

  Lemma h3_fold_err gs e : fold_left step gs (Err e) = Err e.
  Proof. induction gs; simpl; auto. Qed.
  Lemma h3_fold_none gs : fold_left step gs (Ok None) = Ok None.
  Proof. induction gs; simpl; auto. Qed.

  (* all targets chosen by heuristic 3 have integer exponents *)
  Definition h3_ints (gs : list (list ufactor)) : Prop :=
    forall g target cv, In g gs -> h3_group QcN tbl res keys g = Ok (Some (target, cv)) -> unit_int target = true.

  Lemma h3_ints_of_b gs : h3_ints_b tbl res keys gs = true -> h3_ints gs.
  Proof.
    unfold h3_ints_b, h3_ints. rewrite forallb_forall. intros H g target cv Hin Hg.
    specialize (H g Hin). rewrite Hg in H. exact H.
  Qed.

  Lemma h3_fold gs : forall su fac su' fac',
    (forall g, In g gs -> unit_int g = true) -> h3_ints gs -> unit_int su = true ->
    fold_left step gs (Ok (Some (su, fac))) = Ok (Some (su', fac')) ->
    unit_int su' = true
    /\ fac' * Den res su' = fac * Den res su * Den res (concat gs)
    /\ forall x, dimv res su' x = dimv res su x + dimv res (concat gs) x.
  Proof.
    induction gs as [|g r IH]; intros su fac su' fac' Hg Hi Hs H.
    - simpl in H. injection H as <- <-. repeat split; [exact Hs | simpl; ring | intros; simpl; ring].
    - change (fold_left step (g :: r) (Ok (Some (su, fac))))
        with (fold_left step r (step (Ok (Some (su, fac))) g)) in H.
      unfold h3_step at 2 in H. cbn [bind] in H.
      destruct (h3_group QcN tbl res keys g) as [[[target cv]|]|e] eqn:G; cbn [bind] in H.
      + assert (Hin : In g (g :: r)) by (left; reflexivity).
        assert (Ht : unit_int target = true) by (apply (Hi g target cv Hin G)).
        assert (Hgi : unit_int g = true) by (apply Hg; exact Hin).
        assert (A1 : forall g', In g' r -> unit_int g' = true) by (intros; apply Hg; right; assumption).
        assert (A2 : h3_ints r) by (intros g' target' cv' Hin'; apply Hi; right; assumption).
        assert (A3 : unit_int (umul su target) = true) by (unfold umul; apply unit_int_app; auto).
        destruct (IH (umul su target) (n_mul QcN fac cv) su' fac' A1 A2 A3 H) as (I & E & D).
        destruct (h3_group_sound g target cv Hgi Ht G) as (Ev & Dv).
        split; [exact I|]. change (concat (g :: r)) with (g ++ concat r)%list. split.
        * rewrite E. unfold umul. rewrite !Den_app. rewrite <- Ev. simpl. ring.
        * intros x. rewrite D. unfold umul. rewrite !dimv_app, Dv. ring.
      + rewrite h3_fold_none in H. discriminate.
      + rewrite h3_fold_err in H. discriminate.
  Qed.

  Lemma first_some_conv q (u : list ufactor) q' (f : ufactor -> option (quantity (T := Qc))) :
    first_some f u = Some q' ->
    (forall x r, f x = Some r -> exists t, unit_int t = true /\ conv q t = Ok r) ->
    exists t, unit_int t = true /\ conv q t = Ok q'.
  Proof.
    intros H Hf. induction u as [|x r IH]; simpl in H; [discriminate|].
    destruct (f x) eqn:E; [injection H as <-; eauto | auto].
  Qed.

  Lemma conv_dims q t q' : unit_int (q_unit q) = true -> unit_int t = true ->
    conv q t = Ok q' -> q_val q <> 0 -> forall x, dimv res (q_unit q') x = dimv res (q_unit q) x.
  Proof.
    intros Hq Ht C Hz x. destruct (convert_to_sound tbl res keys scale_pos _ _ _ Hq Ht C) as (U & _ & _ & _ & D).
    rewrite U. symmetry. apply D. exact Hz.
  Qed.

  (* full_simplify (heuristics 1-3) preserves the quantity: magnitude, and (for a
     non-zero value) the dimension vector *)
  Theorem full_simplify_sound q q' :
    unit_int (q_unit q) = true ->
    h3_ints (chunk_by_key keys (canon keys (q_unit q))) ->
    full_simplify QcN tbl res keys q = Ok q' ->
    DenQ res q' = DenQ res q /\ unit_int (q_unit q') = true
    /\ (q_val q <> 0 -> forall x, dimv res (q_unit q') x = dimv res (q_unit q) x).
  Proof.
    intros Hq Hi. unfold full_simplify.
    destruct (negb (q_simp q)); [intros H; injection H as <-; auto|].
    destruct (conv q []) as [s|] eqn:C1.
    { intros H. injection H as <-. destruct (conv_DenQ q [] s Hq eq_refl C1) as (E & U).
      split; [exact E | split; [rewrite U; reflexivity | apply (conv_dims q [] s Hq eq_refl C1)]]. }
    match goal with |- context [match ?h2 with Some r => Ok r | None => _ end] => destruct h2 as [r2|] eqn:H2 end.
    { intros H. injection H as <-.
      destruct (Nat.ltb 1 (List.length (canon keys (q_unit q)))); [|discriminate].
      destruct (first_some_conv q _ _ _ H2) as (t & Ht & Ct).
      - intros x r Hx.
        destruct (is_multiple_of QcN tbl res keys _ _) as [alpha|]; [|discriminate].
        destruct (Qc_is_int alpha) eqn:Ia; [|discriminate].
        match type of Hx with match conv q ?t with _ => _ end = _ => destruct (conv q t) as [r'|] eqn:Cr; [|discriminate];
          exists t end.
        injection Hx as <-. split; [|exact Cr].
        apply unit_int_upower; [exact Ia | reflexivity].
      - destruct (conv_DenQ q t r2 Hq Ht Ct) as (E & U).
        split; [exact E | split; [rewrite U; exact Ht | apply (conv_dims q t r2 Hq Ht Ct)]]. }
    destruct (fold_left step (chunk_by_key keys (canon keys (q_unit q))) (Ok (Some ([], n_one QcN))))
      as [[[su fac]|]|] eqn:F; [| intros H; injection H as <-; auto | discriminate].
    intros H. injection H as <-.
    destruct (Den_canon_with res scale_pos (key_of keys) (q_unit q) Hq) as (Ic & Dc).
    assert (B1 : forall g, In g (chunk_by_key keys (canon keys (q_unit q))) -> unit_int g = true).
    { intros g Hg. apply (unit_int_concat (chunk_by_key keys (canon keys (q_unit q)))); [|exact Hg].
      rewrite chunk_concat. exact Ic. }
    destruct (h3_fold _ [] 1 su fac B1 Hi eq_refl F) as (Is & Es & Ds).
    destruct (Den_canon_with res scale_pos (key_of keys) su Is) as (Ics & Dcs).
    split; [|split; [exact Ics|]].
    - unfold DenQ. simpl. unfold canon at 1. rewrite Dcs.
      rewrite chunk_concat in Es. unfold canon in Es. rewrite Dc in Es. simpl in Es.
      transitivity (q_val q * (fac * Den res su)); [ring|]. rewrite Es. ring.
    - intros _ x. simpl. unfold canon at 1. rewrite dimv_canon_with, Ds, chunk_concat.
      unfold canon. rewrite dimv_canon_with. simpl. ring.
  Qed.

  (* the registry step: whichever candidate unit is picked, the exit is a convert_to *)
  Lemma pick_best_sound near s cur sf : forall cands best,
    unit_int (q_unit s) = true ->
    (forall t, In t cands -> unit_int t = true) ->
    (forall b, best = Some b -> DenQ res b = DenQ res s /\ unit_int (q_unit b) = true) ->
    let r := pick_best QcN tbl res keys near s cur sf cands best in
    DenQ res r = DenQ res s /\ unit_int (q_unit r) = true.
  Proof.
    induction cands as [|t rest IH]; intros best Hs Hc Hb; simpl.
    - destruct best as [b|]; [apply Hb; reflexivity | auto].
    - assert (Ht : unit_int t = true) by (apply Hc; left; reflexivity).
      assert (Hrest : forall t', In t' rest -> unit_int t' = true) by (intros; apply Hc; right; assumption).
      destruct (Nat.ltb (List.length t) cur); [|apply IH; auto].
      destruct (near sf (unit_factor QcN res t)); [|apply IH; auto].
      destruct (conv s t) as [c|] eqn:C; [|apply IH; auto].
      destruct (conv_DenQ s t c Hs Ht C) as (E & U).
      destruct (Nat.eqb (List.length t) 1); [split; [exact E | rewrite U; exact Ht]|].
      apply IH; auto. intros b Hbe.
      destruct best as [b0|]; simpl in Hbe.
      + destruct (Nat.ltb (List.length t) (List.length (q_unit b0))); injection Hbe as <-.
        * split; [exact E | rewrite U; exact Ht].
        * apply Hb. reflexivity.
      + injection Hbe as <-. split; [exact E | rewrite U; exact Ht].
  Qed.

  Theorem full_simplify_with_registry_sound near_one near cands q q' :
    unit_int (q_unit q) = true ->
    h3_ints (chunk_by_key keys (canon keys (q_unit q))) ->
    (forall s, full_simplify QcN tbl res keys q = Ok s ->
       (forall t, In t (cands (q_unit s)) -> unit_int t = true)
       /\ unit_int (fst (to_base QcN tbl res (q_unit s))) = true) ->
    full_simplify_with_registry QcN tbl res keys near_one near cands q = Ok q' ->
    DenQ res q' = DenQ res q /\ unit_int (q_unit q') = true.
  Proof.
    intros Hq Hi Hc. unfold full_simplify_with_registry.
    destruct (full_simplify QcN tbl res keys q) as [s|] eqn:F; [|discriminate]. cbn [bind].
    destruct (full_simplify_sound q s Hq Hi F) as (Es & Is & _).
    destruct (Hc s eq_refl) as (Hcs & Hbase).
    destruct (negb (q_simp s)); [intros H; injection H as <-; auto|].
    destruct (Nat.leb (List.length (q_unit s)) 1); [intros H; injection H as <-; auto|].
    destruct (to_base QcN tbl res (q_unit s)) as [base_repr sf] eqn:TB. simpl in Hbase.
    match goal with |- context [match ?d with Some c => Ok c | None => _ end] => destruct d as [c|] eqn:D end.
    - intros H. injection H as <-.
      destruct base_repr as [|f [|f2 r]]; try discriminate.
      destruct (Qc_is_int (f_exp f) && near_one sf); [|discriminate].
      destruct (conv s [f]) as [c'|] eqn:C; [|discriminate]. injection D as <-.
      destruct (conv_DenQ s [f] c' Is Hbase C) as (E & U). split; [rewrite E; exact Es | rewrite U; exact Hbase].
    - intros H. injection H as <-.
      destruct (pick_best_sound near s (List.length (q_unit s)) sf (cands (q_unit s)) None Is Hcs) as (E & I).
      + intros b Hb. discriminate.
      + split; [rewrite E; exact Es | exact I].
  Qed.

  (* converting the simplified value back to the original unit gives the original magnitude *)
  Theorem simplify_back q q' q2 :
    unit_int (q_unit q) = true -> unit_int (q_unit q') = true ->
    DenQ res q' = DenQ res q ->
    conv q' (q_unit q) = Ok q2 -> q_val q2 = q_val q.
  Proof.
    intros Hq Hq' E C.
    destruct (convert_to_sound tbl res keys scale_pos _ _ _ Hq' Hq C) as (_ & _ & _ & V & _).
    apply (Qc_mul_cancel_r _ _ (Den res (q_unit q))); [apply Den_nz; assumption|].
    rewrite V. exact E.
  Qed.
End Simpl.

(* a value whose unit the user chose with an explicit conversion is not simplified
   (any number type) *)
Lemma no_simplify_id {T : Type} (N : numops T) tbl res keys near_one near cands (q : quantity (T := T)) :
  q_simp q = false ->
  full_simplify N tbl res keys q = Ok q
  /\ full_simplify_with_registry N tbl res keys near_one near cands q = Ok q.
Proof.
  intros H. unfold full_simplify_with_registry, full_simplify. rewrite H. cbn [negb bind]. rewrite H. auto.
Qed.

Lemma vm_convert_not_simplifiable {T : Type} (N : numops T) tbl res keys (a b q : quantity (T := T)) :
  vm_convert N tbl res keys a b = Ok q -> q_simp q = false.
Proof.
  unfold vm_convert. destruct (convert_to N tbl res keys a (q_unit b)); [|discriminate].
  cbn [bind]. intros H. injection H as <-. reflexivity.
Qed.

(* ---------------- no panic: full_simplify is total (any number type) *)
Section Total.
  Context {T : Type}.
  Variable N : numops T.
  Variable tbl : table T.
  Variable res : resolved (T := T).
  Variable keys : list skey.

  Lemma chunk_nonempty l : forall g, In g (chunk_by_key keys l) -> g <> [].
  Proof.
    induction l as [|x r IH]; intros g Hg; [contradiction|]. simpl in Hg.
    destruct (chunk_by_key keys r) as [|[|y g0] gs] eqn:E.
    - destruct Hg as [<-|[]]. discriminate.
    - destruct Hg as [<-|Hg]; [discriminate | apply IH; exact Hg].
    - destruct (skey_cmp _ _).
      + destruct Hg as [<-|Hg]; [discriminate | apply IH; right; exact Hg].
      + destruct Hg as [<-|Hg]; [discriminate | apply IH; exact Hg].
      + destruct Hg as [<-|Hg]; [discriminate | apply IH; exact Hg].
  Qed.

  Lemma h3_group_ok g : g <> [] -> exists o, h3_group N tbl res keys g = Ok o.
  Proof.
    intros Hg. unfold h3_group, h3_target. destruct g as [|g0 gr]; [contradiction|].
    destruct (convert_to N tbl res keys _ _); eexists; reflexivity.
  Qed.

  Lemma h3_fold_ok gs : (forall g, In g gs -> g <> []) ->
    forall o, exists o', fold_left (h3_step N tbl res keys) gs (Ok o) = Ok o'.
  Proof.
    induction gs as [|g r IH]; intros Hg o; [eexists; reflexivity|].
    assert (Hr : forall g', In g' r -> g' <> []) by (intros; apply Hg; right; assumption).
    change (fold_left (h3_step N tbl res keys) (g :: r) (Ok o))
      with (fold_left (h3_step N tbl res keys) r (h3_step N tbl res keys (Ok o) g)).
    unfold h3_step at 2. cbn [bind]. destruct o as [[su fac]|]; [|apply IH; exact Hr].
    destruct (h3_group_ok g) as (og & Eg); [apply Hg; left; reflexivity|]. rewrite Eg. cbn [bind].
    destruct og as [[t cv]|]; apply IH; exact Hr.
  Qed.

  (* full_simplify never reaches a panic *)
  Theorem full_simplify_total q : exists q', full_simplify N tbl res keys q = Ok q'.
  Proof.
    unfold full_simplify. destruct (negb (q_simp q)); [eexists; reflexivity|].
    destruct (convert_to N tbl res keys q []); [eexists; reflexivity|].
    match goal with |- context [match ?h2 with Some r => Ok r | None => _ end] => destruct h2 end;
      [eexists; reflexivity|].
    destruct (h3_fold_ok (chunk_by_key keys (canon keys (q_unit q))) (chunk_nonempty _) (Some ([], n_one N)))
      as (o' & E).
    cbv zeta.
    match goal with |- context [match ?X with Ok _ => _ | Err _ => _ end] =>
      replace X with (@Ok (option (unit * T)) o') by (symmetry; exact E) end.
    destruct o' as [[su fac]|]; eexists; reflexivity.
  Qed.
End Total.
