(* Qty/Complete.v — completeness of convert_to (C03_convert_complete): if the
   base-unit exponent vectors of the two units agree, the final test of
   convert_to (equality of the canonicalized base representations) succeeds.

   Part 1 (Section Ord): canonical forms of lists of base-unit factors are
   unique — for any key assignment that orders the base units strictly.
   Part 2: the resolved table only contains base-unit factors; instantiation
   with the name-based sort keys of the code. *)
From Coq Require Import List ZArith QArith Qcanon String Bool Lia Sorted Permutation Arith.
From Coq Require OrderedTypeEx.
From NV Require Import Qty.Model Qty.Exec Qty.NumFacts Qty.Proofs Qty.TableSem.
Import ListNotations.
Local Open Scope Qc_scope.

Section Ord.
  Variable K : nat -> skey.
  Variable D : nat -> Prop.           (* the base units *)
  Definition ord (i j : nat) : comparison := skey_cmp (K i) (K j).
  Hypothesis ord_eq : forall i j, D i -> D j -> ord i j = Eq -> i = j.
  Hypothesis ord_refl : forall i, ord i i = Eq.
  Hypothesis ord_anti : forall i j, ord j i = CompOpp (ord i j).
  Hypothesis ord_trans : forall i j k, ord i j = Lt -> ord j k = Lt -> ord i k = Lt.

  Definition basef (f : ufactor) : Prop := f_pfx f = prefix_none /\ D (f_uid f).
  Definition leu (a b : ufactor) : Prop := ord (f_uid a) (f_uid b) <> Gt.
  Definition ltu (a b : ufactor) : Prop := ord (f_uid a) (f_uid b) = Lt.

  Lemma cmp_base a b : basef a -> basef b ->
    ufactor_cmp K a b = match ord (f_uid a) (f_uid b) with
                        | Eq => Qc_cmp (f_exp a) (f_exp b)
                        | c => c
                        end.
  Proof.
    intros [Pa _] [Pb _]. unfold ufactor_cmp, ord. rewrite Pa, Pb. simpl.
    destruct (skey_cmp (K (f_uid a)) (K (f_uid b))); reflexivity.
  Qed.

  Lemma leb_leu a b : basef a -> basef b -> ufactor_leb K a b = true -> leu a b.
  Proof.
    intros Ha Hb. unfold ufactor_leb, leu. rewrite (cmp_base a b Ha Hb).
    destruct (ord (f_uid a) (f_uid b)); congruence.
  Qed.

  Lemma nleb_leu a b : basef a -> basef b -> ufactor_leb K a b = false -> leu b a.
  Proof.
    intros Ha Hb. unfold ufactor_leb, leu. rewrite (cmp_base a b Ha Hb), (ord_anti (f_uid a) (f_uid b)).
    destruct (ord (f_uid a) (f_uid b)); simpl; congruence.
  Qed.

  Lemma leu_trans a b c : basef a -> basef b -> basef c -> leu a b -> leu b c -> leu a c.
  Proof.
    intros [_ Da] [_ Db] [_ Dc]. unfold leu. intros H1 H2.
    destruct (ord (f_uid a) (f_uid b)) eqn:E1; [| |congruence].
    - apply ord_eq in E1; auto. rewrite E1. exact H2.
    - destruct (ord (f_uid b) (f_uid c)) eqn:E2; [| |congruence].
      + apply ord_eq in E2; auto. rewrite <- E2, E1. discriminate.
      + rewrite (ord_trans _ _ _ E1 E2). discriminate.
  Qed.

  (* ---- the insertion sort yields a list sorted by base unit *)
  Lemma insert_in x l y : In y (insert_sorted K x l) -> y = x \/ In y l.
  Proof.
    induction l as [|z r IH]; simpl; [intros [<-|[]]; auto|].
    destruct (ufactor_leb K x z); simpl.
    - intros [<-|[<-|H]]; auto.
    - intros [<-|H]; auto. destruct (IH H); auto.
  Qed.

  Lemma insert_base x l : basef x -> Forall basef l -> Forall basef (insert_sorted K x l).
  Proof.
    intros Hx Hl. apply Forall_forall. intros y Hy. apply insert_in in Hy.
    destruct Hy as [->|Hy]; [exact Hx | rewrite Forall_forall in Hl; auto].
  Qed.

  Lemma insert_usorted x l : basef x -> Forall basef l ->
    StronglySorted leu l -> StronglySorted leu (insert_sorted K x l).
  Proof.
    intros Hx. induction l as [|y r IH]; intros Hl Hs; simpl.
    - constructor; constructor.
    - inversion Hl as [|? ? Hy Hr]; subst. inversion Hs as [|? ? Sr Fy]; subst.
      destruct (ufactor_leb K x y) eqn:E.
      + constructor; [exact Hs|]. constructor; [apply leb_leu; assumption|].
        rewrite Forall_forall in *. intros z Hz.
        apply (leu_trans x y z); auto. apply leb_leu; assumption.
      + constructor; [apply IH; assumption|].
        apply Forall_forall. intros z Hz. apply insert_in in Hz. destruct Hz as [->|Hz].
        * apply nleb_leu; assumption.
        * rewrite Forall_forall in Fy. auto.
  Qed.

  Lemma sort_base l : Forall basef l -> Forall basef (sort_factors K l).
  Proof.
    induction 1 as [|x r Hx Hr IH]; simpl; [constructor|]. apply insert_base; assumption.
  Qed.

  Lemma sort_usorted l : Forall basef l -> StronglySorted leu (sort_factors K l).
  Proof.
    induction 1 as [|x r Hx Hr IH]; simpl; [constructor|].
    apply insert_usorted; [exact Hx | apply sort_base; exact Hr | exact IH].
  Qed.

  (* ---- merging adjacent equal keys makes the order strict *)
  Lemma merge_in l y : In y (merge_adjacent l) -> exists z, In z l /\ f_uid z = f_uid y /\ f_pfx z = f_pfx y.
  Proof.
    revert y. induction l as [|x r IH]; intros y; simpl; [intros []|].
    destruct (merge_adjacent r) as [|h m] eqn:E.
    - intros [<-|[]]. exists x. auto.
    - destruct (same_key x h) eqn:S.
      + intros [<-|H].
        * exists x. simpl. auto.
        * destruct (IH y (or_intror H)) as (z & Hz & U). exists z. auto.
      + intros [<-|H].
        * exists x. auto.
        * destruct (IH y H) as (z & Hz & U). exists z. auto.
  Qed.

  Lemma merge_base l : Forall basef l -> Forall basef (merge_adjacent l).
  Proof.
    intros H. apply Forall_forall. intros y Hy. destruct (merge_in l y Hy) as (z & Hz & U & P).
    rewrite Forall_forall in H. destruct (H z Hz) as [Pz Dz]. split; congruence.
  Qed.

  Lemma merge_ssorted l : Forall basef l -> StronglySorted leu l -> StronglySorted ltu (merge_adjacent l).
  Proof.
    induction l as [|x r IH]; intros Hl Hs; simpl; [constructor|].
    inversion Hl as [|? ? Hx Hr]; subst. inversion Hs as [|? ? Sr Fx]; subst.
    specialize (IH Hr Sr). pose proof (merge_base r Hr) as Bm.
    destruct (merge_adjacent r) as [|h m] eqn:E; [constructor; constructor|].
    inversion IH as [|? ? Sm Fh]; subst. inversion Bm as [|? ? Bh Bm']; subst.
    assert (Lxh : leu x h).
    { destruct (merge_in r h) as (z & Hz & U & _); [rewrite E; left; reflexivity|].
      rewrite Forall_forall in Fx. specialize (Fx z Hz). unfold leu in *. rewrite <- U. exact Fx. }
    destruct (same_key x h) eqn:S.
    - apply same_key_eq in S. destruct S as [_ Su]. constructor; [exact Sm|].
      apply Forall_forall. intros z Hz. rewrite Forall_forall in Fh. unfold ltu. simpl. rewrite Su.
      apply Fh, Hz.
    - assert (Lt1 : ltu x h).
      { unfold ltu, leu in *. destruct (ord (f_uid x) (f_uid h)) eqn:O; [|reflexivity|congruence].
        destruct Hx as [Px Dx]. destruct Bh as [Ph Dh]. apply ord_eq in O; auto.
        exfalso. assert (same_key x h = true) by (apply same_key_eq; split; congruence). congruence. }
      constructor; [exact IH|]. constructor; [exact Lt1|].
      apply Forall_forall. intros z Hz. rewrite Forall_forall in Fh. unfold ltu in *.
      apply (ord_trans _ _ _ Lt1 (Fh z Hz)).
  Qed.

  Lemma filter_ssorted p l : StronglySorted ltu l -> StronglySorted ltu (filter p l).
  Proof.
    induction 1 as [|x r Sr IH Fx]; simpl; [constructor|].
    destruct (p x); [|exact IH]. constructor; [exact IH|].
    apply Forall_forall. intros z Hz. apply filter_In in Hz. rewrite Forall_forall in Fx. apply Fx, Hz.
  Qed.

  Lemma filter_base p l : Forall basef l -> Forall basef (filter p l).
  Proof.
    intros H. apply Forall_forall. intros z Hz. apply filter_In in Hz. rewrite Forall_forall in H. apply H, Hz.
  Qed.

  Lemma canon_base l : Forall basef l -> Forall basef (canon_with K l).
  Proof. intros H. unfold canon_with, canon_sorted_by. apply filter_base, merge_base, sort_base, H. Qed.

  Lemma canon_ssorted l : Forall basef l -> StronglySorted ltu (canon_with K l).
  Proof.
    intros H. unfold canon_with, canon_sorted_by. apply filter_ssorted, merge_ssorted.
    - apply sort_base, H.
    - apply sort_usorted, H.
  Qed.

  Lemma canon_nontrivial l : Forall (fun f => f_exp f <> 0) (canon_with K l).
  Proof.
    unfold canon_with, canon_sorted_by. apply Forall_forall. intros z Hz. apply filter_In in Hz.
    destruct Hz as [_ Hn]. unfold nontrivial in Hn. apply negb_true_iff in Hn. apply Qc_eqb_neq, Hn.
  Qed.

  (* ---- strictly sorted, non-trivial lists of base factors are determined by their vector *)
  Lemma bvec_notin l i : (forall z, In z l -> f_uid z <> i) -> bvec l i = 0.
  Proof.
    induction l as [|x r IH]; intros H; simpl; [reflexivity|].
    rewrite IH by (intros; apply H; right; assumption).
    destruct (Nat.eqb (f_uid x) i) eqn:E; [|ring].
    apply Nat.eqb_eq in E. exfalso. apply (H x); [left; reflexivity | exact E].
  Qed.

  Lemma ltu_neq a z : ltu a z -> f_uid z <> f_uid a.
  Proof. unfold ltu. intros H E. rewrite E, ord_refl in H. discriminate. Qed.

  Lemma bvec_head x r : Forall (ltu x) r -> bvec (x :: r) (f_uid x) = f_exp x.
  Proof.
    intros H. simpl. rewrite Nat.eqb_refl. rewrite bvec_notin; [ring|].
    intros z Hz. rewrite Forall_forall in H. apply ltu_neq, H, Hz.
  Qed.

  Lemma unique_nf X : forall Y,
    Forall basef X -> Forall basef Y ->
    StronglySorted ltu X -> StronglySorted ltu Y ->
    Forall (fun f => f_exp f <> 0) X -> Forall (fun f => f_exp f <> 0) Y ->
    (forall i, bvec X i = bvec Y i) -> X = Y.
  Proof.
    induction X as [|x X' IH]; intros Y BX BY SX SY NX NY Hv.
    - destruct Y as [|y Y']; [reflexivity|]. exfalso.
      inversion SY as [|? ? _ Fy]; subst. inversion NY as [|? ? Ny _]; subst.
      specialize (Hv (f_uid y)). rewrite (bvec_head y Y' Fy) in Hv. simpl in Hv. congruence.
    - inversion SX as [|? ? SX' Fx]; subst. inversion NX as [|? ? Nx NX']; subst.
      inversion BX as [|? ? Bx BX']; subst.
      destruct Y as [|y Y'].
      + exfalso. specialize (Hv (f_uid x)). rewrite (bvec_head x X' Fx) in Hv. simpl in Hv. congruence.
      + inversion SY as [|? ? SY' Fy]; subst. inversion NY as [|? ? Ny NY']; subst.
        inversion BY as [|? ? By BY']; subst.
        destruct (ord (f_uid x) (f_uid y)) eqn:O.
        * destruct Bx as [Px Dx]. destruct By as [Py Dy].
          assert (U : f_uid x = f_uid y) by (apply ord_eq; assumption).
          assert (Ex : f_exp x = f_exp y).
          { pose proof (Hv (f_uid x)) as H. rewrite (bvec_head x X' Fx) in H. rewrite U in H.
            rewrite (bvec_head y Y' Fy) in H. exact H. }
          assert (x = y) by (destruct x, y; simpl in *; congruence). subst y. f_equal.
          apply IH; auto. intros i. specialize (Hv i). simpl in Hv.
          apply (f_equal (fun v => v - (if Nat.eqb (f_uid x) i then f_exp x else 0))) in Hv.
          ring_simplify in Hv. exact Hv.
        * (* x's base unit does not occur in Y *)
          exfalso. pose proof (Hv (f_uid x)) as H. rewrite (bvec_head x X' Fx) in H.
          rewrite bvec_notin in H; [congruence|].
          intros z [<-|Hz]; [intros E; rewrite E, ord_refl in O; discriminate|].
          rewrite Forall_forall in Fy. specialize (Fy z Hz). unfold ltu in Fy.
          pose proof (ord_trans _ _ _ O Fy) as T. intros E. rewrite E, ord_refl in T. discriminate.
        * exfalso. pose proof (Hv (f_uid y)) as H. rewrite (bvec_head y Y' Fy) in H.
          assert (O' : ord (f_uid y) (f_uid x) = Lt) by (rewrite ord_anti, O; reflexivity).
          rewrite bvec_notin in H; [congruence|].
          intros z [<-|Hz]; [intros E; rewrite E, ord_refl in O'; discriminate|].
          rewrite Forall_forall in Fx. specialize (Fx z Hz). unfold ltu in Fx.
          pose proof (ord_trans _ _ _ O' Fx) as T. intros E. rewrite E, ord_refl in T. discriminate.
  Qed.

  (* canonical forms of base-unit lists with the same exponent vector coincide *)
  Theorem canon_unique A B :
    Forall basef A -> Forall basef B -> (forall i, bvec A i = bvec B i) ->
    canon_with K A = canon_with K B.
  Proof.
    intros HA HB Hv. apply unique_nf.
    - apply canon_base, HA.
    - apply canon_base, HB.
    - apply canon_ssorted, HA.
    - apply canon_ssorted, HB.
    - apply canon_nontrivial.
    - apply canon_nontrivial.
    - intros i. rewrite !bvec_canon_with. apply Hv.
  Qed.
End Ord.

(* ====================================================================== Part 2 *)
Section Table.
  Variable tbl : table Qc.
  Hypothesis Hwf : wf_table tbl = true.
  Hypothesis Hnames : distinct_names (map u_name tbl) = true.
  Let res := resolve QcN tbl.
  Let keys := all_keys QcN tbl res.

  Definition Dbase (i : nat) : Prop := is_base tbl i = true.
  Notation bfac := (basef Dbase).

  Lemma res_length : List.length res = List.length tbl.
  Proof.
    unfold res, resolve. destruct (resolve_from_app tbl [] 0) as (tail & E & L). rewrite E. simpl. exact L.
  Qed.

  Lemma upower_base l e : Forall bfac l -> Forall bfac (upower l e).
  Proof.
    intros H. unfold upower. apply Forall_forall. intros z Hz. apply in_map_iff in Hz.
    destruct Hz as (y & <- & Hy). rewrite Forall_forall in H. destruct (H y Hy) as [P Dy]. split; assumption.
  Qed.

  Lemma expand_base_gen (r' : resolved (T := Qc)) u :
    (forall f, In f u -> Forall bfac (bu r' (f_uid f))) -> Forall bfac (expand r' u).
  Proof.
    induction u as [|f r IH]; intros H; simpl; [constructor|].
    apply Forall_app. split.
    - apply upower_base, H. left. reflexivity.
    - apply IH. intros g Hg. apply H. right. exact Hg.
  Qed.

  (* every factor of a resolved base unit is an unprefixed base unit *)
  Lemma bu_base : forall k, Forall bfac (bu res k).
  Proof.
    intros k. induction k as [k IH] using lt_wf_ind.
    destruct (nth_error tbl k) as [r|] eqn:E.
    - unfold bu. unfold res at 1. rewrite (res_get_row tbl k r E). unfold resolve_row.
      destruct (u_kind r) as [|f def] eqn:Kd.
      + simpl. constructor; [|constructor]. split; [reflexivity|]. simpl.
        unfold Dbase, is_base. rewrite E, Kd. reflexivity.
      + rewrite def_product_eq. simpl.
        pose proof (wf_rows_nth tbl 0 k r Hwf E) as W. rewrite Kd in W. simpl in W.
        rewrite expand_firstn by exact W. apply expand_base_gen.
        intros g Hg. apply IH. unfold unit_in in W. rewrite forallb_forall in W.
        apply Nat.ltb_lt, W, Hg.
    - unfold bu, res_get. rewrite nth_overflow; [constructor|].
      rewrite res_length. apply nth_error_None, E.
  Qed.

  Lemma expand_base u : Forall bfac (expand res u).
  Proof. apply expand_base_gen. intros f _. apply bu_base. Qed.

  (* ---- the sort keys of the code agree with the base keys on base units *)
  Lemma key_base i : Dbase i -> key_of keys i = base_key tbl i.
  Proof.
    unfold Dbase, is_base. destruct (nth_error tbl i) as [r|] eqn:E; [|discriminate].
    destruct (u_kind r) eqn:Kd; [|discriminate]. intros _.
    assert (Hi : (i < List.length tbl)%nat) by (apply nth_error_Some; congruence).
    unfold key_of, keys, all_keys.
    rewrite (nth_indep _ [] (sort_key QcN tbl res 0)) by (rewrite map_length, seq_length; exact Hi).
    rewrite map_nth, seq_nth by exact Hi. simpl.
    unfold sort_key, base_key, row_name. rewrite E, Kd. reflexivity.
  Qed.

  Lemma cmp_ext K1 K2 a b :
    K1 (f_uid a) = K2 (f_uid a) -> K1 (f_uid b) = K2 (f_uid b) -> ufactor_leb K1 a b = ufactor_leb K2 a b.
  Proof. intros Ea Eb. unfold ufactor_leb, ufactor_cmp. rewrite Ea, Eb. reflexivity. Qed.

  Lemma insert_ext K1 K2 x l :
    K1 (f_uid x) = K2 (f_uid x) -> (forall z, In z l -> K1 (f_uid z) = K2 (f_uid z)) ->
    insert_sorted K1 x l = insert_sorted K2 x l.
  Proof.
    intros Ex. induction l as [|y r IH]; intros H; simpl; [reflexivity|].
    rewrite (cmp_ext K1 K2 x y Ex (H y (or_introl eq_refl))).
    destruct (ufactor_leb K2 x y); [reflexivity|]. f_equal. apply IH. intros z Hz. apply H. right. exact Hz.
  Qed.

  Lemma sort_ext K1 K2 l :
    (forall z, In z l -> K1 (f_uid z) = K2 (f_uid z)) -> sort_factors K1 l = sort_factors K2 l.
  Proof.
    induction l as [|x r IH]; intros H; simpl; [reflexivity|].
    rewrite IH by (intros z Hz; apply H; right; exact Hz).
    apply insert_ext; [apply H; left; reflexivity|].
    intros z Hz. apply H. right.
    apply (Permutation_in z (sort_factors_perm K2 r)). exact Hz.
  Qed.

  Lemma canon_key_base l : Forall bfac l -> canon_with (key_of keys) l = canon_with (base_key tbl) l.
  Proof.
    intros H. unfold canon_with, canon_sorted_by. f_equal. f_equal. apply sort_ext.
    intros z Hz. rewrite Forall_forall in H. destruct (H z Hz) as [_ Dz]. apply key_base, Dz.
  Qed.

  (* ---- the name order of base units is a strict total order *)
  Lemma distinct_nth (l : list string) : distinct_names l = true ->
    forall i j s, nth_error l i = Some s -> nth_error l j = Some s -> i = j.
  Proof.
    induction l as [|x r IH]; intros Hd i j s Hi Hj; [destruct i; discriminate|].
    simpl in Hd. apply andb_true_iff in Hd. destruct Hd as [Hx Hr].
    apply negb_true_iff in Hx.
    assert (Hnot : forall k, nth_error r k = Some x -> False).
    { intros k Hk. apply nth_error_In in Hk.
      assert (existsb (String.eqb x) r = true) by (apply existsb_exists; exists x; split; [exact Hk | apply String.eqb_refl]).
      congruence. }
    destruct i, j; simpl in *.
    - reflexivity.
    - injection Hi as <-. exfalso. eapply Hnot; eassumption.
    - injection Hj as <-. exfalso. eapply Hnot; eassumption.
    - f_equal. eapply IH; eassumption.
  Qed.

  Lemma ord_is_compare i j :
    ord (base_key tbl) i j = String.compare (row_name tbl i) (row_name tbl j).
  Proof.
    unfold ord, base_key. simpl. destruct (String.compare (row_name tbl i) (row_name tbl j)); reflexivity.
  Qed.

  Lemma Dbase_name i : Dbase i -> nth_error (map u_name tbl) i = Some (row_name tbl i).
  Proof.
    unfold Dbase, is_base, row_name. destruct (nth_error tbl i) as [r|] eqn:E; [|discriminate].
    intros _. rewrite nth_error_map, E. reflexivity.
  Qed.

  Lemma b_ord_eq i j : Dbase i -> Dbase j -> ord (base_key tbl) i j = Eq -> i = j.
  Proof.
    intros Di Dj. rewrite ord_is_compare. intros H. apply String.compare_eq_iff in H.
    apply (distinct_nth _ Hnames i j (row_name tbl i)); [apply Dbase_name, Di | rewrite H; apply Dbase_name, Dj].
  Qed.

  Lemma b_ord_refl i : ord (base_key tbl) i i = Eq.
  Proof. rewrite ord_is_compare. apply OrderedTypeEx.String_as_OT.cmp_eq. reflexivity. Qed.

  Lemma b_ord_anti i j : ord (base_key tbl) j i = CompOpp (ord (base_key tbl) i j).
  Proof. rewrite !ord_is_compare. apply String.compare_antisym. Qed.

  Lemma b_ord_trans i j k :
    ord (base_key tbl) i j = Lt -> ord (base_key tbl) j k = Lt -> ord (base_key tbl) i k = Lt.
  Proof.
    rewrite !ord_is_compare. intros H1 H2.
    apply OrderedTypeEx.String_as_OT.cmp_lt in H1. apply OrderedTypeEx.String_as_OT.cmp_lt in H2.
    apply OrderedTypeEx.String_as_OT.cmp_lt. eapply OrderedTypeEx.String_as_OT.lt_trans; eassumption.
  Qed.

  (* two base-unit lists with the same exponent vector are equal as units *)
  Lemma base_lists_unit_eq A B :
    Forall bfac A -> Forall bfac B -> (forall i, bvec A i = bvec B i) -> unit_eq keys A B = true.
  Proof.
    intros HA HB Hv. unfold unit_eq, unit_eq_with.
    apply (list_eqb_eq ufactor_eqb ufactor_eqb_eq).
    rewrite (canon_key_base A HA), (canon_key_base B HB).
    apply (canon_unique (base_key tbl) Dbase b_ord_eq b_ord_refl b_ord_anti b_ord_trans); assumption.
  Qed.

  (* C03_convert_complete: units with the same base-unit exponent vector convert *)
  Theorem convert_complete (q : quantity (T := Qc)) target :
    (forall x, dimv res (q_unit q) x = dimv res target x) ->
    exists q', convert_to QcN tbl res keys q target = Ok q'.
  Proof.
    intros Hd. unfold convert_to.
    destruct (unit_eq keys (q_unit q) target || q_is_zero QcN q); [eexists; reflexivity|].
    rewrite !to_base_eq. cbv beta iota zeta. cbn [fst snd].
    match goal with |- context [if ?c then _ else _] => assert (E : c = true) end.
    { apply base_lists_unit_eq.
      - apply canon_base, expand_base.
      - apply canon_base, expand_base.
      - intros i. rewrite !bvec_canon_with, !bvec_expand. unfold canon. rewrite !dimv_canon_with.
        unfold udiv. rewrite !dimv_app, Hd. reflexivity. }
    rewrite E. eexists. reflexivity.
  Qed.
End Table.
