(* Qty/Complete.v — completeness of convert_to (C03_convert_complete): if the
   base-unit exponent vectors of the two units agree, the final test of
   convert_to (equality of the canonicalized base representations) succeeds.

   Part 1 (Section Ord): canonical forms of lists of base-unit factors are
   unique — for any key assignment that orders the base units strictly.
   Part 2: the resolved table only contains base-unit factors; instantiation
   with the name-based sort keys of the code. *)
From Coq Require Import List ZArith QArith Qcanon String Bool Lia Sorted Permutation Arith.
From Coq Require OrderedTypeEx.
From NV Require Import Qty.Model Qty.Exec Qty.NumFacts Qty.Proofs Qty.TableSem.
Import ListNotations.
Local Open Scope Qc_scope.

Section Ord.
  Variable K : nat -> skey.
  Variable D : nat -> Prop.           (* the base units *)
  Definition ord (i j : nat) : comparison := skey_cmp (K i) (K j).
  Hypothesis ord_eq : forall i j, D i -> D j -> ord i j = Eq -> i = j.
  Hypothesis ord_refl : forall i, ord i i = Eq.
  Hypothesis ord_anti : forall i j, ord j i = CompOpp (ord i j).
  Hypothesis ord_trans : forall i j k, ord i j = Lt -> ord j k = Lt -> ord i k = Lt.

  Definition basef (f : ufactor) : Prop := f_pfx f = prefix_none /\ D (f_uid f).
  Definition leu (a b : ufactor) : Prop := ord (f_uid a) (f_uid b) <> Gt.
  Definition ltu (a b : ufactor) : Prop := ord (f_uid a) (f_uid b) = Lt.

  Lemma cmp_base a b : basef a -> basef b ->
    ufactor_cmp K a b = match ord (f_uid a) (f_uid b) with
                        | Eq => Qc_cmp (f_exp a) (f_exp b)
                        | c => c
                        end.
  Proof.
    intros [Pa _] [Pb _]. unfold ufactor_cmp, ord. rewrite Pa, Pb. simpl.
    destruct (skey_cmp (K (f_uid a)) (K (f_uid b))); reflexivity.
  Qed.

  Lemma leb_leu a b : basef a -> basef b -> ufactor_leb K a b = true -> leu a b.
  Proof.
    intros Ha Hb. unfold ufactor_leb, leu. rewrite (cmp_base a b Ha Hb).
    destruct (ord (f_uid a) (f_uid b)); congruence.
  Qed.

  Lemma nleb_leu a b : basef a -> basef b -> ufactor_leb K a b = false -> leu b a.
  Proof.
    intros Ha Hb. unfold ufactor_leb, leu. rewrite (cmp_base a b Ha Hb), (ord_anti (f_uid a) (f_uid b)).
    destruct (ord (f_uid a) (f_uid b)); simpl; congruence.
  Qed.

  Lemma leu_trans a b c : basef a -> basef b -> basef c -> leu a b -> leu b c -> leu a c.
  Proof.
    intros [_ Da] [_ Db] [_ Dc]. unfold leu. intros H1 H2.
    destruct (ord (f_uid a) (f_uid b)) eqn:E1; [| |congruence].
    - apply ord_eq in E1; auto. rewrite E1. exact H2.
    - destruct (ord (f_uid b) (f_uid c)) eqn:E2; [| |congruence].
      + apply ord_eq in E2; auto. rewrite <- E2, E1. discriminate.
      + rewrite (ord_trans _ _ _ E1 E2). discriminate.
  Qed.

  (* ---- the insertion sort yields a list sorted by base unit *)
  Lemma insert_in x l y : In y (insert_sorted K x l) -> y = x \/ In y l.
  Proof.
    induction l as [|z r IH]; simpl; [intros [<-|[]]; auto|].
    destruct (ufactor_leb K x z); simpl.
    - intros [<-|[<-|H]]; auto.
    - intros [<-|H]; auto. destruct (IH H); auto.
  Qed.

  Lemma insert_base x l : basef x -> Forall basef l -> Forall basef (insert_sorted K x l).
  Proof.
    intros Hx Hl. apply Forall_forall. intros y Hy. apply insert_in in Hy.
    destruct Hy as [->|Hy]; [exact Hx | rewrite Forall_forall in Hl; auto].
  Qed.

  Lemma insert_usorted x l : basef x -> Forall basef l ->
    StronglySorted leu l -> StronglySorted leu (insert_sorted K x l).
  Proof.
    intros Hx. induction l as [|y r IH]; intros Hl Hs; simpl.
    - constructor; constructor.
    - inversion Hl as [|? ? Hy Hr]; subst. inversion Hs as [|? ? Sr Fy]; subst.
      destruct (ufactor_leb K x y) eqn:E.
      + constructor; [exact Hs|]. constructor; [apply leb_leu; assumption|].
        rewrite Forall_forall in *. intros z Hz.
        apply (leu_trans x y z); auto. apply leb_leu; assumption.
      + constructor; [apply IH; assumption|].
        apply Forall_forall. intros z Hz. apply insert_in in Hz. destruct Hz as [->|Hz].
        * apply nleb_leu; assumption.
        * rewrite Forall_forall in Fy. auto.
  Qed.

  Lemma sort_base l : Forall basef l -> Forall basef (sort_factors K l).
  Proof.
    induction 1 as [|x r Hx Hr IH]; simpl; [constructor|]. apply insert_base; assumption.
  Qed.

  Lemma sort_usorted l : Forall basef l -> StronglySorted leu (sort_factors K l).
  Proof.
    induction 1 as [|x r Hx Hr IH]; simpl; [constructor|].
    apply insert_usorted; [exact Hx | apply sort_base; exact Hr | exact IH].
  Qed.

  (* ---- merging adjacent equal keys makes the order strict *)
  Lemma merge_in l y : In y (merge_adjacent l) -> exists z, In z l /\ f_uid z = f_uid y /\ f_pfx z = f_pfx y.
  Proof.
    revert y. induction l as [|x r IH]; intros y; simpl; [intros []|].
    destruct (merge_adjacent r) as [|h m] eqn:E.
    - intros [<-|[]]. exists x. auto.
    - destruct (same_key x h) eqn:S.
      + intros [<-|H].
        * exists x. simpl. auto.
        * destruct (IH y (or_intror H)) as (z & Hz & U). exists z. auto.
      + intros [<-|H].
        * exists x. auto.
        * destruct (IH y H) as (z & Hz & U). exists z. auto.
  Qed.

  Lemma merge_base l : Forall basef l -> Forall basef (merge_adjacent l).
  Proof.
    intros H. apply Forall_forall. intros y Hy. destruct (merge_in l y Hy) as (z & Hz & U & P).
    rewrite Forall_forall in H. destruct (H z Hz) as [Pz Dz]. split; congruence.
  Qed.

  Lemma merge_ssorted l : Forall basef l -> StronglySorted leu l -> StronglySorted ltu (merge_adjacent l).
  Proof.
    induction l as [|x r IH]; intros Hl Hs; simpl; [constructor|].
    inversion Hl as [|? ? Hx Hr]; subst. inversion Hs as [|? ? Sr Fx]; subst.
    specialize (IH Hr Sr). pose proof (merge_base r Hr) as Bm.
    destruct (merge_adjacent r) as [|h m] eqn:E; [constructor; constructor|].
    inversion IH as [|? ? Sm Fh]; subst. inversion Bm as [|? ? Bh Bm']; subst.
    assert (Lxh : leu x h).
    { destruct (merge_in r h) as (z & Hz & U & _); [rewrite E; left; reflexivity|].
      rewrite Forall_forall in Fx. specialize (Fx z Hz). unfold leu in *. rewrite <- U. exact Fx. }
    destruct (same_key x h) eqn:S.
    - apply same_key_eq in S. destruct S as [_ Su]. constructor; [exact Sm|].
      apply Forall_forall. intros z Hz. rewrite Forall_forall in Fh. unfold ltu. simpl. rewrite Su.
      apply Fh, Hz.
    - assert (Lt1 : ltu x h).
      { unfold ltu, leu in *. destruct (ord (f_uid x) (f_uid h)) eqn:O; [|reflexivity|congruence].
        destruct Hx as [Px Dx]. destruct Bh as [Ph Dh]. apply ord_eq in O; auto.
        exfalso. assert (same_key x h = true) by (apply same_key_eq; split; congruence). congruence. }
      constructor; [exact IH|]. constructor; [exact Lt1|].
      apply Forall_forall. intros z Hz. rewrite Forall_forall in Fh. unfold ltu in *.
      apply (ord_trans _ _ _ Lt1 (Fh z Hz)).
  Qed.

  Lemma filter_ssorted p l : StronglySorted ltu l -> StronglySorted ltu (filter p l).
  Proof.
    induction 1 as [|x r Sr IH Fx]; simpl; [constructor|].
    destruct (p x); [|exact IH]. constructor; [exact IH|].
    apply Forall_forall. intros z Hz. apply filter_In in Hz. rewrite Forall_forall in Fx. apply Fx, Hz.
  Qed.

  Lemma filter_base p l : Forall basef l -> Forall basef (filter p l).
  Proof.
    intros H. apply Forall_forall. intros z Hz. apply filter_In in Hz. rewrite Forall_forall in H. apply H, Hz.
  Qed.

  Lemma canon_base l : Forall basef l -> Forall basef (canon_with K l).
  Proof. intros H. unfold canon_with, canon_sorted_by. apply filter_base, merge_base, sort_base, H. Qed.

  Lemma canon_ssorted l : Forall basef l -> StronglySorted ltu (canon_with K l).
  Proof.
    intros H. unfold canon_with, canon_sorted_by. apply filter_ssorted, merge_ssorted.
    - apply sort_base, H.
    - apply sort_usorted, H.
  Qed.

  Lemma canon_nontrivial l : Forall (fun f => f_exp f <> 0) (canon_with K l).
  Proof.
    unfold canon_with, canon_sorted_by. apply Forall_forall. intros z Hz. apply filter_In in Hz.
    destruct Hz as [_ Hn]. unfold nontrivial in Hn. apply negb_true_iff in Hn. apply Qc_eqb_neq, Hn.
  Qed.

  (* ---- strictly sorted, non-trivial lists of base factors are determined by their vector *)
  Lemma bvec_notin l i : (forall z, In z l -> f_uid z <> i) -> bvec l i = 0.
  Proof.
    induction l as [|x r IH]; intros H; simpl; [reflexivity|].
    rewrite IH by (intros; apply H; right; assumption).
    destruct (Nat.eqb (f_uid x) i) eqn:E; [|ring].
    apply Nat.eqb_eq in E. exfalso. apply (H x); [left; reflexivity | exact E].
  Qed.

  Lemma ltu_neq a z : ltu a z -> f_uid z <> f_uid a.
  Proof. unfold ltu. intros H E. rewrite E, ord_refl in H. discriminate. Qed.

  Lemma bvec_head x r : Forall (ltu x) r -> bvec (x :: r) (f_uid x) = f_exp x.
  Proof.
    intros H. simpl. rewrite Nat.eqb_refl. rewrite bvec_notin; [ring|].
    intros z Hz. rewrite Forall_forall in H. apply ltu_neq, H, Hz.
  Qed.

  Lemma unique_nf X : forall Y,
    Forall basef X -> Forall basef Y ->
    StronglySorted ltu X -> StronglySorted ltu Y ->
    Forall (fun f => f_exp f <> 0) X -> Forall (fun f => f_exp f <> 0) Y ->
    (forall i, bvec X i = bvec Y i) -> X = Y.
  Proof.
    induction X as [|x X' IH]; intros Y BX BY SX SY NX NY Hv.
    - destruct Y as [|y Y']; [reflexivity|]. exfalso.
      inversion SY as [|? ? _ Fy]; subst. inversion NY as [|? ? Ny _]; subst.
      specialize (Hv (f_uid y)). rewrite (bvec_head y Y' Fy) in Hv. simpl in Hv. congruence.
    - inversion SX as [|? ? SX' Fx]; subst. inversion NX as [|? ? Nx NX']; subst.
      inversion BX as [|? ? Bx BX']; subst.
      destruct Y as [|y Y'].
      + exfalso. specialize (Hv (f_uid x)). rewrite (bvec_head x X' Fx) in Hv. simpl in Hv. congruence.
      + inversion SY as [|? ? SY' Fy]; subst. inversion NY as [|? ? Ny NY']; subst.
        inversion BY as [|? ? By BY']; subst.
        destruct (ord (f_uid x) (f_uid y)) eqn:O.
        * destruct Bx as [Px Dx]. destruct By as [Py Dy].
          assert (U : f_uid x = f_uid y) by (apply ord_eq; assumption).
          assert (Ex : f_exp x = f_exp y).
          { pose proof (Hv (f_uid x)) as H. rewrite (bvec_head x X' Fx) in H. rewrite U in H.
            rewrite (bvec_head y Y' Fy) in H. exact H. }
          assert (x = y) by (destruct x, y; simpl in *; congruence). subst y. f_equal.
          apply IH; auto. intros i. specialize (Hv i). simpl in Hv.
          apply (f_equal (fun v => v - (if Nat.eqb (f_uid x) i then f_exp x else 0))) in Hv.
          ring_simplify in Hv. exact Hv.
        * (* x's base unit does not occur in Y *)
          exfalso. pose proof (Hv (f_uid x)) as H. rewrite (bvec_head x X' Fx) in H.
          rewrite bvec_notin in H; [congruence|].
          intros z [<-|Hz]; [intros E; rewrite E, ord_refl in O; discriminate|].
          rewrite Forall_forall in Fy. specialize (Fy z Hz). unfold ltu in Fy.
          pose proof (ord_trans _ _ _ O Fy) as T. intros E. rewrite E, ord_refl in T. discriminate.
        * exfalso. pose proof (Hv (f_uid y)) as H. rewrite (bvec_head y Y' Fy) in H.
          assert (O' : ord (f_uid y) (f_uid x) = Lt) by (rewrite ord_anti, O; reflexivity).
          rewrite bvec_notin in H; [congruence|].
          intros z [<-|Hz]; [intros E; rewrite E, ord_refl in O'; discriminate|].
          rewrite Forall_forall in Fx. specialize (Fx z Hz). unfold ltu in Fx.
          pose proof (ord_trans _ _ _ O' Fx) as T. intros E. rewrite E, ord_refl in T. discriminate.
  Qed.

  (* canonical forms of base-unit lists with the same exponent vector coincide *)
  Theorem canon_unique A B :
    Forall basef A -> Forall basef B -> (forall i, bvec A i = bvec B i) ->
    canon_with K A = canon_with K B.
  Proof.
    intros HA HB Hv. apply unique_nf.
    - apply canon_base, HA.
    - apply canon_base, HB.
    - apply canon_ssorted, HA.
    - apply canon_ssorted, HB.
    - apply canon_nontrivial.
    - apply canon_nontrivial.
    - intros i. rewrite !bvec_canon_with. apply Hv.
  Qed.
End Ord.
