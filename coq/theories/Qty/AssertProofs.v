(* Qty/AssertProofs.v — proofs about the assertion procedures (C21). *)
From Coq Require Import List ZArith QArith Qcanon String Bool Field.
From NV Require Import Qty.Model Qty.Exec Qty.NumFacts Qty.Proofs Qty.Assert.
Import ListNotations.
Local Open Scope Qc_scope.

(* ---------------- any number type *)
Section Gen.
  Context {T : Type}.
  Variable N : numops T.
  Variable tbl : table T.
  Variable res : resolved (T := T).
  Variable keys : list skey.

  Lemma unit_eq_refl u : unit_eq keys u u = true.
  Proof.
    unfold unit_eq, unit_eq_with. apply (list_eqb_eq ufactor_eqb ufactor_eqb_eq). reflexivity.
  Qed.

  Lemma convert_same (q : quantity (T := T)) u :
    unit_eq keys (q_unit q) u = true -> convert_to N tbl res keys q u = Ok (qnew (q_val q) u).
  Proof. intros H. unfold convert_to. rewrite H. reflexivity. Qed.

  (* assert(c) succeeds iff c is true *)
  Lemma assert_iff c : p_assert (T := T) (VB c) = Continue <-> c = true.
  Proof. destruct c; simpl; split; congruence. Qed.

  (* non-quantities: assert_eq succeeds iff the values are equal *)
  Lemma assert_eq2_other l r :
    (forall q, l <> VQ q) ->
    (p_assert_eq2 N tbl res keys l r = Continue <-> value_eqb N tbl res keys l r = true).
  Proof.
    intros Hl. destruct l as [q|b|s|l]; [exfalso; apply (Hl q); reflexivity| | |];
      unfold p_assert_eq2; destruct (value_eqb N tbl res keys _ r); split; congruence.
  Qed.

  (* equal lists have the same length (zip-like comparisons that stop at the shorter list are excluded) *)
  Lemma value_eqb_list_length x : forall y,
    value_eqb N tbl res keys (VL x) (VL y) = true -> List.length x = List.length y.
  Proof.
    induction x as [|a x' IH]; intros [|b y']; simpl; try discriminate; [reflexivity|].
    intros H. apply andb_true_iff in H. destruct H as [_ H]. f_equal. apply IH. exact H.
  Qed.

  (* quantities: assert_eq(a, b) succeeds iff a converts to b's unit and the
     converted value equals b *)
  Lemma assert_eq2_qty a b :
    p_assert_eq2 N tbl res keys (VQ a) (VQ b) = Continue
    <-> exists a', convert_to N tbl res keys a (q_unit b) = Ok a' /\ qeq N tbl res keys a' b = true.
  Proof.
    unfold p_assert_eq2. destruct (convert_to N tbl res keys a (q_unit b)) as [a'|e].
    - destruct (qeq N tbl res keys a' b) eqn:E; split.
      + intros _. exists a'. auto.
      + reflexivity.
      + discriminate.
      + intros (x & Hx & Hq). injection Hx as <-. congruence.
    - split; [discriminate|]. intros (x & Hx & _). discriminate.
  Qed.

  (* a failing statement aborts the input: nothing after it runs *)
  Lemma run_abort p1 s p2 k :
    Forall (fun x => snd (exec N tbl res keys x) = Continue) p1 ->
    snd (exec N tbl res keys s) = Break k ->
    run_prog N tbl res keys (p1 ++ s :: p2)%list
    = ((flat_map (fun x => fst (exec N tbl res keys x)) p1 ++ fst (exec N tbl res keys s))%list, Some k).
  Proof.
    intros H Hs. induction H as [|x r Hx Hr IH]; simpl.
    - destruct (exec N tbl res keys s) as [pr f]. simpl in Hs. subst f. reflexivity.
    - destruct (exec N tbl res keys x) as [pr f]. simpl in Hx. subst f. rewrite IH.
      simpl. rewrite app_assoc. reflexivity.
  Qed.

  Lemma run_all_continue p :
    Forall (fun x => snd (exec N tbl res keys x) = Continue) p ->
    run_prog N tbl res keys p = (flat_map (fun x => fst (exec N tbl res keys x)) p, None).
  Proof.
    intros H. induction H as [|x r Hx Hr IH]; simpl; [reflexivity|].
    destruct (exec N tbl res keys x) as [pr f]. simpl in Hx. subst f. rewrite IH. reflexivity.
  Qed.

  (* assert_eq(a, b, eps) only succeeds through the documented computation; in
     particular a NaN anywhere (partial_cmp = None) makes it fail *)
  Lemma assert_eq3_struct l r eps :
    p_assert_eq3 N tbl res keys l r eps = Continue ->
    exists lc rc d,
      convert_to N tbl res keys l (q_unit eps) = Ok lc
      /\ convert_to N tbl res keys r (q_unit eps) = Ok rc
      /\ qsub N tbl res keys lc rc = Ok d
      /\ (q_partial_cmp N tbl res keys (qabs N d) eps = Some Lt
          \/ q_partial_cmp N tbl res keys (qabs N d) eps = Some Eq).
  Proof.
    unfold p_assert_eq3.
    destruct (convert_to N tbl res keys l (q_unit eps)) as [lc|] eqn:E1; [|discriminate].
    destruct (convert_to N tbl res keys r (q_unit eps)) as [rc|] eqn:E2; [|discriminate].
    destruct (qsub N tbl res keys lc rc) as [d|] eqn:E3; [|discriminate].
    unfold q_le.
    destruct (q_partial_cmp N tbl res keys (qabs N d) eps) as [[]|] eqn:E; try discriminate; intros _;
      exists lc, rc, d; repeat split; try reflexivity; auto.
  Qed.
End Gen.

(* ---------------- exact level *)
Section Exact.
  Variable tbl : table Qc.
  Variable res : resolved (T := Qc).
  Variable keys : list skey.
  Hypothesis scale_pos : forall i, 0 < scale res i.

  Definition Qc_abs (x : Qc) : Qc := if Qc_ltb x 0 then - x else x.

  Lemma Qc_ltb_cmp x y : Qc_ltb x y = match Qc_cmp x y with Lt => true | _ => false end.
  Proof. reflexivity. Qed.

  Lemma Qc_abs_scale x d : 0 < d -> Qc_abs (x * d) = Qc_abs x * d.
  Proof.
    intros Hd. unfold Qc_abs. rewrite !Qc_ltb_cmp.
    replace 0 with (0 * d) at 1 by ring. rewrite (Qc_cmp_mult_pos x 0 d Hd).
    destruct (Qc_cmp x 0); ring.
  Qed.

  (* assert_eq(a, b): succeeds iff a and b denote the same quantity *)
  Theorem assert_eq2_exact a b a' :
    unit_int (q_unit a) = true -> unit_int (q_unit b) = true ->
    convert_to QcN tbl res keys a (q_unit b) = Ok a' ->
    (p_assert_eq2 QcN tbl res keys (VQ a) (VQ b) = Continue <-> DenQ res a = DenQ res b).
  Proof.
    intros Ha Hb C. unfold p_assert_eq2. rewrite C.
    destruct (convert_to_sound tbl res keys scale_pos _ _ _ Ha Hb C) as (U & _ & _ & V & _).
    assert (Hi : unit_int (q_unit a') = true) by (rewrite U; exact Hb).
    assert (Cb : convert_to QcN tbl res keys b (q_unit a') = Ok (qnew (q_val b) (q_unit a'))).
    { apply convert_same. rewrite U. apply unit_eq_refl. }
    rewrite (qeq_exact tbl res keys scale_pos a' b _ Hi Hb Cb).
    assert (E : DenQ res a' = DenQ res a) by (unfold DenQ; rewrite U; exact V).
    rewrite E. unfold Qc_cmp. destruct (DenQ res a ?= DenQ res b) eqn:K; split; try congruence.
    - intros _. apply Qceq_alt. exact K.
    - intros H. apply Qceq_alt in H. congruence.
    - intros H. apply Qceq_alt in H. congruence.
  Qed.

  Lemma qsub_same_unit (x y : quantity (T := Qc)) :
    q_unit x = q_unit y ->
    exists d, qsub QcN tbl res keys x y = Ok d /\ q_unit d = q_unit x /\ q_val d = q_val x - q_val y.
  Proof.
    intros U. unfold qsub, qaddsub.
    destruct (q_is_zero QcN x) eqn:Zx.
    - apply is_zero_true in Zx. eexists. split; [reflexivity|]. simpl. split; [auto|]. rewrite Zx. ring.
    - destruct (q_is_zero QcN y) eqn:Zy.
      + apply is_zero_true in Zy. eexists. split; [reflexivity|]. split; [reflexivity|]. rewrite Zy. ring.
      + rewrite U, unit_eq_refl. eexists. split; [reflexivity|]. simpl. auto.
  Qed.

  (* assert_eq(a, b, eps): succeeds iff |a - b| <= eps as physical quantities *)
  Theorem assert_eq3_exact l r eps lc rc :
    unit_int (q_unit l) = true -> unit_int (q_unit r) = true -> unit_int (q_unit eps) = true ->
    convert_to QcN tbl res keys l (q_unit eps) = Ok lc ->
    convert_to QcN tbl res keys r (q_unit eps) = Ok rc ->
    (p_assert_eq3 QcN tbl res keys l r eps = Continue
     <-> Qc_cmp (Qc_abs (DenQ res l - DenQ res r)) (DenQ res eps) <> Gt).
  Proof.
    intros Hl Hr He Cl Cr. unfold p_assert_eq3. rewrite Cl, Cr.
    destruct (convert_to_sound tbl res keys scale_pos _ _ _ Hl He Cl) as (Ul & _ & _ & Vl & _).
    destruct (convert_to_sound tbl res keys scale_pos _ _ _ Hr He Cr) as (Ur & _ & _ & Vr & _).
    destruct (qsub_same_unit lc rc) as (d & Ed & Ud & Vd); [congruence|].
    rewrite Ed. unfold q_le, q_partial_cmp.
    assert (Hd : unit_int (q_unit (qabs QcN d)) = true) by (simpl; rewrite Ud, Ul; exact He).
    assert (Ce : convert_to QcN tbl res keys eps (q_unit (qabs QcN d)) = Ok (qnew (q_val eps) (q_unit (qabs QcN d)))).
    { apply convert_same. simpl. rewrite Ud, Ul. apply unit_eq_refl. }
    destruct (sym_cmp_ok tbl res keys (qabs QcN d) eps _ Ce) as (o & So). rewrite So.
    rewrite (sym_cmp_exact tbl res keys scale_pos (qabs QcN d) eps o Hd He So).
    pose proof (Den_pos res scale_pos _ He) as Dp.
    assert (E : Qc_abs (DenQ res l - DenQ res r) = DenQ res (qabs QcN d)).
    { unfold DenQ at 3. simpl. rewrite Ud, Ul. fold (Qc_abs (q_val d)).
      rewrite <- Qc_abs_scale by exact Dp. f_equal. unfold DenQ. rewrite <- Vl, <- Vr, Vd. ring. }
    rewrite E.
    destruct (Qc_cmp (DenQ res (qabs QcN d)) (DenQ res eps)); split; congruence.
  Qed.
End Exact.
