(* Qty/Struct.v — structural facts about the quantity model that hold for ANY
   number type (in particular for IEEE-754 doubles): they use only the shape
   of the Rust code plus the few laws stated as hypotheses. *)
From Coq Require Import List ZArith QArith Qcanon Bool.
From NV Require Import Qty.Model Qty.NumFacts Qty.Proofs.
Import ListNotations.

Section Struct.
  Context {T : Type}.
  Variable N : numops T.
  Variable tbl : table T.
  Variable res : resolved (T := T).
  Variable keys : list skey.

  Notation conv := (convert_to N tbl res keys).

  Lemma convert_err q u e : conv q u = Err e -> e = IncompatibleUnits.
  Proof.
    unfold convert_to. destruct (_ || _); [discriminate|].
    destruct (to_base N tbl res _) as [tb f].
    destruct (unit_eq keys _ tb); [discriminate|]. intros H. injection H as <-. reflexivity.
  Qed.

  (* ---------------- C12: a + b and b + a are the same computation *)
  Definition sizes_differ (ua ub : unit) : Prop :=
    n_leb N (unit_factor N res ua) (unit_factor N res ub)
    <> n_leb N (unit_factor N res ub) (unit_factor N res ua).

  Lemma smaller_unit_sym ua ub : sizes_differ ua ub ->
    smaller_unit N res ua ub = smaller_unit N res ub ua.
  Proof.
    unfold sizes_differ, smaller_unit.
    destruct (n_leb N (unit_factor N res ua) (unit_factor N res ub));
      destruct (n_leb N (unit_factor N res ub) (unit_factor N res ua)); congruence.
  Qed.

  Lemma addsub_swap (op op' : T -> T -> T) zl zl' a b :
    (forall x y, op x y = op' y x) ->
    q_is_zero N a = false -> q_is_zero N b = false ->
    unit_eq keys (q_unit a) (q_unit b) = false ->
    sizes_differ (q_unit a) (q_unit b) ->
    match qaddsub N tbl res keys op zl a b, qaddsub N tbl res keys op' zl' b a with
    | Ok r, Ok r' => r = r'
    | Err e, Err e' => e = e'
    | _, _ => False
    end.
  Proof.
    intros Hop Za Zb Eu Hs. unfold qaddsub. rewrite Za, Zb, Eu.
    rewrite (unit_eq_sym keys (q_unit b) (q_unit a)), Eu.
    rewrite <- (smaller_unit_sym _ _ Hs).
    set (R := smaller_unit N res (q_unit a) (q_unit b)).
    destruct (conv a R) as [a'|ea] eqn:Ca; destruct (conv b R) as [b'|eb] eqn:Cb; cbn [bind].
    - rewrite Hop. reflexivity.
    - reflexivity.
    - reflexivity.
    - apply convert_err in Ca. apply convert_err in Cb. congruence.
  Qed.

  (* same unit and same magnitude, bit for bit, in both orders *)
  Theorem add_comm_struct a b :
    (forall x y, n_add N x y = n_add N y x) ->
    q_is_zero N a = false -> q_is_zero N b = false ->
    unit_eq keys (q_unit a) (q_unit b) = false ->
    sizes_differ (q_unit a) (q_unit b) ->
    qadd N tbl res keys a b = qadd N tbl res keys b a.
  Proof.
    intros Hc Za Zb Eu Hs. unfold qadd.
    pose proof (addsub_swap (n_add N) (n_add N) (fun q => q) (fun q => q) a b Hc Za Zb Eu Hs) as H.
    destruct (qaddsub N tbl res keys (n_add N) (fun q => q) a b);
      destruct (qaddsub N tbl res keys (n_add N) (fun q => q) b a); try contradiction; congruence.
  Qed.

  (* exactly one operand is zero: both orders return the other operand itself *)
  Theorem add_zero_struct a b :
    q_is_zero N a = true -> q_is_zero N b = false ->
    qadd N tbl res keys a b = Ok b /\ qadd N tbl res keys b a = Ok b.
  Proof.
    intros Za Zb. unfold qadd, qaddsub. rewrite Za, Zb. auto.
  Qed.

  (* a - b is the negation of b - a: same unit, negated magnitude *)
  Theorem sub_anti_struct a b r r' :
    (forall x y, n_sub N x y = n_neg N (n_sub N y x)) ->
    q_is_zero N a = false -> q_is_zero N b = false ->
    unit_eq keys (q_unit a) (q_unit b) = false ->
    sizes_differ (q_unit a) (q_unit b) ->
    qsub N tbl res keys a b = Ok r -> qsub N tbl res keys b a = Ok r' ->
    q_unit r = q_unit r' /\ q_val r = n_neg N (q_val r').
  Proof.
    intros Hs Za Zb Eu Hd. unfold qsub.
    pose proof (addsub_swap (n_sub N) (fun x y => n_neg N (n_sub N x y)) (qneg N) (qneg N) a b
                            (fun x y => Hs x y) Za Zb Eu Hd) as H.
    intros E1 E2. rewrite E1 in H.
    (* the second computation with op' = neg o sub has the same unit and negated value *)
    unfold qaddsub in *. rewrite Za, Zb in *.
    rewrite (unit_eq_sym keys (q_unit b) (q_unit a)), Eu in *.
    destruct (convert_to N tbl res keys b (smaller_unit N res (q_unit b) (q_unit a))) as [b'|] eqn:Cb;
      [|discriminate].
    destruct (convert_to N tbl res keys a (smaller_unit N res (q_unit b) (q_unit a))) as [a'|] eqn:Ca;
      [|discriminate].
    cbn [bind] in *. injection E2 as <-. subst r. simpl. auto.
  Qed.

  (* ---------------- C11: comparisons *)
  Theorem ne_is_not_eq a b : qne N tbl res keys a b = negb (qeq N tbl res keys a b).
  Proof. reflexivity. Qed.

  Theorem nan_cmp_false op a b :
    n_is_nan N (q_val a) = true \/ n_is_nan N (q_val b) = true ->
    vm_cmp N tbl res keys op a b = Ok false.
  Proof.
    intros H. unfold vm_cmp, pcmp.
    assert (E : n_is_nan N (q_val a) || n_is_nan N (q_val b) = true)
      by (apply orb_true_iff; exact H).
    rewrite E. reflexivity.
  Qed.

  (* a NaN produced by a conversion (symmetric comparison undefined): every ordering
     comparison is false and == is false *)
  Theorem nan_conv_false op a b :
    sym_cmp N tbl res keys a b = Ok None ->
    vm_cmp N tbl res keys op a b = Ok false /\ qeq N tbl res keys a b = false.
  Proof.
    intros H. unfold vm_cmp, pcmp, qeq. rewrite H. destruct (_ || _); split; reflexivity.
  Qed.

  Definition is_lt c := match c with Lt => true | _ => false end.
  Definition is_eq c := match c with Eq => true | _ => false end.
  Definition is_gt c := match c with Gt => true | _ => false end.

  (* <, ==, > are all read off the same symmetric comparison: when it is defined,
     exactly one of them holds *)
  Theorem trichotomy_struct a b c :
    pcmp N tbl res keys a b = OOk c ->
    vm_cmp N tbl res keys CLt a b = Ok (is_lt c)
    /\ qeq N tbl res keys a b = is_eq c
    /\ vm_cmp N tbl res keys CGt a b = Ok (is_gt c)
    /\ vm_cmp N tbl res keys CLe a b = Ok (negb (is_gt c))
    /\ vm_cmp N tbl res keys CGe a b = Ok (negb (is_lt c)).
  Proof.
    intros H. unfold vm_cmp. rewrite H. unfold qeq. unfold pcmp in H.
    destruct (_ || _); [discriminate|].
    destruct (sym_cmp N tbl res keys a b) as [[c0|]|]; try discriminate.
    injection H as <-. destruct c0; repeat split; reflexivity.
  Qed.

  (* ---- order independence, for any number type whose partial_cmp is antisymmetric *)
  Definition opp_o (o : option comparison) : option comparison := option_map CompOpp o.
  Definition cmp_antisym_law : Prop := forall x y, n_cmp N y x = opp_o (n_cmp N x y).

  Lemma cmp_eqb_opp c1 c2 : cmp_eqb (CompOpp c1) (CompOpp c2) = cmp_eqb c2 c1.
  Proof. destruct c1, c2; reflexivity. Qed.

  Theorem sym_cmp_swap a b : cmp_antisym_law ->
    sym_cmp N tbl res keys b a
    = match sym_cmp N tbl res keys a b with Ok o => Ok (opp_o o) | Err e => Err e end.
  Proof.
    intros L. unfold sym_cmp.
    destruct (convert_to N tbl res keys a (q_unit b)) as [a'|ea] eqn:Ca;
      destruct (convert_to N tbl res keys b (q_unit a)) as [b'|eb] eqn:Cb.
    - rewrite (L (q_val a') (q_val b)), (L (q_val a) (q_val b')).
      destruct (n_cmp N (q_val a') (q_val b)) as [c2|]; destruct (n_cmp N (q_val a) (q_val b')) as [c1|];
        simpl; try reflexivity.
      rewrite cmp_eqb_opp. destruct c1, c2; reflexivity.
    - rewrite (L (q_val a') (q_val b)).
      destruct (n_cmp N (q_val a') (q_val b)) as [c2|]; reflexivity.
    - rewrite (L (q_val a) (q_val b')).
      destruct (n_cmp N (q_val a) (q_val b')) as [c1|]; reflexivity.
    - reflexivity.
  Qed.

  (* a == b iff b == a *)
  Theorem qeq_sym a b : cmp_antisym_law -> qeq N tbl res keys a b = qeq N tbl res keys b a.
  Proof.
    intros L. unfold qeq. rewrite (sym_cmp_swap a b L).
    destruct (sym_cmp N tbl res keys a b) as [[[]|]|]; reflexivity.
  Qed.

  Definition flip_ord (o : qordering) : qordering :=
    match o with OOk c => OOk (CompOpp c) | x => x end.

  Theorem pcmp_swap a b : cmp_antisym_law ->
    pcmp N tbl res keys b a = flip_ord (pcmp N tbl res keys a b).
  Proof.
    intros L. unfold pcmp. rewrite (orb_comm (n_is_nan N (q_val b))).
    destruct (_ || _); [reflexivity|]. rewrite (sym_cmp_swap a b L).
    destruct (sym_cmp N tbl res keys a b) as [[c|]|]; reflexivity.
  Qed.

  Definition flip (op : cmpop) : cmpop :=
    match op with CLt => CGt | CGt => CLt | CLe => CGe | CGe => CLe end.

  (* a < b iff b > a, a <= b iff b >= a — as results, errors included *)
  Theorem vm_cmp_flip op a b : cmp_antisym_law ->
    vm_cmp N tbl res keys (flip op) b a = vm_cmp N tbl res keys op a b.
  Proof.
    intros L. unfold vm_cmp. rewrite (pcmp_swap a b L).
    destruct (pcmp N tbl res keys a b) as [| |[]]; destruct op; reflexivity.
  Qed.
End Struct.
