(* Session/CliExec.v — the Cli.v model instantiated with the miniature stages of
   Session/Toy.v, reading the same case line the Python driver turns into a real
   `numbat -N` invocation (F<file content>, E<expression> fields), and printing
   exit status, stdout lines and whether stderr is non-empty.  No proofs. *)
From Coq Require Import List Bool String Ascii NArith.
From NV Require Import Base.Show Session.Resolver Session.Context Session.Toy.
From NV Require Import Session.Cli.
Import ListNotations.
Open Scope string_scope.

(* expressions.iter().join("\n") on parsed texts: any unparsable part spoils the whole *)
Fixpoint join_codes (l : list code) : code :=
  match l with
  | [] => Some []
  | c :: r => match c, join_codes r with
              | Some a, Some b => Some (a ++ b)%list
              | _, _ => None
              end
  end.

Definition toy_cli (k : skeleton) (file : option code) (exprs : option (list code)) :=
  cli string String.eqb code tstmt (timporter []) tparse tA tB tC (list tstmt) typed eA eB eC
      result string transform check run k 1 join_codes string
      (fun p => p)
      (fun v : result => match fst v with Some x => [show_value x] | None => [] end)
      (fun _ => "<diagnostic>") "Interpreter stopped"
      fresh file exprs.

Fixpoint first_field (tag : ascii) (fs : list string) : option string :=
  match fs with
  | [] => None
  | f :: r => if Ascii.eqb (field_tag f) tag then Some (field_body f) else first_field tag r
  end.
Fixpoint all_fields (tag : ascii) (fs : list string) : list string :=
  match fs with
  | [] => []
  | f :: r => if Ascii.eqb (field_tag f) tag then field_body f :: all_fields tag r else all_fields tag r
  end.

Definition show_cli_line (k : skeleton) (line : string) : string :=
  let fs := split (ascii_of_nat 9) line in
  let file := option_map parse_code (first_field "F"%char fs) in
  let es := all_fields "E"%char fs in
  let exprs := match es with [] => None | _ => Some (map parse_code es) end in
  let r := toy_cli k file exprs in
  "exit=" ++ show_nat (exit_status string r) ++ "|out=" ++ join rs (stdout string r)
          ++ "|err=" ++ (match stderr string r with [] => "0" | _ => "1" end).

(* ---- phase 2: arguments and the non-interactive REPL.  Case line fields:
        F<file> E<expr>* G<content of init.nbt> n (= --no-init) i (= --inspect-interactively)
        Z<stdin line>*; the miniature programs always run with --no-prelude ---- *)
Definition code_is_blank (c : code) : bool := match c with Some [] => true | _ => false end.
Definition code_is_quit (c : code) : bool :=
  match c with
  | Some [SOther (TExpr (EAtom (AId x)))] => orb (String.eqb x "quit") (String.eqb x "exit")
  | _ => false
  end.

Definition toy_cli_full (k : skeleton) (no_init insp : bool) (init_file file : option code)
           (exprs : option (list code)) (stdin : list code) :=
  cli_full string String.eqb code tstmt (timporter []) tparse tA tB tC (list tstmt) typed eA eB eC
           result string transform check run k 1 join_codes string
           (fun p => p)
           (fun v : result => match fst v with Some x => [show_value x] | None => [] end)
           (fun _ => "<diagnostic>") "Interpreter stopped"
           (Some []) "Interpreter error in Prelude code" "Interpreter error in user initialization code"
           "Interpreter stopped due to error" code_is_blank code_is_quit
           (config_of_args true no_init insp) fresh init_file file exprs stdin.

Fixpoint has_field (tag : ascii) (fs : list string) : bool :=
  match fs with
  | [] => false
  | f :: r => orb (Ascii.eqb (field_tag f) tag) (has_field tag r)
  end.

Definition show_cli_full_line (k : skeleton) (line : string) : string :=
  let fs := split (ascii_of_nat 9) line in
  let file := option_map parse_code (first_field "F"%char fs) in
  let es := all_fields "E"%char fs in
  let exprs := match es with [] => None | _ => Some (map parse_code es) end in
  let init := option_map parse_code (first_field "G"%char fs) in
  let stdin := map parse_code (all_fields "Z"%char fs) in
  let r := toy_cli_full k (has_field "n"%char fs) (has_field "i"%char fs) init file exprs stdin in
  "exit=" ++ show_nat (exit_status string r) ++ "|out=" ++ join rs (stdout string r)
          ++ "|err=" ++ (match stderr string r with [] => "0" | _ => "1" end).


(* ---- phase 4: the REPL commands, on an instance whose source text IS the text (Code := string,
        parse := parse_code), so that a line can be classified as a command by its first word as
        CommandParser does.  Case line fields as above; the stdin lines (Z) may be commands:
        quit / exit / reset / clear / save <path>, or a command with wrong arguments. ---- *)
Definition text_ctx := ctx string string tA tB tC.
Definition fresh_text : text_ctx :=
  mkCtx string string tA tB tC (mkA [] [] []) (mkB [] [] None) (mkC [] None) (new_resolver string string).

Fixpoint nonempty_words (l : list string) : list string :=
  match l with
  | [] => []
  | EmptyString :: r => nonempty_words r
  | w :: r => w :: nonempty_words r
  end.
Definition command_names : list string := ["quit"; "exit"; "reset"; "clear"; "save"; "list"; "help"; "info"].

Definition command_of (l : string) : option (cmd string) :=
  match nonempty_words (split " "%char l) with
  | [w] => if orb (String.eqb w "quit") (String.eqb w "exit") then Some (CQuit string)
           else if String.eqb w "reset" then Some (CReset string)
           else if String.eqb w "clear" then Some (COut string [])
           else if String.eqb w "info" then Some (CErr string "<diagnostic>")
           else None                      (* `save`, `list`, `help` without arguments are not generated *)
  | [w; p] => if String.eqb w "save" then Some (COut string ["  successfully saved session history to " ++ p])
              else if mem w command_names then Some (CErr string "<diagnostic>") else None
  | w :: _ => if mem w command_names then Some (CErr string "<diagnostic>") else None
  | [] => None
  end.
Definition text_is_blank (l : string) : bool := match nonempty_words (split " "%char l) with [] => true | _ => false end.

Definition text_cli_cmd (k : skeleton) (insp : bool) (file : option string) (exprs : option (list string))
           (stdin : list string) :=
  cli_full_cmd string String.eqb string tstmt (fun _ => None) parse_code tA tB tC (list tstmt) typed eA eB eC
               result string transform check run k 1 (fun l => join (String nl EmptyString) l) string
               (fun p => p)
               (fun v : result => match fst v with Some x => [show_value x] | None => [] end)
               (fun _ => "<diagnostic>") "Interpreter stopped"
               "" "Interpreter error in Prelude code" "Interpreter error in user initialization code"
               "Interpreter stopped due to error" text_is_blank command_of fresh_text
               (config_of_args true true insp) fresh_text None file exprs stdin.

Definition show_cli_cmd_line (k : skeleton) (line : string) : string :=
  let fs := split (ascii_of_nat 9) line in
  let file := first_field "F"%char fs in
  let es := all_fields "E"%char fs in
  let exprs := match es with [] => None | _ => Some es end in
  let r := text_cli_cmd k (has_field "i"%char fs) file exprs (all_fields "Z"%char fs) in
  "exit=" ++ show_nat (exit_status string r) ++ "|out=" ++ join rs (stdout string r)
          ++ "|err=" ++ (match stderr string r with [] => "0" | _ => "1" end).
