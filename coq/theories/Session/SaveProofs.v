(* Session/SaveProofs.v — C07: the `save` command (session_history.rs
   SessionHistory::push / save_inner as called by command.rs with
   include_err_lines = false, trim_lines = true) writes exactly the successful
   inputs in order, and replaying them in a fresh session reproduces the
   outcomes of the successful inputs and an equivalent final state. *)
From Coq Require Import List Bool.
From NV Require Import Session.Resolver Session.ResolverProofs Session.Context Session.ContextProofs.
Import ListNotations.

Section Save.
  Variable M : Type.
  Variable M_eqb : M -> M -> bool.
  Variable Code : Type.
  Variable S : Type.
  Variable importer : M -> option Code.
  Variable parse : Code -> option (list (stmt M S)).
  Variables A B C T1 T2 EA EB EC V P : Type.
  Variable transform : A -> list S -> A * (T1 + EA).
  Variable check : B -> T1 -> B * (T2 + EB).
  Variable run : C -> A -> B -> T2 -> C * (V + EC) * list P.
  Variable k : skeleton.
  Variable fuel : nat.
  Variable trim : Code -> Code.                       (* str::trim *)
  Hypothesis trim_parse : forall l, parse (trim l) = parse l.   (* surrounding blanks are not syntax *)

  Notation ctx := (ctx M Code A B C).
  Notation outcome := (outcome M EA EB EC V P).
  Notation interpret := (interpret M M_eqb Code S importer parse A B C T1 T2 EA EB EC V P transform check run).
  Notation session := (session M M_eqb Code S importer parse A B C T1 T2 EA EB EC V P transform check run).
  Notation ctx_eqv := (ctx_eqv M Code A B C).
  Notation is_fail := (is_fail M EA EB EC V P).
  Notation drop_failing := (drop_failing M M_eqb Code S importer parse A B C T1 T2 EA EB EC V P transform check run).

  Definition as_input (l : Code) : input M Code := (fuel, l, CSText).

  (* session_history.rs *)
  Definition history : Type := list (Code * bool).           (* input, result.is_ok() *)
  Definition save_inner (include_err_lines trim_lines : bool) (h : history) : list Code :=
    map (fun it => if trim_lines then trim (fst it) else fst it)
        (filter (fun it => snd it || include_err_lines) h).

  (* the REPL loop of numbat-cli (interactive mode): every line is interpreted
     and pushed to the history with its result *)
  Fixpoint repl (c : ctx) (lines : list Code) : ctx * history :=
    match lines with
    | [] => (c, [])
    | l :: rest =>
        let (c1, o) := interpret k fuel c l CSText in
        let (c2, h) := repl c1 rest in
        (c2, (l, negb (is_fail o)) :: h)
    end.

  Definition saved (c : ctx) (lines : list Code) : list Code :=
    save_inner false true (snd (repl c lines)).

  Lemma saved_is_drop_failing :
    forall lines c,
      map as_input (saved c lines)
      = map (fun i => (fst (fst i), trim (snd (fst i)), snd i)) (drop_failing k c (map as_input lines)).
  Proof.
    induction lines as [|l rest IH]; intro c; [reflexivity|].
    unfold saved in *. cbn [map as_input repl ContextProofs.drop_failing].
    fold (as_input l).
    change (drop_failing k c (as_input l :: map as_input rest))
      with (let (c1, o) := interpret k fuel c l CSText in
            if is_fail o then drop_failing k c1 (map as_input rest)
            else as_input l :: drop_failing k c1 (map as_input rest)).
    destruct (interpret k fuel c l CSText) as [c1 o].
    specialize (IH c1). destruct (repl c1 rest) as [c2 h]. cbn [snd] in *.
    unfold save_inner in *. cbn [filter snd fst].
    destruct (is_fail o); cbn [negb orb]; [exact IH|].
    cbn [map fst snd as_input]. f_equal. exact IH.
  Qed.

  Lemma session_trim :
    forall xs c c',
      ctx_eqv c c' ->
      snd (session k c (map (fun i : input M Code => (fst (fst i), trim (snd (fst i)), snd i)) xs))
      = snd (session k c' xs)
      /\ ctx_eqv (fst (session k c (map (fun i : input M Code => (fst (fst i), trim (snd (fst i)), snd i)) xs)))
                 (fst (session k c' xs)).
  Proof.
    induction xs as [|[[f l] cs] rest IH]; intros c c' E; [split; [reflexivity | exact E]|].
    cbn [map fst snd Context.session].
    destruct (interpret_eqv_gen M M_eqb Code S importer parse A B C T1 T2 EA EB EC V P transform check run
                k f c c' (trim l) l cs cs E (trim_parse l)) as [Eo Ec].
    destruct (interpret k f c (trim l) cs) as [c1 o]. destruct (interpret k f c' l cs) as [c1' o'].
    cbn [fst snd] in Eo, Ec. subst o'.
    destruct (IH c1 c1' Ec) as [Eos Ecs].
    destruct (session k c1 _) as [c2 os]. destruct (session k c1' rest) as [c2' os'].
    cbn [fst snd] in *. subst os'. split; [reflexivity | exact Ecs].
  Qed.

  (* what `save` writes: the trimmed successful inputs, in order *)
  Theorem saved_lines_are_the_successful_inputs :
    forall lines c,
      saved c lines = map (fun it => trim (fst it)) (filter (fun it => snd it) (snd (repl c lines))).
  Proof.
    intros. unfold saved, save_inner. f_equal. apply filter_ext. intros [l b]. cbn. now rewrite orb_false_r.
  Qed.

  (* replaying the saved file in a session equivalent to the one the original
     started from gives the outcomes of the successful inputs and an equivalent
     final state *)
  Theorem replay_of_saved_session :
    sk_complete k = true ->
    forall lines c c0,
      ctx_eqv c c0 ->
      snd (session k c0 (map as_input (saved c lines)))
      = successes M EA EB EC V P (snd (session k c (map as_input lines)))
      /\ ctx_eqv (fst (session k c0 (map as_input (saved c lines))))
                 (fst (session k c (map as_input lines))).
  Proof.
    intros Hk lines c c0 E. rewrite saved_is_drop_failing.
    destruct (session_trim (drop_failing k c (map as_input lines)) c0 c0
                (ctx_eqv_refl M Code A B C c0)) as [T1' T2'].
    destruct (session_without_failing_inputs M M_eqb Code S importer parse A B C T1 T2 EA EB EC V P
                transform check run k Hk (map as_input lines) c c0 E) as [D1 D2].
    split.
    - exact (eq_trans T1' D1).
    - eapply ctx_eqv_trans; [exact T2' | exact D2].
  Qed.
End Save.
