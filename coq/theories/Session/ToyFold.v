(* Session/ToyFold.v — the premises of C07_fold_partial DISCHARGED for the
   executable instance Session/Toy.v: its three stages are folds over the
   statement list, and its parser (text level, `parse_code`) reads
   a ++ "\n" ++ b as the concatenation of the statement lists.  Hence
   batched = incremental holds unconditionally for that instance. *)
From Coq Require Import List Bool String Ascii NArith.
From NV Require Import Base.Show Session.Resolver Session.ResolverProofs Session.Context
     Session.ContextProofs Session.BatchProofs.
From NV Require Import Session.Toy.
Import ListNotations.
Local Open Scope list_scope.

(* ---- transform is a fold ---- *)
Lemma transform_all_app : forall s1 s2 a,
    transform_all a (s1 ++ s2) =
    let (a1, ok) := transform_all a s1 in if ok then transform_all a1 s2 else (a1, false).
Proof.
  induction s1 as [|s r IH]; intros s2 a; cbn [app transform_all].
  - now destruct (transform_all a s2).
  - destruct (transform1 a s) as [a1 ok]. destruct ok; [apply IH | reflexivity].
Qed.

Lemma toy_transform_app : forall a s1 s2 a1 t1 a2 t2,
    transform a s1 = (a1, inl t1) -> transform a1 s2 = (a2, inl t2) ->
    transform a (s1 ++ s2) = (a2, inl (t1 ++ t2)).
Proof.
  unfold transform. intros a s1 s2 a1 t1 a2 t2 H1 H2. rewrite transform_all_app.
  destruct (transform_all a s1) as [x ok1]. destruct ok1; inversion H1; subst.
  destruct (transform_all a1 s2) as [y ok2]. destruct ok2; inversion H2; subst. reflexivity.
Qed.

(* ---- check is a fold ---- *)
Lemma toy_check_app : forall b s1 s2 b1 t1 b2 t2,
    check b s1 = (b1, inl t1) -> check b1 s2 = (b2, inl t2) ->
    check b (s1 ++ s2) = (b2, inl (t1 ++ t2)).
Proof.
  intros b s1. revert b. induction s1 as [|s r IH]; intros b s2 b1 t1 b2 t2 H1 H2.
  - cbn in H1. inversion H1; subst. exact H2.
  - cbn [app check] in *. destruct (check1 b s) as [bx [ts|e]]; [|discriminate].
    destruct (check bx r) as [by_ [tr|e]] eqn:E; [|discriminate]. inversion H1; subst.
    rewrite (IH _ _ _ _ _ _ E H2). reflexivity.
Qed.

(* ---- run continues where it stopped ---- *)
Definition keep_last (last v : option value) : option value :=
  match v with Some _ => v | None => last end.

Lemma run_all_acc : forall l c last pr,
    run_all c l last pr =
    let '(c1, r, p) := run_all c l None [] in
    (c1, match r with inl v => inl (keep_last last v) | inr e => inr e end, pr ++ p).
Proof.
  induction l as [|s r IH]; intros c last pr.
  - cbn. now rewrite List.app_nil_r.
  - cbn [run_all]. destruct s as [x e | u | e | e].
    + destruct (eval_expr c e); [|cbn; now rewrite List.app_nil_r]. apply IH.
    + apply IH.
    + destruct (eval_expr c e) as [v|]; [|cbn; now rewrite List.app_nil_r].
      rewrite (IH (mkC (globals c) (Some v)) (Some v) pr), (IH (mkC (globals c) (Some v)) (Some v) []).
      destruct (run_all (mkC (globals c) (Some v)) r None []) as [[c1 [w|er]] p]; cbn; [|reflexivity].
      destruct w; reflexivity.
    + destruct (eval_expr c e) as [v|]; [|cbn; now rewrite List.app_nil_r].
      rewrite (IH c last (pr ++ [show_value v])), (IH c None ([] ++ [show_value v])).
      destruct (run_all c r None []) as [[c1 [w|er]] p]; [destruct w|]; cbn; now rewrite <- List.app_assoc.
Qed.

Lemma run_all_app : forall l1 l2 c last pr,
    run_all c (l1 ++ l2) last pr =
    match run_all c l1 last pr with
    | (c1, inl last1, pr1) => run_all c1 l2 last1 pr1
    | other => other
    end.
Proof.
  induction l1 as [|s r IH]; intros l2 c last pr; [reflexivity|].
  cbn [app run_all]. destruct s as [x e | u | e | e]; try apply IH;
    destruct (eval_expr c e); try reflexivity; apply IH.
Qed.

Lemma last_app_ne : forall {A} (l1 l2 : list A) d, l2 <> [] -> last (l1 ++ l2) d = last l2 d.
Proof.
  induction l1 as [|x r IH]; intros l2 d H; [reflexivity|].
  cbn [app]. specialize (IH l2 d H).
  destruct (r ++ l2) eqn:E.
  - destruct r, l2; try discriminate. now contradiction H.
  - cbn [last]. exact IH.
Qed.

Lemma last_shown_app : forall (t1 t2 : typed),
    last_shown (t1 ++ t2) = match last_shown t2 with Some x => Some x | None => last_shown t1 end.
Proof.
  intros t1 t2. destruct t2 as [|x r].
  - now rewrite List.app_nil_r.
  - unfold last_shown at 2. unfold last_shown.
    destruct (t1 ++ x :: r) eqn:E; [destruct t1; discriminate|].
    rewrite <- E. f_equal. f_equal. apply last_app_ne. discriminate.
Qed.

Lemma toy_run_app : forall c a1 b1 a2 b2 (t1 t2 : typed) c1 v1 p1 c2 v2 p2,
    run c a1 b1 t1 = (c1, inl v1, p1) -> run c1 a2 b2 t2 = (c2, inl v2, p2) ->
    run c a2 b2 (t1 ++ t2) = (c2, inl (vmerge v1 v2), p1 ++ p2).
Proof.
  unfold run, typed, tstmt_typed. intros c a1 b1 a2 b2 t1 t2 c1 v1 p1 c2 v2 p2 H1 H2.
  rewrite map_app, run_all_app.
  destruct (run_all c (map fst t1) None []) as [[cx [w1|e1]] q1] eqn:E1; [|discriminate].
  inversion H1; subst cx v1 q1. clear H1.
  cbv beta iota. rewrite (run_all_acc (map fst t2) c1 w1 p1).
  destruct (run_all c1 (map fst t2) None []) as [[cy [w2|e2]] q2] eqn:E2; [|discriminate].
  inversion H2; subst cy v2 q2. clear H2. cbv beta iota.
  unfold vmerge, keep_last. cbn [fst snd]. rewrite last_shown_app. destruct w2; reflexivity.
Qed.

(* ---- the parser of the instance, at the level of the source TEXT ---- *)
Definition cat_code (a b : code) : code :=
  match a, b with Some x, Some y => Some (x ++ y) | _, _ => None end.

Lemma split_app : forall c a b, split c (a ++ String c b)%string = split c a ++ split c b.
Proof.
  intros c a b. induction a as [|ch r IH]; cbn [String.append split].
  - rewrite Ascii.eqb_refl. reflexivity.
  - destruct (Ascii.eqb ch c); rewrite IH; [reflexivity|].
    destruct (split c r) eqn:E; [|reflexivity].
    exfalso. clear - E. destruct r; cbn in E; [discriminate|].
    destruct (Ascii.eqb a c); [discriminate|]. destruct (split c r); discriminate.
Qed.

Lemma parse_lines_app : forall l1 l2, parse_lines (l1 ++ l2) = cat_code (parse_lines l1) (parse_lines l2).
Proof.
  induction l1 as [|l r IH]; intros l2; cbn [app parse_lines].
  - cbn. now destruct (parse_lines l2).
  - destruct l as [|ch rest]; [apply IH|].
    rewrite IH. destruct (parse_line (String ch rest)); [|reflexivity].
    destruct (parse_lines r), (parse_lines l2); reflexivity.
Qed.

Lemma parse_code_lines : forall s, parse_code s = parse_lines (split nl s).
Proof. intros [|c r]; reflexivity. Qed.

(* C07_parse_concat for the miniature grammar: joining two texts with a newline *)
Theorem toy_parse_concat : forall a b,
    parse_code (a ++ String nl b)%string = cat_code (parse_code a) (parse_code b).
Proof. intros. now rewrite !parse_code_lines, split_app, parse_lines_app. Qed.

Lemma toy_parse_cat : forall a b pa pb,
    tparse a = Some pa -> tparse b = Some pb -> tparse (cat_code a b) = Some (pa ++ pb).
Proof. unfold tparse. intros a b pa pb -> ->. reflexivity. Qed.

(* ---- batched = incremental, unconditionally, for the instance ---- *)
Theorem toy_batched_equals_incremental :
  forall k tbl fuel (c : tctx) a b cs c1 v1 p1 c2 v2 p2,
    interpret string String.eqb code tstmt (timporter tbl) tparse tA tB tC (list tstmt) typed eA eB eC
              result string transform check run k fuel c a cs = (c1, Done string eA eB eC result string v1 p1) ->
    interpret string String.eqb code tstmt (timporter tbl) tparse tA tB tC (list tstmt) typed eA eB eC
              result string transform check run k fuel c1 b cs = (c2, Done string eA eB eC result string v2 p2) ->
    exists c2',
      interpret string String.eqb code tstmt (timporter tbl) tparse tA tB tC (list tstmt) typed eA eB eC
                result string transform check run k fuel c (cat_code a b) cs
      = (c2', Done string eA eB eC result string (vmerge v1 v2) (p1 ++ p2))
      /\ ctx_eqv string code tA tB tC c2' c2.
Proof.
  intros k tbl.
  exact (batched_equals_incremental string String.eqb code tstmt (timporter tbl) tparse
           tA tB tC tstmt tstmt_typed eA eB eC result string transform check run cat_code vmerge
           toy_parse_cat toy_transform_app toy_check_app toy_run_app k).
Qed.
