(* Session/Toy.v — an executable INSTANCE of the Session/Context.v model, used
   by the correspondence check of C06/C07: the three stage parameters are
   instantiated with a faithful miniature of numbat on the fragment

       input  ::= stmt (newline stmt)*      | text that does not parse
       stmt   ::= use m | let x = e | unit u | e | print(e)
       e      ::= a | a + a | a / 0        a ::= n | identifier

   (no prelude; module texts come from an in-memory table).  The harness runs
   the same sessions on real numbat Contexts (harness/src/session.rs) and the
   observation strings must be identical.  Everything numbat does on this
   fragment that a failing input could leave behind is kept:
     * Transformer pushes a variable name BEFORE the clash check and keeps the
       names registered by the statements before the failing one (dirty A);
     * TypeChecker keeps the definitions of the statements before the failing one;
     * the VM keeps the globals stored before a run-time error (dirty C) and has
       already emitted the prints.
   No proofs here. *)
From Coq Require Import List Bool String NArith Ascii.
From NV Require Import Base.Show Session.Resolver Session.Context.
Import ListNotations.
Open Scope string_scope.

(* ---- syntax ---- *)
Inductive atom := ANum (n : N) | AId (x : string).
Inductive expr := EAtom (a : atom) | EAdd (a b : atom) | EDivZero (a : atom).
Inductive tstmt := TLet (x : string) (e : expr) | TUnit (u : string) | TExpr (e : expr) | TPrint (e : expr).

(* the "source text" of the model is its parse result; None = does not parse *)
Definition code := option (list (stmt string tstmt)).
Definition tparse (c : code) : option (list (stmt string tstmt)) := c.

Fixpoint assoc {X} (k : string) (l : list (string * X)) : option X :=
  match l with
  | [] => None
  | (k', v) :: r => if String.eqb k k' then Some v else assoc k r
  end.
Definition mem (k : string) (l : list string) : bool := existsb (String.eqb k) l.

(* ---- A: prefix_transformer.rs Transformer (variable_names, unit_names,
        PrefixParser::other_identifiers / units) ---- *)
Record tA := mkA { variable_names : list string; unit_names : list string;
                   other_ids : list string }.
Inductive eA := IdentifierClash.

Definition transform1 (a : tA) (s : tstmt) : tA * bool (* ok? *) :=
  match s with
  | TLet x _ =>
      (* transform_define_variable: push first, then add_other_identifier *)
      let a1 := mkA (variable_names a ++ [x]) (unit_names a) (other_ids a) in
      if mem x (other_ids a) then (a1, true)            (* parse(x) = Identifier: available *)
      else if mem x (unit_names a) then (a1, false)     (* clashes with a unit *)
      else (mkA (variable_names a1) (unit_names a1) (other_ids a1 ++ [x]), true)
  | TUnit u =>
      (* register_name_and_aliases -> add_unit -> ensure_name_is_available(.., true) *)
      if mem u (other_ids a) then (a, false)
      else if mem u (unit_names a) then (a, false)
      else (mkA (variable_names a) (unit_names a ++ [u]) (other_ids a), true)
  | TExpr _ | TPrint _ => (a, true)
  end.

Fixpoint transform_all (a : tA) (l : list tstmt) : tA * bool :=
  match l with
  | [] => (a, true)
  | s :: r => let (a1, ok) := transform1 a s in
              if ok then transform_all a1 r else (a1, false)
  end.

Definition transform (a : tA) (l : list tstmt) : tA * (list tstmt + eA) :=
  let (a1, ok) := transform_all a l in
  (a1, if ok then inl l else inr IdentifierClash).

(* ---- B: typechecker (types of globals; a unit u has type "dimension of u") ---- *)
(* TyAny: the type of `a / 0` — numbat's literal 0 is polymorphic in its dimension, so the quotient
   unifies with whatever it is added to (the input then fails at run time with DivisionByZero) *)
Inductive ty := TyScalar | TyDim (u : string) | TyAny.
Definition ty_eqb (a b : ty) : bool :=
  match a, b with
  | TyAny, _ | _, TyAny => true
  | TyScalar, TyScalar => true
  | TyDim u, TyDim v => String.eqb u v
  | _, _ => false
  end.
(* last_type: the type of the last result (`ans` / `_`, name_resolution.rs LAST_RESULT_IDENTIFIERS) *)
Record tB := mkB { var_types : list (string * ty); units : list string; last_type : option ty }.
Definition is_last_result (x : string) : bool := orb (String.eqb x "ans") (String.eqb x "_").
Inductive eB := UnknownIdentifier | IncompatibleDimensions.

Definition type_atom (b : tB) (a : atom) : ty + eB :=
  match a with
  | ANum _ => inl TyScalar
  | AId x =>
      if is_last_result x then
        match last_type b with Some t => inl t | None => inr UnknownIdentifier end
      else
      match assoc x (var_types b) with
      | Some t => inl t
      | None => if mem x (units b) then inl (TyDim x) else inr UnknownIdentifier
      end
  end.

Definition type_expr (b : tB) (e : expr) : ty + eB :=
  match e with
  | EAtom a => type_atom b a
  | EAdd x y =>
      match type_atom b x with
      | inr e => inr e
      | inl tx => match type_atom b y with
                  | inr e => inr e
                  | inl t_y => if ty_eqb tx t_y then inl (match tx with TyAny => t_y | _ => tx end)
                               else inr IncompatibleDimensions
                  end
      end
  | EDivZero a => match type_atom b a with inr e => inr e | inl _ => inl TyAny end
  end.

(* the readable type InterpreterResult::to_markup shows next to a value: only for
   an expression statement, and not for scalars *)
Definition upper_first (s : string) : string :=
  match s with
  | EmptyString => s
  | String ch r =>
      let n := nat_of_ascii ch in
      String (if andb (Nat.leb 97 n) (Nat.leb n 122) then ascii_of_nat (n - 32) else ch) r
  end.
Definition show_ty (t : ty) : string :=
  match t with TyScalar => "Scalar" | TyDim u => upper_first u | TyAny => "?" end.
Definition shown_type (s : tstmt) (t : ty) : string :=
  match s, t with
  | TExpr _, TyDim u => upper_first u
  | _, _ => "-"
  end.

(* a typed statement: the statement and the type shown for it *)
Definition tstmt_typed := (tstmt * string)%type.

(* TypeChecker::check_statement *)
Definition check1 (b : tB) (s : tstmt) : tB * (tstmt_typed + eB) :=
  match s with
  | TLet x e =>
      match type_expr b e with
      | inr err => (b, inr err)
      | inl t => (mkB ((x, t) :: var_types b) (units b) (last_type b), inl (s, "-"))
      end
  | TUnit u => (mkB (var_types b) (units b ++ [u]) (last_type b), inl (s, "-"))
  | TExpr e =>
      match type_expr b e with
      | inr err => (b, inr err)
      | inl t => (mkB (var_types b) (units b) (Some t), inl (s, shown_type s t))   (* ans gets this type *)
      end
  | TPrint e =>
      match type_expr b e with
      | inr err => (b, inr err)
      | inl t => (b, inl (s, shown_type s t))
      end
  end.

(* TypeChecker::check: a fold over the statements, stopping at the first error
   (the definitions made before it stay in the — dirty — type checker) *)
Definition typed := list tstmt_typed.
Fixpoint check (b : tB) (l : list tstmt) : tB * (typed + eB) :=
  match l with
  | [] => (b, inl [])
  | s :: r => match check1 b s with
              | (b1, inr e) => (b1, inr e)
              | (b1, inl ts) => match check b1 r with
                                | (b2, inl tr) => (b2, inl (ts :: tr))
                                | (b2, inr e) => (b2, inr e)
                                end
              end
  end.

(* ---- C: the VM (globals) ---- *)
Definition value := (N * option string)%type.      (* magnitude, unit *)
(* last_result: Vm::last_result, what `ans` / `_` evaluate to *)
Record tC := mkC { globals : list (string * value); last_result : option value }.
Inductive eC := DivisionByZero.

Definition eval_atom (c : tC) (a : atom) : value :=
  match a with
  | ANum n => (n, None)
  | AId x =>
      if is_last_result x then
        match last_result c with Some v => v | None => (0%N, None) end   (* unreachable after type checking *)
      else
      match assoc x (globals c) with
      | Some v => v
      | None => (1%N, Some x)            (* a unit identifier: 1 u *)
      end
  end.
Definition eval_expr (c : tC) (e : expr) : option value :=
  match e with
  | EAtom a => Some (eval_atom c a)
  | EAdd x y => let (n, u) := eval_atom c x in let (m, _) := eval_atom c y in Some ((n + m)%N, u)
  | EDivZero _ => None
  end.

Definition show_value (v : value) : string :=
  match v with
  | (n, None) => show_N n
  | (n, Some u) => show_N n ++ " " ++ u
  end.

(* run: returns the VM state, the last value returned by an expression
   statement (result_last_statement in vm.rs), or the error, and the prints *)
Fixpoint run_all (c : tC) (l : list tstmt) (last : option value) (prints : list string)
  : tC * (option value + eC) * list string :=
  match l with
  | [] => (c, inl last, prints)
  | s :: r =>
      match s with
      | TLet x e =>
          match eval_expr c e with
          | None => (c, inr DivisionByZero, prints)
          | Some v => run_all (mkC ((x, v) :: globals c) (last_result c)) r last prints
          end
      | TUnit _ => run_all c r last prints
      | TExpr e =>
          match eval_expr c e with
          | None => (c, inr DivisionByZero, prints)
          | Some v => run_all (mkC (globals c) (Some v)) r (Some v) prints      (* Op::Return at top level *)
          end
      | TPrint e =>
          match eval_expr c e with
          | None => (c, inr DivisionByZero, prints)
          | Some v => run_all c r last (prints ++ [show_value v])
          end
      end
  end.

(* the type shown with the result is the one of the LAST statement (None for an
   empty statement list, e.g. an input that only re-imports modules) *)
Definition last_shown (t : typed) : option string :=
  match t with
  | [] => None
  | _ => Some (snd (last t (TUnit "", "-")))
  end.

Definition result := (option value * option string)%type.   (* last value, shown type *)

(* BytecodeInterpreter::interpret_statements + Vm::run *)
Definition run (c : tC) (a : tA) (b : tB) (t : typed) : tC * (result + eC) * list string :=
  let '(c1, r, prints) := run_all c (map fst t) None [] in
  (c1, match r with
       | inl v => inl (v, last_shown t)
       | inr e => inr e
       end, prints).

(* result of a joined input from the results of its two halves (C07) *)
Definition vmerge (r1 r2 : result) : result :=
  (match fst r2 with Some v => Some v | None => fst r1 end,
   match snd r2 with Some t => Some t | None => snd r1 end).

(* ---- the instance ---- *)
Definition table := list (string * code).
Definition timporter (tbl : table) (m : string) : option code := assoc m tbl.

Definition tctx := ctx string code tA tB tC.
Definition fresh : tctx :=
  mkCtx string code tA tB tC (mkA [] [] []) (mkB [] [] None) (mkC [] None) (new_resolver string code).

Definition tinterpret (k : skeleton) (tbl : table) (c : tctx) (src : code) :=
  interpret string String.eqb code tstmt (timporter tbl) tparse tA tB tC
            (list tstmt) typed eA eB eC result string transform check run
            k (Datatypes.S (length tbl)) c src CSText.

(* ---- printing, in the format of harness/src/session.rs ---- *)
Definition rs : string := String (ascii_of_nat 30) EmptyString.
Definition tab : string := String (ascii_of_nat 9) EmptyString.

Definition show_outcome (o : outcome string eA eB eC result string) : string :=
  match o with
  | Done _ _ _ _ _ _ (v, t) prints =>
      "ok|" ++ match v with Some v => show_value v | None => "-" end ++ "|"
            ++ match v, t with Some _, Some t => t | _, _ => "-" end ++ "|" ++ join rs prints
  | Fail _ _ _ _ _ _ f prints =>
      "err|" ++ match f with
                | FResolver _ _ _ _ (UnknownModule m) => "resolver:UnknownModule(" ++ m ++ ")"
                | FResolver _ _ _ _ ParseErrors => "resolver:ParseErrors"
                | FOutOfFuel _ _ _ _ => "model:OutOfFuel"
                | FName _ _ _ _ IdentifierClash => "name:IdentifierClash"
                | FType _ _ _ _ UnknownIdentifier => "type:UnknownIdentifier"
                | FType _ _ _ _ IncompatibleDimensions => "type:IncompatibleDimensions"
                | FRuntime _ _ _ _ DivisionByZero => "runtime:DivisionByZero"
                end ++ "|" ++ join rs prints
  end.

Fixpoint dedup (seen : list string) (l : list string) : list string :=
  match l with
  | [] => []
  | x :: r => if mem x seen then dedup seen r else x :: dedup (x :: seen) r
  end.

(* insertion sort of the unit representations by name (the harness sorts them) *)
Fixpoint insert_sorted (x : string) (l : list string) : list string :=
  match l with
  | [] => [x]
  | y :: r => if String.leb x y then x :: l else y :: insert_sorted x r
  end.
Definition sort_strings (l : list string) : list string := fold_right insert_sorted [] l.

Definition show_digest (c : tctx) : string :=
  let a := cA _ _ _ _ _ c in
  let b := cB _ _ _ _ _ c in
  let vm := cC _ _ _ _ _ c in
  let val x :=
      x ++ "=" ++ match assoc x (globals vm) with Some v => show_value v | None => "?" end
        ++ ":= " ++ match assoc x (var_types b) with Some t => show_ty t | None => "?" end in
  "imp=[" ++ join "," (imported _ _ (cR _ _ _ _ _ c)) ++ "];vars=["
    ++ join "," (variable_names a) ++ "];fns=[];units=[" ++ join "," (unit_names a)
    ++ "];dims=[];ureps=["
    ++ join "," (sort_strings (map (fun u => u ++ "=" ++ u ++ "[" ++ upper_first u ++ "]") (units b)))
    ++ "];vals=[" ++ join "," (map val (dedup [] (variable_names a))) ++ "];ans=["
    ++ match last_result vm, last_type b with
       | Some v, Some t => show_value v ++ ":" ++ match t with TyDim u => upper_first u | _ => "-" end
       | _, _ => "-"
       end ++ "]".

(* a case: operations on one context *)
Inductive sop := OpI (src : code) | OpDigest.

Fixpoint run_ops (k : skeleton) (tbl : table) (c : tctx) (ops : list sop) : list string :=
  match ops with
  | [] => []
  | OpI src :: r => let (c1, o) := tinterpret k tbl c src in show_outcome o :: run_ops k tbl c1 r
  | OpDigest :: r => show_digest c :: run_ops k tbl c r
  end.

Definition show_session (k : skeleton) (tbl : table) (ops : list sop) : string :=
  join tab (run_ops k tbl fresh ops).

(* ---- reading the harness case line itself (so that model and implementation
        consume the identical text; string literals are cheap to parse in coqc) ---- *)
Definition nl : ascii := ascii_of_nat 10.
Definition bs : ascii := ascii_of_nat 92.

Fixpoint split (c : ascii) (s : string) : list string :=
  match s with
  | EmptyString => [EmptyString]
  | String ch r =>
      let l := split c r in
      if Ascii.eqb ch c then EmptyString :: l
      else match l with
           | h :: t => String ch h :: t
           | [] => [String ch EmptyString]
           end
  end.

(* harness escaping: \\ \n \t \r *)
Fixpoint unesc (s : string) : string :=
  match s with
  | EmptyString => EmptyString
  | String ch r =>
      if Ascii.eqb ch bs then
        match r with
        | String "n"%char r2 => String nl (unesc r2)
        | String "t"%char r2 => String (ascii_of_nat 9) (unesc r2)
        | String "r"%char r2 => String (ascii_of_nat 13) (unesc r2)
        | String ch2 r2 => if Ascii.eqb ch2 bs then String bs (unesc r2)
                           else String bs (String ch2 (unesc r2))
        | EmptyString => String bs EmptyString
        end
      else String ch (unesc r)
  end.

Definition is_digit (c : ascii) : bool := let k := nat_of_ascii c in andb (Nat.leb 48 k) (Nat.leb k 57).
Definition is_alpha (c : ascii) : bool :=
  let k := nat_of_ascii c in
  orb (andb (Nat.leb 97 k) (Nat.leb k 122)) (orb (andb (Nat.leb 65 k) (Nat.leb k 90)) (Nat.eqb k 95)).
Fixpoint all_chars (p : ascii -> bool) (s : string) : bool :=
  match s with EmptyString => true | String c r => andb (p c) (all_chars p r) end.
Fixpoint digits_to_N (s : string) (acc : N) : N :=
  match s with
  | EmptyString => acc
  | String c r => digits_to_N r (acc * 10 + N.of_nat (nat_of_ascii c - 48))%N
  end.
Definition keywords : list string :=
  ["let"; "unit"; "use"; "fn"; "dimension"; "struct"; "if"; "then"; "else"; "true"; "false";
   "per"; "to"; "where"; "and"; "print"; "type"; "assert"; "assert_eq"; "NaN"; "inf"].
(* module paths a::b are identifiers separated by "::" *)
Definition is_ident (s : string) : bool :=
  match s with
  | EmptyString => false
  | String c r => andb (andb (is_alpha c) (all_chars (fun x => orb (is_alpha x) (is_digit x)) r))
                       (negb (mem s keywords))
  end.
Definition is_path (s : string) : bool :=
  match s with
  | EmptyString => false
  | String c _ => andb (is_alpha c)
                       (all_chars (fun x => orb (orb (is_alpha x) (is_digit x)) (Ascii.eqb x ":"%char)) s)
  end.

Definition parse_atom (t : string) : option atom :=
  match t with
  | EmptyString => None
  | _ => if all_chars is_digit t then Some (ANum (digits_to_N t 0))
         else if is_ident t then Some (AId t) else None
  end.
Definition parse_expr (toks : list string) : option expr :=
  match toks with
  | [a] => option_map EAtom (parse_atom a)
  | [a; op; b] =>
      if String.eqb op "+" then
        match parse_atom a, parse_atom b with
        | Some x, Some y => Some (EAdd x y)
        | _, _ => None
        end
      else if andb (String.eqb op "/") (String.eqb b "0") then option_map EDivZero (parse_atom a)
      else None
  | _ => None
  end.

Fixpoint drop_last (s : string) : string :=
  match s with
  | EmptyString => EmptyString
  | String c EmptyString => EmptyString
  | String c r => String c (drop_last r)
  end.
Fixpoint last_char (s : string) : ascii :=
  match s with
  | EmptyString => " "%char
  | String c EmptyString => c
  | String _ r => last_char r
  end.

Definition parse_line (l : string) : option (stmt string tstmt) :=
  if andb (String.prefix "print(" l) (Ascii.eqb (last_char l) ")"%char) then
    option_map (fun e => SOther (TPrint e))
               (parse_expr (split " "%char (drop_last (substring 6 (String.length l - 6) l))))
  else
    match split " "%char l with
    | ["use"; m] => if is_path m then Some (SUse m) else None
    | ["unit"; u] => if is_ident u then Some (SOther (TUnit u)) else None
    | "let" :: x :: "=" :: rest =>
        if is_ident x then option_map (fun e => SOther (TLet x e)) (parse_expr rest) else None
    | toks => option_map (fun e => SOther (TExpr e)) (parse_expr toks)
    end.

Fixpoint parse_lines (ls : list string) : code :=
  match ls with
  | [] => Some []
  | l :: r =>
      match l with
      | EmptyString => parse_lines r           (* blank lines are skipped *)
      | _ => match parse_line l, parse_lines r with
             | Some s, Some rest => Some (s :: rest)
             | _, _ => None
             end
      end
  end.
Definition parse_code (src : string) : code :=
  match src with
  | EmptyString => Some []
  | _ => parse_lines (split nl src)
  end.

Definition field_tag (f : string) : ascii := match f with String c _ => c | EmptyString => " "%char end.
Definition field_body (f : string) : string := match f with String _ r => unesc r | EmptyString => EmptyString end.

Fixpoint split_first (c : ascii) (s : string) : string * string :=
  match s with
  | EmptyString => (EmptyString, EmptyString)
  | String ch r => if Ascii.eqb ch c then (EmptyString, r)
                   else let (a, b) := split_first c r in (String ch a, b)
  end.

Fixpoint table_of_fields (fs : list string) : table :=
  match fs with
  | [] => []
  | f :: r => if Ascii.eqb (field_tag f) "M"%char then
                let (name, src) := split_first "="%char (field_body f) in
                (name, parse_code src) :: table_of_fields r
              else table_of_fields r
  end.
Fixpoint ops_of_fields (fs : list string) : list sop :=
  match fs with
  | [] => []
  | f :: r => if Ascii.eqb (field_tag f) "I"%char then OpI (parse_code (field_body f)) :: ops_of_fields r
              else if Ascii.eqb (field_tag f) "d"%char then OpDigest :: ops_of_fields r
              else ops_of_fields r
  end.

(* the model's answer to one harness input line *)
Definition show_line (k : skeleton) (line : string) : string :=
  let fs := split (ascii_of_nat 9) line in
  show_session k (table_of_fields fs) (ops_of_fields fs).
