(* Session/VmFold.v — C07 premise (a) for the compile-and-run stage, on the vm
   area's models (VM/Compile.v, VM/Machine.v, VM/RefSem.v):
   * the compiler model is a fold over the statements (cstmts_app);
   * the reference semantics is a fold over the statements (exec_stmts_app);
   * hence (with C09_compile_correct) the stack machine running the code
     compiled from a JOINED program p1 ++ p2 halts with the prints of p1 followed
     by the prints of p2 and with the last result of the sequential evaluation —
     i.e. what the model computes for a joined input is the fold of the
     per-statement step `exec_stmt`, the form C07_fold_any_folds needs.
   What the VM model cannot express: resuming a machine at its old instruction
   pointer after MORE code has been appended (Machine.run always starts a complete
   program at minit), so "the incremental session on the machine" is represented
   by the reference semantics' state. *)
From Coq Require Import String List Bool.
From NV Require Import VM.Value VM.Ast VM.Bytecode VM.Compile VM.Machine VM.RefSem VM.Proofs.
Import ListNotations.

Section VmFold.
  Context {Q : Type}.
  Variable O : ops Q.

  (* compile_statement is applied statement by statement to one compiler state *)
  Lemma cstmts_app : forall (p1 p2 : program Q) st, cstmts (p1 ++ p2) st = cstmts p2 (cstmts p1 st).
  Proof. intros. unfold cstmts. apply fold_left_app. Qed.

  Notation sexec := (exec_stmts O (true, true)).

  Lemma exec_stmts_app : forall n (p1 p2 : program Q) st,
      sexec n (p1 ++ p2) st = bind (sexec n p1 st) (sexec n p2).
  Proof.
    intros n p1. induction p1 as [|s r IH]; intros p2 st; [reflexivity|].
    cbn [app exec_stmts].
    destruct (exec_stmt O (true, true) n s st); cbn [bind]; try reflexivity.
    apply IH.
  Qed.

  (* the printed lines only grow: the prints of a joined input are those of the first part
     followed by those of the second *)
  Lemma exec_stmt_out_grows : forall n s st st',
      exec_stmt O (true, true) n s st = Ok st' -> exists d, r_out st' = r_out st ++ d.
  Proof.
    intros n s st st' H. destruct s; cbn [exec_stmt] in H;
      repeat match type of H with
             | bind ?r _ = Ok _ => destruct r eqn:?; cbn [bind] in H; try discriminate
             | match ?r with _ => _ end = Ok _ => destruct r eqn:?; try discriminate
             end;
      try (inversion H; subst; cbn; first [exists []; now rewrite app_nil_r | eexists; reflexivity]).
  Qed.

  Lemma exec_stmts_out_grows : forall n p st st', sexec n p st = Ok st' -> exists d, r_out st' = r_out st ++ d.
  Proof.
    intros n p. induction p as [|s r IH]; intros st st' H.
    - inversion H; subst. exists []. now rewrite app_nil_r.
    - cbn [exec_stmts] in H.
      destruct (exec_stmt O (true, true) n s st) as [st1| | |] eqn:E; cbn [bind] in H; try discriminate.
      destruct (exec_stmt_out_grows _ _ _ _ E) as [d1 H1]. destruct (IH _ _ H) as [d2 H2].
      exists (d1 ++ d2). now rewrite H2, H1, app_assoc.
  Qed.

  (* the joined program on the machine = the sequential (folded) reference evaluation *)
  Theorem vm_joined_is_fold :
    forall (p1 p2 : program Q) n st1 st2,
      compile_ok (compile (procs O) (p1 ++ p2)) = true ->
      sexec n p1 (rinit) = Ok st1 ->
      sexec n p2 st1 = Ok st2 ->
      exists m, Machine.run O (compile (procs O) (p1 ++ p2)) m = Ok (r_out st2, r_res st2).
  Proof.
    intros p1 p2 n st1 st2 Hok H1 H2.
    apply (compile_correct O (p1 ++ p2) n (r_out st2) (r_res st2) Hok).
    unfold run_ref, run. rewrite exec_stmts_app, H1. cbn [bind]. rewrite H2. reflexivity.
  Qed.
End VmFold.
