(* Session/Context.v — executable model of the control flow of
   numbat/src/lib.rs Context::interpret_with_settings: which components are
   snapshotted before, and assigned back after, each failing stage.
   No proofs here (Session/ContextProofs.v).

   The three stages are parameters with exactly the frame conditions Rust's
   borrows give them:
     transform : &mut Transformer, statements         -> Result<transformed>
     check     : &mut TypeChecker, &transformed       -> Result<typed>
     run       : &mut BytecodeInterpreter, &Transformer, &TypeChecker, &typed,
                 print_fn                             -> Result<InterpreterResult>
   A failing stage may leave its own &mut component in ANY state (the model
   returns that dirty state and the control flow decides whether it is kept).
   `resolve` is the concrete Session/Resolver.v.

   Which restores the source performs is a parameter too (`skeleton`), so that
   the theorems say precisely which restores the property needs;
   Gen/CtxSkeleton.v is re-derived from lib.rs on every run and must satisfy
   `sk_complete`.

   Not modelled: the load_currency_module_on_demand branch (the flag is false
   for Context::new; see design/session.md). *)
From Coq Require Import List Bool.
From NV Require Import Session.Resolver.
Import ListNotations.

(* Which components lib.rs assigns back on each error path.
   imp = resolver.imported_modules, A = prefix_transformer, B = typechecker,
   C = interpreter. *)
Record skeleton : Type := mkSk {
  sk_res_imp : bool;                                  (* resolver error *)
  sk_nam_A : bool; sk_nam_imp : bool;                  (* name-resolution error *)
  sk_typ_A : bool; sk_typ_B : bool; sk_typ_imp : bool; (* type-check error *)
  sk_run_A : bool; sk_run_B : bool; sk_run_C : bool; sk_run_imp : bool (* run-time error *)
}.

Definition sk_complete (k : skeleton) : bool :=
  sk_res_imp k && sk_nam_A k && sk_nam_imp k && sk_typ_A k && sk_typ_B k && sk_typ_imp k
  && sk_run_A k && sk_run_B k && sk_run_C k && sk_run_imp k.

(* the pinned tree before the repair of finding C06-import-not-rolled-back *)
Definition sk_before_fix : skeleton :=
  mkSk false true false true true false true true true false.
Definition sk_all : skeleton :=
  mkSk true true true true true true true true true true.

Section Context.
  Variable M : Type.
  Variable M_eqb : M -> M -> bool.
  Variable Code : Type.
  Variable S : Type.
  Variable importer : M -> option Code.
  Variable parse : Code -> option (list (stmt M S)).

  Variables A B C : Type.        (* Transformer, TypeChecker, BytecodeInterpreter *)
  Variables T1 T2 : Type.        (* transformed / typed statement lists *)
  Variables EA EB EC : Type.     (* NameResolutionError, TypeCheckError, RuntimeError *)
  Variables V P : Type.          (* InterpreterResult, printed markup *)

  Variable transform : A -> list S -> A * (T1 + EA).
  Variable check : B -> T1 -> B * (T2 + EB).
  Variable run : C -> A -> B -> T2 -> C * (V + EC) * list P.

  Notation resolver := (resolver M Code).

  Record ctx : Type := mkCtx { cA : A; cB : B; cC : C; cR : resolver }.

  Inductive failure : Type :=
  | FResolver (e : rerror M)
  | FOutOfFuel                      (* modelling artefact, see Resolver.v *)
  | FName (e : EA)
  | FType (e : EB)
  | FRuntime (e : EC).

  Inductive outcome : Type :=
  | Done (v : V) (prints : list P)
  | Fail (f : failure) (prints : list P).   (* prints made before a run-time error *)

  Definition keep_or_restore {X} (restore : bool) (old new : X) : X :=
    if restore then old else new.

  Definition set_imported (restore : bool) (old : list M) (r : resolver) : resolver :=
    if restore then restore_imported M Code r old else r.

  (* Context::interpret_with_settings *)
  Definition interpret (k : skeleton) (fuel : nat) (c : ctx) (code : Code)
             (cs : code_source M) : ctx * outcome :=
    let imp_old := imported M Code (cR c) in
    let (r1, res) := resolve M M_eqb Code S importer parse fuel (cR c) code cs in
    match res with
    | RErr e => (mkCtx (cA c) (cB c) (cC c) (set_imported (sk_res_imp k) imp_old r1),
                 Fail (FResolver e) [])
    | RFuel => (mkCtx (cA c) (cB c) (cC c) (set_imported (sk_res_imp k) imp_old r1),
                Fail FOutOfFuel [])
    | ROk statements =>
        let a_old := cA c in
        let (a1, ra) := transform (cA c) statements in
        match ra with
        | inr e =>
            (mkCtx (keep_or_restore (sk_nam_A k) a_old a1) (cB c) (cC c)
                   (set_imported (sk_nam_imp k) imp_old r1),
             Fail (FName e) [])
        | inl transformed =>
            let b_old := cB c in
            let (b1, rb) := check (cB c) transformed in
            match rb with
            | inr e =>
                (mkCtx (keep_or_restore (sk_typ_A k) a_old a1)
                       (keep_or_restore (sk_typ_B k) b_old b1) (cC c)
                       (set_imported (sk_typ_imp k) imp_old r1),
                 Fail (FType e) [])
            | inl typed =>
                let c_old := cC c in
                let '(c1, rc, prints) := run (cC c) a1 b1 typed in
                match rc with
                | inr e =>
                    (mkCtx (keep_or_restore (sk_run_A k) a_old a1)
                           (keep_or_restore (sk_run_B k) b_old b1)
                           (keep_or_restore (sk_run_C k) c_old c1)
                           (set_imported (sk_run_imp k) imp_old r1),
                     Fail (FRuntime e) prints)
                | inl v => (mkCtx a1 b1 c1 r1, Done v prints)
                end
            end
        end
    end.

  (* a session: inputs submitted one after the other on the same Context *)
  Definition input : Type := (nat * Code * code_source M)%type.

  Fixpoint session (k : skeleton) (c : ctx) (inputs : list input) : ctx * list outcome :=
    match inputs with
    | [] => (c, [])
    | (fuel, code, cs) :: rest =>
        let (c1, o) := interpret k fuel c code cs in
        let (c2, os) := session k c1 rest in
        (c2, o :: os)
    end.

  Definition is_fail (o : outcome) : bool :=
    match o with Fail _ _ => true | Done _ _ => false end.

End Context.
