(* Session/Resolver.v — executable model of numbat/src/resolver.rs
   (Resolver::add_code_source, Resolver::inlining_pass, Resolver::resolve).
   No proofs here (Session/ResolverProofs.v).

   Abstractions (all are modelling assumptions, listed in design/session.md):
   * module paths are an arbitrary type M with a boolean equality (Rust compares
     Vec<CompactString> with Vec<&str> element-wise);
   * source text is an arbitrary type Code; `importer` is ModuleImporter::import
     and `parse` is parser::parse.  Spans / code_source ids inside statements are
     not modelled: the parser is a function of the text only (the id only labels
     diagnostics);
   * statements other than `use` are an arbitrary type S;
   * Rust's recursion `inlining_pass -> inlining_pass` is not structural (it
     follows the module graph, and terminates only because imported_modules
     grows).  The model takes a fuel for the NESTING DEPTH of imports and has an
     explicit out-of-fuel outcome RFuel; ResolverProofs.v proves that for a
     finite module table fuel = number of modules + 1 is never exhausted. *)
From Coq Require Import List Bool.
Import ListNotations.

Section Resolver.
  Variable M : Type.
  Variable M_eqb : M -> M -> bool.
  Variable Code : Type.
  Variable S : Type.

  Inductive stmt : Type :=
  | SUse (m : M)          (* Statement::ModuleImport *)
  | SOther (s : S).       (* anything else *)

  (* resolver.rs enum CodeSource (paths dropped) *)
  Inductive code_source : Type :=
  | CSText | CSInternal | CSFile | CSModule (m : M).

  (* the code_source_name computed in add_code_source *)
  Inductive label : Type :=
  | LText (n : nat) | LInternal (n : nat) | LFile | LModule (m : M).

  Inductive rerror : Type :=
  | UnknownModule (m : M)
  | ParseErrors.

  Inductive rres : Type :=
  | ROk (p : list S)
  | RErr (e : rerror)
  | RFuel.

  Variable importer : M -> option Code.
  Variable parse : Code -> option (list stmt).

  (* struct Resolver; SimpleFiles ids are positions in `files` *)
  Record resolver : Type := mkR {
    files : list (label * Code);
    text_count : nat;
    internal_count : nat;
    imported : list M;                       (* imported_modules *)
    codesources : list (nat * code_source)   (* HashMap<usize, CodeSource> *)
  }.

  Definition new_resolver : resolver := mkR [] 0 0 [] [].

  (* Resolver::add_code_source *)
  Definition add_code_source (r : resolver) (cs : code_source) (content : Code)
    : resolver * nat :=
    let '(lbl, tc, ic) :=
      match cs with
      | CSText => (LText (Datatypes.S (text_count r)), Datatypes.S (text_count r), internal_count r)
      | CSInternal => (LInternal (Datatypes.S (internal_count r)), text_count r, Datatypes.S (internal_count r))
      | CSFile => (LFile, text_count r, internal_count r)
      | CSModule m => (LModule m, text_count r, internal_count r)
      end in
    let id := length (files r) in
    (mkR (files r ++ [(lbl, content)]) tc ic (imported r) ((id, cs) :: codesources r), id).

  Definition is_imported (r : resolver) (m : M) : bool :=
    existsb (fun x => M_eqb x m) (imported r).

  Definition push_imported (r : resolver) (m : M) : resolver :=
    mkR (files r) (text_count r) (internal_count r) (imported r ++ [m]) (codesources r).

  (* Resolver::inlining_pass.  `inline_loop` is the `for statement in program`
     loop with its accumulator new_program; `rec` is the recursive call of
     inlining_pass on the imported program. *)
  Fixpoint inline_loop (rec : resolver -> list stmt -> resolver * rres)
           (r : resolver) (program : list stmt) (acc : list S) {struct program}
    : resolver * rres :=
    match program with
    | [] => (r, ROk acc)
    | SOther s :: rest => inline_loop rec r rest (acc ++ [s])
    | SUse m :: rest =>
        if is_imported r m then inline_loop rec r rest acc
        else
          match importer m with
          | None => (r, RErr (UnknownModule m))
          | Some code =>
              let r1 := push_imported r m in
              let r2 := fst (add_code_source r1 (CSModule m) code) in
              match parse code with
              | None => (r2, RErr ParseErrors)
              | Some imported_program =>
                  match rec r2 imported_program with
                  | (r3, ROk inlined) => inline_loop rec r3 rest (acc ++ inlined)
                  | (r3, e) => (r3, e)
                  end
              end
          end
    end.

  Fixpoint inlining_pass (fuel : nat) (r : resolver) (program : list stmt)
    : resolver * rres :=
    match fuel with
    | 0 => (r, RFuel)
    | Datatypes.S f => inline_loop (inlining_pass f) r program []
    end.

  (* Resolver::resolve *)
  Definition resolve (fuel : nat) (r : resolver) (code : Code) (cs : code_source)
    : resolver * rres :=
    let r1 := fst (add_code_source r cs code) in
    match parse code with
    | None => (r1, RErr ParseErrors)
    | Some statements => inlining_pass fuel r1 statements
    end.

  (* what lib.rs does after the repair: put the old imported_modules back *)
  Definition restore_imported (r : resolver) (old : list M) : resolver :=
    mkR (files r) (text_count r) (internal_count r) old (codesources r).

End Resolver.

Arguments SUse {M S}.
Arguments SOther {M S}.
Arguments CSText {M}.
Arguments CSInternal {M}.
Arguments CSFile {M}.
Arguments CSModule {M}.
Arguments ROk {M S}.
Arguments RErr {M S}.
Arguments RFuel {M S}.
Arguments UnknownModule {M}.
Arguments ParseErrors {M}.
