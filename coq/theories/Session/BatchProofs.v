(* Session/BatchProofs.v — C07: submitting two inputs one after the other, or
   joined as one input, ends in equivalent sessions with the same printed output
   and result — PROVIDED the stages are folds over the statement list (the
   hypotheses of Section Batch; they describe how prefix_transformer.rs,
   typechecker and bytecode_interpreter/vm process a statement list, and are
   validated against the implementation by the correspondence check, not proved
   from the Rust code), and the parser reads the joined text as the
   concatenation of the two statement lists. *)
From Coq Require Import List Bool.
From NV Require Import Session.Resolver Session.ResolverProofs Session.Context Session.ContextProofs.
Import ListNotations.

Section ResolverBatch.
  Variable M : Type.
  Variable M_eqb : M -> M -> bool.
  Variable Code : Type.
  Variable S : Type.
  Variable importer : M -> option Code.
  Variable parse : Code -> option (list (stmt M S)).

  Notation resolver := (resolver M Code).
  Notation rres := (rres M S).
  Notation inline_loop := (inline_loop M M_eqb Code S importer parse).
  Notation inlining_pass := (inlining_pass M M_eqb Code S importer parse).
  Notation loop_nil := (loop_nil M M_eqb Code S importer parse).
  Notation loop_other := (loop_other M M_eqb Code S importer parse).
  Notation loop_use := (loop_use M M_eqb Code S importer parse).

  Definition with_acc (acc : list S) (x : resolver * rres) : resolver * rres :=
    match x with
    | (r', ROk out) => (r', ROk (acc ++ out))
    | other => other
    end.

  Lemma loop_acc :
    forall rec p r acc, inline_loop rec r p acc = with_acc acc (inline_loop rec r p []).
  Proof.
    intros rec p. induction p as [|st rest IH]; intros r acc.
    - rewrite !loop_nil. cbn. now rewrite app_nil_r.
    - destruct st as [m | s].
      + rewrite !loop_use. destruct (is_imported M M_eqb Code r m); [apply IH|].
        destruct (importer m) as [code|]; [|reflexivity]. cbv zeta.
        destruct (parse code) as [ip|]; [|reflexivity].
        destruct (rec _ ip) as [r3 x]. destruct x as [inl_| |]; try reflexivity.
        rewrite (IH r3 (acc ++ inl_)), (IH r3 ([] ++ inl_)). cbn [app].
        destruct (inline_loop rec r3 rest []) as [r4 y]. destruct y; cbn; try reflexivity.
        now rewrite app_assoc.
      + rewrite !loop_other. rewrite (IH r (acc ++ [s])), (IH r ([] ++ [s])). cbn [app].
        destruct (inline_loop rec r rest []) as [r4 y]. destruct y; cbn; try reflexivity.
        now rewrite <- app_assoc.
  Qed.

  Lemma loop_app :
    forall rec p1 p2 r acc,
      inline_loop rec r (p1 ++ p2) acc =
      match inline_loop rec r p1 acc with
      | (r1, ROk out1) => inline_loop rec r1 p2 out1
      | other => other
      end.
  Proof.
    intros rec p1. induction p1 as [|st rest IH]; intros p2 r acc.
    - cbn [app]. now rewrite loop_nil.
    - cbn [app]. destruct st as [m | s].
      + rewrite !loop_use. destruct (is_imported M M_eqb Code r m); [apply IH|].
        destruct (importer m) as [code|]; [|reflexivity]. cbv zeta.
        destruct (parse code) as [ip|]; [|reflexivity].
        destruct (rec _ ip) as [r3 x]. destruct x as [inl_| |]; try reflexivity. apply IH.
      + rewrite !loop_other. apply IH.
  Qed.

  (* one pass over p1 ++ p2 = a pass over p1 followed by a pass over p2 *)
  Lemma pass_app :
    forall fuel p1 p2 r r1 o1 r2 o2,
      inlining_pass fuel r p1 = (r1, ROk o1) ->
      inlining_pass fuel r1 p2 = (r2, ROk o2) ->
      inlining_pass fuel r (p1 ++ p2) = (r2, ROk (o1 ++ o2)).
  Proof.
    intros fuel p1 p2 r r1 o1 r2 o2 H1 H2. destruct fuel as [|f]; [discriminate|].
    rewrite (pass_S M M_eqb Code S importer parse) in *.
    rewrite loop_app, H1. rewrite loop_acc, H2. reflexivity.
  Qed.
End ResolverBatch.

Section Batch.
  Variable M : Type.
  Variable M_eqb : M -> M -> bool.
  Variable Code : Type.
  Variable S : Type.
  Variable importer : M -> option Code.
  Variable parse : Code -> option (list (stmt M S)).
  Variables A B C X1 X2 EA EB EC V P : Type.
  Variable transform : A -> list S -> A * (list X1 + EA).
  Variable check : B -> list X1 -> B * (list X2 + EB).
  Variable run : C -> A -> B -> list X2 -> C * (V + EC) * list P.
  Variable cat : Code -> Code -> Code.          (* a ++ "\n" ++ b *)
  Variable vmerge : V -> V -> V.                (* result of the joined input: the last value *)

  (* the parser reads the joined text as the two statement lists in sequence *)
  Hypothesis parse_cat :
    forall a b pa pb, parse a = Some pa -> parse b = Some pb -> parse (cat a b) = Some (pa ++ pb).
  (* the stages are folds over the statement list *)
  Hypothesis transform_app :
    forall a s1 s2 a1 t1 a2 t2,
      transform a s1 = (a1, inl t1) -> transform a1 s2 = (a2, inl t2) ->
      transform a (s1 ++ s2) = (a2, inl (t1 ++ t2)).
  Hypothesis check_app :
    forall b s1 s2 b1 t1 b2 t2,
      check b s1 = (b1, inl t1) -> check b1 s2 = (b2, inl t2) ->
      check b (s1 ++ s2) = (b2, inl (t1 ++ t2)).
  (* compile-and-run continues from where the machine stopped; it may consult
     the name tables, but later definitions do not change how earlier
     statements run *)
  Hypothesis run_app :
    forall c a1 b1 a2 b2 t1 t2 c1 v1 p1 c2 v2 p2,
      run c a1 b1 t1 = (c1, inl v1, p1) -> run c1 a2 b2 t2 = (c2, inl v2, p2) ->
      run c a2 b2 (t1 ++ t2) = (c2, inl (vmerge v1 v2), p1 ++ p2).

  Notation ctx := (ctx M Code A B C).
  Notation interpret := (interpret M M_eqb Code S importer parse A B C (list X1) (list X2) EA EB EC V P
                                   transform check run).
  Notation ctx_eqv := (ctx_eqv M Code A B C).

  Theorem batched_equals_incremental :
    forall k fuel c a b cs c1 v1 p1 c2 v2 p2,
      interpret k fuel c a cs = (c1, Done M EA EB EC V P v1 p1) ->
      interpret k fuel c1 b cs = (c2, Done M EA EB EC V P v2 p2) ->
      exists c2',
        interpret k fuel c (cat a b) cs = (c2', Done M EA EB EC V P (vmerge v1 v2) (p1 ++ p2))
        /\ ctx_eqv c2' c2.
  Proof.
    intros k fuel c a b cs c1 v1 p1 c2 v2 p2 H1 H2.
    unfold Context.interpret in H1, H2 |- *. unfold Resolver.resolve in *.
    destruct (parse a) as [pa|] eqn:Pa.
    2:{ cbn in H1. inversion H1. }
    destruct (parse b) as [pb|] eqn:Pb.
    2:{ cbn in H2. inversion H2. }
    rewrite (parse_cat a b pa pb Pa Pb).
    set (ra := fst (add_code_source M Code (cR M Code A B C c) cs a)) in *.
    set (rb := fst (add_code_source M Code (cR M Code A B C c1) cs b)) in *.
    set (rab := fst (add_code_source M Code (cR M Code A B C c) cs (cat a b))).
    destruct (inlining_pass M M_eqb Code S importer parse fuel ra pa) as [r1 x1] eqn:Ea.
    destruct x1 as [oa| |]; try (inversion H1; fail).
    destruct (transform (cA M Code A B C c) oa) as [a1 [t1|ea]] eqn:Ta; try (inversion H1; fail).
    destruct (check (cB M Code A B C c) t1) as [b1 [u1|eb]] eqn:Ca; try (inversion H1; fail).
    destruct (run (cC M Code A B C c) a1 b1 u1) as [[cc1 [w1|ec]] q1] eqn:Ra; try (inversion H1; fail).
    inversion H1; subst c1 w1 q1. clear H1. cbn [cA cB cC cR] in *.
    destruct (inlining_pass M M_eqb Code S importer parse fuel rb pb) as [r2 x2] eqn:Eb.
    destruct x2 as [ob| |]; try (inversion H2; fail).
    destruct (transform a1 ob) as [a2 [t2|ea]] eqn:Tb; try (inversion H2; fail).
    destruct (check b1 t2) as [b2 [u2|eb]] eqn:Cb; try (inversion H2; fail).
    destruct (run cc1 a2 b2 u2) as [[cc2 [w2|ec]] q2] eqn:Rb; try (inversion H2; fail).
    inversion H2; subst c2 w2 q2. clear H2.
    (* resolver: rab ~ ra, and r1 ~ rb on imported_modules *)
    assert (Iab : imported M Code rab = imported M Code ra).
    { unfold rab, ra. now rewrite !add_code_source_imported. }
    pose proof (inlining_pass_eqv M M_eqb Code S importer parse fuel rab ra pa Iab) as [Ei1 Es1].
    rewrite Ea in Ei1, Es1. cbn [fst snd] in Ei1, Es1.
    destruct (inlining_pass M M_eqb Code S importer parse fuel rab pa) as [r1' y1] eqn:Ea'.
    cbn [fst snd] in Ei1, Es1. subst y1.
    assert (I1b : imported M Code r1' = imported M Code rb).
    { rewrite Ei1. unfold rb. now rewrite add_code_source_imported. }
    pose proof (inlining_pass_eqv M M_eqb Code S importer parse fuel r1' rb pb I1b) as [Ei2 Es2].
    rewrite Eb in Ei2, Es2. cbn [fst snd] in Ei2, Es2.
    destruct (inlining_pass M M_eqb Code S importer parse fuel r1' pb) as [r2' y2] eqn:Eb'.
    cbn [fst snd] in Ei2, Es2. subst y2.
    rewrite (pass_app M M_eqb Code S importer parse fuel pa pb rab r1' oa r2' ob Ea' Eb').
    rewrite (transform_app _ _ _ _ _ _ _ Ta Tb).
    rewrite (check_app _ _ _ _ _ _ _ Ca Cb).
    rewrite (run_app _ _ _ _ _ _ _ _ _ _ _ _ _ Ra Rb).
    eexists. split; [reflexivity|]. repeat split; exact Ei2.
  Qed.
End Batch.
