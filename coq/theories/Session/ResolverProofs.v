(* Session/ResolverProofs.v — facts about the resolver model used by C06/C07
   (the result of `resolve` depends on the resolver state only through
   imported_modules; files only grow) .  The module-graph theorems of C17 are in
   Session/ImportProofs.v. *)
From Coq Require Import List Bool Arith Lia.
From NV Require Import Session.Resolver.
Import ListNotations.

Section ResolverProofs.
  Variable M : Type.
  Variable M_eqb : M -> M -> bool.
  Variable Code : Type.
  Variable S : Type.
  Variable importer : M -> option Code.
  Variable parse : Code -> option (list (stmt M S)).

  Notation resolver := (resolver M Code).
  Notation rres := (rres M S).
  Notation imported := (imported M Code).
  Notation files := (files M Code).
  Notation inline_loop := (inline_loop M M_eqb Code S importer parse).
  Notation inlining_pass := (inlining_pass M M_eqb Code S importer parse).
  Notation resolve := (resolve M M_eqb Code S importer parse).
  Notation add_code_source := (add_code_source M Code).
  Notation push_imported := (push_imported M Code).
  Notation is_imported := (is_imported M M_eqb Code).

  (* one-step unfoldings (so that proofs never `simpl` into add_code_source) *)
  Lemma loop_nil : forall rec r acc, inline_loop rec r [] acc = (r, ROk acc).
  Proof. reflexivity. Qed.
  Lemma loop_other : forall rec r s rest acc,
      inline_loop rec r (SOther s :: rest) acc = inline_loop rec r rest (acc ++ [s]).
  Proof. reflexivity. Qed.
  Lemma loop_use : forall rec r m rest acc,
      inline_loop rec r (SUse m :: rest) acc =
      if is_imported r m then inline_loop rec r rest acc
      else match importer m with
           | None => (r, RErr (UnknownModule m))
           | Some code =>
               let r2 := fst (add_code_source (push_imported r m) (CSModule m) code) in
               match parse code with
               | None => (r2, RErr ParseErrors)
               | Some ip =>
                   match rec r2 ip with
                   | (r3, ROk inlined) => inline_loop rec r3 rest (acc ++ inlined)
                   | (r3, e) => (r3, e)
                   end
               end
           end.
  Proof. reflexivity. Qed.
  Lemma pass_0 : forall r p, inlining_pass 0 r p = (r, RFuel).
  Proof. reflexivity. Qed.
  Lemma pass_S : forall f r p, inlining_pass (Datatypes.S f) r p = inline_loop (inlining_pass f) r p [].
  Proof. reflexivity. Qed.

  (* ---- the result depends on the state only through imported_modules ---- *)
  Definition res_eqv (x y : resolver * rres) : Prop :=
    imported (fst x) = imported (fst y) /\ snd x = snd y.

  Lemma add_code_source_imported :
    forall r cs code, imported (fst (add_code_source r cs code)) = imported r.
  Proof. intros r [] code; reflexivity. Qed.

  Lemma is_imported_eqv : forall r r' m, imported r = imported r' -> is_imported r m = is_imported r' m.
  Proof. intros r r' m E. unfold Resolver.is_imported. now rewrite E. Qed.

  Lemma push_add_imported : forall r m code,
      imported (fst (add_code_source (push_imported r m) (CSModule m) code)) = imported r ++ [m].
  Proof. intros. rewrite add_code_source_imported. reflexivity. Qed.

  Lemma inline_loop_eqv :
    forall rec rec' : resolver -> list (stmt M S) -> resolver * rres,
      (forall r r' p, imported r = imported r' -> res_eqv (rec r p) (rec' r' p)) ->
      forall p r r' acc, imported r = imported r' ->
        res_eqv (inline_loop rec r p acc) (inline_loop rec' r' p acc).
  Proof.
    intros rec rec' Hrec p. induction p as [|st rest IH]; intros r r' acc E.
    - rewrite !loop_nil. split; [exact E | reflexivity].
    - destruct st as [m | s].
      + rewrite !loop_use. rewrite <- (is_imported_eqv r r' m E).
        destruct (is_imported r m).
        * apply IH; exact E.
        * destruct (importer m) as [code|].
          2:{ split; [exact E | reflexivity]. }
          cbv zeta.
          assert (E2 : imported (fst (add_code_source (push_imported r m) (CSModule m) code))
                       = imported (fst (add_code_source (push_imported r' m) (CSModule m) code))).
          { rewrite !push_add_imported. now rewrite E. }
          destruct (parse code) as [ip|].
          2:{ split; [exact E2 | reflexivity]. }
          specialize (Hrec _ _ ip E2). destruct Hrec as [Hi Hs].
          destruct (rec _ ip) as [r3 x]. destruct (rec' _ ip) as [r3' x'].
          simpl in Hi, Hs. subst x'.
          destruct x; try (split; [exact Hi | reflexivity]).
          apply IH; exact Hi.
      + rewrite !loop_other. apply IH; exact E.
  Qed.

  Lemma inlining_pass_eqv :
    forall fuel r r' p, imported r = imported r' ->
      res_eqv (inlining_pass fuel r p) (inlining_pass fuel r' p).
  Proof.
    induction fuel as [|f IH]; intros r r' p E.
    - rewrite !pass_0. split; [exact E | reflexivity].
    - rewrite !pass_S. apply inline_loop_eqv; [exact IH | exact E].
  Qed.

  Lemma resolve_eqv_gen :
    forall fuel r r' code code' cs cs', imported r = imported r' -> parse code = parse code' ->
      res_eqv (resolve fuel r code cs) (resolve fuel r' code' cs').
  Proof.
    intros fuel r r' code code' cs cs' E Ep. unfold Resolver.resolve. rewrite <- Ep.
    destruct (parse code).
    - apply inlining_pass_eqv. now rewrite !add_code_source_imported.
    - split; [cbn [fst]; now rewrite !add_code_source_imported | reflexivity].
  Qed.

  Lemma resolve_eqv_cs :
    forall fuel r r' code cs cs', imported r = imported r' ->
      res_eqv (resolve fuel r code cs) (resolve fuel r' code cs').
  Proof. intros. now apply resolve_eqv_gen. Qed.

  Lemma resolve_eqv :
    forall fuel r r' code cs, imported r = imported r' ->
      res_eqv (resolve fuel r code cs) (resolve fuel r' code cs).
  Proof. intros. now apply resolve_eqv_cs. Qed.

  (* ---- files (source labels for diagnostics) only grow ---- *)
  Definition files_grow (r r' : resolver) : Prop :=
    exists extra, files r' = files r ++ extra.

  Lemma files_grow_refl : forall r, files_grow r r.
  Proof. intro r. exists []. now rewrite app_nil_r. Qed.

  Lemma files_grow_trans : forall a b c, files_grow a b -> files_grow b c -> files_grow a c.
  Proof.
    intros a b c [x Hx] [y Hy]. exists (x ++ y). now rewrite Hy, Hx, app_assoc.
  Qed.

  Lemma add_code_source_grow : forall r cs code, files_grow r (fst (add_code_source r cs code)).
  Proof. intros r [] code; eexists; reflexivity. Qed.

  Lemma inline_loop_grow :
    forall rec : resolver -> list (stmt M S) -> resolver * rres,
      (forall r p, files_grow r (fst (rec r p))) ->
      forall p r acc, files_grow r (fst (inline_loop rec r p acc)).
  Proof.
    intros rec Hrec p. induction p as [|st rest IH]; intros r acc.
    - rewrite loop_nil. apply files_grow_refl.
    - destruct st as [m | s]; [|rewrite loop_other; apply IH].
      rewrite loop_use.
      destruct (is_imported r m); [apply IH|].
      destruct (importer m) as [code|]; [|apply files_grow_refl].
      cbv zeta.
      assert (G : files_grow r (fst (add_code_source (push_imported r m) (CSModule m) code))).
      { destruct (add_code_source_grow (push_imported r m) (CSModule m) code) as [x Hx].
        exists x. exact Hx. }
      destruct (parse code) as [ip|]; [|exact G].
      specialize (Hrec (fst (add_code_source (push_imported r m) (CSModule m) code)) ip).
      destruct (rec _ ip) as [r3 x]. simpl in Hrec.
      assert (G3 : files_grow r r3) by (eapply files_grow_trans; eassumption).
      destruct x; try exact G3.
      eapply files_grow_trans; [exact G3 | apply IH].
  Qed.

  Lemma inlining_pass_grow :
    forall fuel r p, files_grow r (fst (inlining_pass fuel r p)).
  Proof.
    induction fuel as [|f IH]; intros r p.
    - rewrite pass_0. apply files_grow_refl.
    - rewrite pass_S. apply inline_loop_grow. exact IH.
  Qed.

  Lemma resolve_grow :
    forall fuel r code cs, files_grow r (fst (resolve fuel r code cs)).
  Proof.
    intros. unfold Resolver.resolve. destruct (parse code).
    - eapply files_grow_trans; [apply add_code_source_grow | apply inlining_pass_grow].
    - apply add_code_source_grow.
  Qed.

End ResolverProofs.
