(* Session/ScopeOrderExec.v — the order-aware scoping theorem instantiated to a
   concrete module table: soundness of the acyclicity checker and the final
   statement for sequences of imports into a fresh session. *)
From Coq Require Import List Bool String Arith Lia Permutation.
From NV Require Import Base.Show Session.Resolver Session.ResolverProofs Session.ImportProofs
     Session.Toy Session.ImportExec Session.ImportExecProofs.
From NV Require Import Session.ScopeOrder.
Import ListNotations.
Local Open Scope list_scope.

Section Exec.
  Variable t : mtable.
  Notation gbody := (body string mprog def (g_importer t) g_parse).
  Notation greach := (reach string mprog def (g_importer t) g_parse).
  Notation gclosed_except := (closed_except string mprog def (g_importer t) g_parse).

  (* import_each computes the reachability closure of its argument *)
  Lemma import_each_closure :
    forall ms r r1,
      gclosed_except [] r -> NoDup (imported string mprog r) ->
      import_each t r ms = (r1, true) ->
      gclosed_except [] r1 /\ NoDup (imported string mprog r1)
      /\ forall m', In m' (imported string mprog r1) <-> In m' (imported string mprog r) \/ greach ms m'.
  Proof.
    induction ms as [|m rest IH]; intros r r1 Hc ND E.
    - cbn in E. inversion E; subst. split; [exact Hc|]. split; [exact ND|]. intro m'. split.
      + intro H. now left.
      + intros [H|H]; [exact H|]. exfalso. clear - H. induction H as [? []|]; assumption.
    - cbn [import_each] in E. unfold g_pass in E.
      destruct (inlining_pass string String.eqb mprog def (g_importer t) g_parse
                  (Datatypes.S (length t)) r [SUse m]) as [r2 x] eqn:Ep.
      destruct x as [o| |]; try discriminate.
      destruct (pass_once string String.eqb string_eqb_spec' mprog def (g_importer t) g_parse
                  (Datatypes.S (length t)) r [SUse m] ND) as (new & A1 & A2 & _).
      rewrite Ep in A1. cbn [fst] in A1.
      pose proof (pass_closed string String.eqb string_eqb_spec' mprog def (g_importer t) g_parse
                    (Datatypes.S (length t)) r [SUse m] [] o Hc) as Hcl.
      rewrite Ep in Hcl. cbn [fst snd] in Hcl. destruct (Hcl eq_refl) as [C2 _].
      pose proof (imported_is_closure string String.eqb string_eqb_spec' mprog def (g_importer t) g_parse
                    _ _ _ _ _ Hc Ep) as Hiff.
      assert (ND2 : NoDup (imported string mprog r2)) by now rewrite A1.
      destruct (IH r2 r1 C2 ND2 E) as (C1 & N1 & I1). split; [exact C1|]. split; [exact N1|]. intro m'. split.
      + intro H. apply I1 in H. destruct H as [H|H].
        * apply Hiff in H. destruct H as [H|H]; [now left|]. right.
          eapply reach_mono; [|exact H]. intros y [<-|[]]. now left.
        * right. eapply reach_mono; [|exact H]. apply incl_tl, incl_refl.
      + intros [H|H]; apply I1.
        * left. apply Hiff. now left.
        * change (m :: rest) with ([m] ++ rest) in H.
          apply (reach_app_iff t) in H. destruct H as [H|H]; [|now right].
          left. apply Hiff. right. exact H.
  Qed.

  Lemma m_uses_uses : forall p, m_uses p = uses string def p.
  Proof. reflexivity. Qed.

  Theorem acyclicb_sound :
    acyclicb t = true -> forall m q, gbody m = Some q -> ~ greach (uses string def q) m.
  Proof.
    intros H m q Hq Hr. rewrite gbody_assoc in Hq. apply assoc_In in Hq.
    unfold acyclicb in H. rewrite forallb_forall in H. specialize (H _ Hq). cbn [fst snd] in H.
    destruct (import_each t (new_resolver string mprog) (m_uses q)) as [r b] eqn:E.
    destruct b; [|discriminate].
    destruct (import_each_closure (m_uses q) (new_resolver string mprog) r) as (_ & _ & I); auto.
    - intros x Hx. destruct Hx.
    - constructor.
    - apply negb_true_iff in H. assert (Hin : In m (imported string mprog r)).
      { apply I. right. exact Hr. }
      apply mem_In in Hin. congruence.
  Qed.

  (* every definition inlined by any sequence of imports into a fresh session finds
     each identifier it uses defined by itself or by a definition inlined BEFORE it *)
  Theorem table_scoped_in_order :
    closedb t = true -> acyclicb t = true ->
    forall ms r1 out,
      import_seq t ms = (r1, ROk out) ->
      forall o1 d o2, out = o1 ++ d :: o2 -> ok_str (fun x => In x o1) d.
  Proof.
    intros Hc Ha ms r1 out E o1 d o2 Eo. unfold import_seq, g_pass in E.
    assert (Tab : forall m q, gbody m = Some q ->
                closed_rel string mprog def (g_importer t) g_parse ok_str (fun _ => False) q).
    { intros m q Hq p1 s p2 Ep. pose proof (closedb_sound t Hc m q Hq p1 s p2 Ep) as H.
      eapply ok_str_mono; [|exact H]. intros x [Hx|(m' & [[]|Hr] & Hx)]; [now left|].
      right. exists m'. split; [now right | exact Hx]. }
    assert (P0 : closed_rel string mprog def (g_importer t) g_parse ok_str
                   (fun m => In m (imported string mprog (new_resolver string mprog))) (use_all ms)).
    { intros p1 s p2 Ep. exfalso. clear - Ep. revert p1 Ep.
      induction ms as [|m r IH]; intros p1 Ep; [destruct p1; discriminate|].
      destruct p1 as [|x p1]; [discriminate|]. cbn in Ep. inversion Ep. eapply IH; eassumption. }
    assert (C0 : gclosed_except [] (new_resolver string mprog)) by (intros m Hm; destruct Hm).
    assert (N0 : NoDup (imported string mprog (new_resolver string mprog))) by constructor.
    pose proof (scoped_in_order string String.eqb string_eqb_spec' mprog def (g_importer t) g_parse
                  ok_str ok_str_mono (acyclicb_sound Ha) Tab _ _ _ _ _ C0 N0 E P0 o1 d o2 Eo) as H.
    eapply ok_str_mono; [|exact H].
    intros x [(m & [] & _)|Hx]. exact Hx.
  Qed.
End Exec.
