(* Session/ImportExecProofs.v — soundness of the boolean side-condition
   checkers of ImportExec.v, the instantiation of the general import theorems
   to a concrete table, and the name-level consequence of order freedom. *)
From Coq Require Import List Bool String Arith Lia Permutation.
From NV Require Import Base.Show Session.Resolver Session.ResolverProofs Session.ImportProofs
     Session.Toy Session.ImportExec.
Import ListNotations.

Lemma string_eqb_spec' : forall a b : string, String.eqb a b = true <-> a = b.
Proof. intros. apply String.eqb_eq. Qed.

Lemma assoc_In : forall {X} m (t : list (string * X)) q, assoc m t = Some q -> In (m, q) t.
Proof.
  intros X m t. induction t as [|[k v] r IH]; intros q H; cbn in *; [discriminate|].
  destruct (String.eqb m k) eqn:E.
  - apply String.eqb_eq in E. inversion H; subst. now left.
  - right. now apply IH.
Qed.

Lemma In_keys_assoc : forall {X} m (t : list (string * X)), In m (map fst t) -> exists q, assoc m t = Some q.
Proof.
  intros X m t. induction t as [|[k v] r IH]; intros H; cbn in *; [destruct H|].
  destruct (String.eqb m k) eqn:E; [eexists; reflexivity|].
  destruct H as [H|H]; [subst; rewrite String.eqb_refl in E; discriminate | now apply IH].
Qed.

Lemma mem_In : forall x l, mem x l = true <-> In x l.
Proof.
  intros x l. unfold mem. rewrite existsb_exists. split.
  - intros [y [Hy E]]. apply String.eqb_eq in E. now subst.
  - intro H. exists x. split; [exact H | apply String.eqb_refl].
Qed.

Lemma nodupb_sound : forall l, nodupb l = true -> NoDup l.
Proof.
  induction l as [|x r IH]; intro H; [constructor|].
  cbn in H. apply andb_true_iff in H. destruct H as [H1 H2]. constructor.
  - intro Hin. apply mem_In in Hin. rewrite Hin in H1. discriminate.
  - now apply IH.
Qed.

Section Table.
  Variable t : mtable.

  Notation gbody := (body string mprog def (g_importer t) g_parse).

  Lemma gbody_assoc : forall m, gbody m = assoc m t.
  Proof. intro m. unfold body, g_importer, g_parse. now destruct (assoc m t). Qed.

  Lemma wf_tableb_sound :
    wf_tableb t = true -> wf_table string mprog def (g_importer t) g_parse.
  Proof.
    intros H m q Hq x Hx. rewrite gbody_assoc in Hq. apply assoc_In in Hq.
    unfold wf_tableb in H. rewrite forallb_forall in H. specialize (H _ Hq). cbn in H.
    rewrite forallb_forall in H. specialize (H x Hx).
    rewrite gbody_assoc. destruct (assoc x t); [eexists; reflexivity | discriminate].
  Qed.

  Lemma known_in_keys : forall m q, gbody m = Some q -> In m (map fst t).
  Proof.
    intros m q H. rewrite gbody_assoc in H. apply assoc_In in H.
    apply in_map_iff. exists (m, q). split; [reflexivity | exact H].
  Qed.

  Lemma uses_use_all : forall ms, uses string def (use_all ms) = ms.
  Proof.
    induction ms as [|m r IH]; [reflexivity|].
    change (use_all (m :: r)) with (SUse (S:=def) m :: use_all r).
    rewrite (uses_cons_use string def). now rewrite IH.
  Qed.

  (* every sequence of imports of modules of a well-formed table succeeds, from
     any resolver state, with the fuel the executable model uses *)
  Theorem table_imports_succeed :
    wf_tableb t = true ->
    forall r ms, (forall m, In m ms -> In m (map fst t)) ->
      exists out, snd (g_pass t r (use_all ms)) = ROk out.
  Proof.
    intros H r ms Hms. unfold g_pass. rewrite <- (map_length fst t).
    apply (import_succeeds_any_state string String.eqb string_eqb_spec' mprog def
             (g_importer t) g_parse (map fst t) (wf_tableb_sound H) known_in_keys).
    intros m Hm. rewrite uses_use_all in Hm. rewrite gbody_assoc.
    now apply In_keys_assoc, Hms.
  Qed.
End Table.

(* name-level consequence: if two inlined programs are permutations of each
   other and no name is defined twice, they define the same map name |-> defining
   statement *)
Section Env.
  Variables (St Name : Type) (defs : St -> list Name).
  Definition env (out : list St) : list (Name * St) :=
    flat_map (fun s => map (fun x => (x, s)) (defs s)) out.

  Lemma env_perm : forall out out', Permutation out out' -> Permutation (env out) (env out').
  Proof. intros. unfold env. now apply Permutation_flat_map. Qed.

  Lemma nodup_fst_functional :
    forall (l : list (Name * St)) x s s', NoDup (map fst l) -> In (x, s) l -> In (x, s') l -> s = s'.
  Proof.
    induction l as [|[k v] r IH]; intros x s s' ND H1 H2; [destruct H1|].
    cbn in ND. inversion ND as [|? ? Hn ND']; subst.
    destruct H1 as [H1|H1]; destruct H2 as [H2|H2].
    - congruence.
    - inversion H1; subst. exfalso. apply Hn. apply in_map_iff. now exists (x, s').
    - inversion H2; subst. exfalso. apply Hn. apply in_map_iff. now exists (x, s).
    - eapply IH; eassumption.
  Qed.

  Theorem env_order_free :
    forall out out', Permutation out out' -> NoDup (map fst (env out)) ->
      (forall x s, In (x, s) (env out) <-> In (x, s) (env out'))
      /\ (forall x s s', In (x, s) (env out) -> In (x, s') (env out') -> s = s').
  Proof.
    intros out out' P ND. pose proof (env_perm _ _ P) as PE. split.
    - intros x s. split; intro H; [eapply Permutation_in; eassumption|].
      eapply Permutation_in; [apply Permutation_sym; eassumption | exact H].
    - intros x s s' H1 H2. eapply nodup_fst_functional; [exact ND | exact H1|].
      eapply Permutation_in; [apply Permutation_sym; eassumption | exact H2].
  Qed.
End Env.

(* two orders of the same module set, each submitted to a fresh resolver *)
Theorem stdlib_order_free :
  forall (t : mtable) ms ms' r1 out1 r2 out2,
    (forall m, In m ms <-> In m ms') ->
    import_seq t ms = (r1, ROk out1) -> import_seq t ms' = (r2, ROk out2) ->
    Permutation (imported string mprog r1) (imported string mprog r2)
    /\ Permutation out1 out2
    /\ forall x s, In (x, s) (env def string def_names out1) <-> In (x, s) (env def string def_names out2).
Proof.
  intros t ms ms' r1 out1 r2 out2 Hs E1 E2. unfold import_seq, g_pass in *.
  assert (Hown : forall l, own string def (use_all l) = []).
  { induction l as [|m r IH]; [reflexivity|]. exact IH. }
  destruct (order_free string String.eqb string_eqb_spec' mprog def (g_importer t) g_parse
              (Datatypes.S (length t)) (Datatypes.S (length t)) (new_resolver string mprog) (use_all ms) (use_all ms') r1 out1 r2 out2)
    as (n1 & n2 & A1 & A2 & _ & _ & P & O1 & O2 & PF); try assumption.
  - intros m H. destruct H.
  - constructor.
  - intro m. rewrite !uses_use_all. apply Hs.
  - rewrite Hown in O1, O2. cbn in O1, O2, A1, A2.
    assert (PO : Permutation out1 out2).
    { eapply Permutation_trans; [exact O1|]. eapply Permutation_trans; [exact PF|].
      apply Permutation_sym. exact O2. }
    split; [rewrite A1, A2; exact P|]. split; [exact PO|].
    intros x s. pose proof (env_perm def string def_names _ _ PO) as PE.
    split; intro H; [eapply Permutation_in; eassumption|].
    eapply Permutation_in; [apply Permutation_sym; eassumption | exact H].
Qed.
