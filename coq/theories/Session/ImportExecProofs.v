(* Session/ImportExecProofs.v — soundness of the boolean side-condition
   checkers of ImportExec.v, the instantiation of the general import theorems
   to a concrete table, and the name-level consequence of order freedom. *)
From Coq Require Import List Bool String Arith Lia Permutation.
From NV Require Import Base.Show Session.Resolver Session.ResolverProofs Session.ImportProofs
     Session.Toy Session.ImportExec.
Import ListNotations.

Lemma string_eqb_spec' : forall a b : string, String.eqb a b = true <-> a = b.
Proof. intros. apply String.eqb_eq. Qed.

Lemma assoc_In : forall {X} m (t : list (string * X)) q, assoc m t = Some q -> In (m, q) t.
Proof.
  intros X m t. induction t as [|[k v] r IH]; intros q H; cbn in *; [discriminate|].
  destruct (String.eqb m k) eqn:E.
  - apply String.eqb_eq in E. inversion H; subst. now left.
  - right. now apply IH.
Qed.

Lemma In_keys_assoc : forall {X} m (t : list (string * X)), In m (map fst t) -> exists q, assoc m t = Some q.
Proof.
  intros X m t. induction t as [|[k v] r IH]; intros H; cbn in *; [destruct H|].
  destruct (String.eqb m k) eqn:E; [eexists; reflexivity|].
  destruct H as [H|H]; [subst; rewrite String.eqb_refl in E; discriminate | now apply IH].
Qed.

Lemma mem_In : forall x l, mem x l = true <-> In x l.
Proof.
  intros x l. unfold mem. rewrite existsb_exists. split.
  - intros [y [Hy E]]. apply String.eqb_eq in E. now subst.
  - intro H. exists x. split; [exact H | apply String.eqb_refl].
Qed.

Lemma nodupb_sound : forall l, nodupb l = true -> NoDup l.
Proof.
  induction l as [|x r IH]; intro H; [constructor|].
  cbn in H. apply andb_true_iff in H. destruct H as [H1 H2]. constructor.
  - intro Hin. apply mem_In in Hin. rewrite Hin in H1. discriminate.
  - now apply IH.
Qed.

Section Table.
  Variable t : mtable.

  Notation gbody := (body string mprog def (g_importer t) g_parse).

  Lemma gbody_assoc : forall m, gbody m = assoc m t.
  Proof. intro m. unfold body, g_importer, g_parse. now destruct (assoc m t). Qed.

  Lemma wf_tableb_sound :
    wf_tableb t = true -> wf_table string mprog def (g_importer t) g_parse.
  Proof.
    intros H m q Hq x Hx. rewrite gbody_assoc in Hq. apply assoc_In in Hq.
    unfold wf_tableb in H. rewrite forallb_forall in H. specialize (H _ Hq). cbn in H.
    rewrite forallb_forall in H. specialize (H x Hx).
    rewrite gbody_assoc. destruct (assoc x t); [eexists; reflexivity | discriminate].
  Qed.

  Lemma known_in_keys : forall m q, gbody m = Some q -> In m (map fst t).
  Proof.
    intros m q H. rewrite gbody_assoc in H. apply assoc_In in H.
    apply in_map_iff. exists (m, q). split; [reflexivity | exact H].
  Qed.

  Lemma uses_use_all : forall ms, uses string def (use_all ms) = ms.
  Proof.
    induction ms as [|m r IH]; [reflexivity|].
    change (use_all (m :: r)) with (SUse (S:=def) m :: use_all r).
    rewrite (uses_cons_use string def). now rewrite IH.
  Qed.

  (* every sequence of imports of modules of a well-formed table succeeds, from
     any resolver state, with the fuel the executable model uses *)
  Theorem table_imports_succeed :
    wf_tableb t = true ->
    forall r ms, (forall m, In m ms -> In m (map fst t)) ->
      exists out, snd (g_pass t r (use_all ms)) = ROk out.
  Proof.
    intros H r ms Hms. unfold g_pass. rewrite <- (map_length fst t).
    apply (import_succeeds_any_state string String.eqb string_eqb_spec' mprog def
             (g_importer t) g_parse (map fst t) (wf_tableb_sound H) known_in_keys).
    intros m Hm. rewrite uses_use_all in Hm. rewrite gbody_assoc.
    now apply In_keys_assoc, Hms.
  Qed.
End Table.

(* name-level consequence: if two inlined programs are permutations of each
   other and no name is defined twice, they define the same map name |-> defining
   statement *)
Section Env.
  Variables (St Name : Type) (defs : St -> list Name).
  Definition env (out : list St) : list (Name * St) :=
    flat_map (fun s => map (fun x => (x, s)) (defs s)) out.

  Lemma env_perm : forall out out', Permutation out out' -> Permutation (env out) (env out').
  Proof. intros. unfold env. now apply Permutation_flat_map. Qed.

  Lemma nodup_fst_functional :
    forall (l : list (Name * St)) x s s', NoDup (map fst l) -> In (x, s) l -> In (x, s') l -> s = s'.
  Proof.
    induction l as [|[k v] r IH]; intros x s s' ND H1 H2; [destruct H1|].
    cbn in ND. inversion ND as [|? ? Hn ND']; subst.
    destruct H1 as [H1|H1]; destruct H2 as [H2|H2].
    - congruence.
    - inversion H1; subst. exfalso. apply Hn. apply in_map_iff. now exists (x, s').
    - inversion H2; subst. exfalso. apply Hn. apply in_map_iff. now exists (x, s).
    - eapply IH; eassumption.
  Qed.

  Theorem env_order_free :
    forall out out', Permutation out out' -> NoDup (map fst (env out)) ->
      (forall x s, In (x, s) (env out) <-> In (x, s) (env out'))
      /\ (forall x s s', In (x, s) (env out) -> In (x, s') (env out') -> s = s').
  Proof.
    intros out out' P ND. pose proof (env_perm _ _ P) as PE. split.
    - intros x s. split; intro H; [eapply Permutation_in; eassumption|].
      eapply Permutation_in; [apply Permutation_sym; eassumption | exact H].
    - intros x s s' H1 H2. eapply nodup_fst_functional; [exact ND | exact H1|].
      eapply Permutation_in; [apply Permutation_sym; eassumption | exact H2].
  Qed.
End Env.

(* two orders of the same module set, each submitted to a fresh resolver *)
Theorem stdlib_order_free :
  forall (t : mtable) ms ms' r1 out1 r2 out2,
    (forall m, In m ms <-> In m ms') ->
    import_seq t ms = (r1, ROk out1) -> import_seq t ms' = (r2, ROk out2) ->
    Permutation (imported string mprog r1) (imported string mprog r2)
    /\ Permutation out1 out2
    /\ forall x s, In (x, s) (env def string def_names out1) <-> In (x, s) (env def string def_names out2).
Proof.
  intros t ms ms' r1 out1 r2 out2 Hs E1 E2. unfold import_seq, g_pass in *.
  assert (Hown : forall l, own string def (use_all l) = []).
  { induction l as [|m r IH]; [reflexivity|]. exact IH. }
  destruct (order_free string String.eqb string_eqb_spec' mprog def (g_importer t) g_parse
              (Datatypes.S (length t)) (Datatypes.S (length t)) (new_resolver string mprog) (use_all ms) (use_all ms') r1 out1 r2 out2)
    as (n1 & n2 & A1 & A2 & _ & _ & P & O1 & O2 & PF); try assumption.
  - intros m H. destruct H.
  - constructor.
  - intro m. rewrite !uses_use_all. apply Hs.
  - rewrite Hown in O1, O2. cbn in O1, O2, A1, A2.
    assert (PO : Permutation out1 out2).
    { eapply Permutation_trans; [exact O1|]. eapply Permutation_trans; [exact PF|].
      apply Permutation_sym. exact O2. }
    split; [rewrite A1, A2; exact P|]. split; [exact PO|].
    intros x s. pose proof (env_perm def string def_names _ _ PO) as PE.
    split; intro H; [eapply Permutation_in; eassumption|].
    eapply Permutation_in; [apply Permutation_sym; eassumption | exact H].
Qed.

(* ---- closedness of a concrete table: the boolean checker closedb (ImportExec.v)
        implies the Prop-level closed_table of ImportProofs.v, for the scoping
        predicate "every free identifier of the definition has an alternative that is
        a name of the definition itself or of a statement of the environment" ---- *)
Local Open Scope list_scope.
Definition ok_str (E : def -> Prop) (d : def) : Prop :=
  forall alts, In alts (def_free d) ->
    exists a, In a alts /\ (In a (def_names d) \/ exists d', E d' /\ In a (def_names d')).

Lemma ok_str_mono : forall (E E' : def -> Prop) d, (forall x, E x -> E' x) -> ok_str E d -> ok_str E' d.
Proof.
  intros E E' d H Hok alts Ha. destruct (Hok alts Ha) as (a & Hin & [Hn|(d' & He & Hd)]).
  - exists a. split; [exact Hin | now left].
  - exists a. split; [exact Hin|]. right. exists d'. split; [now apply H | exact Hd].
Qed.

Lemma skipn_str_app : forall (l new : list string), skipn_str (length l) (l ++ new) = new.
Proof. induction l as [|x r IH]; intro new; [reflexivity | exact (IH new)]. Qed.

Section ClosedTable.
  Variable t : mtable.
  Notation gbody := (body string mprog def (g_importer t) g_parse).
  Notation greach := (reach string mprog def (g_importer t) g_parse).
  Notation gown_of := (own_of string mprog def (g_importer t) g_parse).
  Notation gclosed_except := (closed_except string mprog def (g_importer t) g_parse).

  Lemma m_names_own : forall p, m_names p = flat_map def_names (own string def p).
  Proof.
    unfold m_names, own. induction p as [|[m|d] r IH]; cbn [flat_map app].
    - reflexivity.
    - exact IH.
    - rewrite IH. reflexivity.
  Qed.

  Lemma names_of_modules_spec : forall ms a,
      In a (names_of_modules t ms) <-> exists m d, In m ms /\ In d (gown_of m) /\ In a (def_names d).
  Proof.
    intros ms a. unfold names_of_modules. rewrite in_flat_map.
    assert (Hown : forall m, gown_of m = match assoc m t with Some p => own string def p | None => [] end).
    { intro m. unfold own_of. now rewrite gbody_assoc. }
    split.
    - intros (m & Hm & Ha). destruct (assoc m t) as [p|] eqn:Ea; [|destruct Ha].
      rewrite m_names_own, in_flat_map in Ha. destruct Ha as (d & Hd & Ha).
      exists m, d. rewrite Hown, Ea. auto.
    - intros (m & d & Hm & Hd & Ha). exists m. split; [exact Hm|].
      rewrite Hown in Hd. destruct (assoc m t) as [p|]; [|destruct Hd].
      rewrite m_names_own, in_flat_map. now exists d.
  Qed.

  Lemma reach_app_iff : forall A B m, greach (A ++ B) m <-> greach A m \/ greach B m.
  Proof.
    intros A B m. split.
    - intro H. induction H as [m Hin | m m' p H IH Hb Hu].
      + apply in_app_iff in Hin. destruct Hin; [left | right]; now apply reach_root.
      + destruct IH as [IH|IH]; [left | right]; eapply reach_step; eassumption.
    - intros [H|H]; (eapply reach_mono; [|exact H]); [apply incl_appl | apply incl_appr]; apply incl_refl.
  Qed.

  Definition env_of (r : resolver string mprog) (done_ : mprog) (x : def) : Prop :=
    In x (own string def done_) \/ exists m', greach (uses string def done_) m' /\ In x (gown_of m').

  Lemma closed_items_sound :
    forall items avail r done_,
      gclosed_except [] r -> NoDup (imported string mprog r) ->
      (forall m', In m' (imported string mprog r) <-> greach (uses string def done_) m') ->
      (forall a, In a avail -> exists d, env_of r done_ d /\ In a (def_names d)) ->
      closed_items t avail r items = true ->
      forall p1 s p2, items = p1 ++ SOther s :: p2 -> ok_str (env_of r (done_ ++ p1)) s.
  Proof.
    induction items as [|st rest IH]; intros avail r done_ Hc ND Himp Hav H p1 s p2 E.
    - destruct p1; discriminate.
    - destruct st as [m|d].
      + (* use m *)
        cbn [closed_items] in H. unfold g_pass in H.
        destruct (inlining_pass string String.eqb mprog def (g_importer t) g_parse
                    (Datatypes.S (length t)) r [SUse m]) as [r1 x] eqn:Ep.
        destruct x as [o| |]; try discriminate.
        destruct (pass_once string String.eqb string_eqb_spec' mprog def (g_importer t) g_parse
                    (Datatypes.S (length t)) r [SUse m] ND) as (new & A1 & A2 & _).
        rewrite Ep in A1. cbn [fst] in A1. rewrite A1, skipn_str_app in H.
        pose proof (pass_closed string String.eqb string_eqb_spec' mprog def (g_importer t) g_parse
                      (Datatypes.S (length t)) r [SUse m] [] o Hc) as Hcl.
        rewrite Ep in Hcl. cbn [fst snd] in Hcl. destruct (Hcl eq_refl) as [C1 _].
        pose proof (imported_is_closure string String.eqb string_eqb_spec' mprog def (g_importer t) g_parse
                      _ _ _ _ _ Hc Ep) as Hiff.
        destruct p1 as [|st1 p1']; [discriminate|]. inversion E; subst st1 rest.
        assert (Hd : (done_ ++ SUse m :: p1') = ((done_ ++ [SUse m]) ++ p1')) by now rewrite <- app_assoc.
        rewrite Hd.
        refine (IH (avail ++ names_of_modules t new) r1 (done_ ++ [SUse m]) C1 _ _ _ H p1' s p2 eq_refl).
        * now rewrite A1.
        * intro m'. rewrite Hiff, Himp, (uses_app string def), reach_app_iff. reflexivity.
        * intros a Ha. apply in_app_iff in Ha. destruct Ha as [Ha|Ha].
          -- destruct (Hav a Ha) as (d & [Hd1|(m' & Hr & Hd1)] & Hn); exists d; (split; [|exact Hn]).
             ++ left. rewrite (own_app string def). apply in_app_iff. now left.
             ++ right. exists m'. split; [|exact Hd1]. rewrite (uses_app string def), reach_app_iff. now left.
          -- apply names_of_modules_spec in Ha. destruct Ha as (m' & d & Hm & Hd1 & Hn).
             exists d. split; [|exact Hn]. right. exists m'. split; [|exact Hd1].
             rewrite (uses_app string def), reach_app_iff.
             assert (Hi : In m' (imported string mprog r1)) by (rewrite A1; apply in_app_iff; now right).
             apply Hiff in Hi. destruct Hi as [Hi|Hi]; [left; now apply Himp | now right].
      + (* a definition *)
        cbn [closed_items] in H. apply andb_true_iff in H. destruct H as [H1 H2].
        destruct p1 as [|st1 p1'].
        * inversion E; subst d rest. rewrite app_nil_r.
          intros alts Ha. rewrite forallb_forall in H1. specialize (H1 alts Ha).
          rewrite existsb_exists in H1. destruct H1 as (a & Hin & Hm). apply mem_In in Hm.
          exists a. split; [exact Hin|]. apply in_app_iff in Hm. destruct Hm as [Hm|Hm]; [now left|].
          right. destruct (Hav a Hm) as (d' & He & Hn). now exists d'.
        * inversion E; subst st1 rest.
          assert (Hd : (done_ ++ SOther d :: p1') = ((done_ ++ [SOther d]) ++ p1')) by now rewrite <- app_assoc.
          rewrite Hd.
          refine (IH (avail ++ def_names d) r (done_ ++ [SOther d]) Hc ND _ _ H2 p1' s p2 eq_refl).
          -- intro m'. rewrite Himp, (uses_app string def). cbn. now rewrite app_nil_r.
          -- intros a Ha. apply in_app_iff in Ha. destruct Ha as [Ha|Ha].
             ++ destruct (Hav a Ha) as (d' & [Hd1|(m' & Hr & Hd1)] & Hn); exists d'; (split; [|exact Hn]).
                ** left. rewrite (own_app string def). apply in_app_iff. now left.
                ** right. exists m'. split; [|exact Hd1]. rewrite (uses_app string def). cbn. now rewrite app_nil_r.
             ++ exists d. split; [|exact Ha]. left. rewrite (own_app string def). apply in_app_iff. right. now left.
  Qed.

  Theorem closedb_sound :
    closedb t = true ->
    closed_table string mprog def (g_importer t) g_parse ok_str.
  Proof.
    intros H m q Hq p1 s p2 E. rewrite gbody_assoc in Hq. apply assoc_In in Hq.
    unfold closedb in H. rewrite forallb_forall in H. specialize (H _ Hq). cbn [snd] in H.
    pose proof (closed_items_sound q builtin_names (new_resolver string mprog) []) as S0.
    cbn [app] in S0.
    eapply ok_str_mono; [|eapply (S0 _ _ _ _ H p1 s p2 E)].
    - intros x [Hx|(m' & Hr & Hx)]; [now left|]. right. exists m'. split; [now right | exact Hx].
    Unshelve.
    + intros m0 Hm0 _. destruct Hm0.
    + constructor.
    + intro m'. cbn. split; [intros [] | intro Hr]. exfalso. induction Hr as [? []| ]; assumption.
    + intros a [].
  Qed.
End ClosedTable.

(* every definition inlined by any sequence of imports into a fresh session finds
   each identifier it uses defined by itself or by some definition of the same
   session — whatever the order of the imports *)
Theorem table_defs_available :
  forall t, closedb t = true ->
  forall ms r1 out,
    import_seq t ms = (r1, ROk out) ->
    forall d, In d out -> ok_str (fun x => In x out) d.
Proof.
  intros t Hc ms r1 out E d Hd. unfold import_seq, g_pass in E.
  assert (C0 : closed_except string mprog def (g_importer t) g_parse [] (new_resolver string mprog)).
  { intros m Hm. destruct Hm. }
  assert (N0 : NoDup (imported string mprog (new_resolver string mprog))) by constructor.
  assert (P0 : closed_prog string mprog def (g_importer t) g_parse ok_str
                           (imported string mprog (new_resolver string mprog)) (use_all ms)).
  { intros p1 s p2 Ep. exfalso. clear - Ep. revert p1 Ep.
    induction ms as [|m r IH]; intros p1 Ep; [destruct p1; discriminate|].
    destruct p1 as [|x p1]; [discriminate|]. cbn in Ep. inversion Ep. eapply IH; eassumption. }
  pose proof (defs_available string String.eqb string_eqb_spec' mprog def (g_importer t) g_parse
                ok_str ok_str_mono (closedb_sound t Hc) _ _ _ _ _ C0 N0 E P0 d Hd) as H.
  eapply ok_str_mono; [|exact H].
  intros x [Hx|(m & [] & _)]. exact Hx.
Qed.
